package main

import (
	"bytes"
	"crypto/mldsaref"
	"fmt"
	"math/big"

	"github.com/tink-crypto/tink-go/v2/key"
	"github.com/tink-crypto/tink-go/v2/keyset"
	"github.com/tink-crypto/tink-go/v2/signature"
	"github.com/tink-crypto/tink-go/v2/signature/compositemldsa"
	"github.com/tink-crypto/tink-go/v2/signature/ecdsa"
	"github.com/tink-crypto/tink-go/v2/signature/mldsa"
	"github.com/tink-crypto/tink-go/v2/signature/rsassapss"
	"github.com/tink-crypto/tink-go/v2/signature/slhdsa"
	sigsubtle "github.com/tink-crypto/tink-go/v2/signature/subtle"
	"github.com/tink-crypto/tink-go/v2/tink"
	"verif/h"
	"verif/ref"
	"verif/tape"
)

type sigDef struct {
	name    string
	kind    string // ecdsa mldsa slhdsa pss
	params  func() (key.Parameters, error)
	draw    int // bytes of entropy one Sign call consumes
	slow    bool
	subtle  bool   // ECDSA through signature/subtle
	inst    int    // ML-DSA instance
	hash    string // PSS
	variant ref.Variant
}

func (s sigDef) String() string { return s.name }

func sigDefs() []sigDef {
	var out []sigDef
	for _, c := range []struct {
		n    string
		c    ecdsa.CurveType
		h    ecdsa.HashType
		size int
	}{{"P256", ecdsa.NistP256, ecdsa.SHA256, 32}, {"P384", ecdsa.NistP384, ecdsa.SHA384, 48}, {"P521", ecdsa.NistP521, ecdsa.SHA512, 66}} {
		for _, enc := range []struct {
			n string
			e ecdsa.SignatureEncoding
		}{{"DER", ecdsa.DER}, {"IEEE_P1363", ecdsa.IEEEP1363}} {
			for _, v := range []struct {
				r ref.Variant
				v ecdsa.Variant
			}{{ref.Tink, ecdsa.VariantTink}, {ref.Legacy, ecdsa.VariantLegacy}, {ref.Raw, ecdsa.VariantNoPrefix}} {
				c, enc, v := c, enc, v
				out = append(out, sigDef{name: fmt.Sprintf("ECDSA_%s_%s/%v", c.n, enc.n, v.r), kind: "ecdsa", draw: c.size, variant: v.r,
					params: func() (key.Parameters, error) { return ecdsa.NewParameters(c.c, c.h, enc.e, v.v) },
					slow:   v.r == ref.Legacy && c.n != "P256"})
			}
			c, enc := c, enc
			out = append(out, sigDef{name: fmt.Sprintf("ECDSA_%s_%s/subtle", c.n, enc.n), kind: "ecdsa", draw: c.size, variant: ref.Raw, subtle: true,
				params: func() (key.Parameters, error) { return ecdsa.NewParameters(c.c, c.h, enc.e, ecdsa.VariantNoPrefix) }})
		}
	}
	for _, m := range []struct {
		n int
		i mldsa.Instance
	}{{44, mldsa.MLDSA44}, {65, mldsa.MLDSA65}, {87, mldsa.MLDSA87}} {
		for _, v := range []struct {
			r ref.Variant
			v mldsa.Variant
		}{{ref.Tink, mldsa.VariantTink}, {ref.Raw, mldsa.VariantNoPrefix}} {
			m, v := m, v
			out = append(out, sigDef{name: fmt.Sprintf("ML_DSA_%d/%v", m.n, v.r), kind: "mldsa", draw: 32, inst: m.n, variant: v.r,
				params: func() (key.Parameters, error) { return mldsa.NewParameters(m.i, v.v) }})
		}
	}
	for _, c := range compositeSets {
		c := c
		out = append(out, sigDef{name: "COMPOSITE_" + c.name + "/TINK", kind: "composite", draw: c.draw, variant: ref.Tink,
			params: func() (key.Parameters, error) {
				return compositemldsa.NewParameters(c.alg, c.inst, compositemldsa.VariantTink)
			}})
	}
	for _, ht := range []slhdsa.HashType{slhdsa.SHA2, slhdsa.SHAKE} {
		for _, ks := range []int{64, 96, 128} {
			for _, st := range []slhdsa.SignatureType{slhdsa.FastSigning, slhdsa.SmallSignature} {
				ht, ks, st := ht, ks, st
				out = append(out, sigDef{name: slhName(ht, ks, st) + "/TINK", kind: "slhdsa", draw: ks / 4, variant: ref.Tink,
					params: func() (key.Parameters, error) { return slhdsa.NewParameters(ht, ks, st, slhdsa.VariantTink) },
					slow:   !(ks == 64 && st == slhdsa.FastSigning)})
			}
		}
	}
	for _, p := range []struct {
		hash string
		ht   rsassapss.HashType
		salt int
		slow bool
	}{{"SHA256", rsassapss.SHA256, 32, false}, {"SHA256", rsassapss.SHA256, 1, false}, {"SHA512", rsassapss.SHA512, 64, false}, {"SHA384", rsassapss.SHA384, 20, true}} {
		for _, v := range []struct {
			r ref.Variant
			v rsassapss.Variant
		}{{ref.Tink, rsassapss.VariantTink}, {ref.Legacy, rsassapss.VariantLegacy}} {
			p, v := p, v
			out = append(out, sigDef{name: fmt.Sprintf("RSA_SSA_PSS_2048_%s_salt%d/%v", p.hash, p.salt, v.r), kind: "pss", draw: p.salt, hash: p.hash, variant: v.r,
				params: func() (key.Parameters, error) {
					return rsassapss.NewParameters(rsassapss.ParametersValues{ModulusSizeBits: 2048, SigHashType: p.ht, MGF1HashType: p.ht, PublicExponent: 65537, SaltLengthBytes: p.salt}, v.v)
				}, slow: p.slow || v.r == ref.Legacy})
		}
	}
	return out
}

func signSection(x *h.X) {
	var defs []sigDef
	for _, d := range sigDefs() {
		if !d.slow || x.Thorough() {
			defs = append(defs, d)
		}
	}
	sd := h.Pick(x, "scheme", defs)
	e := begin(x)
	defer tape.Unbind()
	e.load(cCounter)
	params, err := sd.params()
	if err != nil {
		x.Fail("setup", "%v: %v", sd, err)
		return
	}
	m := keyset.NewManager()
	id, err := m.AddNewKeyFromParameters(params)
	if err != nil {
		x.Fail("setup", "%v: %v", sd, err)
		return
	}
	m.SetPrimary(id)
	priv, err := m.Handle()
	if err != nil {
		x.Fail("setup", "%v: %v", sd, err)
		return
	}
	pub, err := priv.Public()
	if err != nil {
		x.Fail("setup", "%v: %v", sd, err)
		return
	}
	var signer tink.Signer
	var verifier tink.Verifier
	pe, _ := priv.Primary()
	if sd.subtle {
		k := pe.Key().(*ecdsa.PrivateKey)
		p := k.Parameters().(*ecdsa.Parameters)
		pk, _ := k.PublicKey()
		pt := pk.(*ecdsa.PublicKey).PublicPoint()
		n := (len(pt) - 1) / 2
		signer, err = sigsubtle.NewECDSASigner(p.HashType().String(), map[ecdsa.CurveType]string{ecdsa.NistP256: "NIST_P256", ecdsa.NistP384: "NIST_P384", ecdsa.NistP521: "NIST_P521"}[p.CurveType()],
			p.SignatureEncoding().String(), k.PrivateKeyValue().Data(tok))
		if err == nil {
			verifier, err = sigsubtle.NewECDSAVerifier(p.HashType().String(), map[ecdsa.CurveType]string{ecdsa.NistP256: "NIST_P256", ecdsa.NistP384: "NIST_P384", ecdsa.NistP521: "NIST_P521"}[p.CurveType()],
				p.SignatureEncoding().String(), pt[1:1+n], pt[1+n:])
		}
	} else {
		signer, err = signature.NewSigner(priv)
		if err == nil {
			verifier, err = signature.NewVerifier(pub)
		}
	}
	if err != nil {
		x.Fail("setup", "%v: %v", sd, err)
		return
	}
	pre := ref.Prefix(sd.variant, id)
	x.NonTrivial()
	x.Outcome(sd.kind)
	msg := []byte("c20 message signed repeatedly")
	signed := msg
	if sd.variant == ref.Legacy {
		signed = append(bytes.Clone(msg), 0)
	}

	// exact: signature as the public derandomized function of the drawn bytes, where one exists
	var mlRef *mldsaref.PrivateKey
	if sd.kind == "mldsa" {
		seed := pe.Key().(*mldsa.PrivateKey).PrivateKeyBytes().Data(tok)
		if mlRef, err = mldsaref.NewPrivateKey(sd.inst, seed); err != nil {
			x.Fail("setup", "%v: stdlib ML-DSA key: %v", sd, err)
			return
		}
	}
	var rsaN *big.Int
	if sd.kind == "pss" {
		pk, _ := pe.Key().(*rsassapss.PrivateKey).PublicKey()
		rsaN = new(big.Int).SetBytes(pk.(*rsassapss.PublicKey).Modulus())
	}
	one := func(cfg string) (sig []byte, ds []tape.Draw, ok bool) {
		var err error
		var stream []byte
		ds, stream = e.call(func() { sig, err = signer.Sign(msg) })
		x.Eval(1)
		if err != nil {
			x.Fail("sign-error", "%s: Sign: %v", cfg, err)
			return nil, nil, false
		}
		if !bytes.HasPrefix(sig, pre) {
			x.Fail("wire", "%s: signature lacks prefix %x", cfg, pre)
			return nil, nil, false
		}
		if total(ds) < sd.draw { // more entropy than the randomizer needs (additional hedging, guards) is fine
			x.Fail("short-draw", "%s: Sign drew %d bytes of entropy (%v), the scheme's randomizer has %d", cfg, total(ds), ds, sd.draw)
		}
		body := sig[len(pre):]
		switch sd.kind {
		case "mldsa":
			// exact form only when the call drew exactly the 32-byte rnd of FIPS 204 (another way of forming rnd from
			// more entropy is not judged here; the signature's validity is C10's subject)
			want, err := mldsaref.SignWithRandom(mlRef, signed, "", stream)
			if len(stream) == 32 && (err != nil || !bytes.Equal(body, want)) {
				x.Fail("sig-not-function-of-draw", "%s: signature is not ML-DSA.Sign_internal(sk, M', rnd = drawn %x) as computed by the Go standard library (err %v)", cfg, stream, err)
			}
		case "pss":
			salt, okp := ref.PSSRecoverSalt(rsaN, 65537, sd.hash, sd.hash, signed, body)
			if !okp {
				x.Fail("wire", "%s: signature is not a well-formed EMSA-PSS encoding", cfg)
			} else if ok, why := tile(stream, []field{{"PSS salt", salt}}); !ok {
				x.Fail("salt-not-drawn-bytes", "%s: the PSS salt %x is not the entropy drawn in this call (draws %v): %s", cfg, salt, ds, why)
			}
		}
		e.quiet("Verify", cfg, func() {
			if err := verifier.Verify(sig, msg); err != nil {
				x.Fail("verify", "%s: own signature does not verify: %v", cfg, err)
			}
		})
		return sig, ds, true
	}

	desc := fmt.Sprintf("%v id=%#x", sd, id)
	// identity-type randomizers (PSS salt, ML-DSA rnd) also under the constant / distinguished streams
	if sd.kind == "pss" || sd.kind == "mldsa" {
		for _, tc := range identityContents(sd.draw, x.Thorough())[1:] {
			e.load(tc)
			if _, _, ok := one(fmt.Sprintf("%s tape=%v", desc, tc)); !ok {
				return
			}
		}
	}
	// L2: history of 4 signatures of one message on a counter tape: consecutive ranges, all different
	e.load(cCounter)
	start := e.tp.Offset()
	end := start
	var sigs [][]byte
	var firstDs []tape.Draw
	ncalls := 4
	if sd.kind == "slhdsa" {
		ncalls = 2
	}
	for i := 0; i < ncalls; i++ {
		sig, ds, ok := one(fmt.Sprintf("%s call %d", desc, i))
		if !ok {
			return
		}
		if i == 0 {
			firstDs = ds
		}
		end = consecutive(x, desc, end, ds)
		sigs = append(sigs, sig)
	}
	distinct(x, "signature-repeats", desc, "signatures of one message", sigs)
	// L4: same tape => same signature; every (quick: at least 8) single drawn byte changed => different signature
	e.load(cCounter)
	if sig, _, ok := one(desc + " replay"); ok && !bytes.Equal(sig, sigs[0]) {
		x.Fail("not-reproducible", "%s: the same tape gives a different signature", desc)
	}
	var targets []int
	for _, dd := range firstDs {
		for j := 0; j < dd.N; j++ {
			targets = append(targets, dd.Off+j)
		}
	}
	if !x.Thorough() && len(targets) > 16 {
		step := len(targets) / 8
		if sd.kind == "slhdsa" {
			step = len(targets) / 4
		}
		var t2 []int
		for i, t := range targets {
			if i%step == 0 || i == len(targets)-1 {
				t2 = append(t2, t)
			}
		}
		targets = t2
	}
	images := [][]byte{sigs[0]}
	masks := []byte{0x01}
	if x.Thorough() && sd.kind != "slhdsa" {
		masks = []byte{0x01, 0x80}
	}
	for _, t := range targets {
		for _, mk := range masks {
			e.load(flipped(t, mk))
			sig, _, ok := one(fmt.Sprintf("%s tape=counter with byte %d ^ %02x", desc, t-start, mk))
			if !ok {
				return
			}
			images = append(images, sig)
		}
	}
	// full length, tolerant form: at least sd.draw drawn bytes must each influence the signature; drawn bytes beyond
	// that may be surplus
	insensitive := 0
	for _, im := range images[1:] {
		if bytes.Equal(im, images[0]) {
			insensitive++
		}
	}
	drawn := 0
	for _, dd := range firstDs {
		drawn += dd.N
	}
	if surplus := (drawn - sd.draw) * len(masks); insensitive > surplus {
		x.Fail("signature-ignores-drawn-byte", "%s: %d of %d single-byte changes of the drawn entropy leave the signature unchanged although only %d drawn bytes are surplus (%d drawn, randomizer %d)", desc, insensitive, len(images)-1, drawn-sd.draw, drawn, sd.draw)
	}
}
