package main

import (
	"bytes"
	"fmt"
	"io"

	"github.com/tink-crypto/tink-go/v2/insecuresecretdataaccess"
	"github.com/tink-crypto/tink-go/v2/key"
	"github.com/tink-crypto/tink-go/v2/secretdata"
	"github.com/tink-crypto/tink-go/v2/streamingaead"
	sctrhmac "github.com/tink-crypto/tink-go/v2/streamingaead/aesctrhmac"
	sgcmhkdf "github.com/tink-crypto/tink-go/v2/streamingaead/aesgcmhkdf"
	ssubtle "github.com/tink-crypto/tink-go/v2/streamingaead/subtle"
	"github.com/tink-crypto/tink-go/v2/tink"
	"verif/h"
	"verif/ref"
	"verif/tape"
	"verif/tk"
)

type streamCfg struct {
	scheme  string // AES-GCM-HKDF / AES-CTR-HMAC
	keySize int    // main key
	dks     int    // derived key size == salt size
	hkdf    string
	tagAlg  string
	tagSize int
	seg     int
	path    string // keyset / subtle
}

func (s streamCfg) String() string {
	return fmt.Sprintf("%s mainkey=%d derived=%d hkdf=%s tag=%s/%d seg=%d via %s", s.scheme, s.keySize, s.dks, s.hkdf, s.tagAlg, s.tagSize, s.seg, s.path)
}

func streamCfgs(thorough bool) []streamCfg {
	var out []streamCfg
	hk := []string{"SHA256"}
	if thorough {
		hk = []string{"SHA1", "SHA256", "SHA512"}
	}
	for _, path := range []string{"keyset", "subtle"} {
		for _, dks := range []int{16, 32} {
			for _, ks := range []int{dks, 32, 48} {
				if ks < dks || (ks == 48 && (!thorough || path == "keyset")) {
					continue // main keys of other sizes than 16/32 exist only behind the subtle constructors
				}
				for _, hh := range hk {
					for _, seg := range []int{dks + 40, 4096} {
						out = append(out, streamCfg{"AES-GCM-HKDF", ks, dks, hh, "", 0, seg, path})
					}
					tags := []struct {
						alg string
						n   int
					}{{"SHA256", 32}, {"SHA1", 10}}
					if thorough {
						tags = append(tags, struct {
							alg string
							n   int
						}{"SHA512", 64})
					}
					for _, tg := range tags {
						out = append(out, streamCfg{"AES-CTR-HMAC", ks, dks, hh, tg.alg, tg.n, dks + 8 + tg.n + 16, path})
					}
				}
			}
		}
	}
	// de-duplicate (ks == dks appears twice for dks == 32)
	seen := map[string]bool{}
	var u []streamCfg
	for _, c := range out {
		if !seen[c.String()] {
			seen[c.String()] = true
			u = append(u, c)
		}
	}
	return u
}

func (s streamCfg) build(label string) (tink.StreamingAEAD, error) {
	kb := ref.KeyBytes("c20-stream-"+label+s.String(), s.keySize)
	if s.path == "subtle" {
		if s.scheme == "AES-GCM-HKDF" {
			return ssubtle.NewAESGCMHKDF(kb, s.hkdf, s.dks, s.seg, 0)
		}
		return ssubtle.NewAESCTRHMAC(kb, s.hkdf, s.dks, s.tagAlg, s.tagSize, s.seg, 0)
	}
	var k key.Key
	sdk := secretdata.NewBytesFromData(kb, insecuresecretdataaccess.Token{})
	if s.scheme == "AES-GCM-HKDF" {
		ht := map[string]sgcmhkdf.HashType{"SHA1": sgcmhkdf.SHA1, "SHA256": sgcmhkdf.SHA256, "SHA512": sgcmhkdf.SHA512}[s.hkdf]
		p, err := sgcmhkdf.NewParameters(sgcmhkdf.ParametersOpts{KeySizeInBytes: s.keySize, DerivedKeySizeInBytes: s.dks, HKDFHashType: ht, SegmentSizeInBytes: int32(s.seg)})
		if err != nil {
			return nil, err
		}
		if k, err = sgcmhkdf.NewKey(p, sdk); err != nil {
			return nil, err
		}
	} else {
		hm := map[string]sctrhmac.HashType{"SHA1": sctrhmac.SHA1, "SHA256": sctrhmac.SHA256, "SHA512": sctrhmac.SHA512}
		p, err := sctrhmac.NewParameters(sctrhmac.ParametersOpts{KeySizeInBytes: s.keySize, DerivedKeySizeInBytes: s.dks, HkdfHashType: hm[s.hkdf],
			HmacHashType: hm[s.tagAlg], HmacTagSizeInBytes: s.tagSize, SegmentSizeInBytes: int32(s.seg)})
		if err != nil {
			return nil, err
		}
		if k, err = sctrhmac.NewKey(p, sdk); err != nil {
			return nil, err
		}
	}
	hd, err := tk.Handle([]tk.Entry{{Key: k, ID: 0x01020304, Primary: true}})
	if err != nil {
		return nil, err
	}
	return streamingaead.New(hd)
}

// streamCall opens one encrypting writer, writes pt in two pieces and closes. Fields: header salt (derived key
// size bytes) and nonce prefix (7 bytes). Everything after NewEncryptingWriter, and all of decryption, is quiet.
func streamCall(e *env, a tink.StreamingAEAD, s streamCfg, pt []byte, cfg string) (salt, np []byte, ds []tape.Draw, ok bool) {
	x := e.x
	var buf bytes.Buffer
	var w io.WriteCloser
	var err error
	ds, stream := e.call(func() { w, err = a.NewEncryptingWriter(&buf, adA) })
	x.Eval(1)
	if err != nil {
		x.Fail("encrypt-error", "%s: NewEncryptingWriter: %v", cfg, err)
		return nil, nil, nil, false
	}
	e.quiet("Write/Close", cfg, func() {
		w.Write(pt[:len(pt)/2])
		w.Write(pt[len(pt)/2:])
		if err := w.Close(); err != nil {
			x.Fail("encrypt-error", "%s: Close: %v", cfg, err)
		}
	})
	ct := buf.Bytes()
	hl := 1 + s.dks + 7
	if len(ct) < hl || int(ct[0]) != hl {
		x.Fail("wire", "%s: header %s, want length byte %d", cfg, tk.Hex(ct), hl)
		return nil, nil, nil, false
	}
	salt, np = ct[1:1+s.dks], ct[1+s.dks:hl]
	if ok, why := tile(stream, []field{{"salt", salt}, {"nonce prefix", np}}); !ok {
		x.Fail("header-not-drawn-bytes", "%s: header salt %x / nonce prefix %x are not the entropy drawn in this call (draws %v): %s", cfg, salt, np, ds, why)
		return nil, nil, nil, false
	}
	e.quiet("NewDecryptingReader/Read", cfg, func() {
		r, err := a.NewDecryptingReader(bytes.NewReader(ct), adA)
		if err != nil {
			x.Fail("decrypt", "%s: NewDecryptingReader: %v", cfg, err)
			return
		}
		got, err := io.ReadAll(r)
		if err != nil || !bytes.Equal(got, pt) {
			x.Fail("decrypt", "%s: own ciphertext does not decrypt: %v", cfg, err)
		}
	})
	return salt, np, ds, true
}

func streamSection(x *h.X) {
	cfgs := streamCfgs(x.Thorough())
	s := h.Pick(x, "config", cfgs)
	e := begin(x)
	defer tape.Unbind()
	e.load(cCounter)
	a, err := s.build("a")
	if err != nil {
		x.Fail("construct", "%v: %v", s, err)
		return
	}
	b, err := s.build("b")
	if err != nil {
		x.Fail("construct", "%v: %v", s, err)
		return
	}
	x.NonTrivial()
	x.Outcome(s.scheme + "/" + s.path)
	long := bytes.Repeat(ptB, 3)
	n := s.dks + 7
	for _, tc := range identityContents(2*n, x.Thorough()) {
		cfg := fmt.Sprintf("%v tape=%v", s, tc)
		e.load(tc)
		end := 0
		var salts, nps [][]byte
		seq := []struct {
			p  tink.StreamingAEAD
			pt []byte
		}{{a, ptA}, {a, ptA}, {a, long}, {a, ptA}, {b, ptA}, {a, ptA}, {b, long}, {a, long}}
		if tc.name != "counter" {
			seq = seq[:2]
		}
		for i, c := range seq {
			salt, np, ds, ok := streamCall(e, c.p, s, c.pt, fmt.Sprintf("%s call %d", cfg, i))
			if !ok {
				return
			}
			end = consecutive(x, cfg, end, ds)
			salts, nps = append(salts, salt), append(nps, np)
		}
		if tc.name == "counter" {
			distinct(x, "salt-repeats", cfg, "header salts", salts)
			distinct(x, "nonce-prefix-repeats", cfg, "nonce prefixes", nps)
			if end < len(seq)*n { // surplus draws are allowed
				x.Fail("tape-range", "%s: %d writers consumed %d tape bytes, want at least %d x %d", cfg, len(seq), end, len(seq), n)
			}
		}
	}
}
