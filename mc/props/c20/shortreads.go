package main

// Section entropy-source-short-reads: the process-wide entropy source crypto/rand.Reader is an io.Reader that an
// application may replace, and an io.Reader may legally return FEWER bytes than asked for. Here it is replaced by a
// source that serves at most 7 bytes per call from a stream that never contains a zero byte: every random field must
// still be filled completely (crypto/rand.Read loops; a direct Reader.Read whose count is ignored leaves a zero tail).
// No entropy tape is bound in this section; it runs alone (Serial) and restores the reader.

import (
	"bytes"
	cryptorand "crypto/rand"
	"fmt"
	"sync"

	"github.com/tink-crypto/tink-go/v2/aead"
	"github.com/tink-crypto/tink-go/v2/daead"
	"github.com/tink-crypto/tink-go/v2/hybrid"
	"github.com/tink-crypto/tink-go/v2/keyset"
	"github.com/tink-crypto/tink-go/v2/mac"
	"github.com/tink-crypto/tink-go/v2/prf"
	tinkpb "github.com/tink-crypto/tink-go/v2/proto/tink_go_proto"
	"github.com/tink-crypto/tink-go/v2/signature"
	"github.com/tink-crypto/tink-go/v2/signature/mldsa"
	"github.com/tink-crypto/tink-go/v2/streamingaead"
	"github.com/tink-crypto/tink-go/v2/subtle/random"
	"verif/h"
	"verif/tape"
)

type shortSource struct {
	mu  sync.Mutex
	pos int
	max int
	n   int // calls
}

func (s *shortSource) Read(p []byte) (int, error) {
	s.mu.Lock()
	defer s.mu.Unlock()
	s.n++
	n := len(p)
	if n > s.max {
		n = s.max
	}
	for i := 0; i < n; i++ {
		p[i] = byte(1 + s.pos%255) // 1..255: a zero byte in a random field was never written
		s.pos++
	}
	return n, nil
}

func shortReadsSection(x *h.X) {
	tape.Unbind()
	src := &shortSource{max: 7}
	old := cryptorand.Reader
	cryptorand.Reader = src
	defer func() { cryptorand.Reader = old }()
	x.NonTrivial()
	filled := func(what string, b []byte) {
		x.Eval(1)
		if i := bytes.IndexByte(b, 0); i >= 0 {
			x.Fail("random-field-not-filled", "entropy source returning at most %d bytes per call (never a zero byte): %s = %x has an unwritten byte at position %d of %d", src.max, what, b, i, len(b))
		}
	}
	for _, n := range []int{1, 6, 7, 8, 12, 13, 14, 15, 16, 24, 32, 33, 100} {
		filled(fmt.Sprintf("subtle/random.GetRandomBytes(%d)", n), random.GetRandomBytes(uint32(n)))
	}
	type tc struct {
		name  string
		t     *tinkpb.KeyTemplate
		nonce int
	}
	for _, c := range []tc{{"AES128-GCM", aead.AES128GCMKeyTemplate(), 12}, {"AES256-GCM-SIV", aead.AES256GCMSIVKeyTemplate(), 12}, {"AES128-CTR-HMAC-SHA256", aead.AES128CTRHMACSHA256KeyTemplate(), 16},
		{"ChaCha20-Poly1305", aead.ChaCha20Poly1305KeyTemplate(), 12}, {"XChaCha20-Poly1305", aead.XChaCha20Poly1305KeyTemplate(), 24}, {"XAES-256-GCM (salt 12 + IV 12)", aead.XAES256GCM192BitNonceKeyTemplate(), 24}} {
		hd, err := keyset.NewHandle(c.t)
		if err != nil {
			x.Fail("construct", "%s: %v", c.name, err)
			continue
		}
		a, err := aead.New(hd)
		if err != nil {
			x.Fail("construct", "%s: %v", c.name, err)
			continue
		}
		for i := 0; i < 3; i++ {
			ct, err := a.Encrypt([]byte("plaintext"), nil)
			if err != nil || len(ct) < 5+c.nonce {
				x.Fail("encrypt-error", "%s: %v (len %d)", c.name, err, len(ct))
				break
			}
			filled(c.name+" nonce", ct[5:5+c.nonce])
			if pt, err := a.Decrypt(ct, nil); err != nil || string(pt) != "plaintext" {
				x.Fail("decrypt", "%s: own ciphertext does not decrypt: %v", c.name, err)
			}
		}
	}
	hd, err := keyset.NewHandle(streamingaead.AES128GCMHKDF4KBKeyTemplate())
	if err == nil {
		if s, err := streamingaead.New(hd); err == nil {
			var buf bytes.Buffer
			if w, err := s.NewEncryptingWriter(&buf, nil); err == nil {
				w.Write([]byte("plaintext"))
				w.Close()
				if buf.Len() >= 24 {
					filled("streaming AES128-GCM-HKDF header salt || nonce prefix", buf.Bytes()[1:24])
				}
			}
		}
	}
	x.Outcome(fmt.Sprintf("short-reads/source-called-%d-times", src.n/100*100))
	// CONSUMPTION law for draws that are not visible in an output field (key generation, hedged signing, ephemeral
	// keys): an operation must take at least as many bytes from a source that serves 7 bytes per call as it takes
	// from one that serves everything at once - a draw whose short count is ignored consumes less. (Only operations
	// without rejection sampling: the amount requested does not depend on the bytes served.)
	mp, err := mldsa.NewParameters(mldsa.MLDSA65, mldsa.VariantTink)
	if err != nil {
		x.Fail("construct", "mldsa.NewParameters: %v", err)
		return
	}
	cryptorand.Reader = old
	mlHandle := func() *keyset.Handle {
		m := keyset.NewManager()
		id, err := m.AddNewKeyFromParameters(mp)
		if err != nil {
			return nil
		}
		m.SetPrimary(id)
		hd, _ := m.Handle()
		return hd
	}
	signHandle := mlHandle()
	var mlSigner interface{ Sign([]byte) ([]byte, error) }
	if signHandle != nil {
		mlSigner, _ = signature.NewSigner(signHandle)
	}
	hp, _ := keyset.NewHandle(hybrid.DHKEM_X25519_HKDF_SHA256_HKDF_SHA256_AES_256_GCM_Key_Template())
	var henc interface {
		Encrypt(pt, info []byte) ([]byte, error)
	}
	if hp != nil {
		if pub, err := hp.Public(); err == nil {
			henc, _ = hybrid.NewHybridEncrypt(pub)
		}
	}
	newHandle := func(t *tinkpb.KeyTemplate) func() bool {
		return func() bool { _, err := keyset.NewHandle(t); return err == nil }
	}
	ops := []struct {
		name string
		f    func() bool
	}{
		{"ML-DSA-65 key generation (Manager.AddNewKeyFromParameters)", func() bool { return mlHandle() != nil }},
		{"ML-DSA-65 hedged Sign", func() bool {
			if mlSigner == nil {
				return false
			}
			_, err := mlSigner.Sign([]byte("message"))
			return err == nil
		}},
		{"HPKE X25519 Encrypt (ephemeral key)", func() bool {
			if henc == nil {
				return false
			}
			_, err := henc.Encrypt([]byte("plaintext"), nil)
			return err == nil
		}},
		{"AES256-GCM key generation", newHandle(aead.AES256GCMKeyTemplate())},
		{"XChaCha20-Poly1305 key generation", newHandle(aead.XChaCha20Poly1305KeyTemplate())},
		{"HMAC-SHA256 key generation", newHandle(mac.HMACSHA256Tag256KeyTemplate())},
		{"AES-SIV key generation", newHandle(daead.AESSIVKeyTemplate())},
		{"Ed25519 key generation", newHandle(signature.ED25519KeyTemplate())},
		{"HPKE X25519 key generation", newHandle(hybrid.DHKEM_X25519_HKDF_SHA256_HKDF_SHA256_AES_256_GCM_Key_Template())},
		{"HKDF-PRF key generation", newHandle(prf.HKDFSHA256PRFKeyTemplate())},
	}
	for _, op := range ops {
		served := func(max int) (int, bool) {
			s := &shortSource{max: max}
			cryptorand.Reader = s
			ok := op.f()
			cryptorand.Reader = old
			return s.pos, ok
		}
		full, ok1 := served(1 << 30)
		short, ok2 := served(7)
		x.Eval(1)
		if !ok1 || !ok2 {
			x.Fail("short-reads-error", "%s fails under a replaced entropy source (full reads ok=%v, short reads ok=%v)", op.name, ok1, ok2)
			continue
		}
		if full == 0 {
			x.Outcome("consumption/not-drawn-through-crypto/rand.Reader:" + op.name)
			continue
		}
		if short < full {
			x.Fail("entropy-consumption-drops", "%s takes %d bytes from an entropy source that serves everything at once but only %d bytes from one that serves at most 7 bytes per call: a short read was taken for a full one", op.name, full, short)
		}
		x.Outcome("consumption/ok")
	}
}
