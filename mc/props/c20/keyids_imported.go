package main

import (
	"bytes"
	"fmt"

	"github.com/tink-crypto/tink-go/v2/aead"
	"github.com/tink-crypto/tink-go/v2/aead/aesgcm"
	"github.com/tink-crypto/tink-go/v2/keyset"
	tinkpb "github.com/tink-crypto/tink-go/v2/proto/tink_go_proto"
	"github.com/tink-crypto/tink-go/v2/secretdata"
	"verif/h"
	"verif/tape"
	"verif/tk"
)

// keyIDImportedSection: key ids handed out by a manager created FROM A HANDLE are distinct from every imported
// key's id – for imported keys with and without an id requirement and every status – also when the entropy source
// answers the id draw with exactly an imported id (k = 1..3 times in a row). The colliding draw is scripted with the
// bytes that reproduce the imported id in big- and in little-endian order (whichever the implementation reads, one
// of the two scripts collides; the other one is a harmless extra case).
func keyIDImportedSection(x *h.X) {
	entry := h.Pick(x, "entry-point", []string{"Manager.Add(TINK template)", "Manager.Add(RAW template)", "Manager.AddNewKeyFromParameters", "Manager.AddKey(key without id requirement)"})
	order := h.Pick(x, "byte-order-of-script", []string{"big-endian", "little-endian"})
	k := 1 + x.Choose("consecutive-collisions", 3)
	e := begin(x)
	defer tape.Unbind()
	tinkP, _ := aesgcm.NewParameters(aesgcm.ParametersOpts{KeySizeInBytes: 16, IVSizeInBytes: 12, TagSizeInBytes: 16, Variant: aesgcm.VariantTink})
	rawP, _ := aesgcm.NewParameters(aesgcm.ParametersOpts{KeySizeInBytes: 16, IVSizeInBytes: 12, TagSizeInBytes: 16, Variant: aesgcm.VariantNoPrefix})
	kb := secretdata.NewBytesFromData(bytes.Repeat([]byte{9}, 16), tok)
	mk := func(id uint32, p *aesgcm.Parameters) *aesgcm.Key {
		kk, err := aesgcm.NewKey(kb, id, p)
		if err != nil {
			panic(err)
		}
		return kk
	}
	imported := []tk.Entry{
		{Key: mk(0x0A0B0C0D, tinkP), ID: 0x0A0B0C0D, Status: tinkpb.KeyStatusType_ENABLED, Primary: true},
		{Key: mk(0, rawP), ID: 0x11223344, Status: tinkpb.KeyStatusType_ENABLED},
		{Key: mk(0, rawP), ID: 0x55667788, Status: tinkpb.KeyStatusType_DISABLED},
		{Key: mk(0xFFFFFFFE, tinkP), ID: 0xFFFFFFFE, Status: tinkpb.KeyStatusType_DESTROYED},
	}
	hd, err := tk.Handle(imported)
	if err != nil {
		x.Fail("setup", "%v", err)
		return
	}
	x.NonTrivial()
	x.Outcome(entry)
	for vi, victim := range imported {
		e.load(cCounter)
		km := keyset.NewManagerFromHandle(hd)
		m := e.tp.Mark()
		raw := be32(victim.ID)
		if order == "little-endian" {
			raw = idBytes(victim.ID, true)
		}
		// the id draw is the first draw of an add operation; script it (and the k-1 following ones) with the imported id
		for j := 0; j < k; j++ {
			e.tp.Answer(m+j, raw)
		}
		var id uint32
		switch entry {
		case "Manager.Add(TINK template)":
			id, err = km.Add(aead.AES128GCMKeyTemplate())
		case "Manager.Add(RAW template)":
			id, err = km.Add(aead.AES256GCMNoPrefixKeyTemplate())
		case "Manager.AddNewKeyFromParameters":
			id, err = km.AddNewKeyFromParameters(rawP)
		default:
			id, err = km.AddKey(mk(0, rawP))
		}
		x.Eval(1)
		cfg := fmt.Sprintf("%s on NewManagerFromHandle(handle with ids %x), id draw answered %d x with imported id %#x (%s, entry %d)", entry, []uint32{0x0A0B0C0D, 0x11223344, 0x55667788, 0xFFFFFFFE}, k, victim.ID, order, vi)
		if err != nil {
			x.Fail("keygen-error", "%s: %v", cfg, err)
			continue
		}
		for _, im := range imported {
			if id == im.ID {
				x.Fail("id-repeats", "%s: the new key got id %#x, which an imported key already has", cfg, id)
			}
		}
		nh, err := km.Handle()
		if err != nil {
			x.Fail("keygen-error", "%s: Handle(): %v", cfg, err)
			continue
		}
		seen := map[uint32]bool{}
		for i := 0; i < nh.Len(); i++ {
			en, _ := nh.Entry(i)
			if seen[en.KeyID()] {
				x.Fail("id-repeats", "%s: resulting keyset has two keys with id %#x", cfg, en.KeyID())
			}
			seen[en.KeyID()] = true
		}
	}
}
