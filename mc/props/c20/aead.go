package main

import (
	"bytes"
	"fmt"

	ctrhmacpb "github.com/tink-crypto/tink-go/v2/proto/aes_ctr_hmac_aead_go_proto"
	gcmpb "github.com/tink-crypto/tink-go/v2/proto/aes_gcm_go_proto"
	gcmsivpb "github.com/tink-crypto/tink-go/v2/proto/aes_gcm_siv_go_proto"
	chachapb "github.com/tink-crypto/tink-go/v2/proto/chacha20_poly1305_go_proto"
	xchachapb "github.com/tink-crypto/tink-go/v2/proto/xchacha20_poly1305_go_proto"
	"github.com/tink-crypto/tink-go/v2/tink"
	"google.golang.org/protobuf/proto"
	"verif/h"
	"verif/props/aeadcfg"
	"verif/ref"
	"verif/tape"
	"verif/tk"
)

var plainKinds = []aeadcfg.Kind{aeadcfg.GCM, aeadcfg.CTRHMAC, aeadcfg.GCMSIV, aeadcfg.CHACHA, aeadcfg.XCHACHA, aeadcfg.XAES}

var (
	ptA = []byte("c20 plaintext A")
	ptB = []byte("c20 plaintext B, a different and longer one ......................")
	adA = []byte("c20 ad")
)

// aeadCall encrypts once and judges L1 (nonce field == drawn bytes), L3 (Decrypt draws nothing, and decrypts).
// Returns the nonce field and the draws.
func aeadCall(e *env, a tink.AEAD, c *aeadcfg.Cfg, pt []byte, cfg string) ([]byte, []tape.Draw, bool) {
	x := e.x
	var ct []byte
	var err error
	ds, stream := e.call(func() { ct, err = a.Encrypt(pt, adA) })
	x.Eval(1)
	if err != nil {
		x.Fail("encrypt-error", "%s: Encrypt: %v", cfg, err)
		return nil, nil, false
	}
	nonce := c.SplitNonce(ct)
	if nonce == nil || !bytes.HasPrefix(ct, c.Prefix()) {
		x.Fail("wire", "%s: ciphertext %s too short / wrong prefix", cfg, tk.Hex(ct))
		return nil, nil, false
	}
	if ok, why := tile(stream, []field{{"nonce", nonce}}); !ok {
		x.Fail("nonce-not-drawn-bytes", "%s: the %d-byte IV/nonce field %x is not the entropy drawn in this call (draws %v): %s", cfg, len(nonce), nonce, ds, why)
		return nil, nil, false
	}
	e.quiet("Decrypt", cfg, func() {
		got, err := a.Decrypt(ct, adA)
		if err != nil || !bytes.Equal(got, pt) {
			x.Fail("decrypt", "%s: own ciphertext does not decrypt: %v", cfg, err)
		}
	})
	return nonce, ds, true
}

func aeadSection(x *h.X) {
	kind := h.Pick(x, "kind", plainKinds)
	e := begin(x)
	defer tape.Unbind()
	c, ok := aeadcfg.Choose(x, kind, aeadcfg.Opts{OneID: true, AllVariants: true})
	if !ok {
		return
	}
	e.load(cCounter)
	a, err := c.Build()
	if err != nil {
		x.Fail("construct", "%v: %v", c, err)
		return
	}
	b, err := c.Other().Build()
	if err != nil {
		x.Fail("construct", "%v (second key): %v", c, err)
		return
	}
	x.NonTrivial()
	x.Outcome(kind.String() + "/" + c.Path)
	n := c.NonceSize()
	for _, tc := range identityContents(2*n, x.Thorough()) {
		cfg := fmt.Sprintf("%v tape=%v", c, tc)
		e.load(tc)
		end := 0
		var nonces [][]byte
		// history: A(ptA) A(ptA) A(ptB) A(ptA)
		for i, pt := range [][]byte{ptA, ptA, ptB, ptA} {
			nonce, ds, ok := aeadCall(e, a, c, pt, fmt.Sprintf("%s call %d", cfg, i))
			if !ok {
				return
			}
			end = consecutive(x, cfg, end, ds)
			nonces = append(nonces, nonce)
			if tc.name != "counter" && i == 1 {
				break // the distinguished / constant streams are judged on two calls
			}
		}
		if tc.name == "counter" {
			// two primitives interleaved on the same tape: B A B A
			for i, p := range []tink.AEAD{b, a, b, a} {
				cc := c
				if i%2 == 0 {
					cc = c.Other()
				}
				nonce, ds, ok := aeadCall(e, p, cc, ptA, fmt.Sprintf("%s interleaved call %d", cfg, i))
				if !ok {
					return
				}
				end = consecutive(x, cfg, end, ds)
				nonces = append(nonces, nonce)
			}
			distinct(x, "nonce-repeats", cfg, "IV/nonce fields", nonces)
			if end < len(nonces)*n { // surplus draws are allowed, a call drawing LESS than the field length is not
				x.Fail("tape-range", "%s: %d calls consumed %d tape bytes, want at least %d x %d", cfg, len(nonces), end, len(nonces), n)
			}
		}
	}
}

// dekMaterial parses the serialized DEK and returns its secret key material fields.
func dekMaterial(kind aeadcfg.Kind, ser []byte) ([]field, error) {
	switch kind {
	case aeadcfg.GCM:
		m := &gcmpb.AesGcmKey{}
		if err := proto.Unmarshal(ser, m); err != nil {
			return nil, err
		}
		return []field{{"DEK AES-GCM key", m.GetKeyValue()}}, nil
	case aeadcfg.GCMSIV:
		m := &gcmsivpb.AesGcmSivKey{}
		if err := proto.Unmarshal(ser, m); err != nil {
			return nil, err
		}
		return []field{{"DEK AES-GCM-SIV key", m.GetKeyValue()}}, nil
	case aeadcfg.CHACHA:
		m := &chachapb.ChaCha20Poly1305Key{}
		if err := proto.Unmarshal(ser, m); err != nil {
			return nil, err
		}
		return []field{{"DEK ChaCha20-Poly1305 key", m.GetKeyValue()}}, nil
	case aeadcfg.XCHACHA:
		m := &xchachapb.XChaCha20Poly1305Key{}
		if err := proto.Unmarshal(ser, m); err != nil {
			return nil, err
		}
		return []field{{"DEK XChaCha20-Poly1305 key", m.GetKeyValue()}}, nil
	case aeadcfg.CTRHMAC:
		m := &ctrhmacpb.AesCtrHmacAeadKey{}
		if err := proto.Unmarshal(ser, m); err != nil {
			return nil, err
		}
		return []field{{"DEK AES-CTR key", m.GetAesCtrKey().GetKeyValue()}, {"DEK HMAC key", m.GetHmacKey().GetKeyValue()}}, nil
	}
	return nil, fmt.Errorf("kind %v cannot be a DEK", kind)
}

// envelopeCall: one Encrypt of a KMS envelope AEAD. Fields: fresh DEK key material (recovered by decrypting the
// encrypted DEK with the reference AES-GCM under the known KEK), the IV of the KEK encryption, the IV/nonce of
// the payload encryption.
func envelopeCall(e *env, a tink.AEAD, c *aeadcfg.Cfg, pt []byte, cfg string) (fs []field, ds []tape.Draw, ok bool) {
	x := e.x
	var ct []byte
	var err error
	ds, stream := e.call(func() { ct, err = a.Encrypt(pt, adA) })
	x.Eval(1)
	if err != nil {
		x.Fail("encrypt-error", "%s: Encrypt: %v", cfg, err)
		return nil, nil, false
	}
	pre := c.Prefix()
	if !bytes.HasPrefix(ct, pre) {
		x.Fail("wire", "%s: ciphertext lacks prefix %x", cfg, pre)
		return nil, nil, false
	}
	encDEK, payload, okp := ref.AeadEnvelopeParse(ct[len(pre):])
	if !okp {
		x.Fail("wire", "%s: envelope framing invalid", cfg)
		return nil, nil, false
	}
	kpre := c.KEK.Prefix()
	dekSer, err := c.KEK.RefDecrypt(encDEK, nil)
	if err != nil || len(encDEK) < len(kpre)+12 {
		x.Fail("wire", "%s: encrypted DEK does not decrypt under the KEK with the reference: %v", cfg, err)
		return nil, nil, false
	}
	fs, err = dekMaterial(c.DEK.Kind, dekSer)
	if err != nil {
		x.Fail("wire", "%s: DEK proto: %v", cfg, err)
		return nil, nil, false
	}
	if len(fs[0].b) != c.DEK.KeySize {
		x.Fail("dek-size", "%s: DEK key of %d bytes, template says %d", cfg, len(fs[0].b), c.DEK.KeySize)
	}
	dn := c.DEK.NonceSize()
	if len(payload) < dn {
		x.Fail("wire", "%s: payload too short", cfg)
		return nil, nil, false
	}
	fs = append(fs, field{"KEK IV", encDEK[len(kpre) : len(kpre)+12]}, field{"payload IV/nonce", payload[:dn]})
	if ok, why := tile(stream, fs); !ok {
		x.Fail("envelope-fields-not-drawn-bytes", "%s: DEK material / IVs are not the entropy drawn in this call (draws %v): %s", cfg, ds, why)
		return nil, nil, false
	}
	e.quiet("Decrypt", cfg, func() {
		got, err := a.Decrypt(ct, adA)
		if err != nil || !bytes.Equal(got, pt) {
			x.Fail("decrypt", "%s: own ciphertext does not decrypt: %v", cfg, err)
		}
	})
	return fs, ds, true
}

func envelopeSection(x *h.X) {
	e := begin(x)
	defer tape.Unbind()
	c, ok := aeadcfg.Choose(x, aeadcfg.ENVELOPE, aeadcfg.Opts{OneID: true, AllVariants: true})
	if !ok {
		return
	}
	e.load(cCounter)
	a, err := c.Build()
	if err != nil {
		x.Fail("construct", "%v: %v", c, err)
		return
	}
	x.NonTrivial()
	x.Outcome("envelope/" + c.DEKName + "/" + c.Path)
	span := c.DEK.KeySize + c.DEK.MACKeySize + 12 + c.DEK.NonceSize()
	cs := identityContents(span, x.Thorough())
	for _, tc := range cs {
		cfg := fmt.Sprintf("%v tape=%v", c, tc)
		e.load(tc)
		end := 0
		byName := map[string][][]byte{}
		var names []string
		calls := [][]byte{ptA, ptA, ptB, ptA}
		if tc.name != "counter" {
			calls = calls[:1]
		}
		for i, pt := range calls {
			fs, ds, ok := envelopeCall(e, a, c, pt, fmt.Sprintf("%s call %d", cfg, i))
			if !ok {
				return
			}
			end = consecutive(x, cfg, end, ds)
			for _, f := range fs {
				if _, seen := byName[f.name]; !seen {
					names = append(names, f.name)
				}
				byName[f.name] = append(byName[f.name], f.b)
			}
		}
		if tc.name == "counter" {
			for _, name := range names {
				distinct(x, "envelope-field-repeats", cfg, name, byName[name])
			}
			if end < len(calls)*span { // surplus draws are allowed
				x.Fail("tape-range", "%s: %d calls consumed %d tape bytes, want at least %d x %d", cfg, len(calls), end, len(calls), span)
			}
		}
	}
}
