package main

import (
	"bytes"
	"crypto/ecdh"
	"fmt"

	"github.com/tink-crypto/tink-go/v2/aead/aesctrhmac"
	"github.com/tink-crypto/tink-go/v2/aead/aesgcm"
	"github.com/tink-crypto/tink-go/v2/daead/aessiv"
	"github.com/tink-crypto/tink-go/v2/hybrid"
	"github.com/tink-crypto/tink-go/v2/hybrid/ecies"
	"github.com/tink-crypto/tink-go/v2/hybrid/hpke"
	"github.com/tink-crypto/tink-go/v2/key"
	"github.com/tink-crypto/tink-go/v2/keyset"
	"github.com/tink-crypto/tink-go/v2/tink"
	"verif/h"
	"verif/ref"
	"verif/tape"
	"verif/tk"
)

// recipient generates a key pair of the given parameters (under the bound tape: deterministic) and returns the
// encrypter for its public keyset, the decrypter and the public key object.
func recipient(params key.Parameters) (tink.HybridEncrypt, tink.HybridDecrypt, key.Key, uint32, error) {
	m := keyset.NewManager()
	id, err := m.AddNewKeyFromParameters(params)
	if err != nil {
		return nil, nil, nil, 0, err
	}
	if err := m.SetPrimary(id); err != nil {
		return nil, nil, nil, 0, err
	}
	priv, err := m.Handle()
	if err != nil {
		return nil, nil, nil, 0, err
	}
	pub, err := priv.Public()
	if err != nil {
		return nil, nil, nil, 0, err
	}
	enc, err := hybrid.NewHybridEncrypt(pub)
	if err != nil {
		return nil, nil, nil, 0, err
	}
	dec, err := hybrid.NewHybridDecrypt(priv)
	if err != nil {
		return nil, nil, nil, 0, err
	}
	pe, err := pub.Primary()
	if err != nil {
		return nil, nil, nil, 0, err
	}
	return enc, dec, pe.Key(), id, nil
}

type kemDef struct {
	name string
	id   hpke.KEMID
	nEnc int
	draw int  // bytes of entropy one encapsulation needs
	mask byte // a bit of every drawn byte that the KEM's key generation does not discard
	// (X25519 clamps bits 0-2 of byte 0 and bits 6-7 of byte 31: use bit 4; P-521 discards the 7 excess bits of byte 0: use bit 0)
}

func (k kemDef) String() string { return k.name }

var kems = []kemDef{
	{"DHKEM-X25519", hpke.DHKEM_X25519_HKDF_SHA256, 32, 32, 0x10},
	{"DHKEM-P256", hpke.DHKEM_P256_HKDF_SHA256, 65, 32, 0x01},
	{"DHKEM-P384", hpke.DHKEM_P384_HKDF_SHA384, 97, 48, 0x01},
	{"DHKEM-P521", hpke.DHKEM_P521_HKDF_SHA512, 133, 66, 0x01},
	{"ML-KEM-768", hpke.ML_KEM768, 1088, 32, 0x10},
	{"ML-KEM-1024", hpke.ML_KEM1024, 1568, 32, 0x10},
	{"X-Wing", hpke.X_WING, 1120, 64, 0x10},
}

var hpkeVariants = map[ref.Variant]hpke.Variant{ref.Tink: hpke.VariantTink, ref.Crunchy: hpke.VariantCrunchy, ref.Raw: hpke.VariantNoPrefix}

func x25519Public(scalar []byte) []byte {
	k, err := ecdh.X25519().NewPrivateKey(scalar)
	if err != nil {
		return nil
	}
	return k.PublicKey().Bytes()
}

// hybridEnc encrypts once; returns the bytes between prefix and the symmetric part start (nEnc bytes), the rest,
// the draws and the drawn stream. Judges L3 for Decrypt.
func hybridEnc(e *env, enc tink.HybridEncrypt, dec tink.HybridDecrypt, pre []byte, nEnc int, pt []byte, cfg string) (encap, rest []byte, ds []tape.Draw, stream []byte, ok bool) {
	x := e.x
	var ct []byte
	var err error
	ds, stream = e.call(func() { ct, err = enc.Encrypt(pt, adA) })
	x.Eval(1)
	if err != nil {
		x.Fail("encrypt-error", "%s: Encrypt: %v", cfg, err)
		return nil, nil, nil, nil, false
	}
	if !bytes.HasPrefix(ct, pre) || len(ct) < len(pre)+nEnc {
		x.Fail("wire", "%s: ciphertext %s: wrong prefix (want %x) or shorter than the encapsulation", cfg, tk.Hex(ct), pre)
		return nil, nil, nil, nil, false
	}
	e.quiet("Decrypt", cfg, func() {
		got, err := dec.Decrypt(ct, adA)
		if err != nil || !bytes.Equal(got, pt) {
			x.Fail("decrypt", "%s: own ciphertext does not decrypt: %v", cfg, err)
		}
	})
	return ct[len(pre) : len(pre)+nEnc], ct[len(pre)+nEnc:], ds, stream, true
}

func hpkeSection(x *h.X) {
	kem := h.Pick(x, "kem", kems)
	type suite struct {
		kdf  hpke.KDFID
		aead hpke.AEADID
	}
	suites := []suite{{hpke.HKDFSHA256, hpke.AES128GCM}, {hpke.HKDFSHA512, hpke.ChaCha20Poly1305}}
	if x.Thorough() {
		suites = []suite{{hpke.HKDFSHA256, hpke.AES128GCM}, {hpke.HKDFSHA256, hpke.AES256GCM}, {hpke.HKDFSHA256, hpke.ChaCha20Poly1305},
			{hpke.HKDFSHA384, hpke.AES128GCM}, {hpke.HKDFSHA384, hpke.AES256GCM}, {hpke.HKDFSHA384, hpke.ChaCha20Poly1305},
			{hpke.HKDFSHA512, hpke.AES128GCM}, {hpke.HKDFSHA512, hpke.AES256GCM}, {hpke.HKDFSHA512, hpke.ChaCha20Poly1305}}
	}
	si := x.Choose("suite", len(suites))
	x.Label(fmt.Sprintf("%v/%v", suites[si].kdf, suites[si].aead))
	v := h.Pick(x, "variant", []ref.Variant{ref.Tink, ref.Crunchy, ref.Raw})
	e := begin(x)
	defer tape.Unbind()
	e.load(cCounter)
	params, err := hpke.NewParameters(hpke.ParametersOpts{KEMID: kem.id, KDFID: suites[si].kdf, AEADID: suites[si].aead, Variant: hpkeVariants[v]})
	if err != nil {
		x.Fail("construct", "HPKE %v: %v", kem, err)
		return
	}
	enc, dec, pubKey, id, err := recipient(params)
	if err != nil {
		x.Fail("construct", "HPKE %v: %v", kem, err)
		return
	}
	enc2, dec2, _, id2, err := recipient(params)
	if err != nil {
		x.Fail("construct", "HPKE %v: %v", kem, err)
		return
	}
	_ = pubKey
	pre, pre2 := ref.Prefix(v, id), ref.Prefix(v, id2)
	desc := fmt.Sprintf("HPKE %v/%v/%v %v", kem, suites[si].kdf, suites[si].aead, v)
	x.NonTrivial()
	x.Outcome("hpke/" + kem.name)

	// L2/L3/L4 on the counter tape: history E E' E (same, different plaintext) then two recipients interleaved
	e.load(cCounter)
	start := e.tp.Offset()
	end := start
	var encaps [][]byte
	var firstDs []tape.Draw
	seq := []struct {
		enc tink.HybridEncrypt
		dec tink.HybridDecrypt
		pre []byte
		pt  []byte
	}{{enc, dec, pre, ptA}, {enc, dec, pre, ptA}, {enc, dec, pre, ptB}, {enc2, dec2, pre2, ptA}, {enc, dec, pre, ptA}, {enc2, dec2, pre2, ptA}}
	for i, c := range seq {
		cfg := fmt.Sprintf("%s call %d", desc, i)
		encap, _, ds, stream, ok := hybridEnc(e, c.enc, c.dec, c.pre, kem.nEnc, c.pt, cfg)
		if !ok {
			return
		}
		if i == 0 {
			firstDs = ds
		}
		end = consecutive(x, cfg, end, ds)
		if total(ds) < kem.draw {
			x.Fail("short-draw", "%s: only %d bytes of entropy drawn for the encapsulation, %d needed", cfg, total(ds), kem.draw)
		}
		_ = stream
		encaps = append(encaps, encap)
	}
	distinct(x, "encapsulation-repeats", desc, "encapsulated keys", encaps)

	// L4: same tape => same enc; each single drawn byte changed => different enc (all pairwise different)
	images := [][]byte{encaps[0]}
	var targets []int
	for _, d := range firstDs {
		for j := 0; j < d.N; j++ {
			targets = append(targets, d.Off+j)
		}
	}
	if !x.Thorough() && len(targets) > 40 {
		// quick: first, last and every third byte
		var t2 []int
		for i, t := range targets {
			if i%3 == 0 || i == len(targets)-1 {
				t2 = append(t2, t)
			}
		}
		targets = t2
	}
	e.load(cCounter)
	if encap, _, _, _, ok := hybridEnc(e, enc, dec, pre, kem.nEnc, ptA, desc+" replay"); ok && !bytes.Equal(encap, encaps[0]) {
		x.Fail("not-reproducible", "%s: the same tape gives a different encapsulation", desc)
	}
	for _, t := range targets {
		e.load(flipped(t, kem.mask))
		cfg := fmt.Sprintf("%s tape=counter with byte %d ^ %#x", desc, t-start, kem.mask)
		encap, _, _, stream, ok := hybridEnc(e, enc, dec, pre, kem.nEnc, ptA, cfg)
		if !ok {
			return
		}
		_ = stream
		images = append(images, encap)
	}
	// full length, tolerant form: HOW the ephemeral secret is made from the drawn bytes is the implementation's business
	// (verbatim scalar, DeriveKeyPair(random), rejection sampling, guard bytes); at least kem.draw drawn bytes must each
	// influence the encapsulation, bytes beyond that may be surplus
	insensitive := 0
	for _, im := range images[1:] {
		if bytes.Equal(im, images[0]) {
			insensitive++
		}
	}
	drawn := 0
	for _, d := range firstDs {
		drawn += d.N
	}
	if surplus := drawn - kem.draw; insensitive > surplus && insensitive > 0 {
		x.Fail("enc-ignores-drawn-byte", "%s: %d of %d tested drawn bytes do not influence the encapsulation although only %d drawn bytes are surplus (%d drawn, %d needed)", desc, insensitive, len(images)-1, max(surplus, 0), drawn, kem.draw)
	}
}

// ---------------------------------------------------------------------------------------------------
// ECIES

type eciesDEM struct {
	name   string
	iv     int
	params func() (key.Parameters, error)
}

func (d eciesDEM) String() string { return d.name }

var eciesDEMs = []eciesDEM{
	{"AES128_GCM", 12, func() (key.Parameters, error) {
		return aesgcm.NewParameters(aesgcm.ParametersOpts{KeySizeInBytes: 16, IVSizeInBytes: 12, TagSizeInBytes: 16, Variant: aesgcm.VariantNoPrefix})
	}},
	{"AES256_GCM", 12, func() (key.Parameters, error) {
		return aesgcm.NewParameters(aesgcm.ParametersOpts{KeySizeInBytes: 32, IVSizeInBytes: 12, TagSizeInBytes: 16, Variant: aesgcm.VariantNoPrefix})
	}},
	{"AES128_CTR_HMAC_SHA256", 16, func() (key.Parameters, error) {
		return aesctrhmac.NewParameters(aesctrhmac.ParametersOpts{AESKeySizeInBytes: 16, HMACKeySizeInBytes: 32, IVSizeInBytes: 16, HashType: aesctrhmac.SHA256, TagSizeInBytes: 16, Variant: aesctrhmac.VariantNoPrefix})
	}},
	{"AES256_CTR_HMAC_SHA256", 16, func() (key.Parameters, error) {
		return aesctrhmac.NewParameters(aesctrhmac.ParametersOpts{AESKeySizeInBytes: 32, HMACKeySizeInBytes: 32, IVSizeInBytes: 16, HashType: aesctrhmac.SHA256, TagSizeInBytes: 32, Variant: aesctrhmac.VariantNoPrefix})
	}},
	// (XChaCha20-Poly1305 is an allowed DEM parameter set but the ECIES primitive refuses it: no randomized operation exists)
	{"AES256_SIV", 0, func() (key.Parameters, error) { return aessiv.NewParameters(64, aessiv.VariantNoPrefix) }},
}

type eciesCurve struct {
	name string
	ct   ecies.CurveType
	n    int
}

func (c eciesCurve) String() string { return c.name }

var eciesCurves = []eciesCurve{{"P256", ecies.NISTP256, 32}, {"P384", ecies.NISTP384, 48}, {"P521", ecies.NISTP521, 66}}

type eciesFormat struct {
	name string
	f    ecies.PointFormat
}

func (f eciesFormat) String() string { return f.name }

var eciesFormats = []eciesFormat{{"UNCOMPRESSED", ecies.UncompressedPointFormat}, {"COMPRESSED", ecies.CompressedPointFormat}, {"LEGACY_UNCOMPRESSED", ecies.LegacyUncompressedPointFormat}}

func eciesSection(x *h.X) {
	cv := h.Pick(x, "curve", eciesCurves)
	fm := h.Pick(x, "format", eciesFormats)
	dem := h.Pick(x, "dem", eciesDEMs)
	vs := []ref.Variant{ref.Tink, ref.Raw}
	if x.Thorough() {
		vs = []ref.Variant{ref.Tink, ref.Crunchy, ref.Raw}
	}
	v := h.Pick(x, "variant", vs)
	e := begin(x)
	defer tape.Unbind()
	e.load(cCounter)
	dp, err := dem.params()
	if err != nil {
		x.Fail("construct", "%v", err)
		return
	}
	ev := map[ref.Variant]ecies.Variant{ref.Tink: ecies.VariantTink, ref.Crunchy: ecies.VariantCrunchy, ref.Raw: ecies.VariantNoPrefix}[v]
	params, err := ecies.NewParameters(ecies.ParametersOpts{CurveType: cv.ct, HashType: ecies.SHA256, NISTCurvePointFormat: fm.f, DEMParameters: dp, Salt: []byte("c20"), Variant: ev})
	if err != nil {
		x.Fail("construct", "ECIES parameters: %v", err)
		return
	}
	enc, dec, _, id, err := recipient(params)
	if err != nil {
		x.Fail("construct", "ECIES %v/%v/%v: %v", cv, fm, dem, err)
		return
	}
	enc2, dec2, _, id2, err := recipient(params)
	if err != nil {
		x.Fail("construct", "ECIES: %v", err)
		return
	}
	pre, pre2 := ref.Prefix(v, id), ref.Prefix(v, id2)
	desc := fmt.Sprintf("ECIES %v/%v/%v %v", cv, fm, dem, v)
	nPoint := 1 + 2*cv.n
	switch fm.name {
	case "COMPRESSED":
		nPoint = 1 + cv.n
	case "LEGACY_UNCOMPRESSED":
		nPoint = 2 * cv.n
	}
	x.NonTrivial()
	x.Outcome("ecies/" + cv.name + "/" + dem.name)

	// one call: draws = ephemeral scalar candidate(s) (cv.n bytes each) and the DEM IV (identity field)
	one := func(enc tink.HybridEncrypt, dec tink.HybridDecrypt, pre, pt []byte, cfg string) (point, iv []byte, ds []tape.Draw, ok bool) {
		point, rest, ds, _, ok := hybridEnc(e, enc, dec, pre, nPoint, pt, cfg)
		if !ok {
			return nil, nil, nil, false
		}
		if len(rest) < dem.iv {
			x.Fail("wire", "%s: DEM ciphertext too short", cfg)
			return nil, nil, nil, false
		}
		iv = rest[:dem.iv]
		// the ephemeral scalar comes from (at least) one cv.n-byte draw; the DEM IV must be a contiguous run of the
		// OTHER bytes drawn in this call (drawing more entropy than is used is harmless and not judged)
		// (the scalar may also come from a LONGER draw reduced mod n, or from several candidates)
		var scalarDraws int
		var other []byte
		for _, d := range ds {
			if d.N >= cv.n && (dem.iv == 0 || !bytes.Contains(e.tp.Bytes(d.Off, d.N), iv) || d.N == cv.n) {
				scalarDraws++
				if d.N == cv.n {
					continue
				}
			}
			other = append(other, e.tp.Bytes(d.Off, d.N)...)
		}
		ivFound := dem.iv == 0 || bytes.Contains(other, iv)
		if !ivFound && cv.n == dem.iv {
			for _, d := range ds {
				if bytes.Equal(e.tp.Bytes(d.Off, d.N), iv) {
					ivFound = true
				}
			}
		}
		if !ivFound {
			x.Fail("dem-iv-not-drawn-bytes", "%s: DEM IV %x is not a draw of this call (draws %v)", cfg, iv, ds)
		}
		if scalarDraws < 1 {
			x.Fail("short-draw", "%s: no draw of at least %d bytes for the ephemeral key (draws %v)", cfg, cv.n, ds)
		}
		return point, iv, ds, true
	}

	e.load(cCounter)
	start := e.tp.Offset()
	end := start
	var points, ivs [][]byte
	var firstDs []tape.Draw
	seq := []struct {
		enc tink.HybridEncrypt
		dec tink.HybridDecrypt
		pre []byte
		pt  []byte
	}{{enc, dec, pre, ptA}, {enc, dec, pre, ptA}, {enc, dec, pre, ptB}, {enc2, dec2, pre2, ptA}, {enc, dec, pre, ptA}}
	for i, c := range seq {
		cfg := fmt.Sprintf("%s call %d", desc, i)
		p, iv, ds, ok := one(c.enc, c.dec, c.pre, c.pt, cfg)
		if !ok {
			return
		}
		if i == 0 {
			firstDs = ds
		}
		end = consecutive(x, cfg, end, ds)
		points = append(points, p)
		ivs = append(ivs, iv)
	}
	distinct(x, "encapsulation-repeats", desc, "ephemeral public keys", points)
	if dem.iv > 0 {
		distinct(x, "nonce-repeats", desc, "DEM IVs", ivs)
	}
	// DEM IV under constant and distinguished streams is not possible for the scalar draws (all-00 / all-FF are
	// not valid scalars), so the IV positions are exercised by flipping every IV byte of the counter stream.
	images := [][]byte{points[0]}
	var scalarTargets, ivTargets []int
	scalarSurplus := 0
	for _, d := range firstDs {
		db := e.tp.Bytes(d.Off, d.N)
		isIV := dem.iv > 0 && d.N == dem.iv && bytes.Equal(db, ivs[0])
		switch {
		case d.N >= cv.n && !isIV && (dem.iv == 0 || d.N == cv.n || !bytes.Contains(db, ivs[0])):
			// a scalar source draw: at least cv.n of its bytes must influence the ephemeral key
			for j := 0; j < d.N; j++ {
				scalarTargets = append(scalarTargets, d.Off+j)
			}
			scalarSurplus += d.N - cv.n
		case dem.iv > 0:
			// the draw carrying the DEM IV (possibly with surplus bytes that are drawn but unused, which is harmless)
			if i := bytes.Index(db, ivs[0]); i >= 0 {
				for j := 0; j < dem.iv; j++ {
					ivTargets = append(ivTargets, d.Off+i+j)
				}
			}
		}
	}
	if !x.Thorough() {
		var t2 []int
		for i, t := range scalarTargets {
			if i%6 == 0 || i == len(scalarTargets)-1 {
				t2 = append(t2, t)
			}
		}
		scalarTargets = t2
	}
	e.load(cCounter)
	if p, iv, _, ok := one(enc, dec, pre, ptA, desc+" replay"); ok && (!bytes.Equal(p, points[0]) || !bytes.Equal(iv, ivs[0])) {
		x.Fail("not-reproducible", "%s: the same tape gives a different ephemeral key / IV", desc)
	}
	for _, t := range scalarTargets {
		e.load(flipped(t, 0x01))
		p, _, _, ok := one(enc, dec, pre, ptA, fmt.Sprintf("%s tape=counter with byte %d ^ 01", desc, t-start))
		if !ok {
			return
		}
		images = append(images, p)
	}
	insensitive := 0
	for _, im := range images[1:] {
		if bytes.Equal(im, images[0]) {
			insensitive++
		}
	}
	if insensitive > scalarSurplus {
		x.Fail("enc-ignores-drawn-byte", "%s: %d of %d tested bytes of the ephemeral key's source draws do not influence the ephemeral public key although only %d bytes are surplus", desc, insensitive, len(images)-1, scalarSurplus)
	}
	for _, t := range ivTargets {
		for _, m := range []byte{0x01, 0x80, 0xff} {
			e.load(flipped(t, m))
			if _, _, _, ok := one(enc, dec, pre, ptA, fmt.Sprintf("%s tape=counter with IV byte at %d ^ %02x", desc, t-start, m)); !ok {
				return
			}
		}
	}
}
