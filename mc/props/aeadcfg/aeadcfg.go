// Package aeadcfg is the AEAD configuration catalogue shared by the C01 and C02 checks:
// every AEAD key type x sizes x variants x ids x construction path, how to build the tink primitive for
// it, and the matching independent reference (verif/ref) encrypt / decrypt / wire-format check.
package aeadcfg

import (
	"bytes"
	"context"
	"encoding/base64"
	"fmt"
	"sync"

	"github.com/tink-crypto/tink-go/v2/aead"
	"github.com/tink-crypto/tink-go/v2/aead/aesctrhmac"
	"github.com/tink-crypto/tink-go/v2/aead/aesgcm"
	"github.com/tink-crypto/tink-go/v2/aead/aesgcmsiv"
	"github.com/tink-crypto/tink-go/v2/aead/chacha20poly1305"
	aeadsubtle "github.com/tink-crypto/tink-go/v2/aead/subtle"
	"github.com/tink-crypto/tink-go/v2/aead/xaesgcm"
	"github.com/tink-crypto/tink-go/v2/aead/xchacha20poly1305"
	"github.com/tink-crypto/tink-go/v2/core/registry"
	"github.com/tink-crypto/tink-go/v2/insecurecleartextkeyset"
	"github.com/tink-crypto/tink-go/v2/insecuresecretdataaccess"
	"github.com/tink-crypto/tink-go/v2/key"
	"github.com/tink-crypto/tink-go/v2/keyset"
	macsubtle "github.com/tink-crypto/tink-go/v2/mac/subtle"
	ctrpb "github.com/tink-crypto/tink-go/v2/proto/aes_ctr_go_proto"
	ctrhmacpb "github.com/tink-crypto/tink-go/v2/proto/aes_ctr_hmac_aead_go_proto"
	gcmpb "github.com/tink-crypto/tink-go/v2/proto/aes_gcm_go_proto"
	gcmsivpb "github.com/tink-crypto/tink-go/v2/proto/aes_gcm_siv_go_proto"
	chachapb "github.com/tink-crypto/tink-go/v2/proto/chacha20_poly1305_go_proto"
	commonpb "github.com/tink-crypto/tink-go/v2/proto/common_go_proto"
	hmacpb "github.com/tink-crypto/tink-go/v2/proto/hmac_go_proto"
	kmsenvpb "github.com/tink-crypto/tink-go/v2/proto/kms_envelope_go_proto"
	tinkpb "github.com/tink-crypto/tink-go/v2/proto/tink_go_proto"
	xchachapb "github.com/tink-crypto/tink-go/v2/proto/xchacha20_poly1305_go_proto"
	"github.com/tink-crypto/tink-go/v2/secretdata"
	"github.com/tink-crypto/tink-go/v2/testing/fakekms"
	"github.com/tink-crypto/tink-go/v2/testkeyset"
	"github.com/tink-crypto/tink-go/v2/tink"
	"github.com/tink-crypto/tink-go/v2/verifbridge/c01b"
	"github.com/tink-crypto/tink-go/v2/verifbridge/vb"
	"google.golang.org/protobuf/proto"
	"verif/h"
	"verif/ref"
	"verif/tk"
)

type Kind int

const (
	GCM Kind = iota
	CTRHMAC
	GCMSIV
	CHACHA
	XCHACHA
	XAES
	ENVELOPE
)

func (k Kind) String() string {
	return [...]string{"AES-GCM", "AES-CTR-HMAC", "AES-GCM-SIV", "CHACHA20-POLY1305", "XCHACHA20-POLY1305", "XAES-256-GCM", "KMS-ENVELOPE"}[k]
}

var Kinds = []Kind{GCM, CTRHMAC, GCMSIV, CHACHA, XCHACHA, XAES, ENVELOPE}

// Construction paths.
const (
	PathSingle = "aead.New(tk.Single)"  // keyset.Manager -> aead.New
	PathProto  = "aead.New(tk.Handle)"  // proto keyset with the exact id -> aead.New (LEGACY only here)
	PathCtor   = "primitive-constructor" // aesgcm.NewAEAD / xaesgcm.NewAEAD / the registered per-type newAEAD
	PathKeyMgr = "registry.Primitive"   // legacy key-manager path (RAW), the one the envelope uses for DEKs
	PathSubtle = "aead/subtle"          // RAW
	PathEnv2   = "NewKMSEnvelopeAEAD2"
	PathEnvCtx = "NewKMSEnvelopeAEADWithContext"
	PathEnvKS  = "aead.New(KmsEnvelopeAeadKey keyset)"
)

// Cfg is one AEAD configuration.
type Cfg struct {
	Kind       Kind
	Variant    ref.Variant
	ID         uint32
	Path       string
	KeySize    int // AES key size (GCM, CTRHMAC, GCMSIV); 32 otherwise
	IVSize     int // CTRHMAC only
	MACKeySize int
	TagSize    int
	Hash       string
	SaltSize   int    // XAES only
	Salt       string // label suffix selecting different key material ("other key")
	// explicit key material (DEKs parsed from an envelope); nil = derived from the label
	KeyBytes, MACKeyBytes []byte
	// envelope
	DEK     *Cfg // RAW-variant configuration describing the DEK template
	DEKName string
	KEK     *Cfg // AES-GCM keyset behind the fake KMS
}

func (c *Cfg) String() string {
	s := c.Kind.String()
	switch c.Kind {
	case GCM, GCMSIV:
		s += fmt.Sprintf(" key=%d", c.KeySize)
	case CTRHMAC:
		s += fmt.Sprintf(" aes=%d iv=%d %s mackey=%d tag=%d", c.KeySize, c.IVSize, c.Hash, c.MACKeySize, c.TagSize)
	case XAES:
		s += fmt.Sprintf(" salt=%d", c.SaltSize)
	case ENVELOPE:
		s += fmt.Sprintf(" dek=%s kek=[%v]", c.DEKName, c.KEK)
	}
	return fmt.Sprintf("%s %v id=%#x via %s%s", s, c.Variant, c.ID, c.Path, c.Salt)
}

func (c *Cfg) Key() []byte {
	if c.KeyBytes != nil {
		return c.KeyBytes
	}
	return ref.KeyBytes(fmt.Sprintf("aead-%d-%d%s", c.Kind, c.KeySize, c.Salt), c.KeySize)
}

func (c *Cfg) MACKey() []byte {
	if c.MACKeyBytes != nil {
		return c.MACKeyBytes
	}
	return ref.KeyBytes(fmt.Sprintf("aead-mac-%s-%d%s", c.Hash, c.MACKeySize, c.Salt), c.MACKeySize)
}

// Other returns the same configuration with different key material.
func (c *Cfg) Other() *Cfg {
	o := *c
	if c.Kind == ENVELOPE {
		k := *c.KEK
		k.Salt = "#other"
		o.KEK = &k
		o.Salt = "#otherKEK"
		return &o
	}
	o.Salt = "#other"
	return &o
}

// Prefix is the reference output prefix of the configuration.
func (c *Cfg) Prefix() []byte { return ref.Prefix(c.Variant, c.ID) }

// NonceSize is the number of bytes between prefix and ciphertext body (IV, nonce, or salt||IV).
func (c *Cfg) NonceSize() int {
	switch c.Kind {
	case GCM, GCMSIV, CHACHA:
		return 12
	case XCHACHA:
		return 24
	case CTRHMAC:
		return c.IVSize
	case XAES:
		return c.SaltSize + 12
	case ENVELOPE:
		return 12 + c.DEK.NonceSize() // reference-side only: KEK IV || DEK nonce
	}
	panic("kind")
}

func (c *Cfg) TagLen() int {
	switch c.Kind {
	case CTRHMAC:
		return c.TagSize
	case ENVELOPE:
		return c.DEK.TagLen()
	}
	return 16
}

// MinLen is prefix+IV+tag, the length of the encryption of the empty plaintext.
func (c *Cfg) MinLen() int {
	if c.Kind == ENVELOPE {
		dekSer, _ := c.DEK.serializedKey()
		return len(c.Prefix()) + 4 + c.KEK.MinLen() + len(dekSer) + c.DEK.MinLen()
	}
	return len(c.Prefix()) + c.NonceSize() + c.TagLen()
}

func sd(b []byte) secretdata.Bytes {
	return secretdata.NewBytesFromData(bytes.Clone(b), insecuresecretdataaccess.Token{})
}

// idReq is the id requirement passed to NewKey.
func (c *Cfg) idReq() uint32 {
	if c.Variant == ref.Raw {
		return 0
	}
	return c.ID
}

// TinkKey builds the tink key object (LEGACY is built as CRUNCHY; the proto path relabels it).
func (c *Cfg) TinkKey() (key.Key, error) {
	v := c.Variant
	if v == ref.Legacy {
		v = ref.Crunchy
	}
	switch c.Kind {
	case GCM:
		vv := map[ref.Variant]aesgcm.Variant{ref.Tink: aesgcm.VariantTink, ref.Crunchy: aesgcm.VariantCrunchy, ref.Raw: aesgcm.VariantNoPrefix}[v]
		p, err := aesgcm.NewParameters(aesgcm.ParametersOpts{KeySizeInBytes: c.KeySize, IVSizeInBytes: 12, TagSizeInBytes: 16, Variant: vv})
		if err != nil {
			return nil, err
		}
		return aesgcm.NewKey(sd(c.Key()), c.idReq(), p)
	case CTRHMAC:
		vv := map[ref.Variant]aesctrhmac.Variant{ref.Tink: aesctrhmac.VariantTink, ref.Crunchy: aesctrhmac.VariantCrunchy, ref.Raw: aesctrhmac.VariantNoPrefix}[v]
		ht := map[string]aesctrhmac.HashType{"SHA1": aesctrhmac.SHA1, "SHA224": aesctrhmac.SHA224, "SHA256": aesctrhmac.SHA256, "SHA384": aesctrhmac.SHA384, "SHA512": aesctrhmac.SHA512}[c.Hash]
		p, err := aesctrhmac.NewParameters(aesctrhmac.ParametersOpts{AESKeySizeInBytes: c.KeySize, HMACKeySizeInBytes: c.MACKeySize, IVSizeInBytes: c.IVSize, TagSizeInBytes: c.TagSize, HashType: ht, Variant: vv})
		if err != nil {
			return nil, err
		}
		return aesctrhmac.NewKey(aesctrhmac.KeyOpts{AESKeyBytes: sd(c.Key()), HMACKeyBytes: sd(c.MACKey()), IDRequirement: c.idReq(), Parameters: p})
	case GCMSIV:
		vv := map[ref.Variant]aesgcmsiv.Variant{ref.Tink: aesgcmsiv.VariantTink, ref.Crunchy: aesgcmsiv.VariantCrunchy, ref.Raw: aesgcmsiv.VariantNoPrefix}[v]
		p, err := aesgcmsiv.NewParameters(c.KeySize, vv)
		if err != nil {
			return nil, err
		}
		return aesgcmsiv.NewKey(sd(c.Key()), c.idReq(), p)
	case CHACHA:
		vv := map[ref.Variant]chacha20poly1305.Variant{ref.Tink: chacha20poly1305.VariantTink, ref.Crunchy: chacha20poly1305.VariantCrunchy, ref.Raw: chacha20poly1305.VariantNoPrefix}[v]
		p, err := chacha20poly1305.NewParameters(vv)
		if err != nil {
			return nil, err
		}
		return chacha20poly1305.NewKey(sd(c.Key()), c.idReq(), p)
	case XCHACHA:
		vv := map[ref.Variant]xchacha20poly1305.Variant{ref.Tink: xchacha20poly1305.VariantTink, ref.Crunchy: xchacha20poly1305.VariantCrunchy, ref.Raw: xchacha20poly1305.VariantNoPrefix}[v]
		p, err := xchacha20poly1305.NewParameters(vv)
		if err != nil {
			return nil, err
		}
		return xchacha20poly1305.NewKey(sd(c.Key()), c.idReq(), p)
	case XAES:
		vv, ok := map[ref.Variant]xaesgcm.Variant{ref.Tink: xaesgcm.VariantTink, ref.Raw: xaesgcm.VariantNoPrefix}[v]
		if !ok {
			return nil, fmt.Errorf("XAES has no %v variant", v)
		}
		p, err := xaesgcm.NewParameters(vv, c.SaltSize)
		if err != nil {
			return nil, err
		}
		return xaesgcm.NewKey(sd(c.Key()), c.idReq(), p)
	}
	return nil, fmt.Errorf("no key object for %v", c.Kind)
}

var hashPB = map[string]commonpb.HashType{"SHA1": commonpb.HashType_SHA1, "SHA224": commonpb.HashType_SHA224, "SHA256": commonpb.HashType_SHA256, "SHA384": commonpb.HashType_SHA384, "SHA512": commonpb.HashType_SHA512}

const (
	gcmURL      = "type.googleapis.com/google.crypto.tink.AesGcmKey"
	chachaURL   = "type.googleapis.com/google.crypto.tink.ChaCha20Poly1305Key"
	xchachaURL  = "type.googleapis.com/google.crypto.tink.XChaCha20Poly1305Key"
	ctrhmacURL  = "type.googleapis.com/google.crypto.tink.AesCtrHmacAeadKey"
	gcmsivURL   = "type.googleapis.com/google.crypto.tink.AesGcmSivKey"
	envelopeURL = "type.googleapis.com/google.crypto.tink.KmsEnvelopeAeadKey"
)

func (c *Cfg) typeURL() string {
	switch c.Kind {
	case GCM:
		return gcmURL
	case CTRHMAC:
		return ctrhmacURL
	case GCMSIV:
		return gcmsivURL
	case CHACHA:
		return chachaURL
	case XCHACHA:
		return xchachaURL
	}
	return ""
}

// serializedKey is the proto serialization of the key written by the HARNESS from the proto schema
// (used as DEK plaintext by the reference envelope encryption).
func (c *Cfg) serializedKey() ([]byte, error) {
	var m proto.Message
	switch c.Kind {
	case GCM:
		m = &gcmpb.AesGcmKey{Version: 0, KeyValue: c.Key()}
	case GCMSIV:
		m = &gcmsivpb.AesGcmSivKey{Version: 0, KeyValue: c.Key()}
	case CHACHA:
		m = &chachapb.ChaCha20Poly1305Key{Version: 0, KeyValue: c.Key()}
	case XCHACHA:
		m = &xchachapb.XChaCha20Poly1305Key{Version: 0, KeyValue: c.Key()}
	case CTRHMAC:
		m = &ctrhmacpb.AesCtrHmacAeadKey{Version: 0,
			AesCtrKey: &ctrpb.AesCtrKey{Version: 0, Params: &ctrpb.AesCtrParams{IvSize: uint32(c.IVSize)}, KeyValue: c.Key()},
			HmacKey:   &hmacpb.HmacKey{Version: 0, Params: &hmacpb.HmacParams{Hash: hashPB[c.Hash], TagSize: uint32(c.TagSize)}, KeyValue: c.MACKey()}}
	default:
		return nil, fmt.Errorf("kind %v cannot be a DEK", c.Kind)
	}
	return proto.MarshalOptions{Deterministic: true}.Marshal(m)
}

// parseDEK reads a serialized DEK of c's kind and returns a copy of c carrying the parsed key material;
// parameters that the DEK template fixes must match.
func (c *Cfg) parseDEK(b []byte) (*Cfg, error) {
	d := *c
	switch c.Kind {
	case GCM:
		m := &gcmpb.AesGcmKey{}
		if err := proto.Unmarshal(b, m); err != nil {
			return nil, err
		}
		d.KeyBytes = m.GetKeyValue()
	case GCMSIV:
		m := &gcmsivpb.AesGcmSivKey{}
		if err := proto.Unmarshal(b, m); err != nil {
			return nil, err
		}
		d.KeyBytes = m.GetKeyValue()
	case CHACHA:
		m := &chachapb.ChaCha20Poly1305Key{}
		if err := proto.Unmarshal(b, m); err != nil {
			return nil, err
		}
		d.KeyBytes = m.GetKeyValue()
	case XCHACHA:
		m := &xchachapb.XChaCha20Poly1305Key{}
		if err := proto.Unmarshal(b, m); err != nil {
			return nil, err
		}
		d.KeyBytes = m.GetKeyValue()
	case CTRHMAC:
		m := &ctrhmacpb.AesCtrHmacAeadKey{}
		if err := proto.Unmarshal(b, m); err != nil {
			return nil, err
		}
		d.KeyBytes = m.GetAesCtrKey().GetKeyValue()
		d.MACKeyBytes = m.GetHmacKey().GetKeyValue()
		if int(m.GetAesCtrKey().GetParams().GetIvSize()) != c.IVSize || int(m.GetHmacKey().GetParams().GetTagSize()) != c.TagSize ||
			m.GetHmacKey().GetParams().GetHash() != hashPB[c.Hash] || len(d.MACKeyBytes) != c.MACKeySize {
			return nil, fmt.Errorf("DEK parameters differ from the template: %v", m)
		}
	default:
		return nil, fmt.Errorf("kind %v cannot be a DEK", c.Kind)
	}
	if len(d.KeyBytes) != c.KeySize {
		return nil, fmt.Errorf("DEK key size %d, template says %d", len(d.KeyBytes), c.KeySize)
	}
	return &d, nil
}

// handle builds the keyset handle for proto-based paths.
func (c *Cfg) protoHandle() (*keyset.Handle, error) {
	k, err := c.TinkKey()
	if err != nil {
		return nil, err
	}
	ks, err := tk.ProtoKeyset([]tk.Entry{{Key: k, ID: c.ID, Primary: true}})
	if err != nil {
		return nil, err
	}
	if c.Variant == ref.Legacy {
		ks.Key[0].OutputPrefixType = tinkpb.OutputPrefixType_LEGACY
	}
	return testkeyset.NewHandle(ks)
}

var kmsOnce sync.Once

type ctxAdapter struct {
	a *aead.KMSEnvelopeAEADWithContext
}

func (c ctxAdapter) Encrypt(pt, ad []byte) ([]byte, error) {
	return c.a.EncryptWithContext(context.Background(), pt, ad)
}
func (c ctxAdapter) Decrypt(ct, ad []byte) ([]byte, error) {
	return c.a.DecryptWithContext(context.Background(), ct, ad)
}

// kekURI serialises the KEK keyset into a fake-kms URI.
func (c *Cfg) kekURI() (string, error) {
	hd, err := c.KEK.protoHandle()
	if err != nil {
		return "", err
	}
	buf := new(bytes.Buffer)
	if err := testkeyset.Write(hd, keyset.NewBinaryWriter(buf)); err != nil {
		return "", err
	}
	return "fake-kms://" + base64.RawURLEncoding.EncodeToString(buf.Bytes()), nil
}

// DEKTemplate returns tink's template for the DEK.
func (c *Cfg) DEKTemplate() *tinkpb.KeyTemplate {
	switch c.DEKName {
	case "AES128_GCM":
		return aead.AES128GCMKeyTemplate()
	case "AES256_GCM":
		return aead.AES256GCMKeyTemplate()
	case "AES256_GCM_RAW":
		return aead.AES256GCMNoPrefixKeyTemplate()
	case "AES128_CTR_HMAC_SHA256":
		return aead.AES128CTRHMACSHA256KeyTemplate()
	case "AES256_CTR_HMAC_SHA256":
		return aead.AES256CTRHMACSHA256KeyTemplate()
	case "CHACHA20_POLY1305":
		return aead.ChaCha20Poly1305KeyTemplate()
	case "XCHACHA20_POLY1305":
		return aead.XChaCha20Poly1305KeyTemplate()
	case "AES128_GCM_SIV":
		return aead.AES128GCMSIVKeyTemplate()
	case "AES256_GCM_SIV":
		return aead.AES256GCMSIVKeyTemplate()
	}
	panic("unknown DEK template " + c.DEKName)
}

// DEKs: template name -> reference description of the DEK primitive (always RAW: key managers build RAW primitives).
var DEKNames = []string{"AES128_GCM", "AES256_GCM", "AES256_GCM_RAW", "AES128_CTR_HMAC_SHA256", "AES256_CTR_HMAC_SHA256", "CHACHA20_POLY1305", "XCHACHA20_POLY1305", "AES128_GCM_SIV", "AES256_GCM_SIV"}

func dekCfg(name string) *Cfg {
	d := &Cfg{Variant: ref.Raw, Path: "DEK", KeySize: 32}
	switch name {
	case "AES128_GCM":
		d.Kind, d.KeySize = GCM, 16
	case "AES256_GCM", "AES256_GCM_RAW":
		d.Kind = GCM
	case "AES128_CTR_HMAC_SHA256":
		d.Kind, d.KeySize, d.IVSize, d.MACKeySize, d.TagSize, d.Hash = CTRHMAC, 16, 16, 32, 16, "SHA256"
	case "AES256_CTR_HMAC_SHA256":
		d.Kind, d.KeySize, d.IVSize, d.MACKeySize, d.TagSize, d.Hash = CTRHMAC, 32, 16, 32, 32, "SHA256"
	case "CHACHA20_POLY1305":
		d.Kind = CHACHA
	case "XCHACHA20_POLY1305":
		d.Kind = XCHACHA
	case "AES128_GCM_SIV":
		d.Kind, d.KeySize = GCMSIV, 16
	case "AES256_GCM_SIV":
		d.Kind = GCMSIV
	default:
		panic("unknown DEK " + name)
	}
	return d
}

// KEKs behind the fake KMS: AES-GCM keysets with known key material.
var KEKs = []*Cfg{
	{Kind: GCM, Variant: ref.Tink, ID: 0x0A0B0C0D, Path: PathProto, KeySize: 16, Salt: "#kek"},
	{Kind: GCM, Variant: ref.Raw, ID: 77, Path: PathProto, KeySize: 32, Salt: "#kek"},
}

// Build constructs the tink primitive along the configured path.
func (c *Cfg) Build() (tink.AEAD, error) {
	if c.Kind == ENVELOPE {
		return c.buildEnvelope()
	}
	switch c.Path {
	case PathSingle:
		k, err := c.TinkKey()
		if err != nil {
			return nil, err
		}
		if c.Variant == ref.Legacy {
			return nil, fmt.Errorf("LEGACY needs the proto path")
		}
		hd, err := tk.Single(k)
		if err != nil {
			return nil, err
		}
		return singleWithRoundTrip(c, hd)
	case PathProto:
		hd, err := c.protoHandle()
		if err != nil {
			return nil, err
		}
		return aead.New(hd)
	case PathCtor:
		k, err := c.TinkKey()
		if err != nil {
			return nil, err
		}
		switch kk := k.(type) {
		case *aesgcm.Key:
			return aesgcm.NewAEAD(kk)
		case *xaesgcm.Key:
			return xaesgcm.NewAEAD(kk, vb.Tok())
		}
		return c01b.Primitive(k)
	case PathKeyMgr:
		k, err := c.TinkKey()
		if err != nil {
			return nil, err
		}
		kd, _, _, _, err := vb.SerializeKey(k)
		if err != nil {
			return nil, err
		}
		p, err := registry.Primitive(kd.GetTypeUrl(), kd.GetValue())
		if err != nil {
			return nil, err
		}
		a, ok := p.(tink.AEAD)
		if !ok {
			return nil, fmt.Errorf("registry.Primitive returned %T", p)
		}
		return a, nil
	case PathSubtle:
		switch c.Kind {
		case GCM:
			return aeadsubtle.NewAESGCM(bytes.Clone(c.Key()))
		case GCMSIV:
			return aeadsubtle.NewAESGCMSIV(bytes.Clone(c.Key()))
		case CHACHA:
			return aeadsubtle.NewChaCha20Poly1305(bytes.Clone(c.Key()))
		case XCHACHA:
			return aeadsubtle.NewXChaCha20Poly1305(bytes.Clone(c.Key()))
		case CTRHMAC:
			ctr, err := aeadsubtle.NewAESCTR(bytes.Clone(c.Key()), c.IVSize)
			if err != nil {
				return nil, err
			}
			m, err := macsubtle.NewHMAC(c.Hash, bytes.Clone(c.MACKey()), uint32(c.TagSize))
			if err != nil {
				return nil, err
			}
			return aeadsubtle.NewEncryptThenAuthenticate(ctr, m, c.TagSize)
		}
		return nil, fmt.Errorf("no subtle constructor for %v", c.Kind)
	}
	return nil, fmt.Errorf("unknown path %q", c.Path)
}

func (c *Cfg) buildEnvelope() (tink.AEAD, error) {
	uri, err := c.kekURI()
	if err != nil {
		return nil, err
	}
	switch c.Path {
	case PathEnv2:
		kek, err := fakekms.NewAEAD(uri)
		if err != nil {
			return nil, err
		}
		return aead.NewKMSEnvelopeAEAD2(c.DEKTemplate(), kek), nil
	case PathEnvCtx:
		kek, err := fakekms.NewAEADWithContext(uri)
		if err != nil {
			return nil, err
		}
		a, err := aead.NewKMSEnvelopeAEADWithContext(c.DEKTemplate(), kek)
		if err != nil {
			return nil, err
		}
		return ctxAdapter{a}, nil
	case PathEnvKS:
		kmsOnce.Do(func() {
			cl, err := fakekms.NewClient("fake-kms://")
			if err != nil {
				panic(err)
			}
			registry.RegisterKMSClient(cl)
		})
		val, err := proto.Marshal(&kmsenvpb.KmsEnvelopeAeadKey{Version: 0, Params: &kmsenvpb.KmsEnvelopeAeadKeyFormat{KekUri: uri, DekTemplate: c.DEKTemplate()}})
		if err != nil {
			return nil, err
		}
		pt := map[ref.Variant]tinkpb.OutputPrefixType{ref.Tink: tinkpb.OutputPrefixType_TINK, ref.Crunchy: tinkpb.OutputPrefixType_CRUNCHY, ref.Legacy: tinkpb.OutputPrefixType_LEGACY, ref.Raw: tinkpb.OutputPrefixType_RAW}[c.Variant]
		ks := &tinkpb.Keyset{PrimaryKeyId: c.ID, Key: []*tinkpb.Keyset_Key{{
			KeyData: &tinkpb.KeyData{TypeUrl: envelopeURL, Value: val, KeyMaterialType: tinkpb.KeyData_REMOTE},
			Status:  tinkpb.KeyStatusType_ENABLED, KeyId: c.ID, OutputPrefixType: pt}}}
		hd, err := testkeyset.NewHandle(ks)
		if err != nil {
			return nil, err
		}
		return aead.New(hd)
	}
	return nil, fmt.Errorf("unknown envelope path %q", c.Path)
}

// singleWithRoundTrip: the keyset.Manager route. The keyset entry of a key with an id requirement must carry that
// id (the output prefix is a function of the KEYSET key id), and the same keyset written out and read back is the
// same key: the primitive returned here encrypts with the manager's handle and decrypts with BOTH that handle and
// the handle read back from the serialised keyset - a divergence surfaces as a rejection of a valid ciphertext
// (accepted by one, refused by the other: error) or as an acceptance (plaintext of whichever accepted).
func singleWithRoundTrip(c *Cfg, hd *keyset.Handle) (tink.AEAD, error) {
	a, err := aead.New(hd)
	if err != nil {
		return nil, err
	}
	pe, err := hd.Primary()
	if err != nil {
		return nil, err
	}
	if c.Variant != ref.Raw && pe.KeyID() != c.ID {
		return nil, fmt.Errorf("keyset.Manager.AddKey gave the %v key with id requirement %#x the keyset key id %#x (the ciphertext prefix cannot be the keyset's key id)", c.Variant, c.ID, pe.KeyID())
	}
	var buf bytes.Buffer
	if err := insecurecleartextkeyset.Write(hd, keyset.NewBinaryWriter(&buf)); err != nil {
		return nil, fmt.Errorf("writing the manager's keyset: %v", err)
	}
	hd2, err := insecurecleartextkeyset.Read(keyset.NewBinaryReader(bytes.NewReader(buf.Bytes())))
	if err != nil {
		return nil, fmt.Errorf("reading the manager's keyset back: %v", err)
	}
	b, err := aead.New(hd2)
	if err != nil {
		return nil, fmt.Errorf("aead.New on the keyset read back: %v", err)
	}
	return &dualAEAD{a, b, 0}, nil
}

type dualAEAD struct {
	a, b tink.AEAD
	n    int
}

// Encrypt alternates between the two handles (both are the same key).
func (d *dualAEAD) Encrypt(pt, ad []byte) ([]byte, error) {
	d.n++
	if d.n%2 == 0 {
		return d.b.Encrypt(pt, ad)
	}
	return d.a.Encrypt(pt, ad)
}

func (d *dualAEAD) Decrypt(ct, ad []byte) ([]byte, error) {
	pa, ea := d.a.Decrypt(ct, ad)
	pb, eb := d.b.Decrypt(ct, ad)
	switch {
	case ea == nil && eb == nil:
		if !bytes.Equal(pa, pb) {
			return nil, fmt.Errorf("the manager's handle and the same keyset read back decrypt to different plaintexts")
		}
		return pa, nil
	case ea != nil && eb != nil:
		return nil, ea
	case ea == nil:
		return nil, fmt.Errorf("accepted by the manager's handle, refused by the same keyset read back: %v", eb)
	}
	return nil, fmt.Errorf("refused by the manager's handle (%v), accepted by the same keyset read back", ea)
}

// ---------- reference side ----------

// refBody is the reference ciphertext body (without prefix and nonce) for a plain kind.
func (c *Cfg) refBody(nonce, pt, ad []byte) []byte {
	switch c.Kind {
	case GCM:
		return ref.AeadGCMSeal(c.Key(), nonce, pt, ad)
	case CTRHMAC:
		return ref.AeadCTRHMACSeal(c.Key(), c.MACKey(), c.Hash, c.TagSize, nonce, pt, ad)
	case GCMSIV:
		return ref.AeadGCMSIVSeal(c.Key(), nonce, pt, ad)
	case CHACHA, XCHACHA:
		return ref.AeadChaChaSeal(c.Key(), nonce, pt, ad)
	case XAES:
		return ref.AeadXAESSeal(c.Key(), nonce[:c.SaltSize], nonce[c.SaltSize:], pt, ad)
	}
	panic("refBody kind")
}

func (c *Cfg) refOpenBody(nonce, body, ad []byte) ([]byte, bool) {
	switch c.Kind {
	case GCM:
		return ref.AeadGCMOpen(c.Key(), nonce, body, ad)
	case CTRHMAC:
		return ref.AeadCTRHMACOpen(c.Key(), c.MACKey(), c.Hash, c.TagSize, nonce, body, ad)
	case GCMSIV:
		return ref.AeadGCMSIVOpen(c.Key(), nonce, body, ad)
	case CHACHA, XCHACHA:
		return ref.AeadChaChaOpen(c.Key(), nonce, body, ad)
	case XAES:
		return ref.AeadXAESOpen(c.Key(), nonce[:c.SaltSize], nonce[c.SaltSize:], body, ad)
	}
	panic("refOpenBody kind")
}

// RefEncrypt is the independent implementation's Encrypt with a caller-chosen nonce (NonceSize() bytes;
// for the envelope: KEK IV || DEK nonce, the DEK being the configuration's deterministic DEK key).
func (c *Cfg) RefEncrypt(nonce, pt, ad []byte) []byte {
	if len(nonce) != c.NonceSize() {
		panic("RefEncrypt: nonce size")
	}
	out := bytes.Clone(c.Prefix())
	if c.Kind == ENVELOPE {
		dekSer, err := c.DEK.serializedKey()
		if err != nil {
			panic(err)
		}
		encDEK := c.KEK.RefEncrypt(nonce[:12], dekSer, []byte{})
		payload := c.DEK.RefEncrypt(nonce[12:], pt, ad)
		return append(out, ref.AeadEnvelopeFrame(encDEK, payload)...)
	}
	out = append(out, nonce...)
	return append(out, c.refBody(nonce, pt, ad)...)
}

// RefDecrypt is the independent implementation's Decrypt.
func (c *Cfg) RefDecrypt(ct, ad []byte) ([]byte, error) {
	p := c.Prefix()
	if len(ct) < len(p) || !bytes.Equal(ct[:len(p)], p) {
		return nil, fmt.Errorf("prefix mismatch")
	}
	ct = ct[len(p):]
	if c.Kind == ENVELOPE {
		encDEK, payload, ok := ref.AeadEnvelopeParse(ct)
		if !ok || len(encDEK) == 0 {
			return nil, fmt.Errorf("envelope framing invalid")
		}
		dekSer, err := c.KEK.RefDecrypt(encDEK, nil)
		if err != nil {
			return nil, fmt.Errorf("encrypted DEK: %v", err)
		}
		d, err := c.DEK.parseDEK(dekSer)
		if err != nil {
			return nil, err
		}
		return d.RefDecrypt(payload, ad)
	}
	n := c.NonceSize()
	if len(ct) < n+c.TagLen() {
		return nil, fmt.Errorf("too short")
	}
	pt, ok := c.refOpenBody(ct[:n], ct[n:], ad)
	if !ok {
		return nil, fmt.Errorf("authentication failed")
	}
	return pt, nil
}

// CheckWire decides whether ct (tink's output for pt, ad) has the documented wire format:
// reference prefix || nonce || body where body is byte-identical to the reference algorithm run with the
// nonce read from ct, and the independent implementation decrypts it to pt. Returns ("","") if so, else a
// finding key and a description.
func (c *Cfg) CheckWire(ct, pt, ad []byte) (string, string) {
	p := c.Prefix()
	if len(ct) < len(p) || !bytes.Equal(ct[:len(p)], p) {
		return "wire-prefix", fmt.Sprintf("ciphertext %s does not start with the reference prefix %x", tk.Hex(ct), p)
	}
	raw := ct[len(p):]
	if c.Kind == ENVELOPE {
		encDEK, payload, ok := ref.AeadEnvelopeParse(raw)
		if !ok || len(encDEK) == 0 {
			return "wire-envelope", fmt.Sprintf("envelope framing be32(len)||encDEK||payload invalid: %s", tk.Hex(raw))
		}
		dekSer, err := c.KEK.RefDecrypt(encDEK, []byte{})
		if err != nil {
			return "wire-envelope-dek", fmt.Sprintf("reference cannot decrypt the encrypted DEK %s under the KEK with empty AD: %v", tk.Hex(encDEK), err)
		}
		if k, m := c.KEK.CheckWire(encDEK, dekSer, nil); k != "" {
			return "wire-envelope-dek", "encrypted DEK: " + m
		}
		d, err := c.DEK.parseDEK(dekSer)
		if err != nil {
			return "wire-envelope-dek", fmt.Sprintf("DEK %x: %v", dekSer, err)
		}
		if k, m := d.CheckWire(payload, pt, ad); k != "" {
			return k, "envelope payload: " + m
		}
		return "", ""
	}
	n := c.NonceSize()
	if want := n + len(pt) + c.TagLen(); len(raw) != want {
		return "wire-length", fmt.Sprintf("ciphertext length %d, want prefix %d + nonce %d + plaintext %d + tag %d", len(ct), len(p), n, len(pt), c.TagLen())
	}
	nonce, body := raw[:n], raw[n:]
	if exp := c.refBody(nonce, pt, ad); !bytes.Equal(body, exp) {
		i := 0
		for i < len(body) && body[i] == exp[i] {
			i++
		}
		return "wire-body", fmt.Sprintf("body differs from the reference at byte %d (nonce %x): tink %s reference %s", i, nonce, tk.Hex(body[i:]), tk.Hex(exp[i:]))
	}
	got, ok := c.refOpenBody(nonce, body, ad)
	if !ok || !bytes.Equal(got, pt) {
		return "wire-refdecrypt", fmt.Sprintf("reference decryption of tink's ciphertext fails (ok=%v)", ok)
	}
	return "", ""
}

// SplitNonce returns the nonce bytes of a plain-kind ciphertext (nil for the envelope).
func (c *Cfg) SplitNonce(ct []byte) []byte {
	p := len(c.Prefix())
	if c.Kind == ENVELOPE || len(ct) < p+c.NonceSize() {
		return nil
	}
	return ct[p : p+c.NonceSize()]
}

// RefNonces are the reference-chosen nonces for reverse interop: all-00, all-FF, FF…FE (forcing the
// 128-bit CTR counter carry for 16-byte IVs), …00FFFFFFFF (32-bit counter word saturated) and a counter pattern.
func (c *Cfg) RefNonces() [][]byte {
	n := c.NonceSize()
	ff := bytes.Repeat([]byte{0xff}, n)
	fe := bytes.Clone(ff)
	fe[n-1] = 0xfe
	lo := make([]byte, n)
	for i := n - 4; i < n; i++ {
		lo[i] = 0xff
	}
	return [][]byte{make([]byte, n), ff, fe, lo, ref.Pattern(2, n)}
}

// ---------- enumeration of the catalogue (choice points) ----------

type sizes struct{ aes, iv, mac int }

func (s sizes) String() string { return fmt.Sprintf("aes%d/iv%d/mac%d", s.aes, s.iv, s.mac) }

var digest = map[string]int{"SHA1": 20, "SHA224": 28, "SHA256": 32, "SHA384": 48, "SHA512": 64}

// Opts narrows the enumeration.
type Opts struct {
	AllIDs      bool // every id of tk.IDs (else the default id, 0 and 0xFFFFFFFF)
	OneID       bool // only the default id
	AllVariants bool // quick tier of C01 uses TINK, LEGACY (proto path) and RAW; true = every variant
	Keys        int  // number of different key materials for the cheap kinds (0 = 1)
}

// Choose picks one configuration of the given kind through choice points of x. ok=false: the combination
// does not exist (e.g. subtle path for a prefixed variant) and the execution is vacuous.
func Choose(x *h.X, kind Kind, o Opts) (c *Cfg, ok bool) {
	c = &Cfg{Kind: kind, KeySize: 32}
	switch kind {
	case GCM, GCMSIV:
		c.KeySize = h.Pick(x, "keysize", []int{16, 32})
	case CTRHMAC:
		var ss []sizes
		if x.Thorough() {
			for _, a := range []int{16, 32} {
				for _, iv := range []int{12, 13, 14, 15, 16} {
					for _, m := range []int{16, 32, 64, 65, 128, 129} { // 64/65 and 128/129: around the SHA-2 block sizes (RFC 2104 key hashing)
						ss = append(ss, sizes{a, iv, m})
					}
				}
			}
		} else {
			ss = []sizes{{16, 12, 16}, {32, 16, 32}, {16, 16, 65}, {32, 12, 128}, {16, 13, 129}, {32, 15, 64}}
		}
		s := h.Pick(x, "sizes", ss)
		c.KeySize, c.IVSize, c.MACKeySize = s.aes, s.iv, s.mac
		c.Hash = h.Pick(x, "hash", []string{"SHA1", "SHA224", "SHA256", "SHA384", "SHA512"})
		d := digest[c.Hash]
		ts := []int{10, 16, d}
		if x.Thorough() {
			ts = []int{10, 11, 16, d - 1, d}
		}
		c.TagSize = h.Pick(x, "tagsize", ts)
	case XAES:
		ss := []int{8, 12}
		if x.Thorough() {
			ss = []int{8, 9, 10, 11, 12}
		}
		c.SaltSize = h.Pick(x, "saltsize", ss)
	case ENVELOPE:
		c.DEKName = h.Pick(x, "dek", DEKNames)
		c.DEK = dekCfg(c.DEKName)
		ki := x.Choose("kek", len(KEKs))
		c.KEK = KEKs[ki]
		x.Label(fmt.Sprint(c.KEK))
	}
	if o.Keys > 1 && kind != CTRHMAC && kind != ENVELOPE {
		if ki := x.Choose("keymaterial", o.Keys); ki > 0 {
			c.Salt = fmt.Sprintf("#k%d", ki)
		}
	}
	vs := []ref.Variant{ref.Tink, ref.Crunchy, ref.Legacy, ref.Raw}
	if !o.AllVariants && !x.Thorough() {
		vs = []ref.Variant{ref.Tink, ref.Legacy, ref.Raw}
	}
	c.Variant = h.Pick(x, "variant", vs)
	ids := []uint32{tk.IDs[0], 0, 0xFFFFFFFF} // 0 is an id like any other: "no id requirement" belongs to the variant, not to the number
	if o.AllIDs {
		ids = tk.IDs
	} else if o.OneID {
		ids = ids[:1]
	}
	c.ID = h.Pick(x, "id", ids)
	if kind == ENVELOPE {
		c.Path = h.Pick(x, "path", []string{PathEnv2, PathEnvCtx, PathEnvKS})
		if c.Path != PathEnvKS && (c.Variant != ref.Raw || c.ID != ids[0]) {
			return nil, false
		}
		if c.Variant == ref.Raw && c.ID != ids[0] {
			return nil, false
		}
		return c, true
	}
	c.Path = h.Pick(x, "path", []string{PathSingle, PathProto, PathCtor, PathKeyMgr, PathSubtle})
	if c.Variant == ref.Raw && c.ID != ids[0] {
		return nil, false // the id is irrelevant for RAW
	}
	if kind == XAES && (c.Variant == ref.Crunchy || c.Variant == ref.Legacy || c.Path == PathSubtle) {
		return nil, false // XAES has TINK and NO_PREFIX only and no subtle constructor
	}
	switch c.Path {
	case PathKeyMgr, PathSubtle:
		if c.Variant != ref.Raw {
			return nil, false
		}
	case PathSingle, PathCtor:
		if c.Variant == ref.Legacy {
			return nil, false // key objects have no LEGACY variant; it exists only as proto output prefix type
		}
	}
	return c, true
}
