// C08: AES-SIV (deterministic AEAD, RFC 5297) and AES-KWP (RFC 5649 / SP 800-38F).
//
// Bounded-exhaustive enumeration (engine E1) of
//   - AES-SIV: keys covering all four (msb L, msb K1) CMAC-subkey branches x variants x IDs x construction
//     paths x EVERY plaintext length 0..80 + {255,256,257,4096} x associated data nil and EVERY length 0..40,
//     compared byte for byte with the RFC 5297 reference (ref/siv.go); determinism; decrypt inverts; a mutation
//     catalogue whose verdict is taken from the reference decryption (reject, except nil <-> empty AD);
//   - the factory's legacy-primitive adapter (daead_factory.go fullDAEADPrimitiveAdapter): see legacy.go;
//   - the XOREndAndCompute / Compute seams of internal/mac/aescmac and the CTR seam (bits 31/63 cleared);
//   - AES-KWP: EVERY payload length 16..8192 x KEK {16,32} vs the RFC 5649 reference (ref/kwp.go),
//     Unwrap(Wrap(p)) = p, refusal outside 16..8192, and for a lattice of lengths bit flips, wrong sizes and
//     CRAFTED wrappings W(malformed inner block) whose verdict is taken from the reference unwrap.
//
// Don't-care cells (not judged):
//   - Unwrap of a well-formed RFC 5649 wrapping of a payload shorter than 16 bytes (outside the 16..8192 domain);
//   - which error value is returned; AES-SIV keys of 32/48 bytes (tink admits only 64-byte keys);
//   - KEK sizes other than 16 and 32.
package main

import (
	"bytes"
	"encoding/binary"
	"fmt"
	"os"

	"github.com/tink-crypto/tink-go/v2/daead"
	"github.com/tink-crypto/tink-go/v2/daead/aessiv"
	daeadsubtle "github.com/tink-crypto/tink-go/v2/daead/subtle"
	"github.com/tink-crypto/tink-go/v2/insecuresecretdataaccess"
	kwp "github.com/tink-crypto/tink-go/v2/kwp/subtle"
	tinkpb "github.com/tink-crypto/tink-go/v2/proto/tink_go_proto"
	"github.com/tink-crypto/tink-go/v2/secretdata"
	"github.com/tink-crypto/tink-go/v2/tink"
	"github.com/tink-crypto/tink-go/v2/verifbridge/c08b"
	"github.com/tink-crypto/tink-go/v2/verifbridge/vb"
	"verif/h"
	"verif/ref"
	"verif/tk"
)

var variants = []ref.Variant{ref.Tink, ref.Crunchy, ref.Raw}
var sivVar = map[ref.Variant]aessiv.Variant{ref.Tink: aessiv.VariantTink, ref.Crunchy: aessiv.VariantCrunchy, ref.Raw: aessiv.VariantNoPrefix}

func ids(x *h.X) []uint32 {
	if x.Thorough() {
		return tk.IDs
	}
	return tk.IDs[:2]
}

// msbKeys returns four deterministic keys of `size` bytes whose AES-CMAC key (the first cmacLen bytes)
// covers all four (msb L, msb K1) combinations, in the order 00, 01, 10, 11.
func msbKeys(label string, size, cmacLen int) [][]byte {
	seen := map[[2]bool][]byte{}
	for i := 0; len(seen) < 4 && i < 1000; i++ {
		k := ref.KeyBytes(fmt.Sprintf("%s-%d-%d", label, size, i), size)
		a, b := ref.CMACSubkeyMSBs(k[:cmacLen])
		if _, ok := seen[[2]bool{a, b}]; !ok {
			seen[[2]bool{a, b}] = k
		}
	}
	out := [][]byte{seen[[2]bool{false, false}], seen[[2]bool{false, true}], seen[[2]bool{true, false}], seen[[2]bool{true, true}]}
	for _, k := range out {
		if k == nil {
			panic("msbKeys: combination not found")
		}
	}
	return out
}

// ---------------------------------------------------------------------------------------------
// AES-SIV

type sivCase struct {
	x        *h.X
	d        tink.DeterministicAEAD
	key      []byte // 64 bytes
	pre      []byte
	cfg      string
	acc, rej int
}

// refDecrypt is the reference verdict for (ciphertext, ad) under this key and prefix.
func (c *sivCase) refDecrypt(ct, ad []byte) ([]byte, bool) {
	if len(ct) < len(c.pre) || !bytes.Equal(ct[:len(c.pre)], c.pre) {
		return nil, false
	}
	return ref.SIVDecrypt(c.key, ct[len(c.pre):], ad)
}

// probe decrypts (ct, ad) with tink and requires the reference verdict (and plaintext).
func (c *sivCase) probe(key string, ct, ad []byte, what string) bool {
	if key == "" {
		key = "accept-invalid"
	}
	c.x.Eval(1)
	wantPT, wantOK := c.refDecrypt(ct, ad)
	var got []byte
	var err error
	ctIn, adIn := bytes.Clone(ct), bytes.Clone(ad)
	if ad == nil {
		adIn = nil
	}
	if p, msg := h.Try(func() { got, err = c.d.DecryptDeterministically(ctIn, adIn) }); p {
		c.x.Fail("panic", "%s: DecryptDeterministically panicked on %s: %s", c.cfg, what, msg)
		return false
	}
	if wantOK {
		c.acc++
		if err != nil {
			c.x.Fail("reject-valid", "%s: %s: reference accepts (pt %s) but tink rejects: %v", c.cfg, what, tk.Hex(wantPT), err)
			return false
		}
		if !bytes.Equal(got, wantPT) {
			c.x.Fail("wrong-plaintext", "%s: %s: decrypted %s, reference %s", c.cfg, what, tk.Hex(got), tk.Hex(wantPT))
			return false
		}
		return true
	}
	c.rej++
	if err == nil {
		c.x.Fail(key, "%s: DecryptDeterministically accepted %s (ct=%s ad=%s) -> %s; the reference rejects it", c.cfg, what, tk.Hex(ct), tk.Hex(ad), tk.Hex(got))
		return false
	}
	return true
}

func adOf(kind, idx int) []byte {
	// idx 0 = nil, idx k>=1 = k-1 bytes
	if idx == 0 {
		return nil
	}
	return ref.Pattern(kind, idx-1)
}

func (c *sivCase) exercise() {
	x := c.x
	ptLens := []int{}
	for n := 0; n <= 80; n++ {
		ptLens = append(ptLens, n)
	}
	// every length well beyond the first few blocks: chunked / batched processing of the leading blocks (e.g. a
	// 128-byte stride) only shows for particular length classes (found by an independently seeded change)
	longMax := 700
	if x.Thorough() {
		longMax = 2200
	}
	for n := 81; n <= longMax; n++ {
		ptLens = append(ptLens, n)
	}
	ptLens = append(ptLens, 4096, 4097, 8191, 8192, 8208)
	if x.Thorough() {
		ptLens = append(ptLens, ref.LongLengths(16, 17)...)
	} else {
		ptLens = append(ptLens, ref.LongLengths(13, 17)...)
	}
	// (plaintext pattern, AD pattern)
	pats := [][2]int{{2, 3}}
	if x.Thorough() {
		pats = [][2]int{{2, 3}, {3, 2}, {0, 0}, {1, 1}}
	}
	for _, pat := range pats {
		for _, n := range ptLens {
			pt := ref.Pattern(pat[0], n)
			for ai := 0; ai <= 41; ai++ {
				if n > 80 && ai != 0 && ai != 6 && ai != 18 {
					continue // long plaintexts: AD nil, 5 and 17 bytes
				}
				ad := adOf(pat[1], ai)
				ptIn, adIn := bytes.Clone(pt), bytes.Clone(ad)
				if ad == nil {
					adIn = nil
				}
				var ct1, ct2 []byte
				var e1, e2 error
				if p, msg := h.Try(func() {
					ct1, e1 = c.d.EncryptDeterministically(ptIn, adIn)
					ct2, e2 = c.d.EncryptDeterministically(ptIn, adIn)
				}); p {
					x.Fail("panic", "%s pt=%d ad=%d: EncryptDeterministically panicked: %s", c.cfg, n, ai-1, msg)
					return
				}
				x.Eval(1)
				if e1 != nil || e2 != nil {
					x.Fail("encrypt-error", "%s pt=%d ad=%d: EncryptDeterministically error %v / %v", c.cfg, n, ai-1, e1, e2)
					return
				}
				if !bytes.Equal(ptIn, pt) || !bytes.Equal(adIn, ad) {
					x.Fail("input-modified", "%s pt=%d ad=%d: EncryptDeterministically modified its input buffers", c.cfg, n, ai-1)
					return
				}
				// back to back on the SAME slices with one byte of each rewritten in place (the caller reuses its buffers)
				if (n > 0 || len(adIn) > 0) && n <= 80 && ai%3 == 0 {
					if n > 0 {
						ptIn[n/2] ^= 0x40
					}
					if len(adIn) > 0 {
						adIn[len(adIn)/2] ^= 0x40
					}
					ct3, e3 := c.d.EncryptDeterministically(ptIn, adIn)
					want3 := append(bytes.Clone(c.pre), ref.SIVEncrypt(c.key, ptIn, adIn)...)
					if e3 != nil || !bytes.Equal(ct3, want3) {
						x.Fail("buffer-reuse", "%s pt=%d ad=%d: plaintext/AD buffers rewritten in place between two calls: ciphertext %s, RFC 5297 reference for the second contents %s (%v)", c.cfg, n, ai-1, tk.Hex(ct3), tk.Hex(want3), e3)
						return
					}
					if n > 0 {
						ptIn[n/2] ^= 0x40
					}
					if len(adIn) > 0 {
						adIn[len(adIn)/2] ^= 0x40
					}
				}
				if !bytes.Equal(ct1, ct2) {
					x.Fail("nondeterministic", "%s pt=%d ad=%d: two encryptions differ: %s vs %s", c.cfg, n, ai-1, tk.Hex(ct1), tk.Hex(ct2))
					return
				}
				want := append(bytes.Clone(c.pre), ref.SIVEncrypt(c.key, pt, ad)...)
				if !bytes.Equal(ct1, want) {
					x.Fail("wrong-ciphertext", "%s pt=%d ad=%d(-1=nil) pattern=%v: ciphertext %s, RFC 5297 reference %s", c.cfg, n, ai-1, pat, tk.Hex(ct1), tk.Hex(want))
					return
				}
				ok := c.probe("", ct1, ad, "own ciphertext") // must accept and return pt (reference verdict)
				// cheap negative probes at every (length, AD): last bit flipped, one byte shorter, AD extended / shortened
				bad := bytes.Clone(ct1)
				bad[len(bad)-1] ^= 1
				ok = ok && c.probe("accept-flip", bad, ad, "ciphertext with last bit flipped")
				ok = ok && c.probe("accept-trunc", ct1[:len(ct1)-1], ad, "ciphertext truncated by one byte")
				ok = ok && c.probe("accept-ad-mod", ct1, append(bytes.Clone(ad), 0), "associated data || 00")
				if len(ad) > 0 {
					ok = ok && c.probe("accept-ad-mod", ct1, ad[:len(ad)-1], "associated data truncated by one byte")
				}
				if !ok {
					return
				}
			}
		}
	}
	// nil and empty associated data are the same single empty component
	for _, n := range []int{0, 1, 15, 16, 17, 40} {
		pt := ref.Pattern(2, n)
		a, e1 := c.d.EncryptDeterministically(pt, nil)
		b, e2 := c.d.EncryptDeterministically(pt, []byte{})
		x.Eval(1)
		if e1 != nil || e2 != nil || !bytes.Equal(a, b) {
			x.Fail("nil-vs-empty-ad", "%s pt=%d: nil AD -> %s (%v), empty AD -> %s (%v)", c.cfg, n, tk.Hex(a), e1, tk.Hex(b), e2)
			return
		}
		c.probe("", a, []byte{}, "nil-AD ciphertext decrypted with empty AD")
		c.probe("", b, nil, "empty-AD ciphertext decrypted with nil AD")
	}
	c.catalogue()
}

// catalogue: the full mutation catalogue on selected (plaintext length, AD) cells.
func (c *sivCase) catalogue() {
	x := c.x
	ptLens := []int{0, 1, 15, 16, 17, 32, 33}
	adIdx := []int{0, 1, 2, 17, 18}
	if x.Thorough() {
		ptLens = []int{0, 1, 2, 15, 16, 17, 31, 32, 33, 47, 48, 49, 64, 80}
		adIdx = []int{0, 1, 2, 16, 17, 18, 33, 41}
	}
	otherKeys := map[string][]byte{}
	k := bytes.Clone(c.key)
	k[0] ^= 1
	otherKeys["key with one bit of the MAC half changed"] = k
	k = bytes.Clone(c.key)
	k[63] ^= 0x80
	otherKeys["key with one bit of the CTR half changed"] = k
	otherKeys["key with halves swapped"] = append(bytes.Clone(c.key[32:]), c.key[:32]...)
	otherNames := []string{"key with one bit of the MAC half changed", "key with one bit of the CTR half changed", "key with halves swapped"}
	var foreign [][]byte
	for _, v := range []ref.Variant{ref.Tink, ref.Crunchy, ref.Raw} {
		for _, id := range []uint32{0x01020304, 0x01020305, 0x81020304, 0} {
			p := ref.Prefix(v, id)
			if !bytes.Equal(p, c.pre) {
				foreign = append(foreign, p)
			}
		}
	}
	for _, n := range ptLens {
		pt := ref.Pattern(2, n)
		for _, ai := range adIdx {
			ad := adOf(3, ai)
			ct, err := c.d.EncryptDeterministically(pt, ad)
			if err != nil {
				x.Fail("encrypt-error", "%s: %v", c.cfg, err)
				return
			}
			where := fmt.Sprintf("pt=%d ad=%d(-1=nil)", n, ai-1)
			for bit := 0; bit < 8*len(ct); bit++ {
				t := bytes.Clone(ct)
				t[bit/8] ^= 1 << (bit % 8)
				c.probe("accept-flip", t, ad, fmt.Sprintf("%s: ciphertext bit %d (byte %d of %d, prefix %d bytes) flipped", where, bit, bit/8, len(ct), len(c.pre)))
			}
			for cut := 0; cut < len(ct); cut++ {
				c.probe("accept-trunc", ct[:cut], ad, fmt.Sprintf("%s: ciphertext truncated to %d of %d bytes", where, cut, len(ct)))
			}
			c.probe("accept-trunc", nil, ad, where+": nil ciphertext")
			if len(ct) > len(c.pre)+16 {
				// body bytes removed from the front / the SIV removed
				c.probe("accept-trunc", append(bytes.Clone(ct[:len(c.pre)+16]), ct[len(c.pre)+17:]...), ad, where+": first body byte removed")
				c.probe("accept-trunc", append(bytes.Clone(ct[:len(c.pre)]), ct[len(c.pre)+16:]...), ad, where+": SIV removed")
			}
			for ext := 1; ext <= 3; ext++ {
				for _, b := range []byte{0, 0xff} {
					c.probe("accept-ext", append(bytes.Clone(ct), bytes.Repeat([]byte{b}, ext)...), ad, fmt.Sprintf("%s: ciphertext extended by %d bytes %02x", where, ext, b))
				}
			}
			c.probe("accept-ext", append(bytes.Clone(ct), ct[len(c.pre):]...), ad, where+": ciphertext followed by a copy of itself")
			for _, fp := range foreign {
				c.probe("accept-prefix", append(bytes.Clone(fp), ct[len(c.pre):]...), ad, fmt.Sprintf("%s: ciphertext under foreign prefix %x", where, fp))
			}
			if len(c.pre) > 0 {
				c.probe("accept-dupprefix", append(bytes.Clone(c.pre), ct...), ad, where+": ciphertext with duplicated prefix")
			}
			// associated-data changes
			for i := 0; i < len(ad); i++ {
				for _, m := range []byte{0x01, 0x80} {
					a := bytes.Clone(ad)
					a[i] ^= m
					c.probe("accept-ad-mod", ct, a, fmt.Sprintf("%s: AD byte %d xor %02x", where, i, m))
				}
			}
			for cut := 0; cut < len(ad); cut++ {
				c.probe("accept-ad-mod", ct, ad[:cut], fmt.Sprintf("%s: AD truncated to %d bytes", where, cut))
			}
			c.probe("accept-ad-mod", ct, append(bytes.Clone(ad), 0x80), where+": AD || 80 (padding confusion)")
			c.probe("accept-ad-mod", ct, append(bytes.Clone(ad), make([]byte, 16)...), where+": AD || 16 zero bytes")
			if len(ad) > 0 {
				c.probe("accept-ad-mod", ct, nil, where+": nil AD instead of the real one")
			} else {
				// nil <-> empty: the reference ACCEPTS; tink must too
				c.probe("", ct, []byte{}, where+": empty AD")
				c.probe("", ct, nil, where+": nil AD")
			}
			if !bytes.Equal(pt, ad) {
				// roles of plaintext and AD exchanged
				c.probe("accept-ad-mod", ct, pt, where+": plaintext passed as AD")
			}
			// ciphertexts made by the reference under related keys
			for _, nm := range otherNames {
				other := append(bytes.Clone(c.pre), ref.SIVEncrypt(otherKeys[nm], pt, ad)...)
				c.probe("accept-other-key", other, ad, where+": ciphertext made with "+nm)
			}
			// a ciphertext of a different plaintext with this SIV spliced in, and vice versa
			pt2 := ref.Pattern(3, n)
			if n > 0 {
				ct2 := append(bytes.Clone(c.pre), ref.SIVEncrypt(c.key, pt2, ad)...)
				sp := append(bytes.Clone(ct[:len(c.pre)+16]), ct2[len(c.pre)+16:]...)
				c.probe("accept-splice", sp, ad, where+": SIV of one ciphertext with the body of another")
			}
		}
	}
}

func sivSection(x *h.X) {
	keys := msbKeys("aessiv", 64, 32)
	ki := x.Choose("key(msbL,msbK1)", 4)
	x.Label(fmt.Sprintf("%02b", ki))
	kb := keys[ki]
	v := h.Pick(x, "variant", variants)
	id := h.Pick(x, "id", ids(x))
	path := h.Pick(x, "path", []string{"daead.New(handle)", "aessiv.NewDeterministicAEAD", "proto-handle", "subtle.NewAESSIV"})
	if path == "subtle.NewAESSIV" && (v != ref.Raw || id != ids(x)[0]) {
		return
	}
	if v == ref.Raw && id != ids(x)[0] && path != "proto-handle" {
		return // RAW keys carry no ID; only the proto path gives the entry a distinct keyset ID
	}
	cfg := fmt.Sprintf("AES-SIV key(msb %02b) %v id=%#x via %s", ki, v, id, path)
	var d tink.DeterministicAEAD
	pre := ref.Prefix(v, id)
	if path == "subtle.NewAESSIV" {
		dd, err := daeadsubtle.NewAESSIV(bytes.Clone(kb))
		if err != nil {
			x.Fail("construct", "%s: %v", cfg, err)
			return
		}
		d = dd
	} else {
		k, err := newSIVKey(kb, v, id)
		if err != nil {
			x.Fail("construct", "%s: %v", cfg, err)
			return
		}
		if !bytes.Equal(k.OutputPrefix(), pre) {
			x.Fail("prefix", "%s: OutputPrefix=%x want %x", cfg, k.OutputPrefix(), pre)
		}
		switch path {
		case "aessiv.NewDeterministicAEAD":
			d, err = aessiv.NewDeterministicAEAD(k, vb.Tok())
		case "daead.New(handle)":
			hd, e := tk.Single(k)
			if e != nil {
				x.Fail("construct", "%s: %v", cfg, e)
				return
			}
			d, err = daead.New(hd)
		default:
			hd, e := tk.Handle([]tk.Entry{{Key: k, ID: id, Primary: true}})
			if e != nil {
				x.Fail("construct", "%s: %v", cfg, e)
				return
			}
			d, err = daead.New(hd)
		}
		if err != nil {
			x.Fail("construct", "%s: %v", cfg, err)
			return
		}
	}
	x.NonTrivial()
	c := &sivCase{x: x, d: d, key: kb, pre: pre, cfg: cfg}
	c.exercise()
	x.OutcomeN(fmt.Sprintf("siv/msb%02b/%v/accept", ki, v), c.acc)
	x.OutcomeN(fmt.Sprintf("siv/msb%02b/%v/reject", ki, v), c.rej)
}

func newSIVKey(kb []byte, v ref.Variant, id uint32) (*aessiv.Key, error) {
	params, err := aessiv.NewParameters(64, sivVar[v])
	if err != nil {
		return nil, err
	}
	kid := id
	if v == ref.Raw {
		kid = 0
	}
	return aessiv.NewKey(secretdata.NewBytesFromData(bytes.Clone(kb), insecuresecretdataaccess.Token{}), kid, params)
}

// sivKeysetSection: a three-key keyset (TINK id A / RAW / CRUNCHY id A, different key material): the
// primary's RFC 5297 value is produced; ciphertexts the reference makes under each ENABLED key decrypt to
// the plaintext, those of a disabled or foreign key are rejected.
func sivKeysetSection(x *h.X) {
	const idA = 0x01020304
	kbs := [][]byte{ref.KeyBytes("aessiv-ks-0", 64), ref.KeyBytes("aessiv-ks-1", 64), ref.KeyBytes("aessiv-ks-2", 64)}
	foreign := ref.KeyBytes("aessiv-ks-foreign", 64)
	vs := []ref.Variant{ref.Tink, ref.Raw, ref.Crunchy}
	eids := []uint32{idA, 7, idA + 1}
	primary := x.Choose("primary", 3)
	disabled := x.Choose("disabled(0=none)", 4) - 1
	if disabled == primary {
		return
	}
	// a key that is not ENABLED is DISABLED or DESTROYED (its key data is still in the keyset): both are unusable
	off := tinkpb.KeyStatusType_DISABLED
	if disabled >= 0 && x.Choose("non-enabled-status", 2) == 1 {
		off = tinkpb.KeyStatusType_DESTROYED
	}
	var es []tk.Entry
	for i := range kbs {
		k, err := newSIVKey(kbs[i], vs[i], eids[i])
		if err != nil {
			x.Fail("construct", "keyset key %d: %v", i, err)
			return
		}
		st := tinkpb.KeyStatusType_ENABLED
		if i == disabled {
			st = off
		}
		es = append(es, tk.Entry{Key: k, ID: eids[i], Status: st, Primary: i == primary})
	}
	hd, err := tk.Handle(es)
	if err != nil {
		x.Fail("construct", "keyset: %v", err)
		return
	}
	d, err := daead.New(hd)
	if err != nil {
		x.Fail("construct", "daead.New: %v", err)
		return
	}
	x.NonTrivial()
	cfg := fmt.Sprintf("AES-SIV keyset primary=%d disabled=%d(%v)", primary, disabled, off)
	for _, n := range []int{0, 1, 16, 17, 40} {
		for _, ai := range []int{0, 1, 6} {
			pt, ad := ref.Pattern(2, n), adOf(3, ai)
			ct, err := d.EncryptDeterministically(pt, ad)
			want := append(ref.Prefix(vs[primary], eids[primary]), ref.SIVEncrypt(kbs[primary], pt, ad)...)
			x.Eval(1)
			if err != nil || !bytes.Equal(ct, want) {
				x.Fail("wrong-ciphertext", "%s pt=%d: keyset ciphertext %s (%v), want prefix(primary)||RFC 5297 = %s", cfg, n, tk.Hex(ct), err, tk.Hex(want))
				return
			}
			for i := range kbs {
				c := append(ref.Prefix(vs[i], eids[i]), ref.SIVEncrypt(kbs[i], pt, ad)...)
				got, err := d.DecryptDeterministically(c, ad)
				x.Eval(1)
				if i == disabled {
					x.Outcome("keyset/reject-disabled")
					if err == nil {
						x.Fail("accept-disabled-key", "%s pt=%d: ciphertext of disabled key %d accepted", cfg, n, i)
					}
				} else {
					x.Outcome("keyset/accept")
					if err != nil || !bytes.Equal(got, pt) {
						x.Fail("reject-valid", "%s pt=%d: ciphertext of enabled key %d: %s, %v", cfg, n, i, tk.Hex(got), err)
					}
				}
				// same prefix, foreign key material
				f := append(ref.Prefix(vs[i], eids[i]), ref.SIVEncrypt(foreign, pt, ad)...)
				if _, err := d.DecryptDeterministically(f, ad); err == nil {
					x.Fail("accept-other-key", "%s pt=%d: ciphertext of a foreign key under the prefix of key %d accepted", cfg, n, i)
				}
				x.Outcome("keyset/reject-foreign")
				// right key, prefix of another entry
				j := (i + 1) % 3
				if !bytes.Equal(ref.Prefix(vs[i], eids[i]), ref.Prefix(vs[j], eids[j])) {
					w := append(ref.Prefix(vs[j], eids[j]), ref.SIVEncrypt(kbs[i], pt, ad)...)
					// With a RAW key k_r enabled, "prefix || body" is also tried as a raw ciphertext of k_r; the
					// reference verdict is the union over enabled entries.
					wantOK := false
					for e := range kbs {
						if e == disabled {
							continue
						}
						pre := ref.Prefix(vs[e], eids[e])
						if len(w) >= len(pre) && bytes.Equal(w[:len(pre)], pre) {
							if _, ok := ref.SIVDecrypt(kbs[e], w[len(pre):], ad); ok {
								wantOK = true
							}
						}
					}
					_, err := d.DecryptDeterministically(w, ad)
					if (err == nil) != wantOK {
						x.Fail("accept-prefix", "%s pt=%d: ciphertext of key %d under the prefix of key %d: accepted=%v, reference %v", cfg, n, i, j, err == nil, wantOK)
					}
					x.Outcome("keyset/wrong-prefix")
				}
				x.Eval(2)
			}
		}
	}
}

// sivCollisionSection: FORCED output-prefix collisions. AES-SIV is deterministic, so the reference can search a
// plaintext whose RAW ciphertext starts with 0x01 (0x00), and the keyset's TINK (CRUNCHY) key gets the next four
// bytes as its id: a valid RAW ciphertext that carries another enabled key's prefix. It must still decrypt (the
// accepted set is the union over the enabled entries), in every key order, whichever key is primary, and so must
// the prefixed key's own ciphertexts; with the RAW key disabled the colliding ciphertext is rejected.
func sivCollisionSection(x *h.X) {
	v := h.Pick(x, "prefixed-variant", []ref.Variant{ref.Tink, ref.Crunchy})
	rawFirst := x.Choose("raw-first", 2) == 1
	primary := x.Choose("primary", 2)
	rawDisabled := x.Choose("raw-disabled", 2) == 1
	ai := h.Pick(x, "ad", []int{0, 1, 6})
	n := h.Pick(x, "ptlen", []int{0, 5, 16, 33})
	kbR, kbP := ref.KeyBytes("aessiv-coll-raw", 64), ref.KeyBytes("aessiv-coll-pre", 64)
	ad := adOf(3, ai)
	lead := ref.Prefix(v, 0)[0]
	var pt, rawCT []byte
	for c := 0; c < 1<<16; c++ {
		cand := append(ref.Pattern(2, n), byte(c), byte(c>>8))
		if ct := ref.SIVEncrypt(kbR, cand, ad); ct[0] == lead {
			pt, rawCT = cand, ct
			break
		}
	}
	if pt == nil {
		x.Fail("harness", "no plaintext found whose RAW ciphertext starts with %#x", lead)
		return
	}
	id := binary.BigEndian.Uint32(rawCT[1:5])
	kr, err := newSIVKey(kbR, ref.Raw, 0)
	if err != nil {
		x.Fail("construct", "raw key: %v", err)
		return
	}
	kp, err := newSIVKey(kbP, v, id)
	if err != nil {
		x.Fail("construct", "prefixed key: %v", err)
		return
	}
	rawSt := tinkpb.KeyStatusType_ENABLED
	if rawDisabled {
		rawSt = []tinkpb.KeyStatusType{tinkpb.KeyStatusType_DISABLED, tinkpb.KeyStatusType_DESTROYED}[(ai+n)%2]
	}
	// primary: 0 = the RAW key, 1 = the prefixed key (a disabled key cannot be primary)
	if rawDisabled && primary == 0 {
		return
	}
	er := tk.Entry{Key: kr, ID: id ^ 0x55, Status: rawSt, Primary: primary == 0}
	ep := tk.Entry{Key: kp, ID: id, Status: tinkpb.KeyStatusType_ENABLED, Primary: primary == 1}
	es := []tk.Entry{ep, er}
	if rawFirst {
		es = []tk.Entry{er, ep}
	}
	hd, err := tk.Handle(es)
	if err != nil {
		x.Fail("construct", "keyset: %v", err)
		return
	}
	d, err := daead.New(hd)
	if err != nil {
		x.Fail("construct", "daead.New: %v", err)
		return
	}
	x.NonTrivial()
	cfg := fmt.Sprintf("AES-SIV keyset [RAW + %v id=%#x] rawFirst=%v primary=%d rawDisabled=%v pt=%d ad=%d", v, id, rawFirst, primary, rawDisabled, len(pt), ai)
	got, err := d.DecryptDeterministically(bytes.Clone(rawCT), ad)
	x.Eval(1)
	if rawDisabled {
		x.Outcome("collision/raw-disabled-rejected")
		if err == nil {
			x.Fail("accept-disabled-key", "%s: ciphertext of the disabled RAW key accepted", cfg)
		}
	} else {
		x.Outcome("collision/raw-accepted")
		if err != nil || !bytes.Equal(got, pt) {
			x.Fail("reject-valid", "%s: the RAW key's ciphertext %s starts with the other key's output prefix and is rejected: %s, %v", cfg, tk.Hex(rawCT), tk.Hex(got), err)
		}
	}
	own := append(ref.Prefix(v, id), ref.SIVEncrypt(kbP, pt, ad)...)
	got, err = d.DecryptDeterministically(bytes.Clone(own), ad)
	x.Eval(1)
	if err != nil || !bytes.Equal(got, pt) {
		x.Fail("reject-valid", "%s: the prefixed key's ciphertext rejected: %s, %v", cfg, tk.Hex(got), err)
	}
	// what the wrapper produces is the primary's value, and it decrypts
	ct, err := d.EncryptDeterministically(pt, ad)
	want := rawCT
	if primary == 1 {
		want = own
	}
	x.Eval(1)
	if err != nil || !bytes.Equal(ct, want) {
		x.Fail("wrong-ciphertext", "%s: keyset ciphertext %s (%v), want %s", cfg, tk.Hex(ct), err, tk.Hex(want))
		return
	}
	if got, err := d.DecryptDeterministically(ct, ad); err != nil || !bytes.Equal(got, pt) {
		x.Fail("reject-valid", "%s: the wrapper cannot decrypt its own output: %v", cfg, err)
	}
	// the colliding ciphertext with one bit flipped in the body is a forgery for both keys
	bad := bytes.Clone(rawCT)
	bad[len(bad)-1] ^= 1
	if _, ok := ref.SIVDecrypt(kbP, bad[5:], ad); !ok {
		if _, err := d.DecryptDeterministically(bad, ad); err == nil {
			x.Fail("accept-forgery", "%s: modified colliding ciphertext accepted", cfg)
		}
	}
	x.Eval(1)
}

// ---------------------------------------------------------------------------------------------
// seams: internal/mac/aescmac Compute / XOREndAndCompute and the CTR step

func xorendSection(x *h.X) {
	ksize := h.Pick(x, "keysize", []int{16, 24, 32})
	keys := msbKeys("xorend", ksize, ksize)
	ki := x.Choose("key(msbL,msbK1)", 4)
	x.Label(fmt.Sprintf("%02b", ki))
	kb := keys[ki]
	m, err := c08b.New(bytes.Clone(kb))
	if err != nil {
		x.Fail("construct", "aescmac.New(%d bytes): %v", ksize, err)
		return
	}
	x.NonTrivial()
	cfg := fmt.Sprintf("aescmac key=%d(msb %02b)", ksize, ki)
	lens := []int{}
	maxLen := 80
	if x.Thorough() {
		maxLen = 130
	}
	for n := 0; n <= maxLen; n++ {
		lens = append(lens, n)
	}
	longMax := 700
	if x.Thorough() {
		longMax = 2200
	}
	for n := maxLen + 1; n <= longMax; n++ {
		lens = append(lens, n)
	}
	lens = append(lens, 4096, 4097, 8192, 8208)
	lens = append(lens, ref.LongLengths(14, 17)...)
	lasts := [][]byte{ref.Pattern(3, 16), ref.Pattern(0, 16), ref.Pattern(1, 16), ref.KeyBytes("last", 16)}
	for _, n := range lens {
		for pk := 0; pk < 4; pk++ {
			if !x.Thorough() && pk < 2 {
				continue
			}
			data := ref.Pattern(pk, n)
			in := bytes.Clone(data)
			got := m.Compute(in)
			x.Eval(1)
			if want := ref.CMAC(kb, data); !bytes.Equal(got, want) {
				x.Fail("cmac-compute", "%s: Compute(len %d pattern %d) = %x, RFC 4493 reference %x", cfg, n, pk, got, want)
				return
			}
			if !bytes.Equal(in, data) {
				x.Fail("input-modified", "%s: Compute modified its input (len %d)", cfg, n)
				return
			}
			for li, last := range lasts {
				lin := bytes.Clone(last)
				var out []byte
				var err error
				if p, msg := h.Try(func() { out, err = m.XOREndAndCompute(in, lin) }); p {
					x.Fail("panic", "%s: XOREndAndCompute(len %d) panicked: %s", cfg, n, msg)
					return
				}
				x.Eval(1)
				if n < 16 {
					x.Outcome("xorend/refused-short")
					if err == nil {
						x.Fail("xorend-short-accepted", "%s: XOREndAndCompute accepted %d-byte data (xorend is defined for >= 16 bytes): %x", cfg, n, out)
						return
					}
					continue
				}
				x.Outcome("xorend/computed")
				t := bytes.Clone(data)
				for i := 0; i < 16; i++ {
					t[n-16+i] ^= last[i]
				}
				want := ref.CMAC(kb, t)
				if err != nil || !bytes.Equal(out, want) {
					x.Fail("xorend-wrong", "%s: XOREndAndCompute(data len %d pattern %d, last #%d) = %x (%v), CMAC(data xorend last) = %x", cfg, n, pk, li, out, err, want)
					return
				}
				if !bytes.Equal(in, data) || !bytes.Equal(lin, last) {
					x.Fail("input-modified", "%s: XOREndAndCompute modified its inputs (len %d)", cfg, n)
					return
				}
			}
		}
	}
	for _, ll := range []int{0, 1, 15, 17, 32} {
		var err error
		var out []byte
		if p, msg := h.Try(func() { out, err = m.XOREndAndCompute(ref.Pattern(2, 32), make([]byte, ll)) }); p {
			x.Fail("panic", "%s: XOREndAndCompute(last of %d bytes) panicked: %s", cfg, ll, msg)
		} else if err == nil {
			x.Fail("xorend-badlast-accepted", "%s: XOREndAndCompute accepted a %d-byte `last`: %x", cfg, ll, out)
		}
		x.Eval(1)
		x.Outcome("xorend/refused-last")
	}
}

func ctrSection(x *h.X) {
	kb := ref.KeyBytes(fmt.Sprintf("ctr-%d", x.Choose("key", 2)), 64)
	s, err := daeadsubtle.NewAESSIV(bytes.Clone(kb))
	if err != nil {
		x.Fail("construct", "NewAESSIV: %v", err)
		return
	}
	x.NonTrivial()
	// SIVs whose low counter words wrap, with and without bits 31 / 63 set
	var sivs [][]byte
	for _, hi := range []byte{0x00, 0x7f, 0x80, 0xff} {
		for _, lo := range []byte{0x00, 0x7f, 0x80, 0xff} {
			for _, fill := range []byte{0x00, 0xff} {
				v := bytes.Repeat([]byte{fill}, 16)
				v[8], v[12] = hi, lo
				sivs = append(sivs, v)
				w := bytes.Clone(v)
				w[15] = 0xfe // wraps after two blocks
				sivs = append(sivs, w)
			}
		}
	}
	for i := 0; i < 16; i++ {
		v := ref.KeyBytes("siv", 16)
		v[i] ^= 0x80
		sivs = append(sivs, v)
	}
	for _, v := range sivs {
		for _, n := range []int{0, 1, 15, 16, 17, 32, 33, 48, 80} {
			in := ref.Pattern(2, n)
			vin := bytes.Clone(v)
			out, err := s.VerifCTR(vin, in)
			x.Eval(1)
			want := ref.SIVCTR(kb[32:], v, in)
			if err != nil || !bytes.Equal(out, want) {
				x.Fail("ctr-wrong", "ctrCrypt(siv=%x, %d bytes) = %s (%v), reference CTR with bits 31/63 cleared = %s", v, n, tk.Hex(out), err, tk.Hex(want))
				return
			}
			if !bytes.Equal(vin, v) {
				x.Fail("input-modified", "ctrCrypt modified the SIV %x -> %x", v, vin)
				return
			}
		}
	}
	x.Outcome("ctr/ok")
}

// ---------------------------------------------------------------------------------------------
// AES-KWP

const kwpShards = 32

func kwpKEK(size, idx int) []byte { return ref.KeyBytes(fmt.Sprintf("kek-%d-%d", size, idx), size) }

// kwpAllSection: every payload length 16..8192: Wrap = reference, deterministic, Unwrap inverts.
func kwpAllSection(x *h.X) {
	ksize := h.Pick(x, "kek", []int{16, 32})
	shard := x.Choose("shard(len mod 32)", kwpShards)
	kekIdx := 0
	if x.Thorough() {
		kekIdx = x.Choose("kek-index", 2) * 2 // KEKs #0 and #2 (#1 is used by the negative section)
	}
	kek := kwpKEK(ksize, kekIdx)
	w, err := kwp.NewKWP(bytes.Clone(kek))
	if err != nil {
		x.Fail("construct", "NewKWP(%d): %v", ksize, err)
		return
	}
	x.NonTrivial()
	npat := 3
	cnt := 0
	for n := kwp.MinWrapSize; n <= kwp.MaxWrapSize; n++ {
		if n%kwpShards != shard {
			continue
		}
		for p := 0; p < npat; p++ {
			kind := 2 + p
			if x.Thorough() && n%2 == 1 {
				kind = p // all-00 and all-FF payloads on odd lengths
			}
			pl := ref.Pattern(kind, n)
			if p == 2 {
				// a payload that looks like KWP's own framing: starts with the RFC 5649 AIV constant and ends in
				// nine zero bytes (indistinguishable from padding for an unwrap that trusts the bytes, not the MLI)
				pl = ref.Pattern(3, n)
				copy(pl, []byte{0xA6, 0x59, 0x59, 0xA6})
				clear(pl[n-9:])
			}
			in := bytes.Clone(pl)
			c1, e1 := w.Wrap(in)
			x.Eval(1)
			cnt++
			if e1 != nil {
				x.Fail("kwp-wrap-error", "KWP kek=%d: Wrap(%d bytes) failed: %v", ksize, n, e1)
				return
			}
			want := ref.KWPWrap(kek, pl)
			if !bytes.Equal(c1, want) {
				x.Fail("kwp-wrong-wrap", "KWP kek=%d: Wrap(%d bytes, pattern %d) = %s (len %d), RFC 5649 reference %s (len %d)", ksize, n, kind, tk.Hex(c1), len(c1), tk.Hex(want), len(want))
				return
			}
			if !bytes.Equal(in, pl) {
				x.Fail("input-modified", "KWP kek=%d: Wrap modified its input (%d bytes)", ksize, n)
				return
			}
			if p == 0 {
				c2, e2 := w.Wrap(in)
				if e2 != nil || !bytes.Equal(c1, c2) {
					x.Fail("nondeterministic", "KWP kek=%d: two Wrap calls on %d bytes differ", ksize, n)
					return
				}
			}
			cin := bytes.Clone(c1)
			got, err := w.Unwrap(cin)
			if err != nil || !bytes.Equal(got, pl) {
				x.Fail("kwp-unwrap-own", "KWP kek=%d: Unwrap(Wrap(%d bytes)) = %s, %v", ksize, n, tk.Hex(got), err)
				return
			}
			if !bytes.Equal(cin, c1) {
				x.Fail("input-modified", "KWP kek=%d: Unwrap modified its input (%d bytes)", ksize, len(c1))
				return
			}
		}
	}
	x.OutcomeN(fmt.Sprintf("kwp/kek%d/wrap=ref,unwrap=id", ksize), cnt)
}

// kwpRefusedSection: payload sizes outside 16..8192 are refused by Wrap; mis-sized inputs by Unwrap;
// well-formed wrappings of payloads longer than 8192 bytes are refused by Unwrap.
func kwpRefusedSection(x *h.X) {
	ksize := h.Pick(x, "kek", []int{16, 32})
	kek := kwpKEK(ksize, 0)
	w, err := kwp.NewKWP(bytes.Clone(kek))
	if err != nil {
		x.Fail("construct", "NewKWP(%d): %v", ksize, err)
		return
	}
	x.NonTrivial()
	var sizes []int
	for n := 0; n <= 15; n++ {
		sizes = append(sizes, n)
	}
	for n := 8193; n <= 8200; n++ {
		sizes = append(sizes, n)
	}
	sizes = append(sizes, 8208, 8209, 16384, 65536)
	for _, n := range sizes {
		var out []byte
		var err error
		if p, msg := h.Try(func() { out, err = w.Wrap(ref.Pattern(2, n)) }); p {
			x.Fail("panic", "KWP kek=%d: Wrap(%d bytes) panicked: %s", ksize, n, msg)
			continue
		}
		x.Eval(1)
		x.Outcome("kwp/wrap-refused")
		if err == nil {
			x.Fail("kwp-wrap-size-accepted", "KWP kek=%d: Wrap accepted a %d-byte payload (outside 16..8192): %s", ksize, n, tk.Hex(out))
		}
	}
	if _, err := w.Wrap(nil); err == nil {
		x.Fail("kwp-wrap-size-accepted", "KWP kek=%d: Wrap(nil) accepted", ksize)
	}
	// Unwrap: every input length 0..40 and around the upper limit, arbitrary content
	var ulen []int
	for n := 0; n <= 40; n++ {
		ulen = append(ulen, n)
	}
	ulen = append(ulen, 8199, 8200, 8201, 8207, 8208, 8209, 8215, 8216, 8217, 16384)
	for _, n := range ulen {
		in := ref.Pattern(3, n)
		var out []byte
		var err error
		if p, msg := h.Try(func() { out, err = w.Unwrap(in) }); p {
			x.Fail("panic", "KWP kek=%d: Unwrap(%d bytes) panicked: %s", ksize, n, msg)
			continue
		}
		x.Eval(1)
		_, refOK := ref.KWPUnwrap(kek, in)
		if !refOK || n > 8200 {
			x.Outcome("kwp/unwrap-garbage-refused")
			if err == nil {
				x.Fail("kwp-unwrap-size-accepted", "KWP kek=%d: Unwrap accepted %d arbitrary bytes -> %s", ksize, n, tk.Hex(out))
			}
		}
	}
	// well-formed wrappings of too-long payloads (8193..8200 -> 8208 bytes; 8201 -> 8216); the largest admissible wrapping is 8200 bytes
	for _, n := range []int{8193, 8194, 8199, 8200, 8201, 8208, 16384} {
		c := ref.KWPWrap(kek, ref.Pattern(2, n))
		out, err := w.Unwrap(c)
		x.Eval(1)
		x.Outcome("kwp/unwrap-oversize-refused")
		if err == nil {
			x.Fail("kwp-unwrap-oversize-accepted", "KWP kek=%d: Unwrap accepted the wrapping (%d bytes) of a %d-byte payload (limit 8192): %d bytes returned", ksize, len(c), n, len(out))
		}
	}
}

// kwpLattice: the payload lengths on which the negative catalogue runs.
func kwpLattice(thorough bool) []int {
	var l []int
	for n := 16; n <= 64; n++ {
		l = append(l, n)
	}
	step := 389
	if thorough {
		step = 97
	}
	for n := 64 + step; n < 8176; n += step {
		l = append(l, n)
	}
	for n := 8183; n <= 8192; n++ {
		l = append(l, n)
	}
	if !thorough {
		// quick: drop the middle of the last decade
		l = append(l[:len(l)-10], 8183, 8184, 8185, 8191, 8192)
	}
	return l
}

type kwpCase struct {
	x            *h.X
	w            *kwp.KWP
	kek          []byte
	ksize        int
	n            int
	acc, rej, dc int
}

// judge unwraps `c` with tink and requires the reference verdict.
func (k *kwpCase) judge(key string, c []byte, what string) {
	if key == "" {
		key = "kwp-accept-invalid"
	}
	k.x.Eval(1)
	var got []byte
	var err error
	if p, msg := h.Try(func() { got, err = k.w.Unwrap(bytes.Clone(c)) }); p {
		k.x.Fail("panic", "KWP kek=%d n=%d: Unwrap panicked on %s: %s", k.ksize, k.n, what, msg)
		return
	}
	want, ok := ref.KWPUnwrap(k.kek, c)
	switch {
	case ok && len(want) < kwp.MinWrapSize:
		k.dc++ // don't care: a well-formed wrapping of a payload below the 16-byte domain
	case ok && len(want) <= kwp.MaxWrapSize:
		k.acc++
		if err != nil || !bytes.Equal(got, want) {
			k.x.Fail("kwp-reject-valid", "KWP kek=%d n=%d: %s is a well-formed wrapping of %d bytes; Unwrap = %s, %v", k.ksize, k.n, what, len(want), tk.Hex(got), err)
		}
	default:
		k.rej++
		if err == nil {
			k.x.Fail(key, "KWP kek=%d n=%d: Unwrap accepted %s -> %d bytes %s (wrapped input %s)", k.ksize, k.n, what, len(got), tk.Hex(got), tk.Hex(c))
		}
	}
}

func kwpNegativeSection(x *h.X) {
	ksize := h.Pick(x, "kek", []int{16, 32})
	lat := kwpLattice(x.Thorough())
	n := lat[x.Choose("length", len(lat))]
	x.Label(fmt.Sprint(n))
	kek := kwpKEK(ksize, 1)
	w, err := kwp.NewKWP(bytes.Clone(kek))
	if err != nil {
		x.Fail("construct", "NewKWP(%d): %v", ksize, err)
		return
	}
	x.NonTrivial()
	k := &kwpCase{x: x, w: w, kek: kek, ksize: ksize, n: n}
	// payload patterns: last byte non-zero (0xA5^i is never... may be) and last byte zero
	pls := [][]byte{ref.Pattern(3, n), ref.Pattern(3, n)}
	pls[0][n-1] |= 0x01
	pls[1][n-1] = 0
	if n >= 2 {
		pls[1][n-2] = 0
	}
	for pi, pl := range pls {
		c, err := w.Wrap(pl)
		if err != nil {
			x.Fail("kwp-wrap-error", "KWP kek=%d: Wrap(%d bytes) failed: %v", ksize, n, err)
			return
		}
		k.judge("", c, "own wrapping")
		if pi == 0 {
			// (1) bit flips: every bit of the first two and last two 8-byte blocks, one bit in every other block
			nb := len(c) / 8
			for b := 0; b < nb; b++ {
				if b < 2 || b >= nb-2 {
					for bit := 0; bit < 64; bit++ {
						t := bytes.Clone(c)
						t[8*b+bit/8] ^= 1 << (bit % 8)
						k.judge("kwp-accept-flip", t, fmt.Sprintf("wrapping with bit %d of block %d/%d flipped", bit, b, nb))
					}
				} else {
					t := bytes.Clone(c)
					t[8*b+(b%8)] ^= 1 << (b % 7)
					k.judge("kwp-accept-flip", t, fmt.Sprintf("wrapping with one bit of block %d/%d flipped", b, nb))
				}
			}
			// (2) wrong sizes
			for _, cut := range []int{1, 7, 8, 9, 16} {
				if cut <= len(c) {
					k.judge("kwp-accept-missized", c[:len(c)-cut], fmt.Sprintf("wrapping truncated by %d bytes", cut))
					k.judge("kwp-accept-missized", c[cut:], fmt.Sprintf("wrapping with the first %d bytes removed", cut))
				}
			}
			for _, ext := range []int{1, 7, 8, 16} {
				k.judge("kwp-accept-missized", append(bytes.Clone(c), make([]byte, ext)...), fmt.Sprintf("wrapping extended by %d zero bytes", ext))
				k.judge("kwp-accept-missized", append(make([]byte, ext), c...), fmt.Sprintf("wrapping preceded by %d zero bytes", ext))
			}
			k.judge("kwp-accept-missized", c[:16], "first 16 bytes of the wrapping")
			k.judge("kwp-accept-missized", c[:8], "first 8 bytes of the wrapping")
			k.judge("kwp-accept-missized", nil, "nil")
			// wrapping under the other KEK
			k.judge("kwp-accept-other-kek", ref.KWPWrap(kwpKEK(ksize, 0), pl), "wrapping made with another KEK")
		}
		// (3) crafted wrappings: W(malformed inner block)
		inner := ref.KWPInner(pl)
		craft := func(key string, in []byte, what string) {
			k.judge(key, ref.KWPApplyW(kek, in), "W("+what+")")
		}
		craft("", inner, "well-formed inner block")
		for i := 0; i < 4; i++ {
			for _, m := range []byte{0x01, 0x80, 0xff} {
				t := bytes.Clone(inner)
				t[i] ^= m
				craft("kwp-accept-bad-aiv", t, fmt.Sprintf("AIV constant byte %d xor %02x", i, m))
			}
		}
		t := bytes.Clone(inner)
		copy(t, []byte{0xA6, 0xA6, 0xA6, 0xA6}) // the RFC 3394 default IV prefix
		craft("kwp-accept-bad-aiv", t, "AIV constant A6A6A6A6 (RFC 3394 default IV)")
		setLen := func(v uint32) []byte {
			t := bytes.Clone(inner)
			binary.BigEndian.PutUint32(t[4:], v)
			return t
		}
		un := uint32(n)
		for _, lv := range []struct {
			v    uint32
			name string
		}{{un + 1, "n+1"}, {un - 1, "n-1"}, {un + 8, "n+8"}, {un - 8, "n-8"}, {un + 7, "n+7"}, {un - 7, "n-7"}, {0, "0"}, {1 << 31, "2^31"},
			{0xFFFFFFFF, "2^32-1"}, {un | 0x80000000, "n|2^31"}, {un << 8, "n<<8"}, {un + 0x10000, "n+2^16"}, {uint32(len(inner) - 8), "padded length"}, {uint32(len(inner)), "inner length"}} {
			craft("kwp-accept-bad-length", setLen(lv.v), fmt.Sprintf("length field %s = %d instead of %d", lv.name, lv.v, n))
		}
		// every padding byte non-zero
		for i := 8 + n; i < len(inner); i++ {
			for _, m := range []byte{0x01, 0x80} {
				t := bytes.Clone(inner)
				t[i] = m
				craft("kwp-accept-bad-padding", t, fmt.Sprintf("padding byte %d of %d = %02x", i-8-n, len(inner)-8-n, m))
			}
		}
		if len(inner) > 8+n {
			t := bytes.Clone(inner)
			for i := 8 + n; i < len(inner); i++ {
				t[i] = 0xff
			}
			craft("kwp-accept-bad-padding", t, "all padding bytes ff")
		}
		// too much padding: a whole extra zero block (MLI <= 8(n-1) must fail), and a length field that
		// declares part of a zero tail as padding
		craft("kwp-accept-bad-padding", append(bytes.Clone(inner), make([]byte, 8)...), "inner block followed by 8 extra zero padding bytes")
		craft("kwp-accept-bad-padding", append(bytes.Clone(inner), make([]byte, 16)...), "inner block followed by 16 extra zero padding bytes")
		if n >= 32 {
			z := bytes.Clone(inner)
			for i := 8 + n - 16; i < len(z); i++ {
				z[i] = 0
			}
			for _, d := range []int{8, 9, 15, 16} {
				t := bytes.Clone(z)
				binary.BigEndian.PutUint32(t[4:], uint32(n-d))
				craft("kwp-accept-bad-padding", t, fmt.Sprintf("payload ending in 16 zero bytes with length field n-%d (more than 7 padding bytes)", d))
			}
			for _, d := range []int{1, 2, 7} {
				// still well formed when n-d stays in the same 8-byte block: the reference decides
				t := bytes.Clone(z)
				binary.BigEndian.PutUint32(t[4:], uint32(n-d))
				craft("kwp-accept-bad-padding", t, fmt.Sprintf("payload ending in zero bytes with length field n-%d", d))
			}
		}
		// inner block without the AIV at all (payload wrapped with plain W) and AIV in the wrong half
		craft("kwp-accept-bad-aiv", append(bytes.Clone(inner[8:]), make([]byte, 8)...), "payload followed by zeros, no AIV")
		sw := bytes.Clone(inner)
		copy(sw[:4], inner[4:8])
		copy(sw[4:8], inner[:4])
		craft("kwp-accept-bad-aiv", sw, "AIV halves exchanged (length || A65959A6)")
	}
	x.OutcomeN("kwp-neg/reference-accepts", k.acc)
	x.OutcomeN("kwp-neg/reference-rejects", k.rej)
	x.OutcomeN("kwp-neg/dont-care(payload<16)", k.dc)
}

func main() {
	if err := ref.SIVSelfTest(); err != nil {
		fmt.Println("C08: reference self-test failed:", err)
		os.Exit(2)
	}
	if err := ref.KWPSelfTest(); err != nil {
		fmt.Println("C08: reference self-test failed:", err)
		os.Exit(2)
	}
	h.Main("C08", "exploration",
		"AES-SIV: product of (key covering each msb(L),msb(K1) branch x variant x id x construction path) x every plaintext length 0..80,255,256,257,4096 x AD nil and every length 0..40 (x patterns): ciphertext byte-identical to prefix||RFC 5297 reference, deterministic, decrypt inverts; mutation catalogue (every bit flip, truncation, extension, prefixes, AD edits, related keys, splices) with the verdict of the reference decryption. Legacy adapter: custom key manager returning the raw reference primitive x prefix type (TINK/CRUNCHY/LEGACY/RAW) x id x keyset shape (single, every position among heterogeneous keys, primary or not, with/without RAW keys) x plaintext length 0..70 + long x AD nil/empty/short/long: ciphertext = prefix(primary)||reference, deterministic, no aliasing, mutation catalogue judged by the union of the enabled entries' reference decryptions. Seams: XOREndAndCompute/Compute vs CMAC(data xorend last), CTR with crafted SIVs. AES-KWP: every payload length 16..8192 x KEK 16/32 x 2 patterns vs RFC 5649 reference, Unwrap inverts, sizes outside refused; on a lattice of lengths bit flips, wrong sizes and crafted wrappings W(malformed AIV/length/padding) with the verdict of the reference unwrap. Non-trivial = a primitive was built and exercised; distinct = distinct choice vectors.",
		[]h.Section{
			{Name: "aessiv", Body: sivSection, Bound: -1},
			{Name: "aessiv-keyset", Body: sivKeysetSection, Bound: -1},
			{Name: "aessiv-keyset-prefix-collision", Body: sivCollisionSection, Bound: -1},
			{Name: "legacy-adapter", Body: legacyAdapterSection, Bound: -1},
			{Name: "cmac-xorend-seam", Body: xorendSection, Bound: -1},
			{Name: "siv-ctr-seam", Body: ctrSection, Bound: -1, Seam: true},
			{Name: "kwp-all-lengths", Body: kwpAllSection, Bound: -1},
			{Name: "kwp-refused", Body: kwpRefusedSection, Bound: -1},
			{Name: "kwp-negative", Body: kwpNegativeSection, Bound: -1},
		})
}
