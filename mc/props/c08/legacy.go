package main

// Section legacy-adapter: the "legacy primitive" route of daead/daead_factory.go.
//
// A key whose type URL has no registered full-primitive constructor is served by its key manager; the
// primitive the manager returns is RAW (prefix-less) and daead.NewWithConfig wraps it in
// fullDAEADPrimitiveAdapter, which has to prepend the key's output prefix on encryption and strip it on
// decryption. The key manager registered here (own type URL) returns the INDEPENDENT RFC 5297 reference of
// mc/ref/siv.go as its primitive, so everything observed at daead.New(handle) beyond the reference value is
// the work of the factory and its adapter:
//
//	ciphertext  = ref.Prefix(variant, id) || ref.SIVEncrypt(key, pt, ad)      (primary entry), deterministic
//	decryption  = the union, over the ENABLED entries e, of "ct has prefix(e) and ref.SIVDecrypt(key_e, rest, ad)"
//
// Space: prefix type {TINK, CRUNCHY, LEGACY, RAW} x key id (tk.IDs + ids with leading zero bytes) x keyset
// shape (single key; the key at every position among heterogeneous other keys - real AES-SIV TINK / RAW keys,
// other legacy keys CRUNCHY / RAW, a DISABLED legacy key - as primary and as non-primary; a keyset without
// any RAW key; all 16 shapes on the first id (thorough: first three ids), 4-5 representative shapes on the other
// ids; RAW keys on two keyset ids) x plaintext length 0..70 + long ones x associated data nil / empty / short / long; mutation
// catalogue (every truncation, front cuts, every prefix bit, sampled body bits, prefixes of other ids and
// variants, prefix-less body, duplicated prefix, ciphertexts of the other entries) judged by the union above.
//
// Don't care: which error is returned; which of several accepting entries produced the plaintext (the keys
// are distinct, so at most one accepts).

import (
	"bytes"
	"errors"
	"fmt"
	"sync"

	"google.golang.org/protobuf/proto"

	"github.com/tink-crypto/tink-go/v2/core/registry"
	"github.com/tink-crypto/tink-go/v2/daead"
	"github.com/tink-crypto/tink-go/v2/keyset"
	tinkpb "github.com/tink-crypto/tink-go/v2/proto/tink_go_proto"
	"github.com/tink-crypto/tink-go/v2/testkeyset"
	"github.com/tink-crypto/tink-go/v2/tink"
	"github.com/tink-crypto/tink-go/v2/verifbridge/vb"
	"verif/h"
	"verif/ref"
	"verif/tk"
)

const lgURL = "type.googleapis.com/verif.c08.RawReferenceAesSivKey"

// refDAEAD is the raw (prefix-less) primitive of the custom key manager: RFC 5297 by the reference model.
type refDAEAD struct{ key []byte }

var _ tink.DeterministicAEAD = refDAEAD{}

func (d refDAEAD) EncryptDeterministically(pt, ad []byte) ([]byte, error) {
	return ref.SIVEncrypt(d.key, pt, ad), nil
}

func (d refDAEAD) DecryptDeterministically(ct, ad []byte) ([]byte, error) {
	pt, ok := ref.SIVDecrypt(d.key, ct, ad)
	if !ok {
		return nil, errors.New("verif reference AES-SIV: FAIL")
	}
	return pt, nil
}

type lgKM struct{}

func (lgKM) Primitive(b []byte) (any, error) {
	if len(b) != 64 {
		return nil, errors.New("verif c08 key manager: key must be 64 bytes")
	}
	return refDAEAD{bytes.Clone(b)}, nil
}
func (lgKM) NewKey([]byte) (proto.Message, error)       { return nil, errors.New("unsupported") }
func (lgKM) DoesSupport(u string) bool                  { return u == lgURL }
func (lgKM) TypeURL() string                            { return lgURL }
func (lgKM) NewKeyData([]byte) (*tinkpb.KeyData, error) { return nil, errors.New("unsupported") }

var lgOnce sync.Once

var lgProtoPrefix = map[ref.Variant]tinkpb.OutputPrefixType{ref.Tink: tinkpb.OutputPrefixType_TINK, ref.Crunchy: tinkpb.OutputPrefixType_CRUNCHY,
	ref.Legacy: tinkpb.OutputPrefixType_LEGACY, ref.Raw: tinkpb.OutputPrefixType_RAW}

// lgEntry is one keyset entry of the model.
type lgEntry struct {
	name    string
	v       ref.Variant
	id      uint32 // keyset key id (also the id in the prefix unless RAW)
	key     []byte // 64-byte AES-SIV key
	legacy  bool   // served by the custom key manager (adapter route) / a real aessiv key (full primitive)
	enabled bool
}

func (e lgEntry) prefix() []byte { return ref.Prefix(e.v, e.id) }

func lgHandle(es []lgEntry, primary int) (*keyset.Handle, error) {
	ks := &tinkpb.Keyset{PrimaryKeyId: es[primary].id}
	for _, e := range es {
		var kd *tinkpb.KeyData
		if e.legacy {
			kd = &tinkpb.KeyData{TypeUrl: lgURL, Value: bytes.Clone(e.key), KeyMaterialType: tinkpb.KeyData_SYMMETRIC}
		} else {
			k, err := newSIVKey(e.key, e.v, e.id)
			if err != nil {
				return nil, err
			}
			if kd, _, _, _, err = vb.SerializeKey(k); err != nil {
				return nil, err
			}
		}
		st := tinkpb.KeyStatusType_ENABLED
		if !e.enabled {
			st = tinkpb.KeyStatusType_DISABLED
		}
		ks.Key = append(ks.Key, &tinkpb.Keyset_Key{KeyData: kd, Status: st, KeyId: e.id, OutputPrefixType: lgProtoPrefix[e.v]})
	}
	return testkeyset.NewHandle(ks)
}

// lgOthers: the heterogeneous company of the key under test. IDs are outside the id domain of the section.
func lgOthers(full bool) []lgEntry {
	mk := func(name string, v ref.Variant, id uint32, legacy, enabled bool) lgEntry {
		return lgEntry{name: name, v: v, id: id, key: ref.KeyBytes("c08-legacy-other/"+name, 64), legacy: legacy, enabled: enabled}
	}
	if !full {
		return []lgEntry{mk("aessiv-TINK", ref.Tink, 0x0A0B0C0D, false, true), mk("legacy-CRUNCHY", ref.Crunchy, 0x0A0B0C0E, true, true)}
	}
	return []lgEntry{
		mk("aessiv-TINK", ref.Tink, 0x0A0B0C0D, false, true),
		mk("legacy-RAW", ref.Raw, 0x0A0B0C10, true, true),
		mk("aessiv-RAW", ref.Raw, 0x0A0B0C11, false, true),
		mk("legacy-CRUNCHY", ref.Crunchy, 0x0A0B0C0E, true, true),
		mk("legacy-TINK-disabled", ref.Tink, 0x0A0B0C0F, true, false),
	}
}

type lgShape struct {
	name    string
	kind    string
	full    bool // company with RAW keys and a disabled key / only prefixed keys
	pos     int  // position of the key under test, -1 = single-key keyset
	primary int  // -1 = the key under test, else index into the company
}

func lgShapes() []lgShape {
	s := []lgShape{{name: "single", kind: "single", pos: -1, primary: -1}}
	for p := 0; p <= 5; p++ {
		s = append(s, lgShape{name: fmt.Sprintf("multi/pos%d/primary=self", p), kind: "multi-self-primary", full: true, pos: p, primary: -1})
	}
	for p := 0; p <= 5; p++ {
		s = append(s, lgShape{name: fmt.Sprintf("multi/pos%d/primary=other%d", p, p%4), kind: "multi-other-primary", full: true, pos: p, primary: p % 4})
	}
	for p := 0; p <= 2; p++ {
		s = append(s, lgShape{name: fmt.Sprintf("noraw/pos%d/primary=self", p), kind: "multi-no-raw", pos: p, primary: -1})
	}
	return s
}

type lgCase struct {
	x        *h.X
	d        tink.DeterministicAEAD
	es       []lgEntry
	cfg      string
	acc, rej int
}

// refDecrypt: every plaintext an enabled entry's reference decryption yields for (ct, ad).
func (c *lgCase) refDecrypt(ct, ad []byte) (pts [][]byte) {
	for _, e := range c.es {
		if !e.enabled {
			continue
		}
		pre := e.prefix()
		if len(ct) < len(pre) || !bytes.Equal(ct[:len(pre)], pre) {
			continue
		}
		if p, ok := ref.SIVDecrypt(e.key, ct[len(pre):], ad); ok {
			pts = append(pts, p)
		}
	}
	return pts
}

// probe decrypts (ct, ad) through the keyset primitive and requires the reference verdict.
func (c *lgCase) probe(key string, ct, ad []byte, what string) bool {
	c.x.Eval(1)
	want := c.refDecrypt(ct, ad)
	ctIn, adIn := bytes.Clone(ct), bytes.Clone(ad)
	if ct == nil {
		ctIn = nil
	}
	if ad == nil {
		adIn = nil
	}
	var got []byte
	var err error
	if p, msg := h.Try(func() { got, err = c.d.DecryptDeterministically(ctIn, adIn) }); p {
		c.x.Fail("panic", "%s: DecryptDeterministically panicked on %s (ct=%s): %s", c.cfg, what, tk.Hex(ct), msg)
		return false
	}
	if !bytes.Equal(ctIn, ct) || !bytes.Equal(adIn, ad) {
		c.x.Fail("input-modified", "%s: DecryptDeterministically modified its input buffers on %s", c.cfg, what)
		return false
	}
	if len(want) > 0 {
		c.acc++
		if err != nil {
			c.x.Fail("reject-valid", "%s: %s (ct=%s ad=%s): the reference accepts (pt %s) but the keyset primitive rejects: %v", c.cfg, what, tk.Hex(ct), tk.Hex(ad), tk.Hex(want[0]), err)
			return false
		}
		for _, w := range want {
			if bytes.Equal(got, w) {
				return true
			}
		}
		c.x.Fail("wrong-plaintext", "%s: %s: decrypted %s, reference %s", c.cfg, what, tk.Hex(got), tk.Hex(want[0]))
		return false
	}
	c.rej++
	if err == nil {
		c.x.Fail(key, "%s: DecryptDeterministically accepted %s (ct=%s ad=%s) -> %s; no enabled entry's prefix || RFC 5297 decryption accepts it", c.cfg, what, tk.Hex(ct), tk.Hex(ad), tk.Hex(got))
		return false
	}
	return true
}

func lgIDs(x *h.X) []uint32 {
	if x.Thorough() {
		return append(append([]uint32{}, tk.IDs...), 0x00AB00CD, 0x0000ABCD, 0x00000100)
	}
	return []uint32{tk.IDs[0], 0, 1, 0x00AB00CD, 0xFFFFFFFF}
}

func lgADs(thorough bool) [][]byte {
	ads := [][]byte{nil, {}, ref.Pattern(3, 5), ref.Pattern(3, 40)}
	if thorough {
		ads = append(ads, ref.Pattern(3, 1), ref.Pattern(3, 16), ref.Pattern(3, 17), ref.Pattern(2, 300))
	}
	return ads
}

func adName(ad []byte) string {
	if ad == nil {
		return "nil"
	}
	return fmt.Sprint(len(ad))
}

func legacyAdapterSection(x *h.X) {
	lgOnce.Do(func() {
		if err := registry.RegisterKeyManager(lgKM{}); err != nil {
			panic(err)
		}
	})
	v := h.Pick(x, "prefix-type", []ref.Variant{ref.Tink, ref.Crunchy, ref.Legacy, ref.Raw})
	ids := lgIDs(x)
	ii := x.Choose("id", len(ids))
	id := ids[ii]
	x.Label(fmt.Sprintf("%#x", id))
	shapes := lgShapes()
	si := x.Choose("keyset-shape", len(shapes))
	sh := shapes[si]
	x.Label(sh.name)
	// the full shape catalogue on the first id (thorough: the first three ids); on the other ids: single / pos1 self /
	// pos3 other-primary / no-raw pos1 (thorough: also pos5 other-primary)
	fullShapes := 1
	if x.Thorough() {
		fullShapes = 3
	}
	if ii >= fullShapes && si != 0 && si != 2 && si != 10 && si != 14 && !(x.Thorough() && si == 12) {
		return
	}
	if v == ref.Raw && ii > 1 {
		return // a RAW key has no prefix: further keyset ids add nothing
	}
	self := lgEntry{name: "under-test", v: v, id: id, key: ref.KeyBytes("c08-legacy-target", 64), legacy: true, enabled: true}
	var es []lgEntry
	ti, pi := 0, 0
	if sh.pos < 0 {
		es = []lgEntry{self}
	} else {
		oth := lgOthers(sh.full)
		es = append(es, oth[:sh.pos]...)
		ti = len(es)
		es = append(es, self)
		es = append(es, oth[sh.pos:]...)
		pi = ti
		if sh.primary >= 0 {
			pi = sh.primary
			if pi >= ti {
				pi++
			}
		}
	}
	cfg := fmt.Sprintf("legacy raw reference primitive behind fullDAEADPrimitiveAdapter, %v id=%#x, keyset %s", v, id, sh.name)
	hd, err := lgHandle(es, pi)
	if err != nil {
		x.Fail("construct", "%s: keyset: %v", cfg, err)
		return
	}
	d, err := daead.New(hd)
	if err != nil {
		x.Fail("construct", "%s: daead.New: %v", cfg, err)
		return
	}
	x.NonTrivial()
	c := &lgCase{x: x, d: d, es: es, cfg: cfg}
	c.exercise(ti, pi)
	x.OutcomeN(fmt.Sprintf("legacy/%v/%s/accept", v, sh.kind), c.acc)
	x.OutcomeN(fmt.Sprintf("legacy/%v/%s/reject", v, sh.kind), c.rej)
}

// exercise: ti = index of the entry under test, pi = index of the primary.
func (c *lgCase) exercise(ti, pi int) {
	x := c.x
	self, prim := c.es[ti], c.es[pi]
	pre := self.prefix()
	maxLen := 70
	long := []int{127, 128, 129, 255, 256, 257, 1024, 4096}
	if x.Thorough() {
		maxLen = 130
		long = append(long, 4097, 8192, 16400)
	}
	var ptLens []int
	for n := 0; n <= maxLen; n++ {
		ptLens = append(ptLens, n)
	}
	ptLens = append(ptLens, long...)
	ads := lgADs(x.Thorough())
	for _, n := range ptLens {
		pt := ref.Pattern(2, n)
		for _, ad := range ads {
			where := fmt.Sprintf("pt=%d ad=%s", n, adName(ad))
			ptIn, adIn := bytes.Clone(pt), bytes.Clone(ad)
			if ad == nil {
				adIn = nil
			}
			var ct1, ct2 []byte
			var e1, e2 error
			if p, msg := h.Try(func() {
				ct1, e1 = c.d.EncryptDeterministically(ptIn, adIn)
				ct2, e2 = c.d.EncryptDeterministically(ptIn, adIn)
			}); p {
				x.Fail("panic", "%s %s: EncryptDeterministically panicked: %s", c.cfg, where, msg)
				return
			}
			x.Eval(1)
			if e1 != nil || e2 != nil {
				x.Fail("encrypt-error", "%s %s: EncryptDeterministically error %v / %v", c.cfg, where, e1, e2)
				return
			}
			if !bytes.Equal(ptIn, pt) || !bytes.Equal(adIn, ad) {
				x.Fail("input-modified", "%s %s: EncryptDeterministically modified its input buffers", c.cfg, where)
				return
			}
			want := append(prim.prefix(), ref.SIVEncrypt(prim.key, pt, ad)...)
			if !bytes.Equal(ct1, want) {
				x.Fail("wrong-ciphertext", "%s %s: ciphertext %s, want prefix(%v,%#x) || RFC 5297 reference = %s", c.cfg, where, tk.Hex(ct1), prim.v, prim.id, tk.Hex(want))
				return
			}
			if !bytes.Equal(ct1, ct2) {
				x.Fail("nondeterministic", "%s %s: two encryptions differ: %s vs %s", c.cfg, where, tk.Hex(ct1), tk.Hex(ct2))
				return
			}
			// the returned ciphertext is the caller's: a later encryption must not change it, and scribbling over a
			// returned ciphertext must not change a later encryption
			for i := range ct2 {
				ct2[i] = 0xEE
			}
			pt3 := ref.Pattern(3, n+1)
			ct3, e3 := c.d.EncryptDeterministically(pt3, ad)
			ct4, e4 := c.d.EncryptDeterministically(ptIn, adIn)
			x.Eval(1)
			if e3 != nil || e4 != nil {
				x.Fail("encrypt-error", "%s %s: EncryptDeterministically error %v / %v", c.cfg, where, e3, e4)
				return
			}
			if !bytes.Equal(ct1, want) {
				x.Fail("output-aliased", "%s %s: a ciphertext returned earlier changed to %s after later EncryptDeterministically calls (was %s)", c.cfg, where, tk.Hex(ct1), tk.Hex(want))
				return
			}
			if want3 := append(prim.prefix(), ref.SIVEncrypt(prim.key, pt3, ad)...); !bytes.Equal(ct3, want3) {
				x.Fail("wrong-ciphertext", "%s pt=%d(pattern 3) ad=%s: ciphertext %s, want %s", c.cfg, n+1, adName(ad), tk.Hex(ct3), tk.Hex(want3))
				return
			}
			if !bytes.Equal(ct4, want) {
				x.Fail("nondeterministic", "%s %s: ciphertext %s after the caller overwrote an earlier result, before %s", c.cfg, where, tk.Hex(ct4), tk.Hex(want))
				return
			}
			ok := c.probe("accept-invalid", ct1, ad, where+": own ciphertext")
			// the ciphertext of the entry under test (= ct1 when it is the primary): goes through the adapter's decryption
			tct := append(self.prefix(), ref.SIVEncrypt(self.key, pt, ad)...)
			if ti != pi {
				ok = ok && c.probe("accept-invalid", tct, ad, where+": reference ciphertext of the entry under test")
			}
			// wrong associated data
			ok = ok && c.probe("accept-ad-mod", tct, append(bytes.Clone(ad), 0), where+": associated data || 00")
			if len(ad) > 0 {
				ok = ok && c.probe("accept-ad-mod", tct, ad[:len(ad)-1], where+": associated data truncated by one byte")
				ok = ok && c.probe("accept-ad-mod", tct, nil, where+": nil associated data instead of the real one")
				a := bytes.Clone(ad)
				a[len(a)/2] ^= 0x10
				ok = ok && c.probe("accept-ad-mod", tct, a, where+": one associated-data bit flipped")
			} else {
				// nil and empty are the same single empty component: the reference accepts
				ok = ok && c.probe("accept-invalid", tct, []byte{}, where+": empty associated data")
				ok = ok && c.probe("accept-invalid", tct, nil, where+": nil associated data")
			}
			// cheap ciphertext negatives at every cell
			bad := bytes.Clone(tct)
			bad[len(bad)-1] ^= 1
			ok = ok && c.probe("accept-flip", bad, ad, where+": last ciphertext bit flipped")
			ok = ok && c.probe("accept-trunc", tct[:len(tct)-1], ad, where+": ciphertext truncated by one byte")
			if len(pre) > 0 {
				ok = ok && c.probe("accept-noprefix", tct[len(pre):], ad, where+": prefix-less ciphertext of the entry under test")
				bad = bytes.Clone(tct)
				bad[len(pre)-1] ^= 1
				ok = ok && c.probe("accept-prefix", bad, ad, where+": last prefix bit flipped")
			}
			if !ok {
				return
			}
		}
	}
	c.catalogue(ti)
}

func lgSwap(id uint32) uint32 { return id<<24 | id>>24 | (id&0xff00)<<8 | (id>>8)&0xff00 }

// catalogue: the full mutation catalogue on the ciphertext of the entry under test, selected cells.
func (c *lgCase) catalogue(ti int) {
	x := c.x
	self := c.es[ti]
	pre := self.prefix()
	ptLens := []int{0, 1, 16, 17, 33}
	ads := [][]byte{nil, ref.Pattern(3, 5), ref.Pattern(3, 40)}
	if x.Thorough() {
		ptLens = []int{0, 1, 2, 15, 16, 17, 31, 32, 33, 64, 70}
		ads = [][]byte{nil, {}, ref.Pattern(3, 1), ref.Pattern(3, 5), ref.Pattern(3, 16), ref.Pattern(3, 40)}
	}
	// prefixes of other ids and variants
	var foreign [][]byte
	seen := map[string]bool{string(pre): true}
	addF := func(p []byte) {
		if !seen[string(p)] {
			seen[string(p)] = true
			foreign = append(foreign, p)
		}
	}
	fids := append(lgIDs(x), self.id^1, self.id^0x80000000, self.id^0x00010000, self.id<<8, self.id>>8, lgSwap(self.id), 0x0A0B0C0D, 0x0A0B0C0E, 0x0A0B0C0F)
	for _, fv := range []ref.Variant{ref.Tink, ref.Crunchy} {
		for _, fid := range fids {
			addF(ref.Prefix(fv, fid))
		}
	}
	if len(pre) > 0 {
		for _, b := range []byte{0x02, 0x80, 0xff} { // start bytes that are neither TINK nor CRUNCHY/LEGACY
			p := bytes.Clone(pre)
			p[0] = b
			addF(p)
		}
	}
	for _, n := range ptLens {
		pt := ref.Pattern(2, n)
		for _, ad := range ads {
			where := fmt.Sprintf("pt=%d ad=%s", n, adName(ad))
			body := ref.SIVEncrypt(self.key, pt, ad)
			ct := append(self.prefix(), body...)
			if !c.probe("accept-invalid", ct, ad, where+": reference ciphertext of the entry under test") {
				return
			}
			// every truncation, nil, front cuts (wrong strip lengths), extensions
			for cut := 0; cut < len(ct); cut++ {
				c.probe("accept-trunc", ct[:cut], ad, fmt.Sprintf("%s: ciphertext truncated to %d of %d bytes (prefix %d)", where, cut, len(ct), len(pre)))
			}
			c.probe("accept-trunc", nil, ad, where+": nil ciphertext")
			for cut := 1; cut <= len(pre)+2; cut++ {
				key := "accept-trunc"
				if cut == len(pre) {
					key = "accept-noprefix"
				}
				c.probe(key, ct[cut:], ad, fmt.Sprintf("%s: first %d bytes of the ciphertext removed (prefix %d bytes)", where, cut, len(pre)))
			}
			for _, b := range []byte{0, 0xff} {
				c.probe("accept-ext", append(bytes.Clone(ct), b), ad, fmt.Sprintf("%s: ciphertext || %02x", where, b))
			}
			if len(pre) > 0 {
				c.probe("accept-dupprefix", append(self.prefix(), ct...), ad, where+": ciphertext with duplicated prefix")
				c.probe("accept-trunc", append(bytes.Clone(pre[:len(pre)-1]), body...), ad, where+": ciphertext with the last prefix byte removed")
				c.probe("accept-ext", append(append(self.prefix(), pre[len(pre)-1]), body...), ad, where+": ciphertext with the last prefix byte doubled")
			}
			// bit flips: every prefix bit; every bit of the first and last SIV byte and of the first and last body byte; one bit per other byte
			for i := 0; i < len(ct); i++ {
				full := i < len(pre) || i == len(pre) || i == len(pre)+15 || i == len(pre)+16 || i == len(ct)-1
				for bit := 0; bit < 8; bit++ {
					if !full && bit != i%8 {
						continue
					}
					t := bytes.Clone(ct)
					t[i] ^= 1 << bit
					key := "accept-flip"
					if i < len(pre) {
						key = "accept-prefix"
					}
					c.probe(key, t, ad, fmt.Sprintf("%s: bit %d of ciphertext byte %d flipped (prefix %d bytes, %d in all)", where, bit, i, len(pre), len(ct)))
				}
			}
			// the body under prefixes of other ids / variants and under the prefixes of the other entries
			for _, fp := range foreign {
				c.probe("accept-prefix", append(bytes.Clone(fp), body...), ad, fmt.Sprintf("%s: body of the entry under test under foreign prefix %x", where, fp))
			}
			for ei, e := range c.es {
				if ei == ti {
					continue
				}
				ep := e.prefix()
				if !bytes.Equal(ep, pre) {
					c.probe("accept-prefix", append(e.prefix(), body...), ad, fmt.Sprintf("%s: body of the entry under test under the prefix %x of entry %s", where, ep, e.name))
				}
				// the other entry's own reference ciphertext (accepted iff enabled), its body under the prefix of the
				// entry under test, and its prefix-less body (accepted iff that entry is RAW and enabled)
				eb := ref.SIVEncrypt(e.key, pt, ad)
				ekey := "accept-other-key"
				if !e.enabled {
					ekey = "accept-disabled-key"
				}
				c.probe(ekey, append(e.prefix(), eb...), ad, fmt.Sprintf("%s: reference ciphertext of entry %s", where, e.name))
				c.probe(ekey, append(self.prefix(), eb...), ad, fmt.Sprintf("%s: body made with the key of entry %s under the prefix of the entry under test", where, e.name))
				c.probe("accept-noprefix", eb, ad, fmt.Sprintf("%s: prefix-less body made with the key of entry %s", where, e.name))
			}
			// a key that is not in the keyset at all
			fb := ref.SIVEncrypt(ref.KeyBytes("c08-legacy-foreign", 64), pt, ad)
			c.probe("accept-other-key", append(self.prefix(), fb...), ad, where+": body made with a key outside the keyset under the prefix of the entry under test")
			c.probe("accept-other-key", fb, ad, where+": prefix-less body made with a key outside the keyset")
		}
	}
}
