package main

import (
	"bytes"
	"fmt"

	"github.com/tink-crypto/tink-go/v2/verifbridge/c16b"
	"verif/h"
	"verif/ref"
	"verif/tk"
)

// ---- helpers ------------------------------------------------------------------------------------

func same(x *h.X, key, what string, got, want []byte) bool {
	x.Eval(1)
	if bytes.Equal(got, want) {
		return true
	}
	d := 0
	for d < len(got) && d < len(want) && got[d] == want[d] {
		d++
	}
	x.Fail(key, "%s: tink=%s (len %d) model=%s (len %d), first difference at byte %d", what, tk.Hex(got), len(got), tk.Hex(want), len(want), d)
	return false
}

func eqDigits(t []uint32, r []int) bool {
	if len(t) != len(r) {
		return false
	}
	for i := range t {
		if int64(t[i]) != int64(r[i]) {
			return false
		}
	}
	return true
}

func eqInts(a, b []int) bool {
	if len(a) != len(b) {
		return false
	}
	for i := range a {
		if a[i] != b[i] {
			return false
		}
	}
	return true
}

// packDigits writes b-bit digits most-significant-bit first into nbytes bytes; unused trailing bits = pad.
func packDigits(d []int, b, nbytes int, pad int) []byte {
	out := make([]byte, nbytes)
	pos := 0
	put := func(bit int) {
		if pos < 8*nbytes && bit != 0 {
			out[pos/8] |= 0x80 >> uint(pos%8)
		}
		pos++
	}
	for _, v := range d {
		for k := b - 1; k >= 0; k-- {
			put((v >> uint(k)) & 1)
		}
	}
	for pos < 8*nbytes {
		put(pad)
	}
	return out
}

// try runs tink code; a panic inside is a violation (the inputs are inside the FIPS domain).
func try(x *h.X, what string, f func()) bool {
	if p, msg := h.Try(f); p {
		x.Fail("panic", "%s panicked: %s", what, msg)
		return false
	}
	return true
}

// adrs builds an address by writing the raw FIPS 205 layout (independent of both setters).
func mkAdrs(layer uint32, tree uint64, typ, w1, w2, w3 uint32) ref.SLHAdrs {
	var a ref.SLHAdrs
	be := func(off int, v uint64, n int) {
		for i := 0; i < n; i++ {
			a[off+n-1-i] = byte(v >> (8 * uint(i)))
		}
	}
	be(0, uint64(layer), 4)
	be(8, tree, 8)
	be(16, uint64(typ), 4)
	be(20, uint64(w1), 4)
	be(24, uint64(w2), 4)
	be(28, uint64(w3), 4)
	return a
}

func maxTree(p *ref.SLHParams) uint64 {
	if p.H-p.Hp >= 64 {
		return ^uint64(0)
	}
	return uint64(1)<<uint(p.H-p.Hp) - 1
}

func seeds(p *ref.SLHParams, label string) (skSeed, pkSeed []byte) {
	return ref.KeyBytes("c16-skseed-"+label+p.Name, p.N), ref.KeyBytes("c16-pkseed-"+label+p.Name, p.N)
}

// ---- dims ---------------------------------------------------------------------------------------

// dimsSection: tink's Table 2 rows and derived WOTS+ lengths equal the model's (a wrong constant would
// otherwise only show up as a size mismatch somewhere else).
func dimsSection(x *h.X) {
	s := pickSet(x)
	p := s.r
	d := s.t.VDims()
	want := [12]uint32{uint32(p.N), uint32(p.H), uint32(p.D), uint32(p.Hp), uint32(p.A), uint32(p.K), uint32(p.Lgw), uint32(p.M), uint32(p.W), uint32(p.Len1), uint32(p.Len2), uint32(p.Len)}
	x.NonTrivial()
	x.Eval(1)
	x.Outcome("dims/" + p.Name)
	if d != want {
		x.Fail("params", "%s: tink (n h d hp a k lgw m w len1 len2 len)=%v, FIPS 205 Table 2 / section 5: %v", p.Name, d, want)
	}
	if s.a.PublicKeyLength() != p.PKLen() || s.a.SecretKeyLength() != p.SKLen() {
		x.Fail("params", "%s: key lengths %d/%d want %d/%d", p.Name, s.a.PublicKeyLength(), s.a.SecretKeyLength(), p.PKLen(), p.SKLen())
	}
	if p.D*p.Hp != p.H {
		refFatal("%s: d*h' != h", p.Name)
	}
}

// ---- toInt / toByte / base_2^b ---------------------------------------------------------------------

type b2bCase struct{ b, out int }

// every (b, out_len) pair in use: WOTS+ message digits (lg w = 4, len1 = 2n), checksum digits (len2 = 3),
// FORS indices (a, k) of the six Table 2 rows.
var b2bCases = []b2bCase{{4, 32}, {4, 48}, {4, 64}, {4, 3}, {6, 33}, {8, 33}, {9, 35}, {12, 14}, {14, 17}, {14, 22}}

func (c b2bCase) String() string { return fmt.Sprintf("b=%d,out=%d", c.b, c.out) }

func convertSection(x *h.X) {
	conv := x.Choose("conv", 1+len(b2bCases))
	x.NonTrivial()
	if conv == 0 {
		x.Label("toInt/toByte")
		x.Outcome("toInt/toByte")
		for n := 0; n <= 8; n++ {
			for _, extra := range []int{0, 3} {
				var xs [][]byte
				for k := 0; k < 4; k++ {
					xs = append(xs, ref.Pattern(k, n+extra))
				}
				xs = append(xs, bytes.Repeat([]byte{0x80}, n+extra))
				for i := 0; i < n+extra; i++ {
					for _, v := range []byte{0x01, 0x80, 0xff} {
						b := make([]byte, n+extra)
						b[i] = v
						xs = append(xs, b)
						b = bytes.Repeat([]byte{0xff}, n+extra)
						b[i] = ^v
						xs = append(xs, b)
					}
				}
				for _, in := range xs {
					var got uint64
					if !try(x, fmt.Sprintf("toInt(%x,%d)", in, n), func() { got = c16b.ToInt(in, uint32(n)) }) {
						return
					}
					x.Eval(1)
					if want := ref.SLHToInt(in, n); got != want {
						x.Fail("toInt", "toInt(%x, %d) = %#x, model %#x", in, n, got, want)
						return
					}
				}
			}
			for _, v := range []uint32{0, 1, 0x7f, 0x80, 0xff, 0x100, 0x1ff, 0xffff, 0x10000, 0xffffff, 0x1000000, 0x01020304, 0x7fffffff, 0x80000000, 0xfffffffe, 0xffffffff} {
				var got []byte
				if !try(x, fmt.Sprintf("toByte(%#x,%d)", v, n), func() { got = c16b.ToByte(v, uint32(n)) }) {
					return
				}
				if !same(x, "toByte", fmt.Sprintf("toByte(%#x, %d)", v, n), got, ref.SLHToByte(uint64(v), n)) {
					return
				}
			}
		}
		return
	}
	c := b2bCases[conv-1]
	x.Label(c.String())
	x.Outcome("base2b/" + c.String())
	nbytes := (c.out*c.b + 7) / 8
	max := 1<<uint(c.b) - 1
	check := func(d []int, pad int, extra int) bool {
		in := packDigits(d, c.b, nbytes+extra, pad)
		var got []uint32
		if !try(x, "base2b", func() { got = c16b.Base2b(in, uint32(c.b), uint32(c.out)) }) {
			return false
		}
		x.Eval(1)
		if rd := ref.SLHBase2b(in, c.b, c.out); !eqDigits(got, rd) || !eqInts(rd, d) {
			if !eqInts(rd, d) {
				refFatal("base_2^b model does not invert the packer for %v", c)
			}
			x.Fail("base2b", "base_2^b(%x, b=%d, out_len=%d) = %v, model %v", in, c.b, c.out, got, rd)
			return false
		}
		return true
	}
	for _, bg := range []int{0, max} {
		d := make([]int, c.out)
		for i := range d {
			d[i] = bg
		}
		packed := packDigits(d, c.b, nbytes, bg&1)
		in := make([]byte, nbytes)
		for idx := 0; idx < c.out; idx++ {
			for v := 0; v <= max; v++ {
				d[idx] = v
				copy(in, packed)
				for k := 0; k < c.b; k++ { // overwrite the b bits of digit idx (most significant first)
					pos := idx*c.b + k
					if (v>>uint(c.b-1-k))&1 != 0 {
						in[pos/8] |= 0x80 >> uint(pos%8)
					} else {
						in[pos/8] &^= 0x80 >> uint(pos%8)
					}
				}
				var got []uint32
				if !try(x, "base2b", func() { got = c16b.Base2b(in, uint32(c.b), uint32(c.out)) }) {
					return
				}
				x.Eval(1)
				rd := ref.SLHBase2b(in, c.b, c.out)
				if !eqInts(rd, d) {
					refFatal("base_2^b model does not invert the packer for %v", c)
				}
				if !eqDigits(got, rd) {
					x.Fail("base2b", "base_2^b(%x, b=%d, out_len=%d) = %v, model %v", in, c.b, c.out, got, rd)
					return
				}
			}
			d[idx] = bg
		}
	}
	// staircase digits, both paddings, longer input than needed
	d := make([]int, c.out)
	for i := range d {
		d[i] = (i*2654435761 + 12345) & max
	}
	for _, pad := range []int{0, 1} {
		for _, extra := range []int{0, 1, 5} {
			if !check(d, pad, extra) {
				return
			}
		}
	}
}

// ---- addresses ----------------------------------------------------------------------------------

var adrsFields = []struct {
	name string
	f    int
}{{"setLayerAddress", c16b.AFLayer}, {"setTreeAddress", c16b.AFTree}, {"setTypeAndClear", c16b.AFTypeAndClear}, {"setKeyPairAddress", c16b.AFKeyPair},
	{"setChainAddress", c16b.AFChain}, {"setTreeHeight", c16b.AFTreeHeight}, {"setHashAddress", c16b.AFHash}, {"setTreeIndex", c16b.AFTreeIndex}}

func refAdrsSet(a *ref.SLHAdrs, f int, v uint64) {
	switch f {
	case c16b.AFLayer:
		a.SetLayerAddress(uint32(v))
	case c16b.AFTree:
		a.SetTreeAddress(v)
	case c16b.AFTypeAndClear:
		a.SetTypeAndClear(uint32(v))
	case c16b.AFKeyPair:
		a.SetKeyPairAddress(uint32(v))
	case c16b.AFChain:
		a.SetChainAddress(uint32(v))
	case c16b.AFTreeHeight:
		a.SetTreeHeight(uint32(v))
	case c16b.AFHash:
		a.SetHashAddress(uint32(v))
	case c16b.AFTreeIndex:
		a.SetTreeIndex(uint32(v))
	}
}

func adrsValues(f int) []uint64 {
	switch f {
	case c16b.AFTypeAndClear:
		return []uint64{0, 1, 2, 3, 4, 5, 6}
	case c16b.AFTree:
		return []uint64{0, 1, 1 << 8, 1 << 16, 1<<32 - 1, 1 << 32, 0x0102030405060708, 1<<54 - 1, 1<<63 - 1, 1 << 63, 1<<64 - 1}
	}
	return []uint64{0, 1, 1 << 8, 1 << 16, 0x01020304, 1<<31 - 1, 1 << 31, 1<<32 - 1}
}

func addressSection(x *h.X) {
	start := x.Choose("start", 3) // all-00, all-FF, counter
	f1 := x.Choose("first", len(adrsFields))
	x.Label(adrsFields[f1].name)
	x.NonTrivial()
	x.Outcome(adrsFields[f1].name)
	var init [32]byte
	copy(init[:], ref.Pattern(start, 32))
	if start == 2 {
		for i := range init {
			init[i] = byte(0x11 + i)
		}
	}
	cmp := func(what string, ta *[32]byte, ra *ref.SLHAdrs) bool {
		if !same(x, "adrs", what, ta[:], ra[:]) {
			return false
		}
		var tc []byte
		var kp, ti uint32
		if !try(x, what, func() { tc = c16b.AddrCompress(ta); kp = c16b.AddrKeyPair(ta); ti = c16b.AddrTreeIndex(ta) }) {
			return false
		}
		// 22-byte compressed form written out from the FIPS 205 section 11.2 definition
		want := append(append(append([]byte{ra[3]}, ra[8:16]...), ra[19]), ra[20:32]...)
		if !bytes.Equal(ra.Compress(), want) {
			refFatal("model ADRSc differs from its definition")
		}
		if !same(x, "adrs-compress", what+" compressed", tc, want) {
			return false
		}
		if kp != ra.KeyPairAddress() || ti != ra.TreeIndex() {
			x.Fail("adrs-get", "%s: keyPairAddress=%#x treeIndex=%#x, model %#x %#x", what, kp, ti, ra.KeyPairAddress(), ra.TreeIndex())
			return false
		}
		cp := c16b.AddrCopy(ta)
		return same(x, "adrs-copy", what+" copy()", cp[:], ra[:])
	}
	z := c16b.NewAddress()
	if z != [32]byte{} {
		x.Fail("adrs", "newAddress() = %x, want 32 zero bytes", z)
	}
	for _, v1 := range adrsValues(adrsFields[f1].f) {
		ta := init
		ra := ref.SLHAdrs(init)
		if !try(x, adrsFields[f1].name, func() { c16b.AddrSet(&ta, adrsFields[f1].f, v1) }) {
			return
		}
		refAdrsSet(&ra, adrsFields[f1].f, v1)
		if !cmp(fmt.Sprintf("%s(%#x) on %x", adrsFields[f1].name, v1, init), &ta, &ra) {
			return
		}
		for _, g := range adrsFields {
			for _, v2 := range adrsValues(g.f) {
				tb, rb := ta, ra
				if !try(x, g.name, func() { c16b.AddrSet(&tb, g.f, v2) }) {
					return
				}
				refAdrsSet(&rb, g.f, v2)
				if !cmp(fmt.Sprintf("%s(%#x); %s(%#x) on %x", adrsFields[f1].name, v1, g.name, v2, init), &tb, &rb) {
					return
				}
			}
		}
	}
}

// ---- tweakable hash functions ---------------------------------------------------------------------

func hashSection(x *h.X) {
	s := pickSet(x)
	p, t := s.r, s.t
	x.NonTrivial()
	x.Outcome("hash/" + p.Name)
	n := p.N
	var adrsList []ref.SLHAdrs
	for k := 0; k < 3; k++ {
		var a ref.SLHAdrs
		copy(a[:], ref.Pattern(k, 32))
		adrsList = append(adrsList, a)
	}
	adrsList = append(adrsList, mkAdrs(uint32(p.D-1), maxTree(p), ref.SLHForsTree, 1<<uint(p.Hp)-1, uint32(p.A), uint32(p.K<<uint(p.A)-1)))
	for si, sd := range []string{"x", "00", "ff"} {
		pkSeed := ref.KeyBytes("c16-hash-pk"+sd, n)
		skSeed := ref.KeyBytes("c16-hash-sk"+sd, n)
		if si > 0 {
			pkSeed = ref.Pattern(si-1, n)
			skSeed = ref.Pattern(2-si, n)
		}
		for ai := range adrsList {
			ra := adrsList[ai]
			ta := [32]byte(ra)
			what := fmt.Sprintf("%s pkSeed=%x adrs=%x", p.Name, pkSeed, ra[:])
			var got []byte
			if !try(x, "PRF", func() { got = t.VPrf(pkSeed, skSeed, &ta) }) || !same(x, "hash-PRF", "PRF "+what, got, p.PRF(pkSeed, skSeed, &ra)) {
				return
			}
			for _, l := range []int{n, 2 * n, p.K * n, p.Len * n, 0, 1, n + 1, 200} {
				m := ref.KeyBytes(fmt.Sprintf("c16-hash-m%d", l), l)
				if !try(x, "F", func() { got = t.VF(pkSeed, &ta, m) }) || !same(x, "hash-F", fmt.Sprintf("F |M|=%d %s", l, what), got, p.F(pkSeed, &ra, m)) {
					return
				}
				if !try(x, "H", func() { got = t.VH(pkSeed, &ta, m) }) || !same(x, "hash-H", fmt.Sprintf("H |M|=%d %s", l, what), got, p.Hh(pkSeed, &ra, m)) {
					return
				}
				if !try(x, "T_l", func() { got = t.VTl(pkSeed, &ta, m) }) || !same(x, "hash-Tl", fmt.Sprintf("T_l |M|=%d %s", l, what), got, p.Tl(pkSeed, &ra, m)) {
					return
				}
			}
			if ta != [32]byte(ra) {
				x.Fail("hash-adrs-mutated", "%s: a hash function modified its address argument", what)
			}
		}
		r := ref.KeyBytes("c16-hash-r"+sd, n)
		root := ref.KeyBytes("c16-hash-root"+sd, n)
		for _, l := range []int{0, 1, 2, 31, 32, 33, 54, 55, 56, 63, 64, 65, 110, 111, 112, 119, 120, 127, 128, 129, 255, 256, 1000} {
			m := ref.Pattern(3, l)
			var got []byte
			if !try(x, "H_msg", func() { got = t.VHMsg(r, pkSeed, root, m) }) || !same(x, "hash-Hmsg", fmt.Sprintf("%s H_msg |M|=%d", p.Name, l), got, p.Hmsg(r, pkSeed, root, m)) {
				return
			}
			if !try(x, "PRF_msg", func() { got = t.VPrfMsg(skSeed, r, m) }) || !same(x, "hash-PRFmsg", fmt.Sprintf("%s PRF_msg |M|=%d", p.Name, l), got, p.PRFmsg(skSeed, r, m)) {
				return
			}
		}
	}
}

// ---- WOTS+ --------------------------------------------------------------------------------------

func wotsAdrsList(p *ref.SLHParams) []ref.SLHAdrs {
	return []ref.SLHAdrs{
		mkAdrs(0, 0, ref.SLHWotsHash, 0, 0, 0),
		mkAdrs(uint32(p.D-1), maxTree(p), ref.SLHWotsHash, 1<<uint(p.Hp)-1, 0, 0),
		mkAdrs(1, 0x0102030405060708&maxTree(p), ref.SLHWotsHash, 1, uint32(p.Len-1), uint32(p.W-1)), // stale chain/hash words
	}
}

func wotsMsgs(p *ref.SLHParams) [][]byte {
	n := p.N
	out := [][]byte{ref.Pattern(0, n), ref.Pattern(1, n), ref.Pattern(2, n), ref.KeyBytes("c16-wots-m", n)}
	// checksum corners: first j digits max, rest 0, for a few j
	for _, j := range []int{1, p.Len1 / 2, p.Len1 - 1} {
		d := make([]int, p.Len1)
		for i := 0; i < j; i++ {
			d[i] = p.W - 1
		}
		out = append(out, packDigits(d, p.Lgw, n, 0))
	}
	return out
}

func wotsSection(x *h.X) {
	s := pickSet(x)
	p, t := s.r, s.t
	n := p.N
	x.NonTrivial()
	x.Outcome("wots/" + p.Name)
	// (1) message digits + checksum digits
	chk := func(d []int) bool {
		m := packDigits(d, p.Lgw, n, 0)
		var got []uint32
		if !try(x, "wotsChecksum", func() { got = t.VWotsChecksum(m) }) {
			return false
		}
		x.Eval(1)
		want := p.WotsDigits(m)
		// the checksum digits written out from the definition: base-w digits of sum(w-1-d_i), most significant first
		cs := 0
		for _, v := range d {
			cs += p.W - 1 - v
		}
		for i := 0; i < p.Len2; i++ {
			if want[p.Len1+i] != (cs>>uint(p.Lgw*(p.Len2-1-i)))&(p.W-1) {
				refFatal("%s: model checksum digits %v contradict the definition (csum=%d)", p.Name, want[p.Len1:], cs)
			}
		}
		if !eqDigits(got, want) {
			x.Fail("wots-checksum", "%s: message %x -> digits %v, model %v", p.Name, m, got, want)
			return false
		}
		return true
	}
	for _, bg := range []int{0, p.W - 1} {
		for idx := 0; idx < p.Len1; idx++ {
			d := make([]int, p.Len1)
			for i := range d {
				d[i] = bg
			}
			for v := 0; v < p.W; v++ {
				d[idx] = v
				if !chk(d) {
					return
				}
			}
		}
	}
	for j := 0; j <= p.Len1; j++ { // sweeps the checksum over its whole range in steps of w-1, +- one digit
		for v := 0; v < p.W; v++ {
			d := make([]int, p.Len1)
			for i := 0; i < j; i++ {
				d[i] = p.W - 1
			}
			if j < p.Len1 {
				d[j] = v
			}
			if !chk(d) {
				return
			}
		}
	}
	skSeed, pkSeed := seeds(p, "wots")
	// (2) chain: every (i, s) with i + s <= w - 1
	for ai, ra0 := range wotsAdrsList(p) {
		xin := ref.KeyBytes(fmt.Sprintf("c16-chain-x%d", ai), n)
		for i := 0; i < p.W; i++ {
			for st := 0; i+st <= p.W-1; st++ {
				ra := ra0
				ta := [32]byte(ra0)
				var got []byte
				if !try(x, "chain", func() { got = t.VChain(xin, uint32(i), uint32(st), pkSeed, &ta) }) {
					return
				}
				if !same(x, "wots-chain", fmt.Sprintf("%s chain(X, i=%d, s=%d) adrs=%x", p.Name, i, st, ra0[:]), got, p.Chain(xin, i, st, pkSeed, &ra)) {
					return
				}
			}
		}
	}
	// (3) pkGen / sign / pkFromSig
	for _, ra0 := range wotsAdrsList(p) {
		ra := ra0
		ta := [32]byte(ra0)
		var tpk []byte
		if !try(x, "wotsPkGen", func() { tpk = t.VWotsPkGen(skSeed, pkSeed, &ta) }) {
			return
		}
		rpk := p.WotsPkGen(skSeed, pkSeed, &ra)
		if !same(x, "wots-pkgen", fmt.Sprintf("%s wots_pkGen adrs=%x", p.Name, ra0[:]), tpk, rpk) {
			return
		}
		for mi, m := range wotsMsgs(p) {
			ra, ta = ra0, [32]byte(ra0)
			var tsig, tpk2, tpk3 []byte
			if !try(x, "wotsSign", func() { tsig = t.VWotsSign(m, skSeed, pkSeed, &ta) }) {
				return
			}
			rsig := p.WotsSign(m, skSeed, pkSeed, &ra)
			if !same(x, "wots-sign", fmt.Sprintf("%s wots_sign(M=%x) adrs=%x", p.Name, m, ra0[:]), tsig, rsig) {
				return
			}
			ra, ta = ra0, [32]byte(ra0)
			if !try(x, "wotsPkFromSig", func() { tpk2 = t.VWotsPkFromSig(rsig, m, pkSeed, &ta) }) {
				return
			}
			if !bytes.Equal(p.WotsPkFromSig(rsig, m, pkSeed, &ra), rpk) {
				refFatal("%s: model wots_pkFromSig(wots_sign) != wots_pkGen", p.Name)
			}
			if !same(x, "wots-pkfromsig", fmt.Sprintf("%s wots_pkFromSig(valid sig, M=%x) adrs=%x", p.Name, m, ra0[:]), tpk2, rpk) {
				return
			}
			// arbitrary (invalid) signature bytes
			junk := ref.KeyBytes(fmt.Sprintf("c16-wots-junk%d", mi), p.Len*n)
			ra, ta = ra0, [32]byte(ra0)
			if !try(x, "wotsPkFromSig", func() { tpk3 = t.VWotsPkFromSig(junk, m, pkSeed, &ta) }) {
				return
			}
			if !same(x, "wots-pkfromsig", fmt.Sprintf("%s wots_pkFromSig(arbitrary sig, M=%x) adrs=%x", p.Name, m, ra0[:]), tpk3, p.WotsPkFromSig(junk, m, pkSeed, &ra)) {
				return
			}
		}
	}
}

// ---- XMSS ---------------------------------------------------------------------------------------

func xmssSection(x *h.X) {
	s := pickSet(x)
	p, t := s.r, s.t
	n := p.N
	leaves := 1 << uint(p.Hp)
	// sign jobs: every leaf in the "f" sets; corner leaves in the "s" sets
	var signIdx []int
	if !p.Small() {
		for i := 0; i < leaves; i++ {
			signIdx = append(signIdx, i)
		}
	} else if x.Thorough() {
		signIdx = []int{0, 1, 0x155 & (leaves - 1), leaves - 2, leaves - 1}
	} else {
		signIdx = []int{1, leaves - 1}
	}
	job := (x.Choose("job", 1+len(signIdx)) + 1) % (1 + len(signIdx)) // expensive sign jobs first, job 0 last
	skSeed, pkSeed := seeds(p, "xmss")
	layer, tree := uint32(1), maxTree(p)>>uint(p.Hp)
	if job%2 == 0 {
		layer, tree = uint32(p.D-1), 0
	}
	base := mkAdrs(layer, tree, 0, 0, 0, 0)
	m := ref.KeyBytes("c16-xmss-m", n)
	x.NonTrivial()
	if job == 0 {
		x.Label("pkFromSig-every-leaf+nodes")
		x.Outcome("xmss/" + p.Name + "/pkFromSig+node")
		junk := ref.KeyBytes("c16-xmss-junk", p.XmssSigLen())
		for idx := 0; idx < leaves; idx++ {
			ra, ta := base, [32]byte(base)
			var got []byte
			if !try(x, "xmssPkFromSig", func() { got = t.VXmssPkFromSig(uint32(idx), junk, m, pkSeed, &ta) }) {
				return
			}
			if !same(x, "xmss-pkfromsig", fmt.Sprintf("%s xmss_pkFromSig(idx=%d, arbitrary sig) layer=%d tree=%#x", p.Name, idx, layer, tree), got, p.XmssPkFromSig(uint32(idx), junk, m, pkSeed, &ra)) {
				return
			}
		}
		// xmss_node(i, z) directly: low heights at first / second / last index; the full tree in the "f" sets
		maxZ := 2
		if !p.Small() {
			maxZ = p.Hp
		}
		for z := 0; z <= maxZ; z++ {
			last := uint32(1)<<uint(p.Hp-z) - 1
			for _, i := range []uint32{0, 1, last / 2, last} {
				if i > last {
					continue
				}
				ra, ta := base, [32]byte(base)
				var got []byte
				if !try(x, "xmssNode", func() { got = t.VXmssNode(skSeed, i, uint32(z), pkSeed, &ta) }) {
					return
				}
				if !same(x, "xmss-node", fmt.Sprintf("%s xmss_node(i=%d, z=%d)", p.Name, i, z), got, p.XmssNode(skSeed, i, z, pkSeed, &ra)) {
					return
				}
			}
		}
		return
	}
	idx := uint32(signIdx[job-1])
	x.Label(fmt.Sprintf("sign-leaf-%d", idx))
	x.Outcome("xmss/" + p.Name + "/sign")
	ra, ta := base, [32]byte(base)
	var tsig, troot []byte
	if !try(x, "xmssSign", func() { tsig = t.VXmssSign(m, skSeed, idx, pkSeed, &ta) }) {
		return
	}
	rsig := p.XmssSign(m, skSeed, idx, pkSeed, &ra)
	if !same(x, "xmss-sign", fmt.Sprintf("%s xmss_sign(idx=%d) layer=%d tree=%#x", p.Name, idx, layer, tree), tsig, rsig) {
		return
	}
	ra, ta = base, [32]byte(base)
	if !try(x, "xmssPkFromSig", func() { troot = t.VXmssPkFromSig(idx, rsig, m, pkSeed, &ta) }) {
		return
	}
	rroot := p.XmssPkFromSig(idx, rsig, m, pkSeed, &ra)
	if !same(x, "xmss-pkfromsig", fmt.Sprintf("%s xmss_pkFromSig(idx=%d, valid sig)", p.Name, idx), troot, rroot) {
		return
	}
	if !p.Small() { // the root does not depend on the leaf: compare with xmss_node(0, h')
		ra = base
		if !bytes.Equal(p.XmssNode(skSeed, 0, p.Hp, pkSeed, &ra), rroot) {
			refFatal("%s: model xmss_pkFromSig(xmss_sign(idx=%d)) is not the tree root", p.Name, idx)
		}
	}
}

// ---- FORS ---------------------------------------------------------------------------------------

// forsVectors: index vectors for fors_sign / fors_pkFromSig.
func forsVectors(p *ref.SLHParams, full bool) (names []string, vecs [][]int) {
	max := 1<<uint(p.A) - 1
	add := func(name string, f func(i int) int) {
		v := make([]int, p.K)
		for i := range v {
			v[i] = f(i) & max
		}
		names, vecs = append(names, name), append(vecs, v)
	}
	corner := []int{0, 1, max, max - 1, max / 2, max/2 + 1}
	add("rot0", func(i int) int { return corner[i%3] })
	add("rot1", func(i int) int { return corner[(i+1)%3] })
	add("rot2", func(i int) int { return corner[(i+2)%3] })
	add("all-0", func(i int) int { return 0 })
	add("all-max", func(i int) int { return max })
	add("mixed", func(i int) int { return i*2654435761>>7 + corner[3+i%3] })
	if full {
		for t := 0; t < p.K; t++ {
			for _, v := range []int{0, 1, max} {
				add(fmt.Sprintf("tree%d=%d", t, v), func(i int) int {
					if i == t {
						return v
					}
					return max / 3
				})
			}
		}
	}
	return
}

func forsSection(x *h.X) {
	s := pickSet(x)
	p, t := s.r, s.t
	mdLen := (p.K*p.A + 7) / 8
	signNames, signVecs := forsVectors(p, !p.Small() && x.Thorough())
	if p.Small() && !x.Thorough() {
		signNames, signVecs = signNames[:2], signVecs[:2]
		if !p.SHA2 {
			signNames, signVecs = signNames[:1], signVecs[:1]
		}
	}
	job := (x.Choose("job", 1+len(signVecs)) + 1) % (1 + len(signVecs))
	skSeed, pkSeed := seeds(p, "fors")
	tree, kp := maxTree(p), uint32(1)<<uint(p.Hp)-1
	if job%2 == 1 {
		tree, kp = 0x0102030405060708&maxTree(p), 1
	}
	base := mkAdrs(0, tree, ref.SLHForsTree, kp, 0, 0)
	x.NonTrivial()
	if job == 0 {
		x.Label("pkFromSig+skGen+node")
		x.Outcome("fors/" + p.Name + "/pkFromSig+skGen+node")
		names, vecs := forsVectors(p, true)
		junk := ref.KeyBytes("c16-fors-junk", p.ForsSigLen())
		for vi, v := range vecs {
			for _, pad := range []int{0, 1} {
				md := packDigits(v, p.A, mdLen, pad)
				ra, ta := base, [32]byte(base)
				var got []byte
				if !try(x, "forsPkFromSig", func() { got = t.VForsPkFromSig(junk, md, pkSeed, &ta) }) {
					return
				}
				if !same(x, "fors-pkfromsig", fmt.Sprintf("%s fors_pkFromSig(arbitrary sig, indices %s, md=%x)", p.Name, names[vi], md), got, p.ForsPkFromSig(junk, md, pkSeed, &ra)) {
					return
				}
			}
		}
		lastLeaf := uint32(p.K)<<uint(p.A) - 1
		for _, idx := range []uint32{0, 1, 1<<uint(p.A) - 1, 1 << uint(p.A), lastLeaf - 1, lastLeaf} {
			ra, ta := base, [32]byte(base)
			var got []byte
			if !try(x, "forsSkGen", func() { got = t.VForsSkGen(skSeed, pkSeed, &ta, idx) }) {
				return
			}
			if !same(x, "fors-skgen", fmt.Sprintf("%s fors_skGen(idx=%d)", p.Name, idx), got, p.ForsSkGen(skSeed, pkSeed, &ra, idx)) {
				return
			}
		}
		maxZ := 4
		if p.A < maxZ {
			maxZ = p.A
		}
		for z := 0; z <= maxZ; z++ {
			last := uint32(p.K)<<uint(p.A-z) - 1
			for _, i := range []uint32{0, 1, last / 2, last - 1, last} {
				ra, ta := base, [32]byte(base)
				var got []byte
				if !try(x, "forsNode", func() { got = t.VForsNode(skSeed, i, uint32(z), pkSeed, &ta) }) {
					return
				}
				if !same(x, "fors-node", fmt.Sprintf("%s fors_node(i=%d, z=%d)", p.Name, i, z), got, p.ForsNode(skSeed, i, z, pkSeed, &ra)) {
					return
				}
			}
		}
		return
	}
	v := signVecs[job-1]
	x.Label("sign-" + signNames[job-1])
	x.Outcome("fors/" + p.Name + "/sign")
	md := packDigits(v, p.A, mdLen, job&1)
	ra, ta := base, [32]byte(base)
	var tsig, tpk []byte
	if !try(x, "forsSign", func() { tsig = t.VForsSign(md, skSeed, pkSeed, &ta) }) {
		return
	}
	rsig := p.ForsSign(md, skSeed, pkSeed, &ra)
	if !same(x, "fors-sign", fmt.Sprintf("%s fors_sign(indices %s, md=%x) tree=%#x keypair=%d", p.Name, signNames[job-1], md, tree, kp), tsig, rsig) {
		return
	}
	ra, ta = base, [32]byte(base)
	if !try(x, "forsPkFromSig", func() { tpk = t.VForsPkFromSig(rsig, md, pkSeed, &ta) }) {
		return
	}
	same(x, "fors-pkfromsig", fmt.Sprintf("%s fors_pkFromSig(valid sig, indices %s)", p.Name, signNames[job-1]), tpk, p.ForsPkFromSig(rsig, md, pkSeed, &ra))
}

// ---- hypertree ----------------------------------------------------------------------------------

type htPair struct {
	tree uint64
	leaf uint32
}

func (q htPair) String() string { return fmt.Sprintf("(idxTree=%#x,idxLeaf=%d)", q.tree, q.leaf) }

func htCorners(p *ref.SLHParams) []htPair {
	mt, ml := maxTree(p), uint32(1)<<uint(p.Hp)-1
	var out []htPair
	for _, tr := range []uint64{mt, 1, 0, mt - 1} {
		for _, lf := range []uint32{ml, 0} {
			out = append(out, htPair{tr, lf})
		}
	}
	return out
}

func htSection(x *h.X) {
	s := pickSet(x)
	p, t := s.r, s.t
	n := p.N
	signPairs := htCorners(p)
	if p.Small() && !x.Thorough() { // ht_sign in the "s" sets costs seconds: quick keeps (max,max) for SHA2-128s only
		signPairs = signPairs[:1]
		if p.Name != "SLH-DSA-SHA2-128s" {
			signPairs = nil
		}
	}
	job := (x.Choose("job", 1+len(signPairs)) + 1) % (1 + len(signPairs))
	skSeed, pkSeed := seeds(p, "ht")
	m := ref.KeyBytes("c16-ht-m", n)
	x.NonTrivial()
	if job == 0 {
		x.Label("verify")
		x.Outcome("ht/" + p.Name + "/verify")
		junk := ref.KeyBytes("c16-ht-junk", p.HtSigLen())
		pairs := htCorners(p)
		ml := uint32(1)<<uint(p.Hp) - 1
		for b := 0; b < p.H-p.Hp; b++ { // every single bit of idxTree (thorough: and its complement)
			pairs = append(pairs, htPair{uint64(1) << uint(b), ml * uint32(b&1)})
			if x.Thorough() {
				pairs = append(pairs, htPair{maxTree(p) &^ (uint64(1) << uint(b)), ml * uint32(1-b&1)})
			}
		}
		for b := 0; b < p.Hp; b++ {
			pairs = append(pairs, htPair{0x0102030405060708 & maxTree(p), 1 << uint(b)})
		}
		for qi, q := range pairs {
			root := p.HtRootFromSig(m, junk, pkSeed, q.tree, q.leaf)
			probe := func(what string, tr uint64, lf uint32, rt []byte, sig []byte, want bool) bool {
				var got bool
				if !try(x, "htVerify", func() { got = t.VHtVerify(m, sig, pkSeed, tr, lf, rt) }) {
					return false
				}
				x.Eval(1)
				if got != want {
					x.Fail("ht-verify", "%s ht_verify %s at %v: tink=%v model=%v", p.Name, what, q, got, want)
					return false
				}
				return true
			}
			bad := bytes.Clone(root)
			bad[n-1] ^= 1
			if !probe("with the implied root", q.tree, q.leaf, root, junk, true) {
				return
			}
			if qi >= 8 {
				continue
			}
			if !probe("with a wrong root", q.tree, q.leaf, bad, junk, false) {
				return
			}
			badSig := bytes.Clone(junk)
			badSig[len(badSig)-1] ^= 0x80
			if !probe("with idxLeaf^1", q.tree, q.leaf^1, root, junk, p.HtVerify(m, junk, pkSeed, q.tree, q.leaf^1, root)) ||
				!probe("with idxTree^1", q.tree^1, q.leaf, root, junk, p.HtVerify(m, junk, pkSeed, q.tree^1, q.leaf, root)) ||
				!probe("with the top auth node altered", q.tree, q.leaf, root, badSig, p.HtVerify(m, badSig, pkSeed, q.tree, q.leaf, root)) {
				return
			}
		}
		return
	}
	q := signPairs[job-1]
	x.Label("sign" + q.String())
	x.Outcome("ht/" + p.Name + "/sign")
	var tsig []byte
	if !try(x, "htSign", func() { tsig = t.VHtSign(m, skSeed, pkSeed, q.tree, q.leaf) }) {
		return
	}
	rsig := p.HtSign(m, skSeed, pkSeed, q.tree, q.leaf)
	if !same(x, "ht-sign", fmt.Sprintf("%s ht_sign at %v", p.Name, q), tsig, rsig) {
		return
	}
	root := p.HtRootFromSig(m, rsig, pkSeed, q.tree, q.leaf)
	var ok bool
	if !try(x, "htVerify", func() { ok = t.VHtVerify(m, rsig, pkSeed, q.tree, q.leaf, root) }) {
		return
	}
	x.Check(ok, "ht-verify", "%s ht_verify rejects the valid hypertree signature at %v", p.Name, q)
}

// ---- digest split -------------------------------------------------------------------------------

func digestSection(x *h.X) {
	s := pickSet(x)
	p, t := s.r, s.t
	n := p.N
	r, st, lt := p.DigestLens()
	if r+st+lt != p.M {
		refFatal("%s: digest part lengths %d+%d+%d != m=%d", p.Name, r, st, lt, p.M)
	}
	// sign digests: index bytes all-FF (max indices through the real code path), all-00, mixed
	var signDigests [][]byte
	if !p.Small() || x.Thorough() {
		signDigests = [][]byte{ref.Pattern(1, p.M), ref.Pattern(0, p.M)}
		if x.Thorough() {
			signDigests = append(signDigests, ref.KeyBytes("c16-digest-mixed", p.M))
		}
	}
	job := (x.Choose("job", 1+len(signDigests)) + 1) % (1 + len(signDigests))
	msg := []byte("c16 digest split")
	x.NonTrivial()
	if job > 0 {
		d := signDigests[job-1]
		x.Label(fmt.Sprintf("sign-digest-%d", job-1))
		x.Outcome("digest/" + p.Name + "/sign")
		sk, _ := p.KeygenInternal(ref.KeyBytes("c16-dg-a", n), ref.KeyBytes("c16-dg-b", n), ref.KeyBytes("c16-dg-c", n))
		addrnd := ref.KeyBytes("c16-dg-rnd", n)
		var tsig []byte
		if !try(x, "signInternal", func() {
			tsk, err := t.VWithDigest(d).DecodeSecretKey(sk)
			if err != nil {
				x.Fail("decode", "%s DecodeSecretKey: %v", p.Name, err)
				return
			}
			tsig = tsk.VSignInternal(msg, addrnd)
		}) || tsig == nil {
			return
		}
		rsig := p.SignDigest(p.PRFmsg(sk[n:2*n], addrnd, msg), d, sk)
		same(x, "sign-digest", fmt.Sprintf("%s signInternal with message digest %x", p.Name, d), tsig, rsig)
		return
	}
	x.Label("verify-bits")
	x.Outcome("digest/" + p.Name + "/verify")
	pkSeed := ref.KeyBytes("c16-dg-pk", n)
	junk := ref.KeyBytes("c16-dg-junk", p.SigLen())
	var digests [][]byte
	digests = append(digests, ref.Pattern(0, p.M), ref.Pattern(1, p.M), ref.Pattern(2, p.M), ref.KeyBytes("c16-dg-d", p.M))
	// every bit of the tmp_idx_tree / tmp_idx_leaf bytes alone; on the all-ones background every bit in
	// thorough, the bits next to the mask boundaries in quick
	nearBoundary := func(bit int) bool { // bit: position inside idx bytes, 0 = most significant bit of tmp_idx_tree
		for _, bd := range []int{0, 8*st - (p.H - p.Hp), 8 * st, 8*st + 8*lt - p.Hp, 8*(st+lt) - 1} {
			if bit >= bd-1 && bit <= bd+1 {
				return true
			}
		}
		return false
	}
	for bit := 0; bit < 8*(st+lt); bit++ {
		if x.Thorough() || nearBoundary(bit) || bit%3 == 0 {
			d := ref.Pattern(0, p.M)
			d[r+bit/8] |= 0x80 >> uint(bit%8)
			digests = append(digests, d)
		}
		if x.Thorough() || nearBoundary(bit) {
			d := ref.Pattern(1, p.M)
			d[r+bit/8] &^= 0x80 >> uint(bit%8)
			digests = append(digests, d)
		}
	}
	// md bits: first / last bit of md and of every a-bit index (thorough), first / last / around byte borders (quick)
	for bit := 0; bit < 8*r; bit++ {
		if x.Thorough() || bit < 2 || bit >= p.K*p.A-2 || bit%p.A == 0 && bit/p.A%7 == 0 {
			d := ref.Pattern(0, p.M)
			d[bit/8] |= 0x80 >> uint(bit%8)
			digests = append(digests, d)
		}
	}
	for di, d := range digests {
		root := p.RootFromSigDigest(d, junk, pkSeed)
		probe := func(what string, dg, rt []byte, want bool) bool {
			var err error
			if !try(x, "verifyInternal", func() {
				pk, e := t.VWithDigest(dg).DecodePublicKey(append(bytes.Clone(pkSeed), rt...))
				if e != nil {
					err = e
					return
				}
				err = pk.VVerifyInternal(msg, junk)
			}) {
				return false
			}
			x.Eval(1)
			if (err == nil) != want {
				md, it, il := p.SplitDigest(dg)
				x.Fail("digest-split", "%s verifyInternal with message digest %x (model: md=%x idx_tree=%#x idx_leaf=%d) %s: tink accept=%v (%v), model accept=%v", p.Name, dg, md, it, il, what, err == nil, err, want)
				return false
			}
			return true
		}
		bad := bytes.Clone(root)
		bad[0] ^= 0x80
		if !probe("and the implied root", d, root, true) {
			return
		}
		if di >= 4 {
			continue
		}
		if !probe("and a wrong root", d, bad, false) {
			return
		}
		// neighbouring digests on the same root (accept only if the model's root is unchanged, e.g. unused bits)
		for _, pos := range []int{0, r - 1, r, r + st - 1, r + st, p.M - 1} {
			for _, flip := range []byte{0x01, 0x80} {
				d2 := bytes.Clone(d)
				d2[pos] ^= flip
				if !probe(fmt.Sprintf("(root of digest %x)", d), d2, root, bytes.Equal(p.RootFromSigDigest(d2, junk, pkSeed), root)) {
					return
				}
			}
		}
	}
}
