// C16: SLH-DSA keys and signatures conform to FIPS 205 on every input (all twelve parameter sets).
//
// Engine E1 (bounded exhaustive enumeration). Two levels:
//
//	seams  - the unexported building blocks of internal/signature/slhdsa (export shim, overlay group c16)
//	         are driven over their corner domains and compared with the independent FIPS 205 model
//	         mc/ref/slhdsa.go: toInt/toByte/base_2^b, ADRS setters and the 22-byte compressed form, the
//	         six tweakable hash functions, WOTS+ (checksum digits, chain, pkGen, sign, pkFromSig), XMSS
//	         (node, sign, pkFromSig for every leaf), FORS (skGen, node, sign, pkFromSig over index
//	         vectors), hypertree sign/verify at (idxTree, idxLeaf) corners reached DIRECTLY, and the
//	         digest split md/idxTree/idxLeaf of signInternal/verifyInternal reached with chosen digests
//	         (H_msg of a copied parameter set is stubbed to return the chosen digest).
//	scheme - seeds -> key bytes, deterministic and hedged signatures byte-identical with the model, verify
//	         accepts, and the mutation catalogue (one bit in every structural region of the signature,
//	         message / context / key edits, lengths +-1 and +-n, foreign hash family) is decided identically
//	         (reject) by tink and the model; through the internal API, signature/slhdsa.NewSigner /
//	         NewVerifier and signature.NewSigner / NewVerifier(handle).
//
// The model is validated at start-up against the twelve sphincsplus known-answer vectors (kat.json); a
// model failure ends the run with exit status 2, never with a VIOLATION.
//
// Don't-care cells: the final value of the ADRS argument after a seam call (the functions mutate it; only
// returned bytes are compared); error texts; behaviour of the seams outside their FIPS domain (tink
// panics "unreachable" there); private keys whose PK.root field is inconsistent with their seeds (FIPS 205
// treats the 4n-byte private key as given); contexts in the public tink API (it always signs with the
// empty context); which entropy bytes KeyGen consumes.
package main

import (
	"bytes"
	_ "embed"
	"encoding/hex"
	"encoding/json"
	"fmt"
	"os"
	"sync"
	"time"

	"github.com/tink-crypto/tink-go/v2/verifbridge/c16b"
	"verif/h"
	"verif/ref"
)

//go:embed kat.json
var katJSON []byte

type katVec struct {
	Name, Sk, Pk, Msg, Ctx, Sig string
	sk, pk, msg, ctx, sig       []byte
}

var kats = map[string]*katVec{}

// refFatal: the reference model contradicts itself or its known answers: not a finding about tink.
func refFatal(format string, a ...any) {
	fmt.Printf("[C16] REFERENCE MODEL FAILURE (not a property violation): %s\n", fmt.Sprintf(format, a...))
	os.Exit(2)
}

func unhex(s string) []byte {
	b, err := hex.DecodeString(s)
	if err != nil {
		refFatal("bad hex in kat.json: %v", err)
	}
	return b
}

// validateReference checks the FIPS 205 model against the known-answer vectors: verification and key
// generation for all twelve sets, deterministic signing for the "f" sets (quick) / all sets (thorough).
func validateReference(thorough bool) {
	var f struct{ Vectors []*katVec }
	if err := json.Unmarshal(katJSON, &f); err != nil || len(f.Vectors) != 12 {
		refFatal("kat.json unreadable: %v (%d vectors)", err, len(f.Vectors))
	}
	var wg sync.WaitGroup
	var mu sync.Mutex
	var errs []string
	fail := func(format string, a ...any) {
		mu.Lock()
		errs = append(errs, fmt.Sprintf(format, a...))
		mu.Unlock()
	}
	for _, v := range f.Vectors {
		v.sk, v.pk, v.msg, v.ctx, v.sig = unhex(v.Sk), unhex(v.Pk), unhex(v.Msg), unhex(v.Ctx), unhex(v.Sig)
		p := ref.SLHByName(v.Name)
		if p == nil || len(v.sk) != p.SKLen() || len(v.pk) != p.PKLen() || len(v.sig) != p.SigLen() {
			refFatal("kat.json: vector %s has unexpected sizes", v.Name)
		}
		kats[v.Name] = v
		wg.Add(1)
		go func() {
			defer wg.Done()
			n := p.N
			if !p.Verify(v.msg, v.sig, v.ctx, v.pk) {
				fail("%s: model rejects the known-answer signature", v.Name)
			}
			bad := bytes.Clone(v.sig)
			bad[len(bad)/2] ^= 0x10
			if p.Verify(v.msg, bad, v.ctx, v.pk) {
				fail("%s: model accepts a corrupted known-answer signature", v.Name)
			}
			sk, pk := p.KeygenInternal(v.sk[:n], v.sk[n:2*n], v.sk[2*n:3*n])
			if !bytes.Equal(sk, v.sk) || !bytes.Equal(pk, v.pk) {
				fail("%s: model key generation differs from the known answer", v.Name)
			}
			if thorough || !p.Small() {
				sig, ok := p.Sign(v.msg, v.ctx, v.sk, nil)
				if !ok || !bytes.Equal(sig, v.sig) {
					fail("%s: model deterministic signature differs from the known answer", v.Name)
				}
			}
		}()
	}
	wg.Wait()
	if len(errs) > 0 {
		refFatal("%v", errs)
	}
}

// pset couples the model's and tink's view of one parameter set.
type pset struct {
	r *ref.SLHParams
	t *c16b.P  // seam methods (export shim; a placeholder when the shim's stub was built, see h.Seams)
	a c16b.API // exported methods of the parameter set: the scheme level only uses these
}

func (s pset) String() string { return s.r.Name }

var sets []pset

func initSets() {
	all := ref.SLHParamSets()
	var ordered []*ref.SLHParams
	for _, pass := range []func(r *ref.SLHParams) bool{ // slow sets first (better packing of the workers)
		func(r *ref.SLHParams) bool { return r.Small() && !r.SHA2 }, func(r *ref.SLHParams) bool { return r.Small() && r.SHA2 },
		func(r *ref.SLHParams) bool { return !r.Small() && !r.SHA2 }, func(r *ref.SLHParams) bool { return !r.Small() && r.SHA2 }} {
		for _, r := range all {
			if pass(r) {
				ordered = append(ordered, r)
			}
		}
	}
	for _, r := range ordered {
		t, a := c16b.Set(r.Name), c16b.APISet(r.Name)
		if t == nil || a == nil {
			fmt.Printf("[C16] tink has no parameter set %s\n", r.Name)
			os.Exit(2)
		}
		sets = append(sets, pset{r, t, a})
	}
}

func pickSet(x *h.X) pset { return h.Pick(x, "set", sets) }

func main() {
	thorough := os.Getenv("VERIF_TIER") == "thorough"
	for i, a := range os.Args {
		if a == "-tier=thorough" || a == "--tier=thorough" || ((a == "-tier" || a == "--tier") && i+1 < len(os.Args) && os.Args[i+1] == "thorough") {
			thorough = true
		}
	}
	validateReference(thorough)
	initSets()
	h.Main("C16", "exploration",
		"seams: every enumerated input of every exported seam is compared byte-for-byte with the FIPS 205 model (base_2^b: every digit value at every index for every b in use; chain: every (i,s) with i+s<=w-1; XMSS: every leaf; hypertree and digest split: index corners and every bit of the index bytes reached directly). scheme: seeds x messages x contexts x API paths, keys and signatures byte-identical, mutation catalogue decided identically. An execution is non-trivial when tink code was run and compared; distinct = distinct choice vectors.",
		[]h.Section{
			{Name: "seams", Body: seamsSection, Bound: -1, Seam: true}, // every part drives unexported functions through the export shim
			{Name: "scheme", Body: schemeLevelSection, Bound: -1},
		})
}

type part struct {
	name string
	body func(x *h.X)
}

// The seams run as ONE section so that the expensive leaves of all seams share the 16 workers; the most
// expensive parts come first.
var seamParts = []part{{"hypertree", htSection}, {"fors", forsSection}, {"digest-split", digestSection}, {"xmss", xmssSection}, {"convert", convertSection},
	{"wots", wotsSection}, {"hash", hashSection}, {"address", addressSection}, {"dims", dimsSection}}

var schemeParts = []part{{"scheme", schemeSection}, {"api-verify", apiVerifySection}, {"kat-verify", katSection}}

func dispatch(x *h.X, parts []part) {
	i := x.Choose("seam", len(parts))
	x.Label(parts[i].name)
	if os.Getenv("C16_TIMING") != "" { // development aid: wall time of slow leaves
		t0 := time.Now()
		defer func() {
			if d := time.Since(t0); d > time.Second {
				fmt.Printf("timing %-14s %6.1fs  %v\n", parts[i].name, d.Seconds(), x.ReplayVector())
			}
		}()
	}
	parts[i].body(x)
}

func seamsSection(x *h.X)       { dispatch(x, seamParts) }
func schemeLevelSection(x *h.X) { dispatch(x, schemeParts) }
