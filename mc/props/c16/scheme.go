package main

import (
	"bytes"
	"fmt"

	"github.com/tink-crypto/tink-go/v2/insecuresecretdataaccess"
	"github.com/tink-crypto/tink-go/v2/keyset"
	"github.com/tink-crypto/tink-go/v2/secretdata"
	"github.com/tink-crypto/tink-go/v2/signature"
	tslh "github.com/tink-crypto/tink-go/v2/signature/slhdsa"
	"github.com/tink-crypto/tink-go/v2/tink"
	"github.com/tink-crypto/tink-go/v2/verifbridge/c16b"
	"github.com/tink-crypto/tink-go/v2/verifbridge/vb"
	"verif/h"
	"verif/ref"
	"verif/tape"
	"verif/tk"
)

// ---- mutation catalogue -----------------------------------------------------------------------------

type sigMut struct {
	what string
	sig  []byte
}

// structuralFlips: one bit flipped in every structural region of a signature: R, every FORS tree's secret
// value and authentication path, every hypertree layer's WOTS+ signature and authentication path.
func structuralFlips(p *ref.SLHParams, sig []byte) []sigMut {
	n := p.N
	var out []sigMut
	flip := func(what string, off, length, salt int) {
		b := bytes.Clone(sig)
		pos := off + (salt*7+3)%length
		b[pos] ^= 1 << uint(salt%8)
		out = append(out, sigMut{fmt.Sprintf("bit flipped in %s (byte %d)", what, pos), b})
	}
	flip("R", 0, n, 0)
	for i := 0; i < p.K; i++ {
		base := n + i*(p.A+1)*n
		flip(fmt.Sprintf("FORS tree %d secret value", i), base, n, i)
		lvl := i % p.A
		flip(fmt.Sprintf("FORS tree %d auth node %d", i, lvl), base+n+lvl*n, n, i+1)
	}
	ht := n + p.ForsSigLen()
	for j := 0; j < p.D; j++ {
		base := ht + j*p.XmssSigLen()
		c := (j * 11) % p.Len
		flip(fmt.Sprintf("layer %d WOTS+ chain %d", j, c), base+c*n, n, j)
		lvl := j % p.Hp
		flip(fmt.Sprintf("layer %d auth node %d", j, lvl), base+p.Len*n+lvl*n, n, j+2)
	}
	flip("the last WOTS+ checksum chain of layer 0", ht+(p.Len-1)*n, n, 5)
	flip("the last byte", len(sig)-1, 1, 7)
	return out
}

func lengthMuts(p *ref.SLHParams, sig []byte) []sigMut {
	n := p.N
	return []sigMut{
		{"truncated by 1 byte", bytes.Clone(sig[:len(sig)-1])},
		{"truncated by n bytes", bytes.Clone(sig[:len(sig)-n])},
		{"without R", bytes.Clone(sig[n:])},
		{"extended by 00", append(bytes.Clone(sig), 0)},
		{"extended by n zero bytes", append(bytes.Clone(sig), make([]byte, n)...)},
		{"extended by its own first n bytes", append(bytes.Clone(sig), sig[:n]...)},
		{"twice", append(bytes.Clone(sig), sig...)},
		{"empty", []byte{}},
		{"nil", nil},
		{"only R", bytes.Clone(sig[:n])},
	}
}

// verdicts: how a (message, signature, context, public key) quadruple is decided by the implementations.
type verifyFn struct {
	name string
	f    func(msg, sig []byte) error // nil = accept
}

// agree runs one probe through every tink verification path and the model; the model's verdict must be
// expect (else the harness is wrong) and every tink path must return it.
func agree(x *h.X, p *ref.SLHParams, what string, model bool, expect bool, paths []verifyFn, msg, sig []byte) bool {
	if model != expect {
		refFatal("%s: model verdict %v for %s, catalogue expects %v", p.Name, model, what, expect)
	}
	for _, v := range paths {
		var err error
		if !try(x, v.name+" Verify of "+what, func() { err = v.f(msg, sig) }) {
			return false
		}
		x.Eval(1)
		if (err == nil) != model {
			if model {
				x.Fail("rejects-valid", "%s %s: REJECTS %s (%v); the model accepts it (|msg|=%d sig=%s)", p.Name, v.name, what, err, len(msg), tk.Hex(sig))
			} else {
				x.Fail("accepts-invalid", "%s %s: ACCEPTS %s; the model rejects it (|msg|=%d sig=%s)", p.Name, v.name, what, len(msg), tk.Hex(sig))
			}
			return false
		}
	}
	return true
}

// internalVerifier: the internal slhdsa API with an explicit context.
func internalVerifier(t c16b.API, pk, ctx []byte) verifyFn {
	return verifyFn{"internal PublicKey.Verify", func(msg, sig []byte) error {
		k, err := t.DecodePublicKey(pk)
		if err != nil {
			return err
		}
		return k.Verify(msg, sig, ctx)
	}}
}

// catalogue: the full negative catalogue around one valid (msg, ctx, sig) under pk, through the internal API.
func catalogue(x *h.X, s pset, pk, msg, ctx, sig []byte, extra []verifyFn, full bool) bool {
	p, t := s.r, s.a
	iv := internalVerifier(t, pk, ctx)
	paths := append([]verifyFn{iv}, extra...) // extra paths only exist for the empty context
	if !agree(x, p, "the valid signature", p.Verify(msg, sig, ctx, pk), true, paths, msg, sig) {
		return false
	}
	muts := lengthMuts(p, sig)
	if full {
		muts = append(structuralFlips(p, sig), muts...)
	} else {
		b := bytes.Clone(sig)
		b[len(b)-1] ^= 1
		c := bytes.Clone(sig)
		c[0] ^= 0x80
		muts = append(muts, sigMut{"with the last bit flipped", b}, sigMut{"with the first bit flipped", c})
	}
	for _, m := range muts {
		if !agree(x, p, "a signature "+m.what, p.Verify(msg, m.sig, ctx, pk), false, paths, msg, m.sig) {
			return false
		}
	}
	// message edits
	var msgs [][]byte
	msgs = append(msgs, append(bytes.Clone(msg), 0), append([]byte{0}, msg...))
	if len(msg) > 0 {
		a := bytes.Clone(msg)
		a[0] ^= 1
		b := bytes.Clone(msg)
		b[len(b)-1] ^= 0x80
		msgs = append(msgs, a, b, msg[:len(msg)-1], msg[1:], nil)
	} else {
		msgs = append(msgs, []byte{0, 0}, []byte{1})
	}
	for _, m2 := range msgs {
		if !agree(x, p, fmt.Sprintf("the signature with an altered message (%d bytes)", len(m2)), p.Verify(m2, sig, ctx, pk), false, paths, m2, sig) {
			return false
		}
	}
	// context edits (internal API only)
	var ctxs [][]byte
	ctxs = append(ctxs, append(bytes.Clone(ctx), 0))
	if len(ctx) > 0 {
		c := bytes.Clone(ctx)
		c[len(c)-1] ^= 1
		ctxs = append(ctxs, c, ctx[:len(ctx)-1], nil)
	} else {
		ctxs = append(ctxs, []byte{1}, make([]byte, 255))
	}
	ctxs = append(ctxs, make([]byte, 256), append(bytes.Clone(ctx), make([]byte, 256)...))
	for _, c2 := range ctxs {
		if !agree(x, p, fmt.Sprintf("the signature under another context (%d bytes)", len(c2)), p.Verify(msg, sig, c2, pk), false, []verifyFn{internalVerifier(t, pk, c2)}, msg, sig) {
			return false
		}
	}
	// the message / context boundary of M' must not be movable: (ctx||x, msg) vs (ctx, x||msg)
	if len(msg) > 0 && len(ctx) < 255 {
		c2 := append(bytes.Clone(ctx), msg[0])
		if !agree(x, p, "the signature with the first message byte moved into the context", p.Verify(msg[1:], sig, c2, pk), false, []verifyFn{internalVerifier(t, pk, c2)}, msg[1:], sig) {
			return false
		}
	}
	// a 256-byte context must not alias the empty context: (ctx = M[:256], M[256:]) has the same
	// two-byte header 00 00 when |ctx| is reduced mod 256
	if len(ctx) == 0 && len(msg) >= 256 {
		c2, m2 := msg[:256], msg[256:]
		if !agree(x, p, "the signature of ctx||M (empty context) as a signature of M under the 256-byte context ctx", p.Verify(m2, sig, c2, pk), false, []verifyFn{internalVerifier(t, pk, c2)}, m2, sig) {
			return false
		}
	}
	// key edits
	n := p.N
	for _, pos := range []int{0, n - 1, n, 2*n - 1} {
		for _, bit := range []byte{0x01, 0x80} {
			k2 := bytes.Clone(pk)
			k2[pos] ^= bit
			if !agree(x, p, fmt.Sprintf("the signature under a public key with byte %d altered", pos), p.Verify(msg, sig, ctx, k2), false, []verifyFn{internalVerifier(t, k2, ctx)}, msg, sig) {
				return false
			}
		}
	}
	swapped := append(bytes.Clone(pk[n:]), pk[:n]...)
	if !agree(x, p, "the signature under PK.root||PK.seed", p.Verify(msg, sig, ctx, swapped), false, []verifyFn{internalVerifier(t, swapped, ctx)}, msg, sig) {
		return false
	}
	for _, l := range []int{0, 2*n - 1, 2*n + 1, 4 * n} { // wrong key lengths must be refused, not padded / truncated
		k2 := append(bytes.Clone(pk), pk...)[:l]
		var err error
		if !try(x, "DecodePublicKey", func() { _, err = t.DecodePublicKey(k2) }) {
			return false
		}
		x.Eval(1)
		if err == nil {
			x.Fail("accepts-invalid", "%s DecodePublicKey accepts a %d-byte key", p.Name, l)
			return false
		}
	}
	// the other hash family with identical sizes
	for _, o := range sets {
		if o.r.N == p.N && o.r.Hp == p.Hp && o.r.SHA2 != p.SHA2 {
			if !agree(x, o.r, "a "+p.Name+" signature", o.r.Verify(msg, sig, ctx, pk), false, []verifyFn{internalVerifier(o.a, pk, ctx)}, msg, sig) {
				return false
			}
		}
	}
	return true
}

// ---- known-answer signatures through tink (all twelve sets, cheap) ---------------------------------------

func katSection(x *h.X) {
	s := pickSet(x)
	p, t := s.r, s.a
	v := kats[p.Name]
	x.NonTrivial()
	x.Outcome("kat-verify/" + p.Name)
	if t.PublicKeyLength() != p.PKLen() || t.SecretKeyLength() != p.SKLen() { // also judged in the dims seam; here through exported names only
		x.Fail("params", "%s: key lengths %d/%d want %d/%d", p.Name, t.PublicKeyLength(), t.SecretKeyLength(), p.PKLen(), p.SKLen())
	}
	var enc []byte
	if !try(x, "DecodeSecretKey", func() {
		sk, err := t.DecodeSecretKey(v.sk)
		if err != nil {
			x.Fail("decode", "%s DecodeSecretKey: %v", p.Name, err)
			return
		}
		enc = append(sk.Encode(), sk.PublicKey().Encode()...)
	}) || enc == nil {
		return
	}
	if !same(x, "key-bytes", p.Name+" Encode(DecodeSecretKey(sk)) || PublicKey().Encode()", enc, append(bytes.Clone(v.sk), v.pk...)) {
		return
	}
	catalogue(x, s, v.pk, v.msg, v.ctx, v.sig, nil, true)
}

// ---- scheme level -----------------------------------------------------------------------------------

var seedKinds = []string{"00", "FF", "counter", "derived"}

func seedTriple(p *ref.SLHParams, kind int) (a, b, c []byte) {
	n := p.N
	switch kind {
	case 0:
		return make([]byte, n), make([]byte, n), make([]byte, n)
	case 1:
		return ref.Pattern(1, n), ref.Pattern(1, n), ref.Pattern(1, n)
	case 2:
		all := ref.Pattern(2, 3*n)
		return all[:n], all[n : 2*n], all[2*n:]
	}
	return ref.KeyBytes("c16-sk.seed-"+p.Name, n), ref.KeyBytes("c16-sk.prf-"+p.Name, n), ref.KeyBytes("c16-pk.seed-"+p.Name, n)
}

func tinkParams(p *ref.SLHParams, variant tslh.Variant) (*tslh.Parameters, error) {
	ht := tslh.SHAKE
	if p.SHA2 {
		ht = tslh.SHA2
	}
	st := tslh.FastSigning
	if p.Small() {
		st = tslh.SmallSignature
	}
	return tslh.NewParameters(ht, 4*p.N, st, variant)
}

var schemeMsgs = [][]byte{{}, {0x5a}, ref.Pattern(3, 64), ref.Pattern(2, 1000)}

func schemeSection(x *h.X) {
	// quick: the full programme for SHA2-128f and SHAKE-128f, a lean one (derived seeds, one deterministic and
	// the hedged / public-API signatures) for the other "f" sets; the "s" sets: see apiVerifySection.
	var dom []pset
	for _, s := range sets {
		if x.Thorough() || !s.r.Small() {
			dom = append(dom, s)
		}
	}
	s := h.Pick(x, "set", dom)
	p, t := s.r, s.a
	n := p.N
	full128 := p.N == 16 && !p.Small()
	kinds := []int{3, 0, 1, 2}
	if !x.Thorough() && !full128 {
		kinds = kinds[:1]
	}
	kind := kinds[x.Choose("seeds", len(kinds))]
	x.Label(seedKinds[kind])
	phase := h.Pick(x, "phase", []string{"keygen+deterministic", "hedged+api+catalogue"})
	skSeed, skPrf, pkSeed := seedTriple(p, kind)
	rsk, rpk := p.KeygenInternal(skSeed, skPrf, pkSeed)
	// the budget of expensive signatures in the "s" sets: everything for the first seed kind, one message otherwise
	lean := p.Small() && kind != 3 || !x.Thorough() && !full128
	x.NonTrivial()
	x.Outcome("scheme/" + p.Name + "/" + phase)

	tp := tape.NewTape(nil)
	tape.Bind(tp)
	defer tape.Unbind()

	if phase == "keygen+deterministic" {
		// (1) slh_keygen_internal on the chosen seeds (unexported: only through the export shim; without it, key
		// generation is still judged by (2), and the model's key pair for these seeds through the key objects in (5))
		if h.Seams() {
			var tskb, tpkb []byte
			if !try(x, "slhKeygenInternal", func() {
				sk, pk := s.t.VKeygenInternal(bytes.Clone(skSeed), bytes.Clone(skPrf), bytes.Clone(pkSeed))
				tskb, tpkb = sk.Encode(), pk.Encode()
				if e2 := sk.PublicKey().Encode(); !bytes.Equal(e2, tpkb) {
					x.Fail("key-bytes", "%s: SecretKey.PublicKey() = %x, PublicKey = %x", p.Name, e2, tpkb)
				}
			}) {
				return
			}
			if !same(x, "key-bytes", fmt.Sprintf("%s private key from seeds %s", p.Name, seedKinds[kind]), tskb, rsk) ||
				!same(x, "key-bytes", fmt.Sprintf("%s public key from seeds %s", p.Name, seedKinds[kind]), tpkb, rpk) {
				return
			}
		}
		// (2) KeyGen() with the seeds served by the entropy tape (three draws of n bytes)
		tp.Rewind()
		tp.Answer(0, skSeed)
		tp.Answer(1, skPrf)
		tp.Answer(2, pkSeed)
		var kg []byte
		if !try(x, "KeyGen", func() {
			sk, pk := t.KeyGen()
			kg = append(sk.Encode(), pk.Encode()...)
		}) {
			return
		}
		if len(kg) != 6*n {
			x.Fail("key-bytes", "%s KeyGen: %d key bytes, want %d", p.Name, len(kg), 6*n)
			return
		}
		wsk, wpk := p.KeygenInternal(kg[:n], kg[n:2*n], kg[2*n:3*n])
		if !same(x, "key-bytes", p.Name+" KeyGen() key pair vs model key generation on the seeds it reports", kg, append(wsk, wpk...)) {
			return
		}
		if bytes.Equal(kg[:4*n], rsk) {
			x.Outcome("KeyGen draws SK.seed, SK.prf, PK.seed in this order")
		}
		// (3) deterministic signatures, internal API
		var tsk *c16b.SecretKey
		var err error
		if !try(x, "DecodeSecretKey", func() { tsk, err = t.DecodeSecretKey(rsk) }) || err != nil {
			x.Check(err == nil, "decode", "%s DecodeSecretKey: %v", p.Name, err)
			return
		}
		type job struct{ msg, ctx []byte }
		var jobs []job
		if lean {
			jobs = []job{{schemeMsgs[2], nil}}
		} else {
			for _, m := range schemeMsgs {
				jobs = append(jobs, job{m, nil})
			}
			jobs = append(jobs, job{schemeMsgs[1], ref.KeyBytes("c16-ctx", 255)}, job{schemeMsgs[2], []byte{0}})
			jobs[0], jobs[3] = jobs[3], jobs[0] // the 1000-byte message gets a catalogue (256-byte context aliasing probe)
		}
		for ji, j := range jobs {
			var tsig []byte
			if !try(x, "SignDeterministic", func() { tsig, err = tsk.SignDeterministic(j.msg, j.ctx) }) {
				return
			}
			if err != nil {
				x.Fail("sign-error", "%s SignDeterministic(|M|=%d, |ctx|=%d): %v", p.Name, len(j.msg), len(j.ctx), err)
				return
			}
			rsig, _ := p.Sign(j.msg, j.ctx, rsk, nil)
			if !same(x, "det-signature", fmt.Sprintf("%s seeds=%s deterministic signature of |M|=%d |ctx|=%d", p.Name, seedKinds[kind], len(j.msg), len(j.ctx)), tsig, rsig) {
				return
			}
			if ji == len(jobs)-1 || ji == 0 { // light catalogue (lengths, message / context / key edits) around the first and the last
				if !catalogue(x, s, rpk, j.msg, j.ctx, rsig, nil, x.Thorough() && ji == 0) {
					return
				}
			} else if !agree(x, p, "the valid signature", p.Verify(j.msg, rsig, j.ctx, rpk), true, []verifyFn{internalVerifier(t, rpk, j.ctx)}, j.msg, rsig) {
				return
			}
		}
		// contexts longer than 255 bytes are refused by both
		for _, l := range []int{256, 1000} {
			var e1, e2 error
			if !try(x, "Sign with long context", func() {
				_, e1 = tsk.SignDeterministic(schemeMsgs[1], make([]byte, l))
				_, e2 = tsk.Sign(schemeMsgs[1], make([]byte, l))
			}) {
				return
			}
			_, ok := p.Sign(schemeMsgs[1], make([]byte, l), rsk, nil)
			x.Eval(2)
			if (e1 == nil) != ok || (e2 == nil) != ok {
				x.Fail("long-context", "%s: signing with a %d-byte context: SignDeterministic err=%v Sign err=%v, model ok=%v", p.Name, l, e1, e2, ok)
			}
		}
		return
	}

	// ---- hedged signatures and the public API ----
	// (4) internal Sign: addrnd is the next n tape bytes
	var tsk *c16b.SecretKey
	var err error
	if !try(x, "DecodeSecretKey", func() { tsk, err = t.DecodeSecretKey(rsk) }) || err != nil {
		x.Check(err == nil, "decode", "%s DecodeSecretKey: %v", p.Name, err)
		return
	}
	hedged := func(what string, sign func(msg []byte) ([]byte, error), msg, ctx, prefix []byte) []byte {
		tp.Rewind()
		var sig []byte
		var err error
		if !try(x, what, func() { sig, err = sign(msg) }) {
			return nil
		}
		if err != nil {
			x.Fail("sign-error", "%s %s: %v", p.Name, what, err)
			return nil
		}
		draws := tp.Since(0)
		if len(draws) != 1 || draws[0].N != n {
			x.Fail("hedged-entropy", "%s %s: entropy draws %v, FIPS 205 slh_sign draws one n-byte addrnd", p.Name, what, draws)
			return nil
		}
		addrnd := tp.Bytes(draws[0].Off, n)
		rsig, _ := p.Sign(msg, ctx, rsk, addrnd)
		want := append(bytes.Clone(prefix), rsig...)
		if !same(x, "hedged-signature", fmt.Sprintf("%s seeds=%s %s |M|=%d |ctx|=%d addrnd=%x", p.Name, seedKinds[kind], what, len(msg), len(ctx), addrnd), sig, want) {
			return nil
		}
		// a second signature draws fresh randomness
		return sig
	}
	ctx := ref.KeyBytes("c16-ctx2", 17)
	if !lean {
		if hedged("internal SecretKey.Sign", func(m []byte) ([]byte, error) { return tsk.Sign(m, ctx) }, schemeMsgs[2], ctx, nil) == nil {
			return
		}
	}
	// (5) key objects, signature/slhdsa constructors and keyset handles
	// key ids rotate over the parameter sets; 0 is an id like any other (TINK prefix 01 00000000)
	keyID := []uint32{0x01020304, 0, 0x80000001}[(p.N/8+len(p.Name))%3]
	type pathKeys struct {
		variant tslh.Variant
		id      uint32
		prefix  []byte
	}
	var rawVerifier, tinkVerifier, handleVerifier tink.Verifier
	var rawSig []byte
	for _, pkv := range []pathKeys{{tslh.VariantNoPrefix, 0, nil}, {tslh.VariantTink, keyID, ref.Prefix(ref.Tink, keyID)}} {
		params, err := tinkParams(p, pkv.variant)
		if err != nil {
			x.Fail("construct", "%s NewParameters: %v", p.Name, err)
			return
		}
		priv, err := tslh.NewPrivateKey(secretdata.NewBytesFromData(bytes.Clone(rsk), insecuresecretdataaccess.Token{}), pkv.id, params)
		if err != nil {
			x.Fail("construct", "%s NewPrivateKey: %v", p.Name, err)
			return
		}
		pubK, _ := priv.PublicKey()
		pub := pubK.(*tslh.PublicKey)
		if !same(x, "key-bytes", p.Name+" PrivateKey.PublicKey().KeyBytes()", pub.KeyBytes(), rpk) {
			return
		}
		if !bytes.Equal(pub.OutputPrefix(), pkv.prefix) {
			x.Fail("prefix", "%s OutputPrefix=%x want %x", p.Name, pub.OutputPrefix(), pkv.prefix)
		}
		pub2, err := tslh.NewPublicKey(bytes.Clone(rpk), pkv.id, params)
		if err != nil || !pub2.Equal(pub) {
			x.Fail("construct", "%s NewPublicKey(model public key): %v equal=%v", p.Name, err, err == nil && pub2.Equal(pub))
			return
		}
		// the pair constructor: the matching public key is accepted, a public key that differs from the secret key's
		// own copy in ANY byte (PK.seed half or PK.root half) is a modified key and is refused
		if pr2, err := tslh.NewPrivateKeyWithPublicKey(secretdata.NewBytesFromData(bytes.Clone(rsk), insecuresecretdataaccess.Token{}), pub2); err != nil || !pr2.Equal(priv) {
			x.Fail("construct", "%s NewPrivateKeyWithPublicKey(secret key, its public key): %v", p.Name, err)
			return
		}
		for _, pos := range []int{0, len(rpk)/2 - 1, len(rpk) / 2, len(rpk) - 1} {
			bad := bytes.Clone(rpk)
			bad[pos] ^= 0x01
			badPub, err := tslh.NewPublicKey(bad, pkv.id, params)
			if err != nil {
				continue
			}
			if _, err := tslh.NewPrivateKeyWithPublicKey(secretdata.NewBytesFromData(bytes.Clone(rsk), insecuresecretdataaccess.Token{}), badPub); err == nil {
				x.Fail("accepts-modified-key", "%s NewPrivateKeyWithPublicKey accepts a public key whose byte %d of %d (%s half) differs from the secret key's own copy", p.Name, pos, len(rpk), map[bool]string{true: "PK.seed", false: "PK.root"}[pos < len(rpk)/2])
			}
			x.Eval(1)
		}
		signer, err := tslh.NewSigner(priv, vb.Tok())
		if err != nil {
			x.Fail("construct", "%s slhdsa.NewSigner: %v", p.Name, err)
			return
		}
		verifier, err := tslh.NewVerifier(pub2, vb.Tok())
		if err != nil {
			x.Fail("construct", "%s slhdsa.NewVerifier: %v", p.Name, err)
			return
		}
		if pkv.variant == tslh.VariantNoPrefix {
			rawVerifier = verifier
			msg := schemeMsgs[2]
			if rawSig = hedged("slhdsa.NewSigner(NO_PREFIX).Sign", signer.Sign, msg, nil, nil); rawSig == nil {
				return
			}
			continue
		}
		tinkVerifier = verifier
		hd, err := tk.Single(priv)
		if err != nil {
			x.Fail("construct", "%s keyset handle: %v", p.Name, err)
			return
		}
		hs, err := signature.NewSigner(hd)
		if err != nil {
			x.Fail("construct", "%s signature.NewSigner: %v", p.Name, err)
			return
		}
		pubH, err := hd.Public()
		if err != nil {
			x.Fail("construct", "%s handle.Public: %v", p.Name, err)
			return
		}
		handleVerifier, err = signature.NewVerifier(pubH)
		if err != nil {
			x.Fail("construct", "%s signature.NewVerifier: %v", p.Name, err)
			return
		}
		msg := schemeMsgs[3]
		if lean {
			msg = schemeMsgs[2]
		}
		tsig := hedged("signature.NewSigner(handle, TINK).Sign", hs.Sign, msg, nil, pkv.prefix)
		if tsig == nil {
			return
		}
		// prefix handling of the two TINK-variant verifiers
		for _, v := range []verifyFn{{"slhdsa.NewVerifier(TINK)", func(m, sg []byte) error { return tinkVerifier.Verify(sg, m) }}, {"signature.NewVerifier(handle)", func(m, sg []byte) error { return handleVerifier.Verify(sg, m) }}} {
			raw := tsig[len(pkv.prefix):]
			if !agree(x, p, "prefix || valid signature", p.Verify(msg, raw, nil, rpk), true, []verifyFn{v}, msg, tsig) {
				return
			}
			other := append(ref.Prefix(ref.Tink, keyID^1), raw...)
			crunchy := append(ref.Prefix(ref.Crunchy, keyID), raw...)
			muts := []sigMut{{"the signature without its prefix", raw}, {"the signature under another key id's prefix", other}, {"the signature under a CRUNCHY prefix", crunchy},
				{"the signature with a duplicated prefix", append(bytes.Clone(pkv.prefix), tsig...)}, {"a nil signature", nil}}
			// inputs SHORTER than, as long as and one byte longer than the output prefix (rejected with an error, not a panic)
			for n := 0; n <= len(pkv.prefix)+1; n++ {
				muts = append(muts, sigMut{fmt.Sprintf("the first %d bytes of the signature", n), bytes.Clone(tsig[:n])})
			}
			for _, c := range muts {
				x.Eval(1)
				var err error
				if !try(x, v.name, func() { err = v.f(msg, c.sig) }) {
					return
				}
				if err == nil {
					x.Fail("accepts-invalid", "%s %s accepts %s", p.Name, v.name, c.what)
					return
				}
			}
			bad := bytes.Clone(tsig)
			bad[len(bad)-1] ^= 1
			if !agree(x, p, "prefix || corrupted signature", p.Verify(msg, bad[len(pkv.prefix):], nil, rpk), false, []verifyFn{v}, msg, bad) {
				return
			}
		}
	}
	// (6) the catalogue around the raw hedged signature through the internal API and the NO_PREFIX verifier
	extra := []verifyFn{{"slhdsa.NewVerifier(NO_PREFIX)", func(m, sg []byte) error { return rawVerifier.Verify(sg, m) }}}
	if !catalogue(x, s, rpk, schemeMsgs[2], nil, rawSig, extra, true) {
		return
	}
	// (7) key generation through the keyset manager: the key pair must be a FIPS 205 key pair for its seeds
	params, _ := tinkParams(p, tslh.VariantTink)
	tp.Rewind()
	km := keyset.NewManager()
	var gen []byte
	if !try(x, "AddNewKeyFromParameters", func() {
		id, err := km.AddNewKeyFromParameters(params)
		if err != nil {
			x.Fail("construct", "%s AddNewKeyFromParameters: %v", p.Name, err)
			return
		}
		km.SetPrimary(id)
		hd, err := km.Handle()
		if err != nil {
			x.Fail("construct", "%s manager handle: %v", p.Name, err)
			return
		}
		e, err := hd.Primary()
		if err != nil {
			x.Fail("construct", "%s Primary: %v", p.Name, err)
			return
		}
		priv, ok := e.Key().(*tslh.PrivateKey)
		if !ok {
			x.Fail("construct", "%s generated key has type %T", p.Name, e.Key())
			return
		}
		pubK, _ := priv.PublicKey()
		gen = append(bytes.Clone(priv.PrivateKeyBytes().Data(insecuresecretdataaccess.Token{})), pubK.(*tslh.PublicKey).KeyBytes()...)
	}) || gen == nil {
		return
	}
	if len(gen) != 6*n {
		x.Fail("key-bytes", "%s generated key: %d bytes, want %d", p.Name, len(gen), 6*n)
		return
	}
	wsk, wpk := p.KeygenInternal(gen[:n], gen[n:2*n], gen[2*n:3*n])
	same(x, "key-bytes", p.Name+" key generated by keyset.Manager vs model key generation on its seeds", gen, append(wsk, wpk...))
}

// apiVerifySection (quick, the ten sets without a full scheme run... here: every "s" set): a model-made
// signature under the known-answer key, empty context, must be accepted through every public path of the
// matching tink parameter set and a corrupted one rejected. Covers the twelve-way parameter-set switches of
// signature/slhdsa (key.go, signer.go, verifier.go) without a tink-side signing operation.
func apiVerifySection(x *h.X) {
	var dom []pset
	for _, s := range sets {
		if !x.Thorough() && s.r.Small() {
			dom = append(dom, s)
		}
	}
	if len(dom) == 0 {
		return
	}
	s := h.Pick(x, "set", dom)
	p := s.r
	v := kats[p.Name]
	x.NonTrivial()
	x.Outcome("api-verify/" + p.Name)
	msg := ref.Pattern(3, 33)
	rsig, _ := p.Sign(msg, nil, v.sk, nil)
	keyID := []uint32{0x7fffffff, 0, 0x00000100}[(p.N/8+len(p.Name))%3] // rotates over the parameter sets; 0 is an id like any other
	for _, variant := range []tslh.Variant{tslh.VariantNoPrefix, tslh.VariantTink} {
		id, prefix := uint32(0), []byte(nil)
		if variant == tslh.VariantTink {
			id, prefix = keyID, ref.Prefix(ref.Tink, keyID)
		}
		params, err := tinkParams(p, variant)
		if err != nil {
			x.Fail("construct", "%s NewParameters: %v", p.Name, err)
			return
		}
		priv, err := tslh.NewPrivateKey(secretdata.NewBytesFromData(bytes.Clone(v.sk), insecuresecretdataaccess.Token{}), id, params)
		if err != nil {
			x.Fail("construct", "%s NewPrivateKey: %v", p.Name, err)
			return
		}
		pubK, _ := priv.PublicKey()
		pub := pubK.(*tslh.PublicKey)
		if !same(x, "key-bytes", p.Name+" PrivateKey.PublicKey().KeyBytes()", pub.KeyBytes(), v.pk) {
			return
		}
		kv, err := tslh.NewVerifier(pub, vb.Tok())
		if err != nil {
			x.Fail("construct", "%s slhdsa.NewVerifier: %v", p.Name, err)
			return
		}
		hd, err := tk.Single(pub)
		if err != nil {
			x.Fail("construct", "%s public keyset handle: %v", p.Name, err)
			return
		}
		hv, err := signature.NewVerifier(hd)
		if err != nil {
			x.Fail("construct", "%s signature.NewVerifier: %v", p.Name, err)
			return
		}
		paths := []verifyFn{{fmt.Sprintf("slhdsa.NewVerifier(%v)", variant), func(m, sg []byte) error { return kv.Verify(sg, m) }},
			{fmt.Sprintf("signature.NewVerifier(handle,%v)", variant), func(m, sg []byte) error { return hv.Verify(sg, m) }}}
		full := append(bytes.Clone(prefix), rsig...)
		if !agree(x, p, "the model-made signature", p.Verify(msg, rsig, nil, v.pk), true, paths, msg, full) {
			return
		}
		for _, pos := range []int{len(prefix), len(prefix) + p.N, len(full) / 2, len(full) - 1} {
			bad := bytes.Clone(full)
			bad[pos] ^= 0x20
			if !agree(x, p, fmt.Sprintf("the signature with byte %d altered", pos), p.Verify(msg, bad[len(prefix):], nil, v.pk), false, paths, msg, bad) {
				return
			}
		}
		if !agree(x, p, "the signature for another message", p.Verify(msg[1:], rsig, nil, v.pk), false, paths, msg[1:], full) {
			return
		}
	}
}
