package main

// Section tink-generated-keys: keys GENERATED through the Tink layer (signature/slhdsa createPrivateKey, the key
// creator behind every generation route) are judged against the FIPS 205 model, for all twelve parameter sets x
// both variants x every generation route that exists in this tree:
//
//	Manager.AddNewKeyFromParameters(slhdsa.Parameters)   keyset.NewHandle(template)   Manager.Add(template)
//	keygenregistry.CreateKey (bridge c16b.CreateKey)      registry.NewKeyData(template)
//	registry.NewKey(template)                             registry.GetKeyManager(url).NewKeyData(format) + PublicKeyData
//
// (signature/signature_key_templates.go has no SLH-DSA templates; the template is built here from the proto
// messages, independently of tink's parameters serializer. The key-manager routes always yield RAW key data; the
// variant is the output prefix type of the keyset entry the data is placed in.)
//
// Judged for every generated key (parameter set = the REQUESTED one):
//
//	(1) the private key bytes are SK.seed||SK.prf||PK.seed||PK.root with the set's n, and equal the model's
//	    slh_keygen_internal(SK.seed, SK.prf, PK.seed) private key (hence PK.root is the root of the right tree);
//	(2) the public key of handle.Public() - as a key object and in the serialized keyset - and the public key inside
//	    the serialized private key equal PK.seed||PK.root of the model;
//	(3) a signature made by signature.NewSigner(handle) is the variant's output prefix for the entry's key id followed
//	    by a byte string the MODEL verifier accepts under the model public key, and is accepted by
//	    signature.NewVerifier(handle.Public()) and by slhdsa.NewVerifier over an independently constructed public key;
//	    a model-made deterministic signature is accepted by both tink verifiers and a corrupted one rejected.
//	    Quick: tink signs with the "f" sets only (128f: every route; 192f / 256f: the parameters route and the bare key
//	    creator), the model signs on the first route; an "s" set is judged by (0)+(1)+(2) on every route and by the
//	    model-made signature on its first route; the leaves of one set share a tape stretch (the model's key pair is
//	    computed once per distinct seed triple); the variant-less key-manager routes run under one variant each.
//	    Thorough: every leaf signs both ways, under both variants, with its own seeds.
//	(0) the key carries the requested parameters (set and variant) and the variant's output prefix for its key id (key
//	    ids: the extremes tk.IDs, given directly or scripted as the manager's random draw).
//
// Don't-care: which entropy bytes key generation consumes and whether two generations differ (the statement says
// nothing about the randomness of key generation; recorded as an outcome class only), key material type / type URL
// labels of the key data, error texts.

import (
	"bytes"
	"fmt"
	"os"
	"sort"
	"sync"
	"time"

	"github.com/tink-crypto/tink-go/v2/core/registry"
	"github.com/tink-crypto/tink-go/v2/insecuresecretdataaccess"
	"github.com/tink-crypto/tink-go/v2/keyset"
	slhdsapb "github.com/tink-crypto/tink-go/v2/proto/slh_dsa_go_proto"
	tinkpb "github.com/tink-crypto/tink-go/v2/proto/tink_go_proto"
	"github.com/tink-crypto/tink-go/v2/signature"
	tslh "github.com/tink-crypto/tink-go/v2/signature/slhdsa"
	"github.com/tink-crypto/tink-go/v2/testkeyset"
	"github.com/tink-crypto/tink-go/v2/verifbridge/c16b"
	"github.com/tink-crypto/tink-go/v2/verifbridge/vb"
	"google.golang.org/protobuf/proto"
	"verif/h"
	"verif/ref"
	"verif/tape"
	"verif/tk"
)

const slhSignerURL = "type.googleapis.com/google.crypto.tink.SlhDsaPrivateKey"

type genCtx struct {
	x        *h.X
	p        *ref.SLHParams
	variant  tslh.Variant
	params   *tslh.Parameters
	format   []byte              // serialized SlhDsaKeyFormat (hand-made)
	template *tinkpb.KeyTemplate // hand-made
	extraPub []namedBytes        // further views of the public key collected by a route
	id       uint32              // key id extreme of this leaf (tk.IDs): used directly where the route takes an id, and scripted
	tp       *tape.Tape          // as the first 4-byte entropy draw where keyset.Manager draws a random id (which id results is not judged)
}

func (g *genCtx) scriptManagerID() {
	g.tp.Answer(0, []byte{byte(g.id >> 24), byte(g.id >> 16), byte(g.id >> 8), byte(g.id)})
}

type namedBytes struct {
	what string
	b    []byte
}

func (g *genCtx) fail(format string, a ...any) *keyset.Handle {
	g.x.Fail("gen-construct", "%s %v: "+format, append([]any{g.p.Name, g.variant}, a...)...)
	return nil
}

func (g *genCtx) prefixType() tinkpb.OutputPrefixType {
	if g.variant == tslh.VariantTink {
		return tinkpb.OutputPrefixType_TINK
	}
	return tinkpb.OutputPrefixType_RAW
}

// wrap places generated private key data into a one-key keyset with the variant's prefix type.
func (g *genCtx) wrap(what string, kd *tinkpb.KeyData) *keyset.Handle {
	id := g.id
	ks := &tinkpb.Keyset{PrimaryKeyId: id, Key: []*tinkpb.Keyset_Key{{KeyData: kd, Status: tinkpb.KeyStatusType_ENABLED, KeyId: id, OutputPrefixType: g.prefixType()}}}
	hd, err := testkeyset.NewHandle(ks)
	if err != nil {
		return g.fail("the key data generated by %s is refused as a keyset entry: %v", what, err)
	}
	return hd
}

func primaryOf(g *genCtx, what string, km *keyset.Manager, id uint32) *keyset.Handle {
	if err := km.SetPrimary(id); err != nil {
		return g.fail("%s: SetPrimary(%d): %v", what, id, err)
	}
	hd, err := km.Handle()
	if err != nil {
		return g.fail("%s: Manager.Handle: %v", what, err)
	}
	return hd
}

type genRoute struct {
	name    string
	keyData bool // a key-manager route: yields RAW key data, the harness chooses the keyset entry's prefix type
	gen     func(g *genCtx) *keyset.Handle
}

var genRoutes = []genRoute{
	{"Manager.AddNewKeyFromParameters", false, func(g *genCtx) *keyset.Handle {
		km := keyset.NewManager()
		g.scriptManagerID()
		id, err := km.AddNewKeyFromParameters(g.params)
		if err != nil {
			return g.fail("AddNewKeyFromParameters: %v", err)
		}
		return primaryOf(g, "AddNewKeyFromParameters", km, id)
	}},
	{"keyset.NewHandle(template)", false, func(g *genCtx) *keyset.Handle {
		g.scriptManagerID()
		hd, err := keyset.NewHandle(g.template)
		if err != nil {
			return g.fail("keyset.NewHandle(template): %v", err)
		}
		return hd
	}},
	{"Manager.Add(template)", false, func(g *genCtx) *keyset.Handle {
		km := keyset.NewManager()
		g.scriptManagerID()
		id, err := km.Add(g.template)
		if err != nil {
			return g.fail("Manager.Add(template): %v", err)
		}
		return primaryOf(g, "Manager.Add(template)", km, id)
	}},
	{"keygenregistry.CreateKey", false, func(g *genCtx) *keyset.Handle {
		id := uint32(0)
		if g.variant == tslh.VariantTink {
			id = g.id
		}
		k, err := c16b.CreateKey(g.params, id)
		if err != nil {
			return g.fail("keygenregistry.CreateKey(params, %#x): %v", id, err)
		}
		hd, err := tk.Single(k)
		if err != nil {
			return g.fail("keygenregistry.CreateKey(params, %#x): the key (%T) is refused by keyset.Manager: %v", id, k, err)
		}
		return hd
	}},
	{"registry.NewKeyData(template)", true, func(g *genCtx) *keyset.Handle {
		kd, err := registry.NewKeyData(g.template)
		if err != nil {
			return g.fail("registry.NewKeyData(template): %v", err)
		}
		return g.wrap("registry.NewKeyData", kd)
	}},
	{"registry.NewKey(template)", true, func(g *genCtx) *keyset.Handle {
		m, err := registry.NewKey(g.template)
		if err != nil {
			return g.fail("registry.NewKey(template): %v", err)
		}
		pk, ok := m.(*slhdsapb.SlhDsaPrivateKey)
		if !ok {
			return g.fail("registry.NewKey(template) returns a %T, not the private key message", m)
		}
		v, err := proto.Marshal(pk)
		if err != nil {
			return g.fail("registry.NewKey(template): marshal: %v", err)
		}
		return g.wrap("registry.NewKey", &tinkpb.KeyData{TypeUrl: slhSignerURL, Value: v, KeyMaterialType: tinkpb.KeyData_ASYMMETRIC_PRIVATE})
	}},
	{"KeyManager.NewKeyData(format)+PublicKeyData", true, func(g *genCtx) *keyset.Handle {
		km, err := registry.GetKeyManager(slhSignerURL)
		if err != nil {
			return g.fail("registry.GetKeyManager: %v", err)
		}
		kd, err := km.NewKeyData(g.format)
		if err != nil {
			return g.fail("KeyManager.NewKeyData(format): %v", err)
		}
		pkm, ok := km.(registry.PrivateKeyManager)
		if !ok {
			return g.fail("the SLH-DSA signer key manager (%T) is not a PrivateKeyManager", km)
		}
		pubKD, err := pkm.PublicKeyData(kd.GetValue())
		if err != nil {
			return g.fail("PublicKeyData(generated key): %v", err)
		}
		pub := new(slhdsapb.SlhDsaPublicKey)
		if err := proto.Unmarshal(pubKD.GetValue(), pub); err != nil {
			return g.fail("PublicKeyData(generated key) is not a public key message: %v", err)
		}
		g.extraPub = append(g.extraPub, namedBytes{"PrivateKeyManager.PublicKeyData(generated key)", pub.GetKeyValue()})
		return g.wrap("KeyManager.NewKeyData", kd)
	}},
}

var genVariants = []tslh.Variant{tslh.VariantTink, tslh.VariantNoPrefix}

func genTemplate(p *ref.SLHParams, pt tinkpb.OutputPrefixType) (format []byte, t *tinkpb.KeyTemplate) {
	ht, st := slhdsapb.SlhDsaHashType_SHAKE, slhdsapb.SlhDsaSignatureType_FAST_SIGNING
	if p.SHA2 {
		ht = slhdsapb.SlhDsaHashType_SHA2
	}
	if p.Small() {
		st = slhdsapb.SlhDsaSignatureType_SMALL_SIGNATURE
	}
	format, err := proto.Marshal(&slhdsapb.SlhDsaKeyFormat{Version: 0, Params: &slhdsapb.SlhDsaParams{KeySize: int32(4 * p.N), HashType: ht, SigType: st}})
	if err != nil {
		refFatal("marshal SlhDsaKeyFormat: %v", err)
	}
	return format, &tinkpb.KeyTemplate{TypeUrl: slhSignerURL, Value: format, OutputPrefixType: pt}
}

var genMsg, genMsg2 = ref.Pattern(2, 47), ref.Pattern(3, 130)

// modelKeygen: slh_keygen_internal of the model, memoized on (set, seeds): in the quick tier the leaves of one
// parameter set share a stretch of the entropy tape, so routes that draw their seeds at the same tape position
// generate the same key and the model's key pair is computed once for them.
type modelKey struct {
	once   sync.Once
	sk, pk []byte
}

var modelKeys sync.Map

func modelKeygen(p *ref.SLHParams, seeds []byte) (sk, pk []byte, cached bool) {
	n := p.N
	v, loaded := modelKeys.LoadOrStore(p.Name+string(seeds[:3*n]), new(modelKey))
	mk := v.(*modelKey)
	mk.once.Do(func() { mk.sk, mk.pk = p.KeygenInternal(seeds[:n], seeds[n:2*n], seeds[2*n:3*n]) })
	return mk.sk, mk.pk, loaded
}

// genLeaf is one generated key: (parameter set, route, variant). The section enumerates the flat list with ONE choice
// point (after the first execution every other leaf is known to the engine, so that all workers are busy at once).
type genLeaf struct {
	si, ri     int
	variant    tslh.Variant
	tinkSigns  bool // the tink signer signs with the generated key
	modelSigns bool // the model signs under the generated key
}

var (
	genLeafOnce sync.Once
	genLeafList []genLeaf
)

func genLeaves(thorough bool) []genLeaf {
	genLeafOnce.Do(func() {
		for si, s := range sets {
			p := s.r
			for ri, route := range genRoutes {
				// the key-manager routes have no variant (they yield RAW key data; the variant is the prefix type of the keyset
				// entry the harness puts the data in): quick runs them under one variant each, thorough under both
				vdom := genVariants
				if route.keyData && !thorough {
					vdom = genVariants[ri%2 : ri%2+1]
				}
				for _, v := range vdom {
					// quick: tink signs with the "f" sets only - the 128f sets on every route, the slower 192f / 256f sets on the
					// parameters route and the bare key creator; the model signs on the first route (an "s" set: under TINK only)
					l := genLeaf{si: si, ri: ri, variant: v}
					l.tinkSigns = thorough || !p.Small() && (p.N == 16 || ri == 0 || ri == 3)
					l.modelSigns = thorough || ri == 0 && (!p.Small() || v == tslh.VariantTink)
					genLeafList = append(genLeafList, l)
				}
			}
		}
		// expensive leaves first, except that the very first execution (which precedes all others) is the cheapest
		cost := func(l genLeaf) int {
			p, c := sets[l.si].r, 0
			if p.Small() {
				c = 10
				if l.tinkSigns {
					c += 250
				}
				if l.modelSigns {
					c += 100
				}
			} else {
				if l.tinkSigns {
					c += p.N / 4
				}
				if l.modelSigns {
					c += p.N / 8
				}
			}
			return c
		}
		sort.SliceStable(genLeafList, func(i, j int) bool { return cost(genLeafList[i]) > cost(genLeafList[j]) })
		last := len(genLeafList) - 1
		genLeafList[0], genLeafList[last] = genLeafList[last], genLeafList[0]
	})
	return genLeafList
}

func tinkGeneratedSection(x *h.X) {
	leaves := genLeaves(x.Thorough())
	leaf := leaves[x.Choose("key", len(leaves))]
	si, ri, variant := leaf.si, leaf.ri, leaf.variant
	s, route := sets[si], genRoutes[ri]
	x.Label(fmt.Sprintf("%s / %s / %v", s.r.Name, route.name, variant))
	p := s.r
	n := p.N
	var tGen, tModelKey, tTinkSign, tModelSign time.Duration
	if os.Getenv("C16_TIMING") != "" { // development aid
		t0 := time.Now()
		defer func() {
			fmt.Printf("timing gen %-20s %-10v %-45s %6.2fs gen=%.2f modelkey=%.2f tinksign=%.2f modelsign=%.2f\n", p.Name, variant, route.name, time.Since(t0).Seconds(),
				tGen.Seconds(), tModelKey.Seconds(), tTinkSign.Seconds(), tModelSign.Seconds())
		}()
	}
	x.NonTrivial()
	x.Outcome("set " + p.Name)
	x.Outcome("route " + route.name + " / " + variant.String())

	params, err := tinkParams(p, variant)
	if err != nil {
		x.Fail("gen-construct", "%s NewParameters: %v", p.Name, err)
		return
	}
	g := &genCtx{x: x, p: p, variant: variant, params: params, id: tk.IDs[(si+ri)%len(tk.IDs)]}
	g.format, g.template = genTemplate(p, g.prefixType())

	// the deterministic entropy tape: thorough gives every leaf its own stretch (distinct seeds per leaf); quick gives
	// the leaves of one parameter set the same stretch (see modelKeygen). Same bytes on every run.
	base := si * 4096
	if x.Thorough() {
		vi := 0
		if variant == tslh.VariantNoPrefix {
			vi = 1
		}
		base = ((si*len(genRoutes)+ri)*2 + vi) * 4096
	}
	tp := tape.NewTape(func(off int) byte { return tape.CounterSrc(base + off) })
	g.tp = tp
	tape.Bind(tp)
	defer tape.Unbind()

	t1 := time.Now()
	var hd *keyset.Handle
	if !try(x, route.name, func() { hd = route.gen(g) }) || hd == nil {
		return
	}
	draws := tp.Since(0)
	tGen = time.Since(t1)

	// ---- the generated key as the handle holds it ----
	var e *keyset.Entry
	var pubH *keyset.Handle
	var priv *tslh.PrivateKey
	var pub *tslh.PublicKey
	var sk []byte
	ok := false
	if !try(x, "inspecting the generated handle", func() {
		if hd.Len() != 1 {
			g.fail("%s: the handle has %d entries", route.name, hd.Len())
			return
		}
		if e, err = hd.Primary(); err != nil {
			g.fail("%s: handle.Primary: %v", route.name, err)
			return
		}
		var isPriv bool
		if priv, isPriv = e.Key().(*tslh.PrivateKey); !isPriv {
			g.fail("%s: the generated key is a %T", route.name, e.Key())
			return
		}
		sk = bytes.Clone(priv.PrivateKeyBytes().Data(insecuresecretdataaccess.Token{}))
		if pubH, err = hd.Public(); err != nil {
			g.fail("%s: handle.Public: %v", route.name, err)
			return
		}
		pe, err := pubH.Primary()
		if err != nil {
			g.fail("%s: handle.Public().Primary: %v", route.name, err)
			return
		}
		var isPub bool
		if pub, isPub = pe.Key().(*tslh.PublicKey); !isPub {
			g.fail("%s: the key of handle.Public() is a %T", route.name, pe.Key())
			return
		}
		if pe.KeyID() != e.KeyID() {
			g.fail("%s: handle.Public() has key id %#x, the handle %#x", route.name, pe.KeyID(), e.KeyID())
			return
		}
		ok = true
	}) || !ok {
		return
	}

	what := fmt.Sprintf("%s %v key generated by %s", p.Name, variant, route.name)
	// the key must be a key of the REQUESTED parameter set and variant (a key labelled with another set makes and
	// accepts that set's signatures: the signing steps below show it where they run; the label shows it on every leaf)
	if !priv.Parameters().Equal(params) || !pub.Parameters().Equal(params) {
		x.Fail("gen-parameters", "%s: the key carries the parameters %+v (public: %+v), requested %+v", what, priv.Parameters(), pub.Parameters(), params)
		return
	}
	// (1) layout and root
	if len(sk) != 4*n {
		x.Fail("gen-key-bytes", "%s: the private key has %d bytes, FIPS 205 SK.seed||SK.prf||PK.seed||PK.root has %d", what, len(sk), 4*n)
		return
	}
	t1 = time.Now()
	rsk, rpk, cached := modelKeygen(p, sk)
	tModelKey = time.Since(t1)
	if cached {
		x.Outcome("same seeds as another route of this set (same tape position): model key pair reused")
	}
	if !same(x, "gen-key-root", what+": private key vs slh_keygen_internal(SK.seed, SK.prf, PK.seed) of the model (PK.root = last n bytes)", sk, rsk) {
		return
	}
	// (2) the public key in every view
	views := []namedBytes{{"handle.Public() key object", pub.KeyBytes()}}
	if !try(x, "serializing the generated handle", func() {
		if pk2, err := priv.PublicKey(); err == nil {
			if k2, isPub := pk2.(*tslh.PublicKey); isPub {
				views = append(views, namedBytes{"PrivateKey.PublicKey()", k2.KeyBytes()})
			}
		}
		ks := testkeyset.KeysetMaterial(hd)
		m := new(slhdsapb.SlhDsaPrivateKey)
		if len(ks.GetKey()) != 1 || proto.Unmarshal(ks.GetKey()[0].GetKeyData().GetValue(), m) != nil {
			g.fail("%s: the serialized private keyset is unreadable", route.name)
			ok = false
			return
		}
		if !same(x, "gen-key-bytes", what+": private key bytes in the serialized keyset", m.GetKeyValue(), rsk) {
			ok = false
			return
		}
		views = append(views, namedBytes{"public key inside the serialized private key", m.GetPublicKey().GetKeyValue()})
		pks := testkeyset.KeysetMaterial(pubH)
		pm := new(slhdsapb.SlhDsaPublicKey)
		if len(pks.GetKey()) != 1 || proto.Unmarshal(pks.GetKey()[0].GetKeyData().GetValue(), pm) != nil {
			g.fail("%s: the serialized public keyset is unreadable", route.name)
			ok = false
			return
		}
		views = append(views, namedBytes{"serialized keyset of handle.Public()", pm.GetKeyValue()})
	}) || !ok {
		return
	}
	for _, v := range append(views, g.extraPub...) {
		if !same(x, "gen-public-key", what+": "+v.what+" vs PK.seed||PK.root of the model", v.b, rpk) {
			return
		}
	}
	// the output prefix the variant prescribes for this entry
	var prefix []byte
	if variant == tslh.VariantTink {
		prefix = ref.Prefix(ref.Tink, e.KeyID())
	}
	if !bytes.Equal(priv.OutputPrefix(), prefix) || !bytes.Equal(pub.OutputPrefix(), prefix) {
		x.Fail("prefix", "%s (key id %#x): OutputPrefix private=%x public=%x, want %x", what, e.KeyID(), priv.OutputPrefix(), pub.OutputPrefix(), prefix)
		return
	}
	x.Outcome(fmt.Sprintf("key id %#x", e.KeyID()))
	// not judged: where the seeds come from
	if len(draws) >= 3 {
		for i := 0; i+2 < len(draws); i++ {
			if draws[i].N == n && draws[i+1].N == n && draws[i+2].N == n && bytes.Equal(sk[:3*n], tp.Bytes(draws[i].Off, 3*n)) {
				x.Outcome("seeds = three consecutive n-byte entropy draws (SK.seed, SK.prf, PK.seed)")
				break
			}
		}
	}

	// (3) signatures
	tinkSigns, modelSigns := leaf.tinkSigns, leaf.modelSigns // see genLeaves
	if !modelSigns && !tinkSigns {
		x.Outcome("judged by key bytes and labels (quick)")
		return
	}
	var hv, kv verifyFn
	ok = false
	if !try(x, "verifier construction", func() {
		v1, err := signature.NewVerifier(pubH)
		if err != nil {
			g.fail("%s: signature.NewVerifier(handle.Public()): %v", route.name, err)
			return
		}
		id := uint32(0)
		if variant == tslh.VariantTink {
			id = e.KeyID()
		}
		mpub, err := tslh.NewPublicKey(bytes.Clone(rpk), id, params)
		if err != nil {
			g.fail("NewPublicKey(model public key, %#x): %v", id, err)
			return
		}
		v2, err := tslh.NewVerifier(mpub, vb.Tok())
		if err != nil {
			g.fail("slhdsa.NewVerifier(model public key): %v", err)
			return
		}
		hv = verifyFn{"signature.NewVerifier(generated handle.Public())", func(m, sg []byte) error { return v1.Verify(sg, m) }}
		kv = verifyFn{"slhdsa.NewVerifier(model public key)", func(m, sg []byte) error { return v2.Verify(sg, m) }}
		ok = true
	}) || !ok {
		return
	}
	paths := []verifyFn{hv, kv}
	if tinkSigns {
		var sig []byte
		ok = false
		t1 = time.Now()
		if !try(x, "signing with the generated key", func() {
			signer, err := signature.NewSigner(hd)
			if err != nil {
				g.fail("%s: signature.NewSigner(generated handle): %v", route.name, err)
				return
			}
			if sig, err = signer.Sign(genMsg); err != nil {
				x.Fail("sign-error", "%s: Sign: %v", what, err)
				return
			}
			ok = true
		}) || !ok {
			return
		}
		tTinkSign = time.Since(t1)
		if !bytes.HasPrefix(sig, prefix) {
			x.Fail("prefix", "%s (key id %#x): the signature starts with %x, want the output prefix %x", what, e.KeyID(), sig[:min(len(sig), 5)], prefix)
			return
		}
		raw := sig[len(prefix):]
		x.Eval(1)
		if !p.Verify(genMsg, raw, nil, rpk) {
			x.Fail("gen-signature-invalid", "%s: the signature made with the generated key (%d bytes after the prefix, FIPS length %d) is REJECTED by the model verifier under the model public key %x", what, len(raw), p.SigLen(), rpk)
			return
		}
		if !agree(x, p, "the signature made with the generated key", true, true, paths, genMsg, sig) {
			return
		}
		bad := bytes.Clone(sig)
		bad[len(prefix)+n+(si*7+ri)%(len(raw)-n)] ^= 0x04
		if !agree(x, p, "the signature made with the generated key, one bit altered", p.Verify(genMsg, bad[len(prefix):], nil, rpk), false, paths, genMsg, bad) {
			return
		}
		if !modelSigns {
			x.Outcome("judged by key bytes + tink-made signature")
			return
		}
		x.Outcome("judged by key bytes + tink-made signature + model-made signature")
	} else {
		x.Outcome("judged by key bytes + model-made signature (s set, quick, first route)")
	}
	t1 = time.Now()
	rsig, sok := p.Sign(genMsg2, nil, rsk, nil)
	tModelSign = time.Since(t1)
	if !sok {
		refFatal("%s: model Sign failed", p.Name)
	}
	full := append(bytes.Clone(prefix), rsig...)
	if !agree(x, p, "a model-made signature under the generated key", p.Verify(genMsg2, rsig, nil, rpk), true, paths, genMsg2, full) {
		return
	}
	bad := bytes.Clone(full)
	bad[len(bad)-1-(si*5+ri)%n] ^= 0x40
	if !agree(x, p, "a model-made signature under the generated key, one bit altered", p.Verify(genMsg2, bad[len(prefix):], nil, rpk), false, paths, genMsg2, bad) {
		return
	}
	agree(x, p, "a model-made signature for another message", p.Verify(genMsg, rsig, nil, rpk), false, paths, genMsg, full)
}
