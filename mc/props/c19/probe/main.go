package main

import (
	"fmt"
	"time"

	"github.com/tink-crypto/tink-go/v2/key"
	"verif/props/keycat"
	"verif/ref"
)

func main() {
	for _, f := range keycat.Families() {
		if f.Enum == nil {
			fmt.Println(f.Name, "no enum")
			continue
		}
		t0 := time.Now()
		valid, keys, nokeys := 0, 0, 0
		f.Enum(false, keycat.Whole(), func(desc string, declared bool, v ref.KSVariant, p key.Parameters, err error) {
			if err != nil || !declared {
				return
			}
			valid++
			ks, err := f.Keys(p, v, 0x01020304, false)
			if err != nil || len(ks) == 0 {
				nokeys++
				return
			}
			keys += len(ks)
		})
		fmt.Printf("%-24s valid=%d keys=%d nokeys=%d %.1fs\n", f.Name, valid, keys, nokeys, time.Since(t0).Seconds())
	}
}
