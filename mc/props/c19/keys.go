package main

import (
	"bytes"
	"fmt"
	"strings"

	"google.golang.org/protobuf/proto"

	"github.com/tink-crypto/tink-go/v2/hybrid/ecies"
	"github.com/tink-crypto/tink-go/v2/hybrid/hpke"
	"github.com/tink-crypto/tink-go/v2/insecuresecretdataaccess"
	"github.com/tink-crypto/tink-go/v2/jwt/jwtecdsa"
	"github.com/tink-crypto/tink-go/v2/jwt/jwtmldsa"
	"github.com/tink-crypto/tink-go/v2/jwt/jwtrsassapkcs1"
	"github.com/tink-crypto/tink-go/v2/jwt/jwtrsassapss"
	"github.com/tink-crypto/tink-go/v2/key"
	"github.com/tink-crypto/tink-go/v2/mac/hmac"
	"github.com/tink-crypto/tink-go/v2/prf/hkdfprf"
	tinkpb "github.com/tink-crypto/tink-go/v2/proto/tink_go_proto"
	"github.com/tink-crypto/tink-go/v2/secretdata"
	"github.com/tink-crypto/tink-go/v2/signature/ecdsa"
	"github.com/tink-crypto/tink-go/v2/signature/ed25519"
	"github.com/tink-crypto/tink-go/v2/signature/mldsa"
	"github.com/tink-crypto/tink-go/v2/signature/rsassapkcs1"
	"github.com/tink-crypto/tink-go/v2/signature/rsassapss"
	"github.com/tink-crypto/tink-go/v2/signature/slhdsa"
	"github.com/tink-crypto/tink-go/v2/verifbridge/vb"
	"verif/h"
	"verif/ref"
)

// ctorCase is one typed constructor taking []byte arguments, instantiated from a template object.
type ctorCase struct {
	name     string
	args     [][]byte
	build    func(a [][]byte) (any, error)
	optional bool // an alternative encoding of the argument the constructor may refuse
}

func idOf(k key.Key) uint32 { id, _ := k.IDRequirement(); return id }

// ctorsFor lists the byte-taking constructors able to rebuild k (a key or one of the objects reachable
// from it).
func ctorsFor(k any) []ctorCase {
	base := ctorsFor0(k)
	out := base
	// big-integer arguments also arrive with leading zero bytes (ASN.1 sign byte, fixed-width padding): a constructor
	// that normalises them must not keep a sub-slice of the caller's buffer
	for _, c := range base {
		if !strings.Contains(strings.ToLower(c.name), "modulus") {
			continue
		}
		for _, z := range []int{1, 4} {
			c2 := c
			c2.name = fmt.Sprintf("%s with %d leading zero byte(s)", c.name, z)
			c2.args = [][]byte{append(make([]byte, z), c.args[0]...)}
			c2.optional = true
			out = append(out, c2)
		}
	}
	return out
}

func ctorsFor0(k any) []ctorCase {
	one := func(name string, arg []byte, f func(b []byte) (any, error)) []ctorCase {
		return []ctorCase{{name: name, args: [][]byte{clone(arg)}, build: func(a [][]byte) (any, error) { return f(a[0]) }}}
	}
	switch v := k.(type) {
	case *ecdsa.PublicKey:
		return one("ecdsa.NewPublicKey(publicPoint)", v.PublicPoint(), func(b []byte) (any, error) {
			return ecdsa.NewPublicKey(b, idOf(v), v.Parameters().(*ecdsa.Parameters))
		})
	case *ed25519.PublicKey:
		return one("ed25519.NewPublicKey(keyBytes)", v.KeyBytes(), func(b []byte) (any, error) {
			return ed25519.NewPublicKey(b, idOf(v), *v.Parameters().(*ed25519.Parameters))
		})
	case *mldsa.PublicKey:
		return one("mldsa.NewPublicKey(keyBytes)", v.KeyBytes(), func(b []byte) (any, error) {
			return mldsa.NewPublicKey(b, idOf(v), v.Parameters().(*mldsa.Parameters))
		})
	case *slhdsa.PublicKey:
		return one("slhdsa.NewPublicKey(keyBytes)", v.KeyBytes(), func(b []byte) (any, error) {
			return slhdsa.NewPublicKey(b, idOf(v), v.Parameters().(*slhdsa.Parameters))
		})
	case *rsassapkcs1.PublicKey:
		return one("rsassapkcs1.NewPublicKey(modulus)", v.Modulus(), func(b []byte) (any, error) {
			return rsassapkcs1.NewPublicKey(b, idOf(v), v.Parameters().(*rsassapkcs1.Parameters))
		})
	case *rsassapss.PublicKey:
		return one("rsassapss.NewPublicKey(modulus)", v.Modulus(), func(b []byte) (any, error) {
			return rsassapss.NewPublicKey(b, idOf(v), v.Parameters().(*rsassapss.Parameters))
		})
	case *ecies.PublicKey:
		ps := v.Parameters().(*ecies.Parameters)
		out := one("ecies.NewPublicKey(publicKeyBytes)", v.PublicKeyBytes(), func(b []byte) (any, error) {
			return ecies.NewPublicKey(b, idOf(v), ps)
		})
		for _, n := range ref.GuardLens {
			out = append(out, one("ecies.NewParameters(Salt)", ref.GuardText(8, n), func(b []byte) (any, error) {
				return ecies.NewParameters(ecies.ParametersOpts{CurveType: ps.CurveType(), HashType: ps.HashType(), NISTCurvePointFormat: ps.NISTCurvePointFormat(),
					DEMParameters: ps.DEMParameters(), Salt: b, Variant: ps.Variant()})
			})...)
		}
		return out
	case *hpke.PublicKey:
		return one("hpke.NewPublicKey(publicKeyBytes)", v.PublicKeyBytes(), func(b []byte) (any, error) {
			return hpke.NewPublicKey(b, idOf(v), v.Parameters().(*hpke.Parameters))
		})
	case *jwtecdsa.PublicKey:
		ps := v.Parameters().(*jwtecdsa.Parameters)
		kid, _ := v.KID()
		custom := ps.KIDStrategy() == jwtecdsa.CustomKID
		return one("jwtecdsa.NewPublicKey(PublicPoint)", v.PublicPoint(), func(b []byte) (any, error) {
			o := jwtecdsa.PublicKeyOpts{PublicPoint: b, IDRequirement: idOf(v), Parameters: ps, HasCustomKID: custom}
			if custom {
				o.CustomKID = kid
			}
			return jwtecdsa.NewPublicKey(o)
		})
	case *jwtmldsa.PublicKey:
		ps := v.Parameters().(*jwtmldsa.Parameters)
		kid, _ := v.KID()
		custom := ps.KIDStrategy() == jwtmldsa.CustomKID
		return one("jwtmldsa.NewPublicKey(KeyBytes)", v.KeyBytes(), func(b []byte) (any, error) {
			o := jwtmldsa.PublicKeyOpts{KeyBytes: b, IDRequirement: idOf(v), Parameters: ps, HasCustomKID: custom}
			if custom {
				o.CustomKID = kid
			}
			return jwtmldsa.NewPublicKey(o)
		})
	case *jwtrsassapkcs1.PublicKey:
		ps := v.Parameters().(*jwtrsassapkcs1.Parameters)
		kid, _ := v.KID()
		custom := ps.KIDStrategy() == jwtrsassapkcs1.CustomKID
		return one("jwtrsassapkcs1.NewPublicKey(Modulus)", v.Modulus(), func(b []byte) (any, error) {
			o := jwtrsassapkcs1.PublicKeyOpts{Modulus: b, IDRequirement: idOf(v), Parameters: ps, HasCustomKID: custom}
			if custom {
				o.CustomKID = kid
			}
			return jwtrsassapkcs1.NewPublicKey(o)
		})
	case *jwtrsassapss.PublicKey:
		ps := v.Parameters().(*jwtrsassapss.Parameters)
		kid, _ := v.KID()
		custom := ps.KIDStrategy() == jwtrsassapss.CustomKID
		return one("jwtrsassapss.NewPublicKey(Modulus)", v.Modulus(), func(b []byte) (any, error) {
			o := jwtrsassapss.PublicKeyOpts{Modulus: b, IDRequirement: idOf(v), Parameters: ps, HasCustomKID: custom}
			if custom {
				o.CustomKID = kid
			}
			return jwtrsassapss.NewPublicKey(o)
		})
	case *hkdfprf.Key:
		ps := v.Parameters().(*hkdfprf.Parameters)
		var out []ctorCase
		for _, n := range ref.GuardLens {
			out = append(out, one("hkdfprf.NewParameters(salt)", ref.GuardText(8, n), func(b []byte) (any, error) {
				return hkdfprf.NewParameters(ps.KeySizeInBytes(), ps.HashType(), b)
			})...)
		}
		// secretdata chained into a key constructor
		out = append(out, one("hkdfprf.NewKey(secretdata.NewBytesFromData(data))", v.KeyBytes().Data(insecuresecretdataaccess.Token{}), func(b []byte) (any, error) {
			return hkdfprf.NewKey(secretdata.NewBytesFromData(b, insecuresecretdataaccess.Token{}), ps)
		})...)
		return out
	case *hmac.Key:
		return one("hmac.NewKey(secretdata.NewBytesFromData(data))", v.KeyBytes().Data(insecuresecretdataaccess.Token{}), func(b []byte) (any, error) {
			return hmac.NewKey(secretdata.NewBytesFromData(b, insecuresecretdataaccess.Token{}), v.Parameters().(*hmac.Parameters), idOf(v))
		})
	}
	return nil
}

func equalObj(a, b any) bool {
	switch x := a.(type) {
	case key.Key:
		y, ok := b.(key.Key)
		return ok && x.Equal(y) && y.Equal(x)
	case key.Parameters:
		y, ok := b.(key.Parameters)
		return ok && x.Equal(y) && y.Equal(x)
	}
	return false
}

// sameLeaves compares the bytes every accessor of a yields with those of b.
func sameLeaves(a, b any) string {
	la, lb := accessors(a), accessors(b)
	if len(la) != len(lb) {
		return "accessor sets differ"
	}
	for i := range la {
		if la[i].name != lb[i].name || !bytes.Equal(la[i].get(), lb[i].get()) {
			return la[i].name + " differs from the twin's"
		}
	}
	return ""
}

func retLeaves(t *tracker, obj any) {
	for round := 0; round < 2; round++ {
		for _, lf := range accessors(obj) {
			t.ret(lf.name, lf.get())
		}
	}
}

// ctorCases runs the typed constructors for object k.
func ctorCases(x *h.X, desc string, k any) {
	for _, c := range ctorsFor(k) {
		for _, l := range ref.GuardLayouts(len(c.args)) {
			t := newTracker(x, fmt.Sprintf("%s: %s len=%d %v", desc, c.name, len(c.args[0]), l))
			gs := t.place(l, c.args...)
			obj, err := c.build(gs.Args)
			t.guards(c.name, gs)
			if err != nil && c.optional {
				x.Outcome("ctor-variant-refused")
				t.drop(gs)
				break
			}
			if err != nil {
				x.Fail("construct", "%s: %v", t.what, err)
				break
			}
			cl := make([][]byte, len(c.args))
			for i := range cl {
				cl[i] = clone(c.args[i])
			}
			twin, err := c.build(cl)
			if err != nil {
				x.Fail("construct", "%s: twin: %v", t.what, err)
				break
			}
			x.NonTrivial()
			x.Outcome("ctor:" + c.name)
			if !equalObj(obj, twin) || sameLeaves(obj, twin) != "" {
				x.Fail("wrong-result:"+c.name, "%s: object differs from its twin right after construction (%s)", t.what, sameLeaves(obj, twin))
				break
			}
			// the caller reuses the argument buffer
			gs.Flip()
			x.Eval(1)
			if d := sameLeaves(obj, twin); !equalObj(obj, twin) || d != "" {
				x.Fail("ctor-retains-arg:"+c.name, "%s: object changed when the argument buffer was overwritten after the constructor returned (%s)", t.what, d)
				gs.Flip() // restore so that the remaining checks see the intended object
				t.drop(gs)
			}
			retLeaves(t, obj)
			if ko, ok := obj.(key.Key); ok {
				if kd, _, _, _, err := vb.SerializeKey(ko); err == nil {
					t.retProto("SerializeKey", kd)
				}
			}
			t.flipAll()
			x.Eval(1)
			if d := sameLeaves(obj, twin); !equalObj(obj, twin) || d != "" {
				x.Fail("object-changed:"+c.name, "%s: object changed when the values returned by its accessors were overwritten (%s)", t.what, d)
			}
		}
	}
}

// parseSerializeCase: vb.ParseKey from a guarded KeyData.Value, accessors, vb.SerializeKey, parameters
// serialization, twin differential.
func parseSerializeCase(x *h.X, src *source, pk *protoKey, desc string) key.Key {
	var template key.Key
	op := "ParseKey"
	if src.legacy {
		op += "[fallback-key]"
	}
	for _, spare := range ref.GuardSpares {
		t := newTracker(x, fmt.Sprintf("%s: vb.ParseKey spare=%d", desc, spare))
		c := pk.clone()
		twin, err := vb.ParseKey(c.kd, c.pt, c.id)
		if err != nil {
			x.Fail("construct", "%s: twin: %v", t.what, err)
			return nil
		}
		template = twin
		wantKD, wantPT, wantID, _, err := vb.SerializeKey(twin)
		if err != nil {
			x.Fail("construct", "%s: twin SerializeKey: %v", t.what, err)
			return nil
		}
		wantKD = proto.Clone(wantKD).(*tinkpb.KeyData)
		gs := t.place(ref.GuardLayout{Spare: spare}, pk.kd.Value)
		kd := &tinkpb.KeyData{TypeUrl: pk.kd.TypeUrl, Value: gs.Args[0], KeyMaterialType: pk.kd.KeyMaterialType}
		k, err := vb.ParseKey(kd, pk.pt, pk.id)
		t.guards(op, gs)
		if err != nil {
			x.Fail("construct", "%s: %v", t.what, err)
			return nil
		}
		x.NonTrivial()
		if !equalObj(k, twin) {
			x.Fail("wrong-result:"+op, "%s: parsed key not Equal to its twin", t.what)
			return nil
		}
		retLeaves(t, k)
		for round := 0; round < 2; round++ {
			if skd, _, _, _, err := vb.SerializeKey(k); err == nil {
				t.retProto("SerializeKey", skd)
			} else {
				x.Fail("op-error:SerializeKey", "%s: %v", t.what, err)
			}
			if tmpl, err := vb.SerializeParameters(k.Parameters()); err == nil {
				t.retProto("SerializeParameters", tmpl)
				// ParseParameters from a guarded template value
				gp := t.place(ref.GuardLayout{Spare: spare}, tmpl.Value)
				ps, err := vb.ParseParameters(&tinkpb.KeyTemplate{TypeUrl: tmpl.TypeUrl, Value: gp.Args[0], OutputPrefixType: tmpl.OutputPrefixType})
				t.guards("ParseParameters", gp)
				if err == nil {
					retLeaves(t, ps)
					gp.Flip()
					if ps2, err := vb.ParseParameters(proto.Clone(tmpl).(*tinkpb.KeyTemplate)); err != nil || !ps.Equal(ps2) {
						x.Fail("object-changed:ParseParameters", "%s: parameters parsed from a template changed when the template buffer was overwritten", t.what)
					}
					gp.Flip()
				}
			}
		}
		t.flipAll()
		scribble(kd)
		x.Eval(3)
		if !equalObj(k, twin) {
			x.Fail("key-changed:"+op, "%s: key no longer Equal to its twin after the input KeyData and every returned value were overwritten", t.what)
			continue
		}
		if d := sameLeaves(k, twin); d != "" {
			x.Fail("key-changed:"+op, "%s: %s after the overwrite", t.what, d)
		}
		gotKD, gotPT, gotID, _, err := vb.SerializeKey(k)
		if err != nil || !proto.Equal(gotKD, wantKD) || gotPT != wantPT || gotID != wantID {
			x.Fail("key-changed:"+op, "%s: SerializeKey after the overwrite differs from the twin's (%v)", t.what, err)
		}
		x.Count("returned-slices", t.nret)
	}
	return template
}

// reachable lists k and the tink objects reachable from it through nullary accessors (public key,
// nested keys), for the typed-constructor catalogue.
func reachable(k key.Key) []any {
	out := []any{k}
	type pubber interface{ PublicKey() (key.Key, error) }
	if p, ok := k.(pubber); ok {
		if pub, err := p.PublicKey(); err == nil {
			out = append(out, pub)
		}
	}
	type prfer interface{ PRFKey() key.Key }
	if p, ok := k.(prfer); ok {
		out = append(out, p.PRFKey())
	}
	type classical interface{ ClassicalPublicKey() key.Key }
	if p, ok := k.(classical); ok {
		out = append(out, p.ClassicalPublicKey())
	}
	type mld interface{ MLDSAPublicKey() *mldsa.PublicKey }
	if p, ok := k.(mld); ok {
		out = append(out, p.MLDSAPublicKey())
	}
	return out
}

func keysSection(x *h.X) {
	src, rep := pickSource(x)
	id := h.Pick(x, "id", ids(x))
	priv, pub, desc, err := src.get(rep, id)
	if err != nil {
		x.Fail("construct", "%s rep %d: %v", src.name, rep, err)
		return
	}
	keyLevelCases(x, src, priv, pub, desc)
}

// keyLevelCases: parse / serialize and every byte-taking constructor of the objects reachable from the key(s).
func keyLevelCases(x *h.X, src *source, priv, pub *protoKey, desc string) {
	seen := map[string]bool{}
	for i, pk := range []*protoKey{priv, pub} {
		if pk == nil {
			continue
		}
		d := desc
		if i == 1 {
			d += " (public)"
		}
		k := parseSerializeCase(x, src, pk, d)
		if k == nil {
			continue
		}
		for _, o := range reachable(k) {
			tn := fmt.Sprintf("%T", o)
			if seen[tn] {
				continue
			}
			seen[tn] = true
			ctorCases(x, d, o)
		}
	}
}

// secretdataSection: secretdata.NewBytesFromData / Data over all lengths and layouts.
func secretdataSection(x *h.X) {
	n := h.Pick(x, "len", append([]int{32, 64}, ref.GuardLens...))
	spare := h.Pick(x, "spare", ref.GuardSpares)
	tok := insecuresecretdataaccess.Token{}
	t := newTracker(x, fmt.Sprintf("secretdata len=%d spare=%d", n, spare))
	data := ref.GuardText(10, n)
	gs := t.place(ref.GuardLayout{Spare: spare}, data)
	sb := secretdata.NewBytesFromData(gs.Args[0], tok)
	t.guards("secretdata.NewBytesFromData", gs)
	twin := secretdata.NewBytesFromData(clone(data), tok)
	x.NonTrivial()
	x.Outcome("secretdata")
	d1 := sb.Data(tok)
	t.ret("secretdata.Bytes.Data", d1)
	d2 := sb.Data(tok)
	t.ret("secretdata.Bytes.Data", d2)
	if !bytes.Equal(d1, data) || sb.Len() != n {
		x.Fail("wrong-result:secretdata.Bytes.Data", "%s: Data() = %x", t.what, d1)
	}
	gs.Flip()
	x.Eval(2)
	if !sb.Equal(twin) || !bytes.Equal(sb.Data(tok), data) {
		x.Fail("ctor-retains-arg:secretdata.NewBytesFromData(data)", "%s: Bytes changed when the argument buffer was overwritten", t.what)
		gs.Flip()
		t.drop(gs)
	}
	t.flipAll()
	if !sb.Equal(twin) || !bytes.Equal(sb.Data(tok), data) {
		x.Fail("object-changed:secretdata.Bytes.Data", "%s: Bytes changed when the slices returned by Data() were overwritten", t.what)
	}
}
