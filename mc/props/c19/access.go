package main

import (
	"reflect"
	"strings"

	"github.com/tink-crypto/tink-go/v2/insecuresecretdataaccess"
	"github.com/tink-crypto/tink-go/v2/secretdata"
)

// leaf is one accessor path of a key / parameters object that yields bytes.
type leaf struct {
	name string // "<receiver type>.<Method>" of the method that yields the bytes (stable finding-key part)
	get  func() []byte
}

var (
	bytesT  = reflect.TypeOf([]byte(nil))
	secretT = reflect.TypeOf(secretdata.Bytes{})
	errorT  = reflect.TypeOf((*error)(nil)).Elem()
)

const tinkPath = "github.com/tink-crypto/tink-go/v2/"

func isTinkType(t reflect.Type) bool {
	for t.Kind() == reflect.Pointer {
		t = t.Elem()
	}
	return strings.HasPrefix(t.PkgPath(), tinkPath)
}

// accessors walks the exported nullary methods of root (a key.Key or key.Parameters) and of every
// tink object they return (Parameters(), PublicKey(), nested keys, DEM parameters ...) and collects
// every method returning []byte or secretdata.Bytes.
func accessors(root any) []leaf {
	var out []leaf
	seen := map[any]bool{}
	walkObj(reflect.ValueOf(root), 0, seen, &out)
	return out
}

func walkObj(v reflect.Value, depth int, seen map[any]bool, out *[]leaf) {
	for v.Kind() == reflect.Interface {
		if v.IsNil() {
			return
		}
		v = v.Elem()
	}
	if !v.IsValid() || depth > 5 {
		return
	}
	if v.Kind() == reflect.Pointer {
		if v.IsNil() {
			return
		}
		if seen[v.Interface()] {
			return
		}
		seen[v.Interface()] = true
	}
	t := v.Type()
	if !isTinkType(t) {
		return
	}
	for i := 0; i < t.NumMethod(); i++ {
		m := t.Method(i)
		ft := m.Func.Type()
		if ft.NumIn() != 1 || ft.NumOut() < 1 || ft.NumOut() > 2 || ft.IsVariadic() {
			continue
		}
		if ft.NumOut() == 2 && ft.Out(1) != errorT {
			// (uint32, bool) style accessors carry no bytes
			continue
		}
		if m.Name == "String" || m.Name == "GoString" || m.Name == "Error" {
			continue
		}
		ot := ft.Out(0)
		recv, idx := v, i
		call := func() (reflect.Value, bool) {
			r := recv.Method(idx).Call(nil)
			if len(r) == 2 && !r[1].IsNil() {
				return reflect.Value{}, false
			}
			return r[0], true
		}
		name := t.String() + "." + m.Name
		switch {
		case ot == bytesT:
			*out = append(*out, leaf{name, func() []byte {
				r, ok := call()
				if !ok {
					return nil
				}
				return r.Bytes()
			}})
		case ot == secretT:
			*out = append(*out, leaf{name + ".Data", func() []byte {
				r, ok := call()
				if !ok {
					return nil
				}
				return r.Interface().(secretdata.Bytes).Data(insecuresecretdataaccess.Token{})
			}})
		case ot.Kind() == reflect.Interface || ot.Kind() == reflect.Pointer || ot.Kind() == reflect.Struct:
			if ot.Kind() != reflect.Interface && !isTinkType(ot) {
				continue
			}
			if r, ok := call(); ok {
				if r.Kind() == reflect.Struct {
					// value-typed objects: methods may have pointer receivers
					p := reflect.New(r.Type())
					p.Elem().Set(r)
					r = p
				}
				walkObj(r, depth+1, seen, out)
			}
		}
	}
}
