package main

import (
	"bytes"
	"crypto/ecdh"
	"crypto/elliptic"
	"fmt"

	aeadsubtle "github.com/tink-crypto/tink-go/v2/aead/subtle"
	daeadsubtle "github.com/tink-crypto/tink-go/v2/daead/subtle"
	hybridsubtle "github.com/tink-crypto/tink-go/v2/hybrid/subtle"
	kwpsubtle "github.com/tink-crypto/tink-go/v2/kwp/subtle"
	macsubtle "github.com/tink-crypto/tink-go/v2/mac/subtle"
	"github.com/tink-crypto/tink-go/v2/prf"
	prfsubtle "github.com/tink-crypto/tink-go/v2/prf/subtle"
	sigsubtle "github.com/tink-crypto/tink-go/v2/signature/subtle"
	streamsubtle "github.com/tink-crypto/tink-go/v2/streamingaead/subtle"
	tinksubtle "github.com/tink-crypto/tink-go/v2/subtle"
	"verif/h"
	"verif/props/keycat"
	"verif/ref"
)

// subtleEntry is one `subtle` constructor taking key bytes. build returns the primitive bundle driven
// by the class driver; custom (optional) drives methods that fit no primitive interface.
type subtleEntry struct {
	name    string
	keyArgs func() [][]byte
	build   func(a [][]byte) (*prims, any, error)
	custom  func(d *driver, obj, twin any)
}

func kb(tag string, n int) []byte { return ref.KeyBytes("c19-subtle-"+tag, n) }

func prfSet(p prf.PRF) *prf.Set { return &prf.Set{PrimaryID: 1, PRFs: map[uint32]prf.PRF{1: p}} }

type demHelper struct{}

func (demHelper) GetSymmetricKeySize() uint32 { return 16 }
func (demHelper) GetAEADOrDAEAD(k []byte) (any, error) {
	return aeadsubtle.NewAESGCM(bytes.Clone(k))
}

func p256Pair() (d, x, y []byte) {
	s := kb("p256", 32)
	s[0] &= 0x7f
	k, err := ecdh.P256().NewPrivateKey(s)
	if err != nil {
		panic(err)
	}
	pub := k.PublicKey().Bytes()
	return s, pub[1:33], pub[33:65]
}

func one(b []byte) func() [][]byte { return func() [][]byte { return [][]byte{b} } }

var subtleEntries = []subtleEntry{
	{name: "aead/subtle.NewAESGCM", keyArgs: one(kb("gcm", 32)), build: func(a [][]byte) (*prims, any, error) {
		p, err := aeadsubtle.NewAESGCM(a[0])
		return &prims{class: keycat.ClassAEAD, aead: p}, nil, err
	}},
	{name: "aead/subtle.NewAESGCMSIV", keyArgs: one(kb("gcmsiv", 32)), build: func(a [][]byte) (*prims, any, error) {
		p, err := aeadsubtle.NewAESGCMSIV(a[0])
		return &prims{class: keycat.ClassAEAD, aead: p}, nil, err
	}},
	{name: "aead/subtle.NewChaCha20Poly1305", keyArgs: one(kb("chacha", 32)), build: func(a [][]byte) (*prims, any, error) {
		p, err := aeadsubtle.NewChaCha20Poly1305(a[0])
		return &prims{class: keycat.ClassAEAD, aead: p}, nil, err
	}},
	{name: "aead/subtle.NewXChaCha20Poly1305", keyArgs: one(kb("xchacha", 32)), build: func(a [][]byte) (*prims, any, error) {
		p, err := aeadsubtle.NewXChaCha20Poly1305(a[0])
		return &prims{class: keycat.ClassAEAD, aead: p}, nil, err
	}},
	{name: "aead/subtle.NewEncryptThenAuthenticate(NewAESCTR,NewHMAC)", keyArgs: func() [][]byte { return [][]byte{kb("eta-ctr", 16), kb("eta-mac", 32)} },
		build: func(a [][]byte) (*prims, any, error) {
			c, err := aeadsubtle.NewAESCTR(a[0], 16)
			if err != nil {
				return nil, nil, err
			}
			m, err := macsubtle.NewHMAC("SHA256", a[1], 16)
			if err != nil {
				return nil, nil, err
			}
			p, err := aeadsubtle.NewEncryptThenAuthenticate(c, m, 16)
			return &prims{class: keycat.ClassAEAD, aead: p}, nil, err
		}},
	{name: "aead/subtle.NewAESCTR", keyArgs: one(kb("ctr", 16)), build: func(a [][]byte) (*prims, any, error) {
		p, err := aeadsubtle.NewAESCTR(a[0], 16)
		return &prims{class: keycat.ClassNone}, p, err
	}, custom: func(d *driver, obj, twin any) {
		c, tw := obj.(*aeadsubtle.AESCTR), twin.(*aeadsubtle.AESCTR)
		for _, l := range d.layouts(1) {
			for _, n := range d.lens {
				pt := ref.GuardText(1, n)
				ct, err := d.call("aead/subtle.AESCTR.Encrypt", l, func(a [][]byte) ([]byte, error) { return c.Encrypt(a[0]) }, pt)
				if err != nil {
					d.fail("op-error", "aead/subtle.AESCTR.Encrypt", "%v", err)
					continue
				}
				got, err := tw.Decrypt(clone(ct))
				d.expect("aead/subtle.AESCTR.Encrypt/twin-decrypts", got, err, pt)
				got, err = d.call("aead/subtle.AESCTR.Decrypt", l, func(a [][]byte) ([]byte, error) { return c.Decrypt(a[0]) }, ct)
				d.expect("aead/subtle.AESCTR.Decrypt", got, err, pt)
			}
		}
	}},
	{name: "daead/subtle.NewAESSIV", keyArgs: one(kb("siv", 64)), build: func(a [][]byte) (*prims, any, error) {
		p, err := daeadsubtle.NewAESSIV(a[0])
		return &prims{class: keycat.ClassDAEAD, daead: p}, nil, err
	}},
	{name: "mac/subtle.NewHMAC", keyArgs: one(kb("hmac", 32)), build: func(a [][]byte) (*prims, any, error) {
		p, err := macsubtle.NewHMAC("SHA256", a[0], 16)
		return &prims{class: keycat.ClassMAC, mac: p}, nil, err
	}},
	{name: "mac/subtle.NewAESCMAC", keyArgs: one(kb("cmac", 32)), build: func(a [][]byte) (*prims, any, error) {
		p, err := macsubtle.NewAESCMAC(a[0], 16)
		return &prims{class: keycat.ClassMAC, mac: p}, nil, err
	}},
	{name: "prf/subtle.NewHKDFPRF(key,salt)", keyArgs: func() [][]byte { return [][]byte{kb("hkdfprf", 32), kb("hkdfprf-salt", 16)} }, build: func(a [][]byte) (*prims, any, error) {
		p, err := prfsubtle.NewHKDFPRF("SHA256", a[0], a[1])
		return &prims{class: keycat.ClassPRF, prf: prfSet(p)}, nil, err
	}},
	{name: "prf/subtle.NewHMACPRF", keyArgs: one(kb("hmacprf", 32)), build: func(a [][]byte) (*prims, any, error) {
		p, err := prfsubtle.NewHMACPRF("SHA256", a[0])
		return &prims{class: keycat.ClassPRF, prf: prfSet(p)}, nil, err
	}},
	{name: "prf/subtle.NewAESCMACPRF", keyArgs: one(kb("cmacprf", 32)), build: func(a [][]byte) (*prims, any, error) {
		p, err := prfsubtle.NewAESCMACPRF(a[0])
		return &prims{class: keycat.ClassPRF, prf: prfSet(p)}, nil, err
	}},
	{name: "signature/subtle.NewECDSASigner+NewECDSAVerifier", keyArgs: func() [][]byte { d, x, y := p256Pair(); return [][]byte{x, y, d} },
		build: func(a [][]byte) (*prims, any, error) {
			v, err := sigsubtle.NewECDSAVerifier("SHA256", "NIST_P256", "DER", a[0], a[1])
			if err != nil {
				return nil, nil, err
			}
			s, err := sigsubtle.NewECDSASigner("SHA256", "NIST_P256", "DER", a[2])
			return &prims{class: keycat.ClassSign, sign: s, verify: v}, nil, err
		}},
	{name: "signature/subtle.NewED25519Signer+NewED25519Verifier", keyArgs: func() [][]byte { s := kb("ed25519", 32); return [][]byte{s, ed25519Public(s)} },
		build: func(a [][]byte) (*prims, any, error) {
			s, err := sigsubtle.NewED25519Signer(a[0])
			if err != nil {
				return nil, nil, err
			}
			v, err := sigsubtle.NewED25519Verifier(a[1])
			return &prims{class: keycat.ClassSign, sign: s, verify: v}, nil, err
		}},
	{name: "streamingaead/subtle.NewAESGCMHKDF", keyArgs: one(kb("sgcm", 32)), build: func(a [][]byte) (*prims, any, error) {
		p, err := streamsubtle.NewAESGCMHKDF(a[0], "SHA256", 16, 64, 0)
		return &prims{class: keycat.ClassStreaming, saead: p}, nil, err
	}},
	{name: "streamingaead/subtle.NewAESCTRHMAC", keyArgs: one(kb("sctr", 32)), build: func(a [][]byte) (*prims, any, error) {
		p, err := streamsubtle.NewAESCTRHMAC(a[0], "SHA256", 16, "SHA256", 16, 64, 0)
		return &prims{class: keycat.ClassStreaming, saead: p}, nil, err
	}},
	{name: "hybrid/subtle.NewECIESAEADHKDFHybridEncrypt+Decrypt(hkdfSalt)", keyArgs: func() [][]byte { d, _, _ := p256Pair(); return [][]byte{kb("ecies-salt", 16), d} },
		build: func(a [][]byte) (*prims, any, error) {
			pvt := hybridsubtle.GetECPrivateKey(elliptic.P256(), a[1])
			e, err := hybridsubtle.NewECIESAEADHKDFHybridEncrypt(&pvt.PublicKey, a[0], "SHA256", "UNCOMPRESSED", demHelper{})
			if err != nil {
				return nil, nil, err
			}
			dd, err := hybridsubtle.NewECIESAEADHKDFHybridDecrypt(pvt, a[0], "SHA256", "UNCOMPRESSED", demHelper{})
			return &prims{class: keycat.ClassHybridDecrypt, henc: e, hdec: dd}, nil, err
		}},
	{name: "kwp/subtle.NewKWP", keyArgs: one(kb("kwp", 32)), build: func(a [][]byte) (*prims, any, error) {
		p, err := kwpsubtle.NewKWP(a[0])
		return &prims{class: keycat.ClassNone}, p, err
	}, custom: func(d *driver, obj, twin any) {
		k, tw := obj.(*kwpsubtle.KWP), twin.(*kwpsubtle.KWP)
		for _, l := range d.layouts(1) {
			for _, n := range []int{16, 17, 33, 64} {
				data := ref.GuardText(1, n)
				w, err := d.call("kwp/subtle.KWP.Wrap", l, func(a [][]byte) ([]byte, error) { return k.Wrap(a[0]) }, data)
				want, _ := tw.Wrap(clone(data))
				if !d.expect("kwp/subtle.KWP.Wrap", w, err, want) {
					continue
				}
				got, err := d.call("kwp/subtle.KWP.Unwrap", l, func(a [][]byte) ([]byte, error) { return k.Unwrap(a[0]) }, w)
				d.expect("kwp/subtle.KWP.Unwrap", got, err, data)
				if _, err := d.call("kwp/subtle.KWP.Unwrap", l, func(a [][]byte) ([]byte, error) { return k.Unwrap(a[0]) }, corrupt(w)); err == nil {
					d.fail("wrong-result", "kwp/subtle.KWP.Unwrap", "corrupted input accepted")
				}
			}
		}
	}},
	{name: "subtle.ComputeHKDF/X25519", keyArgs: func() [][]byte { return nil }, build: func(a [][]byte) (*prims, any, error) {
		return &prims{class: keycat.ClassNone}, struct{}{}, nil
	}, custom: func(d *driver, _, _ any) {
		for _, l := range ref.GuardLayouts(2) {
			if l.Adjacent != d.adj[0] {
				continue
			}
			for _, n0 := range d.lens {
				for _, n1 := range d.lens {
					ikm, salt, info := kb("hkdf-ikm", 32), ref.GuardText(2, n0), ref.GuardText(3, n1)
					got, err := d.call("subtle.ComputeHKDF", l, func(a [][]byte) ([]byte, error) { return tinksubtle.ComputeHKDF("SHA256", a[2], a[0], a[1], 32) }, salt, info, ikm)
					want, _ := tinksubtle.ComputeHKDF("SHA256", clone(ikm), clone(salt), clone(info), 32)
					d.expect("subtle.ComputeHKDF", got, err, want)
				}
			}
			priv, peer := kb("x25519-a", 32), kb("x25519-b", 32)
			pub, err := d.call("subtle.PublicFromPrivateX25519", l, func(a [][]byte) ([]byte, error) { return tinksubtle.PublicFromPrivateX25519(a[0]) }, peer)
			if err != nil {
				d.fail("op-error", "subtle.PublicFromPrivateX25519", "%v", err)
				continue
			}
			got, err := d.call("subtle.ComputeSharedSecretX25519", l, func(a [][]byte) ([]byte, error) { return tinksubtle.ComputeSharedSecretX25519(a[0], a[1]) }, priv, pub)
			want, _ := tinksubtle.ComputeSharedSecretX25519(clone(priv), clone(pub))
			d.expect("subtle.ComputeSharedSecretX25519", got, err, want)
		}
	}},
}

func subtleSection(x *h.X) {
	ei := x.Choose("entry", len(subtleEntries))
	e := subtleEntries[ei]
	x.Label(e.name)
	adj := x.Choose("adjacency", 3)
	args := e.keyArgs()
	cl := make([][]byte, len(args))
	for i := range args {
		cl[i] = clone(args[i])
	}
	twin, twinObj, err := e.build(cl)
	if err != nil {
		x.Fail("construct", "%s: twin: %v", e.name, err)
		return
	}
	layouts := ref.GuardLayouts(len(args))
	if len(args) == 0 {
		layouts = []ref.GuardLayout{{}}
	}
	for li, l := range layouts {
		t := newTracker(x, fmt.Sprintf("%s key layout %v", e.name, l))
		gs := t.place(l, args...)
		p, obj, err := e.build(gs.Args)
		t.guards(e.name, gs)
		if err != nil {
			x.Fail("construct", "%s: %v", t.what, err)
			return
		}
		x.NonTrivial()
		// retention probe (reported, not judged: see the scope rule in the file comment)
		// The probe runs on a SEPARATE instance built for it: using a primitive while its (legitimately retained) key
		// buffer is overwritten may leave lazily derived state behind, which must not leak into the judged instance.
		retained := false
		if len(args) > 0 && p.class != keycat.ClassNone {
			tp := newTracker(x, t.what+" (retention probe)")
			gp := tp.place(l, args...)
			if pp, _, err := e.build(gp.Args); err == nil {
				gp.Flip()
				if err := agree(pp, twin); err != nil {
					retained = true
				}
				gp.Flip()
			}
			tp.drop(gp)
		} else if len(args) > 0 {
			retained = customRetains(e.name, obj, twinObj, gs)
		}
		if len(args) > 0 {
			if retained {
				x.Outcome("subtle-retains-key:" + e.name)
			} else {
				x.Outcome("subtle-copies-key:" + e.name)
			}
		}
		if li != 0 && li != len(layouts)-1 {
			continue
		}
		d := &driver{t: t, p: p, tw: twin, lens: ref.GuardLens, spares: ref.GuardSpares, adj: []int{adj}}
		if x.Thorough() {
			d.lens, d.spares = thoroughLens, thoroughSpares
		}
		if e.custom != nil {
			e.custom(d, obj, twinObj)
		} else {
			d.run()
		}
		if retained {
			t.drop(gs)
		}
		t.flipAll()
		x.Eval(1)
		if p.class != keycat.ClassNone {
			if err := agree(p, twin); err != nil {
				x.Fail("primitive-changed:"+e.name, "%s: primitive disagrees with its twin after every call input and output was overwritten: %v", t.what, err)
			}
		} else if e.custom != nil && len(args) > 0 {
			if customDiffers(e.name, obj, twinObj) {
				x.Fail("primitive-changed:"+e.name, "%s: primitive disagrees with its twin after every call input and output was overwritten", t.what)
			}
		}
		x.Count("returned-slices", t.nret)
		x.Count("guarded-calls", len(t.sets))
	}
}

// customDiffers compares the two non-interface subtle objects on a fixed probe.
func customDiffers(name string, obj, twin any) bool {
	switch a := obj.(type) {
	case *aeadsubtle.AESCTR:
		ct, err := a.Encrypt(clone(probeMsg))
		if err != nil {
			return true
		}
		pt, err := twin.(*aeadsubtle.AESCTR).Decrypt(ct)
		return err != nil || !bytes.Equal(pt, probeMsg)
	case *kwpsubtle.KWP:
		w1, e1 := a.Wrap(clone(probeMsg))
		w2, e2 := twin.(*kwpsubtle.KWP).Wrap(clone(probeMsg))
		return e1 != nil || e2 != nil || !bytes.Equal(w1, w2)
	}
	return false
}

func customRetains(name string, obj, twin any, gs *ref.GuardSet) bool {
	gs.Flip()
	defer gs.Flip()
	return customDiffers(name, obj, twin)
}
