package main

import (
	"bytes"
	"fmt"

	"google.golang.org/protobuf/proto"

	"github.com/tink-crypto/tink-go/v2/aead/aesgcm"
	"github.com/tink-crypto/tink-go/v2/insecurecleartextkeyset"
	"github.com/tink-crypto/tink-go/v2/insecuresecretdataaccess"
	"github.com/tink-crypto/tink-go/v2/key"
	"github.com/tink-crypto/tink-go/v2/keyset"
	tinkpb "github.com/tink-crypto/tink-go/v2/proto/tink_go_proto"
	"github.com/tink-crypto/tink-go/v2/secretdata"
	"github.com/tink-crypto/tink-go/v2/testkeyset"
	"github.com/tink-crypto/tink-go/v2/tink"
	"github.com/tink-crypto/tink-go/v2/verifbridge/vb"
	"verif/h"
	"verif/props/keycat"
	"verif/ref"
)

const managerPath = "Manager.AddKeyWithOpts(ParseKey)+Handle"

const rawKeyID = 0x0a0b0c0d // keyset ID of keys without ID requirement

func (p *protoKey) keysetID() uint32 {
	if p.pt == tinkpb.OutputPrefixType_RAW {
		return rawKeyID
	}
	return p.id
}

// keysetOf builds a one-key keyset proto whose KeyData.Value is the given slice (not copied).
func keysetOf(p *protoKey, value []byte) *tinkpb.Keyset {
	return &tinkpb.Keyset{PrimaryKeyId: p.keysetID(), Key: []*tinkpb.Keyset_Key{{
		KeyData:          &tinkpb.KeyData{TypeUrl: p.kd.TypeUrl, Value: value, KeyMaterialType: p.kd.KeyMaterialType},
		Status:           tinkpb.KeyStatusType_ENABLED,
		KeyId:            p.keysetID(),
		OutputPrefixType: p.pt,
	}}}
}

func masterAEAD() tink.AEAD {
	ps, err := aesgcm.NewParameters(aesgcm.ParametersOpts{KeySizeInBytes: 32, IVSizeInBytes: 12, TagSizeInBytes: 16, Variant: aesgcm.VariantNoPrefix})
	if err != nil {
		panic(err)
	}
	k, err := aesgcm.NewKey(secretdata.NewBytesFromData(ref.KeyBytes("c19-master", 32), insecuresecretdataaccess.Token{}), 0, ps)
	if err != nil {
		panic(err)
	}
	a, err := aesgcm.NewAEAD(k)
	if err != nil {
		panic(err)
	}
	return a
}

// ksEnv is what a keyset-construction path may use.
type ksEnv struct {
	t     *tracker
	spare int
	pk    *protoKey
}

// ksPath is one way of turning the caller's serialized key into a handle. value is the guarded
// KeyData.Value slice; the path may place further guarded inputs through env.t.
type ksPath struct {
	name       string
	publicOnly bool // requires a keyset without secret material
	build      func(e *ksEnv, value []byte) (kh *keyset.Handle, callerProto proto.Message, err error)
}

var ksPaths = []ksPath{
	{name: "testkeyset.NewHandle", build: func(e *ksEnv, v []byte) (*keyset.Handle, proto.Message, error) {
		ks := keysetOf(e.pk, v)
		kh, err := testkeyset.NewHandle(ks)
		return kh, ks, err
	}},
	{name: "insecurecleartextkeyset.Read(MemReaderWriter)", build: func(e *ksEnv, v []byte) (*keyset.Handle, proto.Message, error) {
		ks := keysetOf(e.pk, v)
		kh, err := insecurecleartextkeyset.Read(&keyset.MemReaderWriter{Keyset: ks})
		return kh, ks, err
	}},
	{name: "keyset.NewHandleWithNoSecrets", publicOnly: true, build: func(e *ksEnv, v []byte) (*keyset.Handle, proto.Message, error) {
		ks := keysetOf(e.pk, v)
		kh, err := keyset.NewHandleWithNoSecrets(ks)
		return kh, ks, err
	}},
	{name: "keyset.ReadWithNoSecrets(MemReaderWriter)", publicOnly: true, build: func(e *ksEnv, v []byte) (*keyset.Handle, proto.Message, error) {
		ks := keysetOf(e.pk, v)
		kh, err := keyset.ReadWithNoSecrets(&keyset.MemReaderWriter{Keyset: ks})
		return kh, ks, err
	}},
	{name: "keyset.ReadWithAssociatedData(EncryptedKeyset)", build: func(e *ksEnv, v []byte) (*keyset.Handle, proto.Message, error) {
		// v is consumed here only to produce the encrypted form; the caller inputs are the encrypted bytes and the associated data
		plain, err := proto.Marshal(keysetOf(e.pk, v))
		if err != nil {
			return nil, nil, err
		}
		ad := ref.GuardText(9, 16)
		ct, err := masterAEAD().Encrypt(plain, ad)
		if err != nil {
			return nil, nil, err
		}
		gs := e.t.place(ref.GuardLayout{Spare: e.spare, Adjacent: 1}, ct, ad)
		enc := &tinkpb.EncryptedKeyset{EncryptedKeyset: gs.Args[0]}
		kh, err := keyset.ReadWithAssociatedData(&keyset.MemReaderWriter{EncryptedKeyset: enc}, masterAEAD(), gs.Args[1])
		e.t.guards("keyset.ReadWithAssociatedData", gs)
		return kh, enc, err
	}},
	{name: "insecurecleartextkeyset.Read(BinaryReader)", build: func(e *ksEnv, v []byte) (*keyset.Handle, proto.Message, error) {
		plain, err := proto.Marshal(keysetOf(e.pk, v))
		if err != nil {
			return nil, nil, err
		}
		gs := e.t.place(ref.GuardLayout{Spare: e.spare}, plain)
		kh, err := insecurecleartextkeyset.Read(keyset.NewBinaryReader(bytes.NewReader(gs.Args[0])))
		e.t.guards("insecurecleartextkeyset.Read(BinaryReader)", gs)
		return kh, nil, err
	}},
	{name: "insecurecleartextkeyset.Read(JSONReader)", build: func(e *ksEnv, v []byte) (*keyset.Handle, proto.Message, error) {
		var buf bytes.Buffer
		if err := keyset.NewJSONWriter(&buf).Write(keysetOf(e.pk, v)); err != nil {
			return nil, nil, err
		}
		gs := e.t.place(ref.GuardLayout{Spare: e.spare}, buf.Bytes())
		kh, err := insecurecleartextkeyset.Read(keyset.NewJSONReader(bytes.NewReader(gs.Args[0])))
		e.t.guards("insecurecleartextkeyset.Read(JSONReader)", gs)
		return kh, nil, err
	}},
	{name: managerPath, build: func(e *ksEnv, v []byte) (*keyset.Handle, proto.Message, error) {
		return managerHandle(e.pk, v)
	}},
	{name: "NewManagerFromHandle+Handle", build: func(e *ksEnv, v []byte) (*keyset.Handle, proto.Message, error) {
		ks := keysetOf(e.pk, v)
		h0, err := testkeyset.NewHandle(ks)
		if err != nil {
			return nil, nil, err
		}
		kh, err := keyset.NewManagerFromHandle(h0).Handle()
		return kh, ks, err
	}},
}

func ksPathNames() []string {
	out := make([]string, len(ksPaths))
	for i, p := range ksPaths {
		out[i] = p.name
	}
	return out
}

func hasSecretMaterial(p *protoKey) bool {
	switch p.kd.KeyMaterialType {
	case tinkpb.KeyData_ASYMMETRIC_PUBLIC, tinkpb.KeyData_REMOTE:
		return false
	}
	return true
}

// notInKeysetProto: the prefix type WITH_ID_REQUIREMENT is refused by keyset.Validate (C12 known
// finding keyset-read-error:prefix-WITH_ID_REQUIREMENT): such keys reach a handle through Manager only.
func notInKeysetProto(p *protoKey) bool {
	return p.pt == tinkpb.OutputPrefixType_WITH_ID_REQUIREMENT
}

func managerHandle(p *protoKey, value []byte) (*keyset.Handle, *tinkpb.KeyData, error) {
	kd := &tinkpb.KeyData{TypeUrl: p.kd.TypeUrl, Value: value, KeyMaterialType: p.kd.KeyMaterialType}
	k, err := vb.ParseKey(kd, p.pt, p.id)
	if err != nil {
		return nil, nil, err
	}
	m := keyset.NewManager()
	if _, err := m.AddKeyWithOpts(k, vb.Tok(), keyset.WithFixedID(p.keysetID()), keyset.AsPrimary()); err != nil {
		return nil, nil, err
	}
	kh, err := m.Handle()
	return kh, kd, err
}

func twinHandle(p *protoKey) (*keyset.Handle, error) {
	c := p.clone()
	if notInKeysetProto(c) {
		kh, _, err := managerHandle(c, c.kd.Value)
		return kh, err
	}
	return testkeyset.NewHandle(keysetOf(c, c.kd.Value))
}

// scribble changes every non-bytes field of a caller proto after the call (bytes fields are flipped
// through the tracker).
func scribble(m proto.Message) {
	switch v := m.(type) {
	case *tinkpb.Keyset:
		v.PrimaryKeyId ^= 0x55
		for _, k := range v.Key {
			k.KeyId ^= 0x33
			k.Status = tinkpb.KeyStatusType_DESTROYED
			k.OutputPrefixType = tinkpb.OutputPrefixType_UNKNOWN_PREFIX
			scribble(k.KeyData)
		}
		v.Key = append(v.Key, nil)
	case *tinkpb.KeyData:
		if v != nil {
			v.TypeUrl = "type.googleapis.com/overwritten"
			v.KeyMaterialType = tinkpb.KeyData_UNKNOWN_KEYMATERIAL
		}
	case *tinkpb.EncryptedKeyset:
		v.KeysetInfo = &tinkpb.KeysetInfo{PrimaryKeyId: 7}
	}
}

type handleView struct {
	mat  *tinkpb.Keyset
	info *tinkpb.KeysetInfo
	pub  *tinkpb.Keyset
	keys []key.Key
}

func viewOf(kh *keyset.Handle, withPublic bool) (*handleView, error) {
	v := &handleView{mat: insecurecleartextkeyset.KeysetMaterial(kh), info: kh.KeysetInfo()}
	for i := 0; i < kh.Len(); i++ {
		e, err := kh.Entry(i)
		if err != nil {
			return nil, err
		}
		v.keys = append(v.keys, e.Key())
	}
	if withPublic {
		ph, err := kh.Public()
		if err != nil {
			return nil, err
		}
		v.pub = insecurecleartextkeyset.KeysetMaterial(ph)
	}
	return v, nil
}

// sameAs compares the handle with the twin's pristine view.
func sameAs(kh *keyset.Handle, want *handleView) error {
	got, err := viewOf(kh, want.pub != nil)
	if err != nil {
		return err
	}
	if !proto.Equal(got.mat, want.mat) {
		return fmt.Errorf("KeysetMaterial differs from the twin's")
	}
	if !proto.Equal(got.info, want.info) {
		return fmt.Errorf("KeysetInfo differs from the twin's: %v vs %v", got.info, want.info)
	}
	if want.pub != nil && !proto.Equal(got.pub, want.pub) {
		return fmt.Errorf("material of Public() differs from the twin's")
	}
	if len(got.keys) != len(want.keys) {
		return fmt.Errorf("entry count differs")
	}
	for i := range got.keys {
		if !got.keys[i].Equal(want.keys[i]) || !want.keys[i].Equal(got.keys[i]) {
			return fmt.Errorf("entry %d: key no longer Equal to its twin", i)
		}
	}
	return nil
}

// export calls every operation of a handle that returns bytes and hands the results to the tracker.
func export(t *tracker, kh *keyset.Handle, secret bool, spare int, tag string) {
	for round := 0; round < 2; round++ {
		t.retProto(tag+"KeysetMaterial", insecurecleartextkeyset.KeysetMaterial(kh))
		t.retProto(tag+"KeysetInfo", kh.KeysetInfo())
		for i := 0; i < kh.Len(); i++ {
			e, err := kh.Entry(i)
			if err != nil {
				continue
			}
			for _, lf := range accessors(e.Key()) {
				t.ret(lf.name, lf.get())
			}
			if kd, _, _, _, err := vb.SerializeKey(e.Key()); err == nil {
				t.retProto(tag+"SerializeKey", kd)
			}
		}
		mem := &keyset.MemReaderWriter{}
		if err := insecurecleartextkeyset.Write(kh, mem); err == nil {
			t.retProto(tag+"insecurecleartextkeyset.Write", mem.Keyset)
		}
		gs := t.place(ref.GuardLayout{Spare: spare}, ref.GuardText(9, 16))
		enc := &keyset.MemReaderWriter{}
		if err := kh.WriteWithAssociatedData(enc, masterAEAD(), gs.Args[0]); err == nil {
			t.retProto(tag+"WriteWithAssociatedData", enc.EncryptedKeyset)
		} else {
			t.x.Fail("op-error:WriteWithAssociatedData", "%s: %v", t.what, err)
		}
		t.guards(tag+"WriteWithAssociatedData", gs)
		var buf bytes.Buffer
		if err := insecurecleartextkeyset.Write(kh, keyset.NewBinaryWriter(&buf)); err == nil {
			t.ret(tag+"BinaryWriter", buf.Bytes())
		}
		if !secret {
			pm := &keyset.MemReaderWriter{}
			if err := kh.WriteWithNoSecrets(pm); err == nil {
				t.retProto(tag+"WriteWithNoSecrets", pm.Keyset)
			} else {
				t.x.Fail("op-error:WriteWithNoSecrets", "%s: %v", t.what, err)
			}
		}
	}
}

// handleCase is one execution of the handle section: build a handle from caller memory through one
// path, export everything, overwrite everything, compare with the twin.
func handleCase(x *h.X, src *source, pk *protoKey, twinPriv *protoKey, desc string, path ksPath, spare int) {
	class := src.class
	t := newTracker(x, fmt.Sprintf("%s via %s spare=%d", desc, path.name, spare))
	op := path.name
	if src.legacy {
		op += "[fallback-key]"
	}
	// the twin: always the same path, from pristine copies
	twinH, err := twinHandle(pk)
	if err != nil {
		x.Fail("construct", "%s: twin: %v", t.what, err)
		return
	}
	isPriv := pk.kd.KeyMaterialType == tinkpb.KeyData_ASYMMETRIC_PRIVATE
	want, err := viewOf(twinH, isPriv)
	if err != nil {
		x.Fail("construct", "%s: twin view: %v", t.what, err)
		return
	}
	// twin primitives: from the twin PRIVATE handle (for public-only paths the private side is borrowed from the twin)
	var twinPrims *prims
	if class != keycat.ClassNone {
		tp := twinH
		if twinPriv != nil {
			if tp, err = twinHandle(twinPriv); err != nil {
				x.Fail("construct", "%s: twin private handle: %v", t.what, err)
				return
			}
		}
		if twinPrims, err = buildPrims(class, tp); err != nil {
			x.Fail("construct", "%s: twin primitives: %v", t.what, err)
			return
		}
	}
	build := func(kh *keyset.Handle) (*prims, error) {
		if class == keycat.ClassNone {
			return nil, nil
		}
		if twinPriv == nil {
			return buildPrims(class, kh)
		}
		return publicPrims(class, kh, twinPrims)
	}

	gs := t.place(ref.GuardLayout{Spare: spare}, pk.kd.Value)
	env := &ksEnv{t: t, spare: spare, pk: pk}
	kh, callerProto, err := path.build(env, gs.Args[0])
	t.guards(op, gs)
	if err != nil {
		x.Fail("construct", "%s: %v", t.what, err)
		return
	}
	x.NonTrivial()
	if err := sameAs(kh, want); err != nil {
		x.Fail("wrong-result:"+op, "%s: fresh handle: %v", t.what, err)
		return
	}
	before, err := build(kh)
	if err != nil {
		x.Fail("construct", "%s: primitives: %v", t.what, err)
		return
	}
	export(t, kh, hasSecretMaterial(pk), spare, "Handle.")
	if isPriv {
		if ph, err := kh.Public(); err == nil {
			export(t, ph, false, spare, "Public().")
		}
	}
	// the caller overwrites its inputs and everything it was handed
	t.flipAll()
	if callerProto != nil {
		scribble(callerProto)
	}
	x.Eval(4)
	if err := sameAs(kh, want); err != nil {
		x.Fail("handle-changed:"+op, "%s: after overwriting every input buffer and every returned value: %v", t.what, err)
	}
	if before != nil {
		if err := agree(before, twinPrims); err != nil {
			x.Fail("primitive-changed:"+op, "%s: primitive built BEFORE the overwrite disagrees with the twin: %v", t.what, err)
		}
		after, err := build(kh)
		if err != nil {
			x.Fail("primitive-changed:"+op, "%s: primitive cannot be built AFTER the overwrite: %v", t.what, err)
		} else if err := agree(after, twinPrims); err != nil {
			x.Fail("primitive-changed:"+op, "%s: primitive built AFTER the overwrite disagrees with the twin: %v", t.what, err)
		}
	}
	x.Count("returned-slices", t.nret)
}

// publicPrims builds the public-side primitives from a public handle; the private side is borrowed
// from the twin (so that agree() exercises verifier / encrypter of the handle under test).
func publicPrims(class keycat.Class, pubH *keyset.Handle, twin *prims) (*prims, error) {
	p := &prims{class: class, pubH: pubH}
	var err error
	switch class {
	case keycat.ClassSign:
		p.sign = twin.sign
		p.verify, err = signatureVerifier(pubH)
	case keycat.ClassHybridDecrypt:
		p.hdec = twin.hdec
		p.henc, err = hybridEncrypter(pubH)
	case keycat.ClassJWTSign:
		p.jsign = twin.jsign
		p.jverify, err = jwtVerifier(pubH)
	default:
		return buildPrims(class, pubH)
	}
	return p, err
}
