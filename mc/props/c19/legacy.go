package main

// Custom key managers under made-up type URLs: keys of these types are served by the
// FallbackProtoKey path and their primitives are LEGACY (non-full) primitives, i.e. the factories wrap
// them in full*Adapter. The raw primitives below are written on the Go standard library, only READ
// their inputs and return freshly allocated slices, so every write into / alias of a caller buffer
// observed through them is tink's adapter code.

import (
	"bytes"
	"crypto/aes"
	"crypto/cipher"
	"crypto/ed25519"
	"crypto/hmac"
	"crypto/rand"
	"crypto/sha256"
	"crypto/subtle"
	"errors"
	"fmt"

	"google.golang.org/protobuf/proto"

	"github.com/tink-crypto/tink-go/v2/aead/aesgcm"
	"github.com/tink-crypto/tink-go/v2/core/registry"
	"github.com/tink-crypto/tink-go/v2/insecuresecretdataaccess"
	"github.com/tink-crypto/tink-go/v2/key"
	tinkpb "github.com/tink-crypto/tink-go/v2/proto/tink_go_proto"
	"github.com/tink-crypto/tink-go/v2/secretdata"
)

const customPrefix = "type.googleapis.com/verif.c19."

type rawMAC struct{ k []byte }

func macOf(k []byte, parts ...[]byte) []byte {
	m := hmac.New(sha256.New, k)
	for _, p := range parts {
		var l [4]byte
		l[0], l[1], l[2], l[3] = byte(len(p)>>24), byte(len(p)>>16), byte(len(p)>>8), byte(len(p))
		m.Write(l[:])
		m.Write(p)
	}
	return m.Sum(nil)
}

func (r *rawMAC) ComputeMAC(data []byte) ([]byte, error) { return macOf(r.k, data)[:16], nil }
func (r *rawMAC) VerifyMAC(mac, data []byte) error {
	if subtle.ConstantTimeCompare(mac, macOf(r.k, data)[:16]) != 1 {
		return errors.New("raw mac: invalid")
	}
	return nil
}

type rawPRF struct{ k []byte }

func (r *rawPRF) ComputePRF(input []byte, n uint32) ([]byte, error) {
	if n > 32 {
		return nil, errors.New("raw prf: output too long")
	}
	return macOf(r.k, []byte("prf"), input)[:n], nil
}

type rawAEAD struct{ g cipher.AEAD }

func newRawAEAD(k []byte) (*rawAEAD, error) {
	if len(k) < 16 {
		return nil, errors.New("raw aead: short key")
	}
	b, err := aes.NewCipher(k[:16])
	if err != nil {
		return nil, err
	}
	g, err := cipher.NewGCM(b)
	if err != nil {
		return nil, err
	}
	return &rawAEAD{g}, nil
}

func (r *rawAEAD) Encrypt(pt, ad []byte) ([]byte, error) {
	nonce := make([]byte, 12)
	if _, err := rand.Read(nonce); err != nil {
		return nil, err
	}
	out := make([]byte, 0, 12+len(pt)+16)
	out = append(out, nonce...)
	return r.g.Seal(out, nonce, pt, ad), nil
}

func (r *rawAEAD) Decrypt(ct, ad []byte) ([]byte, error) {
	if len(ct) < 28 {
		return nil, errors.New("raw aead: short ciphertext")
	}
	return r.g.Open(nil, ct[:12], ct[12:], ad)
}

// rawDAEAD: SIV-style toy: tag = HMAC(k, ad, pt)[:16]; body = pt XOR SHA256-counter stream keyed by tag.
type rawDAEAD struct{ k []byte }

func (r *rawDAEAD) stream(tag []byte, n int) []byte {
	out := make([]byte, 0, n+32)
	for c := 0; len(out) < n; c++ {
		out = append(out, macOf(r.k, []byte("stream"), tag, []byte{byte(c >> 8), byte(c)})...)
	}
	return out[:n]
}

func (r *rawDAEAD) EncryptDeterministically(pt, ad []byte) ([]byte, error) {
	tag := macOf(r.k, ad, pt)[:16]
	s := r.stream(tag, len(pt))
	out := make([]byte, 16+len(pt))
	copy(out, tag)
	for i := range pt {
		out[16+i] = pt[i] ^ s[i]
	}
	return out, nil
}

func (r *rawDAEAD) DecryptDeterministically(ct, ad []byte) ([]byte, error) {
	if len(ct) < 16 {
		return nil, errors.New("raw daead: short ciphertext")
	}
	tag := ct[:16]
	s := r.stream(tag, len(ct)-16)
	pt := make([]byte, len(ct)-16)
	for i := range pt {
		pt[i] = ct[16+i] ^ s[i]
	}
	if subtle.ConstantTimeCompare(tag, macOf(r.k, ad, pt)[:16]) != 1 {
		return nil, errors.New("raw daead: invalid")
	}
	return pt, nil
}

type rawSigner struct{ k ed25519.PrivateKey }

func (r *rawSigner) Sign(data []byte) ([]byte, error) { return ed25519.Sign(r.k, data), nil }

type rawVerifier struct{ k ed25519.PublicKey }

func (r *rawVerifier) Verify(sig, data []byte) error {
	if !ed25519.Verify(r.k, data, sig) {
		return errors.New("raw verifier: invalid")
	}
	return nil
}

// toy hybrid scheme (no security intended): "public" value = SHA-256(private value); both sides key a
// rawAEAD with it.
type rawHybridEnc struct{ a *rawAEAD }
type rawHybridDec struct{ a *rawAEAD }

func (r *rawHybridEnc) Encrypt(pt, ctx []byte) ([]byte, error) { return r.a.Encrypt(pt, ctx) }
func (r *rawHybridDec) Decrypt(ct, ctx []byte) ([]byte, error) { return r.a.Decrypt(ct, ctx) }

func toyPublic(priv []byte) []byte { s := sha256.Sum256(priv); return s[:] }

// rawDeriver is a legacy key deriver (keyderivation/internal/keyderiver.KeyDeriver is satisfied
// structurally): it derives a 32-byte AES-GCM key without prefix; the factory's fullPrimitiveWrapper
// re-labels it with the keyset key's prefix type and ID.
type rawDeriver struct{ k []byte }

func (r *rawDeriver) DeriveKey(salt []byte) (key.Key, error) {
	ps, err := aesgcm.NewParameters(aesgcm.ParametersOpts{KeySizeInBytes: 32, IVSizeInBytes: 12, TagSizeInBytes: 16, Variant: aesgcm.VariantNoPrefix})
	if err != nil {
		return nil, err
	}
	return aesgcm.NewKey(secretdata.NewBytesFromData(macOf(r.k, []byte("derive"), salt), insecuresecretdataaccess.Token{}), 0, ps)
}

type customKM struct {
	url  string
	prim func(value []byte) (any, error)
	pub  func(value []byte) (*tinkpb.KeyData, error)
}

func (m *customKM) Primitive(serializedKey []byte) (any, error) {
	return m.prim(bytes.Clone(serializedKey))
}
func (m *customKM) NewKey([]byte) (proto.Message, error) { return nil, errors.New("not supported") }
func (m *customKM) DoesSupport(u string) bool            { return u == m.url }
func (m *customKM) TypeURL() string                      { return m.url }
func (m *customKM) NewKeyData([]byte) (*tinkpb.KeyData, error) {
	return nil, errors.New("not supported")
}

type customPrivKM struct{ customKM }

func (m *customPrivKM) PublicKeyData(serializedKey []byte) (*tinkpb.KeyData, error) {
	return m.pub(bytes.Clone(serializedKey))
}

func registerCustomManagers() {
	sym := func(name string, f func(v []byte) (any, error)) {
		if err := registry.RegisterKeyManager(&customKM{url: customPrefix + name, prim: f}); err != nil {
			panic(err)
		}
	}
	sym("RawMac", func(v []byte) (any, error) { return &rawMAC{v}, nil })
	sym("RawPrf", func(v []byte) (any, error) { return &rawPRF{v}, nil })
	sym("RawAead", func(v []byte) (any, error) { return newRawAEAD(v) })
	sym("RawDaead", func(v []byte) (any, error) { return &rawDAEAD{v}, nil })
	sym("RawDeriver", func(v []byte) (any, error) { return &rawDeriver{v}, nil })
	sym("RawVerify", func(v []byte) (any, error) {
		if len(v) != ed25519.PublicKeySize {
			return nil, fmt.Errorf("raw verifier: bad key size %d", len(v))
		}
		return &rawVerifier{ed25519.PublicKey(v)}, nil
	})
	sym("RawHybridEncrypt", func(v []byte) (any, error) {
		a, err := newRawAEAD(v)
		return &rawHybridEnc{a}, err
	})
	priv := func(name, pubName string, f func(v []byte) (any, error), pub func(v []byte) []byte) {
		km := &customPrivKM{customKM{url: customPrefix + name, prim: f}}
		km.pub = func(v []byte) (*tinkpb.KeyData, error) {
			return &tinkpb.KeyData{TypeUrl: customPrefix + pubName, Value: pub(v), KeyMaterialType: tinkpb.KeyData_ASYMMETRIC_PUBLIC}, nil
		}
		if err := registry.RegisterKeyManager(km); err != nil {
			panic(err)
		}
	}
	priv("RawSign", "RawVerify", func(v []byte) (any, error) {
		if len(v) != ed25519.SeedSize {
			return nil, fmt.Errorf("raw signer: bad seed size %d", len(v))
		}
		return &rawSigner{ed25519.NewKeyFromSeed(v)}, nil
	}, func(v []byte) []byte {
		if len(v) != ed25519.SeedSize {
			return nil
		}
		return bytes.Clone(ed25519.NewKeyFromSeed(v).Public().(ed25519.PublicKey))
	})
	priv("RawHybridDecrypt", "RawHybridEncrypt", func(v []byte) (any, error) {
		a, err := newRawAEAD(toyPublic(v))
		return &rawHybridDec{a}, err
	}, toyPublic)
}

func ed25519Public(seed []byte) []byte {
	return bytes.Clone(ed25519.NewKeyFromSeed(seed).Public().(ed25519.PublicKey))
}
