package main

import (
	"bytes"
	"errors"
	"fmt"
	"io"
	"sort"

	"google.golang.org/protobuf/proto"

	"github.com/tink-crypto/tink-go/v2/aead"
	"github.com/tink-crypto/tink-go/v2/daead"
	"github.com/tink-crypto/tink-go/v2/hybrid"
	"github.com/tink-crypto/tink-go/v2/insecurecleartextkeyset"
	"github.com/tink-crypto/tink-go/v2/jwt"
	"github.com/tink-crypto/tink-go/v2/keyderivation"
	"github.com/tink-crypto/tink-go/v2/keyset"
	"github.com/tink-crypto/tink-go/v2/mac"
	"github.com/tink-crypto/tink-go/v2/prf"
	"github.com/tink-crypto/tink-go/v2/signature"
	"github.com/tink-crypto/tink-go/v2/signprehash"
	"github.com/tink-crypto/tink-go/v2/streamingaead"
	"github.com/tink-crypto/tink-go/v2/tink"
	"verif/props/keycat"
	"verif/ref"
)

// prims is the set of primitive objects of one class built from one handle.
type prims struct {
	class   keycat.Class
	aead    tink.AEAD
	daead   tink.DeterministicAEAD
	mac     tink.MAC
	prf     *prf.Set
	saead   tink.StreamingAEAD
	sign    tink.Signer
	verify  tink.Verifier
	henc    tink.HybridEncrypt
	hdec    tink.HybridDecrypt
	jmac    jwt.MAC
	jsign   jwt.Signer
	jverify jwt.Verifier
	deriver keyderivation.KeysetDeriver
	pubH    *keyset.Handle
	// ML-DSA external-mu primitives (signprehash), present when the key supports them
	prehash tink.Prehash
	psigner tink.PrehashSigner
}

func buildPrims(class keycat.Class, kh *keyset.Handle) (*prims, error) {
	p := &prims{class: class}
	var err error
	pub := func() error {
		p.pubH, err = kh.Public()
		return err
	}
	switch class {
	case keycat.ClassAEAD:
		p.aead, err = aead.New(kh)
	case keycat.ClassDAEAD:
		p.daead, err = daead.New(kh)
	case keycat.ClassMAC:
		p.mac, err = mac.New(kh)
	case keycat.ClassPRF:
		p.prf, err = prf.NewPRFSet(kh)
	case keycat.ClassStreaming:
		p.saead, err = streamingaead.New(kh)
	case keycat.ClassSign:
		if p.sign, err = signature.NewSigner(kh); err == nil {
			if err = pub(); err == nil {
				p.verify, err = signature.NewVerifier(p.pubH)
			}
		}
		if err == nil {
			if ph, e := signprehash.NewPrehash(p.pubH); e == nil {
				if ps, e := signprehash.NewPrehashSigner(kh); e == nil {
					p.prehash, p.psigner = ph, ps
				}
			}
		}
	case keycat.ClassHybridDecrypt:
		if p.hdec, err = hybrid.NewHybridDecrypt(kh); err == nil {
			if err = pub(); err == nil {
				p.henc, err = hybrid.NewHybridEncrypt(p.pubH)
			}
		}
	case keycat.ClassJWTMAC:
		p.jmac, err = jwt.NewMAC(kh)
	case keycat.ClassJWTSign:
		if p.jsign, err = jwt.NewSigner(kh); err == nil {
			if err = pub(); err == nil {
				p.jverify, err = jwt.NewVerifier(p.pubH)
			}
		}
	case keycat.ClassDeriver:
		p.deriver, err = keyderivation.New(kh)
	case keycat.ClassNone:
		return p, nil
	default:
		return nil, fmt.Errorf("class %v not handled", class)
	}
	if err != nil {
		return nil, err
	}
	return p, nil
}

var (
	probeMsg = []byte("C19 probe message \x00\x01\x02 with some length to it")
	probeAD  = []byte("C19 associated data / context info")
)

func jwtProbe() (*jwt.RawJWT, *jwt.Validator) {
	sub := "verif-subject"
	raw, err := jwt.NewRawJWT(&jwt.RawJWTOptions{Subject: &sub, WithoutExpiration: true})
	if err != nil {
		panic(err)
	}
	val, err := jwt.NewValidator(&jwt.ValidatorOpts{AllowMissingExpiration: true})
	if err != nil {
		panic(err)
	}
	return raw, val
}

func streamEncrypt(s tink.StreamingAEAD, pt, ad []byte) ([]byte, error) {
	var buf bytes.Buffer
	w, err := s.NewEncryptingWriter(&buf, ad)
	if err != nil {
		return nil, err
	}
	if _, err := w.Write(pt); err != nil {
		return nil, err
	}
	if err := w.Close(); err != nil {
		return nil, err
	}
	return buf.Bytes(), nil
}

func streamDecrypt(s tink.StreamingAEAD, ct, ad []byte) ([]byte, error) {
	r, err := s.NewDecryptingReader(bytes.NewReader(ct), ad)
	if err != nil {
		return nil, err
	}
	return io.ReadAll(r)
}

func prfIDs(s *prf.Set) []uint32 {
	var ids []uint32
	for id := range s.PRFs {
		ids = append(ids, id)
	}
	sort.Slice(ids, func(i, j int) bool { return ids[i] < ids[j] })
	return ids
}

// agree runs the fixed probe sequence on a and on the twin b: deterministic operations must give the
// same bytes, randomized ones must be accepted by the other side.
func agree(a, b *prims) error {
	msg, ad := clone(probeMsg), clone(probeAD)
	eq := func(what string, x []byte, e1 error, y []byte, e2 error) error {
		if e1 != nil || e2 != nil {
			return fmt.Errorf("%s: errors %v / %v", what, e1, e2)
		}
		if !bytes.Equal(x, y) {
			return fmt.Errorf("%s: %s vs twin %s", what, hx(x), hx(y))
		}
		return nil
	}
	switch a.class {
	case keycat.ClassAEAD:
		for i, pr := range [][2]tink.AEAD{{a.aead, b.aead}, {b.aead, a.aead}} {
			ct, err := pr[0].Encrypt(msg, ad)
			if err != nil {
				return fmt.Errorf("Encrypt(dir %d): %v", i, err)
			}
			pt, err := pr[1].Decrypt(ct, ad)
			if err != nil || !bytes.Equal(pt, probeMsg) {
				return fmt.Errorf("dir %d: the other side does not decrypt: %v", i, err)
			}
		}
	case keycat.ClassDAEAD:
		c1, e1 := a.daead.EncryptDeterministically(msg, ad)
		c2, e2 := b.daead.EncryptDeterministically(msg, ad)
		if err := eq("EncryptDeterministically", c1, e1, c2, e2); err != nil {
			return err
		}
		p1, e1 := a.daead.DecryptDeterministically(c2, ad)
		if err := eq("DecryptDeterministically", p1, e1, probeMsg, nil); err != nil {
			return err
		}
	case keycat.ClassMAC:
		t1, e1 := a.mac.ComputeMAC(msg)
		t2, e2 := b.mac.ComputeMAC(msg)
		if err := eq("ComputeMAC", t1, e1, t2, e2); err != nil {
			return err
		}
		if err := a.mac.VerifyMAC(t2, msg); err != nil {
			return fmt.Errorf("VerifyMAC of the twin's tag: %v", err)
		}
	case keycat.ClassPRF:
		if a.prf.PrimaryID != b.prf.PrimaryID || len(a.prf.PRFs) != len(b.prf.PRFs) {
			return errors.New("PRF sets differ in shape")
		}
		for _, id := range prfIDs(a.prf) {
			o1, e1 := a.prf.PRFs[id].ComputePRF(msg, 16)
			o2, e2 := b.prf.PRFs[id].ComputePRF(msg, 16)
			if err := eq(fmt.Sprintf("ComputePRF(id %d)", id), o1, e1, o2, e2); err != nil {
				return err
			}
		}
	case keycat.ClassStreaming:
		long := bytes.Repeat(msg, 12)
		for i, pr := range [][2]tink.StreamingAEAD{{a.saead, b.saead}, {b.saead, a.saead}} {
			ct, err := streamEncrypt(pr[0], long, ad)
			if err != nil {
				return fmt.Errorf("stream encrypt(dir %d): %v", i, err)
			}
			pt, err := streamDecrypt(pr[1], ct, ad)
			if err != nil || !bytes.Equal(pt, long) {
				return fmt.Errorf("dir %d: the other side does not decrypt the stream: %v", i, err)
			}
		}
	case keycat.ClassSign:
		for i, pr := range []struct {
			s tink.Signer
			v tink.Verifier
		}{{a.sign, b.verify}, {b.sign, a.verify}} {
			sig, err := pr.s.Sign(msg)
			if err != nil {
				return fmt.Errorf("Sign(dir %d): %v", i, err)
			}
			if err := pr.v.Verify(sig, msg); err != nil {
				return fmt.Errorf("dir %d: the other side's verifier rejects: %v", i, err)
			}
		}
	case keycat.ClassHybridDecrypt:
		for i, pr := range []struct {
			e tink.HybridEncrypt
			d tink.HybridDecrypt
		}{{a.henc, b.hdec}, {b.henc, a.hdec}} {
			ct, err := pr.e.Encrypt(msg, ad)
			if err != nil {
				return fmt.Errorf("hybrid Encrypt(dir %d): %v", i, err)
			}
			pt, err := pr.d.Decrypt(ct, ad)
			if err != nil || !bytes.Equal(pt, probeMsg) {
				return fmt.Errorf("dir %d: the other side does not decrypt: %v", i, err)
			}
		}
	case keycat.ClassJWTMAC:
		raw, val := jwtProbe()
		t1, e1 := a.jmac.ComputeMACAndEncode(raw)
		t2, e2 := b.jmac.ComputeMACAndEncode(raw)
		if err := eq("ComputeMACAndEncode", []byte(t1), e1, []byte(t2), e2); err != nil {
			return err
		}
		if _, err := a.jmac.VerifyMACAndDecode(t2, val); err != nil {
			return fmt.Errorf("VerifyMACAndDecode of the twin's token: %v", err)
		}
	case keycat.ClassJWTSign:
		raw, val := jwtProbe()
		for i, pr := range []struct {
			s jwt.Signer
			v jwt.Verifier
		}{{a.jsign, b.jverify}, {b.jsign, a.jverify}} {
			tok, err := pr.s.SignAndEncode(raw)
			if err != nil {
				return fmt.Errorf("SignAndEncode(dir %d): %v", i, err)
			}
			if _, err := pr.v.VerifyAndDecode(tok, val); err != nil {
				return fmt.Errorf("dir %d: the other side's verifier rejects: %v", i, err)
			}
		}
	case keycat.ClassDeriver:
		h1, e1 := a.deriver.DeriveKeyset(ad)
		h2, e2 := b.deriver.DeriveKeyset(ad)
		if e1 != nil || e2 != nil {
			return fmt.Errorf("DeriveKeyset: %v / %v", e1, e2)
		}
		if !proto.Equal(insecurecleartextkeyset.KeysetMaterial(h1), insecurecleartextkeyset.KeysetMaterial(h2)) {
			return errors.New("derived keysets differ")
		}
	}
	if !bytes.Equal(msg, probeMsg) || !bytes.Equal(ad, probeAD) {
		return errors.New("probe inputs were modified")
	}
	return nil
}

func hx(b []byte) string {
	if len(b) > 40 {
		return fmt.Sprintf("%x…(%d bytes)", b[:40], len(b))
	}
	return fmt.Sprintf("%x", b)
}

// driver enumerates the guarded calls of every method of a primitive bundle.
type driver struct {
	t      *tracker
	p, tw  *prims
	legacy bool
	lens   []int
	spares []int
	adj    []int // adjacency modes for two-argument calls
	slow   bool
}

func (d *driver) op(name string) string {
	if d.legacy {
		return name + "[legacy]"
	}
	return name
}

func (d *driver) layouts(nargs int) []ref.GuardLayout {
	var out []ref.GuardLayout
	for _, a := range d.adj {
		if a != 0 && nargs < 2 {
			continue
		}
		for _, s := range d.spares {
			out = append(out, ref.GuardLayout{Spare: s, Adjacent: a})
		}
	}
	return out
}

// call runs f on guarded copies of the contents, applies oracle (1) and, on success, oracle (2) to the
// returned slice.
func (d *driver) call(op string, l ref.GuardLayout, f func(a [][]byte) ([]byte, error), contents ...[]byte) ([]byte, error) {
	gs := d.t.place(l, contents...)
	out, err := f(gs.Args)
	d.t.guards(op, gs)
	if err == nil && out != nil {
		d.t.ret(op, out)
	}
	return out, err
}

func (d *driver) fail(kind, op, format string, a ...any) {
	d.t.x.Fail(kind+":"+op, "%s: %s: %s", d.t.what, op, fmt.Sprintf(format, a...))
}

// expect checks a computed value against the expected one (the expected value comes from the twin or
// from the plaintext).
func (d *driver) expect(op string, got []byte, err error, want []byte) bool {
	if err != nil {
		d.fail("op-error", op, "%v", err)
		return false
	}
	if !bytes.Equal(got, want) {
		d.fail("wrong-result", op, "got %s want %s", hx(got), hx(want))
		return false
	}
	return true
}

func corrupt(b []byte) []byte {
	c := clone(b)
	if len(c) > 0 {
		c[len(c)-1] ^= 0x01
	} else {
		c = []byte{0x7f}
	}
	return c
}

func (d *driver) encDec(encOp, decOp string, enc, dec, twEnc, twDec func(a, b []byte) ([]byte, error), deterministic bool) {
	enc2 := func(a [][]byte) ([]byte, error) { return enc(a[0], a[1]) }
	dec2 := func(a [][]byte) ([]byte, error) { return dec(a[0], a[1]) }
	for _, l := range d.layouts(2) {
		for _, n0 := range d.lens {
			for _, n1 := range d.lens {
				pt, ad := ref.GuardText(1, n0), ref.GuardText(2, n1)
				ct, err := d.call(encOp, l, enc2, pt, ad)
				if err != nil {
					d.fail("op-error", encOp, "%v", err)
					continue
				}
				if deterministic {
					want, err := twEnc(clone(pt), clone(ad))
					d.expect(encOp, ct, err, want)
				} else {
					got, err := twDec(clone(ct), clone(ad))
					d.expect(encOp+"/twin-decrypts", got, err, pt)
				}
				got, err := d.call(decOp, l, dec2, ct, ad)
				d.expect(decOp, got, err, pt)
			}
		}
		// failure path: a rejected ciphertext must not leave traces in the caller's buffers either
		pt, ad := ref.GuardText(1, 16), ref.GuardText(2, 16)
		if ct, err := twEnc(pt, ad); err == nil {
			if _, err := d.call(decOp, l, dec2, corrupt(ct), ad); err == nil {
				d.fail("wrong-result", decOp, "corrupted ciphertext accepted")
			}
			if _, err := d.call(decOp, l, dec2, ct, corrupt(ad)); err == nil {
				d.fail("wrong-result", decOp, "ciphertext accepted under different associated data")
			}
		}
	}
}

// reuseEncDec: the caller REUSES its argument buffers across calls on one primitive — same slices, new contents. A
// primitive that remembers an argument by reference (a cache keyed on the caller's slice, a stored sub-slice) answers
// the second call from the first call's contents.
func (d *driver) reuseEncDec(encOp, decOp string, enc, dec, twEnc, twDec func(a, b []byte) ([]byte, error)) {
	for _, n := range d.lens {
		ptA, adA := ref.GuardText(1, n), ref.GuardText(2, n)
		ptB, adB := ref.GuardText(4, n), ref.GuardText(5, n)
		if bytes.Equal(adA, adB) {
			continue
		}
		ptBuf, adBuf := clone(ptA), clone(adA)
		if _, err := enc(ptBuf, adBuf); err != nil {
			d.fail("op-error", encOp, "%v", err)
			return
		}
		copy(ptBuf, ptB)
		copy(adBuf, adB)
		ct2, err := enc(ptBuf, adBuf)
		if err != nil {
			d.fail("op-error", encOp, "second call on reused buffers: %v", err)
			return
		}
		d.t.x.Eval(2)
		if got, err := twDec(clone(ct2), clone(adB)); err != nil || !bytes.Equal(got, ptB) {
			d.fail("retains-argument", encOp, "buffers reused with new contents: the second ciphertext does not decrypt to the second plaintext under the second associated data / context info (%v)", err)
		}
		if _, err := twDec(clone(ct2), clone(adA)); err == nil {
			d.fail("retains-argument", encOp, "buffers reused with new contents: the second ciphertext is bound to the FIRST call's associated data / context info")
		}
		ctA, errA := twEnc(clone(ptA), clone(adA))
		ctB, errB := twEnc(clone(ptB), clone(adB))
		if errA != nil || errB != nil || len(ctA) != len(ctB) {
			continue
		}
		ctBuf, adBuf := clone(ctA), clone(adA)
		if got, err := dec(ctBuf, adBuf); err != nil || !bytes.Equal(got, ptA) {
			d.fail("op-error", decOp, "valid ciphertext rejected: %v", err)
			return
		}
		copy(adBuf, adB)
		d.t.x.Eval(2)
		if _, err := dec(ctBuf, adBuf); err == nil {
			d.fail("retains-argument", decOp, "associated data / context info buffer rewritten in place: the first ciphertext is still accepted")
		}
		copy(ctBuf, ctB)
		if got, err := dec(ctBuf, adBuf); err != nil || !bytes.Equal(got, ptB) {
			d.fail("retains-argument", decOp, "buffers reused with new contents: the second ciphertext is not decrypted to the second plaintext (%v)", err)
		}
		// the ciphertext just accepted, rewritten in place (every position class: start, middle, end), must be refused
		for _, pos := range []int{0, len(ctBuf) / 2, len(ctBuf) - 1} {
			if len(ctBuf) == 0 {
				break
			}
			ctBuf[pos] ^= 0x01
			if _, err := dec(ctBuf, adBuf); err == nil {
				d.fail("retains-argument", decOp, "ciphertext buffer of the call accepted just before rewritten in place (byte %d): still accepted", pos)
			}
			ctBuf[pos] ^= 0x01
			if got, err := dec(ctBuf, adBuf); err != nil || !bytes.Equal(got, ptB) {
				d.fail("retains-argument", decOp, "ciphertext buffer restored: the genuine ciphertext is no longer accepted (%v)", err)
			}
		}
	}
}

// reuseSignVerify: as reuseEncDec for sign / verify and MAC compute / verify.
func (d *driver) reuseSignVerify(signOp, verOp string, sign func([]byte) ([]byte, error), verify, twVerify func(sig, data []byte) error, twSign func([]byte) ([]byte, error)) {
	for i, n := range d.lens {
		dA, dB := ref.GuardText(3, n), ref.GuardText(6, n)
		if bytes.Equal(dA, dB) || (d.slow && i > 1) {
			continue
		}
		buf := clone(dA)
		if _, err := sign(buf); err != nil {
			d.fail("op-error", signOp, "%v", err)
			return
		}
		copy(buf, dB)
		s2, err := sign(buf)
		if err != nil {
			d.fail("op-error", signOp, "second call on a reused buffer: %v", err)
			return
		}
		d.t.x.Eval(2)
		if err := twVerify(clone(s2), clone(dB)); err != nil {
			d.fail("retains-argument", signOp, "data buffer reused with new contents: the second signature/tag is not valid for the second data (%v)", err)
		}
		if err := twVerify(clone(s2), clone(dA)); err == nil {
			d.fail("retains-argument", signOp, "data buffer reused with new contents: the second signature/tag is valid for the FIRST data")
		}
		sA, errA := twSign(clone(dA))
		sB, errB := twSign(clone(dB))
		if errA != nil || errB != nil || len(sA) != len(sB) {
			continue
		}
		sBuf, dBuf := clone(sA), clone(dA)
		if err := verify(sBuf, dBuf); err != nil {
			d.fail("op-error", verOp, "valid signature/tag rejected: %v", err)
			return
		}
		copy(dBuf, dB)
		d.t.x.Eval(2)
		if err := verify(sBuf, dBuf); err == nil {
			d.fail("retains-argument", verOp, "data buffer rewritten in place: the first signature/tag is still accepted")
		}
		copy(sBuf, sB)
		if err := verify(sBuf, dBuf); err != nil {
			d.fail("retains-argument", verOp, "buffers reused with new contents: the second signature/tag is rejected (%v)", err)
		}
		for _, pos := range []int{0, len(sBuf) / 2, len(sBuf) - 1} {
			if len(sBuf) == 0 {
				break
			}
			sBuf[pos] ^= 0x01
			if err := verify(sBuf, dBuf); err == nil {
				d.fail("retains-argument", verOp, "signature/tag buffer of the call accepted just before rewritten in place (byte %d): still accepted", pos)
			}
			sBuf[pos] ^= 0x01
			if err := verify(sBuf, dBuf); err != nil {
				d.fail("retains-argument", verOp, "signature/tag buffer restored: the genuine signature/tag is no longer accepted (%v)", err)
			}
		}
	}
}

func (d *driver) signVerify(signOp, verOp string, sign func([]byte) ([]byte, error), verify, twVerify func(sig, data []byte) error, twSign func([]byte) ([]byte, error), deterministic bool) {
	sigs := map[int][]byte{}
	for _, l := range d.layouts(1) {
		for _, n := range d.lens {
			data := ref.GuardText(3, n)
			sig, err := d.call(signOp, l, func(a [][]byte) ([]byte, error) { return sign(a[0]) }, data)
			if err != nil {
				d.fail("op-error", signOp, "%v", err)
				continue
			}
			if deterministic {
				want, err := twSign(clone(data))
				d.expect(signOp, sig, err, want)
			} else if err := twVerify(clone(sig), clone(data)); err != nil {
				d.fail("wrong-result", signOp, "twin rejects the signature/tag: %v", err)
			}
			if _, ok := sigs[n]; !ok {
				sigs[n] = clone(sig)
			}
		}
	}
	for _, l := range d.layouts(2) {
		for _, n := range d.lens {
			sig, ok := sigs[n]
			if !ok {
				continue
			}
			data := ref.GuardText(3, n)
			v := func(a [][]byte) ([]byte, error) { return nil, verify(a[0], a[1]) }
			if _, err := d.call(verOp, l, v, sig, data); err != nil {
				d.fail("op-error", verOp, "valid signature/tag rejected: %v", err)
			}
			if n == d.lens[len(d.lens)-1] {
				if _, err := d.call(verOp, l, v, corrupt(sig), data); err == nil {
					d.fail("wrong-result", verOp, "corrupted signature/tag accepted")
				}
				if _, err := d.call(verOp, l, v, sig, corrupt(data)); err == nil {
					d.fail("wrong-result", verOp, "signature/tag accepted for other data")
				}
			}
		}
	}
}

func (d *driver) run() {
	p, tw := d.p, d.tw
	switch p.class {
	case keycat.ClassAEAD:
		d.encDec(d.op("aead.Encrypt"), d.op("aead.Decrypt"), p.aead.Encrypt, p.aead.Decrypt, tw.aead.Encrypt, tw.aead.Decrypt, false)
		d.reuseEncDec(d.op("aead.Encrypt"), d.op("aead.Decrypt"), p.aead.Encrypt, p.aead.Decrypt, tw.aead.Encrypt, tw.aead.Decrypt)
	case keycat.ClassDAEAD:
		d.encDec(d.op("daead.EncryptDeterministically"), d.op("daead.DecryptDeterministically"), p.daead.EncryptDeterministically, p.daead.DecryptDeterministically,
			tw.daead.EncryptDeterministically, tw.daead.DecryptDeterministically, true)
		d.reuseEncDec(d.op("daead.EncryptDeterministically"), d.op("daead.DecryptDeterministically"), p.daead.EncryptDeterministically, p.daead.DecryptDeterministically,
			tw.daead.EncryptDeterministically, tw.daead.DecryptDeterministically)
	case keycat.ClassHybridDecrypt:
		d.encDec(d.op("hybrid.Encrypt"), d.op("hybrid.Decrypt"), p.henc.Encrypt, p.hdec.Decrypt, tw.henc.Encrypt, tw.hdec.Decrypt, false)
		d.reuseEncDec(d.op("hybrid.Encrypt"), d.op("hybrid.Decrypt"), p.henc.Encrypt, p.hdec.Decrypt, tw.henc.Encrypt, tw.hdec.Decrypt)
	case keycat.ClassMAC:
		d.signVerify(d.op("mac.ComputeMAC"), d.op("mac.VerifyMAC"), p.mac.ComputeMAC, p.mac.VerifyMAC, tw.mac.VerifyMAC, tw.mac.ComputeMAC, true)
		d.reuseSignVerify(d.op("mac.ComputeMAC"), d.op("mac.VerifyMAC"), p.mac.ComputeMAC, p.mac.VerifyMAC, tw.mac.VerifyMAC, tw.mac.ComputeMAC)
	case keycat.ClassSign:
		d.signVerify(d.op("signature.Sign"), d.op("signature.Verify"), p.sign.Sign, p.verify.Verify, tw.verify.Verify, tw.sign.Sign, false)
		d.reuseSignVerify(d.op("signature.Sign"), d.op("signature.Verify"), p.sign.Sign, p.verify.Verify, tw.verify.Verify, tw.sign.Sign)
		if p.prehash != nil && tw.prehash != nil {
			d.prehashes()
		}
	case keycat.ClassPRF:
		d.prfs()
		d.reusePRF()
	case keycat.ClassStreaming:
		d.streaming()
	case keycat.ClassJWTMAC, keycat.ClassJWTSign:
		d.jwt()
	case keycat.ClassDeriver:
		d.derive()
		d.reuseDerive()
	}
}

// prehashes drives the ML-DSA external-mu primitives: ComputePrehash(data) and SignPrehash(prehash).
func (d *driver) prehashes() {
	p, tw := d.p, d.tw
	opC, opS := d.op("signprehash.ComputePrehash"), d.op("signprehash.SignPrehash")
	for _, l := range d.layouts(1) {
		for _, n := range d.lens {
			data := ref.GuardText(3, n)
			ph, err := d.call(opC, l, func(a [][]byte) ([]byte, error) { return p.prehash.ComputePrehash(a[0]) }, data)
			want, err2 := tw.prehash.ComputePrehash(clone(data))
			if err2 != nil {
				d.fail("op-error", opC, "twin: %v", err2)
				continue
			}
			if !d.expect(opC, ph, err, want) {
				continue
			}
			sig, err := d.call(opS, l, func(a [][]byte) ([]byte, error) { return p.psigner.SignPrehash(a[0]) }, ph)
			if err != nil {
				d.fail("op-error", opS, "%v", err)
				continue
			}
			if tw.verify.Verify(clone(sig), clone(data)) == nil {
				d.t.x.Outcome("prehash-signature-verifies-under-twin")
			} else {
				d.t.x.Outcome("prehash-signature-not-checked")
			}
		}
	}
}

func (d *driver) prfs() {
	p, tw := d.p, d.tw
	outLens := []uint32{1, 16}
	for _, l := range d.layouts(1) {
		for _, n := range d.lens {
			in := ref.GuardText(4, n)
			for _, ol := range outLens {
				for _, id := range prfIDs(p.prf) {
					op := d.op("prf.ComputePRF")
					got, err := d.call(op, l, func(a [][]byte) ([]byte, error) { return p.prf.PRFs[id].ComputePRF(a[0], ol) }, in)
					want, err2 := tw.prf.PRFs[id].ComputePRF(clone(in), ol)
					if err2 != nil {
						d.fail("op-error", op, "twin: %v", err2)
						continue
					}
					d.expect(op, got, err, want)
				}
				op := d.op("prf.ComputePrimaryPRF")
				got, err := d.call(op, l, func(a [][]byte) ([]byte, error) { return p.prf.ComputePrimaryPRF(a[0], ol) }, in)
				want, _ := tw.prf.ComputePrimaryPRF(clone(in), ol)
				d.expect(op, got, err, want)
			}
		}
	}
}

// reusePRF / reuseDerive: one input (salt) buffer rewritten in place between two calls on the same object.
func (d *driver) reusePRF() {
	p, tw := d.p, d.tw
	op := d.op("prf.ComputePrimaryPRF")
	for _, n := range d.lens {
		inA, inB := ref.GuardText(4, n), ref.GuardText(7, n)
		if bytes.Equal(inA, inB) {
			continue
		}
		buf := clone(inA)
		if _, err := p.prf.ComputePrimaryPRF(buf, 16); err != nil {
			d.fail("op-error", op, "%v", err)
			return
		}
		copy(buf, inB)
		got, err := p.prf.ComputePrimaryPRF(buf, 16)
		want, _ := tw.prf.ComputePrimaryPRF(clone(inB), 16)
		d.t.x.Eval(1)
		if err != nil || !bytes.Equal(got, want) {
			d.fail("retains-argument", op, "input buffer reused with new contents: the second output is not the PRF of the second input (%v)", err)
		}
	}
}

func (d *driver) reuseDerive() {
	op := d.op("keyderivation.DeriveKeyset")
	for _, n := range d.lens {
		sA, sB := ref.GuardText(5, n), ref.GuardText(8, n)
		if bytes.Equal(sA, sB) {
			continue
		}
		buf := clone(sA)
		if _, err := d.p.deriver.DeriveKeyset(buf); err != nil {
			d.fail("op-error", op, "%v", err)
			return
		}
		copy(buf, sB)
		kh, err := d.p.deriver.DeriveKeyset(buf)
		th, err2 := d.tw.deriver.DeriveKeyset(clone(sB))
		d.t.x.Eval(1)
		if err != nil || err2 != nil || !proto.Equal(insecurecleartextkeyset.KeysetMaterial(kh), insecurecleartextkeyset.KeysetMaterial(th)) {
			d.fail("retains-argument", op, "salt buffer reused with new contents: the second derived keyset is not the one of the second salt (%v %v)", err, err2)
		}
	}
}

func (d *driver) derive() {
	op := d.op("keyderivation.DeriveKeyset")
	for _, l := range d.layouts(1) {
		for _, n := range d.lens {
			salt := ref.GuardText(5, n)
			gs := d.t.place(l, salt)
			kh, err := d.p.deriver.DeriveKeyset(gs.Args[0])
			d.t.guards(op, gs)
			if err != nil {
				d.fail("op-error", op, "%v", err)
				continue
			}
			m1 := insecurecleartextkeyset.KeysetMaterial(kh)
			d.t.retProto(op+"/KeysetMaterial", m1)
			want := proto.Clone(m1)
			th, err := d.tw.deriver.DeriveKeyset(clone(salt))
			if err != nil || !proto.Equal(insecurecleartextkeyset.KeysetMaterial(th), want) {
				d.fail("wrong-result", op, "derived keyset differs from the twin's (%v)", err)
			}
			// the caller reuses the salt buffer and scribbles over the exported material: the derived handle keeps its keys
			gs.Flip()
			walkBytes(m1.ProtoReflect(), func(_ string, b []byte) { ref.FlipBytes(b) })
			if !proto.Equal(insecurecleartextkeyset.KeysetMaterial(kh), want) {
				d.fail("object-changed", op, "derived handle changed after the salt buffer / exported material were overwritten")
			}
			gs.Flip()
			walkBytes(m1.ProtoReflect(), func(_ string, b []byte) { ref.FlipBytes(b) })
		}
	}
}

func (d *driver) jwt() {
	p, tw := d.p, d.tw
	_, val := jwtProbe()
	opNew := d.op("jwt.NewRawJWTFromJSON")
	for _, l := range d.layouts(1) {
		for _, n := range d.lens {
			payload := []byte(fmt.Sprintf(`{"sub":"s","x":"%s"}`, bytes.Repeat([]byte("a"), n)))
			gs := d.t.place(l, payload)
			raw, err := jwt.NewRawJWTFromJSON(nil, gs.Args[0])
			d.t.guards(opNew, gs)
			if err != nil {
				d.fail("op-error", opNew, "%v", err)
				continue
			}
			twRaw, err := jwt.NewRawJWTFromJSON(nil, clone(payload))
			if err != nil {
				d.fail("op-error", opNew, "%v", err)
				continue
			}
			want, _ := twRaw.JSONPayload()
			j1, err := raw.JSONPayload()
			d.t.ret(d.op("jwt.RawJWT.JSONPayload"), j1)
			d.expect(d.op("jwt.RawJWT.JSONPayload"), j1, err, want)
			// overwrite the payload buffer and the returned JSON: the token object keeps its claims
			gs.Flip()
			ref.FlipBytes(j1)
			var tok string
			var ver *jwt.VerifiedJWT
			if p.class == keycat.ClassJWTMAC {
				if tok, err = p.jmac.ComputeMACAndEncode(raw); err == nil {
					ver, err = tw.jmac.VerifyMACAndDecode(tok, val)
				}
			} else {
				if tok, err = p.jsign.SignAndEncode(raw); err == nil {
					ver, err = tw.jverify.VerifyAndDecode(tok, val)
				}
			}
			gs.Flip()
			ref.FlipBytes(j1)
			if err != nil {
				d.fail("op-error", d.op("jwt.sign+verify"), "%v", err)
				continue
			}
			j2, err := ver.JSONPayload()
			d.t.ret(d.op("jwt.VerifiedJWT.JSONPayload"), j2)
			if err != nil || !bytes.Equal(j2, want) {
				d.fail("object-changed", opNew, "payload of the token signed after the input buffer was overwritten differs: %q want %q (%v)", j2, want, err)
			}
			j3, _ := ver.JSONPayload()
			d.t.ret(d.op("jwt.VerifiedJWT.JSONPayload"), j3)
		}
	}
	if p.class == keycat.ClassJWTSign {
		opFrom, opTo := d.op("jwt.JWKSetFromPublicKeysetHandle"), d.op("jwt.JWKSetToPublicKeysetHandle")
		set, err := jwt.JWKSetFromPublicKeysetHandle(p.pubH)
		if err != nil {
			d.t.x.Outcome("jwk-unsupported")
			return
		}
		d.t.ret(opFrom, set)
		pristine := clone(set)
		for _, l := range d.layouts(1) {
			gs := d.t.place(l, pristine)
			kh, err := jwt.JWKSetToPublicKeysetHandle(gs.Args[0])
			d.t.guards(opTo, gs)
			if err != nil {
				d.fail("op-error", opTo, "%v", err)
				continue
			}
			th, err := jwt.JWKSetToPublicKeysetHandle(clone(pristine))
			if err != nil {
				d.fail("op-error", opTo, "%v", err)
				continue
			}
			gs.Flip()
			back, err := jwt.JWKSetFromPublicKeysetHandle(kh)
			twBack, _ := jwt.JWKSetFromPublicKeysetHandle(th)
			gs.Flip()
			if err != nil || !bytes.Equal(back, twBack) {
				d.fail("object-changed", opTo, "handle built from a JWK set changed after the JWK buffer was overwritten (%v)", err)
			}
			d.t.ret(opFrom, back)
		}
	}
}

// streaming drives NewEncryptingWriter/Write and NewDecryptingReader/Read with guarded aad and data buffers.
func (d *driver) streaming() {
	p, tw := d.p, d.tw
	opW, opWr, opR, opRd := d.op("streamingaead.NewEncryptingWriter"), d.op("streamingaead.Writer.Write"), d.op("streamingaead.NewDecryptingReader"), d.op("streamingaead.Reader.Read")
	for _, l := range d.layouts(2) {
		for _, n0 := range d.lens {
			for _, n1 := range d.lens {
				aad, chunk := ref.GuardText(6, n0), ref.GuardText(7, n1)
				reps := 5
				if n0 == 16 && n1 == 33 && l.Adjacent == 0 {
					reps = 400 // several segments
				}
				want := bytes.Repeat(chunk, reps)
				// --- writer
				gs := d.t.place(l, aad, chunk)
				var buf bytes.Buffer
				w, err := p.saead.NewEncryptingWriter(&buf, gs.Args[0])
				d.t.guards(opW, gs)
				if err != nil {
					d.fail("op-error", opW, "%v", err)
					continue
				}
				ok := true
				for i := 0; i < reps && ok; i++ {
					if _, err := w.Write(gs.Args[1]); err != nil {
						d.fail("op-error", opWr, "%v", err)
						ok = false
					}
					d.t.guards(opWr, gs)
				}
				if !ok {
					continue
				}
				// the caller reuses both buffers before Close: what was written stays written
				gs.Flip()
				err = w.Close()
				gs.Flip()
				if err != nil {
					d.fail("op-error", opWr, "Close: %v", err)
					continue
				}
				ct := clone(buf.Bytes())
				got, err := streamDecrypt(tw.saead, ct, clone(aad))
				if err != nil || !bytes.Equal(got, want) {
					d.fail("object-changed", opWr, "stream written from buffers that were overwritten after Write does not decrypt to the written data under the twin (%v)", err)
					continue
				}
				// --- reader: read into a guarded destination of length n1 (at least 1)
				dst := make([]byte, n1)
				if n1 == 0 {
					dst = make([]byte, 1)
				}
				gr := d.t.place(l, aad, dst)
				r, err := p.saead.NewDecryptingReader(bytes.NewReader(ct), gr.Args[0])
				d.t.guards(opR, gr)
				if err != nil {
					d.fail("op-error", opR, "%v", err)
					continue
				}
				var out []byte
				// two destination buffers used alternately: while one receives data, the other (consumed
				// and overwritten by the caller) must stay untouched and must not influence later reads
				gb := d.t.place(ref.GuardLayout{Spare: l.Spare}, dst)
				type dest struct {
					gs  *ref.GuardSet
					idx int
				}
				dests := [2]dest{{gr, 1}, {gb, 0}}
				for i := 0; i < 100000; i++ {
					cur, other := dests[i%2], dests[(i+1)%2]
					buf := cur.gs.Args[cur.idx]
					n, err := r.Read(buf)
					if n > 0 {
						out = append(out, buf[:n]...)
					}
					// oracle (1) for an output buffer: only dst[0:len] may be written
					d.outside(opRd, cur.gs, cur.idx)
					d.t.guards(opRd, other.gs)
					if err == io.EOF {
						break
					}
					if err != nil {
						d.fail("op-error", opRd, "%v", err)
						break
					}
					ref.FlipBytes(buf[:len(buf):len(buf)])
					cur.gs.Resnap()
				}
				if !bytes.Equal(out, want) {
					d.fail("wrong-result", opRd, "stream read through overwritten destination buffers: got %s want %s", hx(out), hx(want))
				}
			}
		}
	}
	// NewDecryptingReader must not depend on the aad buffer after it returned (isolated probe: its
	// consequence is reported under one key)
	aad, data := ref.GuardText(6, 16), bytes.Repeat(ref.GuardText(7, 33), 3)
	ct, err := streamEncrypt(tw.saead, data, aad)
	if err == nil {
		gs := ref.PlaceArgs(ref.GuardLayout{Spare: 1}, aad)
		r, err := p.saead.NewDecryptingReader(bytes.NewReader(ct), gs.Args[0])
		if err == nil {
			gs.Flip()
			got, err := io.ReadAll(r)
			gs.Flip()
			d.t.x.Eval(1)
			if err != nil || !bytes.Equal(got, data) {
				d.fail("input-retained", opR+"(aad)", "associated data buffer overwritten after NewDecryptingReader returned and before the first Read: decryption fails / differs (%v)", err)
			}
		}
		gw := ref.PlaceArgs(ref.GuardLayout{Spare: 1}, aad)
		var buf bytes.Buffer
		w, err := p.saead.NewEncryptingWriter(&buf, gw.Args[0])
		if err == nil {
			gw.Flip()
			w.Write(data)
			err = w.Close()
			gw.Flip()
			got, err2 := streamDecrypt(tw.saead, buf.Bytes(), aad)
			d.t.x.Eval(1)
			if err != nil || err2 != nil || !bytes.Equal(got, data) {
				d.fail("input-retained", opW+"(aad)", "associated data buffer overwritten after NewEncryptingWriter returned: stream does not decrypt under the original associated data (%v/%v)", err, err2)
			}
		}
	}
}

// outside checks every byte of the set except the contents of argument idx.
func (d *driver) outside(op string, gs *ref.GuardSet, idx int) {
	d.t.x.Eval(1)
	if c := gs.ChangedOutside(idx); c != "" {
		d.t.x.Fail("caller-buffer-written:"+op, "%s: %s wrote outside the destination slice: %s", d.t.what, op, c)
		gs.Resnap()
	}
}

func signatureVerifier(pubH *keyset.Handle) (tink.Verifier, error) {
	return signature.NewVerifier(pubH)
}
func hybridEncrypter(pubH *keyset.Handle) (tink.HybridEncrypt, error) {
	return hybrid.NewHybridEncrypt(pubH)
}
func jwtVerifier(pubH *keyset.Handle) (jwt.Verifier, error) { return jwt.NewVerifier(pubH) }
