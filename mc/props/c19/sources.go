package main

import (
	"bytes"
	"fmt"

	"google.golang.org/protobuf/proto"

	tinkpb "github.com/tink-crypto/tink-go/v2/proto/tink_go_proto"
	"github.com/tink-crypto/tink-go/v2/verifbridge/vb"
	"verif/props/keycat"
	"verif/ref"
)

// protoKey is the serialized form of one key in memory owned by the harness.
type protoKey struct {
	kd *tinkpb.KeyData
	pt tinkpb.OutputPrefixType
	id uint32 // ID requirement (0 for RAW)
}

func (p *protoKey) clone() *protoKey {
	if p == nil {
		return nil
	}
	return &protoKey{kd: proto.Clone(p.kd).(*tinkpb.KeyData), pt: p.pt, id: p.id}
}

// source is one (key type, representative) catalogue: every key is delivered in serialized form so
// that every object the check examines is built by tink from harness-owned memory.
type source struct {
	name   string
	class  keycat.Class
	legacy bool // primitives are legacy (non-full) primitives behind a full*Adapter
	nreps  int
	get    func(rep int, id uint32) (priv *protoKey, pub *protoKey, desc string, err error)
	slow   bool // expensive private-key operation (reduced inner enumeration in the quick tier)
}

var prefixTypes = []tinkpb.OutputPrefixType{tinkpb.OutputPrefixType_TINK, tinkpb.OutputPrefixType_RAW, tinkpb.OutputPrefixType_CRUNCHY, tinkpb.OutputPrefixType_LEGACY}

func fromCatalogue(f *keycat.Family) *source {
	s := &source{name: f.Name, class: f.Class, nreps: f.NumReps(), legacy: f.KeysOnly != nil}
	s.slow = f.Name == "SlhDsa"
	s.get = func(rep int, id uint32) (*protoKey, *protoKey, string, error) {
		kc, err := f.RepKey(rep, id)
		if err != nil {
			return nil, nil, "", err
		}
		kd, pt, kid, _, err := vb.SerializeKey(kc.Key)
		if err != nil {
			return nil, nil, "", err
		}
		priv := (&protoKey{kd, pt, kid}).clone()
		var pub *protoKey
		if kc.Pub != nil {
			kd, pt, kid, _, err := vb.SerializeKey(kc.Pub)
			if err != nil {
				return nil, nil, "", err
			}
			pub = (&protoKey{kd, pt, kid}).clone()
		}
		return priv, pub, kc.Desc, nil
	}
	return s
}

func idFor(pt tinkpb.OutputPrefixType, id uint32) uint32 {
	if pt == tinkpb.OutputPrefixType_RAW {
		return 0
	}
	return id
}

func customSource(name string, class keycat.Class, privURL, pubURL string, value func() (priv, pub []byte)) *source {
	s := &source{name: name, class: class, legacy: true, nreps: len(prefixTypes)}
	s.get = func(rep int, id uint32) (*protoKey, *protoKey, string, error) {
		pt := prefixTypes[rep%len(prefixTypes)]
		pv, pb := value()
		mat := tinkpb.KeyData_SYMMETRIC
		if pubURL != "" {
			mat = tinkpb.KeyData_ASYMMETRIC_PRIVATE
		}
		priv := &protoKey{&tinkpb.KeyData{TypeUrl: customPrefix + privURL, Value: bytes.Clone(pv), KeyMaterialType: mat}, pt, idFor(pt, id)}
		var pub *protoKey
		if pubURL != "" {
			pub = &protoKey{&tinkpb.KeyData{TypeUrl: customPrefix + pubURL, Value: bytes.Clone(pb), KeyMaterialType: tinkpb.KeyData_ASYMMETRIC_PUBLIC}, pt, idFor(pt, id)}
		}
		return priv, pub, fmt.Sprintf("%s %v id=%#x", name, pt, idFor(pt, id)), nil
	}
	return s
}

var allSources []*source

func initSources() {
	keycat.RegisterFakeKMS()
	registerCustomManagers()
	for _, f := range keycat.Families() {
		allSources = append(allSources, fromCatalogue(f))
	}
	sym := func(name string, class keycat.Class, url string, n int) {
		allSources = append(allSources, customSource(name, class, url, "", func() ([]byte, []byte) { return ref.KeyBytes("c19-"+name, n), nil }))
	}
	sym("LegacyMac", keycat.ClassMAC, "RawMac", 32)
	sym("LegacyPrf", keycat.ClassPRF, "RawPrf", 32)
	sym("LegacyAead", keycat.ClassAEAD, "RawAead", 16)
	sym("LegacyDaead", keycat.ClassDAEAD, "RawDaead", 32)
	sym("LegacyDeriver", keycat.ClassDeriver, "RawDeriver", 32)
	allSources[len(allSources)-1].nreps = 3 // TINK, RAW, CRUNCHY: the derived AES-GCM key has no LEGACY form
	allSources = append(allSources,
		customSource("LegacySign", keycat.ClassSign, "RawSign", "RawVerify", func() ([]byte, []byte) {
			seed := ref.KeyBytes("c19-sign", 32)
			return seed, ed25519Public(seed)
		}),
		customSource("LegacyHybrid", keycat.ClassHybridDecrypt, "RawHybridDecrypt", "RawHybridEncrypt", func() ([]byte, []byte) {
			s := ref.KeyBytes("c19-hybrid", 32)
			return s, toyPublic(s)
		}))
}

func sourceNames() []string {
	out := make([]string, len(allSources))
	for i, s := range allSources {
		out[i] = s.name
	}
	return out
}
