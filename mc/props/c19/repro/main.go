package main

import (
	"bytes"
	"fmt"
	"io"

	"github.com/tink-crypto/tink-go/v2/jwt/jwtrsassapkcs1"
	"github.com/tink-crypto/tink-go/v2/keyset"
	"github.com/tink-crypto/tink-go/v2/prf/hkdfprf"
	"github.com/tink-crypto/tink-go/v2/signature/compositemldsa"
	"github.com/tink-crypto/tink-go/v2/hybrid"
	"github.com/tink-crypto/tink-go/v2/hybrid/hpke"
	"github.com/tink-crypto/tink-go/v2/signature"
	"github.com/tink-crypto/tink-go/v2/streamingaead"
)

func main() {
	// 1. hkdfprf salt
	salt := []byte("salt")
	p, _ := hkdfprf.NewParameters(32, hkdfprf.SHA256, salt)
	salt[0] = 'X'
	fmt.Printf("hkdfprf: Salt()=%q after caller changed its buffer\n", p.Salt())
	p.Salt()[1] = 'Y'
	fmt.Printf("hkdfprf: Salt()=%q after writing into the returned slice\n", p.Salt())
	// 2. hpke public key bytes
	kh, _ := keyset.NewHandle(hybrid.DHKEM_X25519_HKDF_SHA256_HKDF_SHA256_AES_128_GCM_Key_Template())
	pub, _ := kh.Public()
	e, _ := pub.Entry(0)
	pk := e.Key().(*hpke.PublicKey)
	before := bytes.Clone(pk.PublicKeyBytes())
	pk.PublicKeyBytes()[0] ^= 0xff
	fmt.Printf("hpke: key bytes changed through accessor result: %v\n", !bytes.Equal(before, pk.PublicKeyBytes()))
	// 3. streaming aad
	sh, _ := keyset.NewHandle(streamingaead.AES128GCMHKDF4KBKeyTemplate())
	s, _ := streamingaead.New(sh)
	aad := []byte("associated data")
	var buf bytes.Buffer
	w, _ := s.NewEncryptingWriter(&buf, aad)
	w.Write([]byte("hello"))
	w.Close()
	r, _ := s.NewDecryptingReader(bytes.NewReader(buf.Bytes()), aad)
	aad[0] ^= 1
	_, err := io.ReadAll(r)
	fmt.Printf("streaming: ReadAll after aad buffer changed post NewDecryptingReader: err=%v\n", err)
	// 4. jwt rsa modulus
	_ = jwtrsassapkcs1.PublicKeyOpts{}
	// 5. composite
	ch, err := keyset.NewHandle(signature.MLDSA65Ed25519KeyTemplateOrNil())
	_ = ch
	_ = compositemldsa.PublicKey{}
	_ = err
}
