// C19: no Tink operation writes into a caller-provided byte slice (within its length or in its spare
// capacity); returned slices share no memory with inputs nor with key / handle internals; overwriting
// an input after the call, or a returned value, never changes a key object, a handle, or later
// results of a primitive built before or after the overwrite.
//
// Engine E1: an OPERATION CATALOGUE enumerated exhaustively. Every []byte argument is carved out of a
// larger array (verif/ref/guardbuf.go: guard bytes | argument | spare-capacity canary | guard bytes;
// two-argument calls additionally ADJACENT in one array, both orders), cap-len in {0,1,64}, lengths
// {0,1,16,33}. Oracles: (1) no byte of any backing array changes during a call; (2) every returned
// slice, over its FULL capacity, is disjoint from every input array and from every slice returned
// earlier for the same object; (3) mutation differential against a TWIN built from pristine copies:
// after flipping every byte of every input array and of every returned value (incl. every bytes field
// of exported / caller protos, walked with protoreflect), keys are still Equal to their twins,
// KeysetInfo / KeysetMaterial proto-equal to the twin's, and a fixed probe sequence on primitives
// built BEFORE and AFTER the overwrite agrees with the twin's.
//
// Sections: primitives (every primitive class x key type x variant, full AND legacy primitives behind
// the full*Adapter of each factory: custom key managers + in-tree KmsEnvelopeAead), handles (keyset
// construction paths x key type x variant x spare), keys (typed constructors taking []byte, accessors,
// SerializeKey/ParseKey, parameters), secretdata, subtle, parameter-sweep (every valid declared
// parameter point of every key type of the catalogue verif/props/keycat, one key each).
//
// Don't-care cells (not judged): io.Writer / io.Reader objects handed to streaming primitives (the
// property speaks of byte slices); `subtle` CONSTRUCTORS retaining the caller's key slice are
// reported as outcome classes `subtle-retains-key:<ctor>` in the evidence, not as violations (the
// quantifier names primitive calls, key/parameter constructors and accessors, keyset read/write);
// strings; contents of an io.Reader.Read destination within its length (scratch space by contract).
package main

import (
	"fmt"
	"sync"

	"github.com/tink-crypto/tink-go/v2/key"
	"github.com/tink-crypto/tink-go/v2/verifbridge/vb"

	"github.com/tink-crypto/tink-go/v2/keyset"
	tinkpb "github.com/tink-crypto/tink-go/v2/proto/tink_go_proto"
	"github.com/tink-crypto/tink-go/v2/testkeyset"
	"verif/h"
	"verif/props/keycat"
	"verif/ref"
	"verif/tk"
)

func ids(x *h.X) []uint32 {
	if x.Thorough() {
		return tk.IDs
	}
	return tk.IDs[:1]
}

// thorough tier: more lengths around block boundaries, more spare capacities, every key ID of tk.IDs
var (
	thoroughLens   = []int{0, 1, 15, 16, 17, 33, 64, 65}
	thoroughSpares = []int{0, 1, 7, 64, 300}
)

func pickSource(x *h.X) (*source, int) {
	src := allSources[x.Choose("source", len(allSources))]
	x.Label(src.name)
	rep := x.Choose("rep", src.nreps)
	return src, rep
}

// primitivesSection: guarded calls of every method of the primitives of one key, then the mutation differential.
func primitivesSection(x *h.X) {
	src, rep := pickSource(x)
	adj := x.Choose("adjacency", 3)
	id := h.Pick(x, "id", ids(x))
	if src.class == keycat.ClassNone {
		return
	}
	priv, _, desc, err := src.get(rep, id)
	if err != nil {
		x.Fail("construct", "%s rep %d: %v", src.name, rep, err)
		return
	}
	lens, spares := ref.GuardLens, ref.GuardSpares
	if x.Thorough() {
		lens, spares = thoroughLens, thoroughSpares
	}
	if src.slow {
		// SLH-DSA signing costs 40 ms .. seconds: every layout, two lengths
		lens = []int{0, 33}
		if !x.Thorough() {
			spares = []int{1, 64}
		}
	}
	primitivesCase(x, src.class, src.legacy, priv, desc, []int{adj}, lens, spares)
}

func primitivesCase(x *h.X, class keycat.Class, legacy bool, priv *protoKey, desc string, adjs, lens, spares []int) {
	t := newTracker(x, fmt.Sprintf("%s [%v]", desc, class))
	twinH, err := twinHandle(priv)
	if err != nil {
		x.Fail("construct", "%s: twin: %v", t.what, err)
		return
	}
	twin, err := buildPrims(class, twinH)
	if err != nil {
		x.Fail("construct", "%s: twin primitives: %v", t.what, err)
		return
	}
	isPriv := priv.kd.KeyMaterialType == tinkpb.KeyData_ASYMMETRIC_PRIVATE
	want, err := viewOf(twinH, isPriv)
	if err != nil {
		x.Fail("construct", "%s: twin view: %v", t.what, err)
		return
	}
	gs := t.place(ref.GuardLayout{Spare: 1}, priv.kd.Value)
	ks := keysetOf(priv, gs.Args[0])
	var kh *keyset.Handle
	if notInKeysetProto(priv) {
		kh, _, err = managerHandle(priv, gs.Args[0])
	} else {
		kh, err = testkeyset.NewHandle(ks)
	}
	t.guards("testkeyset.NewHandle", gs)
	if err != nil {
		x.Fail("construct", "%s: %v", t.what, err)
		return
	}
	before, err := buildPrims(class, kh)
	if err != nil {
		x.Fail("construct", "%s: primitives: %v", t.what, err)
		return
	}
	x.NonTrivial()
	x.Outcome(fmt.Sprintf("%v/legacy=%v", class, legacy))
	d := &driver{t: t, p: before, tw: twin, legacy: legacy, lens: lens, spares: spares, adj: adjs}
	d.run()
	t.flipAll()
	scribble(ks)
	x.Eval(3)
	if err := sameAs(kh, want); err != nil {
		x.Fail("handle-changed:primitive-calls", "%s: after overwriting every input and output of the primitive calls: %v", t.what, err)
	}
	if err := agree(before, twin); err != nil {
		x.Fail("primitive-changed:primitive-calls", "%s: primitive used for the calls disagrees with the twin after all call inputs/outputs were overwritten: %v", t.what, err)
	}
	after, err := buildPrims(class, kh)
	if err != nil {
		x.Fail("primitive-changed:primitive-calls", "%s: primitive cannot be built after the overwrite: %v", t.what, err)
	} else if err := agree(after, twin); err != nil {
		x.Fail("primitive-changed:primitive-calls", "%s: primitive built after the overwrite disagrees with the twin: %v", t.what, err)
	}
	x.Count("returned-slices", t.nret)
	x.Count("guarded-calls", len(t.sets))
}

// sweep (quick: the key types with up to a few hundred valid points; thorough: all): every VALID declared parameter point of every key type of the catalogue
// (keycat's parameter domains: sizes, hashes, curves, KEM/KDF/AEAD ids, DEMs, encodings ...), one key
// each, reduced length/spare domains, all three adjacency modes.
var (
	sweepMu    sync.Mutex
	sweepCache = map[string][]*keycat.KeyCase{}
)

func sweepCases(f *keycat.Family) []*keycat.KeyCase {
	sweepMu.Lock()
	defer sweepMu.Unlock()
	if c, ok := sweepCache[f.Name]; ok {
		return c
	}
	var out []*keycat.KeyCase
	f.Enum(false, keycat.Whole(), func(_ string, declared bool, v ref.KSVariant, p key.Parameters, err error) {
		if err != nil || !declared {
			return
		}
		ks, err := f.Keys(p, v, 0x01020304, false)
		if err != nil || len(ks) == 0 {
			return
		}
		if ks[0].Key != nil {
			out = append(out, ks[0])
		}
	})
	sweepCache[f.Name] = out
	return out
}

// parameter domains with thousands of valid points are swept in the thorough tier only
var sweepThoroughOnly = map[string]bool{"AesCtrHmacAead": true, "AesCtrHmacStreaming": true, "EciesAeadHkdf": true, "Hmac": true, "RsaSsaPss": true}

func sweepFamilies() []*keycat.Family {
	var out []*keycat.Family
	for _, f := range keycat.Families() {
		if f.Enum != nil && f.Keys != nil && f.Class != keycat.ClassNone {
			out = append(out, f)
		}
	}
	return out
}

func sweepSection(x *h.X) {
	fams := sweepFamilies()
	f := fams[x.Choose("family", len(fams))]
	x.Label(f.Name)
	if !x.Thorough() && sweepThoroughOnly[f.Name] {
		x.Outcome("thorough-only:" + f.Name)
		return
	}
	cases := sweepCases(f)
	if len(cases) == 0 {
		return
	}
	kc := cases[x.Choose("param", len(cases))]
	x.Label(kc.Desc)
	kd, pt, kid, _, err := vb.SerializeKey(kc.Key)
	if err != nil {
		// e.g. RSA-SSA-PSS with salt length 0 (C12 known finding key-serialize-error:RsaSsaPss:salt0): no wire form, no keyset
		x.Outcome("n/a:key-not-serializable")
		return
	}
	priv := (&protoKey{kd, pt, kid}).clone()
	// key level at EVERY parameter point (the "keys" section sees the family's representatives only): constructors
	// whose copying depends on the parameters (per-KEM, per-curve, per-size validation helpers) are all visited
	var pub *protoKey
	if kc.Pub != nil {
		if kd, pt, kid, _, err := vb.SerializeKey(kc.Pub); err == nil {
			pub = (&protoKey{kd, pt, kid}).clone()
		}
	}
	keyLevelCases(x, fromCatalogue(f), priv.clone(), pub, kc.Desc)
	if sp, ok := kc.P.(interface{ SegmentSizeInBytes() int32 }); ok && sp.SegmentSizeInBytes() > 1<<20 {
		// every writer / reader allocates a segment buffer: gigabyte segments x 16 workers exceed the sandbox memory
		x.Outcome("n/a:streaming-segment-over-1MiB")
		return
	}
	// parameter points that are valid but not usable through the factories (non-recommended sizes,
	// derived-key types without deriver ...) are outside the catalogue
	if th, err := twinHandle(priv); err != nil {
		x.Outcome("n/a:no-handle")
		return
	} else if ps, err := buildPrims(f.Class, th); err != nil {
		x.Outcome("n/a:no-primitive-for-parameters")
		return
	} else if err := agree(ps, ps); err != nil {
		x.Outcome("n/a:primitive-unusable-for-parameters")
		return
	}
	lens, spares := []int{1, 33}, []int{1, 64}
	if f.Name == "SlhDsa" {
		lens, spares = []int{33}, []int{1}
	}
	primitivesCase(x, f.Class, false, priv, kc.Desc, []int{0, 1, 2}, lens, spares)
}

// handlesSection: keyset construction paths.
func handlesSection(x *h.X) {
	src, rep := pickSource(x)
	pi := x.Choose("path", len(ksPaths))
	path := ksPaths[pi]
	x.Label(path.name)
	spare := h.Pick(x, "spare", ref.GuardSpares)
	id := h.Pick(x, "id", ids(x))
	priv, pub, desc, err := src.get(rep, id)
	if err != nil {
		x.Fail("construct", "%s rep %d: %v", src.name, rep, err)
		return
	}
	if path.publicOnly {
		if pub != nil {
			if notInKeysetProto(pub) {
				x.Outcome("n/a:prefix-type-refused-by-keyset.Validate")
				return
			}
			x.Outcome("public-keyset/" + path.name)
			handleCase(x, src, pub, priv, desc+" (public)", path, spare)
			return
		}
		if hasSecretMaterial(priv) {
			x.Outcome("n/a:secret-material-on-public-path")
			return
		}
	}
	if notInKeysetProto(priv) && path.name != managerPath {
		x.Outcome("n/a:prefix-type-refused-by-keyset.Validate")
		return
	}
	x.Outcome(fmt.Sprintf("%s/legacy=%v", path.name, src.legacy))
	handleCase(x, src, priv, nil, desc, path, spare)
}

func main() {
	initSources()
	h.Main("C19", "exploration",
		"operation catalogue: (primitive class x key type x variant incl. legacy primitives behind every full*Adapter) x every method x guard layouts (cap-len {0,1,64} x {separate, adjacent both orders}) x lengths {0,1,16,33}^args; keyset construction paths x key type x variant x spare; typed constructors/accessors/SerializeKey/ParseKey of every key type; secretdata; subtle constructors and methods; parameter sweep (every valid declared parameter point of every key type, reduced lengths {1,33} / spares {1,64}, all adjacency modes; quick: key types with up to a few hundred points). Oracles: backing arrays unchanged by the call; returned slices (full capacity) disjoint from inputs and earlier results; twin differential after flipping every input and every returned byte. A case is non-trivial when the object was built and at least one guarded call was judged.",
		[]h.Section{
			{Name: "primitives", Body: primitivesSection, Bound: -1},
			{Name: "handles", Body: handlesSection, Bound: -1},
			{Name: "keys", Body: keysSection, Bound: -1},
			{Name: "secretdata", Body: secretdataSection, Bound: -1},
			{Name: "subtle", Body: subtleSection, Bound: -1},
			{Name: "parameter-sweep", Body: sweepSection, Bound: -1},
		})
}
