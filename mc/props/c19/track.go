package main

import (
	"bytes"
	"fmt"
	"sort"
	"unsafe"

	"google.golang.org/protobuf/proto"
	"google.golang.org/protobuf/reflect/protoreflect"

	"verif/h"
	"verif/ref"
)

type namedSlice struct {
	op string
	b  []byte
}

// tracker carries the memory bookkeeping of ONE object under test (a primitive bundle, a key, a
// handle): every guarded input placed for it, every slice it returned.
type tracker struct {
	x      *h.X
	what   string
	sets   []*ref.GuardSet
	rets   []namedSlice
	noflip []namedSlice // returned memory already reported as aliasing internals: never overwritten (the consequence is reported under the alias key)
	nret   int
}

func newTracker(x *h.X, what string) *tracker { return &tracker{x: x, what: what} }

// place lays the arguments of one call out in guarded arrays.
func (t *tracker) place(l ref.GuardLayout, contents ...[]byte) *ref.GuardSet {
	gs := ref.PlaceArgs(l, contents...)
	t.sets = append(t.sets, gs)
	return gs
}

// drop forgets a guarded input (used after it was reported as retained by the object: the buffer is
// then left alone so that the consequence is reported under that one key only).
func (t *tracker) drop(gs *ref.GuardSet) {
	for i, s := range t.sets {
		if s == gs {
			t.sets = append(t.sets[:i], t.sets[i+1:]...)
			return
		}
	}
}

// guards is oracle (1): after the call no byte of the backing arrays of its arguments changed.
func (t *tracker) guards(op string, gs *ref.GuardSet) bool {
	t.x.Eval(1)
	if d := gs.Changed(); d != "" {
		t.x.Fail("caller-buffer-written:"+op, "%s: %s wrote into a caller buffer: %s", t.what, op, d)
		gs.Flip()
		gs.Flip() // re-snapshot (two complements = identity) so that the same write is reported once
		return false
	}
	return true
}

// ret is oracle (2): a returned slice (full capacity) shares no memory with any input placed so far
// nor with any slice returned earlier for this object. It then takes ownership (the slice is kept
// alive and overwritten by flipAll).
func (t *tracker) ret(op string, b []byte) bool {
	t.x.Eval(1)
	ok := true
	if cap(b) != 0 {
		for _, gs := range t.sets {
			if gs.Shares(b) {
				t.x.Fail("result-aliases-input:"+op, "%s: slice returned by %s (len %d cap %d) lies inside a caller input buffer (layout %v)", t.what, op, len(b), cap(b), gs.Layout)
				ok = false
				break
			}
		}
		for _, r := range t.rets {
			if ref.SharesMemory(r.b, b) {
				t.x.Fail("result-aliases-result:"+op, "%s: slice returned by %s shares memory with the slice returned earlier by %s", t.what, op, r.op)
				ok = false
				break
			}
		}
		for _, r := range t.noflip {
			if ref.SharesMemory(r.b, b) {
				t.x.Fail("result-aliases-result:"+op, "%s: slice returned by %s shares memory with internal memory handed out by %s", t.what, op, r.op)
				ok = false
				break
			}
		}
	}
	if ok {
		t.rets = append(t.rets, namedSlice{op, b})
	} else {
		t.noflip = append(t.noflip, namedSlice{op, b})
	}
	t.nret++
	return ok
}

// retProto applies ret to every bytes field reachable in m.
func (t *tracker) retProto(op string, m proto.Message) {
	walkBytes(m.ProtoReflect(), func(path string, b []byte) { t.ret(op+"{"+path+"}", b) })
}

// flipAll overwrites every input buffer (guards, arguments, spare capacity) and every returned slice
// (full capacity) with its complement, each byte exactly once.
func (t *tracker) flipAll() {
	var rs []ref.MemRange
	for _, gs := range t.sets {
		rs = append(rs, gs.Ranges()...)
	}
	for _, r := range t.rets {
		if rg := ref.RangeOf(r.b); !rg.Empty() {
			rs = append(rs, rg)
		}
	}
	sort.Slice(rs, func(i, j int) bool { return rs[i].Lo < rs[j].Lo })
	var merged []ref.MemRange
	for _, r := range rs {
		if n := len(merged); n > 0 && r.Lo <= merged[n-1].Hi {
			if r.Hi > merged[n-1].Hi {
				merged[n-1].Hi = r.Hi
			}
			continue
		}
		merged = append(merged, r)
	}
	// never touch memory reported as internal
	for _, m := range merged {
		skip := false
		for _, nf := range t.noflip {
			if ref.RangeOf(nf.b).Intersects(m) {
				skip = true
			}
		}
		if skip {
			continue
		}
		b := unsafe.Slice((*byte)(unsafe.Pointer(m.Lo)), int(m.Hi-m.Lo))
		for i := range b {
			b[i] ^= 0xff
		}
	}
	// the snapshots of the guard sets are stale now; the sets are not checked again
}

// walkBytes visits every bytes field (singular, repeated, map values) reachable in a message.
func walkBytes(m protoreflect.Message, f func(path string, b []byte)) {
	m.Range(func(fd protoreflect.FieldDescriptor, v protoreflect.Value) bool {
		name := string(fd.Name())
		switch {
		case fd.IsList():
			l := v.List()
			for i := 0; i < l.Len(); i++ {
				walkValue(fd, l.Get(i), fmt.Sprintf("%s[%d]", name, i), f)
			}
		case fd.IsMap():
			v.Map().Range(func(k protoreflect.MapKey, mv protoreflect.Value) bool {
				walkValue(fd.MapValue(), mv, name+"["+k.String()+"]", f)
				return true
			})
		default:
			walkValue(fd, v, name, f)
		}
		return true
	})
}

func walkValue(fd protoreflect.FieldDescriptor, v protoreflect.Value, path string, f func(string, []byte)) {
	switch fd.Kind() {
	case protoreflect.BytesKind:
		f(path, v.Bytes())
	case protoreflect.MessageKind, protoreflect.GroupKind:
		walkBytes(v.Message(), func(p string, b []byte) { f(path+"."+p, b) })
	}
}

func clone(b []byte) []byte { return bytes.Clone(b) }
