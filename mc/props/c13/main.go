// C13: secret key material leaves a handle only via insecure or encrypted paths.
//
// Bounded-exhaustive enumeration (engine E1) over the key catalogue verif/props/keycat:
//
//	nosecrets   keysets of size 1..3 over one representative per type URL, the secret key in EVERY position,
//	            mixed with public / remote keys, every status: NewHandleWithNoSecrets, ReadWithNoSecrets
//	            (binary/JSON/mem) and WriteWithNoSecrets (binary/JSON/mem) fail iff a secret key is present;
//	            a failed write emits no byte
//	labels      every (type URL x KeyMaterialType label) pair, alone and behind a genuine public key, fed to
//	            NewHandleWithNoSecrets
//	no-leak     String(), KeysetInfo(), every encrypted writer output: no 8-byte window of any secret byte
//	            string (raw / base64 / hex / text-escaped); outputs contain only metadata besides the
//	            ciphertext; an independent decryption yields exactly the serialised keyset
//	binding     wrong KEK (other key, other algorithm), every bit of the associated data flipped, AD
//	            extended / truncated, ciphertext of another context => read fails
//	encrypted-odd-kek   histories of 2-3 encrypted writes with odd-but-legal KEKs (verif/env OddAEAD), judged after
//	            the whole history: see oddkek.go
//
// Reference classification (verif/ref KSLabelIsSecret): symmetric, private, UNKNOWN and out-of-range
// labels are secret; ground truth about a type URL comes from the catalogue, not from the label.
//
// Don't-care cells: a PUBLIC key mislabelled REMOTE (or a remote key labelled PUBLIC) carries no secret and
// may be accepted or refused; key types unknown to the catalogue labelled PUBLIC/REMOTE (content unknowable);
// whether the binary writer keeps KeysetInfo (metadata only; recorded as an outcome class).
//
// KNOWN FINDING (confirmed): the HMAC, AES-CMAC and PRF proto parsers deliberately skip the key-material-type
// check, so secret keys of these types labelled ASYMMETRIC_PUBLIC / REMOTE pass NewHandleWithNoSecrets. Each
// accepted (type, label) pair has its own finding key mislabelled-secret-accepted:<type>:<label>.
package main

import (
	"bytes"
	"crypto/aes"
	"crypto/cipher"
	"encoding/base64"
	"encoding/json"
	"fmt"
	"os"
	"strings"

	"golang.org/x/crypto/chacha20poly1305"
	"google.golang.org/protobuf/encoding/prototext"
	"google.golang.org/protobuf/proto"

	"github.com/tink-crypto/tink-go/v2/insecurecleartextkeyset"
	"github.com/tink-crypto/tink-go/v2/keyset"
	tinkpb "github.com/tink-crypto/tink-go/v2/proto/tink_go_proto"
	"github.com/tink-crypto/tink-go/v2/verifbridge/vb"
	"verif/h"
	"verif/props/keycat"
	"verif/ref"
)

// survey mode (development aid): tally failures as outcome classes instead of stopping at the violation cap
var survey = os.Getenv("VERIF_C13_SURVEY") != ""

func failf(x *h.X, key, format string, a ...any) {
	if survey {
		x.Outcome("SURVEY-FAIL " + key + " e.g. " + fmt.Sprintf(format, a...))
		return
	}
	x.Fail(key, format, a...)
}

var posIDs = []uint32{0x01020304, 0xFFFFFFFF, 0}

var statuses = []tinkpb.KeyStatusType{tinkpb.KeyStatusType_ENABLED, tinkpb.KeyStatusType_DISABLED, tinkpb.KeyStatusType_DESTROYED}

func secretUnits() (sec, pub []keycat.Unit) {
	for _, u := range keycat.Units() {
		it := keycat.Item{KC: &keycat.KeyCase{Fam: u.Fam}, Public: u.Public}
		if it.Secret() {
			sec = append(sec, u)
		} else {
			pub = append(pub, u)
		}
	}
	return
}

func unitNames(us []keycat.Unit) []string {
	var out []string
	for _, u := range us {
		out = append(out, u.Name())
	}
	return out
}

func describe(items []keycat.Item) string {
	var s []string
	for _, it := range items {
		p := ""
		if it.Primary {
			p = "*"
		}
		sec := "public"
		if it.Secret() {
			sec = "SECRET"
		}
		s = append(s, fmt.Sprintf("%s%s(%s,%v,%v,id=%#x)", p, strings.TrimPrefix(it.URL(), keycat.URLPrefix), sec, it.KC.Variant, it.Status, it.ID))
	}
	return "[" + strings.Join(s, " ") + "]"
}

// protoKeyset is the cleartext proto of the items (what an attacker-supplied / stored keyset looks like).
func protoKeyset(items []keycat.Item) (*tinkpb.Keyset, error) {
	ks := &tinkpb.Keyset{}
	for _, it := range items {
		kd, pt, _, _, err := vb.SerializeKey(it.Key())
		if err != nil {
			return nil, err
		}
		ks.Key = append(ks.Key, &tinkpb.Keyset_Key{KeyData: kd, Status: it.Status, KeyId: it.ID, OutputPrefixType: pt})
		if it.Primary {
			ks.PrimaryKeyId = it.ID
		}
	}
	return ks, nil
}

func serialise(format string, m proto.Message) []byte {
	var buf bytes.Buffer
	var err error
	switch format {
	case "binary":
		w := keyset.NewBinaryWriter(&buf)
		if ks, ok := m.(*tinkpb.Keyset); ok {
			err = w.Write(ks)
		} else {
			err = w.WriteEncrypted(m.(*tinkpb.EncryptedKeyset))
		}
	case "json":
		w := keyset.NewJSONWriter(&buf)
		if ks, ok := m.(*tinkpb.Keyset); ok {
			err = w.Write(ks)
		} else {
			err = w.WriteEncrypted(m.(*tinkpb.EncryptedKeyset))
		}
	}
	if err != nil {
		panic(err)
	}
	return buf.Bytes()
}

func reader(format string, ks *tinkpb.Keyset) keyset.Reader {
	switch format {
	case "binary":
		return keyset.NewBinaryReader(bytes.NewReader(serialise("binary", ks)))
	case "json":
		return keyset.NewJSONReader(bytes.NewReader(serialise("json", ks)))
	}
	return &keyset.MemReaderWriter{Keyset: ks}
}

// ---- nosecrets: secret key in every position ----------------------------------------------------

func noSecretsSection(x *h.X) {
	sec, pub := secretUnits()
	n := 1 + x.Choose("size-1", 3)
	// mask of secret positions (0 = public-only keyset)
	mask := x.Choose("secret-positions", 1<<n)
	x.Label(fmt.Sprintf("%0*b", n, mask))
	su := x.Choose("secret-unit", len(sec))
	x.Label(sec[su].Name())
	pu := x.Choose("public-unit", len(pub))
	x.Label(pub[pu].Name())
	// statuses: the first public key is the primary if there is one; otherwise the first secret key
	var units []keycat.Unit
	for i := 0; i < n; i++ {
		if mask>>i&1 == 1 {
			units = append(units, sec[(su+i)%len(sec)])
		} else {
			units = append(units, pub[(pu+i)%len(pub)])
		}
	}
	prim := x.Choose("primary", n)
	st := make([]tinkpb.KeyStatusType, n)
	for i := 0; i < n; i++ {
		if i == prim {
			st[i] = tinkpb.KeyStatusType_ENABLED
		} else {
			st[i] = statuses[x.Choose(fmt.Sprintf("status%d", i), 3)]
		}
	}
	var items []keycat.Item
	anySecret := false
	for i, u := range units {
		it, err := keycat.RepItem(u, su+pu+i, posIDs[i])
		if err != nil {
			failf(x, "harness-construct", "%s: %v", u.Name(), err)
			return
		}
		it.Status, it.Primary = st[i], i == prim
		items = append(items, it)
		anySecret = anySecret || it.Secret()
	}
	cfg := describe(items)
	ks, err := protoKeyset(items)
	if err != nil {
		failf(x, "harness-construct", "%s: %v", cfg, err)
		return
	}
	for _, it := range items {
		if it.KC.Variant == ref.KSRawWithID {
			// keysets with prefix type WITH_ID_REQUIREMENT are unreadable (C12 finding): not a C13 subject
			x.Outcome("nosecrets/skipped-unreadable-prefix-type")
			return
		}
	}
	x.NonTrivial()
	judge := func(api string, err error) {
		x.Eval(1)
		switch {
		case anySecret && err == nil:
			failf(x, "secret-accepted:"+api, "%s: %s succeeds although the keyset contains secret key material", cfg, api)
		case !anySecret && err != nil:
			failf(x, "public-refused:"+api, "%s: %s fails for a public/remote-only keyset: %v", cfg, api, err)
		case anySecret:
			x.Outcome("nosecrets/" + api + "/refused")
		default:
			x.Outcome("nosecrets/" + api + "/accepted")
		}
	}
	_, err = keyset.NewHandleWithNoSecrets(proto.Clone(ks).(*tinkpb.Keyset))
	judge("NewHandleWithNoSecrets", err)
	for _, f := range keycat.Formats {
		hd, err := keyset.ReadWithNoSecrets(reader(f, ks))
		judge("ReadWithNoSecrets/"+f, err)
		if err == nil && !anySecret {
			if !proto.Equal(hd.KeysetInfo(), expectedInfo(items)) {
				failf(x, "nosecrets-read-differs", "%s: handle read with ReadWithNoSecrets/%s has KeysetInfo %v", cfg, f, hd.KeysetInfo())
			}
		}
	}
	orig, err := keycat.BuildHandle(items)
	if err != nil {
		failf(x, "harness-construct", "%s: %v", cfg, err)
		return
	}
	for _, f := range keycat.Formats {
		var buf bytes.Buffer
		mem := &keyset.MemReaderWriter{}
		var w keyset.Writer = mem
		switch f {
		case "binary":
			w = keyset.NewBinaryWriter(&buf)
		case "json":
			w = keyset.NewJSONWriter(&buf)
		}
		err := orig.WriteWithNoSecrets(w)
		judge("WriteWithNoSecrets/"+f, err)
		if anySecret && (buf.Len() > 0 || mem.Keyset != nil || mem.EncryptedKeyset != nil) {
			failf(x, "secret-written", "%s: WriteWithNoSecrets/%s handed %d bytes / a keyset to the writer although it reports %v", cfg, f, buf.Len(), err)
		}
	}
}

func expectedInfo(items []keycat.Item) *tinkpb.KeysetInfo {
	ki := &tinkpb.KeysetInfo{}
	for _, it := range items {
		ki.KeyInfo = append(ki.KeyInfo, &tinkpb.KeysetInfo_KeyInfo{TypeUrl: it.URL(), Status: it.Status, KeyId: it.ID,
			OutputPrefixType: tinkpb.OutputPrefixType(ref.KSPrefixTypeNumber(it.KC.Variant))})
		if it.Primary {
			ki.PrimaryKeyId = it.ID
		}
	}
	return ki
}

// ---- labels: every (type URL x label) -------------------------------------------------------------

var labels = []int32{0, 1, 2, 3, 4, 5, 99, -1}

func labelDomain(x *h.X) []int32 {
	if x.Thorough() {
		return append(append([]int32{}, labels...), 6, 7, 127, 128, 1<<31-1, -2, -1<<31)
	}
	return labels
}

func labelName(l int32) string {
	if n, ok := tinkpb.KeyData_KeyMaterialType_name[l]; ok {
		return n
	}
	return fmt.Sprintf("OUT_OF_RANGE(%d)", l)
}

// labelClass is the label part of a finding key: all numbers outside the enum form one class.
func labelClass(l int32) string {
	if _, ok := tinkpb.KeyData_KeyMaterialType_name[l]; ok {
		return labelName(l)
	}
	return "OUT_OF_RANGE"
}

func labelsSection(x *h.X) {
	units := keycat.Units()
	u := units[x.Choose("unit", len(units))]
	x.Label(u.Name())
	label := h.Pick(x, "label", labelDomain(x))
	x.Label(labelName(label))
	place := h.Pick(x, "placement", []string{"alone", "second-after-public-key", "first-before-public-key(disabled)"})
	rep := x.Choose("variant-rep", u.Fam.NumReps())
	it, err := keycat.RepItem(u, rep, 0x01020304)
	if err != nil {
		failf(x, "harness-construct", "%s: %v", u.Name(), err)
		return
	}
	if it.KC.Variant == ref.KSRawWithID {
		x.Outcome("labels/skipped-unreadable-prefix-type")
		return
	}
	it.Primary = true
	kd, pt, _, _, err := vb.SerializeKey(it.Key())
	if err != nil {
		failf(x, "harness-construct", "%s: %v", u.Name(), err)
		return
	}
	correct := kd.GetKeyMaterialType()
	kd.KeyMaterialType = tinkpb.KeyData_KeyMaterialType(label)
	ks := &tinkpb.Keyset{PrimaryKeyId: it.ID, Key: []*tinkpb.Keyset_Key{{KeyData: kd, Status: tinkpb.KeyStatusType_ENABLED, KeyId: it.ID, OutputPrefixType: pt}}}
	if place != "alone" {
		_, pub := secretUnits()
		pit, err := keycat.RepItem(pub[0], 0, 77)
		if err != nil {
			failf(x, "harness-construct", "%v", err)
			return
		}
		pkd, ppt, _, _, _ := vb.SerializeKey(pit.Key())
		pk := &tinkpb.Keyset_Key{KeyData: pkd, Status: tinkpb.KeyStatusType_ENABLED, KeyId: pit.ID, OutputPrefixType: ppt}
		if place == "second-after-public-key" {
			ks.Key = append([]*tinkpb.Keyset_Key{pk}, ks.Key...)
		} else {
			ks.Key[0].Status = tinkpb.KeyStatusType_DISABLED
			ks.Key = append(ks.Key, pk)
		}
		ks.PrimaryKeyId = pit.ID
	}
	truthSecret := it.Secret()
	unknownType := !strings.HasPrefix(u.URL(), keycat.URLPrefix)
	mustFail := truthSecret || ref.KSLabelIsSecret(label)
	mustSucceed := !truthSecret && !unknownType && int32(correct) == label
	cfg := fmt.Sprintf("%s (%v) labelled %s, %s", u.Name(), it.KC.Variant, labelName(label), place)
	x.NonTrivial()
	for _, api := range []string{"NewHandleWithNoSecrets", "ReadWithNoSecrets/binary", "ReadWithNoSecrets/json"} {
		var hd *keyset.Handle
		var err error
		switch api {
		case "NewHandleWithNoSecrets":
			hd, err = keyset.NewHandleWithNoSecrets(proto.Clone(ks).(*tinkpb.Keyset))
		case "ReadWithNoSecrets/binary":
			hd, err = keyset.ReadWithNoSecrets(reader("binary", ks))
		default:
			if label < 0 || label > 4 {
				continue // protojson cannot express an out-of-range enum by name; numeric form covered by binary
			}
			hd, err = keyset.ReadWithNoSecrets(reader("json", ks))
		}
		x.Eval(1)
		switch {
		case err == nil && unknownType && !ref.KSLabelIsSecret(label):
			// a type the library does not know, labelled public/remote: the label is all there is to judge
			x.Outcome("labels/unknown-type-url-trusts-public-label")
		case mustFail && err == nil && truthSecret:
			works := ""
			if place == "alone" && keycat.Interop(it.Class(), hd, hd, nil) == nil {
				works = " and the handle yields a working " + it.Class().String() + " primitive"
			}
			failf(x, fmt.Sprintf("mislabelled-secret-accepted:%s:%s", u.Name(), labelClass(label)),
				"%s: %s accepts a keyset whose key is %v material labelled %s%s", cfg, api, correct, labelName(label), works)
		case mustFail && err == nil && label >= 0 && label <= 2:
			failf(x, fmt.Sprintf("secret-label-accepted:%s", labelName(label)), "%s: %s accepts key material labelled %s", cfg, api, labelName(label))
		case mustFail && err == nil:
			failf(x, fmt.Sprintf("unknown-label-accepted:%s:%s", u.Name(), labelClass(label)), "%s: %s accepts key material whose material type %s is not a known type", cfg, api, labelName(label))
		case mustSucceed && err != nil:
			failf(x, "public-refused:"+api, "%s: %s refuses a correctly labelled public/remote key: %v", cfg, api, err)
		case err == nil:
			x.Outcome("labels/accepted/" + labelName(label))
		default:
			x.Outcome("labels/refused/" + labelName(label))
		}
	}
}

// ---- no-leak ---------------------------------------------------------------------------------------

func windowSet(items []keycat.Item) *ref.KSWindowSet {
	ws := ref.KSNewWindowSet(8)
	// what the writer object wrote BEFORE the judged write (keycat: a large cleartext decoy) must not reappear either
	ws.Add("the decoy keyset written earlier through the same writer object", keycat.DecoySecret)
	for i, it := range items {
		if !it.Secret() {
			continue
		}
		for _, m := range it.KC.Mat {
			if m.Secret {
				ws.Add(fmt.Sprintf("key#%d(%s).%s", i, it.KC.Fam.Name, m.Name), m.B)
			}
		}
	}
	return ws
}

func scan(x *h.X, ws *ref.KSWindowSet, what, cfg string, data []byte) {
	x.Eval(1)
	if n, form := ws.Find(data); n != "" {
		failf(x, "leak:"+what, "%s: %s contains an 8-byte window of secret %s (%s form)", cfg, what, n, form)
	}
}

// overhead of the RAW key-encryption AEADs: nonce + tag.
var kekOverhead = []int{12 + 16, 12 + 16, 24 + 16}

// independentDecrypt opens a KEK ciphertext without tink code.
func independentDecrypt(kek int, raw, ct, ad []byte) ([]byte, error) {
	switch kek {
	case 0:
		if len(ct) < 28 {
			return nil, fmt.Errorf("short ciphertext")
		}
		b, err := aes.NewCipher(raw)
		if err != nil {
			return nil, err
		}
		g, err := cipher.NewGCM(b)
		if err != nil {
			return nil, err
		}
		return g.Open(nil, ct[:12], ct[12:], ad)
	case 1:
		if len(ct) < 28 {
			return nil, fmt.Errorf("short ciphertext")
		}
		pt, ok := ref.AeadGCMSIVOpen(raw, ct[:12], ct[12:], ad)
		if !ok {
			return nil, fmt.Errorf("AES-GCM-SIV authentication failed")
		}
		return pt, nil
	default:
		if len(ct) < 40 {
			return nil, fmt.Errorf("short ciphertext")
		}
		a, err := chacha20poly1305.NewX(raw)
		if err != nil {
			return nil, err
		}
		return a.Open(nil, ct[:24], ct[24:], ad)
	}
}

func leakKeyset(x *h.X) (items []keycat.Item, ok bool) {
	units := keycat.Units()
	maxN := 2
	if x.Thorough() {
		maxN = 3
	}
	n := 1 + x.Choose("size-1", maxN)
	u1 := x.Choose("unit1", len(units))
	x.Label(units[u1].Name())
	idx := []int{u1}
	if n >= 2 {
		// further keys: cyclic neighbours (mixes classes and public/secret); thorough: every second unit
		if x.Thorough() {
			idx = append(idx, x.Choose("unit2", len(units)))
		} else {
			d := []int{1, 7}[x.Choose("neighbour", 2)]
			idx = append(idx, (u1+d)%len(units))
		}
		if n == 3 {
			idx = append(idx, (idx[0]+idx[1]+5)%len(units))
		}
	}
	rep := x.Choose("variant-rep", units[u1].Fam.NumReps())
	for i, ui := range idx {
		it, err := keycat.RepItem(units[ui], rep+i, posIDs[i])
		if err != nil {
			failf(x, "harness-construct", "%s: %v", units[ui].Name(), err)
			return nil, false
		}
		it.Primary = i == 0
		if i > 0 {
			it.Status = statuses[(u1+rep)%3]
		}
		if it.KC.Variant == ref.KSRawWithID {
			x.Outcome("skipped-unreadable-prefix-type")
			return nil, false
		}
		items = append(items, it)
	}
	return items, true
}

func allowedJSONKeys(v any, allowed map[string]bool, path string) error {
	switch t := v.(type) {
	case map[string]any:
		for k, e := range t {
			if !allowed[k] {
				return fmt.Errorf("unexpected JSON member %q at %s", k, path)
			}
			if err := allowedJSONKeys(e, allowed, path+"."+k); err != nil {
				return err
			}
		}
	case []any:
		for _, e := range t {
			if err := allowedJSONKeys(e, allowed, path+"[]"); err != nil {
				return err
			}
		}
	}
	return nil
}

func noLeakSection(x *h.X) {
	items, ok := leakKeyset(x)
	if !ok {
		return
	}
	cfg := describe(items)
	hd, err := keycat.BuildHandle(items)
	if err != nil {
		failf(x, "harness-construct", "%s: %v", cfg, err)
		return
	}
	ws := windowSet(items)
	want := expectedInfo(items)
	x.NonTrivial()
	// String() and KeysetInfo(): metadata only
	str := hd.String()
	scan(x, ws, "String()", cfg, []byte(str))
	scan(x, ws, "String()", cfg, ref.KSUnescapeText(str))
	parsed := &tinkpb.KeysetInfo{}
	if err := (prototext.UnmarshalOptions{DiscardUnknown: false}).Unmarshal([]byte(str), parsed); err != nil {
		failf(x, "string-not-keysetinfo", "%s: String() is not the text form of a KeysetInfo (contains something else): %v: %q", cfg, err, str)
	} else if !proto.Equal(parsed, want) {
		failf(x, "string-not-keysetinfo", "%s: String() = %q, expected exactly the metadata %v", cfg, str, want)
	}
	info := hd.KeysetInfo()
	if !proto.Equal(info, want) || len(info.ProtoReflect().GetUnknown()) > 0 {
		failf(x, "keysetinfo-differs", "%s: KeysetInfo() = %v, expected exactly %v", cfg, info, want)
	}
	ib, _ := proto.Marshal(info)
	scan(x, ws, "KeysetInfo()", cfg, ib)
	scan(x, ws, "KeysetInfo()", cfg, []byte(prototext.Format(info)))
	for _, ki := range info.GetKeyInfo() {
		if len(ki.ProtoReflect().GetUnknown()) > 0 {
			failf(x, "keysetinfo-differs", "%s: KeyInfo carries unknown fields", cfg)
		}
	}
	// encrypted outputs
	clear := insecurecleartextkeyset.KeysetMaterial(hd)
	wantKS, err := protoKeyset(items)
	if err != nil || !proto.Equal(clear, wantKS) {
		failf(x, "harness-construct", "%s: cleartext keyset differs from the expectation (%v)", cfg, err)
		return
	}
	for _, io := range keycat.IOs() {
		if io.Kind != "encrypted" {
			continue
		}
		blob, err := io.Write(hd)
		if err != nil {
			failf(x, "write-error", "%s via %s: %v", cfg, io.Name, err)
			continue
		}
		var enc *tinkpb.EncryptedKeyset
		switch io.Format {
		case "binary":
			scan(x, ws, "binary encrypted output", cfg+" via "+io.Name, blob.Bytes)
			enc = &tinkpb.EncryptedKeyset{}
			if err := proto.Unmarshal(blob.Bytes, enc); err != nil {
				failf(x, "output-structure", "%s via %s: output is not an EncryptedKeyset: %v", cfg, io.Name, err)
				continue
			}
			if enc.GetKeysetInfo() != nil {
				x.Outcome("no-leak/binary-writer-keeps-keysetinfo")
			} else {
				x.Outcome("no-leak/binary-writer-drops-keysetinfo")
			}
		case "json":
			scan(x, ws, "JSON encrypted output", cfg+" via "+io.Name, blob.Bytes)
			var generic any
			if err := json.Unmarshal(blob.Bytes, &generic); err != nil {
				failf(x, "output-structure", "%s via %s: output is not JSON: %v", cfg, io.Name, err)
				continue
			}
			allowed := map[string]bool{"encryptedKeyset": true, "keysetInfo": true, "primaryKeyId": true, "keyInfo": true, "typeUrl": true, "status": true, "keyId": true, "outputPrefixType": true}
			if err := allowedJSONKeys(generic, allowed, "$"); err != nil {
				failf(x, "output-structure", "%s via %s: %v", cfg, io.Name, err)
			}
			top := generic.(map[string]any)
			for k := range top {
				if k != "encryptedKeyset" && k != "keysetInfo" {
					failf(x, "output-structure", "%s via %s: unexpected top-level member %q", cfg, io.Name, k)
				}
			}
			// every string in the JSON besides the ciphertext: decode as base64 if possible and scan raw
			var walkStrings func(v any, path string)
			walkStrings = func(v any, path string) {
				switch t := v.(type) {
				case map[string]any:
					for k, e := range t {
						walkStrings(e, path+"."+k)
					}
				case []any:
					for _, e := range t {
						walkStrings(e, path)
					}
				case string:
					if path == "$.encryptedKeyset" {
						return
					}
					for _, encd := range []*base64.Encoding{base64.StdEncoding, base64.RawStdEncoding, base64.URLEncoding, base64.RawURLEncoding} {
						if b, err := encd.DecodeString(t); err == nil {
							scan(x, ws, "JSON encrypted output (base64-decoded member "+path+")", cfg+" via "+io.Name, b)
						}
					}
				}
			}
			walkStrings(generic, "$")
			r := keyset.NewJSONReader(bytes.NewReader(blob.Bytes))
			if enc, err = r.ReadEncrypted(); err != nil {
				failf(x, "output-structure", "%s via %s: %v", cfg, io.Name, err)
				continue
			}
		default:
			enc = blob.Mem.EncryptedKeyset
			if blob.Mem.Keyset != nil {
				failf(x, "leak:mem-writer", "%s via %s: the encrypted write also stored the cleartext keyset in the writer", cfg, io.Name)
			}
		}
		if enc == nil {
			failf(x, "output-structure", "%s via %s: no EncryptedKeyset written", cfg, io.Name)
			continue
		}
		if len(enc.ProtoReflect().GetUnknown()) > 0 {
			failf(x, "output-structure", "%s via %s: EncryptedKeyset carries unknown fields %x", cfg, io.Name, enc.ProtoReflect().GetUnknown())
		}
		if ki := enc.GetKeysetInfo(); ki != nil {
			if !proto.Equal(ki, want) {
				failf(x, "output-keysetinfo", "%s via %s: embedded KeysetInfo %v, expected exactly the metadata %v", cfg, io.Name, ki, want)
			}
			kb, _ := proto.Marshal(ki)
			scan(x, ws, "embedded KeysetInfo", cfg+" via "+io.Name, kb)
		}
		ct := enc.GetEncryptedKeyset()
		scan(x, ws, "ciphertext blob", cfg+" via "+io.Name, ct)
		kek := keycat.KEKs(false)[io.KEK]
		pt, err := independentDecrypt(io.KEK, kek.Raw, ct, io.AD)
		x.Eval(1)
		if err != nil {
			failf(x, "ciphertext-not-kek-ad", "%s via %s: the ciphertext does not open under the given KEK and associated data with an independent %s implementation: %v", cfg, io.Name, kek.Name, err)
			continue
		}
		if len(ct) != len(pt)+kekOverhead[io.KEK] {
			failf(x, "output-structure", "%s via %s: ciphertext length %d for a %d-byte keyset", cfg, io.Name, len(ct), len(pt))
		}
		got := &tinkpb.Keyset{}
		if err := proto.Unmarshal(pt, got); err != nil || !proto.Equal(got, wantKS) {
			failf(x, "plaintext-differs", "%s via %s: the decrypted bytes are not the serialised keyset (%v)", cfg, io.Name, err)
		}
		if !bytes.Equal(pt, mustMarshal(clear)) {
			x.Outcome("no-leak/plaintext-proto-equal-but-other-bytes")
		} else {
			x.Outcome("no-leak/plaintext-byte-identical")
		}
	}
}

func mustMarshal(m proto.Message) []byte {
	b, err := proto.Marshal(m)
	if err != nil {
		panic(err)
	}
	return b
}

// ---- binding to KEK and associated data -----------------------------------------------------------

func bindingSection(x *h.X) {
	units := keycat.Units()
	ui := x.Choose("unit", len(units))
	x.Label(units[ui].Name())
	it, err := keycat.RepItem(units[ui], ui, 0x01020304)
	if err != nil {
		failf(x, "harness-construct", "%v", err)
		return
	}
	if it.KC.Variant == ref.KSRawWithID {
		it, err = keycat.RepItem(units[ui], 0, 0x01020304)
		if err != nil {
			failf(x, "harness-construct", "%v", err)
			return
		}
	}
	it.Primary = true
	other, err := keycat.RepItem(units[(ui+3)%len(units)], 0, 0x01020304)
	if err != nil || other.KC.Variant == ref.KSRawWithID {
		other = it
	}
	other.Primary = true
	hd, err := keycat.BuildHandle([]keycat.Item{it})
	if err != nil {
		failf(x, "harness-construct", "%v", err)
		return
	}
	hd2, err := keycat.BuildHandle([]keycat.Item{other})
	if err != nil {
		failf(x, "harness-construct", "%v", err)
		return
	}
	var ios []keycat.IO
	for _, io := range keycat.IOs() {
		if io.Kind == "encrypted" {
			ios = append(ios, io)
		}
	}
	io := ios[x.Choose("io", len(ios))]
	x.Label(io.Name)
	cfg := describe([]keycat.Item{it}) + " via " + io.Name
	blob, err := io.Write(hd)
	if err != nil {
		failf(x, "write-error", "%s: %v", cfg, err)
		return
	}
	x.NonTrivial()
	good := keycat.KEKs(false)[io.KEK].A
	// sanity: the right KEK and AD read it
	if _, err := io.ReadWith(blob, good, io.AD); err != nil {
		failf(x, "read-error", "%s: reading with the same KEK and associated data fails: %v", cfg, err)
		return
	}
	x.Eval(1)
	mustFail := func(what string, err error) {
		x.Eval(1)
		if err == nil {
			failf(x, "read-with-wrong-"+strings.SplitN(what, ":", 2)[0], "%s: read succeeds with %s", cfg, what)
		} else {
			x.Outcome("binding/refused/" + strings.SplitN(what, ":", 2)[0])
		}
	}
	// wrong KEK: another key of the same algorithm, and the other algorithms
	for k := 0; k < 3; k++ {
		if k != io.KEK {
			_, err := io.ReadWith(blob, keycat.KEKs(false)[k].A, io.AD)
			mustFail("kek: KEK of another algorithm "+keycat.KEKs(false)[k].Name, err)
		}
		_, err := io.ReadWith(blob, keycat.KEKs(true)[k].A, io.AD)
		mustFail("kek: another "+keycat.KEKs(true)[k].Name+" key", err)
	}
	if io.HasAD {
		ad := io.AD
		for bit := 0; bit < 8*len(ad); bit++ {
			bad := bytes.Clone(ad)
			bad[bit/8] ^= 1 << (bit % 8)
			_, err := io.ReadWith(blob, good, bad)
			mustFail(fmt.Sprintf("ad: associated data with bit %d flipped", bit), err)
		}
		_, err := io.ReadWith(blob, good, append(bytes.Clone(ad), 0))
		mustFail("ad: associated data extended by 00", err)
		if len(ad) > 0 {
			_, err := io.ReadWith(blob, good, ad[:len(ad)-1])
			mustFail("ad: associated data truncated", err)
			_, err = io.ReadWith(blob, good, nil)
			mustFail("ad: nil associated data", err)
			_, err = io.ReadWith(blob, good, []byte{})
			mustFail("ad: empty associated data", err)
		} else {
			// nil and empty associated data are the same associated data
			for _, eq := range [][]byte{nil, {}} {
				if _, err := io.ReadWith(blob, good, eq); err != nil {
					failf(x, "read-error", "%s: nil/empty associated data are not interchangeable: %v", cfg, err)
				}
			}
		}
		// the ciphertext of another context (other associated data, same KEK) presented in this one
		for ai, oad := range keycat.ADs {
			if bytes.Equal(oad, ad) {
				continue
			}
			o := io
			o.AD = oad
			b2, err := o.Write(hd2)
			if err != nil {
				failf(x, "write-error", "%s: %v", cfg, err)
				continue
			}
			_, err = io.ReadWith(b2, good, ad)
			mustFail(fmt.Sprintf("context: an EncryptedKeyset written for associated data #%d", ai), err)
		}
	} else {
		// Write() uses empty associated data: readable with ReadWithAssociatedData(empty) only
		o := io
		o.API = "WithAssociatedData"
		if _, err := o.ReadWith(blob, good, []byte{}); err != nil {
			failf(x, "read-error", "%s: Write() output is not readable with empty associated data: %v", cfg, err)
		}
		_, err := o.ReadWith(blob, good, []byte{0})
		mustFail("ad: associated data 00 for a keyset written without", err)
		_, err = o.ReadWith(blob, good, []byte("ad-5b"))
		mustFail("ad: five bytes of associated data for a keyset written without", err)
	}
	// swapped between KEKs: the EncryptedKeyset of another handle written under another KEK
	for k := 0; k < 3; k++ {
		if k == io.KEK {
			continue
		}
		o := io
		o.KEK = k
		b2, err := o.Write(hd2)
		if err != nil {
			failf(x, "write-error", "%s: %v", cfg, err)
			continue
		}
		_, err = io.ReadWith(b2, good, io.AD)
		mustFail("kek: an EncryptedKeyset written under "+keycat.KEKs(false)[k].Name, err)
	}
}

func main() {
	keycat.RegisterFakeKMS()
	h.Main("C13", "exploration",
		"keysets of size 1..3 over one representative per type URL with every subset of positions holding a secret key (every secret type x public type, primary position, statuses) against NewHandleWithNoSecrets / ReadWithNoSecrets / WriteWithNoSecrets x binary/JSON/mem; every (type URL x KeyMaterialType label in {0..5,99,-1}) x 3 placements; String()/KeysetInfo()/63 encrypted writer outputs scanned for every 8-byte window of every secret byte string in raw/base64/hex/escaped form and compared with the metadata-only expectation, ciphertext opened with an independent AEAD; wrong KEK / each AD bit / foreign context must fail to read; histories of 2-3 encrypted writes (7 shapes incl. a failing KEK between good writes) x first/later API x first/later writer (MemReaderWriter retaining its message, binary, JSON) x 6 odd-KEK behaviours (result inside the caller's buffer, decrypt sub-slice / cache, mixed) x keysets from 106 B to > 4 KiB (4068/4069/4096/4097-byte boundaries), everything the writers hold judged AFTER the history. Non-trivial = an API was exercised and judged; distinct = distinct choice vectors.",
		[]h.Section{
			{Name: "nosecrets", Body: noSecretsSection, Bound: -1},
			{Name: "nosecrets-foreign-and-large", Body: foreignLargeSection, Bound: -1},
			{Name: "labels", Body: labelsSection, Bound: -1},
			{Name: "no-leak", Body: noLeakSection, Bound: -1},
			{Name: "binding", Body: bindingSection, Bound: -1},
			{Name: "encrypted-odd-kek", Body: oddKEKSection, Bound: -1},
		})
}
