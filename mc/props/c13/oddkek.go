// C13, section encrypted-odd-kek: histories of encrypted writes with "odd but legal" key-encryption AEADs.
//
// The other sections use well-behaved KEKs (fresh result slices) and look at a writer right after ONE write. Here a
// history of two or three encrypted writes runs first and EVERYTHING the writers received / still hold is judged
// AFTER the whole history:
//
//	handles   symmetric key (106 B serialised), private key (195 B), small multi-key keyset (symmetric primary,
//	          disabled MAC key, public key), RSA private key (1.2 KiB), keysets padded to exactly 4068 / 4069 / 4096 /
//	          4097 serialised bytes (4068 + AES-GCM overhead = 4096), multi-key keyset > 4 KiB (RSA, RSA-PSS, ML-DSA,
//	          JWT ML-DSA private keys + symmetric key)
//	history   A,A | A,B | A,B,A | A,fail(B),A | A,fail(A),B | fail(A),A | A,fail(B)      fail = the KEK of that write
//	          is an env.OddAEAD with FailEncryptAt = 0
//	API       Write / WriteWithAssociatedData / WriteWithContext, first write x later writes
//	writer    keyset.MemReaderWriter (RETAINS the *EncryptedKeyset it was handed) / binary / JSON, first x later
//	KEK       env.OddAEAD around the real KEK: fresh slices | result inside the caller's plaintext buffer (or, without
//	          room, the caller's buffer overwritten with the ciphertext) | the two decrypt modes (used for reading
//	          back) | in-place KEK first, honest KEK afterwards | honest first, in-place afterwards
//
// Judged after the history, for every write of it:
//   - a good write returned nil; what its writer holds (retained message incl. KeysetInfo, marshalled message, byte
//     buffer) and every error string, String() and KeysetInfo() of both handles contain no 8-byte window of any
//     secret byte string of ANY handle of the history (raw / base64 / hex / text-escaped: the check's window search);
//   - the ciphertext still opens, with an independent AEAD, under the REAL wrapped KEK and the associated data of
//     THAT write, to exactly the keyset of the handle written at THAT step (an overwritten / corrupted / swapped
//     retained message is caught here), ciphertext length = keyset length + KEK overhead; embedded KeysetInfo is
//     exactly the metadata; no unknown fields, no cleartext keyset in the MemReaderWriter;
//   - a write whose KEK failed returned an error and its writer received NOTHING (no message, no cleartext keyset,
//     no byte);
//   - with the decrypt modes: reading every written keyset back twice through the odd KEK gives the written keyset;
//     a failing KEK (FailDecryptAt = 0) gives an error and no handle.
//
// Don't-care: OddAEAD.LastPlain (the buffer tink handed to the KEK; a KEK sees the cleartext by design) is used to
// CLASSIFY outcomes (did the KEK's answer live in the library's buffer?) and never judged; whether the binary writer
// keeps KeysetInfo; the wording of errors (only: no secret bytes in them); spare capacity of slices.
package main

import (
	"bytes"
	"context"
	"encoding/json"
	"fmt"
	"sync"

	"google.golang.org/protobuf/encoding/prototext"
	"google.golang.org/protobuf/proto"

	"github.com/tink-crypto/tink-go/v2/insecurecleartextkeyset"
	"github.com/tink-crypto/tink-go/v2/keyset"
	tinkpb "github.com/tink-crypto/tink-go/v2/proto/tink_go_proto"
	"github.com/tink-crypto/tink-go/v2/verifbridge/vb"
	"verif/env"
	"verif/h"
	"verif/props/keycat"
	"verif/ref"
)

// okCase is one secret-bearing keyset of the section (items are cached; a fresh handle is built per execution).
type okCase struct {
	name  string
	items []keycat.Item
	want  *tinkpb.Keyset
	info  *tinkpb.KeysetInfo
	ws    *ref.KSWindowSet
	size  int // serialised size of the cleartext keyset
}

var (
	okOnce  sync.Once
	okCases []*okCase
	okErr   error
	// okAll holds the secret windows of ALL keysets of the section: one search per artefact ("no cleartext secret of
	// any handle"; a chance hit of an 8-byte window inside a ciphertext has probability ~ 2^-50 per run)
	okAll = ref.KSNewWindowSet(8)
)

func okUnit(name string) (keycat.Unit, error) {
	for _, u := range keycat.Units() {
		if u.Name() == name {
			return u, nil
		}
	}
	return keycat.Unit{}, fmt.Errorf("no catalogue unit %q", name)
}

type okSpec struct {
	unit   string
	id     uint32
	status tinkpb.KeyStatusType
}

var okIDs = []uint32{0x01020304, 0xFFFFFFFF, 0, 0x7FFFFFFF, 5}

func okItems(units ...okSpec) ([]keycat.Item, error) {
	var items []keycat.Item
	for i, s := range units {
		u, err := okUnit(s.unit)
		if err != nil {
			return nil, err
		}
		it, err := keycat.RepItem(u, 0, s.id)
		if err != nil {
			return nil, fmt.Errorf("%s: %v", s.unit, err)
		}
		it.Status, it.Primary = s.status, i == 0
		items = append(items, it)
	}
	return items, nil
}

// okPad is a key of a type unknown to the tree (custom key manager route) with n secret value bytes.
func okPad(n int, id uint32) (keycat.Item, error) {
	fam := keycat.ByName("CustomSymmetric")
	val := ref.KeyBytes("c13/oddkek/pad", n)
	k, err := vb.ParseKey(&tinkpb.KeyData{TypeUrl: fam.URL, Value: val, KeyMaterialType: tinkpb.KeyData_SYMMETRIC}, tinkpb.OutputPrefixType_RAW, 0)
	if err != nil {
		return keycat.Item{}, err
	}
	kc := &keycat.KeyCase{Fam: fam, P: k.Parameters(), Variant: ref.KSRaw, Key: k, Desc: fmt.Sprintf("CustomSymmetric RAW value=rnd%d", n),
		Mat: []keycat.Mat{{Name: "whole-value", B: val, Secret: true}}}
	return keycat.Item{KC: kc, Status: tinkpb.KeyStatusType_ENABLED, ID: id}, nil
}

func okFinish(name string, items []keycat.Item) (*okCase, error) {
	want, err := protoKeyset(items)
	if err != nil {
		return nil, fmt.Errorf("%s: %v", name, err)
	}
	c := &okCase{name: name, items: items, want: want, info: expectedInfo(items), ws: windowSet(items), size: len(mustMarshal(want))}
	if c.ws.Len() == 0 {
		return nil, fmt.Errorf("%s: no secret window", name)
	}
	hd, err := keycat.BuildHandle(items)
	if err != nil {
		return nil, fmt.Errorf("%s: %v", name, err)
	}
	if !proto.Equal(insecurecleartextkeyset.KeysetMaterial(hd), want) {
		return nil, fmt.Errorf("%s: cleartext keyset of the handle differs from the expectation", name)
	}
	return c, nil
}

// okPadded: RSA private key (primary) + custom symmetric key padded so that the serialised keyset has exactly target bytes.
func okPadded(target int) (*okCase, error) {
	base, err := okItems(okSpec{"RsaSsaPkcs1PrivateKey", okIDs[0], tinkpb.KeyStatusType_ENABLED})
	if err != nil {
		return nil, err
	}
	n := target - 1400
	for try := 0; try < 8; try++ {
		pad, err := okPad(n, okIDs[1])
		if err != nil {
			return nil, err
		}
		items := append(append([]keycat.Item{}, base...), pad)
		ks, err := protoKeyset(items)
		if err != nil {
			return nil, err
		}
		if d := target - len(mustMarshal(ks)); d != 0 {
			n += d
			continue
		}
		return okFinish(fmt.Sprintf("padded-to-%d-bytes(RSA private key + %d-byte custom symmetric key)", target, n), items)
	}
	return nil, fmt.Errorf("no padding gives a %d-byte keyset", target)
}

const (
	en  = tinkpb.KeyStatusType_ENABLED
	dis = tinkpb.KeyStatusType_DISABLED
)

func okBuild() {
	add := func(c *okCase, err error) {
		if err != nil && okErr == nil {
			okErr = err
		}
		if c != nil {
			okCases = append(okCases, c)
		}
	}
	simple := func(name string, specs ...okSpec) {
		items, err := okItems(specs...)
		if err != nil {
			add(nil, err)
			return
		}
		add(okFinish(name, items))
	}
	// quick and thorough
	simple("symmetric(AesGcmKey)", okSpec{"AesGcmKey", okIDs[0], en})
	simple("private(EcdsaPrivateKey)", okSpec{"EcdsaPrivateKey", okIDs[0], en})
	simple("multi-small(AesSivKey*,HmacKey disabled,Ed25519PublicKey)", okSpec{"AesSivKey", okIDs[0], en}, okSpec{"HmacKey", okIDs[1], dis}, okSpec{"Ed25519PublicKey", okIDs[2], en})
	simple("private-1.2KiB(RsaSsaPkcs1PrivateKey)", okSpec{"RsaSsaPkcs1PrivateKey", okIDs[0], en})
	add(okPadded(4068))
	simple("multi-large>4KiB(RsaSsaPssPrivateKey*,RsaSsaPkcs1PrivateKey,MlDsaPrivateKey,JwtMlDsaPrivateKey disabled,AesGcmKey)",
		okSpec{"RsaSsaPssPrivateKey", okIDs[0], en}, okSpec{"RsaSsaPkcs1PrivateKey", okIDs[1], en}, okSpec{"MlDsaPrivateKey", okIDs[2], en},
		okSpec{"JwtMlDsaPrivateKey", okIDs[3], dis}, okSpec{"AesGcmKey", okIDs[4], en})
	// thorough only
	add(okPadded(4069))
	add(okPadded(4096))
	add(okPadded(4097))
	// key material shared between keysets is reported under the first (smallest) keyset that holds it
	for ci := len(okCases) - 1; ci >= 0; ci-- {
		c := okCases[ci]
		for i, it := range c.items {
			for _, m := range it.KC.Mat {
				if it.Secret() && m.Secret {
					okAll.Add(fmt.Sprintf("key#%d(%s).%s of keyset %s", i, it.KC.Fam.Name, m.Name, c.name), m.B)
				}
			}
		}
	}
}

const okQuickCases = 6

type okStep struct {
	b    bool // handle B (else A)
	fail bool // the KEK of this write fails
}

var okShapes = []struct {
	name  string
	steps []okStep
	needB bool
}{
	{"A,A", []okStep{{}, {}}, false},
	{"A,B", []okStep{{}, {b: true}}, true},
	{"A,B,A", []okStep{{}, {b: true}, {}}, true},
	{"A,fail(B),A", []okStep{{}, {b: true, fail: true}, {}}, true},
	{"A,fail(A),B", []okStep{{}, {fail: true}, {b: true}}, true},
	{"fail(A),A", []okStep{{fail: true}, {}}, false},
	{"A,fail(B)", []okStep{{}, {b: true, fail: true}}, true},
}

// KEK behaviour of a history: mode of the first write, mode of the later writes.
var okModes = []struct {
	name        string
	first, rest int
}{
	{"fresh-slices", env.AEADNormal, env.AEADNormal},
	{"encrypt-result-in-callers-buffer", env.AEADAliasEncrypt, env.AEADAliasEncrypt},
	{"decrypt-result-is-subslice", env.AEADDecryptSub, env.AEADDecryptSub},
	{"decrypt-result-from-cache", env.AEADCachedDecrypt, env.AEADCachedDecrypt},
	{"in-place-KEK-then-honest-KEK", env.AEADAliasEncrypt, env.AEADNormal},
	{"honest-KEK-then-in-place-KEK", env.AEADNormal, env.AEADAliasEncrypt},
}

var okAPIs = []string{"Write", "WriteWithAssociatedData", "WriteWithContext"}

// okWrite is one write of the history and everything its writer holds.
type okWrite struct {
	idx    int
	c      *okCase
	hd     *keyset.Handle
	fail   bool
	api    string
	ad     []byte // associated data the ciphertext is bound to
	format string
	mem    *keyset.MemReaderWriter
	buf    *bytes.Buffer
	odd    *env.OddAEAD
	err    error
	snap   []byte // the ciphertext as the MemReaderWriter held it right after this write
}

func (w *okWrite) String() string {
	f := ""
	if w.fail {
		f = " with a failing KEK"
	}
	return fmt.Sprintf("write #%d (%s of %s to a %s writer, KEK %s%s)", w.idx+1, w.api, w.c.name, w.format, env.AEADModeNames[w.odd.Mode], f)
}

func (w *okWrite) run() {
	var wr keyset.Writer
	switch w.format {
	case "binary":
		w.buf = &bytes.Buffer{}
		wr = keyset.NewBinaryWriter(w.buf)
	case "json":
		w.buf = &bytes.Buffer{}
		wr = keyset.NewJSONWriter(w.buf)
	default:
		w.mem = &keyset.MemReaderWriter{}
		wr = w.mem
	}
	switch w.api {
	case "Write":
		w.err = w.hd.Write(wr, w.odd)
		w.ad = []byte{}
	case "WriteWithAssociatedData":
		w.err = w.hd.WriteWithAssociatedData(wr, w.odd, w.ad)
	default:
		w.err = w.hd.WriteWithContext(context.Background(), wr, env.OddAEADCtx{O: w.odd}, w.ad)
	}
	if w.mem != nil && w.mem.EncryptedKeyset != nil {
		w.snap = bytes.Clone(w.mem.EncryptedKeyset.GetEncryptedKeyset())
	}
}

func okScan(x *h.X, sets []*okCase, what, cfg string, data []byte) {
	x.Eval(1)
	if n, form := okAll.Find(data); n != "" {
		failf(x, "oddkek-leak:"+what, "%s: after the history %s contains an 8-byte window of the cleartext secret %s (%s form)", cfg, what, n, form)
	}
}

func oddKEKSection(x *h.X) {
	okOnce.Do(okBuild)
	if okErr != nil {
		failf(x, "harness-construct", "encrypted-odd-kek keysets: %v", okErr)
		return
	}
	cases := okCases
	if !x.Thorough() {
		cases = okCases[:okQuickCases]
	}
	shape := okShapes[x.Choose("history", len(okShapes))]
	x.Label(shape.name)
	mode := okModes[x.Choose("kek-behaviour", len(okModes))]
	x.Label(mode.name)
	api1 := h.Pick(x, "api-first", okAPIs)
	api2 := h.Pick(x, "api-later", okAPIs)
	fmt1 := h.Pick(x, "writer-first", []string{"mem", "binary", "json"})
	fmt2 := h.Pick(x, "writer-later", []string{"mem", "binary", "json"})
	ai := x.Choose("keyset-A", len(cases))
	x.Label(cases[ai].name)
	bi := ai
	if shape.needB {
		if x.Thorough() {
			bi = x.Choose("keyset-B", len(cases))
		} else {
			// quick: the next keyset, or the one three further (small after large and large after small both occur)
			bi = (ai + []int{1, 3}[x.Choose("keyset-B", 2)]) % len(cases)
		}
		x.Label(cases[bi].name)
	}
	kekIdx := ai % 3
	if x.Thorough() {
		kekIdx = x.Choose("kek", 3)
	}
	real := keycat.KEKs(false)[kekIdx]
	x.Label(real.Name)

	pair := []*okCase{cases[ai], cases[bi]}
	sets := pair
	if ai == bi {
		sets = pair[:1]
	}
	hds := make([]*keyset.Handle, 2)
	for i, c := range pair {
		hd, err := keycat.BuildHandle(c.items)
		if err != nil {
			failf(x, "harness-construct", "%s: %v", c.name, err)
			return
		}
		hds[i] = hd
	}
	cfg := fmt.Sprintf("history %s [A=%s B=%s] KEK %s (%s)", shape.name, pair[0].name, pair[1].name, real.Name, mode.name)
	x.NonTrivial()

	// ---- the history
	var writes []*okWrite
	for i, st := range shape.steps {
		w := &okWrite{idx: i, c: pair[0], hd: hds[0], fail: st.fail, api: api2, format: fmt2, ad: keycat.ADs[(i+2)%3]}
		if st.b {
			w.c, w.hd = pair[1], hds[1]
		}
		m := mode.rest
		if i == 0 {
			w.api, w.format, m = api1, fmt1, mode.first
		}
		w.odd = env.NewOddAEAD(real.A, m)
		if st.fail {
			w.odd.FailEncryptAt = 0
		}
		w.run()
		writes = append(writes, w)
	}

	// ---- judged after the whole history
	for _, w := range writes {
		okJudge(x, cfg, sets, w, kekIdx, real)
	}
	for i, c := range sets {
		str := hds[i].String()
		okScan(x, sets, "String()", cfg, []byte(str))
		okScan(x, sets, "String()", cfg, ref.KSUnescapeText(str))
		parsed := &tinkpb.KeysetInfo{}
		if err := prototext.Unmarshal([]byte(str), parsed); err != nil || !proto.Equal(parsed, c.info) {
			failf(x, "string-not-keysetinfo", "%s: after the history String() of %s = %q, expected exactly the metadata (%v)", cfg, c.name, str, err)
		}
		info := hds[i].KeysetInfo()
		if !proto.Equal(info, c.info) || len(info.ProtoReflect().GetUnknown()) > 0 {
			failf(x, "keysetinfo-differs", "%s: after the history KeysetInfo() of %s = %v", cfg, c.name, info)
		}
		okScan(x, sets, "KeysetInfo()", cfg, mustMarshal(info))
		if !proto.Equal(insecurecleartextkeyset.KeysetMaterial(hds[i]), c.want) {
			failf(x, "oddkek-handle-changed", "%s: the keyset inside the handle of %s changed during the history", cfg, c.name)
		}
	}
	x.Outcome("oddkek/history " + shape.name + " judged")
}

func okJudge(x *h.X, cfg string, sets []*okCase, w *okWrite, kekIdx int, real keycat.KEK) {
	cfg = cfg + ", " + w.String()
	if w.err != nil {
		okScan(x, sets, "the returned error", cfg, []byte(w.err.Error()))
		okScan(x, sets, "the returned error", cfg, ref.KSUnescapeText(w.err.Error()))
	}
	if w.fail {
		x.Eval(1)
		if w.err == nil {
			failf(x, "oddkek-kek-error-ignored", "%s: the key-encryption AEAD failed but the write reports success", cfg)
		}
		got := ""
		switch {
		case w.mem != nil && w.mem.Keyset != nil:
			got = "a CLEARTEXT keyset"
		case w.mem != nil && w.mem.EncryptedKeyset != nil:
			got = "an EncryptedKeyset"
		case w.buf != nil && w.buf.Len() > 0:
			got = fmt.Sprintf("%d bytes", w.buf.Len())
		}
		if got != "" {
			failf(x, "oddkek-failed-write-emits", "%s: the key-encryption AEAD failed (%v), yet the writer received %s", cfg, w.err, got)
			if w.buf != nil {
				okScan(x, sets, "output of the failed write", cfg, w.buf.Bytes())
			} else if w.mem.Keyset != nil {
				okScan(x, sets, "output of the failed write", cfg, mustMarshal(w.mem.Keyset))
			}
		} else {
			x.Outcome("oddkek/failing-KEK: error only, writer received nothing")
		}
		return
	}
	if w.err != nil {
		failf(x, "write-error", "%s: %v", cfg, w.err)
		return
	}
	var enc *tinkpb.EncryptedKeyset
	switch w.format {
	case "binary":
		okScan(x, sets, "binary encrypted output", cfg, w.buf.Bytes())
		enc = &tinkpb.EncryptedKeyset{}
		if err := proto.Unmarshal(w.buf.Bytes(), enc); err != nil {
			failf(x, "output-structure", "%s: output is not an EncryptedKeyset: %v", cfg, err)
			return
		}
	case "json":
		okScan(x, sets, "JSON encrypted output", cfg, w.buf.Bytes())
		var generic any
		if err := json.Unmarshal(w.buf.Bytes(), &generic); err != nil {
			failf(x, "output-structure", "%s: output is not JSON: %v", cfg, err)
			return
		}
		allowed := map[string]bool{"encryptedKeyset": true, "keysetInfo": true, "primaryKeyId": true, "keyInfo": true, "typeUrl": true, "status": true, "keyId": true, "outputPrefixType": true}
		if err := allowedJSONKeys(generic, allowed, "$"); err != nil {
			failf(x, "output-structure", "%s: %v", cfg, err)
		}
		var err error
		if enc, err = keyset.NewJSONReader(bytes.NewReader(w.buf.Bytes())).ReadEncrypted(); err != nil {
			failf(x, "output-structure", "%s: %v", cfg, err)
			return
		}
	default:
		if w.mem.Keyset != nil {
			failf(x, "leak:mem-writer", "%s: the encrypted write also stored the cleartext keyset in the writer", cfg)
		}
		enc = w.mem.EncryptedKeyset
		if enc == nil {
			failf(x, "output-structure", "%s: no EncryptedKeyset written", cfg)
			return
		}
		okScan(x, sets, "the EncryptedKeyset retained by the MemReaderWriter", cfg, mustMarshal(enc)) // ciphertext and KeysetInfo
		if !bytes.Equal(w.snap, enc.GetEncryptedKeyset()) {
			failf(x, "oddkek-retained-message-modified", "%s: the ciphertext of the EncryptedKeyset the MemReaderWriter was handed changed during the later writes (%d of %d bytes differ from what it held right after this write)",
				cfg, okDiff(w.snap, enc.GetEncryptedKeyset()), len(w.snap))
		}
	}
	if len(enc.ProtoReflect().GetUnknown()) > 0 {
		failf(x, "output-structure", "%s: EncryptedKeyset carries unknown fields", cfg)
	}
	if ki := enc.GetKeysetInfo(); ki != nil {
		if !proto.Equal(ki, w.c.info) {
			failf(x, "output-keysetinfo", "%s: embedded KeysetInfo %v, expected exactly the metadata %v", cfg, ki, w.c.info)
		}
	}
	ct := enc.GetEncryptedKeyset()
	if w.format == "json" {
		okScan(x, sets, "ciphertext blob", cfg, ct) // the other artefacts carry the ciphertext in raw form
	}
	x.Eval(1)
	pt, err := independentDecrypt(kekIdx, real.Raw, ct, w.ad)
	if err != nil {
		failf(x, "oddkek-ciphertext-not-kek-ad", "%s: after the history the stored ciphertext does not open under the real KEK and the associated data of this write (independent %s): %v", cfg, real.Name, err)
		return
	}
	if len(ct) != len(pt)+kekOverhead[kekIdx] {
		failf(x, "output-structure", "%s: ciphertext length %d for a %d-byte keyset", cfg, len(ct), len(pt))
	}
	got := &tinkpb.Keyset{}
	if err := proto.Unmarshal(pt, got); err != nil || !proto.Equal(got, w.c.want) {
		failf(x, "oddkek-plaintext-differs", "%s: after the history the stored ciphertext decrypts to something else than the keyset written by this write (%v)", cfg, err)
		return
	}
	// classification only (LastPlain is outside the property): did the KEK's answer live in the library's buffer?
	room := w.odd.Mode == env.AEADAliasEncrypt && cap(w.odd.LastPlain) >= len(ct)
	size := "<=4068"
	switch {
	case w.c.size > 4096:
		size = ">4096"
	case w.c.size > 4068:
		size = "4069..4096"
	}
	switch {
	case room:
		x.Outcome("oddkek/intact: " + w.format + " writer, KEK answered inside the library's serialisation buffer, keyset " + size + " bytes")
	case w.odd.Mode == env.AEADAliasEncrypt:
		x.Outcome("oddkek/intact: " + w.format + " writer, in-place KEK without room overwrote the library's buffer, keyset " + size + " bytes")
	default:
		x.Outcome("oddkek/intact: " + w.format + " writer, KEK answered with a fresh slice, keyset " + size + " bytes")
	}
	// reading back through the odd KEK (decrypt modes): twice the written keyset; a failing KEK: nothing but an error
	// (keysets up to 600 bytes: parsing an RSA private key costs milliseconds and adds nothing to the KEK interplay)
	if (w.odd.Mode == env.AEADDecryptSub || w.odd.Mode == env.AEADCachedDecrypt) && w.c.size <= 600 {
		rd := env.NewOddAEAD(real.A, w.odd.Mode)
		for round := 0; round < 2; round++ {
			x.Eval(1)
			hd, err := okRead(w, enc, rd)
			if err != nil {
				failf(x, "read-error", "%s: reading back (#%d) with the same KEK (%s) and associated data fails: %v", cfg, round+1, env.AEADModeNames[rd.Mode], err)
				break
			}
			if !proto.Equal(insecurecleartextkeyset.KeysetMaterial(hd), w.c.want) {
				failf(x, "oddkek-readback-differs", "%s: reading back (#%d) through a KEK with %s gives another keyset", cfg, round+1, env.AEADModeNames[rd.Mode])
				break
			}
			x.Outcome("oddkek/read back through " + env.AEADModeNames[rd.Mode])
		}
		bad := env.NewOddAEAD(real.A, w.odd.Mode)
		bad.FailDecryptAt = 0
		x.Eval(1)
		if hd, err := okRead(w, enc, bad); err == nil || hd != nil {
			failf(x, "oddkek-kek-error-ignored", "%s: reading with a failing KEK gives handle=%v err=%v", cfg, hd != nil, err)
		} else {
			okScan(x, sets, "the returned error", cfg, []byte(err.Error()))
			x.Outcome("oddkek/failing-KEK on read: error only")
		}
	}
}

func okRead(w *okWrite, enc *tinkpb.EncryptedKeyset, kek *env.OddAEAD) (*keyset.Handle, error) {
	var r keyset.Reader
	switch w.format {
	case "binary":
		r = keyset.NewBinaryReader(bytes.NewReader(w.buf.Bytes()))
	case "json":
		r = keyset.NewJSONReader(bytes.NewReader(w.buf.Bytes()))
	default:
		r = &keyset.MemReaderWriter{EncryptedKeyset: enc}
	}
	switch w.api {
	case "Write":
		return keyset.Read(r, kek)
	case "WriteWithAssociatedData":
		return keyset.ReadWithAssociatedData(r, kek, w.ad)
	}
	return keyset.ReadWithContext(context.Background(), r, env.OddAEADCtx{O: kek}, w.ad)
}

func okDiff(a, b []byte) int {
	n := 0
	for i := range a {
		if i >= len(b) || a[i] != b[i] {
			n++
		}
	}
	if len(b) > len(a) {
		n += len(b) - len(a)
	}
	return n
}
