package main

// Section nosecrets-foreign-and-large: the NoSecrets gate on keysets outside the catalogue's comfort zone.
//   (a) keys whose TYPE URL no registry knows (no proto parser, no key manager): the gate has only the key material
//       type to go by - REMOTE and ASYMMETRIC_PUBLIC pass, SYMMETRIC / ASYMMETRIC_PRIVATE / UNKNOWN_KEYMATERIAL are
//       refused - alone and next to a catalogue public key, in every position, under every prefix type;
//   (b) LARGE public-only keysets (serialised size beyond 64 KiB and beyond 1 MiB): they pass like small ones and
//       what ReadWithNoSecrets returns lists every key.

import (
	"bytes"
	"encoding/json"
	"fmt"

	"google.golang.org/protobuf/proto"

	"github.com/tink-crypto/tink-go/v2/keyset"
	tinkpb "github.com/tink-crypto/tink-go/v2/proto/tink_go_proto"
	"verif/h"
	"verif/props/keycat"
	"verif/ref"
)

const foreignURL = "type.googleapis.com/verif.c13.TypeNoRegistryKnows"

func noSecretsAPIs(x *h.X, cfg string, ks *tinkpb.Keyset, secret bool, wantKeys int) {
	judge := func(api string, err error) {
		x.Eval(1)
		switch {
		case secret && err == nil:
			failf(x, "secret-accepted:"+api, "%s: %s succeeds although the keyset contains secret (or unknown) key material", cfg, api)
		case !secret && err != nil:
			failf(x, "public-refused:"+api, "%s: %s fails for a public/remote-only keyset: %v", cfg, api, err)
		case secret:
			x.Outcome("nosecrets/" + api + "/refused")
		default:
			x.Outcome("nosecrets/" + api + "/accepted")
		}
	}
	hd0, err := keyset.NewHandleWithNoSecrets(proto.Clone(ks).(*tinkpb.Keyset))
	judge("NewHandleWithNoSecrets", err)
	for _, f := range keycat.Formats {
		hd, err := keyset.ReadWithNoSecrets(reader(f, ks))
		judge("ReadWithNoSecrets/"+f, err)
		if err == nil && !secret && hd.Len() != wantKeys {
			failf(x, "nosecrets-read-differs", "%s: ReadWithNoSecrets/%s returns a handle of %d keys, the keyset has %d", cfg, f, hd.Len(), wantKeys)
		}
	}
	// the same JSON document in other LAYOUTS (leading / trailing whitespace, CRLF, indented as other writers and
	// hand-edited files have it): still the same keyset
	js := serialise("json", ks)
	var ind bytes.Buffer
	layouts := [][]byte{append([]byte("\n  "), append(bytes.Clone(js), '\n')...), append([]byte("\r\n\t"), js...)}
	if json.Indent(&ind, js, "", "\t") == nil {
		layouts = append(layouts, ind.Bytes())
	}
	for i, l := range layouts {
		hd, err := keyset.ReadWithNoSecrets(keyset.NewJSONReader(bytes.NewReader(l)))
		judge(fmt.Sprintf("ReadWithNoSecrets/json-layout-%d", i), err)
		if err == nil && !secret && hd.Len() != wantKeys {
			failf(x, "nosecrets-read-differs", "%s: ReadWithNoSecrets/json-layout-%d returns a handle of %d keys, the keyset has %d", cfg, i, hd.Len(), wantKeys)
		}
	}
	if hd0 == nil || secret {
		return
	}
	for _, f := range keycat.Formats {
		var buf bytes.Buffer
		mem := &keyset.MemReaderWriter{}
		var w keyset.Writer = mem
		switch f {
		case "binary":
			w = keyset.NewBinaryWriter(&buf)
		case "json":
			w = keyset.NewJSONWriter(&buf)
		}
		err := hd0.WriteWithNoSecrets(w)
		judge("WriteWithNoSecrets/"+f, err)
		if err != nil {
			continue
		}
		// and back: the written form is the keyset
		var back *keyset.Handle
		switch f {
		case "binary":
			back, err = keyset.ReadWithNoSecrets(keyset.NewBinaryReader(bytes.NewReader(buf.Bytes())))
		case "json":
			back, err = keyset.ReadWithNoSecrets(keyset.NewJSONReader(bytes.NewReader(buf.Bytes())))
		default:
			back, err = keyset.ReadWithNoSecrets(mem)
		}
		x.Eval(1)
		if err != nil || back.Len() != wantKeys {
			n := -1
			if back != nil {
				n = back.Len()
			}
			failf(x, "nosecrets-read-differs", "%s: what WriteWithNoSecrets/%s wrote is read back as %d keys (want %d): %v", cfg, f, n, wantKeys, err)
		}
	}
}

func foreignLargeSection(x *h.X) {
	_, pub := secretUnits()
	part := x.Choose("part", 3)
	if part == 0 {
		// (a) foreign type URLs
		mats := []tinkpb.KeyData_KeyMaterialType{tinkpb.KeyData_REMOTE, tinkpb.KeyData_ASYMMETRIC_PUBLIC, tinkpb.KeyData_SYMMETRIC, tinkpb.KeyData_ASYMMETRIC_PRIVATE, tinkpb.KeyData_UNKNOWN_KEYMATERIAL}
		mt := mats[x.Choose("material-type", len(mats))]
		pts := []tinkpb.OutputPrefixType{tinkpb.OutputPrefixType_TINK, tinkpb.OutputPrefixType_RAW, tinkpb.OutputPrefixType_LEGACY, tinkpb.OutputPrefixType_CRUNCHY}
		pt := pts[x.Choose("prefix", len(pts))]
		shape := x.Choose("shape(alone,first,last)", 3)
		st := statuses[x.Choose("status-of-foreign-key", 3)]
		foreign := &tinkpb.Keyset_Key{KeyData: &tinkpb.KeyData{TypeUrl: foreignURL, Value: []byte("opaque-reference-or-material"), KeyMaterialType: mt}, Status: st, KeyId: 0x0badc0de, OutputPrefixType: pt}
		ks := &tinkpb.Keyset{}
		if shape == 0 {
			if st != tinkpb.KeyStatusType_ENABLED {
				return // a keyset needs an enabled primary
			}
			ks.Key, ks.PrimaryKeyId = []*tinkpb.Keyset_Key{foreign}, foreign.KeyId
		} else {
			it, err := keycat.RepItem(pub[x.Choose("public-unit", len(pub))%len(pub)], 0, posIDs[0])
			if err != nil {
				failf(x, "harness-construct", "%v", err)
				return
			}
			it.Status, it.Primary = tinkpb.KeyStatusType_ENABLED, true
			if it.KC.Variant == ref.KSRawWithID { // unreadable prefix type (C12 finding)
				return
			}
			pks, err := protoKeyset([]keycat.Item{it})
			if err != nil {
				failf(x, "harness-construct", "%v", err)
				return
			}
			ks.PrimaryKeyId = pks.PrimaryKeyId
			if shape == 1 {
				ks.Key = []*tinkpb.Keyset_Key{foreign, pks.Key[0]}
			} else {
				ks.Key = []*tinkpb.Keyset_Key{pks.Key[0], foreign}
			}
		}
		secret := mt != tinkpb.KeyData_REMOTE && mt != tinkpb.KeyData_ASYMMETRIC_PUBLIC
		x.NonTrivial()
		cfg := fmt.Sprintf("keyset with a key of a type URL no registry knows (material type %v, prefix %v, status %v, shape %d)", mt, pt, st, shape)
		noSecretsAPIs(x, cfg, ks, secret, len(ks.Key))
		return
	}
	if part == 2 {
		// (c) several keys of ONE foreign type URL carrying DIFFERENT material types: the verdict is per key, never
		// per key type (a later key of a type already seen as REMOTE / public may well be labelled secret)
		mats := []tinkpb.KeyData_KeyMaterialType{tinkpb.KeyData_REMOTE, tinkpb.KeyData_ASYMMETRIC_PUBLIC, tinkpb.KeyData_SYMMETRIC, tinkpb.KeyData_ASYMMETRIC_PRIVATE, tinkpb.KeyData_UNKNOWN_KEYMATERIAL}
		m1 := mats[x.Choose("material-type-of-first", 2)]
		m2 := mats[x.Choose("material-type-of-later", len(mats))]
		st := statuses[x.Choose("status-of-later-key", 3)]
		n := 2 + x.Choose("keys-between", 3)
		ks := &tinkpb.Keyset{PrimaryKeyId: 0x0badc000}
		for i := 0; i < n; i++ {
			k := &tinkpb.Keyset_Key{KeyData: &tinkpb.KeyData{TypeUrl: foreignURL, Value: []byte(fmt.Sprintf("opaque-%d", i)), KeyMaterialType: m1}, Status: tinkpb.KeyStatusType_ENABLED, KeyId: 0x0badc000 + uint32(i), OutputPrefixType: tinkpb.OutputPrefixType_TINK}
			if i == n-1 {
				k.KeyData.KeyMaterialType, k.Status = m2, st
			}
			ks.Key = append(ks.Key, k)
		}
		secret := m2 != tinkpb.KeyData_REMOTE && m2 != tinkpb.KeyData_ASYMMETRIC_PUBLIC
		x.NonTrivial()
		cfg := fmt.Sprintf("keyset of %d keys of one type URL no registry knows: material type %v, the last one %v (status %v)", n, m1, m2, st)
		noSecretsAPIs(x, cfg, ks, secret, len(ks.Key))
		return
	}
	// (b) large public-only keysets
	ui := x.Choose("public-unit", len(pub))
	u := pub[ui]
	si := x.Choose("size", 2)
	if !x.Thorough() && (si == 1 && ui%8 != 0 || si == 0 && ui%2 != 0) {
		return // quick: beyond 64 KiB for every second type, beyond 1 MiB for every eighth
	}
	target := []int{70_000, 1_100_000}[si]
	it0, err := keycat.RepItem(u, 0, 1000)
	if err != nil {
		failf(x, "harness-construct", "%v", err)
		return
	}
	if it0.KC.Variant == ref.KSRawWithID {
		return
	}
	one, err := protoKeyset([]keycat.Item{it0})
	if err != nil {
		failf(x, "harness-construct", "%v", err)
		return
	}
	per := proto.Size(one)
	n := target/per + 2
	if n > 4000 {
		x.Outcome("large/skipped-small-keys")
		return // thousands of tiny keys: nothing the long-key shapes do not cover
	}
	// n copies of the one serialised key under n different key ids and rotating statuses (the middle one is primary)
	ks := &tinkpb.Keyset{}
	for i := 0; i < n; i++ {
		k := proto.Clone(one.Key[0]).(*tinkpb.Keyset_Key)
		k.KeyId, k.Status = uint32(1000+i), statuses[i%3]
		if i == n/2 {
			k.Status, ks.PrimaryKeyId = tinkpb.KeyStatusType_ENABLED, k.KeyId
		}
		ks.Key = append(ks.Key, k)
	}
	x.NonTrivial()
	cfg := fmt.Sprintf("public-only keyset of %d %s keys (%d bytes in binary form)", n, u.Name(), proto.Size(ks))
	noSecretsAPIs(x, cfg, ks, false, n)
}
