package main

// Goroutine-keyed deterministic entropy under crypto/rand (overlay group `rand`): every worker goroutine of
// the engine owns its own SHA-256 counter-mode stream, re-seeded by the section body from the printed
// configuration of the case (reseed). All crypto randomness drawn by tink (ephemeral ECDH / X25519 keys,
// ML-KEM encapsulation coins, DEM IVs) and by the stdlib crypto/hpke oracle is therefore a function of the
// choice vector only: the check is deterministic and replayable while sections still run in parallel.

import (
	"crypto/sha256"
	"crypto/verifrand"
	"encoding/binary"
	"runtime"
	"sync"
)

type gstream struct {
	seed [32]byte
	ctr  uint64
	buf  []byte
}

func (s *gstream) read(p []byte) {
	for len(p) > 0 {
		if len(s.buf) == 0 {
			var in [40]byte
			copy(in[:], s.seed[:])
			binary.BigEndian.PutUint64(in[32:], s.ctr)
			s.ctr++
			h := sha256.Sum256(in[:])
			s.buf = h[:]
		}
		n := copy(p, s.buf)
		s.buf = s.buf[n:]
		p = p[n:]
	}
}

var (
	gstreams   sync.Map // goroutine id -> *gstream
	gfallback  = &gstream{seed: sha256.Sum256([]byte("c06-fallback"))}
	gfallbackM sync.Mutex
)

func goid() uint64 {
	var b [40]byte
	n := runtime.Stack(b[:], false)
	// "goroutine 123 [running]:"
	var id uint64
	for _, c := range b[10:n] {
		if c < '0' || c > '9' {
			break
		}
		id = id*10 + uint64(c-'0')
	}
	return id
}

type gReader struct{}

func (gReader) Read(p []byte) (int, error) {
	if v, ok := gstreams.Load(goid()); ok {
		v.(*gstream).read(p)
		return len(p), nil
	}
	gfallbackM.Lock()
	gfallback.read(p)
	gfallbackM.Unlock()
	return len(p), nil
}

// reseed makes the calling goroutine's entropy stream a function of label.
func reseed(label string) {
	gstreams.Store(goid(), &gstream{seed: sha256.Sum256([]byte(label))})
}

func init() { verifrand.Set(gReader{}) }
