package main

// Section legacy-adapter: the "legacy primitive" route of hybrid.NewHybridEncrypt / NewHybridDecrypt
// (hybrid_encrypt_factory.go fullHybridEncryptAdapter, hybrid_decrypt_factory.go fullHybridDecryptAdapter).
//
// Two key managers are registered for made-up type URLs (a private and a public key). Their Primitive() returns a
// RAW (prefix-less) HybridDecrypt / HybridEncrypt for HPKE X25519 / HKDF-SHA256 / AES-128-GCM: kind 0 is the
// RFC 9180 reference of verif/ref (no tink code), kind 1 is tink's own primitive for a NO_PREFIX hpke key. Keysets
// are built through the proto path with every output prefix type x ids x single- and multi-key layouts (the key
// under test at every position among heterogeneous other keys: legacy RAW, legacy with the same prefix type, genuine
// tink HPKE keys TINK and RAW).
//
// Judged (statement of C06, applied to the factory route):
//   - Encrypt output == ref.Prefix(prefix type, id) || raw, where the RFC 9180 reference opens raw with the
//     recipient's private key under the same context info ("in every prefix variant ... interoperate both ways");
//   - Decrypt(Encrypt(pt, info), info) == pt through the factory, nil == empty context info;
//   - prefix || reference ciphertext is decrypted by the factory primitive;
//   - any change of prefix (every bit, every truncation, prefixes of other ids / variants / of the other keys of the
//     keyset, removed, duplicated), of the body (bit flips, cuts, extensions), of the context info, or a keyset without
//     the private key => error.
// Not judged: error texts; which key id is logged; behaviour of keysets with duplicate prefixes (not constructible:
// key ids are unique); construction errors of keysets that tink refuses (none occur in this domain).

import (
	"bytes"
	"crypto/rand"
	"errors"
	"fmt"
	"sync"

	"google.golang.org/protobuf/proto"

	"github.com/tink-crypto/tink-go/v2/core/registry"
	"github.com/tink-crypto/tink-go/v2/hybrid"
	"github.com/tink-crypto/tink-go/v2/hybrid/hpke"
	"github.com/tink-crypto/tink-go/v2/insecuresecretdataaccess"
	"github.com/tink-crypto/tink-go/v2/keyset"
	tinkpb "github.com/tink-crypto/tink-go/v2/proto/tink_go_proto"
	"github.com/tink-crypto/tink-go/v2/secretdata"
	"github.com/tink-crypto/tink-go/v2/testkeyset"
	"github.com/tink-crypto/tink-go/v2/tink"
	"github.com/tink-crypto/tink-go/v2/verifbridge/vb"
	"verif/h"
	"verif/ref"
	"verif/tk"
)

const (
	legacyPrivURL = "type.googleapis.com/verif.c06.LegacyHybridPrivateKey"
	legacyPubURL  = "type.googleapis.com/verif.c06.LegacyHybridPublicKey"
)

var legacySuite = ref.HPKESuite{KEM: ref.HPKEKemX25519, KDF: ref.HPKEKdfSHA256, AEAD: ref.HPKEAeadAES128GCM}

const (
	legacyNenc     = 32
	legacyOverhead = 16
)

func legacySK(mat int) []byte { return ref.KeyBytes(fmt.Sprintf("c06-legacy-hybrid-mat%d", mat), 32) }

func legacyPK(mat int) []byte {
	pk, err := ref.HPKEPublicFromPrivate(ref.HPKEKemX25519, legacySK(mat))
	if err != nil {
		panic(err)
	}
	return pk
}

// refRawEncrypt / refRawDecrypt: RAW hybrid primitives on the RFC 9180 reference (ephemeral key from crypto/rand,
// i.e. from the deterministic per-goroutine stream).
type refRawEncrypt struct{ pk []byte }

func (e *refRawEncrypt) Encrypt(pt, info []byte) ([]byte, error) {
	skE := make([]byte, 32)
	if _, err := rand.Read(skE); err != nil {
		return nil, err
	}
	return ref.HPKESealDH(legacySuite, e.pk, skE, info, pt)
}

type refRawDecrypt struct{ sk []byte }

func (d *refRawDecrypt) Decrypt(ct, info []byte) ([]byte, error) {
	return ref.HPKEOpen(legacySuite, d.sk, ct, info)
}

var (
	_ tink.HybridEncrypt = (*refRawEncrypt)(nil)
	_ tink.HybridDecrypt = (*refRawDecrypt)(nil)
)

var legacyRawParams = func() *hpke.Parameters {
	p, err := hpke.NewParameters(hpke.ParametersOpts{KEMID: hpke.DHKEM_X25519_HKDF_SHA256, KDFID: hpke.HKDFSHA256, AEADID: hpke.AES128GCM, Variant: hpke.VariantNoPrefix})
	if err != nil {
		panic(err)
	}
	return p
}()

func legacyTinkRawKey(mat int) (*hpke.PrivateKey, error) {
	return hpke.NewPrivateKey(secretdata.NewBytesFromData(legacySK(mat), insecuresecretdataaccess.Token{}), 0, legacyRawParams)
}

// legacyKM is the key manager of the made-up key types; the serialized key is {0xC6, kind, material index}.
type legacyKM struct {
	url  string
	priv bool
}

func (m *legacyKM) Primitive(sk []byte) (any, error) {
	if len(sk) != 3 || sk[0] != 0xC6 || sk[1] > 1 {
		return nil, errors.New("c06 legacy key manager: invalid key")
	}
	kind, mat := int(sk[1]), int(sk[2])
	if kind == 0 {
		if m.priv {
			return &refRawDecrypt{sk: legacySK(mat)}, nil
		}
		return &refRawEncrypt{pk: legacyPK(mat)}, nil
	}
	p, err := legacyTinkRawKey(mat)
	if err != nil {
		return nil, err
	}
	if m.priv {
		return hpke.NewHybridDecrypt(p, vb.Tok())
	}
	pub, err := p.PublicKey()
	if err != nil {
		return nil, err
	}
	return hpke.NewHybridEncrypt(pub.(*hpke.PublicKey), vb.Tok())
}
func (m *legacyKM) NewKey([]byte) (proto.Message, error) { return nil, errors.New("not supported") }
func (m *legacyKM) DoesSupport(u string) bool            { return u == m.url }
func (m *legacyKM) TypeURL() string                      { return m.url }
func (m *legacyKM) NewKeyData([]byte) (*tinkpb.KeyData, error) {
	return nil, errors.New("not supported")
}

var legacyOnce sync.Once

func legacyRegister() {
	legacyOnce.Do(func() {
		if err := registry.RegisterKeyManager(&legacyKM{url: legacyPrivURL, priv: true}); err != nil {
			panic(err)
		}
		if err := registry.RegisterKeyManager(&legacyKM{url: legacyPubURL}); err != nil {
			panic(err)
		}
	})
}

var legacyVariants = []ref.Variant{ref.Tink, ref.Crunchy, ref.Legacy, ref.Raw}

func legacyProtoPrefix(v ref.Variant) tinkpb.OutputPrefixType {
	switch v {
	case ref.Tink:
		return tinkpb.OutputPrefixType_TINK
	case ref.Crunchy:
		return tinkpb.OutputPrefixType_CRUNCHY
	case ref.Legacy:
		return tinkpb.OutputPrefixType_LEGACY
	}
	return tinkpb.OutputPrefixType_RAW
}

// legacyIDs: tk.IDs (0x01020304, 0, 1, 0x7FFFFFFF, 0x80000000, 0xFFFFFFFF) plus ids with one / two leading zero bytes.
var legacyIDs = append(append([]uint32{}, tk.IDs...), 0x00ABCDEF, 0x0000FF00)

// ids of the other keys of a multi-key keyset (never equal to an id of legacyIDs or a derived one)
const (
	legacyIDRawLegacy = 0x51515151
	legacyIDRawTink   = 0x61616161
)

// lslot is one key of a keyset under construction.
type lslot struct {
	name   string
	legacy bool        // made-up key type behind the factory adapter; else a genuine tink HPKE key
	kind   int         // legacy: 0 reference primitive, 1 tink raw primitive
	mat    int         // legacy: material index; tink: label number of the private key bytes
	v      ref.Variant // output prefix type
	id     uint32
}

func (s lslot) prefix() []byte { return ref.Prefix(s.v, s.id) }

func (s lslot) entries() (priv, pub *tinkpb.Keyset_Key, err error) {
	if s.legacy {
		val := []byte{0xC6, byte(s.kind), byte(s.mat)}
		mk := func(url string, kmt tinkpb.KeyData_KeyMaterialType) *tinkpb.Keyset_Key {
			return &tinkpb.Keyset_Key{KeyData: &tinkpb.KeyData{TypeUrl: url, Value: bytes.Clone(val), KeyMaterialType: kmt},
				Status: tinkpb.KeyStatusType_ENABLED, KeyId: s.id, OutputPrefixType: legacyProtoPrefix(s.v)}
		}
		return mk(legacyPrivURL, tinkpb.KeyData_ASYMMETRIC_PRIVATE), mk(legacyPubURL, tinkpb.KeyData_ASYMMETRIC_PUBLIC), nil
	}
	params, err := hpke.NewParameters(hpke.ParametersOpts{KEMID: hpke.DHKEM_X25519_HKDF_SHA256, KDFID: hpke.HKDFSHA256, AEADID: hpke.AES128GCM, Variant: hpkeVar[s.v]})
	if err != nil {
		return nil, nil, err
	}
	kid := s.id
	if s.v == ref.Raw {
		kid = 0
	}
	sk := hpkeSK(kems[0], fmt.Sprintf("legacy-other-%d", s.mat), 0)
	pk, err := hpke.NewPrivateKey(secretdata.NewBytesFromData(sk, insecuresecretdataaccess.Token{}), kid, params)
	if err != nil {
		return nil, nil, err
	}
	pubKey, err := pk.PublicKey()
	if err != nil {
		return nil, nil, err
	}
	kd, pt, _, _, err := vb.SerializeKey(pk)
	if err != nil {
		return nil, nil, err
	}
	priv = &tinkpb.Keyset_Key{KeyData: kd, Status: tinkpb.KeyStatusType_ENABLED, KeyId: s.id, OutputPrefixType: pt}
	kd2, pt2, _, _, err := vb.SerializeKey(pubKey)
	if err != nil {
		return nil, nil, err
	}
	pub = &tinkpb.Keyset_Key{KeyData: kd2, Status: tinkpb.KeyStatusType_ENABLED, KeyId: s.id, OutputPrefixType: pt2}
	return priv, pub, nil
}

// legacyHandles builds the private and the public handle of the slots (primary indexes given separately).
func legacyHandles(slots []lslot, privPrimary, pubPrimary int) (privH, pubH *keyset.Handle, err error) {
	pr := &tinkpb.Keyset{PrimaryKeyId: slots[privPrimary].id}
	pu := &tinkpb.Keyset{PrimaryKeyId: slots[pubPrimary].id}
	for _, s := range slots {
		a, b, err := s.entries()
		if err != nil {
			return nil, nil, err
		}
		pr.Key = append(pr.Key, a)
		pu.Key = append(pu.Key, b)
	}
	if privH, err = testkeyset.NewHandle(pr); err != nil {
		return nil, nil, err
	}
	pubH, err = testkeyset.NewHandle(pu)
	return privH, pubH, err
}

// layouts: position of the key under test (T) among the other keys, and which key is primary of the PRIVATE keyset
// (the public keyset always has T as primary: Encrypt uses the primary only).
type llayout struct {
	name        string
	slots       string // T target, r legacy RAW (other material), s legacy same prefix type / other id, t tink TINK key with id^1, w tink RAW key
	privPrimary int
}

var legacyLayouts = []llayout{
	{"[T]", "T", 0},
	{"[T* r t w]", "Trtw", 0},
	{"[T r* t w]", "Trtw", 1},
	{"[r T* s w]", "rTsw", 1},
	{"[r* T s w]", "rTsw", 0},
	{"[t w s T*]", "twsT", 3},
	{"[t* w s T]", "twsT", 0},
}

func (l llayout) String() string { return l.name }

func legacySlots(l llayout, v ref.Variant, id uint32, kind int) (slots []lslot, target int) {
	sv := v // prefix type of the "same prefix type, other id" legacy key
	if sv == ref.Raw {
		sv = ref.Tink
	}
	for i, c := range l.slots {
		switch c {
		case 'T':
			target = i
			slots = append(slots, lslot{"target", true, kind, 0, v, id})
		case 'r':
			slots = append(slots, lslot{"legacy RAW key (other material)", true, 0, 2, ref.Raw, legacyIDRawLegacy})
		case 's':
			slots = append(slots, lslot{"legacy key, other material, id^0x80000000", true, 1 - kind, 3, sv, id ^ 0x80000000})
		case 't':
			slots = append(slots, lslot{"tink HPKE key TINK id^1", false, 0, 1, ref.Tink, id ^ 1})
		case 'w':
			slots = append(slots, lslot{"tink HPKE key RAW", false, 0, 2, ref.Raw, legacyIDRawTink})
		}
	}
	return slots, target
}

var legacyKinds = []string{"reference primitive", "tink raw primitive"}

func legacySection(x *h.X) {
	legacyRegister()
	v := h.Pick(x, "prefix-type", legacyVariants)
	lis := []int{0, 1, 3, 4, 6} // quick: every position of the key under test, primary = it (twice) or another key (twice)
	if x.Thorough() {
		lis = []int{0, 1, 2, 3, 4, 5, 6}
	}
	li := lis[x.Choose("layout", len(lis))]
	lay := legacyLayouts[li]
	x.Label(lay.name)
	// quick tier: both primitive kinds on the single-key layout and on one multi-key layout, the reference kind elsewhere;
	// all ids on the single-key layout, four ids on the multi-key layouts; RAW keys (no id in the output): two ids.
	kinds := []int{0, 1}
	if !x.Thorough() && li != 0 && li != 3 {
		kinds = []int{0}
	}
	kind := kinds[x.Choose("primitive", len(kinds))]
	x.Label(legacyKinds[kind])
	idl := legacyIDs
	switch {
	case v == ref.Raw:
		idl = []uint32{legacyIDs[0], 0}
	case !x.Thorough() && li != 0:
		idl = []uint32{legacyIDs[0], 0, 1, 0xFFFFFFFF}
	}
	id := idl[x.Choose("id", len(idl))]
	x.Label(fmt.Sprintf("%#x", id))
	cfg := fmt.Sprintf("legacy raw hybrid primitive (%s) behind the factory adapter, %v id=%#x keyset %s", legacyKinds[kind], v, id, lay.name)

	slots, ti := legacySlots(lay, v, id, kind)
	privH, pubH, err := legacyHandles(slots, lay.privPrimary, ti)
	if err != nil {
		x.Fail("construct", "%s: keyset handles: %v", cfg, err)
		return
	}
	enc, err := hybrid.NewHybridEncrypt(pubH)
	if err != nil {
		x.Fail("construct", "%s: NewHybridEncrypt: %v", cfg, err)
		return
	}
	dec, err := hybrid.NewHybridDecrypt(privH)
	if err != nil {
		x.Fail("construct", "%s: NewHybridDecrypt: %v", cfg, err)
		return
	}
	// the same keyset without the key under test, which is replaced by another private key with the same prefix
	others := append([]lslot{}, slots...)
	others[ti].mat = 1
	othH, _, err := legacyHandles(others, lay.privPrimary, ti)
	if err != nil {
		x.Fail("construct", "%s: keyset handles: %v", cfg, err)
		return
	}
	decOther, err := hybrid.NewHybridDecrypt(othH)
	if err != nil {
		x.Fail("construct", "%s: NewHybridDecrypt: %v", cfg, err)
		return
	}
	x.NonTrivial()
	x.Outcome(fmt.Sprintf("legacy/%v/%s/keys=%d", v, legacyKinds[kind], len(slots)))

	prefix := ref.Prefix(v, id)
	pl := len(prefix)
	sk, pk := legacySK(0), legacyPK(0)
	infos := ctxInfos()
	nfail := 0
	bad := false
	fail := func(key, f string, a ...any) {
		bad = true
		if nfail++; nfail <= 8 {
			x.Fail(key, f, a...)
		}
	}
	// plaintext lengths: every length 0..70 on the single-key layout with the reference primitive for the first two
	// ids (thorough: single-key layout with both primitives and every id, multi-key layouts with the reference primitive
	// for three ids), a boundary set elsewhere (the adapters do not branch on the length)
	var lens []int
	first2 := id == legacyIDs[0] || id == 0
	switch {
	case (li == 0 && kind == 0 && first2) || (x.Thorough() && (li == 0 || (kind == 0 && (first2 || id == 0x00ABCDEF)))):
		for n := 0; n <= 70; n++ {
			lens = append(lens, n)
		}
	case x.Thorough():
		lens = []int{0, 1, 15, 16, 17, 31, 32, 33, 64, 70}
	default:
		lens = []int{0, 1, 16, 17, 70}
	}
	for _, n := range lens {
		for ii, info := range infos {
			pt := ref.Pattern(2, n)
			lbl := fmt.Sprintf("%s|len=%d|info=%d", cfg, n, ii)
			reseed(lbl)
			ct, err := enc.Encrypt(pt, info)
			x.Eval(1)
			if err != nil {
				fail("encrypt-error", "%s: Encrypt: %v", lbl, err)
				return
			}
			if len(ct) < pl || !bytes.Equal(ct[:pl], prefix) {
				fail("wrong-prefix", "%s: ciphertext %s does not start with prefix %x", lbl, tk.Hex(ct), prefix)
				return
			}
			if len(ct) != pl+legacyNenc+n+legacyOverhead {
				fail("wrong-length", "%s: ciphertext length %d, want %d (prefix %d + enc %d + plaintext %d + tag %d)", lbl, len(ct), pl+legacyNenc+n+legacyOverhead, pl, legacyNenc, n, legacyOverhead)
				return
			}
			x.Eval(1)
			if got, err := ref.HPKEOpen(legacySuite, sk, ct[pl:], info); err != nil || !bytes.Equal(got, pt) {
				fail("interop-tink-to-ref", "%s: the raw RFC 9180 reference cannot open the ciphertext %s after the %d-byte prefix under the same context info: %x, %v", lbl, tk.Hex(ct), pl, got, err)
				return
			}
			x.Eval(1)
			if got, err := dec.Decrypt(ct, info); err != nil || !bytes.Equal(got, pt) {
				fail("roundtrip", "%s: Decrypt(Encrypt(pt)) = %s, %v; want pt", lbl, tk.Hex(got), err)
				return
			}
			if len(info) == 0 {
				alt := []byte{}
				if info != nil {
					alt = nil
				}
				x.Eval(1)
				if got, err := dec.Decrypt(ct, alt); err != nil || !bytes.Equal(got, pt) {
					fail("nil-empty-info", "%s: encrypted under %#v, Decrypt under %#v: %v", lbl, info, alt, err)
					return
				}
			}
			// reference -> factory
			skE := ref.KeyBytes("c06-legacy-eph|"+lbl, 32)
			raw, err := ref.HPKESealDH(legacySuite, pk, skE, info, pt)
			if err != nil {
				fail("harness", "%s: reference seal: %v", lbl, err)
				return
			}
			rct := append(bytes.Clone(prefix), raw...)
			x.Eval(1)
			if got, err := dec.Decrypt(rct, info); err != nil || !bytes.Equal(got, pt) {
				fail("interop-ref-to-tink", "%s: the factory primitive cannot decrypt prefix || reference ciphertext %s: %x, %v", lbl, tk.Hex(rct), got, err)
				return
			}
			neg := func(key string, c, inf []byte, d tink.HybridDecrypt, what string) {
				x.Eval(1)
				if p, err := d.Decrypt(c, inf); err == nil {
					fail(key, "%s: Decrypt accepted %s (returned %s)", lbl, what, tk.Hex(p))
				}
			}
			// (a failed Decrypt of a multi-key keyset costs one HPKE decapsulation per RAW key: the quick tier keeps two
			// negatives per (length, info) there; the catalogue below has the rest)
			full := x.Thorough() || li == 0
			neg("accept-other-info", ct, append(bytes.Clone(info), 0), dec, "context info || 00")
			if full {
				if len(info) > 0 {
					neg("accept-other-info", ct, nil, dec, "nil context info for a non-empty one")
				} else {
					neg("accept-other-info", ct, infos[2], dec, "context info 42 for an empty one")
				}
				neg("accept-payload-flip", flip(ct, 8*len(ct)-1), info, dec, "ciphertext with last bit flipped")
			}
			if pl > 0 {
				neg("accept-prefix-edit", ct[pl:], info, dec, "ciphertext without its prefix")
				if full {
					neg("accept-prefix-edit", flip(ct, (n+ii)%(8*pl)), info, dec, fmt.Sprintf("prefix bit %d flipped", (n+ii)%(8*pl)))
				}
			}
			if n == 16 || n == 17 {
				neg("accept-other-key", ct, info, decOther, "ciphertext for another private key with the same prefix")
				neg("accept-trunc", ct[:len(ct)-1], info, dec, "ciphertext truncated by one byte")
			}
		}
	}
	if bad {
		return
	}
	// mutation catalogue on selected (length, info)
	type sel struct{ n, ii int }
	sels := []sel{{17, 2}}
	switch {
	case x.Thorough():
		sels = []sel{{17, 2}, {0, 0}, {16, 3}, {1, 1}}
	case li == 0:
		sels = []sel{{17, 2}, {0, 0}}
	}
	for si, sl := range sels {
		info := infos[sl.ii]
		pt := ref.Pattern(2, sl.n)
		lbl := fmt.Sprintf("%s|mut|len=%d|info=%d", cfg, sl.n, sl.ii)
		reseed(lbl)
		ct, err := enc.Encrypt(pt, info)
		if err != nil {
			fail("encrypt-error", "%s: %v", lbl, err)
			return
		}
		if g, err := dec.Decrypt(ct, info); err != nil || !bytes.Equal(g, pt) {
			fail("roundtrip", "%s: %x, %v", lbl, g, err)
			return
		}
		if len(ct) < pl || !bytes.Equal(ct[:pl], prefix) {
			fail("wrong-prefix", "%s: ciphertext %s does not start with prefix %x", lbl, tk.Hex(ct), prefix)
			return
		}
		body := ct[pl:]
		nrej := 0
		rej := func(key string, c, inf []byte, what string) {
			if bytes.Equal(c, ct) && sameInfo(inf, info) {
				return
			}
			nrej++
			if p, err := dec.Decrypt(c, inf); err == nil {
				fail(key, "%s: Decrypt accepted %s (ciphertext %s, returned %s)", lbl, what, tk.Hex(c), tk.Hex(p))
			}
		}
		cat := func(a, b []byte) []byte { return append(bytes.Clone(a), b...) }
		// prefix: every bit
		for b := 0; b < 8*pl; b++ {
			rej("accept-prefix-edit", flip(ct, b), info, fmt.Sprintf("prefix bit %d flipped", b))
		}
		// prefix: every truncation (first k bytes kept / first k bytes dropped), removed, duplicated
		for k := 0; k < pl; k++ {
			rej("accept-prefix-edit", cat(prefix[:k], body), info, fmt.Sprintf("prefix shortened to its first %d bytes", k))
			if k > 0 {
				rej("accept-prefix-edit", cat(prefix[k:], body), info, fmt.Sprintf("first %d prefix bytes dropped", k))
			}
		}
		if pl > 0 {
			rej("accept-prefix-edit", cat(prefix, ct), info, "prefix duplicated")
		}
		// prefixes of other variants / ids (for a RAW key: any prefix in front of the body), incl. those of the other keys
		var foreign [][]byte
		for _, ov := range []ref.Variant{ref.Tink, ref.Crunchy} {
			for _, oid := range []uint32{id, id ^ 1, id ^ 0x80000000, ^id, id ^ 0x00010000, 0} {
				foreign = append(foreign, ref.Prefix(ov, oid))
			}
		}
		for i, s := range slots {
			if i != ti && s.v != ref.Raw {
				foreign = append(foreign, s.prefix())
			}
		}
		for _, op := range foreign {
			if !bytes.Equal(op, prefix) {
				rej("accept-prefix-edit", cat(op, body), info, fmt.Sprintf("foreign prefix %x", op))
			}
		}
		// body: every bit in thorough and on the single-key layout for the first two ids (first selection), else sampled positions
		var bits []int
		if (x.Thorough() || (li == 0 && (id == legacyIDs[0] || id == 0))) && si == 0 {
			bits = allBits(len(body))
		} else {
			bits = sparseBits(len(body), 29, 1, 1)
		}
		for _, b := range bits {
			key := "accept-payload-flip"
			if b < 8*legacyNenc {
				key = "accept-enc-flip"
			}
			rej(key, flip(ct, 8*pl+b), info, fmt.Sprintf("body bit %d flipped", b))
		}
		// cut points: everything up to the end of the prefix + 2, around the end of the encapsulated key, the tail
		for cut := 0; cut < len(ct); cut++ {
			if !x.Thorough() && li != 0 && cut > pl+2 && (cut < pl+legacyNenc-1 || cut > pl+legacyNenc+1) && cut < len(ct)-3 {
				continue
			}
			rej("accept-trunc", ct[:cut], info, fmt.Sprintf("ciphertext cut to %d of %d bytes", cut, len(ct)))
		}
		rej("accept-trunc", nil, info, "nil ciphertext")
		for _, ext := range [][]byte{{0}, prefix} {
			if len(ext) > 0 {
				rej("accept-ext", cat(ct, ext), info, fmt.Sprintf("ciphertext extended by %x", ext))
			}
		}
		// context info
		rej("accept-other-info", ct, cat(info, []byte{0}), "context info || 00")
		rej("accept-other-info", ct, cat([]byte{0}, info), "00 || context info")
		for _, b := range sparseBits(len(info), 61, 1, 1) {
			rej("accept-other-info", ct, flip(info, b), fmt.Sprintf("context info bit %d flipped", b))
		}
		for cut := 0; cut < len(info); cut += 1 + len(info)/4 {
			rej("accept-other-info", ct, info[:cut], fmt.Sprintf("context info cut to %d bytes", cut))
		}
		for _, oi := range infos {
			if !sameInfo(oi, info) {
				rej("accept-other-info", ct, oi, fmt.Sprintf("context info %x", oi))
			}
		}
		if pl > 0 {
			rej("accept-other-info", ct, prefix, "the output prefix as context info")
		}
		// the keyset in which the private key is replaced by another one with the same prefix
		nrej++
		if p, err := decOther.Decrypt(ct, info); err == nil {
			fail("accept-other-key", "%s: a keyset without the private key decrypts the ciphertext (returned %s)", lbl, tk.Hex(p))
		}
		x.Eval(nrej)
		x.Count("mutations", nrej)
	}
}
