package main

// Section tink-generated-keys: the key-GENERATION hooks of hybrid encryption (createPrivateKey in hybrid/hpke/key.go
// and hybrid/ecies/key.go behind keygenregistry, and the legacy key managers' NewKeyData / NewKey in front of them).
// Every other section of this check builds its keys from private key bytes chosen by the harness; here tink draws the
// key itself (from the deterministic entropy stream, so every generated key is a function of the choice vector).
//
// Domain:
//   hpke-parameters   7 KEMs x (quick: one KDF/AEAD pair per KEM; thorough: 3 KDF x 3 AEAD) x 3 variants x 5 routes x 2 entropy seeds
//   ecies-parameters  3 curves x 3 point formats x (quick: one hash/DEM pair; thorough: 5 hashes x 5 DEMs) x 3 variants
//                     x 5 routes x 2 entropy seeds; the salt rotates through {nil, 1 byte, 32 bytes}
//   templates         every template function of hybrid/hybrid_key_templates.go (10 HPKE, 2 ECIES) x 4 routes x 2 seeds; the
//                     parameters a template stands for are written down here from its documentation, not parsed by tink
//   leading-zero      the 3 NIST KEMs / 3 ECIES curves x (quick: TINK through AddNewKeyFromParameters; thorough: 3 variants
//                     x 5 routes): entropy seeds 1,2,3,... until tink has generated keys whose private scalar has a leading
//                     zero byte (probability 1/256 per key, 1/2 for P-521); every generation on the way must succeed
// Routes: Manager.AddNewKeyFromParameters(parameters object); keyset.NewHandle(template); Manager.Add(template) into a
// manager that already holds another (generated) hybrid key, then SetPrimary; registry.NewKeyData(template) and
// registry.NewKey(template) (legacy key managers: they generate a RAW key; the key proto is parsed with the template's
// output prefix type and an id of the harness, the way Manager.Add's legacy fallback does).
//
// Judged for every generated key (nothing but what C06 says about "all key pairs"):
//   (1) the public key inside the private key object and in handle.Public() is the one an independent computation derives
//       from the generated private key bytes (crypto/ecdh and crypto/elliptic D*G; crypto/mlkem seed expansion; X-Wing
//       SHAKE256 expansion of the reference), and the private key has the length of its KEM / curve;
//   (2) ciphertexts of hybrid.NewHybridEncrypt(Public()) carry the prefix of (requested variant, key id), decrypt under
//       hybrid.NewHybridDecrypt(private handle) and under the independent decryptions (crypto/hpke, RFC 9180 reference,
//       ECIES reference) run with the REQUESTED suite / parameter set and the generated private key bytes; another
//       context info is rejected;
//   (3) the parameters of the generated private and public key are the requested ones;
//   (4) reference-made ciphertexts for the independently derived public key decrypt under tink (and not under another
//       context info).
// A failing generation of a supported parameter set is reported too (no key pair to round-trip with).
// Not judged: that two generations give different keys; key ids drawn by the manager; the proto form of the keys.

import (
	"bytes"
	"crypto/elliptic"
	stdhpke "crypto/hpke"
	"fmt"

	"github.com/tink-crypto/tink-go/v2/core/registry"
	"github.com/tink-crypto/tink-go/v2/hybrid"
	"github.com/tink-crypto/tink-go/v2/hybrid/ecies"
	"github.com/tink-crypto/tink-go/v2/hybrid/hpke"
	"github.com/tink-crypto/tink-go/v2/insecuresecretdataaccess"
	"github.com/tink-crypto/tink-go/v2/key"
	"github.com/tink-crypto/tink-go/v2/keyset"
	tinkpb "github.com/tink-crypto/tink-go/v2/proto/tink_go_proto"
	"github.com/tink-crypto/tink-go/v2/tink"
	"github.com/tink-crypto/tink-go/v2/verifbridge/vb"
	"google.golang.org/protobuf/proto"
	"verif/h"
	"verif/ref"
	"verif/tk"
)

var genRoutes = []string{
	"Manager.AddNewKeyFromParameters",
	"keyset.NewHandle(template)",
	"Manager.Add(template) as second key",
	"registry.NewKeyData(template)",
	"registry.NewKey(template)",
}

var genPrefixType = map[ref.Variant]tinkpb.OutputPrefixType{ref.Tink: tinkpb.OutputPrefixType_TINK, ref.Crunchy: tinkpb.OutputPrefixType_CRUNCHY, ref.Raw: tinkpb.OutputPrefixType_RAW}

// genRequest is what the caller of the generation API asked for.
type genRequest struct {
	cfg    string
	v      ref.Variant
	params key.Parameters       // the requested parameters as an object of the harness
	tmpl   *tinkpb.KeyTemplate  // the template handed to tink (nil: serialize params)
	hp     *genHPKE             // exactly one of hp / ep is set
	ep     *genECIES
}

type genHPKE struct {
	kem  kemDef
	kdf  kdfDef
	aead aeadDef
}

type genECIES struct {
	c    curveDef
	hd   hashDef
	f    formatDef
	d    demDef
	salt []byte
}

// generate asks tink for a new key through the route. Returns the private handle whose PRIMARY is the generated key.
func generate(x *h.X, rq *genRequest, route string, seed int) (*keyset.Handle, bool) {
	tmpl := rq.tmpl
	if tmpl == nil {
		t, err := vb.SerializeParameters(rq.params)
		if err != nil {
			x.Fail("construct", "%s: template of the requested parameters: %v", rq.cfg, err)
			return nil, false
		}
		tmpl = t
	}
	fail := func(err error) (*keyset.Handle, bool) {
		x.Fail("generate-error", "%s via %s (entropy seed %d): generating a key fails: %v", rq.cfg, route, seed, err)
		return nil, false
	}
	reseed(fmt.Sprintf("%s|%s|generate|%d", rq.cfg, route, seed))
	switch route {
	case genRoutes[0]:
		m := keyset.NewManager()
		id, err := m.AddNewKeyFromParameters(rq.params)
		if err != nil {
			return fail(err)
		}
		if err := m.SetPrimary(id); err != nil {
			return fail(err)
		}
		hd, err := m.Handle()
		if err != nil {
			return fail(err)
		}
		return hd, true
	case genRoutes[1]:
		hd, err := keyset.NewHandle(tmpl)
		if err != nil {
			return fail(err)
		}
		return hd, true
	case genRoutes[2]:
		// the manager already holds a (generated) TINK X25519 key; the key under test is added second and made primary
		m := keyset.NewManager()
		op, err := hpke.NewParameters(hpke.ParametersOpts{KEMID: hpke.DHKEM_X25519_HKDF_SHA256, KDFID: hpke.HKDFSHA256, AEADID: hpke.AES128GCM, Variant: hpke.VariantTink})
		if err != nil {
			x.Fail("construct", "%s: %v", rq.cfg, err)
			return nil, false
		}
		first, err := m.AddNewKeyFromParameters(op)
		if err != nil {
			return fail(err)
		}
		if err := m.SetPrimary(first); err != nil {
			return fail(err)
		}
		id, err := m.Add(tmpl)
		if err != nil {
			return fail(err)
		}
		if err := m.SetPrimary(id); err != nil {
			return fail(err)
		}
		hd, err := m.Handle()
		if err != nil {
			return fail(err)
		}
		return hd, true
	default:
		var kd *tinkpb.KeyData
		if route == genRoutes[3] {
			d, err := registry.NewKeyData(tmpl)
			if err != nil {
				return fail(err)
			}
			kd = d
		} else {
			msg, err := registry.NewKey(tmpl)
			if err != nil {
				return fail(err)
			}
			b, err := proto.Marshal(msg)
			if err != nil {
				return fail(err)
			}
			kd = &tinkpb.KeyData{TypeUrl: tmpl.GetTypeUrl(), Value: b, KeyMaterialType: tinkpb.KeyData_ASYMMETRIC_PRIVATE}
		}
		id := tk.IDs[0]
		if seed%2 == 1 {
			id = tk.IDs[5]
		}
		kid := id
		if rq.v == ref.Raw {
			kid = 0
		}
		k, err := vb.ParseKey(kd, genPrefixType[rq.v], kid)
		if err != nil {
			return fail(fmt.Errorf("the generated key proto does not parse: %v", err))
		}
		hd, err := tk.Handle([]tk.Entry{{Key: k, ID: id, Primary: true}})
		if err != nil {
			return fail(fmt.Errorf("keyset of the generated key proto: %v", err))
		}
		return hd, true
	}
}

// genKeyView is what the judge reads from tink's key objects.
type genKeyView struct {
	sk, pkInPriv, pkInPublic     []byte
	privParams, pubParams        key.Parameters
	privPrefix, pubPrefix        []byte
	keyID                        uint32
	idReq                        uint32
	idRequired                   bool
	public                       *keyset.Handle
}

func genView(x *h.X, rq *genRequest, hd *keyset.Handle, what string) (*genKeyView, bool) {
	e, err := hd.Primary()
	if err != nil {
		x.Fail("generate-error", "%s: %s: no primary: %v", rq.cfg, what, err)
		return nil, false
	}
	ph, err := hd.Public()
	if err != nil {
		x.Fail("generate-error", "%s: %s: handle.Public(): %v", rq.cfg, what, err)
		return nil, false
	}
	pe, err := ph.Primary()
	if err != nil {
		x.Fail("generate-error", "%s: %s: public handle without primary: %v", rq.cfg, what, err)
		return nil, false
	}
	kv := &genKeyView{keyID: e.KeyID(), public: ph}
	if pe.KeyID() != e.KeyID() {
		x.Fail("generated-pubkey-mismatch", "%s: %s: primary of Public() has id %#x, private primary %#x", rq.cfg, what, pe.KeyID(), e.KeyID())
		return nil, false
	}
	tok := insecuresecretdataaccess.Token{}
	switch priv := e.Key().(type) {
	case *hpke.PrivateKey:
		pub, ok := pe.Key().(*hpke.PublicKey)
		in, _ := priv.PublicKey()
		inPub, ok2 := in.(*hpke.PublicKey)
		if !ok || !ok2 || rq.hp == nil {
			x.Fail("generated-parameters", "%s: %s: key types %T / %T / %T", rq.cfg, what, e.Key(), pe.Key(), in)
			return nil, false
		}
		kv.sk, kv.pkInPriv, kv.pkInPublic = priv.PrivateKeyBytes().Data(tok), inPub.PublicKeyBytes(), pub.PublicKeyBytes()
		kv.privParams, kv.pubParams = priv.Parameters(), pub.Parameters()
		kv.privPrefix, kv.pubPrefix = priv.OutputPrefix(), pub.OutputPrefix()
		kv.idReq, kv.idRequired = priv.IDRequirement()
	case *ecies.PrivateKey:
		pub, ok := pe.Key().(*ecies.PublicKey)
		in, _ := priv.PublicKey()
		inPub, ok2 := in.(*ecies.PublicKey)
		if !ok || !ok2 || rq.ep == nil {
			x.Fail("generated-parameters", "%s: %s: key types %T / %T / %T", rq.cfg, what, e.Key(), pe.Key(), in)
			return nil, false
		}
		kv.sk, kv.pkInPriv, kv.pkInPublic = priv.PrivateKeyBytes().Data(tok), inPub.PublicKeyBytes(), pub.PublicKeyBytes()
		kv.privParams, kv.pubParams = priv.Parameters(), pub.Parameters()
		kv.privPrefix, kv.pubPrefix = priv.OutputPrefix(), pub.OutputPrefix()
		kv.idReq, kv.idRequired = priv.IDRequirement()
	default:
		x.Fail("generated-parameters", "%s: %s: the generated key is a %T", rq.cfg, what, e.Key())
		return nil, false
	}
	return kv, true
}

// nistBaseMult: D*G by crypto/elliptic's generic interface (second derivation next to crypto/ecdh), SEC1 uncompressed.
func nistBaseMult(c elliptic.Curve, n int, d []byte) []byte {
	X, Y := c.ScalarBaseMult(d)
	out := make([]byte, 1+2*n)
	out[0] = 4
	X.FillBytes(out[1 : 1+n])
	Y.FillBytes(out[1+n:])
	return out
}

var genCurveOfKEM = map[string]func() elliptic.Curve{"P256": elliptic.P256, "P384": elliptic.P384, "P521": elliptic.P521}

// judgeGenerated runs (1)-(4) on the generated key of hd.
func judgeGenerated(x *h.X, rq *genRequest, hd *keyset.Handle, what string) bool {
	kv, ok := genView(x, rq, hd, what)
	if !ok {
		return false
	}
	cfg := rq.cfg + ": " + what
	// (3) parameters
	if !kv.privParams.Equal(rq.params) || !rq.params.Equal(kv.privParams) || !kv.pubParams.Equal(rq.params) {
		x.Fail("generated-parameters", "%s: the generated key has parameters %+v (public key: %+v), requested %+v", cfg, kv.privParams, kv.pubParams, rq.params)
		return false
	}
	switch {
	case rq.hp != nil:
		for _, p := range []key.Parameters{kv.privParams, kv.pubParams} {
			hpp := p.(*hpke.Parameters)
			if hpp.KEMID() != rq.hp.kem.tink || hpp.KDFID() != rq.hp.kdf.tink || hpp.AEADID() != rq.hp.aead.tink || hpp.Variant() != hpkeVar[rq.v] {
				x.Fail("generated-parameters", "%s: generated key says %v/%v/%v/%v, requested %s/%s/%s/%v", cfg, hpp.KEMID(), hpp.KDFID(), hpp.AEADID(), hpp.Variant(), rq.hp.kem, rq.hp.kdf, rq.hp.aead, rq.v)
				return false
			}
		}
	default:
		dp, err := rq.ep.d.params()
		if err != nil {
			x.Fail("harness", "%s: %v", cfg, err)
			return false
		}
		for _, p := range []key.Parameters{kv.privParams, kv.pubParams} {
			epp := p.(*ecies.Parameters)
			if epp.CurveType() != rq.ep.c.tink || epp.HashType() != rq.ep.hd.tink || epp.NISTCurvePointFormat() != rq.ep.f.tink || epp.Variant() != eciesVar[rq.v] ||
				!bytes.Equal(epp.Salt(), rq.ep.salt) || epp.DEMParameters() == nil || !epp.DEMParameters().Equal(dp) {
				x.Fail("generated-parameters", "%s: generated key says %v/%v/%v/%v salt=%x DEM=%+v, requested %s/%s/%s/%v salt=%x DEM=%s", cfg, epp.CurveType(), epp.HashType(),
					epp.NISTCurvePointFormat(), epp.Variant(), epp.Salt(), epp.DEMParameters(), rq.ep.c, rq.ep.hd, rq.ep.f, rq.v, rq.ep.salt, rq.ep.d)
				return false
			}
		}
	}
	prefix := ref.Prefix(rq.v, kv.keyID)
	if !bytes.Equal(kv.privPrefix, prefix) || !bytes.Equal(kv.pubPrefix, prefix) || kv.idRequired != (rq.v != ref.Raw) || (kv.idRequired && kv.idReq != kv.keyID) {
		x.Fail("generated-prefix", "%s: key id %#x variant %v: OutputPrefix %x / %x, id requirement %#x (%v); want prefix %x", cfg, kv.keyID, rq.v, kv.privPrefix, kv.pubPrefix, kv.idReq, kv.idRequired, prefix)
		return false
	}
	// (1) the public key belongs to the private key
	var pkWant []byte
	var err error
	skLen := 0
	if rq.hp != nil {
		skLen = rq.hp.kem.skLen
	} else {
		skLen = rq.ep.c.n
	}
	if len(kv.sk) != skLen {
		x.Fail("generated-private-key-length", "%s: the generated private key has %d bytes (%x…), want %d", cfg, len(kv.sk), kv.sk[:min(4, len(kv.sk))], skLen)
		return false
	}
	var ec elliptic.Curve
	if rq.hp != nil {
		pkWant, err = ref.HPKEPublicFromPrivate(rq.hp.kem.id, kv.sk)
		if f := genCurveOfKEM[rq.hp.kem.name]; f != nil {
			ec = f()
		}
	} else {
		pkWant, err = ref.ECIESPublicFromScalar(rq.ep.c.name, kv.sk)
		ec = rq.ep.c.ec()
	}
	x.Eval(1)
	if err != nil {
		x.Fail("generated-private-key-invalid", "%s: the generated private key is not a valid private key for the independent implementation: %v", cfg, err)
		return false
	}
	if ec != nil {
		if alt := nistBaseMult(ec, skLen, kv.sk); !bytes.Equal(alt, pkWant) {
			x.Fail("harness", "%s: crypto/elliptic and crypto/ecdh disagree on D*G", cfg)
			return false
		}
	}
	if !bytes.Equal(kv.pkInPriv, pkWant) || !bytes.Equal(kv.pkInPublic, pkWant) {
		x.Fail("generated-pubkey-mismatch", "%s: public key in the private key object %s, in handle.Public() %s; derived from the generated private key bytes: %s", cfg, tk.Hex(kv.pkInPriv), tk.Hex(kv.pkInPublic), tk.Hex(pkWant))
		return false
	}
	// primitives of the two handles
	enc, err := hybrid.NewHybridEncrypt(kv.public)
	if err != nil {
		x.Fail("construct", "%s: hybrid.NewHybridEncrypt(Public()): %v", cfg, err)
		return false
	}
	dec, err := hybrid.NewHybridDecrypt(hd)
	if err != nil {
		x.Fail("construct", "%s: hybrid.NewHybridDecrypt: %v", cfg, err)
		return false
	}
	var opens []namedOpen
	var seals []namedSeal
	if rq.hp != nil {
		k, kdf, aead := rq.hp.kem, rq.hp.kdf, rq.hp.aead
		suite := ref.HPKESuite{KEM: k.id, KDF: kdf.id, AEAD: aead.id}
		sp, err := k.std().NewPrivateKey(kv.sk)
		if err != nil {
			x.Fail("generated-private-key-invalid", "%s: crypto/hpke rejects the generated private key: %v", cfg, err)
			return false
		}
		spk, err := k.std().NewPublicKey(pkWant)
		if err != nil {
			x.Fail("harness", "%s: crypto/hpke NewPublicKey: %v", cfg, err)
			return false
		}
		opens = []namedOpen{
			{"crypto/hpke.Open", func(raw, info []byte) ([]byte, error) { return stdhpke.Open(sp, kdf.std(), aead.std(), info, raw) }},
			{"ref.HPKEOpen (RFC 9180 reference)", func(raw, info []byte) ([]byte, error) { return ref.HPKEOpen(suite, kv.sk, raw, info) }},
		}
		seals = []namedSeal{{"crypto/hpke.Seal", func(pt, info []byte, _ string) ([]byte, error) { return stdhpke.Seal(spk, kdf.std(), aead.std(), info, pt) }}}
		if k.nist > 0 || k.name == "X25519" {
			seals = append(seals, namedSeal{"ref.HPKESealDH (RFC 9180 reference)", func(pt, info []byte, label string) ([]byte, error) {
				return ref.HPKESealDH(suite, pkWant, hpkeSK(k, "gen-eph|"+label, 0), info, pt)
			}})
		}
	} else {
		ep := rq.ep
		rp := ref.ECIESParams{Curve: ep.c.name, Hash: ep.hd.name, Format: ep.f.name, DEM: ep.d.name, Salt: ep.salt}
		opens = []namedOpen{{"ref.ECIESDecrypt", func(raw, info []byte) ([]byte, error) { return ref.ECIESDecrypt(rp, kv.sk, raw, info) }}}
		seals = []namedSeal{{"ref.ECIESEncrypt", func(pt, info []byte, label string) ([]byte, error) {
			return ref.ECIESEncrypt(rp, pkWant, eciesSK(ep.c, "gen-eph|"+label, 0), ref.KeyBytes("c06-gen-iv|"+label, ref.ECIESDEMIVSize(ep.d.name)), pt, info)
		}}}
	}
	return genExercise(x, cfg, enc, dec, prefix, opens, seals)
}

// genExercise: (2) and (4) over 2 plaintext lengths x 4 context infos.
func genExercise(x *h.X, cfg string, enc tink.HybridEncrypt, dec tink.HybridDecrypt, prefix []byte, opens []namedOpen, seals []namedSeal) bool {
	pl := len(prefix)
	for _, n := range []int{0, 33} {
		for ii, info := range ctxInfos() {
			pt := ref.Pattern(2, n)
			lbl := fmt.Sprintf("%s|len=%d|info=%d", cfg, n, ii)
			other := append(bytes.Clone(info), 0)
			reseed(lbl)
			ct, err := enc.Encrypt(pt, info)
			x.Eval(1)
			if err != nil {
				x.Fail("encrypt-error", "%s: Encrypt to the generated public key: %v", lbl, err)
				return false
			}
			if len(ct) < pl || !bytes.Equal(ct[:pl], prefix) {
				x.Fail("wrong-prefix", "%s: ciphertext %s does not start with the prefix %x of the generated key", lbl, tk.Hex(ct), prefix)
				return false
			}
			got, err := dec.Decrypt(ct, info)
			x.Eval(1)
			if err != nil || !bytes.Equal(got, pt) {
				x.Fail("generated-roundtrip", "%s: the generated private key does not decrypt what was encrypted to its public key: %s, %v", lbl, tk.Hex(got), err)
				return false
			}
			for _, ro := range opens {
				got, err := ro.f(ct[pl:], info)
				x.Eval(1)
				if err != nil || !bytes.Equal(got, pt) {
					x.Fail("generated-interop-tink-to-ref", "%s: %s with the generated private key bytes and the requested parameters cannot decrypt tink's ciphertext %s: %s, %v", lbl, ro.name, tk.Hex(ct), tk.Hex(got), err)
					return false
				}
			}
			x.Eval(1)
			if p, err := dec.Decrypt(ct, other); err == nil {
				x.Fail("accept-other-info", "%s: Decrypt under context info || 00 returns %s", lbl, tk.Hex(p))
				return false
			}
			if len(info) > 0 {
				x.Eval(1)
				if p, err := dec.Decrypt(ct, nil); err == nil {
					x.Fail("accept-other-info", "%s: Decrypt under nil context info returns %s", lbl, tk.Hex(p))
					return false
				}
			}
			for _, rs := range seals {
				reseed(lbl + "|" + rs.name)
				raw, err := rs.f(pt, info, lbl)
				if err != nil {
					x.Fail("harness", "%s: reference %s failed: %v", lbl, rs.name, err)
					return false
				}
				rct := append(bytes.Clone(prefix), raw...)
				got, err := dec.Decrypt(rct, info)
				x.Eval(2)
				if err != nil || !bytes.Equal(got, pt) {
					x.Fail("generated-interop-ref-to-tink", "%s: tink cannot decrypt the ciphertext %s made by %s for the public key of the generated private key: %s, %v", lbl, tk.Hex(rct), rs.name, tk.Hex(got), err)
					return false
				}
				if p, err := dec.Decrypt(rct, other); err == nil {
					x.Fail("accept-other-info", "%s: reference ciphertext decrypts under context info || 00 (returned %s)", lbl, tk.Hex(p))
					return false
				}
			}
		}
	}
	return true
}

// ---- requests ----

func genHPKERequest(x *h.X, kem kemDef, kdf kdfDef, aead aeadDef, v ref.Variant) *genRequest {
	cfg := fmt.Sprintf("generated HPKE %s/%s/%s %v", kem, kdf, aead, v)
	p, err := hpke.NewParameters(hpke.ParametersOpts{KEMID: kem.tink, KDFID: kdf.tink, AEADID: aead.tink, Variant: hpkeVar[v]})
	if err != nil {
		x.Fail("construct", "%s: NewParameters: %v", cfg, err)
		return nil
	}
	return &genRequest{cfg: cfg, v: v, params: p, hp: &genHPKE{kem, kdf, aead}}
}

func genECIESRequest(x *h.X, c curveDef, hd hashDef, f formatDef, d demDef, salt []byte, v ref.Variant) *genRequest {
	cfg := fmt.Sprintf("generated ECIES %s/%s/%s/%s salt=%x %v", c, hd, f, d, salt, v)
	dp, err := d.params()
	if err != nil {
		x.Fail("construct", "%s: DEM parameters: %v", cfg, err)
		return nil
	}
	p, err := ecies.NewParameters(ecies.ParametersOpts{CurveType: c.tink, HashType: hd.tink, NISTCurvePointFormat: f.tink, DEMParameters: dp, Salt: salt, Variant: eciesVar[v]})
	if err != nil {
		x.Fail("construct", "%s: ecies.NewParameters: %v", cfg, err)
		return nil
	}
	return &genRequest{cfg: cfg, v: v, params: p, ep: &genECIES{c, hd, f, d, salt}}
}

func kemByName(n string) kemDef {
	for _, k := range kems {
		if k.name == n {
			return k
		}
	}
	panic("h: unknown kem " + n)
}

// genTemplate: one template function of hybrid/hybrid_key_templates.go with the parameters its documentation states.
type genTemplate struct {
	name string
	f    func() *tinkpb.KeyTemplate
	v    ref.Variant
	// HPKE: kem name, kdf index, aead index; ECIES (kem == ""): dem index (P-256, SHA256, UNCOMPRESSED, empty salt)
	kem       string
	kdf, aead int
	dem       int
}

func (t genTemplate) String() string { return t.name }

var genTemplates = []genTemplate{
	{"DHKEM_P256_HKDF_SHA256_HKDF_SHA256_AES_128_GCM_Key_Template", hybrid.DHKEM_P256_HKDF_SHA256_HKDF_SHA256_AES_128_GCM_Key_Template, ref.Tink, "P256", 0, 0, 0},
	{"DHKEM_P256_HKDF_SHA256_HKDF_SHA256_AES_128_GCM_Raw_Key_Template", hybrid.DHKEM_P256_HKDF_SHA256_HKDF_SHA256_AES_128_GCM_Raw_Key_Template, ref.Raw, "P256", 0, 0, 0},
	{"DHKEM_P256_HKDF_SHA256_HKDF_SHA256_AES_256_GCM_Key_Template", hybrid.DHKEM_P256_HKDF_SHA256_HKDF_SHA256_AES_256_GCM_Key_Template, ref.Tink, "P256", 0, 1, 0},
	{"DHKEM_P256_HKDF_SHA256_HKDF_SHA256_AES_256_GCM_Raw_Key_Template", hybrid.DHKEM_P256_HKDF_SHA256_HKDF_SHA256_AES_256_GCM_Raw_Key_Template, ref.Raw, "P256", 0, 1, 0},
	{"DHKEM_X25519_HKDF_SHA256_HKDF_SHA256_AES_128_GCM_Key_Template", hybrid.DHKEM_X25519_HKDF_SHA256_HKDF_SHA256_AES_128_GCM_Key_Template, ref.Tink, "X25519", 0, 0, 0},
	{"DHKEM_X25519_HKDF_SHA256_HKDF_SHA256_AES_128_GCM_Raw_Key_Template", hybrid.DHKEM_X25519_HKDF_SHA256_HKDF_SHA256_AES_128_GCM_Raw_Key_Template, ref.Raw, "X25519", 0, 0, 0},
	{"DHKEM_X25519_HKDF_SHA256_HKDF_SHA256_AES_256_GCM_Key_Template", hybrid.DHKEM_X25519_HKDF_SHA256_HKDF_SHA256_AES_256_GCM_Key_Template, ref.Tink, "X25519", 0, 1, 0},
	{"DHKEM_X25519_HKDF_SHA256_HKDF_SHA256_AES_256_GCM_Raw_Key_Template", hybrid.DHKEM_X25519_HKDF_SHA256_HKDF_SHA256_AES_256_GCM_Raw_Key_Template, ref.Raw, "X25519", 0, 1, 0},
	{"DHKEM_X25519_HKDF_SHA256_HKDF_SHA256_CHACHA20_POLY1305_Key_Template", hybrid.DHKEM_X25519_HKDF_SHA256_HKDF_SHA256_CHACHA20_POLY1305_Key_Template, ref.Tink, "X25519", 0, 2, 0},
	{"DHKEM_X25519_HKDF_SHA256_HKDF_SHA256_CHACHA20_POLY1305_Raw_Key_Template", hybrid.DHKEM_X25519_HKDF_SHA256_HKDF_SHA256_CHACHA20_POLY1305_Raw_Key_Template, ref.Raw, "X25519", 0, 2, 0},
	{"ECIESHKDFAES128GCMKeyTemplate", hybrid.ECIESHKDFAES128GCMKeyTemplate, ref.Tink, "", 0, 0, 0},
	{"ECIESHKDFAES128CTRHMACSHA256KeyTemplate", hybrid.ECIESHKDFAES128CTRHMACSHA256KeyTemplate, ref.Tink, "", 0, 0, 2},
}

func (t genTemplate) request(x *h.X) *genRequest {
	var rq *genRequest
	if t.kem != "" {
		rq = genHPKERequest(x, kemByName(t.kem), kdfs[t.kdf], aeads[t.aead], t.v)
	} else {
		rq = genECIESRequest(x, curves[0], eciesHashes[0], formats[0], dems[t.dem], nil, t.v)
	}
	if rq == nil {
		return nil
	}
	rq.tmpl = t.f()
	rq.cfg = "hybrid." + t.name + "() = " + rq.cfg
	return rq
}

// ---- the section ----

var genFamilies = []string{"hpke-parameters", "ecies-parameters", "templates", "hpke-leading-zero", "ecies-leading-zero"}

func genKeysSection(x *h.X) {
	fam := h.Pick(x, "family", genFamilies)
	switch fam {
	case "hpke-parameters":
		ki := x.Choose("kem", len(kems))
		kem := kems[ki]
		x.Label(kem.name)
		var kdf kdfDef
		var aead aeadDef
		if x.Thorough() {
			kdf = h.Pick(x, "kdf", kdfs)
			aead = h.Pick(x, "aead", aeads)
		} else {
			kdf, aead = kdfs[ki%3], aeads[(ki+ki/3)%3]
		}
		v := h.Pick(x, "variant", variants)
		route := h.Pick(x, "route", genRoutes)
		seed := x.Choose("entropy-seed", 2)
		rq := genHPKERequest(x, kem, kdf, aead, v)
		if rq == nil {
			return
		}
		genOne(x, rq, route, seed, fmt.Sprintf("generated/hpke/%s/%s/%s/%v", kem, kdf, aead, v))
	case "ecies-parameters":
		ci := x.Choose("curve", len(curves))
		x.Label(curves[ci].name)
		fi := x.Choose("format", len(formats))
		x.Label(formats[fi].name)
		var hd hashDef
		var d demDef
		hi, di := (ci+2*fi)%5, (3*ci+fi)%5
		if x.Thorough() {
			hi = x.Choose("hash", len(eciesHashes))
			x.Label(eciesHashes[hi].name)
			di = x.Choose("dem", len(dems))
			x.Label(dems[di].name)
		}
		hd, d = eciesHashes[hi], dems[di]
		vi := x.Choose("variant", len(variants))
		v := variants[vi]
		x.Label(v.String())
		route := h.Pick(x, "route", genRoutes)
		seed := x.Choose("entropy-seed", 2)
		salt := salts()[(ci+fi+vi+hi+di)%3]
		rq := genECIESRequest(x, curves[ci], hd, formats[fi], d, salt, v)
		if rq == nil {
			return
		}
		genOne(x, rq, route, seed, fmt.Sprintf("generated/ecies/%s/%s/%s/%s", curves[ci], hd, formats[fi], d))
	case "templates":
		t := h.Pick(x, "template", genTemplates)
		route := h.Pick(x, "route", genRoutes[1:])
		seed := x.Choose("entropy-seed", 2)
		rq := t.request(x)
		if rq == nil {
			return
		}
		genOne(x, rq, route, seed, "generated/template/"+t.name)
	case "hpke-leading-zero", "ecies-leading-zero":
		var rq *genRequest
		ci := x.Choose("curve", 3)
		x.Label(curves[ci].name)
		v, route := ref.Tink, genRoutes[0]
		if x.Thorough() {
			v = h.Pick(x, "variant", variants)
			route = h.Pick(x, "route", genRoutes)
		}
		if fam == "hpke-leading-zero" {
			rq = genHPKERequest(x, kemByName(curves[ci].name), kdfs[ci%3], aeads[(ci+1)%3], v)
		} else {
			rq = genECIESRequest(x, curves[ci], eciesHashes[0], formats[ci], dems[ci], salts()[ci], v)
		}
		if rq == nil {
			return
		}
		want := 1
		if x.Thorough() {
			want = 2
		}
		found, tried := 0, 0
		for seed := 1; seed <= 20000 && found < want; seed++ {
			hd, ok := generate(x, rq, route, seed)
			if !ok {
				return
			}
			tried++
			e, err := hd.Primary()
			if err != nil {
				x.Fail("generate-error", "%s via %s (entropy seed %d): no primary: %v", rq.cfg, route, seed, err)
				return
			}
			var sk []byte
			switch k := e.Key().(type) {
			case *hpke.PrivateKey:
				sk = k.PrivateKeyBytes().Data(insecuresecretdataaccess.Token{})
			case *ecies.PrivateKey:
				sk = k.PrivateKeyBytes().Data(insecuresecretdataaccess.Token{})
			}
			if len(sk) != curves[ci].n {
				x.Fail("generated-private-key-length", "%s via %s (entropy seed %d): the generated private key has %d bytes, want %d", rq.cfg, route, seed, len(sk), curves[ci].n)
				return
			}
			if sk[0] != 0 {
				continue
			}
			found++
			if !judgeGenerated(x, rq, hd, fmt.Sprintf("via %s, entropy seed %d (private scalar with a leading zero byte)", route, seed)) {
				return
			}
		}
		x.Eval(tried)
		x.Count("keys-generated-in-search", tried)
		if found < want {
			x.Fail("vacuous", "%s via %s: no generated private key with a leading zero byte in %d generations", rq.cfg, route, tried)
			return
		}
		x.Count("leading-zero-keys-judged", found)
		x.NonTrivial()
		x.Outcome(fmt.Sprintf("generated/%s/%s", fam, curves[ci].name))
	}
}

func genOne(x *h.X, rq *genRequest, route string, seed int, outcome string) {
	hd, ok := generate(x, rq, route, seed)
	if !ok {
		return
	}
	x.Count("keys-generated", 1)
	if !judgeGenerated(x, rq, hd, fmt.Sprintf("via %s, entropy seed %d", route, seed)) {
		return
	}
	x.NonTrivial()
	x.Outcome(outcome)
}
