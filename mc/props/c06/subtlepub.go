package main

// Section subtle-public-key: hybrid/subtle/public_key.go (SerializePrimaryPublicKey, KeysetHandleFromSerializedPublicKey,
// validateParameters). The only template the two functions support is DHKEM_X25519_HKDF_SHA256 / HKDF_SHA256 /
// CHACHA20_POLY1305 / NO_PREFIX.
//
// Judged (only what follows from the statement of C06): the handle that KeysetHandleFromSerializedPublicKey rebuilds
// from the output of SerializePrimaryPublicKey(privateHandle.Public(), template) encrypts such that
//   - the ORIGINAL private handle decrypts under the same context info (and only under it),
//   - the private key object of the handle's PRIMARY key and both independent HPKE implementations (stdlib crypto/hpke,
//     RFC 9180 reference) with the primary's private key bytes decrypt ("primary" is what the function serializes),
//   - a handle without the primary's private key does not decrypt.
// The primary sits at every position of one-, two- and three-key keysets (other keys: same parameters, P-256 TINK,
// AES-128-GCM RAW).
// Cells with unsupported parameters / a template that does not match the key: whether the functions refuse is NOT
// judged (not part of the statement); only if BOTH calls succeed the round trip through the original private handle
// must hold like above.

import (
	"bytes"
	stdhpke "crypto/hpke"
	"fmt"

	"github.com/tink-crypto/tink-go/v2/hybrid"
	"github.com/tink-crypto/tink-go/v2/hybrid/hpke"
	hsubtle "github.com/tink-crypto/tink-go/v2/hybrid/subtle"
	"github.com/tink-crypto/tink-go/v2/tink"
	"github.com/tink-crypto/tink-go/v2/verifbridge/vb"
	"verif/h"
	"verif/ref"
	"verif/tk"
)

type spkCase struct {
	name            string
	kem             int // index into kems
	kdf, aead       int
	v               ref.Variant
	supportedTmpl   bool // pass the supported template (else the template of the key's own parameters)
}

func (c spkCase) String() string { return c.name }

var spkCases = []spkCase{
	{"supported", 0, 0, 2, ref.Raw, true},
	{"key TINK variant / supported template", 0, 0, 2, ref.Tink, true},
	{"key AES-128-GCM / supported template", 0, 0, 0, ref.Raw, true},
	{"key HKDF-SHA512 / supported template", 0, 2, 2, ref.Raw, true},
	{"key P-256 / supported template", 1, 0, 2, ref.Raw, true},
	{"key TINK variant / own template", 0, 0, 2, ref.Tink, false},
	{"key AES-128-GCM / own template", 0, 0, 0, ref.Raw, false},
	{"key HKDF-SHA512 / own template", 0, 2, 2, ref.Raw, false},
	{"key P-256 / own template", 1, 0, 2, ref.Raw, false},
	{"key CRUNCHY variant / own template", 0, 0, 2, ref.Crunchy, false},
}

var spkShapes = []string{"[P*]", "[O P*]", "[P* O]", "[h P* g]"}

func spkParams(kem, kdf, aead int, v ref.Variant) (*hpke.Parameters, error) {
	return hpke.NewParameters(hpke.ParametersOpts{KEMID: kems[kem].tink, KDFID: kdfs[kdf].tink, AEADID: aeads[aead].tink, Variant: hpkeVar[v]})
}

func subtlePublicKeySection(x *h.X) {
	c := h.Pick(x, "case", spkCases)
	shape := x.Choose("keyset", len(spkShapes))
	x.Label(spkShapes[shape])
	which := x.Choose("keypair", 2)
	id := h.Pick(x, "id", []uint32{tk.IDs[0], 0, 0xFFFFFFFF})
	cfg := fmt.Sprintf("hybrid/subtle public key helpers: %s, keyset %s keypair=%d id=%#x", c.name, spkShapes[shape], which, id)

	supported, err := spkParams(0, 0, 2, ref.Raw)
	if err != nil {
		x.Fail("construct", "%s: %v", cfg, err)
		return
	}
	params, err := spkParams(c.kem, c.kdf, c.aead, c.v)
	if err != nil {
		x.Fail("construct", "%s: %v", cfg, err)
		return
	}
	tp := params
	if c.supportedTmpl {
		tp = supported
	}
	tmpl, err := vb.SerializeParameters(tp)
	if err != nil {
		x.Fail("construct", "%s: SerializeParameters: %v", cfg, err)
		return
	}
	kid := id
	if c.v == ref.Raw {
		kid = 0
	}
	kem, kdf, aead := kems[c.kem], kdfs[c.kdf], aeads[c.aead]
	kp := hpkeMakeKeys(x, kem, params, kid, which, cfg)
	ko := hpkeMakeKeys(x, kem, params, kidOther(c.v, id), 1-which, cfg) // other key, same parameters
	if kp == nil || ko == nil {
		return
	}
	entries := []tk.Entry{{Key: kp.priv, ID: id, Primary: true}}
	without := []tk.Entry{{Key: ko.priv, ID: id ^ 0x40, Primary: true}}
	switch shape {
	case 1:
		entries = []tk.Entry{{Key: ko.priv, ID: id ^ 0x40}, entries[0]}
	case 2:
		entries = []tk.Entry{entries[0], {Key: ko.priv, ID: id ^ 0x40}}
	case 3:
		hp, err1 := spkParams(1, 0, 0, ref.Tink)
		gp, err2 := spkParams(0, 0, 0, ref.Raw)
		if err1 != nil || err2 != nil {
			x.Fail("construct", "%s: %v %v", cfg, err1, err2)
			return
		}
		hk := hpkeMakeKeys(x, kems[1], hp, id^1, 0, cfg)
		gk := hpkeMakeKeys(x, kems[0], gp, 0, 0, cfg)
		if hk == nil || gk == nil {
			return
		}
		entries = []tk.Entry{{Key: hk.priv, ID: id ^ 1}, entries[0], {Key: gk.priv, ID: id ^ 2}}
		without = []tk.Entry{{Key: hk.priv, ID: id ^ 1}, without[0], {Key: gk.priv, ID: id ^ 2}}
	}
	privH, err := tk.Handle(entries)
	if err != nil {
		x.Fail("construct", "%s: private handle: %v", cfg, err)
		return
	}
	pubH, err := privH.Public()
	if err != nil {
		x.Fail("construct", "%s: Public(): %v", cfg, err)
		return
	}
	isSupported := c.name == "supported"
	ser, err := hsubtle.SerializePrimaryPublicKey(pubH, tmpl)
	if err != nil {
		if isSupported {
			x.Fail("construct", "%s: SerializePrimaryPublicKey: %v", cfg, err)
		} else {
			x.Outcome(c.name + ": SerializePrimaryPublicKey refuses (not judged)")
		}
		return
	}
	rebuilt, err := hsubtle.KeysetHandleFromSerializedPublicKey(ser, tmpl)
	if err != nil {
		if isSupported {
			x.Fail("construct", "%s: KeysetHandleFromSerializedPublicKey(%x): %v", cfg, ser, err)
		} else {
			x.Outcome(c.name + ": KeysetHandleFromSerializedPublicKey refuses (not judged)")
		}
		return
	}
	enc, err := hybrid.NewHybridEncrypt(rebuilt)
	if err != nil {
		x.Fail("construct", "%s: NewHybridEncrypt(rebuilt handle): %v", cfg, err)
		return
	}
	origDec, err := hybrid.NewHybridDecrypt(privH)
	if err != nil {
		x.Fail("construct", "%s: NewHybridDecrypt(private handle): %v", cfg, err)
		return
	}
	x.NonTrivial()
	if isSupported {
		x.Outcome("supported: round trip judged")
	} else {
		x.Outcome(c.name + ": accepted by both functions, round trip through the original private handle judged")
	}
	var primDec, woDec tink.HybridDecrypt
	if isSupported {
		if primDec, err = hpke.NewHybridDecrypt(kp.priv, vb.Tok()); err != nil {
			x.Fail("construct", "%s: %v", cfg, err)
			return
		}
		woH, err := tk.Handle(without)
		if err != nil {
			x.Fail("construct", "%s: %v", cfg, err)
			return
		}
		if woDec, err = hybrid.NewHybridDecrypt(woH); err != nil {
			x.Fail("construct", "%s: %v", cfg, err)
			return
		}
	}
	suite := ref.HPKESuite{KEM: kem.id, KDF: kdf.id, AEAD: aead.id}
	infos := ctxInfos()
	for _, n := range []int{0, 1, 15, 16, 17, 64, 70} {
		for ii, info := range infos {
			pt := ref.Pattern(2, n)
			lbl := fmt.Sprintf("%s|len=%d|info=%d", cfg, n, ii)
			reseed(lbl)
			ct, err := enc.Encrypt(pt, info)
			x.Eval(1)
			if err != nil {
				x.Fail("encrypt-error", "%s: Encrypt with the rebuilt handle: %v", lbl, err)
				return
			}
			x.Eval(1)
			if got, err := origDec.Decrypt(ct, info); err != nil || !bytes.Equal(got, pt) {
				x.Fail("roundtrip", "%s: serialized public key %x; the original private handle does not decrypt what the rebuilt handle encrypted (%s): %x, %v", lbl, ser, tk.Hex(ct), got, err)
				return
			}
			if !isSupported {
				continue
			}
			x.Eval(3)
			if got, err := primDec.Decrypt(ct, info); err != nil || !bytes.Equal(got, pt) {
				x.Fail("roundtrip", "%s: serialized public key %x is not the primary's: the primary private key does not decrypt: %x, %v", lbl, ser, got, err)
				return
			}
			if got, err := stdhpke.Open(kp.stdPriv, kdf.std(), aead.std(), info, ct); err != nil || !bytes.Equal(got, pt) {
				x.Fail("interop-tink-to-ref", "%s: crypto/hpke.Open with the primary's private key of %x: %x, %v", lbl, ct, got, err)
				return
			}
			if got, err := ref.HPKEOpen(suite, kp.sk, ct, info); err != nil || !bytes.Equal(got, pt) {
				x.Fail("interop-tink-to-ref", "%s: RFC 9180 reference Open with the primary's private key of %x: %x, %v", lbl, ct, got, err)
				return
			}
			neg := func(key string, cc, inf []byte, d tink.HybridDecrypt, what string) {
				x.Eval(1)
				if p, err := d.Decrypt(cc, inf); err == nil {
					x.Fail(key, "%s: Decrypt accepted %s (returned %s)", lbl, what, tk.Hex(p))
				}
			}
			neg("accept-other-info", ct, append(bytes.Clone(info), 0), origDec, "context info || 00")
			if len(info) > 0 {
				neg("accept-other-info", ct, nil, origDec, "nil context info for a non-empty one")
				neg("accept-other-info", ct, info[:len(info)-1], origDec, "context info shortened by one byte")
			} else {
				neg("accept-other-info", ct, infos[2], origDec, "context info 42 for an empty one")
			}
			neg("accept-payload-flip", flip(ct, 8*len(ct)-1), info, origDec, "ciphertext with last bit flipped")
			neg("accept-enc-flip", flip(ct, 0), info, origDec, "ciphertext with first bit flipped")
			neg("accept-trunc", ct[:len(ct)-1], info, origDec, "ciphertext truncated by one byte")
			neg("accept-other-key", ct, info, woDec, "ciphertext under a keyset without the primary's private key")
		}
	}
}

func kidOther(v ref.Variant, id uint32) uint32 {
	if v == ref.Raw {
		return 0
	}
	return id ^ 0x40
}
