package main

import (
	"bytes"
	"crypto/elliptic"
	"fmt"
	"math/big"
	"sync"
	"sync/atomic"

	"github.com/tink-crypto/tink-go/v2/aead/aesctrhmac"
	"github.com/tink-crypto/tink-go/v2/aead/aesgcm"
	"github.com/tink-crypto/tink-go/v2/daead/aessiv"
	"github.com/tink-crypto/tink-go/v2/hybrid"
	"github.com/tink-crypto/tink-go/v2/hybrid/ecies"
	hsubtle "github.com/tink-crypto/tink-go/v2/hybrid/subtle"
	"github.com/tink-crypto/tink-go/v2/insecuresecretdataaccess"
	"github.com/tink-crypto/tink-go/v2/key"
	"github.com/tink-crypto/tink-go/v2/secretdata"
	"github.com/tink-crypto/tink-go/v2/tink"
	"github.com/tink-crypto/tink-go/v2/verifbridge/vb"
	"verif/h"
	"verif/ref"
	"verif/tk"
)

type curveDef struct {
	name string
	tink ecies.CurveType
	n    int
	ec   func() elliptic.Curve
}

func (c curveDef) String() string { return c.name }

var curves = []curveDef{
	{"P256", ecies.NISTP256, 32, elliptic.P256},
	{"P384", ecies.NISTP384, 48, elliptic.P384},
	{"P521", ecies.NISTP521, 66, elliptic.P521},
}

type hashDef struct {
	name string
	tink ecies.HashType
}

func (d hashDef) String() string { return d.name }

var eciesHashes = []hashDef{{"SHA256", ecies.SHA256}, {"SHA1", ecies.SHA1}, {"SHA224", ecies.SHA224}, {"SHA384", ecies.SHA384}, {"SHA512", ecies.SHA512}}

type formatDef struct {
	name string
	tink ecies.PointFormat
}

func (d formatDef) String() string { return d.name }

var formats = []formatDef{
	{"UNCOMPRESSED", ecies.UncompressedPointFormat},
	{"COMPRESSED", ecies.CompressedPointFormat},
	{"DO_NOT_USE_CRUNCHY_UNCOMPRESSED", ecies.LegacyUncompressedPointFormat},
}

type demDef struct {
	name     string
	overhead int
	params   func() (key.Parameters, error)
}

func (d demDef) String() string { return d.name }

func gcmParams(ks int) func() (key.Parameters, error) {
	return func() (key.Parameters, error) {
		return aesgcm.NewParameters(aesgcm.ParametersOpts{KeySizeInBytes: ks, IVSizeInBytes: 12, TagSizeInBytes: 16, Variant: aesgcm.VariantNoPrefix})
	}
}

func ctrHmacParams(ks, tag int) func() (key.Parameters, error) {
	return func() (key.Parameters, error) {
		return aesctrhmac.NewParameters(aesctrhmac.ParametersOpts{AESKeySizeInBytes: ks, HMACKeySizeInBytes: 32, IVSizeInBytes: 16,
			HashType: aesctrhmac.SHA256, TagSizeInBytes: tag, Variant: aesctrhmac.VariantNoPrefix})
	}
}

var dems = []demDef{
	{"AES128_GCM", 28, gcmParams(16)},
	{"AES256_GCM", 28, gcmParams(32)},
	{"AES128_CTR_HMAC_SHA256", 32, ctrHmacParams(16, 16)},
	{"AES256_CTR_HMAC_SHA256", 48, ctrHmacParams(32, 32)},
	{"AES256_SIV", 16, func() (key.Parameters, error) { return aessiv.NewParameters(64, aessiv.VariantNoPrefix) }},
}

var eciesVar = map[ref.Variant]ecies.Variant{ref.Tink: ecies.VariantTink, ref.Crunchy: ecies.VariantCrunchy, ref.Raw: ecies.VariantNoPrefix}

func salts() [][]byte { return [][]byte{nil, {0x5a}, ref.KeyBytes("c06-ecies-salt", 32)} }

// zeroSalts: all-zero and zero-padded salts. Up to the HMAC block size an all-zero salt equals the RFC 5869
// default, beyond it (65 bytes for SHA-1/224/256, 129 for SHA-384/512) it does not: no layer (parameters, key
// serialisation, HKDF helper) may normalise such a salt away.
func zeroSalts() [][]byte {
	pad := make([]byte, 140)
	pad[130] = 0x80
	return [][]byte{{}, make([]byte, 32), make([]byte, 64), make([]byte, 65), make([]byte, 128), make([]byte, 129), pad}
}

// eciesSK: deterministic scalar; which=1 has three leading zero bytes.
func eciesSK(c curveDef, label string, which int) []byte {
	b := ref.KeyBytes(fmt.Sprintf("c06-ecies-%s-%s-%d", c.name, label, which), c.n)
	if c.name == "P521" {
		b[0] &= 1
	}
	if which == 1 {
		b[0], b[1], b[2] = 0, 0, 0
	}
	return b
}

func smallScalar(c curveDef, k int) []byte {
	b := make([]byte, c.n)
	big.NewInt(int64(k)).FillBytes(b)
	return b
}

type eciesCase struct {
	c      curveDef
	hd     hashDef
	f      formatDef
	d      demDef
	salt   []byte
	v      ref.Variant
	id     uint32
	path   string
	rp     ref.ECIESParams
	params *ecies.Parameters
}

var eciesPaths = []string{"ecies.NewHybridEncrypt/Decrypt", "hybrid.New*(proto handle)"}

func (e *eciesCase) String() string {
	return fmt.Sprintf("ECIES %s/%s/%s/%s salt=%x %v id=%#x via %s", e.c, e.hd, e.f, e.d, e.salt, e.v, e.id, e.path)
}

func (e *eciesCase) init(x *h.X) bool {
	e.rp = ref.ECIESParams{Curve: e.c.name, Hash: e.hd.name, Format: e.f.name, DEM: e.d.name, Salt: e.salt}
	dp, err := e.d.params()
	if err != nil {
		x.Fail("construct", "%s: DEM parameters: %v", e, err)
		return false
	}
	e.params, err = ecies.NewParameters(ecies.ParametersOpts{CurveType: e.c.tink, HashType: e.hd.tink, NISTCurvePointFormat: e.f.tink,
		DEMParameters: dp, Salt: e.salt, Variant: eciesVar[e.v]})
	if err != nil {
		x.Fail("construct", "%s: ecies.NewParameters: %v", e, err)
		return false
	}
	return true
}

// build returns encrypter, decrypter, and the recipient's uncompressed public point for scalar sk.
func (e *eciesCase) build(x *h.X, sk []byte) (tink.HybridEncrypt, tink.HybridDecrypt, []byte) {
	kid := e.id
	if e.v == ref.Raw {
		kid = 0
	}
	priv, err := ecies.NewPrivateKey(secretdata.NewBytesFromData(bytes.Clone(sk), insecuresecretdataaccess.Token{}), kid, e.params)
	if err != nil {
		x.Fail("construct", "%s: ecies.NewPrivateKey: %v", e, err)
		return nil, nil, nil
	}
	pk0, _ := priv.PublicKey()
	pub := pk0.(*ecies.PublicKey)
	want, err := ref.ECIESPublicFromScalar(e.c.name, sk)
	if err != nil {
		x.Fail("harness", "%s: %v", e, err)
		return nil, nil, nil
	}
	if !bytes.Equal(want, pub.PublicKeyBytes()) {
		x.Fail("pubkey-mismatch", "%s: tink public key %x, reference %x", e, pub.PublicKeyBytes(), want)
		return nil, nil, nil
	}
	if !bytes.Equal(pub.OutputPrefix(), ref.Prefix(e.v, e.id)) {
		x.Fail("wrong-prefix", "%s: OutputPrefix %x, want %x", e, pub.OutputPrefix(), ref.Prefix(e.v, e.id))
		return nil, nil, nil
	}
	var enc tink.HybridEncrypt
	var dec tink.HybridDecrypt
	if e.path == eciesPaths[0] {
		enc, err = ecies.NewHybridEncrypt(pub, vb.Tok())
		if err == nil {
			dec, err = ecies.NewHybridDecrypt(priv, vb.Tok())
		}
	} else {
		hd, e1 := tk.Handle([]tk.Entry{{Key: priv, ID: e.id, Primary: true}})
		if e1 != nil {
			x.Fail("construct", "%s: keyset handle: %v", e, e1)
			return nil, nil, nil
		}
		ph, e2 := hd.Public()
		if e2 != nil {
			x.Fail("construct", "%s: handle.Public: %v", e, e2)
			return nil, nil, nil
		}
		enc, err = hybrid.NewHybridEncrypt(ph)
		if err == nil {
			dec, err = hybrid.NewHybridDecrypt(hd)
		}
	}
	if err != nil {
		x.Fail("construct", "%s: %v", e, err)
		return nil, nil, nil
	}
	return enc, dec, want
}

// eciesSubst: replacement kem_bytes for a valid one, in the key's point format (all must lead to an error).
func eciesSubst(c curveDef, format string, kem []byte, others ...[]byte) [][]byte {
	unc, err := ref.ECIESDecodePoint(c.name, format, kem)
	if err != nil {
		return nil
	}
	n := c.n
	base := sec1Substitutions(n, unc, others...)
	var out [][]byte
	seen := map[string]bool{string(kem): true}
	add := func(b []byte) {
		if !seen[string(b)] {
			seen[string(b)] = true
			out = append(out, b)
		}
	}
	switch format {
	case "UNCOMPRESSED":
		for _, b := range base {
			add(b)
		}
		add(ref.ECIESEncodePoint(c.name, "COMPRESSED", unc)) // other formats: wrong length
		add(unc[1:])
	case "DO_NOT_USE_CRUNCHY_UNCOMPRESSED":
		for _, b := range base {
			add(b[1:])
		}
		add(unc)
		add(ref.ECIESEncodePoint(c.name, "COMPRESSED", unc))
	case "COMPRESSED":
		x := kem[1:]
		for _, tag := range []byte{2, 3, 0, 1, 4, 5, 6, 7, 0xff} {
			add(append([]byte{tag}, x...))
		}
		p := nistP[n]
		xp := new(big.Int).Add(new(big.Int).SetBytes(x), p)
		for _, v := range []*big.Int{p, xp, new(big.Int), big.NewInt(1), new(big.Int).Sub(p, big.NewInt(1))} {
			if v.BitLen() <= 8*n {
				for _, tag := range []byte{2, 3} {
					add(append([]byte{tag}, v.FillBytes(make([]byte, n))...))
				}
			}
		}
		add(bytes.Repeat([]byte{0xff}, n+1))
		for _, o := range others {
			add(ref.ECIESEncodePoint(c.name, "COMPRESSED", o))
		}
		add(unc)
		add(unc[1:])
	}
	return out
}

var eciesQuickCells = []cell{{ref.Tink, 0, 0, 0}, {ref.Crunchy, 1, 1, 0}, {ref.Raw, 0, 0, 1}}

func eciesSection(x *h.X) {
	e := &eciesCase{}
	ci := x.Choose("curve", len(curves))
	e.c = curves[ci]
	x.Label(e.c.name)
	fi := x.Choose("format", len(formats))
	e.f = formats[fi]
	x.Label(e.f.name)
	idl := ids(x)
	var cl cell
	si := 0
	zeroOK := false // zero-shaped salts: P-256, every hash, first DEM, first cell
	if x.Thorough() || ci == 0 {
		// P-256 (and everything in thorough): the full hash x DEM product
		hi := x.Choose("hash", len(eciesHashes))
		e.hd = eciesHashes[hi]
		x.Label(e.hd.name)
		di := x.Choose("dem", len(dems))
		e.d = dems[di]
		x.Label(e.d.name)
		switch {
		case x.Thorough() && ci == 0:
			// P-256: x every salt x (variants x 2 ids x paths x key pairs); the remaining ids on the first hash/DEM
			si = x.Choose("salt", 3)
			cells := allCells(2, 2)
			if hi == 0 && di == 0 {
				cells = append(cells, extraIDCells(len(idl), true)...)
			}
			cj := x.Choose("variant/id/path/keypair", len(cells))
			cl = cells[cj]
			zeroOK = di == 0 && cj == 0 && si == 0
		default:
			// P-256 quick, P-384 / P-521 thorough: three (salt, variant/id/path/keypair) pairs, rotated
			k := x.Choose("variant/id/path/keypair", 3)
			cl = eciesQuickCells[k]
			si = (k + hi + di) % 3
			zeroOK = ci == 0 && di == 0 && k == 0
		}
	} else {
		// quick, P-384 / P-521: every hash and every DEM once per point format (shifted diagonal)
		i := x.Choose("hash/dem", 5)
		e.hd, e.d = eciesHashes[i], dems[(i+fi)%5]
		x.Label(e.hd.name + "/" + e.d.name)
		cl = eciesQuickCells[(i+fi)%3]
		si = (i + 2*fi) % 3
	}
	e.salt = salts()[si]
	zeroPath := -1
	if zeroOK {
		if z := x.Choose("zero-salt-shape(0=regular)", 1+len(zeroSalts())); z > 0 {
			e.salt = zeroSalts()[z-1]
			zeroPath = x.Choose("zero-salt-path", len(eciesPaths)) // both the key-object and the serialised-keyset route
		}
	}
	e.v, e.id, e.path = cl.v, idl[cl.id], eciesPaths[cl.path]
	if zeroPath >= 0 {
		e.path = eciesPaths[zeroPath]
	}
	x.Label(fmt.Sprintf("%v id=%#x %s keypair=%d salt %d bytes", e.v, e.id, e.path, cl.kp, len(e.salt)))
	if !e.init(x) {
		return
	}
	which := cl.kp
	skA, skB := eciesSK(e.c, "recipient", which), eciesSK(e.c, "recipient", 1-which)
	enc, dec, pubA := e.build(x, skA)
	_, decOther, pubB := e.build(x, skB)
	if enc == nil || decOther == nil {
		return
	}
	cfg := fmt.Sprintf("%s keypair=%d", e, which)
	kemLen := ref.ECIESEncodingSize(e.c.name, e.f.name)
	s := &scheme{cfg: cfg, enc: enc, dec: dec, decOther: decOther, prefix: ref.Prefix(e.v, e.id), encLen: kemLen, overhead: e.d.overhead, costly: ci > 0, heavy: cl.id == 0 && cl.path == 0 && cl.kp == 0 && si == 0}
	s.refOpen = []namedOpen{{"ref.ECIESDecrypt", func(raw, info []byte) ([]byte, error) { return ref.ECIESDecrypt(e.rp, skA, raw, info) }}}
	s.refSeal = []namedSeal{{"ref.ECIESEncrypt", func(pt, info []byte, label string) ([]byte, error) {
		eph := eciesSK(e.c, "eph|"+label, 0)
		iv := ref.KeyBytes("c06-iv|"+label, ref.ECIESDEMIVSize(e.d.name))
		return ref.ECIESEncrypt(e.rp, pubA, eph, iv, pt, info)
	}}}
	s.encBits = func(bool) []int { return allBits(kemLen) }
	s.encSubst = func(kem []byte) [][]byte { return eciesSubst(e.c, e.f.name, kem, pubA, pubB) }
	x.NonTrivial()
	x.Outcome(fmt.Sprintf("ecies/%s/%s/%s/%s", e.c, e.hd, e.f, e.d))
	exercise(x, s, e.id)
}

// kG: table of k*G, k = 1..4096, per curve (SEC1 uncompressed), computed once by the reference.
const tableSize = 4096

var kgOnce [3]sync.Once
var kgTab [3][][]byte

func kG(ci int) [][]byte {
	kgOnce[ci].Do(func() {
		c := curves[ci]
		t := make([][]byte, tableSize+1)
		for k := 1; k <= tableSize; k++ {
			p, err := ref.ECIESPublicFromScalar(c.name, smallScalar(c, k))
			if err != nil {
				panic(err)
			}
			t[k] = p
		}
		kgTab[ci] = t
	})
	return kgTab[ci]
}

// firstShort returns the smallest k >= 2 whose k*G has a leading zero byte at coordinate offset off.
func firstShort(ci, off int) int {
	t := kG(ci)
	for k := 2; k <= tableSize; k++ {
		if t[k][off] == 0 {
			return k
		}
	}
	return 0
}

// eciesShortSection: ephemeral points with a leading-zero coordinate, ECDH results with a leading zero byte and
// recipient keys whose public point has a short coordinate, in both directions.
//   - reference sender: the cases are constructed: ephemeral scalar k with short x(k*G) / y(k*G); ephemeral scalar
//     m * d^-1 mod n, so that the shared point is m*G with short x; recipient scalars d = k likewise.
//   - tink sender: found by deterministic search over entropy seeds 1,2,3,... (quick: P-256 and P-521, where a
//     "short" value has probability 1/256 resp. 1/2; thorough: P-384 too).
func eciesShortSection(x *h.X) {
	e := &eciesCase{hd: eciesHashes[0], v: ref.Raw, id: tk.IDs[0], path: eciesPaths[0]}
	ci := x.Choose("curve", len(curves))
	e.c = curves[ci]
	x.Label(e.c.name)
	e.f = h.Pick(x, "format", formats)
	e.d = h.Pick(x, "dem", []demDef{dems[0], dems[3]})
	dir := h.Pick(x, "sender", []string{"reference", "tink"})
	rcp := h.Pick(x, "recipient", []string{"generic", "short-x public point", "short-y public point"})
	if dir == "tink" && !x.Thorough() && (e.c.name == "P384" || e.d.name != dems[0].name) {
		return
	}
	if !e.init(x) {
		return
	}
	n := e.c.n
	kx, ky := firstShort(ci, 1), firstShort(ci, 1+n)
	if kx == 0 || ky == 0 {
		x.Fail("vacuous", "%s: no k*G with a leading-zero coordinate for k <= %d", e.c, tableSize)
		return
	}
	var sk []byte
	switch rcp {
	case "generic":
		sk = eciesSK(e.c, "recipient", 0)
	case "short-x public point":
		sk = smallScalar(e.c, kx)
	default:
		sk = smallScalar(e.c, ky)
	}
	enc, dec, pub := e.build(x, sk)
	if enc == nil {
		return
	}
	cfg := fmt.Sprintf("%s sender=%s recipient=%s", e, dir, rcp)
	info := []byte("ctx")
	pt := ref.Pattern(2, 33)
	kemLen := ref.ECIESEncodingSize(e.c.name, e.f.name)
	seen := [3]int{} // short x, short y, short shared secret
	checked := 0
	// check decrypts raw with tink and the reference and classifies it
	check := func(raw []byte, what string) ([3]bool, bool) {
		unc, err := ref.ECIESDecodePoint(e.c.name, e.f.name, raw[:kemLen])
		if err != nil {
			x.Fail("interop-tink-to-ref", "%s %s: reference rejects the encapsulated point %x: %v", cfg, what, raw[:kemLen], err)
			return [3]bool{}, false
		}
		shared, err := ref.ECIESSharedX(e.c.name, sk, unc)
		if err != nil {
			x.Fail("harness", "%s %s: %v", cfg, what, err)
			return [3]bool{}, false
		}
		return [3]bool{unc[1] == 0, unc[1+n] == 0, shared[0] == 0}, true
	}
	decrypt := func(raw []byte, what string, cls [3]bool) bool {
		checked++
		got, err := dec.Decrypt(raw, info)
		x.Eval(1)
		if err != nil || !bytes.Equal(got, pt) {
			x.Fail("short-coordinate", "%s %s (short x/y/secret = %v): tink Decrypt of %x: %x, %v", cfg, what, cls, raw, got, err)
			return false
		}
		got, err = ref.ECIESDecrypt(e.rp, sk, raw, info)
		x.Eval(1)
		if err != nil || !bytes.Equal(got, pt) {
			x.Fail("short-coordinate", "%s %s (short x/y/secret = %v): reference decryption of %x: %x, %v", cfg, what, cls, raw, got, err)
			return false
		}
		return true
	}
	if dir == "reference" {
		ord := e.c.ec().Params().N
		dinv := new(big.Int).ModInverse(new(big.Int).SetBytes(sk), ord)
		viaShared := func(m int) []byte { // ephemeral scalar with e*d = m (mod n): shared point = m*G
			v := new(big.Int).Mul(big.NewInt(int64(m)), dinv)
			return v.Mod(v, ord).FillBytes(make([]byte, n))
		}
		type tc struct {
			what string
			eph  []byte
			must int // class that must be present
		}
		cases := []tc{
			{fmt.Sprintf("ephemeral %d*G (short x)", kx), smallScalar(e.c, kx), 0},
			{fmt.Sprintf("ephemeral %d*G (short y)", ky), smallScalar(e.c, ky), 1},
			{fmt.Sprintf("shared point %d*G (short x)", kx), viaShared(kx), 2},
			{"ephemeral 1*G", smallScalar(e.c, 1), -1},
			{"ephemeral (n-1)*G", new(big.Int).Sub(ord, big.NewInt(1)).FillBytes(make([]byte, n)), -1},
		}
		t := kG(ci)
		for k, extra := kx+1, 0; k <= tableSize && extra < 3; k++ { // further short-x shared points / ephemerals
			if t[k][1] == 0 {
				cases = append(cases, tc{fmt.Sprintf("shared point %d*G (short x)", k), viaShared(k), 2},
					tc{fmt.Sprintf("ephemeral %d*G (short x)", k), smallScalar(e.c, k), 0})
				extra++
			}
		}
		for i, c := range cases {
			iv := ref.KeyBytes(fmt.Sprintf("iv%d", i), ref.ECIESDEMIVSize(e.d.name))
			raw, err := ref.ECIESEncrypt(e.rp, pub, c.eph, iv, pt, info)
			if err != nil {
				x.Fail("harness", "%s %s: %v", cfg, c.what, err)
				return
			}
			cls, ok := check(raw, c.what)
			if !ok {
				return
			}
			if c.must >= 0 && !cls[c.must] {
				x.Fail("harness", "%s %s: constructed case is not short (%v)", cfg, c.what, cls)
				return
			}
			for j := range cls {
				if cls[j] {
					seen[j]++
				}
			}
			if !decrypt(raw, c.what, cls) {
				return
			}
		}
	} else {
		want := 1
		if x.Thorough() {
			want = 2
		}
		for i := 1; i <= 20000 && (seen[0] < want || seen[1] < want || seen[2] < want); i++ {
			reseed(fmt.Sprintf("%s|%d", cfg, i))
			raw, err := enc.Encrypt(pt, info)
			if err != nil {
				x.Fail("encrypt-error", "%s seed %d: %v", cfg, i, err)
				return
			}
			what := fmt.Sprintf("entropy seed %d", i)
			cls, ok := check(raw, what)
			if !ok {
				return
			}
			interesting := i <= 2
			for j := range cls {
				if cls[j] && seen[j] < want {
					seen[j]++
					interesting = true
				}
			}
			if interesting && !decrypt(raw, what, cls) {
				return
			}
		}
	}
	if seen[0] < 1 || seen[1] < 1 || seen[2] < 1 {
		x.Fail("vacuous", "%s: short x / y / shared secret not all exercised: %v", cfg, seen)
		return
	}
	x.Count("short-cases-checked", checked)
	x.NonTrivial()
	x.Outcome("short/" + e.c.name + "/" + dir)
}

var shortFound [3]int64 // per curve: coordinates of k*G with a leading zero byte
var pointsRun int64

// eciesPointSection: PointEncode / PointDecode on k*G, k = 1..4096, and decode verdicts on an invalid-point catalogue.
func eciesPointSection(x *h.X) {
	ci := x.Choose("curve", len(curves))
	c := curves[ci]
	x.Label(c.name)
	f := h.Pick(x, "format", formats)
	chunk := x.Choose("k-chunk(256)", 16)
	ec := c.ec()
	n := c.n
	tab := kG(ci)
	atomic.AddInt64(&pointsRun, 1)
	short := 0
	decodeAgree := func(enc []byte, what string) {
		want, rerr := ref.ECIESDecodePoint(c.name, f.name, enc)
		var got *hsubtle.ECPoint
		var terr error
		if pan, msg := h.Try(func() { got, terr = hsubtle.PointDecode(ec, f.name, enc) }); pan {
			x.Fail("panic", "%s/%s: PointDecode(%x) panics: %s", c, f, enc, msg)
			return
		}
		x.Eval(1)
		switch {
		case rerr != nil && terr == nil:
			x.Fail("invalid-point-accepted", "%s/%s: PointDecode accepts %s %x as (%x, %x); reference: %v", c, f, what, enc, got.X, got.Y, rerr)
		case rerr == nil && terr != nil:
			x.Fail("valid-point-rejected", "%s/%s: PointDecode rejects the valid encoding %s %x: %v", c, f, what, enc, terr)
		case rerr == nil:
			gx, gy := make([]byte, n), make([]byte, n)
			if got.X.BitLen() > 8*n || got.Y.BitLen() > 8*n || got.X.Sign() < 0 || got.Y.Sign() < 0 {
				x.Fail("point-decode", "%s/%s: PointDecode(%x) returns out-of-range coordinates", c, f, enc)
				return
			}
			got.X.FillBytes(gx)
			got.Y.FillBytes(gy)
			if !bytes.Equal(gx, want[1:1+n]) || !bytes.Equal(gy, want[1+n:]) {
				x.Fail("point-decode", "%s/%s: PointDecode(%s %x) = (%x, %x), reference (%x, %x)", c, f, what, enc, gx, gy, want[1:1+n], want[1+n:])
			}
		}
	}
	for k := chunk*256 + 1; k <= chunk*256+256; k++ {
		unc := tab[k]
		if unc[1] == 0 {
			short++
		}
		if unc[1+n] == 0 {
			short++
		}
		X, Y := new(big.Int).SetBytes(unc[1:1+n]), new(big.Int).SetBytes(unc[1+n:])
		want := ref.ECIESEncodePoint(c.name, f.name, unc)
		got, err := hsubtle.PointEncode(ec, f.name, hsubtle.ECPoint{X: X, Y: Y})
		x.Eval(1)
		if err != nil || !bytes.Equal(got, want) {
			x.Fail("point-encode", "%s/%s: PointEncode(%d*G) = %x, %v; reference %x", c, f, k, got, err, want)
			return
		}
		decodeAgree(want, fmt.Sprintf("%d*G", k))
		if back, err := ref.ECIESDecodePoint(c.name, f.name, want); err != nil || !bytes.Equal(back, unc) {
			x.Fail("harness", "%s/%s: reference decode(encode(%d*G)) != %d*G (%v)", c, f, k, k, err)
			return
		}
		if k <= 24 || unc[1] == 0 || unc[1+n] == 0 {
			for _, sub := range eciesSubst(c, f.name, want) {
				if len(sub) == len(want) {
					decodeAgree(sub, fmt.Sprintf("variation of %d*G", k))
				} else if _, err := hsubtle.PointDecode(ec, f.name, sub); err == nil {
					x.Fail("invalid-point-accepted", "%s/%s: PointDecode accepts %d bytes (want %d): %x", c, f, len(sub), len(want), sub)
				}
			}
			// an off-curve point must not be encoded
			if _, err := hsubtle.PointEncode(ec, f.name, hsubtle.ECPoint{X: X, Y: new(big.Int).Add(Y, big.NewInt(1))}); err == nil {
				x.Fail("invalid-point-accepted", "%s/%s: PointEncode encodes the off-curve point (x(%d*G), y+1)", c, f, k)
			}
		}
	}
	if chunk == 0 {
		// every small abscissa in compressed form, both parities: exists / does not exist must agree with the reference
		if f.name == "COMPRESSED" {
			for v := 0; v < 64; v++ {
				for _, tag := range []byte{2, 3} {
					decodeAgree(append([]byte{tag}, smallScalar(c, v)...), fmt.Sprintf("x=%d", v))
				}
			}
		}
	}
	atomic.AddInt64(&shortFound[ci], int64(short))
	x.Count("short-coordinates/"+c.name, short)
	x.NonTrivial()
	x.Outcome("points/" + c.name + "/" + f.name)
}

// eciesPointVacuity runs after ecies-points: every curve must have produced leading-zero coordinates.
func eciesPointVacuity(x *h.X) {
	if atomic.LoadInt64(&pointsRun) != int64(len(curves)*len(formats)*16) || x.Replaying() {
		return // the points section did not run to completion (filtered out, or the run was stopped by violations)
	}
	for ci, c := range curves {
		if atomic.LoadInt64(&shortFound[ci]) < 1 {
			x.Fail("vacuous", "%s: no k*G, k <= 4096, with a leading-zero coordinate was enumerated", c)
		}
	}
	x.NonTrivial()
	x.Outcome("short-coordinates-present")
}
