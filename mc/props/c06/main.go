// C06: hybrid encryption (HPKE, ECIES-AEAD-HKDF) round-trips, binds the context info, interoperates both ways
// with independent implementations and rejects every mutation.
//
// Engine E1 (exhaustive enumeration). Oracles: Go 1.26 stdlib crypto/hpke (all 63 suites, both directions),
// verif/ref/hpke.go (RFC 9180 base mode written from the RFC text; decryption of every suite, derandomised
// DHKEM encryption, explicit sequence numbers), verif/ref/ecies.go (Tink's documented ECIES-AEAD-HKDF
// construction; derandomised sender and recipient).
//
// Judged (exactly the property statement):
//   - Decrypt(Encrypt(pt, info), info) == pt for every suite / parameter set / variant (nil == empty plaintext);
//   - tink ciphertexts are decrypted by the references, reference ciphertexts (with the Tink prefix) by tink;
//   - nil and empty context info are the same context info;
//   - any change of encapsulated key, payload, prefix, context info, or another private key => error (a panic is
//     not an error).
//
// Don't-care cells (not judged): the wording of errors; nil-vs-empty of the returned plaintext; ECIES with
// X25519 / XChaCha20-Poly1305 DEM (parameters exist but no primitive: outside the statement's domain);
// behaviour of the HPKE context at/after the message limit (single-shot API never gets there); keysets
// with several keys outside section legacy-adapter / subtle-public-key (key selection is C05's); plaintexts > 1000 bytes.
//
// Sections legacy-adapter (legacy.go: the factories' adapters around RAW primitives of made-up key types, every
// output prefix type incl. LEGACY, multi-key keysets), subtle-public-key (subtlepub.go) and tink-generated-keys (genkeys.go:
// key pairs drawn by tink's own generation hooks) document their own domains.
package main

import (
	"bytes"
	"fmt"

	"github.com/tink-crypto/tink-go/v2/tink"
	"verif/h"
	"verif/ref"
	"verif/tk"
)

var variants = []ref.Variant{ref.Tink, ref.Crunchy, ref.Raw}

var ptLens = []int{0, 1, 15, 16, 17, 64, 1000}

func ctxInfos() [][]byte { return [][]byte{nil, {}, {0x42}, ref.Pattern(3, 64)} }

func ids(x *h.X) []uint32 {
	if x.Thorough() {
		return tk.IDs
	}
	return tk.IDs[:2]
}

// cell is one (variant, id, construction path, key pair) combination.
type cell struct {
	v    ref.Variant
	id   int // index into ids(x)
	path int
	kp   int
}

// allCells: variants x ids x paths; the second key pair only through path 0; RAW key objects carry no id, so for
// RAW the id varies only through the keyset path (1); rawOnly paths (>= 2) take no prefix at all.
func allCells(nids, npaths int) []cell {
	var out []cell
	for _, v := range variants {
		for id := 0; id < nids; id++ {
			for p := 0; p < npaths; p++ {
				if p >= 2 && (v != ref.Raw || id != 0) {
					continue
				}
				if v == ref.Raw && id != 0 && p != 1 {
					continue
				}
				out = append(out, cell{v, id, p, 0})
				if p == 0 {
					out = append(out, cell{v, id, p, 1})
				}
			}
		}
	}
	return out
}

// extraIDCells: the remaining ids (index >= 2), once per variant or (slow schemes) for TINK only.
func extraIDCells(nids int, allVariants bool) []cell {
	var out []cell
	for id := 2; id < nids; id++ {
		out = append(out, cell{ref.Tink, id, 0, 0})
		if allVariants {
			out = append(out, cell{ref.Crunchy, id, 1, 0}, cell{ref.Raw, id, 1, 0})
		}
	}
	return out
}

type namedOpen struct {
	name string
	f    func(raw, info []byte) ([]byte, error)
}

type namedSeal struct {
	name string
	f    func(pt, info []byte, label string) ([]byte, error)
}

// scheme is one fully configured hybrid encryption key pair under test together with its oracles.
type scheme struct {
	cfg      string
	enc      tink.HybridEncrypt
	dec      tink.HybridDecrypt
	decOther tink.HybridDecrypt // other private key, same parameters and prefix
	prefix   []byte
	encLen   int // length of the encapsulated key / kem bytes (after the prefix)
	overhead int // payload length - plaintext length
	refOpen  []namedOpen
	refSeal  []namedSeal
	encBits  func(full bool) []int    // bit positions of the encapsulated key to flip
	encSubst func(enc []byte) [][]byte // replacement encapsulated keys (invalid / other valid points, ...)
	fullEnc  bool                      // sweep every encapsulated-key bit in this leaf
	costly   bool                      // slow group operations: lengths {0,1,16,17,1000} and a lighter second catalogue pass ...
	heavy    bool                      // ... except in thorough on the primary cell, which also gets four catalogue passes
}

func otherPrefixes(own []byte, id uint32) [][]byte {
	var out [][]byte
	for _, ov := range []ref.Variant{ref.Tink, ref.Crunchy} {
		for _, oid := range []uint32{id, id ^ 1, id ^ 0x80000000, ^id} {
			p := ref.Prefix(ov, oid)
			if !bytes.Equal(p, own) {
				out = append(out, p)
			}
		}
	}
	return out
}

func sameInfo(a, b []byte) bool { return bytes.Equal(a, b) } // nil and empty are the same context info

// sparseBits: every step-th bit plus all bits of the first head and last tail bytes of an n-byte string.
func sparseBits(n, step, head, tail int) []int {
	seen := map[int]bool{}
	var out []int
	add := func(b int) {
		if b >= 0 && b < 8*n && !seen[b] {
			seen[b] = true
			out = append(out, b)
		}
	}
	for b := 0; b < 8*head; b++ {
		add(b)
	}
	for b := 8 * head; b < 8*(n-tail); b += step {
		add(b)
	}
	for b := 8 * (n - tail); b < 8*n; b++ {
		add(b)
	}
	return out
}

func allBits(n int) []int { return sparseBits(n, 1, 0, 0) }

func flip(b []byte, bit int) []byte {
	c := bytes.Clone(b)
	c[bit/8] ^= 1 << (bit % 8)
	return c
}

// exercise runs the whole oracle over one scheme: 7 plaintext lengths x 4 context infos, then the mutation catalogue.
func exercise(x *h.X, s *scheme, id uint32) {
	infos := ctxInfos()
	pl := len(s.prefix)
	bad := false
	nfail := 0
	fail := func(key, f string, a ...any) {
		bad = true
		if nfail++; nfail <= 12 { // a broken scheme fails thousands of mutations: report the first few
			x.Fail(key, f, a...)
		}
	}
	lens := ptLens
	thin := s.costly && !(x.Thorough() && s.heavy) // slow scheme: full density only in thorough on the primary cell
	if thin {
		lens = []int{0, 1, 16, 17, 1000}
	}
	for _, n := range lens {
		for ii, info := range infos {
			pt := ref.Pattern(2, n)
			lbl := fmt.Sprintf("%s|len=%d|info=%d", s.cfg, n, ii)
			reseed(lbl)
			ct, err := s.enc.Encrypt(pt, info)
			x.Eval(1)
			if err != nil {
				fail("encrypt-error", "%s: Encrypt: %v", lbl, err)
				return
			}
			if len(ct) < pl || !bytes.Equal(ct[:pl], s.prefix) {
				fail("wrong-prefix", "%s: ciphertext %s does not start with prefix %x", lbl, tk.Hex(ct), s.prefix)
				return
			}
			if len(ct) != pl+s.encLen+n+s.overhead {
				fail("wrong-length", "%s: ciphertext length %d, want %d", lbl, len(ct), pl+s.encLen+n+s.overhead)
				return
			}
			got, err := s.dec.Decrypt(ct, info)
			x.Eval(1)
			if err != nil || !bytes.Equal(got, pt) {
				fail("roundtrip", "%s: Decrypt(Encrypt(pt)) = %s, %v; want pt", lbl, tk.Hex(got), err)
				return
			}
			// nil and empty context info are the same context info
			if len(info) == 0 {
				alt := []byte{}
				if info != nil {
					alt = nil
				}
				got, err := s.dec.Decrypt(ct, alt)
				x.Eval(1)
				if err != nil || !bytes.Equal(got, pt) {
					fail("nil-empty-info", "%s: encrypted under %#v, Decrypt under %#v: %v", lbl, info, alt, err)
					return
				}
			}
			// tink -> reference
			for _, ro := range s.refOpen {
				got, err := ro.f(ct[pl:], info)
				x.Eval(1)
				if err != nil || !bytes.Equal(got, pt) {
					fail("interop-tink-to-ref", "%s: %s cannot decrypt tink's ciphertext %s: got %s err %v", lbl, ro.name, tk.Hex(ct), tk.Hex(got), err)
					return
				}
			}
			// reference -> tink
			for _, rs := range s.refSeal {
				reseed(lbl + "|" + rs.name)
				raw, err := rs.f(pt, info, lbl)
				if err != nil {
					fail("harness", "%s: reference %s failed: %v", lbl, rs.name, err)
					return
				}
				rct := append(bytes.Clone(s.prefix), raw...)
				got, err := s.dec.Decrypt(rct, info)
				x.Eval(1)
				if err != nil || !bytes.Equal(got, pt) {
					fail("interop-ref-to-tink", "%s: tink cannot decrypt the ciphertext of %s %s: got %s err %v", lbl, rs.name, tk.Hex(rct), tk.Hex(got), err)
					return
				}
				if len(rct) != len(ct) {
					fail("wrong-length", "%s: reference ciphertext has %d bytes, tink's %d", lbl, len(rct), len(ct))
					return
				}
			}
			// cheap negatives at every (length, info)
			neg := func(key string, c, inf []byte, d tink.HybridDecrypt, what string) {
				x.Eval(1)
				if p, err := d.Decrypt(c, inf); err == nil {
					fail(key, "%s: Decrypt accepted %s (returned %s)", lbl, what, tk.Hex(p))
				}
			}
			neg("accept-payload-flip", flip(ct, 8*len(ct)-1), info, s.dec, "ciphertext with last bit flipped")
			neg("accept-enc-flip", flip(ct, 8*pl), info, s.dec, "ciphertext with first bit of the encapsulated key flipped")
			neg("accept-trunc", ct[:len(ct)-1], info, s.dec, "ciphertext truncated by one byte")
			neg("accept-other-info", ct, append(bytes.Clone(info), 0), s.dec, "context info || 00")
			if n == 16 || x.Thorough() {
				if len(info) > 0 {
					neg("accept-other-info", ct, info[:len(info)-1], s.dec, "context info shortened by one byte")
					neg("accept-other-info", ct, nil, s.dec, "nil context info for non-empty one")
				}
				neg("accept-other-key", ct, info, s.decOther, "ciphertext under another private key")
			}
		}
	}
	if bad {
		return
	}
	// full mutation catalogue on selected (length, info)
	type sel struct{ n, ii int }
	sels := []sel{{17, 2}, {0, 0}}
	if x.Thorough() && s.heavy {
		sels = []sel{{17, 2}, {0, 0}, {16, 3}, {1, 1}}
	}
	for si, sl := range sels {
		info := infos[sl.ii]
		pt := ref.Pattern(2, sl.n)
		lbl := fmt.Sprintf("%s|mut|len=%d|info=%d", s.cfg, sl.n, sl.ii)
		reseed(lbl)
		ct, err := s.enc.Encrypt(pt, info)
		if err != nil {
			fail("encrypt-error", "%s: %v", lbl, err)
			return
		}
		if g, err := s.dec.Decrypt(ct, info); err != nil || !bytes.Equal(g, pt) {
			fail("roundtrip", "%s: %v", lbl, err)
			return
		}
		nrej := 0
		rej := func(key string, c, inf []byte, what string) {
			if bytes.Equal(c, ct) && sameInfo(inf, info) {
				return
			}
			nrej++
			if p, err := s.dec.Decrypt(c, inf); err == nil {
				fail(key, "%s: Decrypt accepted %s (ciphertext %s, returned %s)", lbl, what, tk.Hex(c), tk.Hex(p))
			}
		}
		// prefix: every bit, foreign prefixes, dropped, duplicated
		for b := 0; b < 8*pl; b++ {
			rej("accept-prefix-edit", flip(ct, b), info, fmt.Sprintf("prefix bit %d flipped", b))
		}
		for _, op := range otherPrefixes(s.prefix, id) {
			rej("accept-prefix-edit", append(bytes.Clone(op), ct[pl:]...), info, fmt.Sprintf("foreign prefix %x", op))
		}
		if pl > 0 {
			rej("accept-prefix-edit", ct[pl:], info, "prefix removed")
			rej("accept-prefix-edit", append(bytes.Clone(s.prefix), ct...), info, "prefix duplicated")
		}
		light := thin && si > 0 // second pass of a thinned slow scheme: no enc sweep, cuts only around the ends
		// encapsulated key: bits
		for _, b := range s.encBits(s.fullEnc && si == 0) {
			if light {
				break
			}
			rej("accept-enc-flip", flip(ct, 8*pl+b), info, fmt.Sprintf("encapsulated-key bit %d flipped", b))
		}
		// encapsulated key: replacements
		if s.encSubst != nil {
			for i, e := range s.encSubst(ct[pl : pl+s.encLen]) {
				c := append(bytes.Clone(s.prefix), e...)
				c = append(c, ct[pl+s.encLen:]...)
				rej("accept-enc-subst", c, info, fmt.Sprintf("encapsulated key replaced (#%d: %s)", i, tk.Hex(e)))
			}
		}
		// payload: every bit
		for b := 8 * (pl + s.encLen); b < 8*len(ct); b++ {
			rej("accept-payload-flip", flip(ct, b), info, fmt.Sprintf("payload bit %d flipped", b-8*(pl+s.encLen)))
		}
		// every cut point; for big encapsulations cuts inside the encapsulation are thinned in quick
		for cut := 0; cut < len(ct); cut++ {
			if light && cut > pl && cut < len(ct)-17 {
				continue
			}
			if !x.Thorough() && s.encLen > 200 && cut > pl+8 && cut < pl+s.encLen-8 && cut%16 != 0 {
				continue
			}
			rej("accept-trunc", ct[:cut], info, fmt.Sprintf("ciphertext cut to %d of %d bytes", cut, len(ct)))
		}
		rej("accept-trunc", nil, info, "nil ciphertext")
		// extensions
		for _, ext := range [][]byte{{0}, {0xff}, make([]byte, 16), ct[len(ct)-16:]} {
			rej("accept-ext", append(bytes.Clone(ct), ext...), info, fmt.Sprintf("ciphertext extended by %x", ext))
		}
		// payload / encapsulation of another ciphertext of the same plaintext
		reseed(lbl + "|second")
		ct2, err := s.enc.Encrypt(pt, info)
		if err == nil && !bytes.Equal(ct2, ct) {
			splice := append(bytes.Clone(ct[:pl+s.encLen]), ct2[pl+s.encLen:]...)
			rej("accept-splice", splice, info, "encapsulated key of one ciphertext with the payload of another")
		} else {
			fail("not-randomised", "%s: two encryptions under different entropy are identical or failed (%v)", lbl, err)
		}
		// context info
		rej("accept-other-info", ct, append(bytes.Clone(info), 0), "context info || 00")
		rej("accept-other-info", ct, append([]byte{0}, info...), "00 || context info")
		for b := 0; b < 8*len(info); b++ {
			rej("accept-other-info", ct, flip(info, b), fmt.Sprintf("context info bit %d flipped", b))
		}
		for cut := 0; cut < len(info); cut++ {
			rej("accept-other-info", ct, info[:cut], fmt.Sprintf("context info cut to %d bytes", cut))
		}
		for _, oi := range infos {
			if !sameInfo(oi, info) {
				rej("accept-other-info", ct, oi, fmt.Sprintf("context info %x", oi))
			}
		}
		// other private key
		nrej++
		if p, err := s.decOther.Decrypt(ct, info); err == nil {
			fail("accept-other-key", "%s: another private key decrypts the ciphertext (returned %s)", lbl, tk.Hex(p))
		}
		x.Eval(nrej)
		x.Count("mutations", nrej)
	}
	// The caller keeps ONE context-info buffer and rewrites it in place between calls on the same primitive objects:
	// every call must bind the contents the buffer has AT THAT CALL (an info hash cached under the caller's slice
	// instead of a copy binds, or accepts, the previous call's context info).
	if bad {
		return
	}
	infoA, infoB := ref.Pattern(3, 24), ref.KeyBytes("c06-info-b", 24)
	pt := ref.Pattern(2, 19)
	buf := bytes.Clone(infoA)
	reseed(s.cfg + "|reuse-a")
	ctA, errA := s.enc.Encrypt(pt, buf)
	copy(buf, infoB)
	reseed(s.cfg + "|reuse-b")
	ctB, errB := s.enc.Encrypt(pt, buf)
	x.Eval(6)
	if errA != nil || errB != nil {
		fail("encrypt-error", "%s: Encrypt with a reused context-info buffer: %v %v", s.cfg, errA, errB)
		return
	}
	for _, ro := range s.refOpen {
		if got, err := ro.f(ctB[pl:], bytes.Clone(infoB)); err != nil || !bytes.Equal(got, pt) {
			fail("info-buffer-reuse", "%s: context-info buffer rewritten in place between two Encrypt calls: %s cannot open the second ciphertext under the second context info: %v", s.cfg, ro.name, err)
		}
	}
	if got, err := s.dec.Decrypt(ctB, bytes.Clone(infoB)); err != nil || !bytes.Equal(got, pt) {
		fail("info-buffer-reuse", "%s: context-info buffer rewritten in place between two Encrypt calls: the second ciphertext does not decrypt under the second context info: %v", s.cfg, err)
	}
	if _, err := s.dec.Decrypt(ctB, bytes.Clone(infoA)); err == nil {
		fail("info-buffer-reuse", "%s: context-info buffer rewritten in place between two Encrypt calls: the second ciphertext is bound to the FIRST context info", s.cfg)
	}
	buf2 := bytes.Clone(infoA)
	if got, err := s.dec.Decrypt(ctA, buf2); err != nil || !bytes.Equal(got, pt) {
		fail("roundtrip", "%s: Decrypt of the first ciphertext under the first context info: %v", s.cfg, err)
	}
	copy(buf2, infoB)
	if _, err := s.dec.Decrypt(ctA, buf2); err == nil {
		fail("info-buffer-reuse", "%s: context-info buffer rewritten in place between two Decrypt calls: the first ciphertext is still accepted under the second context info", s.cfg)
	}
	if got, err := s.dec.Decrypt(ctB, buf2); err != nil || !bytes.Equal(got, pt) {
		fail("info-buffer-reuse", "%s: context-info buffer rewritten in place between two Decrypt calls: the second ciphertext is rejected under its own context info: %v", s.cfg, err)
	}
	// the receive buffer: a ciphertext accepted a moment ago, then rewritten IN PLACE (same slice) into a forgery
	ctBuf := bytes.Clone(ctB)
	for _, pos := range []int{0, pl, pl + s.encLen/2, pl + s.encLen, len(ctBuf) - 1} {
		if pos < 0 || pos >= len(ctBuf) {
			continue
		}
		if got, err := s.dec.Decrypt(ctBuf, buf2); err != nil || !bytes.Equal(got, pt) {
			fail("inplace-forgery", "%s: the genuine ciphertext is not accepted from a reused receive buffer: %v", s.cfg, err)
			return
		}
		ctBuf[pos] ^= 0x01
		if _, err := s.dec.Decrypt(ctBuf, buf2); err == nil {
			fail("inplace-forgery", "%s: the receive buffer of the ciphertext accepted just before, byte %d flipped in place, is still accepted", s.cfg, pos)
			return
		}
		ctBuf[pos] ^= 0x01
	}
	// HISTORY with a decryption that fails EARLY (in decapsulation: the encapsulated key is not a valid point / is a
	// low-order point) under a context info the object has not seen before: afterwards that context info binds like
	// any other - a ciphertext made under another info is refused under it, its own ciphertexts are accepted.
	infoC := ref.KeyBytes("c06-info-c", 24)
	if got, err := s.dec.Decrypt(ctA, bytes.Clone(infoA)); err != nil || !bytes.Equal(got, pt) {
		fail("roundtrip", "%s: Decrypt of the first ciphertext under the first context info: %v", s.cfg, err)
		return
	}
	for _, fill := range []byte{0xFF, 0x00} {
		badEnc := bytes.Clone(ctA)
		for i := pl; i < pl+s.encLen && i < len(badEnc); i++ {
			badEnc[i] = fill
		}
		if fill == 0xFF && pl < len(badEnc) {
			badEnc[pl] = 0x04
		}
		if _, err := s.dec.Decrypt(badEnc, bytes.Clone(infoC)); err == nil {
			fail("accept-forgery", "%s: a ciphertext whose encapsulated key is all %#x is accepted", s.cfg, fill)
			return
		}
		if _, err := s.dec.Decrypt(ctA, bytes.Clone(infoC)); err == nil {
			fail("accept-other-info", "%s: after a decryption that failed in decapsulation under context info C, the ciphertext made under context info A is accepted under C", s.cfg)
			return
		}
		reseed(s.cfg + "|history-c")
		ctC, err := s.enc.Encrypt(pt, bytes.Clone(infoC))
		if err != nil {
			fail("encrypt-error", "%s: %v", s.cfg, err)
			return
		}
		if got, err := s.dec.Decrypt(ctC, bytes.Clone(infoC)); err != nil || !bytes.Equal(got, pt) {
			fail("roundtrip", "%s: after a decryption that failed in decapsulation under context info C, a genuine ciphertext made under C is rejected: %v", s.cfg, err)
			return
		}
		infoC = append(infoC, fill) // a fresh, never seen info for the second round
	}
	x.Eval(8)
}

func main() {
	h.Main("C06", "exploration",
		"product of (HPKE KEM x KDF x AEAD | ECIES curve x hash x point format x DEM x salt) x variant x id x construction path; per case 7 plaintext lengths x 4 context infos: round trip, nil==empty info, tink->reference and reference->tink decryption (stdlib crypto/hpke, RFC 9180 reference, ECIES reference), ciphertext length; mutation catalogue (every bit of prefix / encapsulated key / payload, every cut point, extensions, foreign prefixes, splices, replaced encapsulations incl. invalid points, context-info edits, other private key) must be rejected. Section legacy-adapter: made-up key types whose key managers return RAW primitives (RFC 9180 reference / tink raw HPKE) behind hybrid.NewHybridEncrypt/Decrypt's adapters: prefix type (TINK, CRUNCHY, LEGACY, RAW) x id x keyset layout (single key; key under test first / middle / last among legacy RAW, legacy prefixed, tink TINK and tink RAW keys; primary = it or another) x plaintext length 0..70 x 4 context infos: ciphertext = prefix || raw that the reference opens, round trip, reference->factory, prefix/body/context mutation catalogue, keyset without the key. Section subtle-public-key: SerializePrimaryPublicKey -> KeysetHandleFromSerializedPublicKey round trip against the original private handle, the primary's key object and both references. Section tink-generated-keys: keys DRAWN BY TINK (keygenregistry createPrivateKey hooks of hybrid/hpke and hybrid/ecies; legacy key managers' NewKeyData / NewKey) for HPKE KEM x KDF/AEAD x variant, ECIES curve x point format x hash/DEM x variant and every template of hybrid_key_templates.go through Manager.AddNewKeyFromParameters / keyset.NewHandle / Manager.Add / registry.NewKeyData / registry.NewKey x 2 entropy seeds, plus a seed search for generated NIST scalars with a leading zero byte: public key in the private key object and in Public() == independent derivation from the generated private key bytes, generated parameters == requested, tink<->reference ciphertexts with the generated private key bytes and the requested suite, context-info binding. Seams: PointEncode/PointDecode on k*G (k=1..4096) per curve and format vs reference; ephemeral keys with short coordinates / short shared secrets in both directions; HPKE context seal/open at extreme sequence numbers vs the RFC reference. A case is non-trivial when primitives were built and exercised; distinct = distinct choice vectors.",
		[]h.Section{
			{Name: "hpke", Body: hpkeSection, Bound: -1},
			{Name: "hpke-seq", Body: hpkeSeqSection, Bound: -1},
			{Name: "hpke-x25519-low-order", Body: hpkeLowOrderSection, Bound: -1},
			{Name: "hpke-serialized-public-key", Body: hpkeSerializedPubSection, Bound: -1},
			{Name: "subtle-public-key", Body: subtlePublicKeySection, Bound: -1},
			{Name: "legacy-adapter", Body: legacySection, Bound: -1},
			{Name: "tink-generated-keys", Body: genKeysSection, Bound: -1},
			{Name: "ecies", Body: eciesSection, Bound: -1},
			{Name: "ecies-short-coordinates", Body: eciesShortSection, Bound: -1},
			{Name: "ecies-points", Body: eciesPointSection, Bound: -1},
			{Name: "ecies-points-vacuity", Body: eciesPointVacuity, Bound: -1},
		})
}
