package main

import (
	"bytes"
	"crypto/ecdh"
	stdhpke "crypto/hpke"
	"fmt"
	"math/big"

	"github.com/tink-crypto/tink-go/v2/hybrid"
	"github.com/tink-crypto/tink-go/v2/hybrid/hpke"
	hsubtle "github.com/tink-crypto/tink-go/v2/hybrid/subtle"
	"github.com/tink-crypto/tink-go/v2/hybrid/verifc06"
	"github.com/tink-crypto/tink-go/v2/insecuresecretdataaccess"
	"github.com/tink-crypto/tink-go/v2/secretdata"
	"github.com/tink-crypto/tink-go/v2/tink"
	"github.com/tink-crypto/tink-go/v2/verifbridge/vb"
	"verif/h"
	"verif/ref"
	"verif/tk"
)

type kemDef struct {
	name  string
	tink  hpke.KEMID
	id    uint16
	skLen int
	nist  int // coordinate size for NIST DHKEMs, else 0
	std   func() stdhpke.KEM
}

func (k kemDef) String() string { return k.name }

var kems = []kemDef{
	{"X25519", hpke.DHKEM_X25519_HKDF_SHA256, ref.HPKEKemX25519, 32, 0, func() stdhpke.KEM { return stdhpke.DHKEM(ecdh.X25519()) }},
	{"P256", hpke.DHKEM_P256_HKDF_SHA256, ref.HPKEKemP256, 32, 32, func() stdhpke.KEM { return stdhpke.DHKEM(ecdh.P256()) }},
	{"P384", hpke.DHKEM_P384_HKDF_SHA384, ref.HPKEKemP384, 48, 48, func() stdhpke.KEM { return stdhpke.DHKEM(ecdh.P384()) }},
	{"P521", hpke.DHKEM_P521_HKDF_SHA512, ref.HPKEKemP521, 66, 66, func() stdhpke.KEM { return stdhpke.DHKEM(ecdh.P521()) }},
	{"ML-KEM-768", hpke.ML_KEM768, ref.HPKEKemMLKEM768, 64, 0, stdhpke.MLKEM768},
	{"ML-KEM-1024", hpke.ML_KEM1024, ref.HPKEKemMLKEM1K, 64, 0, stdhpke.MLKEM1024},
	{"X-Wing", hpke.X_WING, ref.HPKEKemXWing, 32, 0, stdhpke.MLKEM768X25519},
}

type kdfDef struct {
	name string
	tink hpke.KDFID
	id   uint16
	std  func() stdhpke.KDF
}

func (k kdfDef) String() string { return k.name }

var kdfs = []kdfDef{
	{"HKDF-SHA256", hpke.HKDFSHA256, ref.HPKEKdfSHA256, stdhpke.HKDFSHA256},
	{"HKDF-SHA384", hpke.HKDFSHA384, ref.HPKEKdfSHA384, stdhpke.HKDFSHA384},
	{"HKDF-SHA512", hpke.HKDFSHA512, ref.HPKEKdfSHA512, stdhpke.HKDFSHA512},
}

type aeadDef struct {
	name string
	tink hpke.AEADID
	id   uint16
	std  func() stdhpke.AEAD
}

func (a aeadDef) String() string { return a.name }

var aeads = []aeadDef{
	{"AES-128-GCM", hpke.AES128GCM, ref.HPKEAeadAES128GCM, stdhpke.AES128GCM},
	{"AES-256-GCM", hpke.AES256GCM, ref.HPKEAeadAES256GCM, stdhpke.AES256GCM},
	{"ChaCha20-Poly1305", hpke.ChaCha20Poly1305, ref.HPKEAeadChaCha, stdhpke.ChaCha20Poly1305},
}

var hpkeVar = map[ref.Variant]hpke.Variant{ref.Tink: hpke.VariantTink, ref.Crunchy: hpke.VariantCrunchy, ref.Raw: hpke.VariantNoPrefix}

// hpkeSK returns deterministic private-key bytes. which=1 has leading zero bytes for the NIST KEMs.
func hpkeSK(k kemDef, label string, which int) []byte {
	b := ref.KeyBytes(fmt.Sprintf("c06-hpke-%s-%s-%d", k.name, label, which), k.skLen)
	if k.name == "P521" {
		b[0] &= 1
	}
	if k.nist > 0 && which == 1 {
		b[0], b[1], b[2] = 0, 0, 0
	}
	return b
}

var nistP = map[int]*big.Int{}

func init() {
	for _, c := range []struct {
		n int
		p string
	}{
		{32, "ffffffff00000001000000000000000000000000ffffffffffffffffffffffff"},
		{48, "fffffffffffffffffffffffffffffffffffffffffffffffffffffffffffffffeffffffff0000000000000000ffffffff"},
		{66, "01ffffffffffffffffffffffffffffffffffffffffffffffffffffffffffffffffffffffffffffffffffffffffffffffffffffffffffffffffffffffffffffffffff"},
	} {
		v, _ := new(big.Int).SetString(c.p, 16)
		nistP[c.n] = v
	}
}

// sec1Substitutions: replacement SEC1 uncompressed encodings for a valid one (all must lead to an error).
func sec1Substitutions(n int, unc []byte, others ...[]byte) [][]byte {
	p := nistP[n]
	x := new(big.Int).SetBytes(unc[1 : 1+n])
	y := new(big.Int).SetBytes(unc[1+n:])
	mk := func(tag byte, x, y *big.Int) []byte {
		if x.BitLen() > 8*n || y.BitLen() > 8*n {
			return nil
		}
		out := make([]byte, 1+2*n)
		out[0] = tag
		x.FillBytes(out[1 : 1+n])
		y.FillBytes(out[1+n:])
		return out
	}
	zero := new(big.Int)
	one := big.NewInt(1)
	cands := [][]byte{
		mk(4, zero, zero),                        // "point at infinity" as coordinates
		make([]byte, 1+2*n),                      // all-zero string (SEC1 infinity 00 padded)
		mk(4, x, new(big.Int).Add(y, one)),       // off curve
		mk(4, new(big.Int).Add(x, one), y),       // off curve
		mk(4, x, new(big.Int).Sub(p, y)),         // -P: valid, same ECDH x-coordinate
		mk(4, p, y),                              // x = p
		mk(4, x, p),                              // y = p
		mk(4, new(big.Int).Add(x, p), y),         // non-canonical x + p (fits only for P-521)
		mk(4, x, new(big.Int).Add(y, p)),         // non-canonical y + p
		mk(2, x, y), mk(3, x, y), mk(0, x, y), mk(5, x, y), mk(0xff, x, y), // wrong tag bytes
		mk(4, y, x), // swapped coordinates
	}
	for _, o := range others {
		cands = append(cands, o)
	}
	var out [][]byte
	for _, c := range cands {
		if c != nil && !bytes.Equal(c, unc) {
			out = append(out, c)
		}
	}
	return out
}

// X25519 u-coordinates of small order (RFC 7748 section 6.1 / RFC 9180 section 7.1.4: DH output is all-zero).
var x25519LowOrder = [][]byte{
	mustHex("0000000000000000000000000000000000000000000000000000000000000000"),
	mustHex("0100000000000000000000000000000000000000000000000000000000000000"),
	mustHex("e0eb7a7c3b41b8ae1656e3faf19fc46ada098deb9c32b1fd866205165f49b800"),
	mustHex("5f9c95bca3508c24b1d0b1559c83ef5b04445cc4581c8e86d8224eddd09f1157"),
	mustHex("ecffffffffffffffffffffffffffffffffffffffffffffffffffffffffffff7f"),
	mustHex("edffffffffffffffffffffffffffffffffffffffffffffffffffffffffffff7f"),
	mustHex("eeffffffffffffffffffffffffffffffffffffffffffffffffffffffffffff7f"),
}

func mustHex(s string) []byte {
	var b []byte
	if _, err := fmt.Sscanf(s, "%x", &b); err != nil {
		panic(err)
	}
	return b
}

type hpkeKeys struct {
	sk, pk   []byte
	priv     *hpke.PrivateKey
	pub      *hpke.PublicKey
	stdPriv  stdhpke.PrivateKey
	stdPub   stdhpke.PublicKey
}

func hpkeMakeKeys(x *h.X, k kemDef, params *hpke.Parameters, kid uint32, which int, cfg string) *hpkeKeys {
	sk := hpkeSK(k, "recipient", which)
	priv, err := hpke.NewPrivateKey(secretdata.NewBytesFromData(bytes.Clone(sk), insecuresecretdataaccess.Token{}), kid, params)
	if err != nil {
		x.Fail("construct", "%s: hpke.NewPrivateKey: %v", cfg, err)
		return nil
	}
	pk0, _ := priv.PublicKey()
	pub := pk0.(*hpke.PublicKey)
	pk, err := ref.HPKEPublicFromPrivate(k.id, sk)
	if err != nil {
		x.Fail("harness", "%s: reference public key: %v", cfg, err)
		return nil
	}
	if !bytes.Equal(pk, pub.PublicKeyBytes()) {
		x.Fail("pubkey-mismatch", "%s: tink derives public key %s, reference %s", cfg, tk.Hex(pub.PublicKeyBytes()), tk.Hex(pk))
		return nil
	}
	sp, err := k.std().NewPrivateKey(sk)
	if err != nil {
		x.Fail("harness", "%s: crypto/hpke NewPrivateKey: %v", cfg, err)
		return nil
	}
	spk, err := k.std().NewPublicKey(pk)
	if err != nil {
		x.Fail("harness", "%s: crypto/hpke NewPublicKey: %v", cfg, err)
		return nil
	}
	return &hpkeKeys{sk: sk, pk: pk, priv: priv, pub: pub, stdPriv: sp, stdPub: spk}
}

var hpkePaths = []string{"hpke.NewHybridEncrypt/Decrypt", "hybrid.New*(proto handle)", "internal/hpke.NewEncrypt/Decrypt"}

// quick-tier covering of variant x id x path x key pair
var hpkeQuickCells = []cell{{ref.Tink, 0, 0, 0}, {ref.Tink, 1, 1, 0}, {ref.Crunchy, 1, 0, 1}, {ref.Crunchy, 0, 1, 0}, {ref.Raw, 0, 0, 0}, {ref.Raw, 0, 2, 0}, {ref.Raw, 1, 1, 0}}
var hpkeQuickCellsCostly = []cell{{ref.Tink, 0, 0, 0}, {ref.Crunchy, 1, 1, 0}, {ref.Raw, 0, 0, 1}, {ref.Raw, 0, 2, 0}}

func hpkeSection(x *h.X) {
	kem := h.Pick(x, "kem", kems)
	costly := kem.name != "X25519" && kem.name != "P256" // quick: full KDF x AEAD x cell product only for the two cheap KEMs
	var kdf kdfDef
	var aead aeadDef
	var cells []cell
	if x.Thorough() || !costly {
		kdf = h.Pick(x, "kdf", kdfs)
		aead = h.Pick(x, "aead", aeads)
		cells = hpkeQuickCells
	} else {
		// quick, costly KEMs: a Latin square of (KDF, AEAD) with kdf id != aead id in every pair
		i := x.Choose("kdf/aead", 3)
		kdf, aead = kdfs[i], aeads[(i+1)%3]
		x.Label(kdf.name + "/" + aead.name)
		cells = hpkeQuickCellsCostly
	}
	idl := ids(x)
	if x.Thorough() {
		if costly {
			cells = append(allCells(2, 3), extraIDCells(len(idl), false)...)
		} else {
			cells = allCells(len(idl), 3)
		}
	}
	cl := cells[x.Choose("variant/id/path/keypair", len(cells))]
	v, id, path, which := cl.v, idl[cl.id], hpkePaths[cl.path], cl.kp
	x.Label(fmt.Sprintf("%v id=%#x %s keypair=%d", v, id, path, which))
	cfg := fmt.Sprintf("HPKE %s/%s/%s %v id=%#x via %s", kem, kdf, aead, v, id, path)
	params, err := hpke.NewParameters(hpke.ParametersOpts{KEMID: kem.tink, KDFID: kdf.tink, AEADID: aead.tink, Variant: hpkeVar[v]})
	if err != nil {
		x.Fail("construct", "%s: NewParameters: %v", cfg, err)
		return
	}
	kid := id
	if v == ref.Raw {
		kid = 0
	}
	ka := hpkeMakeKeys(x, kem, params, kid, which, cfg)
	kb := hpkeMakeKeys(x, kem, params, kid, 1-which, cfg)
	if ka == nil || kb == nil {
		return
	}
	cfg += fmt.Sprintf(" keypair=%d", which)
	prefix := ref.Prefix(v, id)
	if !bytes.Equal(ka.pub.OutputPrefix(), prefix) || !bytes.Equal(ka.priv.OutputPrefix(), prefix) {
		x.Fail("wrong-prefix", "%s: OutputPrefix %x / %x, want %x", cfg, ka.pub.OutputPrefix(), ka.priv.OutputPrefix(), prefix)
		return
	}
	var enc tink.HybridEncrypt
	var dec, decOther tink.HybridDecrypt
	switch path {
	case "hpke.NewHybridEncrypt/Decrypt":
		enc, err = hpke.NewHybridEncrypt(ka.pub, vb.Tok())
		if err == nil {
			dec, err = hpke.NewHybridDecrypt(ka.priv, vb.Tok())
		}
		if err == nil {
			decOther, err = hpke.NewHybridDecrypt(kb.priv, vb.Tok())
		}
	case "hybrid.New*(proto handle)":
		hdA, e1 := tk.Handle([]tk.Entry{{Key: ka.priv, ID: id, Primary: true}})
		if e1 != nil {
			x.Fail("construct", "%s: keyset handle: %v", cfg, e1)
			return
		}
		hdB, e2 := tk.Handle([]tk.Entry{{Key: kb.priv, ID: id, Primary: true}})
		if e2 != nil {
			x.Fail("construct", "%s: keyset handle: %v", cfg, e2)
			return
		}
		pubA, e3 := hdA.Public()
		if e3 != nil {
			x.Fail("construct", "%s: handle.Public: %v", cfg, e3)
			return
		}
		enc, err = hybrid.NewHybridEncrypt(pubA)
		if err == nil {
			dec, err = hybrid.NewHybridDecrypt(hdA)
		}
		if err == nil {
			decOther, err = hybrid.NewHybridDecrypt(hdB)
		}
	default:
		enc, err = verifc06.NewEncrypt(ka.pk, kem.id, kdf.id, aead.id)
		if err == nil {
			dec, err = verifc06.NewDecrypt(ka.sk, kem.id, kdf.id, aead.id)
		}
		if err == nil {
			decOther, err = verifc06.NewDecrypt(kb.sk, kem.id, kdf.id, aead.id)
		}
	}
	if err != nil {
		x.Fail("construct", "%s: %v", cfg, err)
		return
	}
	suite := ref.HPKESuite{KEM: kem.id, KDF: kdf.id, AEAD: aead.id}
	nenc := ref.HPKENenc(kem.id)
	s := &scheme{cfg: cfg, enc: enc, dec: dec, decOther: decOther, prefix: prefix, encLen: nenc, overhead: 16, costly: costly, heavy: cl.id == 0 && cl.path == 0 && cl.kp == 0}
	s.refOpen = []namedOpen{
		{"crypto/hpke.Open", func(raw, info []byte) ([]byte, error) {
			return stdhpke.Open(ka.stdPriv, kdf.std(), aead.std(), info, raw)
		}},
		{"ref.HPKEOpen (RFC 9180 reference)", func(raw, info []byte) ([]byte, error) { return ref.HPKEOpen(suite, ka.sk, raw, info) }},
	}
	s.refSeal = []namedSeal{
		{"crypto/hpke.Seal", func(pt, info []byte, _ string) ([]byte, error) {
			return stdhpke.Seal(ka.stdPub, kdf.std(), aead.std(), info, pt)
		}},
	}
	if kem.nist > 0 || kem.name == "X25519" {
		s.refSeal = append(s.refSeal, namedSeal{"ref.HPKESealDH (RFC 9180 reference)", func(pt, info []byte, label string) ([]byte, error) {
			return ref.HPKESealDH(suite, ka.pk, hpkeSK(kem, "eph|"+label, 0), info, pt)
		}})
	}
	// which encapsulated-key bits are flipped: everything for the small KEMs; for ML-KEM / X-Wing every bit only in
	// thorough on the first id through the key-object path, else every 16th (quick) / 8th bit plus all bits of the
	// first and last 4 bytes (X-Wing: the whole trailing X25519 share).
	s.fullEnc = x.Thorough() && cl.id == 0 && cl.path == 0 && cl.kp == 0
	s.encBits = func(full bool) []int {
		if nenc <= 200 || full {
			return allBits(nenc)
		}
		step, tail := 16, 4
		if x.Thorough() {
			step = 8
		}
		if kem.name == "X-Wing" {
			tail = 32
		}
		return sparseBits(nenc, step, 4, tail)
	}
	switch {
	case kem.nist > 0:
		s.encSubst = func(e []byte) [][]byte { return sec1Substitutions(kem.nist, e, ka.pk, kb.pk) }
	case kem.name == "X25519":
		s.encSubst = func(e []byte) [][]byte {
			out := append([][]byte{}, x25519LowOrder...)
			return append(out, ka.pk, kb.pk)
		}
	case kem.name == "X-Wing":
		s.encSubst = func(e []byte) [][]byte {
			var out [][]byte
			for _, lo := range x25519LowOrder {
				out = append(out, append(bytes.Clone(e[:1088]), lo...))
			}
			return out
		}
	}
	x.NonTrivial()
	x.Outcome(fmt.Sprintf("hpke/%s/%s/%s/%v", kem, kdf, aead, v))
	exercise(x, s, id)
}

// hpkeSeqSection: the context's nonce schedule at extreme sequence numbers, through the export shim.
func hpkeSeqSection(x *h.X) {
	kem := h.Pick(x, "kem", kems)
	kdf := h.Pick(x, "kdf", kdfs)
	aead := h.Pick(x, "aead", aeads)
	max := new(big.Int).Sub(new(big.Int).Lsh(big.NewInt(1), 96), big.NewInt(1)) // 2^(8*Nn) - 1
	seqs := []*big.Int{
		big.NewInt(0), big.NewInt(1), big.NewInt(255), big.NewInt(256), big.NewInt(65535), big.NewInt(65536),
		new(big.Int).SetUint64(1<<32 - 1), new(big.Int).SetUint64(1 << 32), new(big.Int).SetUint64(1<<64 - 1),
		new(big.Int).Lsh(big.NewInt(1), 64), new(big.Int).Lsh(big.NewInt(0x80), 88), new(big.Int).Sub(max, big.NewInt(2)),
	}
	si := x.Choose("seq", len(seqs))
	seq := seqs[si]
	x.Label(seq.Text(16))
	cfg := fmt.Sprintf("HPKE context %s/%s/%s seq=0x%s", kem, kdf, aead, seq.Text(16))
	reseed(cfg)
	sk := hpkeSK(kem, "recipient", 0)
	pk, err := ref.HPKEPublicFromPrivate(kem.id, sk)
	if err != nil {
		x.Fail("harness", "%s: %v", cfg, err)
		return
	}
	suite := ref.HPKESuite{KEM: kem.id, KDF: kdf.id, AEAD: aead.id}
	for _, info := range ctxInfos() {
		snd, enc, err := verifc06.NewSenderContext(pk, kem.id, kdf.id, aead.id, info)
		if err != nil {
			x.Fail("construct", "%s: sender context: %v", cfg, err)
			return
		}
		rcp, err := verifc06.NewRecipientContext(enc, sk, kem.id, kdf.id, aead.id, info)
		if err != nil {
			x.Fail("construct", "%s: recipient context: %v", cfg, err)
			return
		}
		ss, err := ref.HPKEDecap(kem.id, enc, sk)
		if err != nil {
			x.Fail("interop-tink-to-ref", "%s: reference Decap of tink's encapsulated key fails: %v", cfg, err)
			return
		}
		key, base := ref.HPKEKeySchedule(suite, ss, info)
		snd.SetSeq(seq.Bytes())
		rcp.SetSeq(seq.Bytes())
		cur := new(big.Int).Set(seq)
		for step := 0; step < 2; step++ { // two consecutive messages: also checks the increment
			pt := ref.Pattern(2, 17+step)
			aad := ref.Pattern(3, step*5)
			ct, err := snd.Seal(pt, aad)
			x.Eval(1)
			if err != nil {
				x.Fail("seq-seal", "%s step %d: seal: %v", cfg, step, err)
				return
			}
			want := ref.HPKEAeadSeal(aead.id, key, ref.HPKENonce(base, cur.Bytes()), pt, aad)
			if !bytes.Equal(ct, want) {
				x.Fail("seq-nonce", "%s step %d info=%x: context.seal = %x, RFC 9180 reference (nonce = base_nonce xor seq) = %x", cfg, step, info, ct, want)
				return
			}
			got, err := rcp.Open(ct, aad)
			x.Eval(1)
			if err != nil || !bytes.Equal(got, pt) {
				x.Fail("seq-open", "%s step %d: context.open of the sealed message: %x, %v", cfg, step, got, err)
				return
			}
			cur.Add(cur, big.NewInt(1))
			if !bytes.Equal(snd.Seq(), cur.Bytes()) || !bytes.Equal(rcp.Seq(), cur.Bytes()) {
				x.Fail("seq-increment", "%s step %d: sequence numbers after the message: sender %x recipient %x, want %x", cfg, step, snd.Seq(), rcp.Seq(), cur.Bytes())
				return
			}
			// a message sealed for another sequence number must not open
			rcp2, _ := verifc06.NewRecipientContext(enc, sk, kem.id, kdf.id, aead.id, info)
			rcp2.SetSeq(cur.Bytes())
			if _, err := rcp2.Open(ct, aad); err == nil {
				x.Fail("seq-replay", "%s step %d: message sealed at seq-1 opens at seq", cfg, step)
			}
			x.Eval(1)
		}
	}
	x.NonTrivial()
	x.Outcome("seq/" + seq.Text(16))
}

// hpkeLowOrderSection: RFC 9180 section 7.1.4: DHKEM(X25519) must reject an all-zero DH value. The ciphertext
// is what anybody can compute for a small-order enc (dh = 0^32): tink must return an error.
func hpkeLowOrderSection(x *h.X) {
	kem := kems[0]
	kdf := h.Pick(x, "kdf", kdfs)
	aead := h.Pick(x, "aead", aeads)
	v := h.Pick(x, "variant", variants)
	li := x.Choose("low-order-point", len(x25519LowOrder))
	lo := x25519LowOrder[li]
	cfg := fmt.Sprintf("HPKE X25519/%s/%s %v enc=%x", kdf, aead, v, lo)
	params, err := hpke.NewParameters(hpke.ParametersOpts{KEMID: kem.tink, KDFID: kdf.tink, AEADID: aead.tink, Variant: hpkeVar[v]})
	if err != nil {
		x.Fail("construct", "%s: %v", cfg, err)
		return
	}
	id := tk.IDs[0]
	kid := id
	if v == ref.Raw {
		kid = 0
	}
	ka := hpkeMakeKeys(x, kem, params, kid, 0, cfg)
	if ka == nil {
		return
	}
	dec, err := hpke.NewHybridDecrypt(ka.priv, vb.Tok())
	if err != nil {
		x.Fail("construct", "%s: %v", cfg, err)
		return
	}
	suite := ref.HPKESuite{KEM: kem.id, KDF: kdf.id, AEAD: aead.id}
	for _, info := range ctxInfos() {
		ss := ref.HPKEDHSharedFromDH(kem.id, make([]byte, 32), lo, ka.pk)
		key, base := ref.HPKEKeySchedule(suite, ss, info)
		pt := ref.Pattern(2, 17)
		ct := append(bytes.Clone(ref.Prefix(v, id)), lo...)
		ct = append(ct, ref.HPKEAeadSeal(aead.id, key, base, pt, nil)...)
		x.Eval(1)
		if p, err := dec.Decrypt(ct, info); err == nil {
			x.Fail("accept-low-order", "%s: ciphertext built for the all-zero DH value decrypts (returned %x)", cfg, p)
		}
	}
	x.NonTrivial()
	x.Outcome("rejected")
}

// hpkeSerializedPubSection: hybrid/subtle's raw public-key helpers (X25519 / HKDF-SHA256 / ChaCha20-Poly1305 / NO_PREFIX
// only): a handle built from the serialized public key encrypts for the matching private key and for both references.
func hpkeSerializedPubSection(x *h.X) {
	kem, kdf, aead := kems[0], kdfs[0], aeads[2]
	which := x.Choose("keypair", 2)
	cfg := fmt.Sprintf("HPKE KeysetHandleFromSerializedPublicKey X25519/HKDF-SHA256/ChaCha20-Poly1305 keypair=%d", which)
	params, err := hpke.NewParameters(hpke.ParametersOpts{KEMID: kem.tink, KDFID: kdf.tink, AEADID: aead.tink, Variant: hpke.VariantNoPrefix})
	if err != nil {
		x.Fail("construct", "%s: %v", cfg, err)
		return
	}
	tmpl, err := vb.SerializeParameters(params)
	if err != nil {
		x.Fail("construct", "%s: SerializeParameters: %v", cfg, err)
		return
	}
	ka := hpkeMakeKeys(x, kem, params, 0, which, cfg)
	if ka == nil {
		return
	}
	hd, err := hsubtle.KeysetHandleFromSerializedPublicKey(ka.pk, tmpl)
	if err != nil {
		x.Fail("construct", "%s: %v", cfg, err)
		return
	}
	back, err := hsubtle.SerializePrimaryPublicKey(hd, tmpl)
	if err != nil || !bytes.Equal(back, ka.pk) {
		x.Fail("pubkey-mismatch", "%s: SerializePrimaryPublicKey = %x, %v; want %x", cfg, back, err, ka.pk)
		return
	}
	enc, err := hybrid.NewHybridEncrypt(hd)
	if err != nil {
		x.Fail("construct", "%s: %v", cfg, err)
		return
	}
	dec, err := hpke.NewHybridDecrypt(ka.priv, vb.Tok())
	if err != nil {
		x.Fail("construct", "%s: %v", cfg, err)
		return
	}
	suite := ref.HPKESuite{KEM: kem.id, KDF: kdf.id, AEAD: aead.id}
	for _, n := range ptLens {
		for ii, info := range ctxInfos() {
			pt := ref.Pattern(2, n)
			lbl := fmt.Sprintf("%s|len=%d|info=%d", cfg, n, ii)
			reseed(lbl)
			ct, err := enc.Encrypt(pt, info)
			if err != nil {
				x.Fail("encrypt-error", "%s: %v", lbl, err)
				return
			}
			x.Eval(3)
			if got, err := dec.Decrypt(ct, info); err != nil || !bytes.Equal(got, pt) {
				x.Fail("roundtrip", "%s: tink Decrypt: %x, %v", lbl, got, err)
				return
			}
			if got, err := stdhpke.Open(ka.stdPriv, kdf.std(), aead.std(), info, ct); err != nil || !bytes.Equal(got, pt) {
				x.Fail("interop-tink-to-ref", "%s: crypto/hpke.Open of %x: %x, %v", lbl, ct, got, err)
				return
			}
			if got, err := ref.HPKEOpen(suite, ka.sk, ct, info); err != nil || !bytes.Equal(got, pt) {
				x.Fail("interop-tink-to-ref", "%s: RFC 9180 reference Open of %x: %x, %v", lbl, ct, got, err)
				return
			}
		}
	}
	x.NonTrivial()
	x.Outcome("serialized-public-key")
}
