// C02, section kms-envelope-kek-answers: what the KMS envelope AEAD releases when the key-encryption AEAD (KEK)
// answers with something that is NOT the data-encryption key (DEK) of a genuine envelope.
//
// Part 1 (kek = real): the REAL KEK keysets of the catalogue behind the fake KMS, all three construction paths.
// Forged envelopes  prefix || be32(len E) || E || payload  with E = KEK-ciphertext (written by the independent
// reference AES-GCM, empty AD as the envelope uses) of x, x in { empty, 1 byte, 4096 / 4097 bytes, lengths that make
// len(E) exactly 4096 / 4097, pseudo-random bytes, truncated proto, the serialized DEK of every OTHER supported DEK
// type, the configured DEK type with other key sizes / IV / tag / hash / MAC-key sizes / versions, non-canonical
// encodings of a valid DEK, a valid DEK K1, a second valid DEK K2 }, E variants { KEK(x), KEK(x) under a non-empty
// AD, another KEK key, one byte appended / removed, x in the clear } and payload in { empty, arbitrary bytes, really
// encrypted (by the reference) under the key material x carries, that payload truncated / bit-flipped / presented
// with another AD, the payload of the other valid DEK, the payload in the other type's own algorithm }.
//
// Part 2 (kek = an odd collaborator, both constructors): a KEK whose Decrypt answers, for ANY input, (empty, nil),
// (nil, nil), (4096 / 4097 / 70000 bytes, nil), (garbage, nil), (a constant valid DEK, nil), (a valid DEK padded beyond
// 4096 bytes, nil), (bytes AND an error), an error, or a sub-slice of the ciphertext it was handed ([:0], the whole,
// [12:len-16]); and the real KEK behind env.OddAEAD (fresh slices, result is a sub-slice of a buffer holding the
// ciphertext, results served from a cache, Decrypt call #0 / #1 failing). Genuine and forged envelopes, two rounds.
//
// Oracle (one rule for every cell, independent of tink): let d be what the KEK answered for the encrypted-DEK field
// (part 1: the reference AES-GCM decryption of E under the known KEK key; part 2: recorded at the collaborator).
// Decrypt may release a plaintext ONLY IF the KEK answered without error, d parses (protobuf wire format of the
// CONFIGURED DEK type) to key material the configured algorithm can be keyed with, and the payload authenticates under
// it with the presented AD in the reference implementation; the released plaintext must then be the reference's.
// Everything else must be an error with no plaintext; never plaintext bytes together with an error; never a panic.
// MUST accept (part 1 only): d is byte-for-byte the canonical serialization of a DEK of the configured template
// (what Encrypt itself wraps) and the payload is authentic: that pair is one Encrypt can produce.
// NOT judged, recorded as outcome ("...(not judged)"): d carries usable key material in the configured type's wire
// format but is not what Encrypt wraps for this template (other legal key size, other CTR-HMAC parameters, version
// != 0, unknown fields / non-canonical encoding, another key type with an identical wire format) and the payload is
// authentic under it: the KEK holder vouches for that key, the statement ("a ciphertext Encrypt did not produce ...
// bit flips, truncations, other AD, arbitrary strings") does not settle whether the envelope has to refuse it. Both
// answers (error / the authentic plaintext) are accepted there.
// Don't care: error texts, how often the KEK is called, what happens to the buffers (C01 / C13 judge aliasing).
package main

import (
	"bytes"
	"context"
	"errors"
	"fmt"
	"strings"

	"github.com/tink-crypto/tink-go/v2/aead"
	ctrpb "github.com/tink-crypto/tink-go/v2/proto/aes_ctr_go_proto"
	ctrhmacpb "github.com/tink-crypto/tink-go/v2/proto/aes_ctr_hmac_aead_go_proto"
	gcmpb "github.com/tink-crypto/tink-go/v2/proto/aes_gcm_go_proto"
	gcmsivpb "github.com/tink-crypto/tink-go/v2/proto/aes_gcm_siv_go_proto"
	chachapb "github.com/tink-crypto/tink-go/v2/proto/chacha20_poly1305_go_proto"
	commonpb "github.com/tink-crypto/tink-go/v2/proto/common_go_proto"
	hmacpb "github.com/tink-crypto/tink-go/v2/proto/hmac_go_proto"
	xchachapb "github.com/tink-crypto/tink-go/v2/proto/xchacha20_poly1305_go_proto"
	"github.com/tink-crypto/tink-go/v2/tink"
	"google.golang.org/protobuf/proto"
	"verif/env"
	"verif/h"
	cfgs "verif/props/aeadcfg"
	"verif/ref"
	"verif/tk"
)

// ---------- DEK descriptions written / read by the harness from the proto schema ----------

var kaHashName = map[commonpb.HashType]string{commonpb.HashType_SHA1: "SHA1", commonpb.HashType_SHA224: "SHA224",
	commonpb.HashType_SHA256: "SHA256", commonpb.HashType_SHA384: "SHA384", commonpb.HashType_SHA512: "SHA512"}
var kaHashPB = map[string]commonpb.HashType{"SHA1": commonpb.HashType_SHA1, "SHA224": commonpb.HashType_SHA224,
	"SHA256": commonpb.HashType_SHA256, "SHA384": commonpb.HashType_SHA384, "SHA512": commonpb.HashType_SHA512}
var kaDigest = map[string]int{"SHA1": 20, "SHA224": 28, "SHA256": 32, "SHA384": 48, "SHA512": 64}

// dk is a data-encryption key as it travels inside the envelope (the fields of the key protos).
type dk struct {
	kind           cfgs.Kind
	ver            uint32
	key            []byte
	ctrVer, macVer uint32 // AES-CTR-HMAC only
	iv, tag        int
	hash           commonpb.HashType
	mac            []byte
}

func (d dk) ser() []byte {
	var m proto.Message
	switch d.kind {
	case cfgs.GCM:
		m = &gcmpb.AesGcmKey{Version: d.ver, KeyValue: d.key}
	case cfgs.GCMSIV:
		m = &gcmsivpb.AesGcmSivKey{Version: d.ver, KeyValue: d.key}
	case cfgs.CHACHA:
		m = &chachapb.ChaCha20Poly1305Key{Version: d.ver, KeyValue: d.key}
	case cfgs.XCHACHA:
		m = &xchachapb.XChaCha20Poly1305Key{Version: d.ver, KeyValue: d.key}
	case cfgs.CTRHMAC:
		m = &ctrhmacpb.AesCtrHmacAeadKey{Version: d.ver,
			AesCtrKey: &ctrpb.AesCtrKey{Version: d.ctrVer, Params: &ctrpb.AesCtrParams{IvSize: uint32(d.iv)}, KeyValue: d.key},
			HmacKey:   &hmacpb.HmacKey{Version: d.macVer, Params: &hmacpb.HmacParams{Hash: d.hash, TagSize: uint32(d.tag)}, KeyValue: d.mac}}
	default:
		panic("dk.ser: kind")
	}
	b, err := proto.MarshalOptions{Deterministic: true}.Marshal(m)
	if err != nil {
		panic(err)
	}
	return b
}

// parseDK reads b in the wire format of kind's key proto (lenient: unknown fields, any version, any sizes).
func parseDK(kind cfgs.Kind, b []byte) (dk, bool) {
	d := dk{kind: kind}
	switch kind {
	case cfgs.GCM:
		m := &gcmpb.AesGcmKey{}
		if proto.Unmarshal(b, m) != nil {
			return d, false
		}
		d.ver, d.key = m.GetVersion(), m.GetKeyValue()
	case cfgs.GCMSIV:
		m := &gcmsivpb.AesGcmSivKey{}
		if proto.Unmarshal(b, m) != nil {
			return d, false
		}
		d.ver, d.key = m.GetVersion(), m.GetKeyValue()
	case cfgs.CHACHA:
		m := &chachapb.ChaCha20Poly1305Key{}
		if proto.Unmarshal(b, m) != nil {
			return d, false
		}
		d.ver, d.key = m.GetVersion(), m.GetKeyValue()
	case cfgs.XCHACHA:
		m := &xchachapb.XChaCha20Poly1305Key{}
		if proto.Unmarshal(b, m) != nil {
			return d, false
		}
		d.ver, d.key = m.GetVersion(), m.GetKeyValue()
	case cfgs.CTRHMAC:
		m := &ctrhmacpb.AesCtrHmacAeadKey{}
		if proto.Unmarshal(b, m) != nil {
			return d, false
		}
		d.ver, d.key, d.ctrVer = m.GetVersion(), m.GetAesCtrKey().GetKeyValue(), m.GetAesCtrKey().GetVersion()
		d.iv = int(m.GetAesCtrKey().GetParams().GetIvSize())
		d.mac, d.macVer = m.GetHmacKey().GetKeyValue(), m.GetHmacKey().GetVersion()
		d.tag, d.hash = int(m.GetHmacKey().GetParams().GetTagSize()), m.GetHmacKey().GetParams().GetHash()
	default:
		return d, false
	}
	return d, true
}

func in(n int, set ...int) bool {
	for _, s := range set {
		if n == s {
			return true
		}
	}
	return false
}

// refCfg is the reference configuration keyed with d, nil if the reference algorithm cannot be keyed with it at all.
func (d dk) refCfg() *cfgs.Cfg {
	c := &cfgs.Cfg{Kind: d.kind, Variant: ref.Raw, Path: "DEK", KeySize: len(d.key), KeyBytes: bytes.Clone(d.key)}
	switch d.kind {
	case cfgs.GCM:
		if !in(len(d.key), 16, 24, 32) {
			return nil
		}
	case cfgs.GCMSIV:
		if !in(len(d.key), 16, 32) {
			return nil
		}
	case cfgs.CHACHA, cfgs.XCHACHA:
		if len(d.key) != 32 {
			return nil
		}
	case cfgs.CTRHMAC:
		hn, ok := kaHashName[d.hash]
		if !ok || !in(len(d.key), 16, 24, 32) || d.iv < 1 || d.iv > 16 || d.tag < 1 || d.tag > kaDigest[hn] {
			return nil
		}
		c.IVSize, c.TagSize, c.Hash, c.MACKeySize = d.iv, d.tag, hn, len(d.mac)
		c.MACKeyBytes = append([]byte{}, d.mac...)
	default:
		return nil
	}
	return c
}

// tmplDK is a DEK exactly as Encrypt wraps it for template t (key material derived from the label).
func tmplDK(t *cfgs.Cfg, label string) dk {
	d := dk{kind: t.Kind, key: ref.KeyBytes("c02-kekans-"+label, t.KeySize)}
	if t.Kind == cfgs.CTRHMAC {
		d.iv, d.tag, d.hash = t.IVSize, t.TagSize, kaHashPB[t.Hash]
		d.mac = ref.KeyBytes("c02-kekans-mac-"+label, t.MACKeySize)
	}
	return d
}

// canonical: b is byte-for-byte the serialization of a DEK Encrypt generates from template t.
func canonical(t *cfgs.Cfg, d dk, b []byte) bool {
	if d.kind != t.Kind || d.ver != 0 || len(d.key) != t.KeySize || !bytes.Equal(d.ser(), b) {
		return false
	}
	if t.Kind == cfgs.CTRHMAC {
		return d.ctrVer == 0 && d.macVer == 0 && d.iv == t.IVSize && d.tag == t.TagSize && kaHashName[d.hash] == t.Hash && len(d.mac) == t.MACKeySize
	}
	return true
}

// the DEK templates of the catalogue, described for the harness (AES256_GCM_RAW wraps the same DEK as AES256_GCM)
var kaTemplates = []struct {
	name string
	c    cfgs.Cfg
}{
	{"AES128_GCM", cfgs.Cfg{Kind: cfgs.GCM, KeySize: 16}},
	{"AES256_GCM", cfgs.Cfg{Kind: cfgs.GCM, KeySize: 32}},
	{"AES128_CTR_HMAC_SHA256", cfgs.Cfg{Kind: cfgs.CTRHMAC, KeySize: 16, IVSize: 16, MACKeySize: 32, TagSize: 16, Hash: "SHA256"}},
	{"AES256_CTR_HMAC_SHA256", cfgs.Cfg{Kind: cfgs.CTRHMAC, KeySize: 32, IVSize: 16, MACKeySize: 32, TagSize: 32, Hash: "SHA256"}},
	{"CHACHA20_POLY1305", cfgs.Cfg{Kind: cfgs.CHACHA, KeySize: 32}},
	{"XCHACHA20_POLY1305", cfgs.Cfg{Kind: cfgs.XCHACHA, KeySize: 32}},
	{"AES128_GCM_SIV", cfgs.Cfg{Kind: cfgs.GCMSIV, KeySize: 16}},
	{"AES256_GCM_SIV", cfgs.Cfg{Kind: cfgs.GCMSIV, KeySize: 32}},
}

// ---------- oracle ----------

type kaVerdict struct {
	may, must bool   // may release plaintext / has to
	pt        []byte // the only plaintext that may be released
	class     string // why (outcome class)
}

// kaJudge: d = the KEK's answer for the encrypted-DEK field (kekOK=false: the KEK failed / was never asked because
// the framing is invalid).
func kaJudge(t *cfgs.Cfg, kekOK bool, d []byte, payload, ad []byte, demandAccept bool) kaVerdict {
	if !kekOK {
		return kaVerdict{class: "kek-refuses-or-framing-invalid"}
	}
	k, ok := parseDK(t.Kind, d)
	if !ok {
		return kaVerdict{class: "kek-answer-not-a-key-proto"}
	}
	rc := k.refCfg()
	if rc == nil {
		return kaVerdict{class: "kek-answer-no-usable-key-material"}
	}
	pt, err := rc.RefDecrypt(payload, ad)
	if err != nil {
		return kaVerdict{class: "payload-not-authentic-under-the-answered-key"}
	}
	if canonical(t, k, d) {
		return kaVerdict{may: true, must: demandAccept, pt: pt, class: "genuine"}
	}
	return kaVerdict{may: true, pt: pt, class: "authentic-under-a-non-template-dek(not judged)"}
}

type kaProber struct {
	x     *h.X
	a     tink.AEAD
	cfg   string
	fails int
}

// probe runs Decrypt and applies the verdict; returns the observed result class.
func (p *kaProber) probe(v kaVerdict, tag string, ct, ad []byte, what func() string) {
	if p.fails >= 3 {
		return
	}
	p.x.Eval(1)
	var pt []byte
	var err error
	panicked, msg := h.Try(func() { pt, err = p.a.Decrypt(ct, ad) })
	res := "rejected"
	switch {
	case panicked:
		p.fails++
		p.x.Fail("kekans-panic", "%s: Decrypt panicked on %s (envelope %s, AD %x): %s", p.cfg, what(), tk.Hex(ct), ad, msg)
		return
	case err != nil && len(pt) != 0:
		p.fails++
		p.x.Fail("kekans-plaintext-with-error", "%s: Decrypt returned error %q together with %d plaintext bytes %s for %s", p.cfg, err, len(pt), tk.Hex(pt), what())
		return
	case err == nil && !v.may:
		p.fails++
		p.x.Fail("kekans-accepted-unauthenticated", "%s: Decrypt reports SUCCESS (%d plaintext bytes %s, nil error) for %s [%s] (envelope %s, AD %x)", p.cfg, len(pt), tk.Hex(pt), what(), v.class, tk.Hex(ct), ad)
		return
	case err == nil && !bytes.Equal(pt, v.pt):
		p.fails++
		p.x.Fail("kekans-wrong-plaintext", "%s: Decrypt reports success with plaintext %s, the payload authenticates to %s: %s", p.cfg, tk.Hex(pt), tk.Hex(v.pt), what())
		return
	case err != nil && v.must:
		p.fails++
		p.x.Fail("kekans-genuine-rejected", "%s: Decrypt rejects (%v) an envelope Encrypt can produce: %s", p.cfg, err, what())
		return
	case err == nil:
		res = "plaintext-released"
	}
	if v.may && !v.must {
		p.x.Outcome(v.class + " [" + tag + "] -> " + res)
		return
	}
	p.x.Outcome(v.class + " -> " + res)
}

// kaDomain: plaintexts and ADs the payloads are made of.
func kaDomain(x *h.X) (pts, ads [][]byte) {
	if x.Thorough() {
		return [][]byte{{}, ref.Pattern(3, 1), ref.Pattern(3, 16), ref.Pattern(3, 17), ref.Pattern(3, 64)}, [][]byte{nil, {}, {0xa1, 0xa2, 0xa3, 0xa4, 0xa5}}
	}
	return [][]byte{{}, ref.Pattern(3, 17)}, [][]byte{nil, {0xa1, 0xa2, 0xa3, 0xa4, 0xa5}}
}

// ---------- part 1: the real KEK, forged encrypted-DEK fields ----------

type kaX struct {
	name string
	b    []byte
	cat  string // coarse class (outcome accounting of the cells that are not judged)
	big  bool // only the cheap payloads
	allE bool // all encrypted-DEK variants
	// a serialized key of ANOTHER supported DEK type: the reference keyed with it in its own algorithm
	native     *cfgs.Cfg
	nativeName string
}

// padTo appends an unknown length-delimited field (number 15) so that the result has exactly n bytes (n >= len(b)+3).
func padTo(b []byte, n int) []byte {
	for l := 0; l <= n; l++ {
		hdr := []byte{0x7a}
		v := l
		for v >= 0x80 {
			hdr = append(hdr, byte(v)|0x80)
			v >>= 7
		}
		hdr = append(hdr, byte(v))
		if len(b)+len(hdr)+l == n {
			return cat(b, hdr, ref.Pattern(2, l))
		}
	}
	panic("padTo")
}

func kaXs(c *cfgs.Cfg, k1, k2 dk) []kaX {
	t := c.DEK
	over := c.KEK.MinLen() // bytes the KEK adds
	s1 := k1.ser()
	xs := []kaX{
		{name: "the empty string", b: []byte{}, allE: true},
		{name: "one byte 00", b: []byte{0}},
		{name: "one byte 08", b: []byte{8}},
		{name: "two bytes 08 00 (a key proto without key)", b: []byte{8, 0}},
		{name: "4096 bytes", b: ref.Pattern(3, 4096), big: true},
		{name: "4097 bytes", b: ref.Pattern(3, 4097), big: true},
		{name: "bytes making the encrypted DEK exactly 4096 long", b: ref.Pattern(3, 4096-over), big: true},
		{name: "bytes making the encrypted DEK exactly 4097 long", b: ref.Pattern(3, 4097-over), big: true},
		{name: "a valid DEK padded (unknown field) so that the encrypted DEK is exactly 4096 long", cat: "non-canonical encoding", b: padTo(s1, 4096-over)},
		{name: "a valid DEK padded (unknown field) so that the encrypted DEK is exactly 4097 long", b: padTo(s1, 4097-over)},
		{name: "32 pseudo-random bytes", b: ref.KeyBytes("c02-kekans-rand", 32)},
		{name: "34 pseudo-random bytes", b: ref.KeyBytes("c02-kekans-rand", 34)},
		{name: "a truncated key proto", b: s1[:len(s1)-1]},
		{name: "a key proto announcing more key bytes than follow", b: cat([]byte{0x1a, 0x20}, ref.Pattern(2, 31))},
	}
	// every other supported DEK type / template
	for i := range kaTemplates {
		u := &kaTemplates[i]
		if u.c.Kind == t.Kind && u.c.KeySize == t.KeySize {
			continue
		}
		uk := tmplDK(&u.c, "other-"+u.name)
		xs = append(xs, kaX{name: "a serialized " + u.name + " key", b: uk.ser(), cat: "another DEK type's key with the same wire format", native: uk.refCfg(), nativeName: u.name})
	}
	// the configured type with other sizes / parameters / versions
	cls := ""
	mod := func(name string, f func(d *dk)) {
		d := k1
		d.key, d.mac = bytes.Clone(k1.key), bytes.Clone(k1.mac)
		f(&d)
		xs = append(xs, kaX{name: "the configured key type with " + name, cat: cls, b: d.ser()})
	}
	cls = "another key size"
	for _, n := range []int{0, 1, 15, 16, 17, 24, 31, 32, 33, 64} {
		if n != t.KeySize {
			mod(fmt.Sprintf("a %d-byte key", n), func(d *dk) { d.key = ref.KeyBytes("c02-kekans-size", n) })
		}
	}
	cls = "version != 0"
	for _, v := range []uint32{1, 2, 0xFFFFFFFF} {
		mod(fmt.Sprintf("version %d", v), func(d *dk) { d.ver = v })
	}
	if t.Kind == cfgs.CTRHMAC {
		mod("AES-CTR key version 1", func(d *dk) { d.ctrVer = 1 })
		mod("HMAC key version 1", func(d *dk) { d.macVer = 1 })
		cls = "other AES-CTR-HMAC parameters"
		for _, iv := range []int{0, 11, 12, 15, 17} {
			mod(fmt.Sprintf("IV size %d", iv), func(d *dk) { d.iv = iv })
		}
		for _, tg := range []int{0, 9, 10, 16, 31, 32, 33} {
			if tg != t.TagSize {
				mod(fmt.Sprintf("tag size %d", tg), func(d *dk) { d.tag = tg })
			}
		}
		for _, hs := range []commonpb.HashType{commonpb.HashType_UNKNOWN_HASH, commonpb.HashType_SHA1, commonpb.HashType_SHA512, 99} {
			mod(fmt.Sprintf("hash %v", hs), func(d *dk) { d.hash = hs })
		}
		for _, n := range []int{0, 15, 16, 33} {
			mod(fmt.Sprintf("a %d-byte HMAC key", n), func(d *dk) { d.mac = ref.KeyBytes("c02-kekans-macsize", n) })
		}
		// the two halves swapped / one half missing
		xs = append(xs, kaX{name: "the configured key type without the HMAC key", b: func() []byte {
			b, _ := proto.Marshal(&ctrhmacpb.AesCtrHmacAeadKey{AesCtrKey: &ctrpb.AesCtrKey{Params: &ctrpb.AesCtrParams{IvSize: uint32(k1.iv)}, KeyValue: k1.key}})
			return b
		}()})
		xs = append(xs, kaX{name: "the configured key type without the AES-CTR key", b: func() []byte {
			b, _ := proto.Marshal(&ctrhmacpb.AesCtrHmacAeadKey{HmacKey: &hmacpb.HmacKey{Params: &hmacpb.HmacParams{Hash: k1.hash, TagSize: uint32(k1.tag)}, KeyValue: k1.mac}})
			return b
		}()})
	}
	// non-canonical encodings of the valid DEK
	xs = append(xs,
		kaX{name: "a valid DEK with the version field written out as 0", cat: "non-canonical encoding", b: cat([]byte{8, 0}, s1)},
		kaX{name: "a valid DEK followed by an unknown field", cat: "non-canonical encoding", b: cat(s1, []byte{0x78, 0x01})},
		kaX{name: "a valid DEK twice (last one wins in proto)", cat: "non-canonical encoding", b: cat(k2.ser(), s1)},
		kaX{name: "a valid DEK (K1)", b: s1, allE: true},
		kaX{name: "another valid DEK (K2)", b: k2.ser()},
	)
	return xs
}

func kaRealKEK(x *h.X, c *cfgs.Cfg) {
	a, err := c.Build()
	if err != nil {
		x.Fail("construct", "%s: %v", c, err)
		return
	}
	x.NonTrivial()
	t := c.DEK
	p := &kaProber{x: x, a: a, cfg: c.String()}
	k1, k2 := tmplDK(t, "K1"), tmplDK(t, "K2")
	xs := kaXs(c, k1, k2)
	prefix := c.Prefix()
	kekNonce := ref.Pattern(2, 12)
	other := c.Other().KEK
	frame := func(E, payload []byte) []byte { return cat(prefix, ref.AeadEnvelopeFrame(E, payload)) }
	// what the KEK answers for E (reference AES-GCM under the known KEK key; the envelope asks with an empty AD)
	kekAnswer := func(E []byte) ([]byte, bool) {
		if len(E) == 0 || len(E) > 4096 {
			return nil, false // Encrypt never writes such a field (documented bound of the framing)
		}
		d, err := c.KEK.RefDecrypt(E, nil)
		return d, err == nil
	}
	rc1 := k1.refCfg()
	pts, ads := kaDomain(x)
	for _, pt := range pts {
		for _, ad := range ads {
			otherAD := cat(ad, []byte{1})
			pay1 := rc1.RefEncrypt(ref.Pattern(1, rc1.NonceSize()), pt, ad)
			for _, xc := range xs {
				type pl struct {
					name string
					b    []byte
					ad   []byte
				}
				pls := []pl{{"no payload", nil, ad}, {"40 arbitrary payload bytes", ref.Pattern(2, 40), ad}}
				if !xc.big {
					pls = append(pls, pl{"the payload of the valid DEK K1", pay1, ad})
					// a payload really encrypted under the key material x carries when read as the configured key type
					if k, ok := parseDK(t.Kind, xc.b); ok {
						if rc := k.refCfg(); rc != nil {
							own := rc.RefEncrypt(ref.Pattern(2, rc.NonceSize()), pt, ad)
							fl := bytes.Clone(own)
							fl[len(fl)-1] ^= 1
							pls = append(pls, pl{"a payload encrypted under the wrapped key material", own, ad},
								pl{"that payload without its last byte", own[:len(own)-1], ad},
								pl{"that payload with the last bit flipped", fl, ad},
								pl{"that payload extended by one byte", cat(own, []byte{0}), ad},
								pl{"that payload presented with another AD", own, otherAD})
						}
					}
					// the payload in the OTHER type's own algorithm
					if xc.native != nil {
						pls = append(pls, pl{"a payload encrypted with that key in its own algorithm (" + xc.nativeName + ")",
							xc.native.RefEncrypt(ref.Pattern(2, xc.native.NonceSize()), pt, ad), ad})
					}
				}
				type ev struct {
					name string
					b    []byte
				}
				E0 := c.KEK.RefEncrypt(kekNonce, xc.b, []byte{})
				es := []ev{{"KEK ciphertext of ", E0}}
				if xc.allE {
					es = append(es,
						ev{"KEK ciphertext under AD 010203 of ", c.KEK.RefEncrypt(kekNonce, xc.b, []byte{1, 2, 3})},
						ev{"ANOTHER KEK key's ciphertext of ", other.RefEncrypt(kekNonce, xc.b, []byte{})},
						ev{"KEK ciphertext plus one byte of ", cat(E0, []byte{0})},
						ev{"KEK ciphertext minus its last byte of ", E0[:len(E0)-1]},
						ev{"the cleartext of ", xc.b})
				}
				for _, e := range es {
					d, kekOK := kekAnswer(e.b)
					for _, q := range pls {
						v := kaJudge(t, kekOK, d, q.b, q.ad, true)
						p.probe(v, xc.cat, frame(e.b, q.b), q.ad, func() string {
							return fmt.Sprintf("be32(%d) || E || payload with E = %s%s (%d bytes: %s), payload = %s (plaintext len %d, AD %x)",
								len(e.b), e.name, xc.name, len(xc.b), tk.Hex(xc.b), q.name, len(pt), q.ad)
						})
					}
				}
				if p.fails > 0 {
					return
				}
			}
		}
	}
}

// ---------- part 2: a KEK with odd answers ----------

var kaModes = []string{
	"real-kek",                         // part 1
	"odd/fresh-slices",                 // env.OddAEAD over the real KEK
	"odd/decrypt-result-is-subslice",   //
	"odd/decrypt-result-from-cache",    //
	"odd/decrypt-call-0-fails",         //
	"odd/decrypt-call-1-fails",         //
	"const/empty-non-nil",              // ([]byte{}, nil) for any input
	"const/nil",                        // (nil, nil)
	"const/4096-bytes",                 //
	"const/4097-bytes",                 //
	"const/70000-bytes",                //
	"const/34-garbage-bytes",           //
	"const/valid-dek-K2",               // a constant valid DEK
	"const/valid-dek-K1-padded-to-5000", // a valid DEK with an unknown field: over-long but parseable
	"const/bytes-and-error",            // (valid DEK K1, error)
	"const/error",                      //
	"alias/ciphertext[:0]",             // sub-slices of the buffer the KEK was handed
	"alias/whole-ciphertext",           //
	"alias/ciphertext[12:len-16]",      //
}

var errKaKEK = errors.New("verif: the KEK refuses")

// kaKEK answers Decrypt by mode and records its answers.
type kaKEK struct {
	mode    string
	inner   tink.AEAD // real KEK (behind env.OddAEAD for the odd/ modes)
	k1, k2  []byte
	calls   int
	lastAns []byte
	lastOK  bool
}

func (k *kaKEK) Encrypt(pt, ad []byte) ([]byte, error) { return k.inner.Encrypt(pt, ad) }

func (k *kaKEK) answer(ct, ad []byte) ([]byte, error) {
	switch k.mode {
	case "const/empty-non-nil":
		return []byte{}, nil
	case "const/nil":
		return nil, nil
	case "const/4096-bytes":
		return ref.Pattern(3, 4096), nil
	case "const/4097-bytes":
		return ref.Pattern(3, 4097), nil
	case "const/70000-bytes":
		return ref.Pattern(3, 70000), nil
	case "const/34-garbage-bytes":
		return ref.KeyBytes("c02-kekans-garbage", 34), nil
	case "const/valid-dek-K2":
		return bytes.Clone(k.k2), nil
	case "const/valid-dek-K1-padded-to-5000":
		return padTo(k.k1, 5000), nil
	case "const/bytes-and-error":
		return bytes.Clone(k.k1), errKaKEK
	case "const/error":
		return nil, errKaKEK
	case "alias/ciphertext[:0]":
		return ct[:0], nil
	case "alias/whole-ciphertext":
		return ct, nil
	case "alias/ciphertext[12:len-16]":
		if len(ct) < 28 {
			return ct[:0], nil
		}
		return ct[12 : len(ct)-16], nil
	}
	return k.inner.Decrypt(ct, ad)
}

func (k *kaKEK) Decrypt(ct, ad []byte) ([]byte, error) {
	out, err := k.answer(ct, ad)
	k.calls++
	k.lastAns, k.lastOK = bytes.Clone(out), err == nil
	return out, err
}

type kaKEKCtx struct{ k *kaKEK }

func (c kaKEKCtx) EncryptWithContext(_ context.Context, pt, ad []byte) ([]byte, error) {
	return c.k.Encrypt(pt, ad)
}
func (c kaKEKCtx) DecryptWithContext(_ context.Context, ct, ad []byte) ([]byte, error) {
	return c.k.Decrypt(ct, ad)
}

type kaCtxAdapter struct {
	a *aead.KMSEnvelopeAEADWithContext
}

func (c kaCtxAdapter) Encrypt(pt, ad []byte) ([]byte, error) {
	return c.a.EncryptWithContext(context.Background(), pt, ad)
}
func (c kaCtxAdapter) Decrypt(ct, ad []byte) ([]byte, error) {
	return c.a.DecryptWithContext(context.Background(), ct, ad)
}

func kaOddKEK(x *h.X, c *cfgs.Cfg, mode string) {
	t := c.DEK
	k1, k2 := tmplDK(t, "K1"), tmplDK(t, "K2")
	s1, s2 := k1.ser(), k2.ser()
	realKEK, err := c.KEK.Build()
	if err != nil {
		x.Fail("construct", "KEK %v: %v", c.KEK, err)
		return
	}
	kek := &kaKEK{mode: mode, inner: realKEK, k1: s1, k2: s2}
	switch mode {
	case "odd/fresh-slices":
		kek.inner = env.NewOddAEAD(realKEK, env.AEADNormal)
	case "odd/decrypt-result-is-subslice":
		kek.inner = env.NewOddAEAD(realKEK, env.AEADDecryptSub)
	case "odd/decrypt-result-from-cache":
		kek.inner = env.NewOddAEAD(realKEK, env.AEADCachedDecrypt)
	case "odd/decrypt-call-0-fails", "odd/decrypt-call-1-fails":
		o := env.NewOddAEAD(realKEK, env.AEADNormal)
		o.FailDecryptAt = int(mode[len("odd/decrypt-call-")] - '0')
		kek.inner = o
	}
	var a tink.AEAD
	if c.Path == cfgs.PathEnv2 {
		a = aead.NewKMSEnvelopeAEAD2(c.DEKTemplate(), kek)
	} else {
		wc, err := aead.NewKMSEnvelopeAEADWithContext(c.DEKTemplate(), kaKEKCtx{kek})
		if err != nil {
			x.Fail("construct", "%s: %v", c, err)
			return
		}
		a = kaCtxAdapter{wc}
	}
	x.NonTrivial()
	p := &kaProber{x: x, a: a, cfg: fmt.Sprintf("envelope dek=%s via %s over a KEK [%v] answering %q", c.DEKName, c.Path, c.KEK, mode)}
	rc1, rc2 := k1.refCfg(), k2.refCfg()
	kekNonce := ref.Pattern(2, 12)
	E1 := c.KEK.RefEncrypt(kekNonce, s1, []byte{})
	E2 := c.KEK.RefEncrypt(kekNonce, s2, []byte{})
	Eempty := c.KEK.RefEncrypt(kekNonce, []byte{}, []byte{})
	pts, ads := kaDomain(x)
	for round := 0; round < 2; round++ { // the second round meets the cache / the calls after the failing one
		for _, pt := range pts {
			for _, ad := range ads {
				pay1 := rc1.RefEncrypt(ref.Pattern(1, rc1.NonceSize()), pt, ad)
				pay2 := rc2.RefEncrypt(ref.Pattern(1, rc2.NonceSize()), pt, ad)
				fl := bytes.Clone(pay1)
				fl[len(fl)-1] ^= 1
				envs := []struct {
					name       string
					E, payload []byte
					ad         []byte
				}{
					{"the genuine envelope (DEK K1)", E1, pay1, ad},
					{"the genuine envelope (DEK K2)", E2, pay2, ad},
					{"the genuine envelope presented with another AD", E1, pay1, cat(ad, []byte{1})},
					{"the genuine encrypted DEK with the last payload bit flipped", E1, fl, ad},
					{"the genuine encrypted DEK with the payload of another DEK", E1, pay2, ad},
					{"the genuine encrypted DEK with 40 arbitrary payload bytes", E1, ref.Pattern(2, 40), ad},
					{"the genuine encrypted DEK without payload", E1, nil, ad},
					{"60 arbitrary bytes as encrypted DEK || genuine payload of K1", ref.Pattern(3, 60), pay1, ad},
					{"60 arbitrary bytes as encrypted DEK || genuine payload of K2", ref.Pattern(3, 60), pay2, ad},
					{"one arbitrary byte as encrypted DEK || genuine payload of K1", []byte{7}, pay1, ad},
					{"the KEK ciphertext of the EMPTY string as encrypted DEK || genuine payload of K1", Eempty, pay1, ad},
					{"the KEK ciphertext of the EMPTY string as encrypted DEK || arbitrary payload", Eempty, ref.Pattern(2, 40), ad},
					{"the DEK K1 in the clear as encrypted DEK || its genuine payload", s1, pay1, ad},
					{"12 bytes || DEK K1 in the clear || 16 bytes as encrypted DEK || its genuine payload", cat(ref.Pattern(2, 12), s1, ref.Pattern(1, 16)), pay1, ad},
					{"12 bytes || DEK K1 in the clear || 16 bytes as encrypted DEK || arbitrary payload", cat(ref.Pattern(2, 12), s1, ref.Pattern(1, 16)), ref.Pattern(2, 40), ad},
				}
				for _, e := range envs {
					ct := ref.AeadEnvelopeFrame(e.E, e.payload)
					if p.fails >= 3 {
						return
					}
					// run Decrypt first (the verdict depends on what the collaborator answered during this very call)
					before := kek.calls
					kek.lastAns, kek.lastOK = nil, false
					var pt2 []byte
					var err error
					panicked, msg := h.Try(func() { pt2, err = a.Decrypt(ct, e.ad) })
					asked := kek.calls > before
					v := kaJudge(t, asked && kek.lastOK, kek.lastAns, e.payload, e.ad, false)
					x.Eval(1)
					what := fmt.Sprintf("%s (round %d, plaintext len %d, AD %x; the KEK was asked %d times and answered last: %d bytes %s, ok=%v)",
						e.name, round, len(pt), e.ad, kek.calls-before, len(kek.lastAns), tk.Hex(kek.lastAns), kek.lastOK)
					res := "rejected"
					switch {
					case panicked:
						p.fails++
						x.Fail("kekans-panic", "%s: Decrypt panicked on %s: %s", p.cfg, what, msg)
						continue
					case err != nil && len(pt2) != 0:
						p.fails++
						x.Fail("kekans-plaintext-with-error", "%s: Decrypt returned error %q together with %d plaintext bytes %s for %s", p.cfg, err, len(pt2), tk.Hex(pt2), what)
						continue
					case err == nil && !v.may:
						p.fails++
						x.Fail("kekans-accepted-unauthenticated", "%s: Decrypt reports SUCCESS (%d plaintext bytes %s, nil error) for %s [%s]", p.cfg, len(pt2), tk.Hex(pt2), what, v.class)
						continue
					case err == nil && !bytes.Equal(pt2, v.pt):
						p.fails++
						x.Fail("kekans-wrong-plaintext", "%s: Decrypt reports success with plaintext %s, the payload authenticates to %s: %s", p.cfg, tk.Hex(pt2), tk.Hex(v.pt), what)
						continue
					case err == nil:
						res = "plaintext-released"
					}
					x.Outcome(mode[:strings.IndexByte(mode, '/')] + ": " + v.class + " -> " + res)
				}
			}
		}
	}
	x.Count("kek-calls", kek.calls)
}

func kekAnswers(x *h.X) {
	mode := h.Pick(x, "kek-answers", kaModes)
	c, ok := cfgs.Choose(x, cfgs.ENVELOPE, cfgs.Opts{AllVariants: true, OneID: true})
	if !ok {
		return
	}
	if mode == "real-kek" {
		kaRealKEK(x, c)
		return
	}
	if c.Path == cfgs.PathEnvKS {
		return // the keyset path resolves its KEK through the KMS client registry: no room for a collaborator
	}
	kaOddKEK(x, c, mode)
}
