// C02: AEAD never releases plaintext for a ciphertext it did not produce; nothing panics.
//
// Engine E1 (bounded exhaustive enumeration). For every configuration of the AEAD catalogue
// (verif/props/aeadcfg: key type x sizes x ALL variants x construction path, envelope x DEK templates x paths)
// and base plaintext lengths {0,1,15,16,17,64} x AD {empty, 5 bytes}: take the valid ciphertext (which must
// decrypt) and apply the complete mutation catalogue - every single-bit flip, every byte inversion, every
// truncation (tail and head cut points), extensions by 1..17 bytes of 00/FF, every foreign prefix (other
// variant / other id), prefix removed / duplicated / prepended to RAW, the ciphertext of another key with the
// same prefix, AD with every bit flipped / every truncation / extensions / nil vs non-empty, AD<->ciphertext
// boundary shifts, envelope DEK-length field values - and arbitrary strings: ALL byte strings of length 0..2
// (bare and behind the correct prefix), and for every length 0..prefix+IV+tag+2 the four patterns (bare and
// behind the correct prefix). Oracle: Decrypt returns an error AND a nil/empty plaintext; no panic in Decrypt
// (h.Try); Encrypt does not panic for any (length, AD) of the C01 domain.
//
// Section kms-envelope-kek-answers (kekanswers.go): KEK answers that are not the DEK of a genuine envelope.
//
// Don't care: error texts; which of several checks rejects; mutated inputs that equal the original pair
// (nil and empty AD are the same AD); timing.
package main

import (
	"bytes"
	"encoding/binary"
	"fmt"
	"sync"

	"github.com/tink-crypto/tink-go/v2/tink"
	"verif/h"
	cfgs "verif/props/aeadcfg"
	"verif/ref"
	"verif/tk"
)

type prober struct {
	x      *h.X
	a      tink.AEAD
	cfg    string
	ct, ad []byte // the valid pair (nil for arbitrary-string probes)
	fails  int
}

// rej requires Decrypt(c, ad) to fail without plaintext and without panic.
func (p *prober) rej(key string, c, ad []byte, what func() string) {
	if p.fails >= 3 {
		return
	}
	p.x.Eval(1)
	if p.ct != nil && bytes.Equal(c, p.ct) && (bytes.Equal(ad, p.ad) || (len(ad) == 0 && len(p.ad) == 0)) {
		return // not a modification
	}
	var pt []byte
	var err error
	panicked, msg := h.Try(func() { pt, err = p.a.Decrypt(c, ad) })
	switch {
	case panicked:
		p.fails++
		p.x.Fail("panic-decrypt", "%s: Decrypt panicked on %s (ciphertext %s, AD %x): %s", p.cfg, what(), tk.Hex(c), ad, msg)
	case err == nil:
		p.fails++
		p.x.Fail(key, "%s: Decrypt ACCEPTED %s and returned %d plaintext bytes %s (ciphertext %s, AD %x)", p.cfg, what(), len(pt), tk.Hex(pt), tk.Hex(c), ad)
	case len(pt) != 0:
		p.fails++
		p.x.Fail("plaintext-with-error", "%s: Decrypt returned error %q together with %d plaintext bytes %s for %s", p.cfg, err, len(pt), tk.Hex(pt), what())
	}
}

func cat(parts ...[]byte) []byte { return bytes.Join(parts, nil) }

func foreignPrefixes(c *cfgs.Cfg) [][]byte {
	var out [][]byte
	own := c.Prefix()
	for _, v := range []ref.Variant{ref.Tink, ref.Crunchy} {
		for _, id := range []uint32{c.ID, c.ID ^ 1, c.ID ^ 0x80000000, c.ID ^ 0x00010000, 0, 0xFFFFFFFF} {
			p := ref.Prefix(v, id)
			if !bytes.Equal(p, own) {
				out = append(out, p)
			}
		}
	}
	return out
}

// mutate applies the catalogue to one valid (ct, ad).
func mutate(p *prober, c *cfgs.Cfg, ct, ad, ctOther []byte) {
	P := len(c.Prefix())
	prefix := ct[:P]
	for bit := 0; bit < 8*len(ct); bit++ {
		m := bytes.Clone(ct)
		m[bit/8] ^= 1 << (bit % 8)
		p.rej("accept-bitflip", m, ad, func() string { return fmt.Sprintf("ciphertext with bit %d (byte %d of %d) flipped", bit, bit/8, len(ct)) })
	}
	for i := range ct {
		m := bytes.Clone(ct)
		m[i] ^= 0xff
		p.rej("accept-byteflip", m, ad, func() string { return fmt.Sprintf("ciphertext with byte %d inverted", i) })
	}
	for cut := 0; cut < len(ct); cut++ {
		p.rej("accept-truncated", ct[:cut], ad, func() string { return fmt.Sprintf("ciphertext truncated to %d of %d bytes", cut, len(ct)) })
	}
	for cut := 1; cut <= len(ct); cut++ {
		p.rej("accept-headcut", ct[cut:], ad, func() string { return fmt.Sprintf("ciphertext with the first %d bytes removed", cut) })
		if P > 0 && cut > P {
			p.rej("accept-headcut", cat(prefix, ct[cut:]), ad, func() string { return fmt.Sprintf("ciphertext with %d bytes removed after the prefix", cut-P) })
		}
	}
	for ext := 1; ext <= 17; ext++ {
		for _, b := range []byte{0, 0xff} {
			p.rej("accept-extended", cat(ct, bytes.Repeat([]byte{b}, ext)), ad, func() string { return fmt.Sprintf("ciphertext extended by %d bytes %02x", ext, b) })
		}
	}
	p.rej("accept-extended", cat(ct, ct), ad, func() string { return "ciphertext||ciphertext" })
	for _, fp := range foreignPrefixes(c) {
		p.rej("accept-foreign-prefix", cat(fp, ct[P:]), ad, func() string { return fmt.Sprintf("ciphertext under foreign prefix %x (own %x)", fp, prefix) })
	}
	if P > 0 {
		p.rej("accept-noprefix", ct[P:], ad, func() string { return "ciphertext without its prefix" })
		p.rej("accept-dupprefix", cat(prefix, ct), ad, func() string { return "ciphertext with duplicated prefix" })
	}
	if ctOther != nil {
		p.rej("accept-other-key", ctOther, ad, func() string { return "the ciphertext of another key with the same parameters and prefix" })
		if n := c.SplitNonce(ct); n != nil && len(ctOther) == len(ct) {
			k := P + len(n)
			p.rej("accept-other-key", cat(ct[:k], ctOther[k:]), ad, func() string { return "own nonce with the other key's body" })
			p.rej("accept-other-key", cat(ctOther[:k], ct[k:]), ad, func() string { return "the other key's nonce with own body" })
		}
	}
	// associated data
	for bit := 0; bit < 8*len(ad); bit++ {
		m := bytes.Clone(ad)
		m[bit/8] ^= 1 << (bit % 8)
		p.rej("accept-ad", ct, m, func() string { return fmt.Sprintf("valid ciphertext with AD bit %d flipped", bit) })
	}
	for cut := 0; cut < len(ad); cut++ {
		p.rej("accept-ad", ct, ad[:cut], func() string { return fmt.Sprintf("valid ciphertext with AD truncated to %d bytes", cut) })
		p.rej("accept-ad", ct, ad[cut+1:], func() string { return fmt.Sprintf("valid ciphertext with the first %d AD bytes removed", cut+1) })
	}
	for ext := 1; ext <= 3; ext++ {
		for _, b := range []byte{0, 0x80, 0xff} {
			p.rej("accept-ad", ct, cat(ad, bytes.Repeat([]byte{b}, ext)), func() string { return fmt.Sprintf("valid ciphertext with AD extended by %d bytes %02x", ext, b) })
		}
	}
	if len(ad) > 0 {
		p.rej("accept-ad", ct, nil, func() string { return "valid ciphertext with nil AD instead of the non-empty AD" })
		p.rej("accept-ad", ct, []byte{}, func() string { return "valid ciphertext with empty AD instead of the non-empty AD" })
		p.rej("accept-ad", ct, cat(ad, ad), func() string { return "valid ciphertext with AD||AD" })
	}
	// AD <-> ciphertext boundary shifts (the encrypt-then-MAC input is ad||iv||ct||bitlen(ad))
	for k := 1; k <= 17 && P+k <= len(ct); k++ {
		p.rej("accept-ad-shift", cat(prefix, ct[P+k:]), cat(ad, ct[P:P+k]), func() string { return fmt.Sprintf("%d leading ciphertext bytes moved to the end of the AD", k) })
	}
	for k := 1; k <= len(ad); k++ {
		p.rej("accept-ad-shift", cat(prefix, ad[len(ad)-k:], ct[P:]), ad[:len(ad)-k], func() string { return fmt.Sprintf("%d trailing AD bytes moved in front of the ciphertext", k) })
	}
	if c.Kind == cfgs.ENVELOPE && len(ct) >= P+4 {
		L := binary.BigEndian.Uint32(ct[P : P+4])
		rest := uint32(len(ct) - P - 4)
		for _, v := range []uint32{0, 1, L - 1, L + 1, L + 12, 4095, 4096, 4097, rest - 1, rest, rest + 1, 1 << 31, 1<<31 - 1, 1<<32 - 1, L << 8, L << 16, L << 24} {
			m := bytes.Clone(ct)
			binary.BigEndian.PutUint32(m[P:], v)
			p.rej("accept-envelope-len", m, ad, func() string { return fmt.Sprintf("envelope with DEK length field %d instead of %d (%d bytes follow)", v, L, rest) })
			// the same with the data cut right after the claimed DEK, and one byte earlier
			if uint64(v) <= uint64(rest) {
				p.rej("accept-envelope-len", m[:P+4+int(v)], ad, func() string { return fmt.Sprintf("envelope with DEK length field %d and no payload", v) })
			}
		}
		// little-endian length (framing is big endian)
		m := bytes.Clone(ct)
		binary.LittleEndian.PutUint32(m[P:], L)
		p.rej("accept-envelope-len", m, ad, func() string { return "envelope with little-endian DEK length" })
	}
}

// arbitrary probes strings that were never produced by Encrypt.
// inPlace: the caller's receive buffer first holds the genuine ciphertext (accepted) and then — the SAME slices,
// rewritten in place — a forgery. A primitive that remembers something about the last accepted ciphertext keyed on the
// caller's slice (instead of a copy) answers the forgery from the genuine one.
func inPlace(p *prober, ct, ad []byte) {
	buf, adBuf := bytes.Clone(ct), bytes.Clone(ad)
	step := 1
	if len(buf) > 96 {
		step = len(buf) / 48
	}
	for pos := 0; pos < len(buf); pos += step {
		if _, err := p.a.Decrypt(buf, adBuf); err != nil {
			p.fails++
			p.x.Fail("baseline", "%s: the unmodified ciphertext does not decrypt from a reused buffer: %v", p.cfg, err)
			return
		}
		buf[pos] ^= 0x01
		pos := pos
		p.rej("accept-inplace-forgery", buf, adBuf, func() string {
			return fmt.Sprintf("the receive buffer of the ciphertext accepted just before, byte %d flipped in place", pos)
		})
		buf[pos] ^= 0x01
	}
	for pos := 0; pos < len(adBuf); pos++ {
		if _, err := p.a.Decrypt(buf, adBuf); err != nil {
			return
		}
		adBuf[pos] ^= 0x01
		pos := pos
		p.rej("accept-inplace-forgery", buf, adBuf, func() string {
			return fmt.Sprintf("the AD buffer of the call accepted just before, byte %d flipped in place", pos)
		})
		adBuf[pos] ^= 0x01
	}
}

func arbitrary(p *prober, c *cfgs.Cfg, allShort bool) {
	prefix := c.Prefix()
	maxLen := c.MinLen() + 2
	if c.Kind == cfgs.ENVELOPE {
		maxLen = len(prefix) + 4 + 40 // framing head and a little more; the full valid length is covered by mutate()
	}
	for _, ad := range [][]byte{nil, {1, 2, 3, 4, 5}} {
		p.rej("accept-arbitrary", nil, ad, func() string { return "nil ciphertext" })
		for n := 0; n <= maxLen; n++ {
			for pat := 0; pat < 4; pat++ {
				s := ref.Pattern(pat, n)
				p.rej("accept-arbitrary", s, ad, func() string { return fmt.Sprintf("arbitrary string, pattern %d length %d", pat, n) })
				if len(prefix) > 0 && n+len(prefix) <= maxLen {
					p.rej("accept-arbitrary", cat(prefix, s), ad, func() string { return fmt.Sprintf("own prefix || pattern %d of length %d", pat, n) })
				}
			}
		}
	}
	if !allShort {
		return
	}
	var buf [2]byte
	for n := 0; n <= 2; n++ {
		total := 1 << (8 * n)
		for v := 0; v < total; v++ {
			buf[0], buf[1] = byte(v), byte(v>>8)
			s := bytes.Clone(buf[:n])
			p.rej("accept-arbitrary", s, nil, func() string { return fmt.Sprintf("byte string %x", s) })
			if len(prefix) > 0 {
				p.rej("accept-arbitrary", cat(prefix, s), nil, func() string { return fmt.Sprintf("own prefix || %x", s) })
			}
		}
	}
}

var assumeOnce sync.Once

func kindSection(kind cfgs.Kind) func(x *h.X) {
	return func(x *h.X) {
		assumeOnce.Do(func() {
			h.Assume("authentication strength of Go stdlib GCM / HMAC and x/crypto Poly1305 (a forgery against the trusted primitives is out of scope; every rejected input differs from every valid pair)")
		})
		c, ok := cfgs.Choose(x, kind, cfgs.Opts{AllVariants: true, OneID: !x.Thorough()})
		if !ok {
			return
		}
		cfg := c.String()
		a, err := c.Build()
		if err != nil {
			x.Fail("construct", "%s: %v", cfg, err)
			return
		}
		o, err := c.Other().Build()
		if err != nil {
			x.Fail("construct", "%s (other key): %v", cfg, err)
			return
		}
		x.NonTrivial()
		x.Outcome(fmt.Sprintf("%v/%v/%s", kind, c.Variant, c.Path))
		lens := []int{0, 1, 15, 16, 17, 64}
		if x.Thorough() {
			lens = []int{0, 1, 15, 16, 17, 31, 32, 33, 64, 65}
			if c.Kind != cfgs.CTRHMAC || c.Hash == "SHA256" {
				lens = append(lens, 255, 256)
			}
		}
		if c.ID != tk.IDs[0] {
			lens = []int{0, 17} // only the prefix differs from the default-id configuration
		}
		for _, n := range lens {
			for _, ad := range [][]byte{{}, {0xa1, 0xa2, 0xa3, 0xa4, 0xa5}} {
				pt := ref.Pattern(3, n)
				var ct, ctO []byte
				var e1, e2 error
				if panicked, msg := h.Try(func() { ct, e1 = a.Encrypt(pt, ad); ctO, e2 = o.Encrypt(pt, ad) }); panicked {
					x.Fail("panic-encrypt", "%s: Encrypt(len %d, AD %x) panicked: %s", cfg, n, ad, msg)
					return
				}
				if e1 != nil || e2 != nil {
					x.Fail("encrypt-error", "%s: Encrypt(len %d): %v / %v", cfg, n, e1, e2)
					return
				}
				// the unmodified pair must decrypt, otherwise the rejections below are vacuous
				got, err := a.Decrypt(ct, ad)
				if err != nil || !bytes.Equal(got, pt) {
					x.Fail("baseline", "%s: the unmodified ciphertext (plaintext len %d) does not decrypt: %v", cfg, n, err)
					return
				}
				x.Eval(1)
				p := &prober{x: x, a: a, cfg: cfg, ct: ct, ad: ad}
				mutate(p, c, ct, ad, ctO)
				if p.fails > 0 {
					return
				}
				inPlace(p, ct, ad)
				if p.fails > 0 {
					return
				}
			}
		}
		// all byte strings of length 0..2: every kind/variant/path, and for AES-CTR-HMAC one hash and the extreme IV / MAC-key sizes
		allShort := c.Kind != cfgs.CTRHMAC || (c.Hash == "SHA256" && c.MACKeySize == 16 && (c.IVSize == 12 || c.IVSize == 16))
		p := &prober{x: x, a: a, cfg: cfg}
		arbitrary(p, c, allShort)
		if p.fails > 0 {
			return
		}
		// Encrypt must not panic for any (length, AD) of the C01 domain
		maxLen := 48
		if x.Thorough() {
			maxLen = 80
		}
		encLens := append([]int{255, 256, 257, 1023, 1024, 1025, 4095, 4096, 4097, 65535, 65536, 65537}, make([]int, 0)...)
		for n := 0; n <= maxLen; n++ {
			encLens = append(encLens, n)
		}
		for _, n := range encLens {
			for _, ad := range [][]byte{nil, {}, {1, 2, 3, 4, 5}} {
				if n > 5000 && ad != nil {
					continue
				}
				var pt []byte
				if n > 0 || ad != nil { // (nil plaintext, nil AD) once
					pt = ref.Pattern(2, n)
				}
				x.Eval(1)
				var e error
				if panicked, msg := h.Try(func() { _, e = a.Encrypt(pt, ad) }); panicked {
					x.Fail("panic-encrypt", "%s: Encrypt(len %d, AD %v) panicked: %s", cfg, n, ad, msg)
					return
				} else if e != nil {
					x.Fail("encrypt-error", "%s: Encrypt(len %d, AD %v): %v", cfg, n, ad, e)
					return
				}
			}
		}
	}
}

func main() {
	names := map[cfgs.Kind]string{cfgs.GCM: "aes-gcm", cfgs.CTRHMAC: "aes-ctr-hmac", cfgs.GCMSIV: "aes-gcm-siv", cfgs.CHACHA: "chacha20-poly1305",
		cfgs.XCHACHA: "xchacha20-poly1305", cfgs.XAES: "xaes-256-gcm", cfgs.ENVELOPE: "kms-envelope"}
	var secs []h.Section
	for _, k := range cfgs.Kinds {
		secs = append(secs, h.Section{Name: names[k], Body: kindSection(k), Bound: -1})
	}
	secs = append(secs, h.Section{Name: "kms-envelope-kek-answers", Body: kekAnswers, Bound: -1}) // kekanswers.go
	h.Main("C02", "exploration",
		"product of (AEAD key type x sizes x hash x ALL variants x construction path; envelope: DEK template x KEK x path) x base plaintext lengths {0,1,15,16,17,64} (thorough: 12 lengths up to 256) x AD {empty, 5 bytes} x full mutation catalogue (every bit flip, every byte inversion, every tail and head cut, extensions 1..17 x {00,FF}, 11 foreign prefixes, prefix removed/duplicated, other key's ciphertext and nonce/body splices, every AD bit flip / cut / extension / nil, AD<->ciphertext boundary shifts, 17 envelope DEK-length values) plus arbitrary strings (all byte strings of length 0..2 bare and behind the own prefix, 4 patterns of every length 0..prefix+IV+tag+2 bare and behind the own prefix, nil) => error AND empty plaintext, no panic; Encrypt panic-free over the C01 length/AD domain. Non-trivial: a primitive was built, its valid ciphertexts decrypted (baseline) and the catalogue applied; distinct = distinct choice vectors. Section kms-envelope-kek-answers: (19 KEK answer modes: the real KEK with forged encrypted-DEK fields | 18 odd collaborator answers) x DEK template x KEK keyset x variant x path x (plaintext, AD) x encrypted-DEK contents x payloads, judged by the reference of the whole envelope (plaintext only if the KEK's answer keys the configured algorithm and the payload authenticates under it); non-trivial: an envelope primitive was built and the catalogue applied.",
		secs)
}
