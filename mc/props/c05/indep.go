package main

// Independent validity oracle: is `out` a valid output for the fixed message under the MATERIAL and
// FRAMING of key k? Decided without tink code (verif/ref written from the RFCs, Go stdlib) for the key
// types that have such an oracle; it anchors tink's single-key primitives (which decide validity for
// the remaining probes) and the adapters of the legacy routes to something outside tink.

import (
	"bytes"
	"crypto/ecdh"
	"crypto/ecdsa"
	stded25519 "crypto/ed25519"
	"crypto/elliptic"
	"crypto/sha256"
	"encoding/base64"
	"math/big"
	"strings"

	"verif/ref"
)

func legacyData(k ref.SelKey, m []byte) []byte {
	if k.Variant == ref.Legacy {
		return append(bytes.Clone(m), 0)
	}
	return m
}

func p256Public(typ string, mat int) *ecdsa.PublicKey {
	sk, err := ecdh.P256().NewPrivateKey(scalar(typ, mat, 32))
	if err != nil {
		return nil
	}
	pk, err := ecdsa.ParseUncompressedPublicKey(elliptic.P256(), sk.PublicKey().Bytes())
	if err != nil {
		return nil
	}
	return pk
}

// independentlyValid: ok = out is valid under k; known = an independent oracle exists for k's type.
func independentlyValid(k ref.SelKey, out, m []byte) (ok, known bool) {
	msg := orMsg(m)
	pre := ref.SelPrefix(k)
	if k.KidMode != ref.SelKidNone {
		pre = nil
	}
	if !bytes.HasPrefix(out, pre) {
		switch k.Type {
		case "aesgcm", "hmac", "aescmac", "legacy-mac", "aessiv", "legacy-daead", "ed25519", "legacy-sig", "ecdsa-p256":
			return false, true
		}
		return false, false
	}
	body := out[len(pre):]
	switch k.Type {
	case "aesgcm":
		if len(body) < 12 {
			return false, true
		}
		pt, ok := ref.AeadGCMOpen(material(k.Type, k.Mat, 16), body[:12], body[12:], aad)
		return ok && bytes.Equal(pt, msg), true
	case "hmac":
		return bytes.Equal(body, ref.HMAC("SHA256", material(k.Type, k.Mat, 32), legacyData(k, msg))[:16]), true
	case "aescmac":
		return bytes.Equal(body, ref.CMAC(material(k.Type, k.Mat, 32), legacyData(k, msg))[:16]), true
	case "legacy-mac":
		return bytes.Equal(body, ref.HMAC("SHA512", material(k.Type, k.Mat, 32), legacyData(k, msg))[:20]), true
	case "aessiv", "legacy-daead":
		return bytes.Equal(body, ref.SIVEncrypt(material(k.Type, k.Mat, 64), msg, aad)), true
	case "ed25519", "legacy-sig":
		pub := stded25519.NewKeyFromSeed(material(k.Type, k.Mat, 32)).Public().(stded25519.PublicKey)
		return stded25519.Verify(pub, legacyData(k, msg), body), true
	case "ecdsa-p256":
		pk := p256Public(k.Type, k.Mat)
		if pk == nil {
			return false, false
		}
		d := sha256.Sum256(legacyData(k, msg))
		if len(body) != 64 {
			return false, true
		}
		return ecdsa.Verify(pk, d[:], new(big.Int).SetBytes(body[:32]), new(big.Int).SetBytes(body[32:])), true
	case "HS256", "HS384", "ES256":
		parts := strings.Split(string(out), ".")
		if len(parts) != 3 {
			return false, true
		}
		sig, err := base64.RawURLEncoding.DecodeString(parts[2])
		if err != nil {
			return false, true
		}
		signed := []byte(parts[0] + "." + parts[1])
		switch k.Type {
		case "HS256":
			return bytes.Equal(sig, ref.HMAC("SHA256", material(k.Type, k.Mat, 32), signed)), true
		case "HS384":
			return bytes.Equal(sig, ref.HMAC("SHA384", material(k.Type, k.Mat, 48), signed)), true
		}
		pk := p256Public(k.Type, k.Mat)
		if pk == nil || len(sig) != 64 {
			return false, pk != nil
		}
		d := sha256.Sum256(signed)
		return ecdsa.Verify(pk, d[:], new(big.Int).SetBytes(sig[:32]), new(big.Int).SetBytes(sig[32:])), true
	}
	return false, false
}

// independentPRF is the PRF value of (key type, material) on input, or nil without an oracle.
func independentPRF(k ref.SelKey, input []byte, n int) []byte {
	key := material(k.Type, k.Mat, 32)
	switch k.Type {
	case "hmacprf":
		return ref.HMAC("SHA256", key, input)[:n]
	case "hkdfprf":
		return ref.HKDF("SHA256", key, nil, input, n)
	case "aescmacprf":
		return ref.CMAC(key, input)[:n]
	}
	return nil
}
