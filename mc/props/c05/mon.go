package main

// One process-global monitoring client (tink allows exactly one). Section bodies run concurrently, so
// every keyset under monitoring carries a unique annotation value and the client's loggers record
// into the recorder registered under that value.

import (
	"fmt"
	"sync"
	"sync/atomic"

	"github.com/tink-crypto/tink-go/v2/monitoring"
	"github.com/tink-crypto/tink-go/v2/verifbridge/vb"
)

const annKey = "c05-recorder"

type event struct {
	prim, api string
	keyID     uint32
	n         int
	failure   bool
	export    bool
}

func (e event) String() string {
	switch {
	case e.failure:
		return fmt.Sprintf("%s/%s:LogFailure", e.prim, e.api)
	case e.export:
		return fmt.Sprintf("%s/%s:LogKeyExport(%#x)", e.prim, e.api, e.keyID)
	}
	return fmt.Sprintf("%s/%s:Log(%#x,%d)", e.prim, e.api, e.keyID, e.n)
}

type recorder struct {
	id     string
	mu     sync.Mutex
	events []event
}

func (r *recorder) add(e event) { r.mu.Lock(); r.events = append(r.events, e); r.mu.Unlock() }

// take returns the usage events (Log / LogFailure) recorded since the last call.
func (r *recorder) take() []event {
	r.mu.Lock()
	defer r.mu.Unlock()
	var out []event
	for _, e := range r.events {
		if !e.export {
			out = append(out, e)
		}
	}
	r.events = r.events[:0]
	return out
}

var (
	recorders sync.Map
	recSeq    atomic.Int64
	orphans   atomic.Int64 // loggers requested for an unknown annotation value (never expected)
)

func newRecorder() *recorder {
	r := &recorder{id: fmt.Sprintf("rec-%d", recSeq.Add(1))}
	recorders.Store(r.id, r)
	return r
}

func (r *recorder) annotations() map[string]string { return map[string]string{annKey: r.id} }
func (r *recorder) close()                         { recorders.Delete(r.id) }

type recLogger struct {
	rec       *recorder
	prim, api string
}

func (l *recLogger) Log(keyID uint32, n int) {
	l.rec.add(event{prim: l.prim, api: l.api, keyID: keyID, n: n})
}
func (l *recLogger) LogFailure() { l.rec.add(event{prim: l.prim, api: l.api, failure: true}) }
func (l *recLogger) LogKeyExport(keyID uint32) {
	l.rec.add(event{prim: l.prim, api: l.api, keyID: keyID, export: true})
}

type recClient struct{}

func (recClient) NewLogger(ctx *monitoring.Context) (monitoring.Logger, error) {
	var rec *recorder
	if ctx != nil && ctx.KeysetInfo != nil {
		if v, ok := recorders.Load(ctx.KeysetInfo.Annotations[annKey]); ok {
			rec = v.(*recorder)
		}
	}
	if rec == nil {
		orphans.Add(1)
		rec = &recorder{id: "orphan"}
	}
	return &recLogger{rec: rec, prim: ctx.Primitive, api: ctx.APIFunction}, nil
}

func registerMonitoring() {
	if err := vb.RegisterMonitoringClient(recClient{}); err != nil {
		panic(err)
	}
}
