package main

// Section monitoring-faults: the monitoring client is a COLLABORATOR whose NewLogger may fail (engine E4,
// deviation-bounded: the healthy client is the default, "the k-th NewLogger call fails" costs one deviation).
//
// For every factory of a monitored class (aead.New, daead.New, mac.New, signature.NewSigner / NewVerifier,
// hybrid.NewHybridEncrypt / NewHybridDecrypt, prf.NewPRFSet, jwt.NewMAC / NewSigner / NewVerifier; streaming AEAD
// asks for no loggers and is not in the domain) x keysets {[A*], [A*,B], [A,B*]} (A = the first, B = the last
// shape of the class, both ENABLED) on an ANNOTATED handle x FailAt in {-1 (healthy), 0, 1, 2, 3}:
//
//	the factory EITHER returns an error OR returns a primitive on which every operation behaves as the property
//	says (it is what the healthy run does): producing succeeds, carries the primary's framing and is valid under
//	the primary (single-key primitive + independent oracle); own output and the outputs of every enabled entry
//	are accepted; a corrupted output and an output of foreign material are rejected; no operation panics.
//	Every success event that IS logged names an entry the selection model allows. When the fault was not reached
//	(healthy client, or FailAt >= number of loggers the factory asks for) the full monitoring oracle of the
//	keysets sections applies: exactly one Log naming the key that did the work / exactly one LogFailure.
//
// Don't-care cells: whether a factory reports a NewLogger error or tolerates it (a primitive without usable
// logger that still works is fine; then the NUMBER of events is not judged); error texts; numBytes; context names.
//
// The client is process-global: the section is Serial, swaps the client in through the same bridge
// (vb.ClearMonitoringClient / vb.RegisterMonitoringClient) and puts the recording client of mon.go back on exit.

import (
	"bytes"
	"fmt"
	"strings"

	"github.com/tink-crypto/tink-go/v2/aead"
	"github.com/tink-crypto/tink-go/v2/daead"
	"github.com/tink-crypto/tink-go/v2/hybrid"
	"github.com/tink-crypto/tink-go/v2/jwt"
	"github.com/tink-crypto/tink-go/v2/keyset"
	"github.com/tink-crypto/tink-go/v2/mac"
	"github.com/tink-crypto/tink-go/v2/prf"
	"github.com/tink-crypto/tink-go/v2/signature"
	"github.com/tink-crypto/tink-go/v2/verifbridge/vb"
	"verif/env"
	"verif/h"
	"verif/ref"
)

// mfOps is what ONE factory call returned: the operations of that single primitive object.
type mfOps struct {
	produce produceFn
	accept  acceptFn
	set     *prf.Set
}

type mfFactory struct {
	name  string
	class string
	pub   bool // built from the public keyset
	build func(h *keyset.Handle) (mfOps, error)
}

func (f mfFactory) String() string { return f.name }

var mfFactories = []mfFactory{
	{name: "aead.New", class: "aead", build: func(h *keyset.Handle) (mfOps, error) {
		a, err := aead.New(h)
		if err != nil {
			return mfOps{}, err
		}
		return mfOps{produce: func(m []byte) ([]byte, error) { return a.Encrypt(orMsg(m), aad) },
			accept: bytesAccept(func(out []byte) ([]byte, error) { return a.Decrypt(out, aad) })}, nil
	}},
	{name: "daead.New", class: "daead", build: func(h *keyset.Handle) (mfOps, error) {
		a, err := daead.New(h)
		if err != nil {
			return mfOps{}, err
		}
		return mfOps{produce: func(m []byte) ([]byte, error) { return a.EncryptDeterministically(orMsg(m), aad) },
			accept: bytesAccept(func(out []byte) ([]byte, error) { return a.DecryptDeterministically(out, aad) })}, nil
	}},
	{name: "mac.New", class: "mac", build: func(h *keyset.Handle) (mfOps, error) {
		m, err := mac.New(h)
		if err != nil {
			return mfOps{}, err
		}
		return mfOps{produce: func(d []byte) ([]byte, error) { return m.ComputeMAC(orMsg(d)) },
			accept: errAccept(func(out, d []byte) error { return m.VerifyMAC(out, d) })}, nil
	}},
	{name: "signature.NewSigner", class: "signature", build: func(h *keyset.Handle) (mfOps, error) {
		s, err := signature.NewSigner(h)
		if err != nil {
			return mfOps{}, err
		}
		return mfOps{produce: func(m []byte) ([]byte, error) { return s.Sign(orMsg(m)) }}, nil
	}},
	{name: "signature.NewVerifier", class: "signature", pub: true, build: func(h *keyset.Handle) (mfOps, error) {
		v, err := signature.NewVerifier(h)
		if err != nil {
			return mfOps{}, err
		}
		return mfOps{accept: errAccept(func(out, d []byte) error { return v.Verify(out, d) })}, nil
	}},
	{name: "hybrid.NewHybridEncrypt", class: "hybrid", pub: true, build: func(h *keyset.Handle) (mfOps, error) {
		e, err := hybrid.NewHybridEncrypt(h)
		if err != nil {
			return mfOps{}, err
		}
		return mfOps{produce: func(m []byte) ([]byte, error) { return e.Encrypt(orMsg(m), aad) }}, nil
	}},
	{name: "hybrid.NewHybridDecrypt", class: "hybrid", build: func(h *keyset.Handle) (mfOps, error) {
		d, err := hybrid.NewHybridDecrypt(h)
		if err != nil {
			return mfOps{}, err
		}
		return mfOps{accept: bytesAccept(func(out []byte) ([]byte, error) { return d.Decrypt(out, aad) })}, nil
	}},
	{name: "prf.NewPRFSet", class: "prf", build: func(h *keyset.Handle) (mfOps, error) {
		s, err := prf.NewPRFSet(h)
		if err != nil {
			return mfOps{}, err
		}
		return mfOps{set: s}, nil
	}},
	{name: "jwt.NewMAC", class: "jwtmac", build: func(h *keyset.Handle) (mfOps, error) {
		m, err := jwt.NewMAC(h)
		if err != nil {
			return mfOps{}, err
		}
		return mfOps{produce: func([]byte) ([]byte, error) { t, err := m.ComputeMACAndEncode(jwtRaw); return []byte(t), err },
			accept: errAccept(func(out, _ []byte) error { _, err := m.VerifyMACAndDecode(string(out), jwtValidator); return err })}, nil
	}},
	{name: "jwt.NewSigner", class: "jwtsig", build: func(h *keyset.Handle) (mfOps, error) {
		s, err := jwt.NewSigner(h)
		if err != nil {
			return mfOps{}, err
		}
		return mfOps{produce: func([]byte) ([]byte, error) { t, err := s.SignAndEncode(jwtRaw); return []byte(t), err }}, nil
	}},
	{name: "jwt.NewVerifier", class: "jwtsig", pub: true, build: func(h *keyset.Handle) (mfOps, error) {
		v, err := jwt.NewVerifier(h)
		if err != nil {
			return mfOps{}, err
		}
		return mfOps{accept: errAccept(func(out, _ []byte) error { _, err := v.VerifyAndDecode(string(out), jwtValidator); return err })}, nil
	}},
}

func classByName(n string) *class {
	for _, c := range classes {
		if c.name == n {
			return c
		}
	}
	return nil
}

// mfCorrupt returns a copy of an output that no key accepts: the last byte of a binary output (tag / signature
// tail) with its lowest bit flipped; the first signature character of a compact JWT replaced.
func mfCorrupt(c *class, out []byte) []byte {
	o := bytes.Clone(out)
	if c.rule == ref.SelKidRule {
		if i := bytes.LastIndexByte(o, '.'); i >= 0 && i+1 < len(o) {
			if o[i+1] == 'A' {
				o[i+1] = 'B'
			} else {
				o[i+1] = 'A'
			}
		}
		return o
	}
	if len(o) > 0 {
		o[len(o)-1] ^= 1
	}
	return o
}

// mfEvents splits the usage events logged since position *pos into successes (key ids) and failures.
func mfEvents(m *env.FlakyMonitor, pos *int) (ok []uint32, failures int, raw []string) {
	for _, e := range m.Events[*pos:] {
		parts := strings.Split(e, ":")
		switch {
		case len(parts) >= 2 && parts[1] == "failure":
			failures++
		case len(parts) >= 3 && parts[1] == "ok":
			var id uint32
			fmt.Sscanf(parts[2], "0x%x", &id)
			ok = append(ok, id)
		default:
			continue // key export events are not judged
		}
		raw = append(raw, e)
	}
	*pos = len(m.Events)
	return
}

func hasID(ids []uint32, id uint32) bool {
	for _, i := range ids {
		if i == id {
			return true
		}
	}
	return false
}

func monitoringFaultsSection(x *h.X) {
	f := h.Pick(x, "factory", mfFactories)
	layout := h.Pick(x, "keyset", []string{"[A*]", "[A*,B]", "[A,B*]"})
	failAt := h.PickDev(x, "NewLogger-call-that-fails", []int{-1, 0, 1, 2, 3})
	c := classByName(f.class)
	if c == nil || !c.monitored {
		x.Fail("harness", "monitoring-faults: class %q is not a monitored class", f.class)
		return
	}
	A := ref.SelEntry{SelKey: c.shapes[0].key(0x11, 0), Status: ref.SelEnabled}
	B := ref.SelEntry{SelKey: c.shapes[len(c.shapes)-1].key(0x22, 1), Status: ref.SelEnabled}
	var es []ref.SelEntry
	switch layout {
	case "[A*]":
		A.Primary = true
		es = []ref.SelEntry{A}
	case "[A*,B]":
		A.Primary = true
		es = []ref.SelEntry{A, B}
	default:
		B.Primary = true
		es = []ref.SelEntry{A, B}
	}
	desc := fmt.Sprintf("%s on the annotated keyset %s, monitoring client whose NewLogger call #%d fails", f.name, keysetDesc(es), failAt)
	if failAt < 0 {
		desc = fmt.Sprintf("%s on the annotated keyset %s, healthy monitoring client", f.name, keysetDesc(es))
	}
	prim, _ := ref.SelPrimary(es)

	// inputs made OUTSIDE the faulty environment (un-annotated one-key keysets: no logger is ever requested)
	type input struct {
		maker ref.SelKey
		data  []byte
		note  string
	}
	var inputs []input
	if !c.isPRF {
		for _, e := range es {
			b, err := c.probe(e.SelKey)
			if err != nil {
				x.Fail("harness", "monitoring-faults: single-key output of %s: %v", keyDesc(e.SelKey), err)
				return
			}
			inputs = append(inputs, input{norm(e.SelKey), b, "an output of the entry " + keyDesc(e.SelKey)})
			if e.Primary {
				inputs = append(inputs, input{ref.SelKey{Type: "<corrupted>"}, mfCorrupt(c, b), "a CORRUPTED output of the primary"})
			}
		}
		fk := shapeOf(prim.SelKey).key(prim.ID, foreignMat)
		b, err := c.probe(fk)
		if err != nil {
			x.Fail("harness", "monitoring-faults: single-key output of %s: %v", keyDesc(fk), err)
			return
		}
		inputs = append(inputs, input{norm(fk), b, "an output of foreign material under the primary's framing"})
	}

	hp, hpub, err := c.handles(es, map[string]string{"c05-monitoring-faults": f.name})
	if err != nil {
		x.Fail("construct", "monitoring-faults: cannot build the handle of %s: %v", keysetDesc(es), err)
		return
	}
	kh := hp
	if f.pub {
		kh = hpub
	}

	mon := &env.FlakyMonitor{FailAt: failAt}
	vb.ClearMonitoringClient()
	defer func() {
		vb.ClearMonitoringClient()
		registerMonitoring()
	}()
	if err := vb.RegisterMonitoringClient(mon); err != nil {
		x.Fail("harness", "monitoring-faults: cannot register the monitoring client: %v", err)
		return
	}

	var ops mfOps
	var ferr error
	if p, m := h.Try(func() { ops, ferr = f.build(kh) }); p {
		x.Fail("monfault-factory-panic", "%s: the factory PANICS: %s", desc, m)
		return
	}
	x.NonTrivial()
	x.Eval(1)
	reached := failAt >= 0 && mon.Calls > failAt
	if failAt < 0 {
		x.Outcome(fmt.Sprintf("%s asks for %d logger(s)", f.name, mon.Calls))
		if mon.Calls == 0 {
			x.Fail("monfault-no-logger", "%s: the factory asked the registered monitoring client for no logger", desc)
		}
	}
	if ferr != nil {
		if !reached {
			x.Fail("construct", "%s: the factory fails although no NewLogger call failed (%d calls): %v", desc, mon.Calls, ferr)
			return
		}
		x.Outcome(fmt.Sprintf("factory reports the NewLogger error (call #%d)", failAt))
		return
	}
	switch {
	case reached:
		x.Outcome(fmt.Sprintf("factory tolerates the NewLogger error (call #%d): operations judged", failAt))
	case failAt >= 0:
		x.Outcome(fmt.Sprintf("fault not reached (call #%d never made): as healthy", failAt))
	default:
		x.Outcome("healthy client: operations + full monitoring oracle")
	}
	full := !reached // the exact number of events is judged only when every logger was created
	pos := 0
	mfEvents(mon, &pos)

	// judgeEvents: success events name an allowed entry; with all loggers alive exactly one event of the right kind
	judgeEvents := func(what string, success bool, allowed []uint32) {
		ok, failures, raw := mfEvents(mon, &pos)
		for _, id := range ok {
			if !success || !hasID(allowed, id) {
				x.Fail("monfault-monitor", "%s: %s logged a success naming key %#x (events %v); the key(s) that did the work: %x", desc, what, id, raw, allowed)
			}
		}
		if full {
			if success && (len(ok) != 1 || failures != 0) {
				x.Fail("monfault-monitor", "%s: %s logged %v, want exactly one Log naming one of %x", desc, what, raw, allowed)
			}
			if !success && (len(ok) != 0 || failures != 1) {
				x.Fail("monfault-monitor", "%s: %s logged %v, want exactly one LogFailure", desc, what, raw)
			}
		}
	}

	if ops.set != nil {
		set := ops.set
		wantPrimary, wantIDs := ref.SelPRFSet(es)
		if set.PrimaryID != wantPrimary || len(set.PRFs) != len(wantIDs) {
			x.Fail("monfault-wrong-result", "%s: PRF set has primary %#x and %d PRFs, want %#x and the ids %x", desc, set.PrimaryID, len(set.PRFs), wantPrimary, wantIDs)
		}
		for _, e := range es {
			p, ok := set.PRFs[e.ID]
			if !ok {
				x.Fail("monfault-wrong-result", "%s: PRF set lacks the enabled entry %#x", desc, e.ID)
				continue
			}
			want := independentPRF(e.SelKey, prfInput, 16)
			if w, err := c.singlePRF(e.SelKey); err == nil {
				if want != nil && !bytes.Equal(w, want) {
					x.Fail("single-key-output", "prf: single-key PRF of %s = %x, the reference gives %x", keyDesc(e.SelKey), w, want)
				}
				want = w
			}
			var o []byte
			var err error
			if pn, m := h.Try(func() { o, err = p.ComputePRF(prfInput, 16) }); pn {
				x.Fail("monfault-panic", "%s: PRFs[%#x].ComputePRF PANICS: %s", desc, e.ID, m)
				continue
			}
			x.Eval(1)
			if err != nil || !bytes.Equal(o, want) {
				x.Fail("monfault-wrong-result", "%s: PRFs[%#x].ComputePRF = %x (%v), want %x", desc, e.ID, o, err, want)
			}
			judgeEvents(fmt.Sprintf("PRFs[%#x].ComputePRF", e.ID), true, []uint32{e.ID})
			if e.Primary {
				if pn, m := h.Try(func() { o, err = set.ComputePrimaryPRF(prfInput, 16) }); pn {
					x.Fail("monfault-panic", "%s: ComputePrimaryPRF PANICS: %s", desc, m)
					continue
				}
				x.Eval(1)
				if err != nil || !bytes.Equal(o, want) {
					x.Fail("monfault-wrong-result", "%s: ComputePrimaryPRF = %x (%v), want the primary's %x", desc, o, err, want)
				}
				judgeEvents("ComputePrimaryPRF", true, []uint32{e.ID})
			}
		}
		return
	}

	if ops.produce != nil {
		var out []byte
		var err error
		if pn, m := h.Try(func() { out, err = ops.produce(nil) }); pn {
			x.Fail("monfault-panic", "%s: the factory returned a primitive whose producing operation PANICS: %s", desc, m)
		} else {
			x.Eval(1)
			if err != nil {
				x.Fail("monfault-wrong-result", "%s: producing fails: %v", desc, err)
			} else {
				if ok, why := c.framingOK(out, prim.SelKey); !ok {
					x.Fail("monfault-wrong-result", "%s: output framing: %s", desc, why)
				}
				if ok, known := independentlyValid(prim.SelKey, out, nil); known && !ok {
					x.Fail("monfault-wrong-result", "%s: the output %x is not valid under the primary's material and framing (independent oracle)", desc, out)
				}
				if sa, err := c.single(prim.SelKey); err != nil {
					x.Fail("harness", "monitoring-faults: single-key primitive of %s: %v", keyDesc(prim.SelKey), err)
				} else if got, _ := sa(out, nil); !got {
					x.Fail("monfault-wrong-result", "%s: the output is rejected by the single-key primitive of the primary", desc)
				}
				inputs = append(inputs, input{norm(prim.SelKey), out, "the primitive's OWN output"},
					input{ref.SelKey{Type: "<corrupted>"}, mfCorrupt(c, out), "the primitive's own output CORRUPTED"})
			}
			judgeEvents("producing", err == nil, []uint32{prim.ID})
		}
	}

	if ops.accept != nil {
		for _, in := range inputs {
			ids := ref.SelAcceptors(c.rule, es, in.maker)
			want := len(ids) > 0
			var got bool
			var anomaly string
			if pn, m := h.Try(func() { got, anomaly = ops.accept(in.data, nil) }); pn {
				x.Fail("monfault-panic", "%s: the factory returned a primitive whose accepting operation PANICS on %s: %s", desc, in.note, m)
				mfEvents(mon, &pos)
				continue
			}
			x.Eval(1)
			if anomaly != "" {
				x.Fail("monfault-wrong-result", "%s: %s: %s", desc, in.note, anomaly)
			}
			if got != want {
				x.Fail("monfault-wrong-result", "%s: %s is %s, the selection model says %s (matching enabled entries %x)", desc, in.note,
					map[bool]string{true: "ACCEPTED", false: "REJECTED"}[got], map[bool]string{true: "accept", false: "reject"}[want], ids)
				mfEvents(mon, &pos)
				continue
			}
			if got {
				x.Outcome("accept")
			} else {
				x.Outcome("reject")
			}
			judgeEvents("the accepting operation on "+in.note, got, ids)
		}
	}
}
