package main

import (
	"bytes"
	"fmt"

	"github.com/tink-crypto/tink-go/v2/core/cryptofmt"
	tinkpb "github.com/tink-crypto/tink-go/v2/proto/tink_go_proto"
	"verif/h"
	"verif/ref"
)

// cryptofmtSection: the public prefix helper core/cryptofmt.OutputPrefix (used by custom primitive wrappers)
// against the reference prefix table, for every prefix type (incl. unknown ones, which must be refused) and a
// key-id set that exercises every byte position.
func cryptofmtSection(x *h.X) {
	pts := []tinkpb.OutputPrefixType{tinkpb.OutputPrefixType_TINK, tinkpb.OutputPrefixType_LEGACY, tinkpb.OutputPrefixType_RAW, tinkpb.OutputPrefixType_CRUNCHY,
		tinkpb.OutputPrefixType_UNKNOWN_PREFIX, tinkpb.OutputPrefixType(99)}
	pt := h.Pick(x, "prefix-type", pts)
	want := map[tinkpb.OutputPrefixType]ref.Variant{tinkpb.OutputPrefixType_TINK: ref.Tink, tinkpb.OutputPrefixType_LEGACY: ref.Legacy, tinkpb.OutputPrefixType_RAW: ref.Raw, tinkpb.OutputPrefixType_CRUNCHY: ref.Crunchy}
	ids := []uint32{0, 1, 0xFF, 0x100, 0xFF00, 0x10000, 0xFF0000, 0x1000000, 0x01020304, 0x7FFFFFFF, 0x80000000, 0xFFFFFFFE, 0xFFFFFFFF}
	for _, id := range ids {
		got, err := cryptofmt.OutputPrefix(&tinkpb.Keyset_Key{OutputPrefixType: pt, KeyId: id})
		x.Eval(1)
		v, known := want[pt]
		if !known {
			if err == nil {
				x.Fail("cryptofmt-unknown-prefix-accepted", "cryptofmt.OutputPrefix accepts prefix type %v", pt)
			}
			continue
		}
		if err != nil || !bytes.Equal([]byte(got), ref.Prefix(v, id)) {
			x.Fail("cryptofmt-prefix", "cryptofmt.OutputPrefix(%v, id=%#x) = %x (err %v), want %x", pt, id, got, err, ref.Prefix(v, id))
		}
	}
	if cryptofmt.NonRawPrefixSize != 5 || cryptofmt.TinkPrefixSize != 5 || cryptofmt.LegacyPrefixSize != 5 || cryptofmt.RawPrefixSize != 0 {
		x.Fail("cryptofmt-sizes", "prefix size constants changed: %d %d %d %d", cryptofmt.NonRawPrefixSize, cryptofmt.TinkPrefixSize, cryptofmt.LegacyPrefixSize, cryptofmt.RawPrefixSize)
	}
	x.NonTrivial()
	x.Outcome(fmt.Sprint(pt))
}
