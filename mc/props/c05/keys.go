package main

// Deterministic keys for every (class, key type, variant, id, material index) of the C05 universe,
// built with the public key constructors; the legacy (non-full primitive) routes are served by the
// in-tree KmsEnvelopeAeadKey over testing/fakekms and by custom key managers registered for made-up
// type URLs whose Primitive() returns a raw (prefix-less) primitive.

import (
	"bytes"
	"crypto/ecdh"
	stded25519 "crypto/ed25519"
	"encoding/base64"
	"errors"
	"fmt"
	"sync"

	"google.golang.org/protobuf/proto"

	"github.com/tink-crypto/tink-go/v2/aead/aesgcm"
	"github.com/tink-crypto/tink-go/v2/aead/xchacha20poly1305"
	"github.com/tink-crypto/tink-go/v2/core/registry"
	"github.com/tink-crypto/tink-go/v2/daead/aessiv"
	daeadsubtle "github.com/tink-crypto/tink-go/v2/daead/subtle"
	"github.com/tink-crypto/tink-go/v2/hybrid/ecies"
	"github.com/tink-crypto/tink-go/v2/hybrid/hpke"
	"github.com/tink-crypto/tink-go/v2/insecuresecretdataaccess"
	"github.com/tink-crypto/tink-go/v2/jwt/jwtecdsa"
	"github.com/tink-crypto/tink-go/v2/jwt/jwthmac"
	"github.com/tink-crypto/tink-go/v2/key"
	"github.com/tink-crypto/tink-go/v2/keyset"
	"github.com/tink-crypto/tink-go/v2/mac/aescmac"
	"github.com/tink-crypto/tink-go/v2/mac/hmac"
	macsubtle "github.com/tink-crypto/tink-go/v2/mac/subtle"
	"github.com/tink-crypto/tink-go/v2/prf/aescmacprf"
	"github.com/tink-crypto/tink-go/v2/prf/hkdfprf"
	"github.com/tink-crypto/tink-go/v2/prf/hmacprf"
	kmsepb "github.com/tink-crypto/tink-go/v2/proto/kms_envelope_go_proto"
	tinkpb "github.com/tink-crypto/tink-go/v2/proto/tink_go_proto"
	"github.com/tink-crypto/tink-go/v2/secretdata"
	"github.com/tink-crypto/tink-go/v2/signature/ecdsa"
	"github.com/tink-crypto/tink-go/v2/signature/ed25519"
	sigsubtle "github.com/tink-crypto/tink-go/v2/signature/subtle"
	"github.com/tink-crypto/tink-go/v2/streamingaead/aesctrhmac"
	"github.com/tink-crypto/tink-go/v2/streamingaead/aesgcmhkdf"
	"github.com/tink-crypto/tink-go/v2/testing/fakekms"
	"github.com/tink-crypto/tink-go/v2/testkeyset"
	"github.com/tink-crypto/tink-go/v2/tink"
	"github.com/tink-crypto/tink-go/v2/verifbridge/vb"
	"verif/ref"
	"verif/tk"
)

func sb(b []byte) secretdata.Bytes {
	return secretdata.NewBytesFromData(bytes.Clone(b), insecuresecretdataaccess.Token{})
}

// material returns the key bytes of (key type, material index): distinct per type and index.
func material(typ string, mat, n int) []byte {
	return ref.KeyBytes(fmt.Sprintf("c05/%s/mat%d", typ, mat), n)
}

// idReq is the id requirement of a key object made for k (0 for keys without requirement).
func idReq(k ref.SelKey) uint32 {
	if k.Variant == ref.Raw {
		return 0
	}
	return k.ID
}

func pick[T any](v ref.Variant, t, c, l, r T) T {
	switch v {
	case ref.Tink:
		return t
	case ref.Crunchy:
		return c
	case ref.Legacy:
		return l
	}
	return r
}

func protoPrefix(v ref.Variant) tinkpb.OutputPrefixType {
	return pick(v, tinkpb.OutputPrefixType_TINK, tinkpb.OutputPrefixType_CRUNCHY, tinkpb.OutputPrefixType_LEGACY, tinkpb.OutputPrefixType_RAW)
}

// ---- custom key managers (legacy route) ---------------------------------------------------------

const customURLPrefix = "type.googleapis.com/verif.c05."

type customKM struct {
	url    string
	pubURL string // non-empty for private key managers
	prim   func(mat int) (any, error)
}

func (m *customKM) Primitive(serializedKey []byte) (any, error) {
	if len(serializedKey) != 2 || serializedKey[0] != 0xC5 {
		return nil, errors.New("c05 custom key manager: invalid key")
	}
	return m.prim(int(serializedKey[1]))
}
func (m *customKM) NewKey([]byte) (proto.Message, error) { return nil, errors.New("not supported") }
func (m *customKM) DoesSupport(u string) bool            { return u == m.url }
func (m *customKM) TypeURL() string                      { return m.url }
func (m *customKM) NewKeyData([]byte) (*tinkpb.KeyData, error) {
	return nil, errors.New("not supported")
}

func customKey(url string, kmt tinkpb.KeyData_KeyMaterialType, k ref.SelKey) (key.Key, error) {
	kd := &tinkpb.KeyData{TypeUrl: url, Value: []byte{0xC5, byte(k.Mat)}, KeyMaterialType: kmt}
	return vb.ParseKey(kd, protoPrefix(k.Variant), idReq(k))
}

const (
	urlLegacyMAC     = customURLPrefix + "LegacyMacKey"
	urlLegacyDAEAD   = customURLPrefix + "LegacyDaeadKey"
	urlLegacySigPriv = customURLPrefix + "LegacySigPrivateKey"
	urlLegacySigPub  = customURLPrefix + "LegacySigPublicKey"
	urlLegacyHybPriv = customURLPrefix + "LegacyHybridPrivateKey"
	urlLegacyHybPub  = customURLPrefix + "LegacyHybridPublicKey"
	urlKMSEnvelope   = "type.googleapis.com/google.crypto.tink.KmsEnvelopeAeadKey"
)

func legacyHPKE(mat int) (*hpke.PrivateKey, error) {
	return hpke.NewPrivateKey(sb(material("legacy-hybrid", mat, 32)), 0, hpkeParams[ref.Raw])
}

func registerCustom() {
	must := func(err error) {
		if err != nil {
			panic(err)
		}
	}
	must(registry.RegisterKeyManager(&customKM{url: urlLegacyMAC, prim: func(mat int) (any, error) {
		return macsubtle.NewHMAC("SHA512", material("legacy-mac", mat, 32), 20)
	}}))
	must(registry.RegisterKeyManager(&customKM{url: urlLegacyDAEAD, prim: func(mat int) (any, error) {
		return daeadsubtle.NewAESSIV(material("legacy-daead", mat, 64))
	}}))
	must(registry.RegisterKeyManager(&customKM{url: urlLegacySigPriv, pubURL: urlLegacySigPub, prim: func(mat int) (any, error) {
		return sigsubtle.NewED25519Signer(material("legacy-sig", mat, 32))
	}}))
	must(registry.RegisterKeyManager(&customKM{url: urlLegacySigPub, prim: func(mat int) (any, error) {
		return sigsubtle.NewED25519Verifier(legacySigPublic(mat))
	}}))
	must(registry.RegisterKeyManager(&customKM{url: urlLegacyHybPriv, pubURL: urlLegacyHybPub, prim: func(mat int) (any, error) {
		p, err := legacyHPKE(mat)
		if err != nil {
			return nil, err
		}
		return hpke.NewHybridDecrypt(p, vb.Tok())
	}}))
	must(registry.RegisterKeyManager(&customKM{url: urlLegacyHybPub, prim: func(mat int) (any, error) {
		p, err := legacyHPKE(mat)
		if err != nil {
			return nil, err
		}
		pub, _ := p.PublicKey()
		return hpke.NewHybridEncrypt(pub.(*hpke.PublicKey), vb.Tok())
	}}))
	c, err := fakekms.NewClient("fake-kms://")
	must(err)
	registry.RegisterKMSClient(c)
}

func legacySigPublic(mat int) []byte {
	return stded25519.NewKeyFromSeed(material("legacy-sig", mat, 32)).Public().(stded25519.PublicKey)
}

// scalar is material usable as a NIST-curve private scalar (top bit cleared: below the group order).
func scalar(typ string, mat, n int) []byte {
	b := material(typ, mat, n)
	b[0] &= 0x7f
	return b
}

// kekURI returns the fake-kms URI of KEK number mat (a one-key AES128-GCM keyset with fixed material).
var kekURIs sync.Map

func kekURI(mat int) (string, error) {
	if u, ok := kekURIs.Load(mat); ok {
		return u.(string), nil
	}
	k, err := aesgcm.NewKey(sb(material("kek", mat, 16)), 0x4b454b00+uint32(mat), gcmParams[ref.Tink])
	if err != nil {
		return "", err
	}
	hd, err := tk.Handle([]tk.Entry{{Key: k, ID: 0x4b454b00 + uint32(mat), Primary: true}})
	if err != nil {
		return "", err
	}
	var buf bytes.Buffer
	if err := testkeyset.Write(hd, keyset.NewBinaryWriter(&buf)); err != nil {
		return "", err
	}
	u := "fake-kms://" + base64.RawURLEncoding.EncodeToString(buf.Bytes())
	kekURIs.Store(mat, u)
	return u, nil
}

// ECDSA uses the IEEE P1363 encoding and ECIES the legacy uncompressed point format so that the FIRST byte of a
// RAW output varies (DER starts with 0x30, an uncompressed point with 0x04): the prefix-collision search of
// section collision/<class> needs RAW outputs that can start with 0x00 / 0x01.
// ---- parameters ---------------------------------------------------------------------------------

var (
	gcmParams     = map[ref.Variant]*aesgcm.Parameters{}
	xchachaParams = map[ref.Variant]*xchacha20poly1305.Parameters{}
	sivParams     = map[ref.Variant]*aessiv.Parameters{}
	hmacParams    = map[ref.Variant]*hmac.Parameters{}
	cmacParams    = map[ref.Variant]*aescmac.Parameters{}
	ed25519Params = map[ref.Variant]ed25519.Parameters{}
	ecdsaParams   = map[ref.Variant]*ecdsa.Parameters{}
	hpkeParams    = map[ref.Variant]*hpke.Parameters{}
	eciesParams   = map[ref.Variant]*ecies.Parameters{}
	gcmhkdfParams *aesgcmhkdf.Parameters
	ctrhmacParams *aesctrhmac.Parameters
	hmacprfParams *hmacprf.Parameters
	hkdfprfParams *hkdfprf.Parameters
	jwtHS         = map[string]map[int]*jwthmac.Parameters{}
	jwtES         = map[string]map[int]*jwtecdsa.Parameters{}
)

var allVariants = []ref.Variant{ref.Tink, ref.Crunchy, ref.Legacy, ref.Raw}
var noLegacy = []ref.Variant{ref.Tink, ref.Crunchy, ref.Raw}

func setupParams() {
	must := func(err error) {
		if err != nil {
			panic(err)
		}
	}
	var err error
	for _, v := range allVariants {
		if v != ref.Legacy {
			gcmParams[v], err = aesgcm.NewParameters(aesgcm.ParametersOpts{KeySizeInBytes: 16, IVSizeInBytes: 12, TagSizeInBytes: 16,
				Variant: pick(v, aesgcm.VariantTink, aesgcm.VariantCrunchy, aesgcm.VariantUnknown, aesgcm.VariantNoPrefix)})
			must(err)
			xchachaParams[v], err = xchacha20poly1305.NewParameters(pick(v, xchacha20poly1305.VariantTink, xchacha20poly1305.VariantCrunchy, xchacha20poly1305.VariantUnknown, xchacha20poly1305.VariantNoPrefix))
			must(err)
			sivParams[v], err = aessiv.NewParameters(64, pick(v, aessiv.VariantTink, aessiv.VariantCrunchy, aessiv.VariantUnknown, aessiv.VariantNoPrefix))
			must(err)
			hpkeParams[v], err = hpke.NewParameters(hpke.ParametersOpts{KEMID: hpke.DHKEM_X25519_HKDF_SHA256, KDFID: hpke.HKDFSHA256, AEADID: hpke.AES128GCM,
				Variant: pick(v, hpke.VariantTink, hpke.VariantCrunchy, hpke.VariantUnknown, hpke.VariantNoPrefix)})
			must(err)
		}
		hmacParams[v], err = hmac.NewParameters(hmac.ParametersOpts{KeySizeInBytes: 32, TagSizeInBytes: 16, HashType: hmac.SHA256,
			Variant: pick(v, hmac.VariantTink, hmac.VariantCrunchy, hmac.VariantLegacy, hmac.VariantNoPrefix)})
		must(err)
		cmacParams[v], err = aescmac.NewParameters(aescmac.ParametersOpts{KeySizeInBytes: 32, TagSizeInBytes: 16,
			Variant: pick(v, aescmac.VariantTink, aescmac.VariantCrunchy, aescmac.VariantLegacy, aescmac.VariantNoPrefix)})
		must(err)
		ed25519Params[v], err = ed25519.NewParameters(pick(v, ed25519.VariantTink, ed25519.VariantCrunchy, ed25519.VariantLegacy, ed25519.VariantNoPrefix))
		must(err)
		ecdsaParams[v], err = ecdsa.NewParameters(ecdsa.NistP256, ecdsa.SHA256, ecdsa.IEEEP1363, pick(v, ecdsa.VariantTink, ecdsa.VariantCrunchy, ecdsa.VariantLegacy, ecdsa.VariantNoPrefix))
		must(err)
	}
	for _, v := range noLegacy {
		eciesParams[v], err = ecies.NewParameters(ecies.ParametersOpts{CurveType: ecies.NISTP256, HashType: ecies.SHA256, NISTCurvePointFormat: ecies.LegacyUncompressedPointFormat,
			DEMParameters: gcmParams[ref.Raw], Variant: pick(v, ecies.VariantTink, ecies.VariantCrunchy, ecies.VariantUnknown, ecies.VariantNoPrefix)})
		must(err)
	}
	gcmhkdfParams, err = aesgcmhkdf.NewParameters(aesgcmhkdf.ParametersOpts{KeySizeInBytes: 16, DerivedKeySizeInBytes: 16, HKDFHashType: aesgcmhkdf.SHA256, SegmentSizeInBytes: 64})
	must(err)
	// derived key size 32 (header length 40) vs 16 for AES-GCM-HKDF (header length 24): in a mixed keyset a failed
	// candidate consumes a different number of header bytes than the next candidate needs
	ctrhmacParams, err = aesctrhmac.NewParameters(aesctrhmac.ParametersOpts{KeySizeInBytes: 32, DerivedKeySizeInBytes: 32, HkdfHashType: aesctrhmac.SHA256, HmacHashType: aesctrhmac.SHA256, HmacTagSizeInBytes: 16, SegmentSizeInBytes: 64})
	must(err)
	hmacprfParams, err = hmacprf.NewParameters(32, hmacprf.SHA256)
	must(err)
	hkdfprfParams, err = hkdfprf.NewParameters(32, hkdfprf.SHA256, nil)
	must(err)
	kidStrat := func(m int) (jwthmac.KIDStrategy, jwtecdsa.KIDStrategy) {
		switch m {
		case ref.SelKidTink:
			return jwthmac.Base64EncodedKeyIDAsKID, jwtecdsa.Base64EncodedKeyIDAsKID
		case ref.SelKidCustom:
			return jwthmac.CustomKID, jwtecdsa.CustomKID
		}
		return jwthmac.IgnoredKID, jwtecdsa.IgnoredKID
	}
	for _, t := range []string{"HS256", "HS384"} {
		jwtHS[t] = map[int]*jwthmac.Parameters{}
		for _, m := range []int{ref.SelKidTink, ref.SelKidCustom, ref.SelKidIgnore} {
			hs, _ := kidStrat(m)
			alg, size := jwthmac.HS256, 32
			if t == "HS384" {
				alg, size = jwthmac.HS384, 48
			}
			jwtHS[t][m], err = jwthmac.NewParameters(size, hs, alg)
			must(err)
		}
	}
	for _, t := range []string{"ES256", "ES384"} {
		jwtES[t] = map[int]*jwtecdsa.Parameters{}
		for _, m := range []int{ref.SelKidTink, ref.SelKidCustom, ref.SelKidIgnore} {
			_, es := kidStrat(m)
			alg := jwtecdsa.ES256
			if t == "ES384" {
				alg = jwtecdsa.ES384
			}
			jwtES[t][m], err = jwtecdsa.NewParameters(es, alg)
			must(err)
		}
	}
}

// ---- key builders (one per class) -----------------------------------------------------------------

type keyPair struct {
	priv, pub key.Key // pub == nil for symmetric classes
	err       error
}

func pubOf(p interface{ PublicKey() (key.Key, error) }, err error) keyPair {
	if err != nil {
		return keyPair{err: err}
	}
	pub, err := p.PublicKey()
	return keyPair{priv: p.(key.Key), pub: pub, err: err}
}

func sym(k key.Key, err error) keyPair { return keyPair{priv: k, err: err} }

func mkAEAD(k ref.SelKey) keyPair {
	switch k.Type {
	case "aesgcm":
		return sym(aesgcm.NewKey(sb(material(k.Type, k.Mat, 16)), idReq(k), gcmParams[k.Variant]))
	case "xchacha20poly1305":
		return sym(xchacha20poly1305.NewKey(sb(material(k.Type, k.Mat, 32)), idReq(k), xchachaParams[k.Variant]))
	case "kmsenvelope":
		uri, err := kekURI(k.Mat)
		if err != nil {
			return keyPair{err: err}
		}
		dek, err := vb.SerializeParameters(gcmParams[ref.Raw])
		if err != nil {
			return keyPair{err: err}
		}
		val, err := proto.Marshal(&kmsepb.KmsEnvelopeAeadKey{Version: 0, Params: &kmsepb.KmsEnvelopeAeadKeyFormat{KekUri: uri, DekTemplate: dek}})
		if err != nil {
			return keyPair{err: err}
		}
		return sym(vb.ParseKey(&tinkpb.KeyData{TypeUrl: urlKMSEnvelope, Value: val, KeyMaterialType: tinkpb.KeyData_REMOTE}, protoPrefix(k.Variant), idReq(k)))
	}
	return keyPair{err: fmt.Errorf("unknown AEAD type %q", k.Type)}
}

func mkDAEAD(k ref.SelKey) keyPair {
	switch k.Type {
	case "aessiv":
		return sym(aessiv.NewKey(sb(material(k.Type, k.Mat, 64)), idReq(k), sivParams[k.Variant]))
	case "legacy-daead":
		return sym(customKey(urlLegacyDAEAD, tinkpb.KeyData_SYMMETRIC, k))
	}
	return keyPair{err: fmt.Errorf("unknown DAEAD type %q", k.Type)}
}

func mkMAC(k ref.SelKey) keyPair {
	switch k.Type {
	case "hmac":
		return sym(hmac.NewKey(sb(material(k.Type, k.Mat, 32)), hmacParams[k.Variant], idReq(k)))
	case "aescmac":
		return sym(aescmac.NewKey(sb(material(k.Type, k.Mat, 32)), cmacParams[k.Variant], idReq(k)))
	case "legacy-mac":
		return sym(customKey(urlLegacyMAC, tinkpb.KeyData_SYMMETRIC, k))
	}
	return keyPair{err: fmt.Errorf("unknown MAC type %q", k.Type)}
}

func mkSig(k ref.SelKey) keyPair {
	switch k.Type {
	case "ed25519":
		return pubOf(ed25519.NewPrivateKey(sb(material(k.Type, k.Mat, 32)), idReq(k), ed25519Params[k.Variant]))
	case "ecdsa-p256":
		return pubOf(ecdsa.NewPrivateKey(sb(scalar(k.Type, k.Mat, 32)), idReq(k), ecdsaParams[k.Variant]))
	case "legacy-sig":
		priv, err := customKey(urlLegacySigPriv, tinkpb.KeyData_ASYMMETRIC_PRIVATE, k)
		if err != nil {
			return keyPair{err: err}
		}
		pub, err := customKey(urlLegacySigPub, tinkpb.KeyData_ASYMMETRIC_PUBLIC, k)
		return keyPair{priv: priv, pub: pub, err: err}
	}
	return keyPair{err: fmt.Errorf("unknown signature type %q", k.Type)}
}

func mkHybrid(k ref.SelKey) keyPair {
	switch k.Type {
	case "hpke-x25519":
		return pubOf(hpke.NewPrivateKey(sb(material(k.Type, k.Mat, 32)), idReq(k), hpkeParams[k.Variant]))
	case "ecies-p256":
		return pubOf(ecies.NewPrivateKey(sb(scalar(k.Type, k.Mat, 32)), idReq(k), eciesParams[k.Variant]))
	case "legacy-hybrid":
		priv, err := customKey(urlLegacyHybPriv, tinkpb.KeyData_ASYMMETRIC_PRIVATE, k)
		if err != nil {
			return keyPair{err: err}
		}
		pub, err := customKey(urlLegacyHybPub, tinkpb.KeyData_ASYMMETRIC_PUBLIC, k)
		return keyPair{priv: priv, pub: pub, err: err}
	}
	return keyPair{err: fmt.Errorf("unknown hybrid type %q", k.Type)}
}

func mkStream(k ref.SelKey) keyPair {
	switch k.Type {
	case "aesgcmhkdf":
		return sym(aesgcmhkdf.NewKey(gcmhkdfParams, sb(material(k.Type, k.Mat, 16))))
	case "aesctrhmac":
		return sym(aesctrhmac.NewKey(ctrhmacParams, sb(material(k.Type, k.Mat, 32))))
	}
	return keyPair{err: fmt.Errorf("unknown streaming type %q", k.Type)}
}

func mkPRF(k ref.SelKey) keyPair {
	switch k.Type {
	case "hmacprf":
		return sym(hmacprf.NewKey(sb(material(k.Type, k.Mat, 32)), hmacprfParams))
	case "hkdfprf":
		return sym(hkdfprf.NewKey(sb(material(k.Type, k.Mat, 32)), hkdfprfParams))
	case "aescmacprf":
		return sym(aescmacprf.NewKey(sb(material(k.Type, k.Mat, 32))))
	}
	return keyPair{err: fmt.Errorf("unknown PRF type %q", k.Type)}
}

func mkJWTMAC(k ref.SelKey) keyPair {
	p := jwtHS[k.Type][k.KidMode]
	if p == nil {
		return keyPair{err: fmt.Errorf("unknown JWT MAC shape %v", k)}
	}
	return sym(jwthmac.NewKey(jwthmac.KeyOpts{KeyBytes: sb(material(k.Type, k.Mat, p.KeySizeInBytes())), IDRequirement: idReq(k),
		CustomKID: k.CustomKid, HasCustomKID: k.KidMode == ref.SelKidCustom, Parameters: p}))
}

func mkJWTSig(k ref.SelKey) keyPair {
	p := jwtES[k.Type][k.KidMode]
	if p == nil {
		return keyPair{err: fmt.Errorf("unknown JWT signature shape %v", k)}
	}
	curve, n := ecdh.P256(), 32
	if k.Type == "ES384" {
		curve, n = ecdh.P384(), 48
	}
	sc := scalar(k.Type, k.Mat, n)
	ek, err := curve.NewPrivateKey(sc)
	if err != nil {
		return keyPair{err: err}
	}
	pub, err := jwtecdsa.NewPublicKey(jwtecdsa.PublicKeyOpts{PublicPoint: ek.PublicKey().Bytes(), IDRequirement: idReq(k),
		CustomKID: k.CustomKid, HasCustomKID: k.KidMode == ref.SelKidCustom, Parameters: p})
	if err != nil {
		return keyPair{err: err}
	}
	priv, err := jwtecdsa.NewPrivateKeyFromPublicKey(sb(sc), pub)
	return keyPair{priv: priv, pub: pub, err: err}
}

var _ tink.AEAD // keep the import for documentation of the primitive interfaces used by the managers
