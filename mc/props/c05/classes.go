package main

// The nine primitive classes: shapes (key type x framing variant), how a wrapped primitive is built
// from a keyset handle with tink's factories, how it produces an output and how it accepts one.

import (
	"bytes"
	"encoding/base64"
	"encoding/json"
	"fmt"
	"io"
	"strings"
	"sync"
	"sync/atomic"

	"github.com/tink-crypto/tink-go/v2/aead"
	"github.com/tink-crypto/tink-go/v2/daead"
	"github.com/tink-crypto/tink-go/v2/hybrid"
	"github.com/tink-crypto/tink-go/v2/jwt"
	"github.com/tink-crypto/tink-go/v2/keyset"
	"github.com/tink-crypto/tink-go/v2/mac"
	"github.com/tink-crypto/tink-go/v2/signature"
	"github.com/tink-crypto/tink-go/v2/streamingaead"
	"github.com/tink-crypto/tink-go/v2/tink"
	"verif/ref"
)

var (
	msg       = []byte("C05: the message every key of the universe signs / encrypts")
	aad       = []byte("C05 associated data / context info")
	streamMsg = ref.Pattern(3, 150) // three segments of the 64-byte-segment streaming keys
)

type shape struct {
	Typ     string
	V       ref.Variant
	KidMode int
	Kid     string
}

func (s shape) String() string {
	switch s.KidMode {
	case ref.SelKidTink:
		return s.Typ + "/TINK-kid"
	case ref.SelKidCustom:
		return s.Typ + "/custom-kid=" + s.Kid
	case ref.SelKidIgnore:
		return s.Typ + "/ignored-kid"
	}
	return s.Typ + "/" + s.V.String()
}

func (s shape) key(id uint32, mat int) ref.SelKey {
	return ref.SelKey{Type: s.Typ, Variant: s.V, ID: id, Mat: mat, KidMode: s.KidMode, CustomKid: s.Kid}
}

func shapeOf(k ref.SelKey) shape { return shape{k.Type, k.Variant, k.KidMode, k.CustomKid} }

// acceptFn / produceFn take the message (nil = the fixed default message of the class).
type acceptFn func(out, m []byte) (accepted bool, anomaly string)
type produceFn func(m []byte) ([]byte, error)

func orMsg(m []byte) []byte {
	if m == nil {
		return msg
	}
	return m
}

type class struct {
	name      string
	rule      ref.SelRule
	shapes    []shape
	asym      bool // separate private / public keysets
	prodPub   bool // the producer is built from the public keyset (hybrid encryption)
	accPub    bool // the acceptor is built from the public keyset (signature verification)
	slow      bool
	monitored bool
	isPRF     bool
	mk        func(ref.SelKey) keyPair
	producer  func(h *keyset.Handle) (produceFn, error)
	acceptor  func(h *keyset.Handle) (acceptFn, error)
	rotQuick  []string // Add alphabet of the quick-tier rotation graph (shape names)

	keys, probes, singles, forced, collisions sync.Map
	sampleCount                               atomic.Int64
}

func shapesOf(typ string, vs []ref.Variant) []shape {
	var out []shape
	for _, v := range vs {
		out = append(out, shape{Typ: typ, V: v})
	}
	return out
}

func jwtShapes(typ string) []shape {
	return []shape{{Typ: typ, V: ref.Tink, KidMode: ref.SelKidTink}, {Typ: typ, V: ref.Raw, KidMode: ref.SelKidCustom, Kid: "kidA"}, {Typ: typ, V: ref.Raw, KidMode: ref.SelKidIgnore}}
}

func cat(ss ...[]shape) []shape {
	var out []shape
	for _, s := range ss {
		out = append(out, s...)
	}
	return out
}

func bytesAccept(f func(out []byte) ([]byte, error)) acceptFn {
	return func(out, m []byte) (bool, string) {
		want := orMsg(m)
		pt, err := f(out)
		if err != nil {
			return false, ""
		}
		if !bytes.Equal(pt, want) {
			return true, fmt.Sprintf("accepted but returned plaintext %x instead of the original", pt)
		}
		return true, ""
	}
}

func errAccept(f func(out, m []byte) error) acceptFn {
	return func(out, m []byte) (bool, string) { return f(out, orMsg(m)) == nil, "" }
}

// readBy drains r with reads of n bytes.
func readBy(r io.Reader, n int) ([]byte, error) {
	var out []byte
	buf := make([]byte, n)
	for i := 0; i < 100000; i++ {
		k, err := r.Read(buf)
		out = append(out, buf[:k]...)
		if err == io.EOF {
			return out, nil
		}
		if err != nil {
			return out, err
		}
	}
	return out, fmt.Errorf("reader does not terminate")
}

func streamAccept(s tink.StreamingAEAD) acceptFn {
	return func(out, _ []byte) (bool, string) {
		var verdicts [4]bool
		for mode, size := range []int{1, len(out) + 64, 7, 5} {
			var src io.Reader = bytes.NewReader(out)
			if mode == 3 {
				// the ciphertext source is a seekable reader that is NOT at its origin (a file with a preamble in
				// front of the stream): the stream is what Read yields from the current position onwards
				pre := []byte("preamble-13b\n")
				rs := bytes.NewReader(append(bytes.Clone(pre), out...))
				if _, err := rs.Seek(int64(len(pre)), io.SeekStart); err != nil {
					continue
				}
				src = rs
			}
			r, err := s.NewDecryptingReader(src, aad)
			if err != nil {
				continue
			}
			if mode == 2 {
				// a zero-length first read must not commit the reader to a key
				if n, err := r.Read(nil); n != 0 || (err != nil && err != io.EOF) {
					continue
				}
			}
			pt, err := readBy(r, size)
			if err != nil {
				continue
			}
			if !bytes.Equal(pt, streamMsg) {
				return true, fmt.Sprintf("read size %d: decrypted to %d bytes different from the original", size, len(pt))
			}
			verdicts[mode] = true
		}
		if verdicts[0] != verdicts[1] || verdicts[0] != verdicts[2] || verdicts[0] != verdicts[3] {
			return verdicts[0], fmt.Sprintf("read size 1 accepts=%v, read size 'all' accepts=%v, empty read then size 7 accepts=%v, seekable source positioned behind a preamble (read size 5) accepts=%v", verdicts[0], verdicts[1], verdicts[2], verdicts[3])
		}
		return verdicts[0], ""
	}
}

var (
	jwtRaw       *jwt.RawJWT
	jwtValidator *jwt.Validator
)

func setupJWT() {
	sub := "c05-subject"
	var err error
	if jwtRaw, err = jwt.NewRawJWT(&jwt.RawJWTOptions{Subject: &sub, WithoutExpiration: true}); err != nil {
		panic(err)
	}
	if jwtValidator, err = jwt.NewValidator(&jwt.ValidatorOpts{AllowMissingExpiration: true}); err != nil {
		panic(err)
	}
}

// tokenKid extracts the kid header of a compact JWT.
func tokenKid(tok []byte) (kid string, has bool, err error) {
	parts := strings.Split(string(tok), ".")
	if len(parts) != 3 {
		return "", false, fmt.Errorf("token has %d parts", len(parts))
	}
	hb, err := base64.RawURLEncoding.DecodeString(parts[0])
	if err != nil {
		return "", false, err
	}
	var hdr map[string]any
	if err := json.Unmarshal(hb, &hdr); err != nil {
		return "", false, err
	}
	v, ok := hdr["kid"]
	if !ok {
		return "", false, nil
	}
	s, ok := v.(string)
	if !ok {
		return "", true, fmt.Errorf("kid is not a string")
	}
	return s, true, nil
}

// framingOK checks that an output of the wrapped primitive carries the framing of key p.
func (c *class) framingOK(out []byte, p ref.SelKey) (bool, string) {
	switch c.rule {
	case ref.SelPrefixRule, ref.SelPrefixLegacyRule:
		pre := ref.SelPrefix(p)
		if !bytes.HasPrefix(out, pre) {
			return false, fmt.Sprintf("output starts with %x, want prefix %x", out[:min(len(out), 5)], pre)
		}
	case ref.SelKidRule:
		kid, has, err := tokenKid(out)
		if err != nil {
			return false, "token header unreadable: " + err.Error()
		}
		wkid, whas := ref.SelTokenKid(p)
		if has != whas || kid != wkid {
			return false, fmt.Sprintf("token kid=(%q,%v), want (%q,%v)", kid, has, wkid, whas)
		}
	}
	return true, ""
}

var classes []*class

func setupClasses() {
	classes = []*class{
		{name: "aead", rule: ref.SelPrefixRule, monitored: true, mk: mkAEAD,
			shapes:   cat(shapesOf("aesgcm", noLegacy), shapesOf("xchacha20poly1305", noLegacy), shapesOf("kmsenvelope", allVariants)),
			rotQuick: []string{"aesgcm/TINK", "aesgcm/RAW", "kmsenvelope/LEGACY", "xchacha20poly1305/CRUNCHY"},
			producer: func(h *keyset.Handle) (produceFn, error) {
				a, err := aead.New(h)
				if err != nil {
					return nil, err
				}
				return func(m []byte) ([]byte, error) { return a.Encrypt(orMsg(m), aad) }, nil
			},
			acceptor: func(h *keyset.Handle) (acceptFn, error) {
				a, err := aead.New(h)
				if err != nil {
					return nil, err
				}
				return bytesAccept(func(out []byte) ([]byte, error) { return a.Decrypt(out, aad) }), nil
			}},
		{name: "daead", rule: ref.SelPrefixRule, monitored: true, mk: mkDAEAD,
			shapes:   cat(shapesOf("aessiv", noLegacy), shapesOf("legacy-daead", allVariants)),
			rotQuick: []string{"aessiv/TINK", "aessiv/RAW", "legacy-daead/CRUNCHY"},
			producer: func(h *keyset.Handle) (produceFn, error) {
				a, err := daead.New(h)
				if err != nil {
					return nil, err
				}
				return func(m []byte) ([]byte, error) { return a.EncryptDeterministically(orMsg(m), aad) }, nil
			},
			acceptor: func(h *keyset.Handle) (acceptFn, error) {
				a, err := daead.New(h)
				if err != nil {
					return nil, err
				}
				return bytesAccept(func(out []byte) ([]byte, error) { return a.DecryptDeterministically(out, aad) }), nil
			}},
		{name: "mac", rule: ref.SelPrefixLegacyRule, monitored: true, mk: mkMAC,
			shapes:   cat(shapesOf("hmac", allVariants), shapesOf("aescmac", allVariants), shapesOf("legacy-mac", allVariants)),
			rotQuick: []string{"hmac/TINK", "hmac/LEGACY", "aescmac/RAW", "legacy-mac/LEGACY"},
			producer: func(h *keyset.Handle) (produceFn, error) {
				m, err := mac.New(h)
				if err != nil {
					return nil, err
				}
				return func(d []byte) ([]byte, error) { return m.ComputeMAC(orMsg(d)) }, nil
			},
			acceptor: func(h *keyset.Handle) (acceptFn, error) {
				m, err := mac.New(h)
				if err != nil {
					return nil, err
				}
				return errAccept(func(out, d []byte) error { return m.VerifyMAC(out, d) }), nil
			}},
		{name: "signature", rule: ref.SelPrefixLegacyRule, monitored: true, mk: mkSig, asym: true, accPub: true, slow: true,
			shapes:   cat(shapesOf("ed25519", allVariants), shapesOf("ecdsa-p256", allVariants), shapesOf("legacy-sig", allVariants)),
			rotQuick: []string{"ed25519/TINK", "ed25519/RAW", "ecdsa-p256/LEGACY", "legacy-sig/CRUNCHY"},
			producer: func(h *keyset.Handle) (produceFn, error) {
				s, err := signature.NewSigner(h)
				if err != nil {
					return nil, err
				}
				return func(m []byte) ([]byte, error) { return s.Sign(orMsg(m)) }, nil
			},
			acceptor: func(h *keyset.Handle) (acceptFn, error) {
				v, err := signature.NewVerifier(h)
				if err != nil {
					return nil, err
				}
				return errAccept(func(out, d []byte) error { return v.Verify(out, d) }), nil
			}},
		{name: "hybrid", rule: ref.SelPrefixRule, monitored: true, mk: mkHybrid, asym: true, prodPub: true, slow: true,
			shapes:   cat(shapesOf("hpke-x25519", noLegacy), shapesOf("ecies-p256", noLegacy), shapesOf("legacy-hybrid", allVariants)),
			rotQuick: []string{"hpke-x25519/TINK", "hpke-x25519/RAW", "ecies-p256/CRUNCHY", "legacy-hybrid/LEGACY"},
			producer: func(h *keyset.Handle) (produceFn, error) {
				e, err := hybrid.NewHybridEncrypt(h)
				if err != nil {
					return nil, err
				}
				return func(m []byte) ([]byte, error) { return e.Encrypt(orMsg(m), aad) }, nil
			},
			acceptor: func(h *keyset.Handle) (acceptFn, error) {
				d, err := hybrid.NewHybridDecrypt(h)
				if err != nil {
					return nil, err
				}
				return bytesAccept(func(out []byte) ([]byte, error) { return d.Decrypt(out, aad) }), nil
			}},
		{name: "streamingaead", rule: ref.SelNoFramingRule, mk: mkStream,
			shapes:   cat(shapesOf("aesgcmhkdf", []ref.Variant{ref.Raw}), shapesOf("aesctrhmac", []ref.Variant{ref.Raw})),
			rotQuick: []string{"aesgcmhkdf/RAW", "aesctrhmac/RAW"},
			producer: func(h *keyset.Handle) (produceFn, error) {
				s, err := streamingaead.New(h)
				if err != nil {
					return nil, err
				}
				return func([]byte) ([]byte, error) {
					var buf bytes.Buffer
					w, err := s.NewEncryptingWriter(&buf, aad)
					if err != nil {
						return nil, err
					}
					if _, err := w.Write(streamMsg); err != nil {
						return nil, err
					}
					if err := w.Close(); err != nil {
						return nil, err
					}
					return buf.Bytes(), nil
				}, nil
			},
			acceptor: func(h *keyset.Handle) (acceptFn, error) {
				s, err := streamingaead.New(h)
				if err != nil {
					return nil, err
				}
				return streamAccept(s), nil
			}},
		{name: "prf", isPRF: true, monitored: true, mk: mkPRF,
			shapes:   cat(shapesOf("hmacprf", []ref.Variant{ref.Raw}), shapesOf("hkdfprf", []ref.Variant{ref.Raw}), shapesOf("aescmacprf", []ref.Variant{ref.Raw})),
			rotQuick: []string{"hmacprf/RAW", "hkdfprf/RAW", "aescmacprf/RAW"}},
		{name: "jwtmac", rule: ref.SelKidRule, monitored: true, mk: mkJWTMAC,
			shapes:   cat(jwtShapes("HS256"), jwtShapes("HS384")),
			rotQuick: []string{"HS256/TINK-kid", "HS256/custom-kid=kidA", "HS256/ignored-kid", "HS384/TINK-kid"},
			producer: func(h *keyset.Handle) (produceFn, error) {
				m, err := jwt.NewMAC(h)
				if err != nil {
					return nil, err
				}
				return func([]byte) ([]byte, error) { t, err := m.ComputeMACAndEncode(jwtRaw); return []byte(t), err }, nil
			},
			acceptor: func(h *keyset.Handle) (acceptFn, error) {
				m, err := jwt.NewMAC(h)
				if err != nil {
					return nil, err
				}
				return errAccept(func(out, _ []byte) error { _, err := m.VerifyMACAndDecode(string(out), jwtValidator); return err }), nil
			}},
		{name: "jwtsig", rule: ref.SelKidRule, monitored: true, mk: mkJWTSig, asym: true, accPub: true, slow: true,
			shapes:   cat(jwtShapes("ES256"), jwtShapes("ES384")),
			rotQuick: []string{"ES256/TINK-kid", "ES256/custom-kid=kidA", "ES256/ignored-kid"},
			producer: func(h *keyset.Handle) (produceFn, error) {
				s, err := jwt.NewSigner(h)
				if err != nil {
					return nil, err
				}
				return func([]byte) ([]byte, error) { t, err := s.SignAndEncode(jwtRaw); return []byte(t), err }, nil
			},
			acceptor: func(h *keyset.Handle) (acceptFn, error) {
				v, err := jwt.NewVerifier(h)
				if err != nil {
					return nil, err
				}
				return errAccept(func(out, _ []byte) error { _, err := v.VerifyAndDecode(string(out), jwtValidator); return err }), nil
			}},
	}
}
