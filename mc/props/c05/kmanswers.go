package main

// Section keymanager-answers: the registered KEY MANAGER of a key type without a primitive constructor is a
// COLLABORATOR (engine E4, deviation-bounded: the well-behaved manager is the default, one unusual answer costs
// one deviation). Custom key managers are registered under own type URLs for every primitive class with a legacy
// route (AEAD, DAEAD, MAC, signature private + public, hybrid private + public, PRF, streaming AEAD); the answer
// of Primitive(serializedKey) / PublicKeyData(serializedKey) is selected by a byte of the key VALUE, so every
// keyset entry carries its own answer and nothing process-global changes between executions.
//
//	Primitive():     a correct RAW primitive of the class (verif/ref/kmprims.go, Go stdlib) | (nil, error) |
//	                 (nil, nil) | a primitive of ANOTHER class (a MAC; an AEAD where a MAC is expected) |
//	                 a typed nil pointer of the right type (its methods return an error on a nil receiver)
//	PublicKeyData(): correct | (nil, error) | (nil, nil) | key data of the OTHER asymmetric class's public type URL
//
// Domain: 9 factories (aead.New, daead.New, mac.New, signature.NewSigner / NewVerifier, hybrid.NewHybridEncrypt /
// NewHybridDecrypt, prf.NewPRFSet, streamingaead.New) x keysets {[C*], [R*,C], [C*,R], [R,C,R2*]} (C the custom
// key id 0x22, R a regular TINK-or-RAW key id 0x11, R2 a regular RAW key id 0x33, all ENABLED, built through the
// proto path) x output prefix type of C {TINK, CRUNCHY, LEGACY, RAW} x Primitive() answer (5) and, for the two
// factories that work on handle.Public() (NewVerifier, NewHybridEncrypt), x PublicKeyData() answer (4); at most
// one non-default answer per execution.
//
// Oracle (C05 only): Public() and the factory EITHER return an error OR the factory returns a primitive that never
// panics and obeys C05 on the keys it can work with: it produces with the primary (output carries the primary's
// framing and is valid under the primary: single-key primitive for R, the stdlib primitive for C); if the primary
// is the unusable key producing returns an error; it accepts its own output, the outputs of every regular entry
// and of a usable C, and rejects - without panic - corrupted outputs, outputs of foreign material under R's and
// under C's framing, the bare prefix of C and the prefix of C followed by junk. PRF sets: ids, primary id, every
// PRF value; the PRF of an unusable key returns an error. With only correct answers nothing may be refused.
//
// Don't-care cells: whether a factory (or Public()) REFUSES a keyset with one unusable key or tolerates it; error
// texts; monitoring (handles are not annotated).

import (
	"bytes"
	"errors"
	"fmt"
	"io"

	"google.golang.org/protobuf/proto"

	"github.com/tink-crypto/tink-go/v2/core/registry"
	"github.com/tink-crypto/tink-go/v2/keyset"
	tinkpb "github.com/tink-crypto/tink-go/v2/proto/tink_go_proto"
	"github.com/tink-crypto/tink-go/v2/streamingaead"
	"github.com/tink-crypto/tink-go/v2/verifbridge/vb"
	"verif/h"
	"verif/ref"
	"verif/tk"
)

const kaURLPrefix = "type.googleapis.com/verif.c05.answers."

const (
	kaCorrect = iota
	kaError
	kaNilNil
	kaOtherClass
	kaTypedNil
)

const (
	kaPubCorrect = iota
	kaPubError
	kaPubNil
	kaPubOtherURL
)

var (
	kaAnswerNames    = []string{"correct raw primitive", "(nil, error)", "(nil, nil)", "primitive of another class", "typed nil pointer of the right type"}
	kaPubAnswerNames = []string{"correct", "(nil, error)", "(nil, nil)", "key data of another type URL"}
)

// roles of the custom key managers (one type URL each)
var kaRoles = []string{"Aead", "Daead", "Mac", "SigPrivate", "SigPublic", "HybridPrivate", "HybridPublic", "Prf", "StreamingAead"}

func kaURL(role string) string { return kaURLPrefix + role + "Key" }

// kaMaterial: signer / verifier (decrypter / encrypter) of one key pair share the material label.
func kaMaterial(role string, mat int) []byte {
	switch role {
	case "SigPrivate", "SigPublic":
		role = "Sig"
	case "HybridPrivate", "HybridPublic":
		role = "Hybrid"
	}
	return material("answers-"+role, mat, 32)
}

// key value: 0xA5, material index, Primitive() answer, PublicKeyData() answer
func kaValue(mat, ans, pubAns int) []byte { return []byte{0xA5, byte(mat), byte(ans), byte(pubAns)} }

type kaKM struct{ role string }

func (m *kaKM) Primitive(serializedKey []byte) (any, error) {
	if len(serializedKey) != 4 || serializedKey[0] != 0xA5 {
		return nil, errors.New("c05 answers key manager: invalid key")
	}
	k := kaMaterial(m.role, int(serializedKey[1]))
	switch serializedKey[2] {
	case kaError:
		return nil, errors.New("c05 answers key manager: Primitive() answers with an error")
	case kaNilNil:
		return nil, nil
	case kaOtherClass:
		if m.role == "Mac" {
			return &ref.KMAead{K: k}, nil
		}
		return &ref.KMMac{K: k}, nil
	case kaTypedNil:
		switch m.role {
		case "Aead":
			return (*ref.KMAead)(nil), nil
		case "Daead":
			return (*ref.KMDaead)(nil), nil
		case "Mac":
			return (*ref.KMMac)(nil), nil
		case "SigPrivate":
			return (*ref.KMSigner)(nil), nil
		case "SigPublic":
			return (*ref.KMVerifier)(nil), nil
		case "HybridPrivate":
			return (*ref.KMHybridDecrypt)(nil), nil
		case "HybridPublic":
			return (*ref.KMHybridEncrypt)(nil), nil
		case "Prf":
			return (*ref.KMPrf)(nil), nil
		}
		return (*ref.KMStream)(nil), nil
	}
	switch m.role {
	case "Aead":
		return &ref.KMAead{K: k}, nil
	case "Daead":
		return &ref.KMDaead{K: k}, nil
	case "Mac":
		return &ref.KMMac{K: k}, nil
	case "SigPrivate":
		return &ref.KMSigner{K: k}, nil
	case "SigPublic":
		return &ref.KMVerifier{K: k}, nil
	case "HybridPrivate":
		return &ref.KMHybridDecrypt{K: k}, nil
	case "HybridPublic":
		return &ref.KMHybridEncrypt{K: k}, nil
	case "Prf":
		return &ref.KMPrf{K: k}, nil
	}
	return &ref.KMStream{K: k}, nil
}
func (m *kaKM) NewKey([]byte) (proto.Message, error) { return nil, errors.New("not supported") }
func (m *kaKM) DoesSupport(u string) bool            { return u == kaURL(m.role) }
func (m *kaKM) TypeURL() string                      { return kaURL(m.role) }
func (m *kaKM) NewKeyData([]byte) (*tinkpb.KeyData, error) {
	return nil, errors.New("not supported")
}

// kaPrivKM is a registry.PrivateKeyManager.
type kaPrivKM struct {
	kaKM
	pubRole, otherPubRole string
}

func (m *kaPrivKM) PublicKeyData(serializedKey []byte) (*tinkpb.KeyData, error) {
	if len(serializedKey) != 4 || serializedKey[0] != 0xA5 {
		return nil, errors.New("c05 answers key manager: invalid key")
	}
	switch serializedKey[3] {
	case kaPubError:
		return nil, errors.New("c05 answers key manager: PublicKeyData() answers with an error")
	case kaPubNil:
		return nil, nil
	case kaPubOtherURL:
		return &tinkpb.KeyData{TypeUrl: kaURL(m.otherPubRole), Value: bytes.Clone(serializedKey), KeyMaterialType: tinkpb.KeyData_ASYMMETRIC_PUBLIC}, nil
	}
	return &tinkpb.KeyData{TypeUrl: kaURL(m.pubRole), Value: bytes.Clone(serializedKey), KeyMaterialType: tinkpb.KeyData_ASYMMETRIC_PUBLIC}, nil
}

func registerAnswerKMs() {
	for _, r := range kaRoles {
		var km registry.KeyManager = &kaKM{role: r}
		switch r {
		case "SigPrivate":
			km = &kaPrivKM{kaKM: kaKM{role: r}, pubRole: "SigPublic", otherPubRole: "HybridPublic"}
		case "HybridPrivate":
			km = &kaPrivKM{kaKM: kaKM{role: r}, pubRole: "HybridPublic", otherPubRole: "SigPublic"}
		}
		if err := registry.RegisterKeyManager(km); err != nil {
			panic(err)
		}
	}
}

// ---- factories -----------------------------------------------------------------------------------------------

type kaFactory struct {
	mfFactory
	role string // role of the custom key in the PRIVATE / symmetric keyset
}

func (f kaFactory) String() string { return f.name }

var kaFactories []kaFactory

func setupAnswerFactories() {
	roleOf := map[string]string{"aead.New": "Aead", "daead.New": "Daead", "mac.New": "Mac", "signature.NewSigner": "SigPrivate", "signature.NewVerifier": "SigPrivate",
		"hybrid.NewHybridEncrypt": "HybridPrivate", "hybrid.NewHybridDecrypt": "HybridPrivate", "prf.NewPRFSet": "Prf"}
	for _, f := range mfFactories {
		if r, ok := roleOf[f.name]; ok {
			kaFactories = append(kaFactories, kaFactory{f, r})
		}
	}
	kaFactories = append(kaFactories, kaFactory{mfFactory{name: "streamingaead.New", class: "streamingaead", build: func(hd *keyset.Handle) (mfOps, error) {
		s, err := streamingaead.New(hd)
		if err != nil {
			return mfOps{}, err
		}
		return mfOps{produce: func([]byte) ([]byte, error) {
			var buf bytes.Buffer
			w, err := s.NewEncryptingWriter(&buf, aad)
			if err != nil {
				return nil, err
			}
			if _, err := w.Write(streamMsg); err != nil {
				return nil, err
			}
			if err := w.Close(); err != nil {
				return nil, err
			}
			return buf.Bytes(), nil
		}, accept: streamAccept(s)}, nil
	}}, "StreamingAead"})
}

// ---- the custom key as a maker / judge of outputs (stdlib primitives, framing written out here) -----------------

type kaCustom struct {
	role string // role of the private / symmetric key
	k    []byte
	v    ref.Variant
	id   uint32
}

func (cu kaCustom) framed() bool { return cu.role != "Prf" && cu.role != "StreamingAead" }

func (cu kaCustom) prefix() []byte {
	if !cu.framed() {
		return nil
	}
	return ref.Prefix(cu.v, cu.id)
}

// data is what a MAC / signature key with LEGACY prefix authenticates.
func (cu kaCustom) data(m []byte) []byte {
	if cu.v == ref.Legacy && (cu.role == "Mac" || cu.role == "SigPrivate") {
		return append(bytes.Clone(m), 0)
	}
	return m
}

// make returns an output of the custom key for message m as a full primitive must produce it.
func (cu kaCustom) make(m []byte) ([]byte, error) {
	var raw []byte
	var err error
	switch cu.role {
	case "Aead":
		raw, err = (&ref.KMAead{K: cu.k}).Encrypt(m, aad)
	case "Daead":
		raw, err = (&ref.KMDaead{K: cu.k}).EncryptDeterministically(m, aad)
	case "Mac":
		raw, err = (&ref.KMMac{K: cu.k}).ComputeMAC(cu.data(m))
	case "SigPrivate":
		raw, err = (&ref.KMSigner{K: cu.k}).Sign(cu.data(m))
	case "HybridPrivate":
		raw, err = (&ref.KMHybridEncrypt{K: cu.k}).Encrypt(m, aad)
	case "StreamingAead":
		var buf bytes.Buffer
		w, _ := (&ref.KMStream{K: cu.k}).NewEncryptingWriter(&buf, aad)
		if _, err = w.Write(m); err == nil {
			err = w.Close()
		}
		raw = buf.Bytes()
	default:
		err = fmt.Errorf("no outputs for role %s", cu.role)
	}
	if err != nil {
		return nil, err
	}
	return append(bytes.Clone(cu.prefix()), raw...), nil
}

// valid: out is the custom key's framing followed by a raw output valid for m.
func (cu kaCustom) valid(out, m []byte) bool {
	pre := cu.prefix()
	if !bytes.HasPrefix(out, pre) {
		return false
	}
	body := out[len(pre):]
	switch cu.role {
	case "Aead":
		pt, err := (&ref.KMAead{K: cu.k}).Decrypt(body, aad)
		return err == nil && bytes.Equal(pt, m)
	case "Daead":
		pt, err := (&ref.KMDaead{K: cu.k}).DecryptDeterministically(body, aad)
		return err == nil && bytes.Equal(pt, m)
	case "Mac":
		return (&ref.KMMac{K: cu.k}).VerifyMAC(body, cu.data(m)) == nil
	case "SigPrivate":
		return (&ref.KMVerifier{K: cu.k}).Verify(body, cu.data(m)) == nil
	case "HybridPrivate":
		pt, err := (&ref.KMHybridDecrypt{K: cu.k}).Decrypt(body, aad)
		return err == nil && bytes.Equal(pt, m)
	case "StreamingAead":
		r, err := (&ref.KMStream{K: cu.k}).NewDecryptingReader(bytes.NewReader(body), aad)
		if err != nil {
			return false
		}
		pt, err := io.ReadAll(r)
		return err == nil && bytes.Equal(pt, m)
	}
	return false
}

// ---- the section ---------------------------------------------------------------------------------------------------

type kaEntry struct {
	custom  bool
	k       ref.SelKey // regular entries
	id      uint32
	primary bool
}

func kmAnswersSection(x *h.X) {
	f := h.Pick(x, "factory", kaFactories)
	layout := h.Pick(x, "keyset", []string{"[C*]", "[R*,C]", "[C*,R]", "[R,C,R2*]"})
	v := h.Pick(x, "custom-key-prefix", allVariants)
	ans := x.Deviate("Primitive()-answer", len(kaAnswerNames))
	x.Label(kaAnswerNames[ans])
	pubAns := kaPubCorrect
	if f.pub {
		pubAns = x.Deviate("PublicKeyData()-answer", len(kaPubAnswerNames))
		x.Label(kaPubAnswerNames[pubAns])
	}
	c := classByName(f.class)
	if c == nil {
		x.Fail("harness", "keymanager-answers: unknown class %q", f.class)
		return
	}
	m := msg
	if c.name == "streamingaead" {
		m = streamMsg
	}
	const customID, customMat = 0x22, 0
	cu := kaCustom{role: f.role, k: kaMaterial(f.role, customMat), v: v, id: customID}
	usable := ans == kaCorrect && pubAns == kaPubCorrect

	R := kaEntry{k: c.shapes[0].key(0x11, 0), id: 0x11}
	R2 := kaEntry{k: shape{Typ: c.shapes[0].Typ, V: ref.Raw}.key(0x33, 1), id: 0x33}
	C := kaEntry{custom: true, id: customID}
	prim := func(e kaEntry) kaEntry { e.primary = true; return e }
	var es []kaEntry
	switch layout {
	case "[C*]":
		es = []kaEntry{prim(C)}
	case "[R*,C]":
		es = []kaEntry{prim(R), C}
	case "[C*,R]":
		es = []kaEntry{prim(C), R}
	default:
		es = []kaEntry{R, C, prim(R2)}
	}
	desc := fmt.Sprintf("%s on the keyset %s (C = custom %s key, prefix %v, id %#x; key manager answers Primitive(): %s", f.name, layout, f.role, v, customID, kaAnswerNames[ans])
	if f.pub {
		desc += "; PublicKeyData(): " + kaPubAnswerNames[pubAns] + "; handle obtained with Public()"
	}
	desc += ")"

	// the private / symmetric handle, through the proto path
	mt := tinkpb.KeyData_SYMMETRIC
	if c.asym {
		mt = tinkpb.KeyData_ASYMMETRIC_PRIVATE
	}
	var tes []tk.Entry
	var primary kaEntry
	for _, e := range es {
		if e.primary {
			primary = e
		}
		if e.custom {
			id := uint32(customID)
			if v == ref.Raw {
				id = 0
			}
			k, err := vb.ParseKey(&tinkpb.KeyData{TypeUrl: kaURL(f.role), Value: kaValue(customMat, ans, pubAns), KeyMaterialType: mt}, protoPrefix(v), id)
			if err != nil {
				x.Fail("construct", "keymanager-answers: %s: cannot parse the custom key: %v", desc, err)
				return
			}
			tes = append(tes, tk.Entry{Key: k, ID: customID, Primary: e.primary})
			continue
		}
		kp := c.keyPair(e.k)
		if kp.err != nil {
			x.Fail("harness", "keymanager-answers: key %s: %v", keyDesc(e.k), kp.err)
			return
		}
		tes = append(tes, tk.Entry{Key: kp.priv, ID: e.id, Primary: e.primary})
	}
	kh, err := mkHandle(tes, nil)
	if err != nil {
		x.Fail("construct", "keymanager-answers: %s: cannot build the handle: %v", desc, err)
		return
	}
	x.NonTrivial()
	refused := func(who string, err error) {
		if usable {
			x.Fail("kmanswers-correct-refused", "%s: %s fails although every answer of the key manager is correct: %v", desc, who, err)
			return
		}
		x.Outcome(fmt.Sprintf("%s refuses [Primitive(): %s | PublicKeyData(): %s]", who, kaAnswerNames[ans], kaPubAnswerNames[pubAns]))
	}
	if f.pub {
		var pub *keyset.Handle
		var perr error
		if p, m := h.Try(func() { pub, perr = kh.Public() }); p {
			x.Fail("kmanswers-public-panic", "%s: handle.Public() PANICS: %s", desc, m)
			return
		}
		x.Eval(1)
		if perr != nil {
			refused("Public()", perr)
			return
		}
		if pub == nil {
			x.Fail("kmanswers-wrong-result", "%s: handle.Public() returns neither a handle nor an error", desc)
			return
		}
		kh = pub
	}

	var ops mfOps
	var ferr error
	if p, m := h.Try(func() { ops, ferr = f.build(kh) }); p {
		x.Fail("kmanswers-factory-panic", "%s: the factory PANICS: %s", desc, m)
		return
	}
	x.Eval(1)
	if ferr != nil {
		refused("the factory", ferr)
		return
	}
	if usable {
		x.Outcome("all answers correct: full oracle")
	} else {
		x.Outcome(fmt.Sprintf("the factory tolerates [Primitive(): %s | PublicKeyData(): %s]: operations judged", kaAnswerNames[ans], kaPubAnswerNames[pubAns]))
	}

	// ---- PRF sets
	if ops.set != nil {
		set := ops.set
		if set.PrimaryID != primary.id || len(set.PRFs) != len(es) {
			x.Fail("kmanswers-wrong-result", "%s: PRF set has primary %#x and %d PRFs, want %#x and %d", desc, set.PrimaryID, len(set.PRFs), primary.id, len(es))
		}
		for _, e := range es {
			p, ok := set.PRFs[e.id]
			if !ok {
				x.Fail("kmanswers-wrong-result", "%s: PRF set lacks the enabled entry %#x", desc, e.id)
				continue
			}
			var want []byte
			if e.custom {
				want, _ = (&ref.KMPrf{K: cu.k}).ComputePRF(prfInput, 16)
			} else if want, err = c.singlePRF(e.k); err != nil {
				x.Fail("harness", "keymanager-answers: single-key PRF of %s: %v", keyDesc(e.k), err)
				continue
			}
			calls := map[string]func() ([]byte, error){fmt.Sprintf("PRFs[%#x].ComputePRF", e.id): func() ([]byte, error) { return p.ComputePRF(prfInput, 16) }}
			if e.primary {
				calls["ComputePrimaryPRF"] = func() ([]byte, error) { return set.ComputePrimaryPRF(prfInput, 16) }
			}
			for _, name := range []string{fmt.Sprintf("PRFs[%#x].ComputePRF", e.id), "ComputePrimaryPRF"} {
				call, ok := calls[name]
				if !ok {
					continue
				}
				var o []byte
				var err error
				if pn, m := h.Try(func() { o, err = call() }); pn {
					x.Fail("kmanswers-op-panic", "%s: %s PANICS: %s", desc, name, m)
					continue
				}
				x.Eval(1)
				switch {
				case e.custom && !usable:
					if err == nil {
						x.Fail("kmanswers-wrong-result", "%s: %s returns %x for the key without usable primitive", desc, name, o)
					}
					x.Outcome("unusable key: operation returns an error")
				case err != nil || !bytes.Equal(o, want):
					x.Fail("kmanswers-wrong-result", "%s: %s = %x (%v), want %x", desc, name, o, err, want)
				default:
					x.Outcome("accept")
				}
			}
		}
		return
	}

	type input struct {
		data []byte
		want bool
		note string
	}
	var inputs []input
	add := func(data []byte, want bool, note string) { inputs = append(inputs, input{data, want, note}) }
	for _, e := range es {
		if e.custom {
			b, err := cu.make(m)
			if err != nil {
				x.Fail("harness", "keymanager-answers: output of the custom key: %v", err)
				return
			}
			add(b, usable, "an output of the custom key C (made with the stdlib primitive and C's prefix)")
			add(mfCorrupt(c, b), false, "a CORRUPTED output of the custom key C")
			fb, err := kaCustom{role: cu.role, k: kaMaterial(f.role, foreignMat), v: v, id: customID}.make(m)
			if err != nil {
				x.Fail("harness", "keymanager-answers: output of the foreign custom key: %v", err)
				return
			}
			add(fb, false, "an output of FOREIGN custom material under C's prefix")
			if cu.framed() {
				add(cu.prefix(), false, fmt.Sprintf("the bare output prefix %x of C", cu.prefix()))
				add(append(bytes.Clone(cu.prefix()), bytes.Repeat([]byte{0x5a}, 48)...), false, fmt.Sprintf("the output prefix %x of C followed by 48 junk bytes", cu.prefix()))
			}
			continue
		}
		b, err := c.probe(e.k)
		if err != nil {
			x.Fail("harness", "keymanager-answers: single-key output of %s: %v", keyDesc(e.k), err)
			return
		}
		add(b, true, "an output of the regular entry "+keyDesc(e.k))
		add(mfCorrupt(c, b), false, "a CORRUPTED output of the regular entry "+keyDesc(e.k))
		fk := shapeOf(e.k).key(e.k.ID, foreignMat)
		if b, err = c.probe(fk); err != nil {
			x.Fail("harness", "keymanager-answers: single-key output of %s: %v", keyDesc(fk), err)
			return
		}
		add(b, false, "an output of foreign material under the framing of "+keyDesc(e.k))
	}

	if ops.produce != nil {
		var out []byte
		var err error
		if pn, pm := h.Try(func() { out, err = ops.produce(nil) }); pn {
			x.Fail("kmanswers-op-panic", "%s: the factory returned a primitive whose producing operation PANICS: %s", desc, pm)
		} else {
			x.Eval(1)
			switch {
			case primary.custom && !usable:
				if err == nil {
					x.Fail("kmanswers-wrong-result", "%s: producing succeeds (%x) although the primary has no usable primitive", desc, out)
				}
				x.Outcome("unusable primary: producing returns an error")
			case err != nil:
				x.Fail("kmanswers-wrong-result", "%s: producing fails: %v", desc, err)
			case primary.custom:
				if !cu.valid(out, m) {
					x.Fail("kmanswers-wrong-result", "%s: the output %x is not C's prefix followed by a raw output valid under C (stdlib primitive)", desc, out)
				}
				add(out, true, "the primitive's OWN output")
				add(mfCorrupt(c, out), false, "the primitive's own output CORRUPTED")
			default:
				if ok, why := c.framingOK(out, primary.k); !ok {
					x.Fail("kmanswers-wrong-result", "%s: output framing: %s", desc, why)
				}
				if ok, known := independentlyValid(primary.k, out, nil); known && !ok {
					x.Fail("kmanswers-wrong-result", "%s: the output %x is not valid under the primary's material and framing (independent oracle)", desc, out)
				}
				if sa, err := c.single(primary.k); err != nil {
					x.Fail("harness", "keymanager-answers: single-key primitive of %s: %v", keyDesc(primary.k), err)
				} else if got, _ := sa(out, nil); !got {
					x.Fail("kmanswers-wrong-result", "%s: the output is rejected by the single-key primitive of the primary", desc)
				}
				add(out, true, "the primitive's OWN output")
				add(mfCorrupt(c, out), false, "the primitive's own output CORRUPTED")
			}
		}
	}

	if ops.accept != nil {
		for _, in := range inputs {
			var got bool
			var anomaly string
			if pn, pm := h.Try(func() { got, anomaly = ops.accept(in.data, nil) }); pn {
				x.Fail("kmanswers-op-panic", "%s: the factory returned a primitive whose accepting operation PANICS on %s: %s", desc, in.note, pm)
				continue
			}
			x.Eval(1)
			if anomaly != "" {
				x.Fail("kmanswers-wrong-result", "%s: %s: %s", desc, in.note, anomaly)
			}
			if got != in.want {
				x.Fail("kmanswers-wrong-result", "%s: %s is %s, want %s", desc, in.note,
					map[bool]string{true: "ACCEPTED", false: "REJECTED"}[got], map[bool]string{true: "accept", false: "reject"}[in.want])
				continue
			}
			if got {
				x.Outcome("accept")
			} else {
				x.Outcome("reject")
			}
		}
	}
}
