// C05: keyset primitives use the primary key to produce and any enabled key to accept; monitoring
// names the key that did the work.
//
// Model checking in the bounded-exhaustive form (engine E2-space):
//
//		(a) sections keysets/<class>: ALL keysets of size 1 and 2 over {key types of the class} x {variants the
//		    type admits} x {ENABLED, DISABLED, DESTROYED} x ids {0, 1, 0xFFFFFFFF (+ 0x01000000 thorough, fast classes; quick thins size 2 of the public-key classes to {1, 0xFFFFFFFF})} x material {0,1} x every
//		    admissible primary x both orders (distinct ids), size 3 over a reduced positional alphabet;
//		(b) sections rotation/<class> (and rotation4/<class>, thorough): BFS to fixpoint over keyset.Manager histories (Add <= 3 / 4 keys,
//		    SetPrimary / Enable / Disable / Delete of the i-th created key); every reached state with a
//		    primary is checked with the universe of all keys that ever existed plus foreign keys.
//
//	  (c) sections collision/<class> (AEAD, DAEAD, MAC, signature, hybrid - the prefix-map wrappers): for every RAW
//	      key type an output starting with 0x01 / 0x00 is searched (<= 4000 messages / entropy-tape seeds); the
//	      OTHER key's id is chosen after the fact so that the RAW output carries its TINK / CRUNCHY / LEGACY
//	      prefix; keysets [P,R] / [R,P] with either primary and 3-key shapes with the colliding key DISABLED.
//
//	  (d) section monitoring-faults (monfaults.go): the monitoring client as a collaborator whose NewLogger may fail
//	      (deviation-bounded): 11 factories x 3 annotated keysets x FailAt {-1,0,1,2,3}; a factory reports the error or
//	      returns a primitive whose operations never panic and give the model's verdicts.
//
//	  (e) section keymanager-answers (kmanswers.go): custom key managers as collaborators whose Primitive() /
//	      PublicKeyData() answer unusually (deviation-bounded): 9 factories x 4 keysets mixing the custom key with
//	      regular keys x 4 prefix types x answers; error, or a primitive that never panics and obeys C05 on the
//	      keys it can work with.
//
// For every keyset the wrapped primitive is built with tink's factory, its output is judged (framing
// of the primary; accepted by exactly the single-key primitives the model names) and it is probed
// with outputs of EVERY key of a universe (the keyset's keys and foreign keys: same id+variant but
// other material, same material other id / other variant / RAW, other key type with the same
// prefix); accept / reject and the monitoring events are compared with the reference model
// verif/ref/selection.go. "Valid under key k" is decided by tink's own primitive over the one-key
// keyset {k}: C05 is about SELECTION, the primitives themselves are verified by other properties.
//
// Don't-care cells (not judged): the numBytes argument of Log; primitive / api_function names of the
// monitoring context; LogKeyExport events; which of several matching enabled keys of equal material is
// named by a success event; error texts; streaming AEAD and monitoring (streaming has no loggers).
package main

import (
	"bytes"
	"errors"
	"fmt"
	"os"
	"sort"
	"strings"
	"sync"

	"github.com/tink-crypto/tink-go/v2/insecurecleartextkeyset"
	"github.com/tink-crypto/tink-go/v2/keyset"
	"github.com/tink-crypto/tink-go/v2/prf"
	tinkpb "github.com/tink-crypto/tink-go/v2/proto/tink_go_proto"
	"github.com/tink-crypto/tink-go/v2/testkeyset"
	"verif/h"
	"verif/ref"
	"verif/space"
	"verif/tape"
	"verif/tk"
)

type reportFn func(key, format string, a ...any)

const (
	foreignMat  = 2    // material index no keyset entry of the keysets sections uses
	singleRawID = 0x51 // id of the entry of a one-key keyset whose key has no id requirement
)

func norm(k ref.SelKey) ref.SelKey {
	if k.Variant == ref.Raw {
		k.ID = 0
	}
	return k
}

func statusProto(s int) tinkpb.KeyStatusType {
	switch s {
	case ref.SelEnabled:
		return tinkpb.KeyStatusType_ENABLED
	case ref.SelDisabled:
		return tinkpb.KeyStatusType_DISABLED
	}
	return tinkpb.KeyStatusType_DESTROYED
}

var statusName = map[int]string{ref.SelEnabled: "ENABLED", ref.SelDisabled: "DISABLED", ref.SelDestroyed: "DESTROYED", 0: "deleted"}

func keyDesc(k ref.SelKey) string {
	return fmt.Sprintf("%s id=%#x mat=%d", shapeOf(k), k.ID, k.Mat)
}

func keysetDesc(es []ref.SelEntry) string {
	var parts []string
	for _, e := range es {
		s := fmt.Sprintf("%s %s", keyDesc(e.SelKey), statusName[e.Status])
		if e.Primary {
			s += " PRIMARY"
		}
		parts = append(parts, s)
	}
	return "[" + strings.Join(parts, " | ") + "]"
}

// ---- keys, handles, single-key primitives (cached) -------------------------------------------------

func (c *class) keyPair(k ref.SelKey) keyPair {
	nk := norm(k)
	if v, ok := c.keys.Load(nk); ok {
		return v.(keyPair)
	}
	kp := c.mk(nk)
	c.keys.Store(nk, kp)
	return kp
}

func mkHandle(es []tk.Entry, ann map[string]string) (*keyset.Handle, error) {
	ks, err := tk.ProtoKeyset(es)
	if err != nil {
		return nil, err
	}
	if ann == nil {
		return testkeyset.NewHandle(ks)
	}
	return insecurecleartextkeyset.Read(&keyset.MemReaderWriter{Keyset: ks}, keyset.WithAnnotations(ann))
}

// handles builds the (private, public) keyset handles with exactly the given entries.
func (c *class) handles(es []ref.SelEntry, ann map[string]string) (hp, hpub *keyset.Handle, err error) {
	var pe, pube []tk.Entry
	for _, e := range es {
		kp := c.keyPair(e.SelKey)
		if kp.err != nil {
			return nil, nil, fmt.Errorf("key %s: %v", keyDesc(e.SelKey), kp.err)
		}
		pe = append(pe, tk.Entry{Key: kp.priv, ID: e.ID, Status: statusProto(e.Status), Primary: e.Primary})
		if c.asym {
			pube = append(pube, tk.Entry{Key: kp.pub, ID: e.ID, Status: statusProto(e.Status), Primary: e.Primary})
		}
	}
	if hp, err = mkHandle(pe, ann); err != nil {
		return nil, nil, err
	}
	if c.asym {
		if hpub, err = mkHandle(pube, ann); err != nil {
			return nil, nil, err
		}
	}
	return hp, hpub, nil
}

func (c *class) prodHandle(hp, hpub *keyset.Handle) *keyset.Handle {
	if c.prodPub {
		return hpub
	}
	return hp
}

func (c *class) accHandle(hp, hpub *keyset.Handle) *keyset.Handle {
	if c.accPub {
		return hpub
	}
	return hp
}

func singleEntry(k ref.SelKey) []ref.SelEntry {
	if k.Variant == ref.Raw {
		k.ID = singleRawID
	}
	return []ref.SelEntry{{SelKey: k, Status: ref.SelEnabled, Primary: true}}
}

type cachedBytes struct {
	b   []byte
	err error
}

// probe is the output of the single-key primitive of k (tink's factory over the one-key keyset {k}).
func (c *class) probe(k ref.SelKey) ([]byte, error) {
	nk := norm(k)
	if v, ok := c.probes.Load(nk); ok {
		return v.(cachedBytes).b, v.(cachedBytes).err
	}
	var out cachedBytes
	hp, hpub, err := c.handles(singleEntry(nk), nil)
	if err == nil {
		var produce produceFn
		if produce, err = c.producer(c.prodHandle(hp, hpub)); err == nil {
			if out.b, err = produce(nil); err == nil {
				if ok, known := independentlyValid(nk, out.b, nil); known && !ok {
					err = errNotUnderOwnKey{fmt.Sprintf("the output %x of the one-key keyset {%s} is not valid under that key's material and framing (independent oracle)", out.b, keyDesc(nk))}
				}
			}
		}
	}
	out.err = err
	c.probes.Store(nk, out)
	return out.b, out.err
}

type errNotUnderOwnKey struct{ s string }

func (e errNotUnderOwnKey) Error() string { return e.s }

type cachedAcceptor struct {
	f   acceptFn
	err error
}

// single is the accepting single-key primitive of k.
func (c *class) single(k ref.SelKey) (acceptFn, error) {
	nk := norm(k)
	if v, ok := c.singles.Load(nk); ok {
		return v.(cachedAcceptor).f, v.(cachedAcceptor).err
	}
	var out cachedAcceptor
	hp, hpub, err := c.handles(singleEntry(nk), nil)
	if err == nil {
		out.f, err = c.acceptor(c.accHandle(hp, hpub))
	}
	out.err = err
	c.singles.Store(nk, out)
	return out.f, out.err
}

// ---- universe ----------------------------------------------------------------------------------------

func otherID(id uint32) uint32 { return id ^ 1 }

// foreigners are the keys related to e an attacker / a sibling keyset could hold: every framing of e's
// key type x {e's id, a neighbour id} x {e's material, foreign material}; the same framing and id under
// another key type; for JWT a custom kid colliding with the TINK kid of e's id and an unrelated custom kid.
func (c *class) foreigners(e ref.SelKey, fmat int) []ref.SelKey {
	var out []ref.SelKey
	for _, s := range c.shapes {
		if s.Typ == e.Type {
			for _, id := range []uint32{e.ID, otherID(e.ID)} {
				for _, m := range []int{e.Mat, fmat} {
					out = append(out, s.key(id, m))
				}
			}
		} else if s.V == e.Variant && s.KidMode == e.KidMode {
			out = append(out, s.key(e.ID, e.Mat))
		}
	}
	if c.rule == ref.SelKidRule {
		tinkKid, _ := ref.SelTokenKid(ref.SelKey{KidMode: ref.SelKidTink, ID: e.ID})
		for _, m := range []int{e.Mat, fmat} {
			out = append(out, ref.SelKey{Type: e.Type, Variant: ref.Raw, Mat: m, KidMode: ref.SelKidCustom, CustomKid: tinkKid})
			out = append(out, ref.SelKey{Type: e.Type, Variant: ref.Raw, Mat: m, KidMode: ref.SelKidCustom, CustomKid: "kidB"})
		}
	}
	return out
}

func dedupe(ks []ref.SelKey) []ref.SelKey {
	seen := map[ref.SelKey]bool{}
	var out []ref.SelKey
	for _, k := range ks {
		nk := norm(k)
		if !seen[nk] {
			seen[nk] = true
			out = append(out, nk)
		}
	}
	return out
}

func (c *class) universe(es []ref.SelEntry, fmat int) []ref.SelKey {
	var u []ref.SelKey
	for _, e := range es {
		u = append(u, e.SelKey)
	}
	for _, e := range es {
		u = append(u, c.foreigners(e.SelKey, fmat)...)
	}
	return dedupe(u)
}

type probeT struct {
	maker ref.SelKey
	data  []byte
	msg   []byte // nil = the default message
	note  string
}

// forcedProbes (AEAD only): ciphertexts of a RAW AES-GCM entry whose IV was scripted through the entropy
// tape to START with the 5 prefix bytes of another (prefixed) entry: the wrapped primitive first tries that
// prefixed key, fails, and must fall back to the RAW keys.
var unforceable sync.Once

func (c *class) forcedProbes(es []ref.SelEntry, rep reportFn) []probeT {
	if c.name != "aead" {
		return nil
	}
	var out []probeT
	for _, r := range es {
		if r.Type != "aesgcm" || r.Variant != ref.Raw {
			continue
		}
		for _, p := range es {
			if p.Variant == ref.Raw {
				continue
			}
			pre := ref.SelPrefix(p.SelKey)
			type fk struct {
				k   ref.SelKey
				pre string
			}
			key := fk{norm(r.SelKey), string(pre)}
			v, ok := c.forced.Load(key)
			if !ok {
				var cb cachedBytes
				cb.b, cb.err = c.forcedCiphertext(r.SelKey, pre)
				c.forced.Store(key, cb)
				v = cb
			}
			cb := v.(cachedBytes)
			if cb.err == errUnforceable {
				unforceable.Do(func() {
					h.Assume("the AES-GCM IV could not be steered through the entropy tape on this tree: forced IV/prefix collisions of section collision/aead skipped (searched collisions still run)")
				})
				continue
			}
			if cb.err != nil {
				rep("harness-tape", "cannot force the IV of %s to start with %x: %v", keyDesc(r.SelKey), pre, cb.err)
				continue
			}
			out = append(out, probeT{maker: norm(r.SelKey), data: cb.b, note: fmt.Sprintf(" [IV forced to start with the prefix %x of entry %s]", pre, keyDesc(p.SelKey))})
		}
	}
	return out
}

func (c *class) forcedCiphertext(r ref.SelKey, pre []byte) ([]byte, error) {
	hp, _, err := c.handles(singleEntry(norm(r)), nil)
	if err != nil {
		return nil, err
	}
	produce, err := c.producer(hp)
	if err != nil {
		return nil, err
	}
	iv := append(bytes.Clone(pre), 0xC0, 0x05, 0xC0, 0x05, 0xC0, 0x05, 0xC0)
	// How the IV is cut out of the entropy stream is the implementation's business (first draw, the middle of a longer
	// draw, the second of two reads): answer the first draw with the IV, then try every rotation of a periodic stream
	t := tape.NewTape(nil)
	tape.Bind(t)
	defer tape.Unbind()
	t.Answer(t.Mark(), iv)
	ct, err := produce(nil)
	if err != nil {
		return nil, err
	}
	if bytes.HasPrefix(ct, iv) {
		return ct, nil
	}
	for r := 0; r < len(iv); r++ {
		r := r
		t.Rewind()
		t.Src = func(off int) byte { return iv[(off+r)%len(iv)] }
		ct, err := produce(nil)
		if err != nil {
			return nil, err
		}
		if bytes.HasPrefix(ct, iv) {
			return ct, nil
		}
	}
	return nil, errUnforceable
}

// errUnforceable: the harness could not steer the IV through the entropy tape (not a property violation).
var errUnforceable = errors.New("IV not steerable through the entropy tape")

// ---- the check of one keyset ---------------------------------------------------------------------------

type stats struct{ probes, accepted, rejected, forced int }

var sampleAt = map[string]int64{"mac": 150001, "signature": 210001, "jwtmac": 30001, "streamingaead": 1501}

func sampleRecord(c *class, es []ref.SelEntry, p probeT, verdict bool, ids []uint32) {
	if c.name == "aead" {
		// the first probe whose IV was forced through the entropy tape
		if p.note == "" || !c.sampleCount.CompareAndSwap(0, 1) {
			return
		}
	} else if at, ok := sampleAt[c.name]; !ok || c.sampleCount.Add(1) != at {
		return
	}
	h.MCSample(map[string]any{"class": c.name, "keyset": keysetDesc(es), "probe_made_by": keyDesc(p.maker) + p.note, "accepted": verdict, "model_acceptor_ids": fmt.Sprintf("%x", ids)})
}

// check judges the wrapped primitives built from (hp, hpub) against the model of keyset es.
func (c *class) check(es []ref.SelEntry, uni []ref.SelKey, extra []probeT, hp, hpub *keyset.Handle, rec *recorder, rep reportFn) (st stats) {
	desc := keysetDesc(es)
	if c.isPRF {
		return c.checkPRF(es, hp, rec, rep)
	}
	prim, ok := ref.SelPrimary(es)
	if !ok {
		rep("harness", "%s keyset %s has no enabled primary", c.name, desc)
		return
	}
	produce, err := c.producer(c.prodHandle(hp, hpub))
	if err != nil {
		rep("construct", "%s keyset %s: producer factory fails: %v", c.name, desc, err)
		return
	}
	accept, err := c.acceptor(c.accHandle(hp, hpub))
	if err != nil {
		rep("construct", "%s keyset %s: acceptor factory fails: %v", c.name, desc, err)
		return
	}
	mon := rec != nil && c.monitored
	if mon {
		rec.take()
	}

	// output rule
	out, err := produce(nil)
	if err != nil {
		rep("produce-error", "%s keyset %s: producing fails: %v", c.name, desc, err)
		return
	}
	if mon {
		evs := rec.take()
		if len(evs) != 1 || evs[0].failure || evs[0].keyID != prim.ID {
			rep("monitor-produce", "%s keyset %s: producing logged %v, want exactly one Log naming the primary %#x", c.name, desc, evs, prim.ID)
		}
	}
	if ok, why := c.framingOK(out, prim.SelKey); !ok {
		rep("output-framing", "%s keyset %s: %s", c.name, desc, why)
	}
	if ok, known := independentlyValid(prim.SelKey, out, nil); known && !ok {
		rep("output-not-by-primary", "%s keyset %s: the output %x is not valid under the primary's material and framing (independent oracle)", c.name, desc, out)
	}
	judges := []ref.SelKey{}
	for _, e := range es {
		judges = append(judges, e.SelKey)
	}
	judges = dedupe(append(judges, c.foreigners(prim.SelKey, foreignMat)...))
	for _, u := range judges {
		sa, err := c.single(u)
		if err != nil {
			rep("harness", "%s: single-key primitive of %s cannot be built: %v", c.name, keyDesc(u), err)
			continue
		}
		got, _ := sa(out, nil)
		want := ref.SelMatches(c.rule, u, prim.SelKey)
		st.probes++
		if got && !want {
			rep("output-valid-under-other-key", "%s keyset %s: the output is accepted by the single-key primitive of %s, which differs from the primary in material or framing", c.name, desc, keyDesc(u))
		} else if !got && want {
			rep("output-not-by-primary", "%s keyset %s: the output is rejected by the single-key primitive of %s (the primary's key under an equivalent framing)", c.name, desc, keyDesc(u))
		}
	}

	// acceptance rule
	var probes []probeT
	for _, u := range uni {
		b, err := c.probe(u)
		if _, bad := err.(errNotUnderOwnKey); bad {
			rep("single-key-output", "%s: %v", c.name, err)
			continue
		}
		if err != nil {
			rep("harness", "%s: single-key output of %s cannot be produced: %v", c.name, keyDesc(u), err)
			continue
		}
		probes = append(probes, probeT{maker: u, data: b})
	}
	fp := c.forcedProbes(es, rep)
	st.forced = len(fp)
	probes = append(probes, fp...)
	probes = append(probes, extra...)
	for _, p := range probes {
		ids := ref.SelAcceptors(c.rule, es, p.maker)
		want := len(ids) > 0
		got, anomaly := accept(p.data, p.msg)
		st.probes++
		if got {
			st.accepted++
		} else {
			st.rejected++
		}
		sampleRecord(c, es, p, got, ids)
		if anomaly != "" {
			rep("accept-anomaly", "%s keyset %s: input made by %s%s: %s", c.name, desc, keyDesc(p.maker), p.note, anomaly)
		}
		if got && !want {
			rep("accepts-invalid-input", "%s keyset %s ACCEPTS an input made by %s%s; no enabled entry has that material and framing", c.name, desc, keyDesc(p.maker), p.note)
		} else if !got && want {
			rep("rejects-valid-input", "%s keyset %s REJECTS an input made by %s%s; enabled entries %x match it", c.name, desc, keyDesc(p.maker), p.note, ids)
		}
		if mon {
			evs := rec.take()
			switch {
			case got && want:
				okID := false
				if len(evs) == 1 && !evs[0].failure {
					for _, id := range ids {
						okID = okID || id == evs[0].keyID
					}
				}
				if !okID {
					rep("monitor-accept", "%s keyset %s: accepting an input made by %s%s logged %v, want exactly one Log naming one of %x", c.name, desc, keyDesc(p.maker), p.note, evs, ids)
				}
			case !got && !want:
				if len(evs) != 1 || !evs[0].failure {
					rep("monitor-reject", "%s keyset %s: rejecting an input made by %s logged %v, want exactly one LogFailure", c.name, desc, keyDesc(p.maker), evs)
				}
			}
		}
	}
	return st
}

var prfInput = []byte("C05 prf input")

func (c *class) singlePRF(k ref.SelKey) ([]byte, error) {
	nk := norm(k)
	if v, ok := c.probes.Load(nk); ok {
		return v.(cachedBytes).b, v.(cachedBytes).err
	}
	var out cachedBytes
	hp, _, err := c.handles(singleEntry(nk), nil)
	if err == nil {
		var set *prf.Set
		if set, err = prf.NewPRFSet(hp); err == nil {
			out.b, err = set.ComputePrimaryPRF(prfInput, 16)
		}
	}
	out.err = err
	c.probes.Store(nk, out)
	return out.b, out.err
}

func (c *class) checkPRF(es []ref.SelEntry, hp *keyset.Handle, rec *recorder, rep reportFn) (st stats) {
	desc := keysetDesc(es)
	set, err := prf.NewPRFSet(hp)
	if err != nil {
		rep("construct", "prf keyset %s: NewPRFSet fails: %v", desc, err)
		return
	}
	if rec != nil {
		rec.take()
	}
	wantPrimary, wantIDs := ref.SelPRFSet(es)
	if set.PrimaryID != wantPrimary {
		rep("prf-primary", "prf keyset %s: PrimaryID=%#x, want %#x", desc, set.PrimaryID, wantPrimary)
	}
	var got []uint32
	for id := range set.PRFs {
		got = append(got, id)
	}
	sort.Slice(got, func(i, j int) bool { return got[i] < got[j] })
	want := append([]uint32{}, wantIDs...)
	sort.Slice(want, func(i, j int) bool { return want[i] < want[j] })
	if fmt.Sprint(got) != fmt.Sprint(want) {
		rep("prf-ids", "prf keyset %s: PRFs has ids %x, want the enabled entries %x", desc, got, want)
	}
	for _, e := range es {
		p, ok := set.PRFs[e.ID]
		if !ok || e.Status != ref.SelEnabled {
			continue
		}
		st.probes++
		st.accepted++
		o, err := p.ComputePRF(prfInput, 16)
		if err != nil {
			rep("prf-output", "prf keyset %s: PRFs[%#x].ComputePRF fails: %v", desc, e.ID, err)
			continue
		}
		if rec != nil {
			evs := rec.take()
			if len(evs) != 1 || evs[0].failure || evs[0].keyID != e.ID {
				rep("monitor-produce", "prf keyset %s: PRFs[%#x].ComputePRF logged %v, want exactly one Log naming %#x", desc, e.ID, evs, e.ID)
			}
		}
		w, err := c.singlePRF(e.SelKey)
		if err != nil {
			rep("harness", "prf: single-key PRF of %s: %v", keyDesc(e.SelKey), err)
			continue
		}
		if !bytes.Equal(o, w) {
			rep("prf-output", "prf keyset %s: PRFs[%#x] = %x, the single-key PRF of %s gives %x", desc, e.ID, o, keyDesc(e.SelKey), w)
		}
		if iw := independentPRF(e.SelKey, prfInput, 16); iw != nil && !bytes.Equal(o, iw) {
			rep("prf-output", "prf keyset %s: PRFs[%#x] = %x, the reference PRF of %s gives %x", desc, e.ID, o, keyDesc(e.SelKey), iw)
		}
		// the comparison is meaningful only if other material gives another value
		f, err := c.singlePRF(shapeOf(e.SelKey).key(0, foreignMat+7))
		if err == nil && bytes.Equal(f, w) {
			rep("harness", "prf: foreign material gives the same PRF value")
		}
		if e.Primary {
			o2, err := set.ComputePrimaryPRF(prfInput, 16)
			if err != nil || !bytes.Equal(o2, w) {
				rep("prf-primary", "prf keyset %s: ComputePrimaryPRF = %x (%v), want the primary's %x", desc, o2, err, w)
			}
			if rec != nil {
				rec.take()
			}
		}
	}
	return st
}

// ---- (a) all keysets -------------------------------------------------------------------------------------

type letter struct {
	sh     int
	status int
	id     uint32
	mat    int
}

var alphaCache sync.Map

func (c *class) alphabet(thorough bool, size, pos int) []letter {
	type ak struct {
		c         *class
		th        bool
		size, pos int
	}
	key := ak{c, thorough, size, pos}
	if size < 3 {
		key.pos = 0
		if thorough || !c.slow {
			key.size = 1 // sizes 1 and 2 share one alphabet
		}
	}
	if v, ok := alphaCache.Load(key); ok {
		return v.([]letter)
	}
	var out []letter
	if size < 3 {
		ids := []uint32{0, 1, 0xFFFFFFFF}
		if thorough && !c.slow {
			ids = append(ids, 0x01000000) // TINK prefix 01 01 00 00 00 / CRUNCHY prefix 00 01 00 00 00
		}
		if !thorough && c.slow && size == 2 {
			ids = []uint32{1, 0xFFFFFFFF} // quick tier, classes with slow public-key operations
		}
		for sh := range c.shapes {
			for _, st := range []int{ref.SelEnabled, ref.SelDisabled, ref.SelDestroyed} {
				for _, id := range ids {
					for _, mat := range []int{0, 1} {
						out = append(out, letter{sh, st, id, mat})
					}
				}
			}
		}
	} else {
		// reduced positional alphabet: ids 1,2,3; material 0,1,0 (first and third key share material)
		for sh, s := range c.shapes {
			if !thorough && s.Typ != c.shapes[0].Typ {
				continue
			}
			for _, st := range []int{ref.SelEnabled, ref.SelDisabled} {
				out = append(out, letter{sh, st, []uint32{1, 2, 3}[pos], []int{0, 1, 0}[pos]})
			}
		}
	}
	alphaCache.Store(key, out)
	return out
}

func (c *class) letterName(l letter) string {
	return fmt.Sprintf("%s %s id=%#x mat=%d", c.shapes[l.sh], statusName[l.status], l.id, l.mat)
}

func keysetsBody(c *class) func(x *h.X) {
	return func(x *h.X) {
		size := 1 + x.Choose("size", 3)
		var es []ref.SelEntry
		sum := 0
		for pos := 0; pos < size; pos++ {
			al := c.alphabet(x.Thorough(), size, pos)
			i := x.Choose(fmt.Sprintf("key%d", pos), len(al))
			l := al[i]
			x.Label(c.letterName(l))
			sum += i
			for _, e := range es {
				if e.ID == l.id {
					return // key ids of a keyset are distinct
				}
			}
			es = append(es, ref.SelEntry{SelKey: c.shapes[l.sh].key(l.id, l.mat), Status: l.status})
		}
		var enabled []int
		for i, e := range es {
			if e.Status == ref.SelEnabled {
				enabled = append(enabled, i)
			}
		}
		if len(enabled) == 0 {
			return // no admissible primary
		}
		pi := x.Choose("primary", len(enabled))
		es[enabled[pi]].Primary = true
		mon := false
		if c.monitored {
			if x.Thorough() {
				mon = x.Choose("monitoring", 2) == 1
			} else {
				mon = (sum+pi)%2 == 1
			}
		}
		var rec *recorder
		var ann map[string]string
		if mon {
			rec = newRecorder()
			defer rec.close()
			ann = rec.annotations()
		}
		hp, hpub, err := c.handles(es, ann)
		if err != nil {
			x.Fail("construct", "%s keyset %s: cannot build the handle: %v", c.name, keysetDesc(es), err)
			return
		}
		st := c.check(es, c.universe(es, foreignMat), nil, hp, hpub, rec, x.Fail)
		x.NonTrivial()
		x.Eval(st.probes)
		x.OutcomeN("accept", st.accepted)
		x.OutcomeN("reject", st.rejected)
		x.Outcome(fmt.Sprintf("size=%d primary=%s monitoring=%v", size, shapeOf(es[enabled[pi]].SelKey), mon))
		if mon {
			x.Count("keysets_with_monitoring", 1)
		}
		if st.forced > 0 {
			x.Count("probes_with_forced_iv", st.forced)
		}
		h.AddMC(1, int64(st.probes), 1)
	}
}

// ---- (c) forced prefix collisions ----------------------------------------------------------------------------
// For every class whose wrapper looks candidates up in the prefix map, an output o of a RAW key is SEARCHED
// (messages for deterministic primitives, entropy-tape seeds for randomised ones) whose first byte is 0x00 or
// 0x01; the id of the OTHER key is then chosen after the fact as big-endian(o[1:5]) (TINK for 0x01, CRUNCHY /
// LEGACY for 0x00), so that o carries that key's 5-byte output prefix. The wrapped primitive tries the prefixed
// key first, fails, and must still fall back to the RAW key (and name the RAW key in monitoring).

const collisionTries = 4000

type collision struct {
	raw   ref.SelKey
	out   []byte
	msg   []byte
	tries int
	err   error
}

func seededSrc(seed int) func(off int) byte {
	return func(off int) byte { return tape.CounterSrc(off + 4*104729*(seed+1)) }
}

func (c *class) findCollision(sh shape, first byte) *collision {
	type ck struct {
		sh    shape
		first byte
	}
	if v, ok := c.collisions.Load(ck{sh, first}); ok {
		return v.(*collision)
	}
	col := &collision{raw: sh.key(0, 0)}
	defer c.collisions.Store(ck{sh, first}, col)
	hp, hpub, err := c.handles(singleEntry(col.raw), nil)
	if err != nil {
		col.err = err
		return col
	}
	produce, err := c.producer(c.prodHandle(hp, hpub))
	if err != nil {
		col.err = err
		return col
	}
	t := tape.NewTape(nil)
	tape.Bind(t)
	defer tape.Unbind()
	for i := 0; i < collisionTries; i++ {
		t.Rewind()
		t.Src = seededSrc(i)
		m := append(bytes.Clone(msg), byte(i>>8), byte(i))
		o, err := produce(m)
		if err != nil {
			col.err = err
			return col
		}
		if len(o) >= 5 && o[0] == first {
			col.out, col.msg, col.tries = o, m, i+1
			return col
		}
	}
	col.tries = collisionTries
	return col
}

func collisionBody(c *class) func(x *h.X) {
	var raws []shape
	for _, s := range c.shapes {
		if s.V == ref.Raw {
			raws = append(raws, s)
		}
	}
	return func(x *h.X) {
		rs := h.Pick(x, "raw-key-type", raws)
		first := h.Pick(x, "first-output-byte", []byte{1, 0})
		col := c.findCollision(rs, first)
		if col.err != nil {
			x.Fail("harness", "%s: searching an output of %s starting with %02x: %v", c.name, rs, first, col.err)
			return
		}
		if col.out == nil {
			x.Outcome(fmt.Sprintf("collision-not-found:%s/%s/first-byte-%02x", c.name, rs.Typ, first))
			return
		}
		id := uint32(col.out[1])<<24 | uint32(col.out[2])<<16 | uint32(col.out[3])<<8 | uint32(col.out[4])
		var pres []shape
		for _, s := range c.shapes {
			if (col.out[0] == 1 && s.V == ref.Tink) || (col.out[0] == 0 && (s.V == ref.Crunchy || s.V == ref.Legacy)) {
				pres = append(pres, s)
			}
		}
		ps := h.Pick(x, "colliding-prefixed-key", pres)
		P := ref.SelEntry{SelKey: ps.key(id, 1), Status: ref.SelEnabled}
		R := ref.SelEntry{SelKey: rs.key(0x52, 0), Status: ref.SelEnabled}
		if !bytes.HasPrefix(col.out, ref.SelPrefix(P.SelKey)) {
			x.Fail("harness", "%s: collision %x does not carry the prefix of %s", c.name, col.out[:5], keyDesc(P.SelKey))
			return
		}
		prim := func(e ref.SelEntry) ref.SelEntry { e.Primary = true; return e }
		dis := func(e ref.SelEntry) ref.SelEntry { e.Status = ref.SelDisabled; return e }
		// X: an unrelated enabled prefixed key (neighbour id) for the 3-key layouts
		X := ref.SelEntry{SelKey: ps.key(id^1, 1), Status: ref.SelEnabled}
		var es []ref.SelEntry
		switch h.Pick(x, "layout", []string{"[P*,R]", "[P,R*]", "[R*,P]", "[R,P*]", "[P disabled,R*,X]", "[R,X*,P disabled]"}) {
		case "[P*,R]":
			es = []ref.SelEntry{prim(P), R}
		case "[P,R*]":
			es = []ref.SelEntry{P, prim(R)}
		case "[R*,P]":
			es = []ref.SelEntry{prim(R), P}
		case "[R,P*]":
			es = []ref.SelEntry{R, prim(P)}
		case "[P disabled,R*,X]":
			es = []ref.SelEntry{dis(P), prim(R), X}
		default:
			es = []ref.SelEntry{R, prim(X), dis(P)}
		}
		var rec *recorder
		var ann map[string]string
		if c.monitored {
			rec = newRecorder()
			defer rec.close()
			ann = rec.annotations()
		}
		hp, hpub, err := c.handles(es, ann)
		if err != nil {
			x.Fail("construct", "%s keyset %s: cannot build the handle: %v", c.name, keysetDesc(es), err)
			return
		}
		extra := []probeT{{maker: norm(R.SelKey), data: col.out, msg: col.msg,
			note: fmt.Sprintf(" [output %x... found after %d tries, starts with the output prefix of %s]", col.out[:5], col.tries, keyDesc(P.SelKey))}}
		st := c.check(es, c.universe(es, foreignMat), extra, hp, hpub, rec, x.Fail)
		x.NonTrivial()
		x.Eval(st.probes)
		x.Outcome(fmt.Sprintf("collision:%s/%s~%s", c.name, rs.Typ, ps))
		x.Count("collision_probes", 1)
		h.AddMC(1, int64(st.probes), 1)
	}
}

// ---- (b) rotation histories --------------------------------------------------------------------------------

var rotIDs = []uint32{7, 0xFFFFFFFF, 0x01000000, 0} // id requirement of the i-th created key (if its shape has one)

const rotForeignMat = 9

type rkey struct {
	k       ref.SelKey
	status  int // 0 = deleted
	primary bool
}

type rotation struct {
	c       *class
	section string
	maxKeys int
	adds    []int // shape indices of the Add alphabet
}

var rotKinds = []string{"SetPrimary", "Enable", "Disable", "Delete"}

func (r *rotation) numOps() int { return len(r.adds) + 4*r.maxKeys }

func (r *rotation) opName(o int) string {
	if o < len(r.adds) {
		return "Add(" + r.c.shapes[r.adds[o]].String() + ")"
	}
	o -= len(r.adds)
	return fmt.Sprintf("%s(key#%d)", rotKinds[o/r.maxKeys], o%r.maxKeys)
}

func (r *rotation) names(hist []int) []string {
	var out []string
	for _, o := range hist {
		out = append(out, r.opName(o))
	}
	return out
}

func (r *rotation) run(hist []int, verbose bool) (string, bool, bool) {
	c := r.c
	if len(hist) == 0 {
		return "<empty manager>", true, false
	}
	rep := func(key, format string, a ...any) {
		names := r.names(hist)
		h.ReportExternal(r.section, key, fmt.Sprintf(format, a...)+"\n  history: "+strings.Join(names, " ; "), hist, names)
	}
	km := keyset.NewManager()
	var ks []rkey
	for _, o := range hist {
		var err error
		if o < len(r.adds) {
			i := len(ks)
			if i >= r.maxKeys {
				return "", false, false
			}
			k := c.shapes[r.adds[o]].key(rotIDs[i], i)
			kp := c.keyPair(k)
			if kp.err != nil {
				rep("harness", "key %s: %v", keyDesc(k), kp.err)
				return "", false, false
			}
			var id uint32
			if id, err = km.AddKey(kp.priv); err == nil {
				if k.Variant == ref.Raw {
					k.ID = id // chosen by the manager: read back
				} else if id != k.ID {
					err = fmt.Errorf("AddKey returned id %#x for a key requiring %#x", id, k.ID)
				}
				ks = append(ks, rkey{k: k, status: ref.SelEnabled})
			}
		} else {
			kind, i := (o-len(r.adds))/r.maxKeys, (o-len(r.adds))%r.maxKeys
			if i >= len(ks) || ks[i].status == 0 {
				return "", false, false
			}
			id := ks[i].k.ID
			switch kind {
			case 0:
				if ks[i].status != ref.SelEnabled || ks[i].primary {
					return "", false, false
				}
				if err = km.SetPrimary(id); err == nil {
					for j := range ks {
						ks[j].primary = j == i
					}
				}
			case 1:
				if ks[i].status != ref.SelDisabled {
					return "", false, false
				}
				if err = km.Enable(id); err == nil {
					ks[i].status = ref.SelEnabled
				}
			case 2:
				if ks[i].status != ref.SelEnabled || ks[i].primary {
					return "", false, false
				}
				if err = km.Disable(id); err == nil {
					ks[i].status = ref.SelDisabled
				}
			case 3:
				if ks[i].primary {
					return "", false, false
				}
				if err = km.Delete(id); err == nil {
					ks[i].status = 0
				}
			}
		}
		if err != nil {
			rep("manager-op", "%s: keyset.Manager refuses %s: %v", c.name, r.opName(o), err)
			return "", false, false
		}
	}
	var sb strings.Builder
	var es []ref.SelEntry
	var ever []ref.SelKey
	hasPrimary := false
	for _, k := range ks {
		fmt.Fprintf(&sb, "%s:%d:%v;", shapeOf(k.k), k.status, k.primary)
		ever = append(ever, k.k)
		if k.status != 0 {
			es = append(es, ref.SelEntry{SelKey: k.k, Status: k.status, Primary: k.primary})
		}
		hasPrimary = hasPrimary || k.primary
	}
	state := sb.String()
	if verbose {
		fmt.Println("    state:", state, keysetDesc(es))
	}
	if !hasPrimary {
		return state, true, false
	}
	hp, err := km.Handle()
	if err != nil {
		rep("manager-op", "%s: Handle() fails in state %s: %v", c.name, keysetDesc(es), err)
		return state, true, false
	}
	if hp.Len() != len(es) {
		rep("manager-op", "%s: Handle() has %d entries, the history implies %s", c.name, hp.Len(), keysetDesc(es))
		return state, true, false
	}
	for i, e := range es {
		he, _ := hp.Entry(i)
		if he.KeyID() != e.ID || he.IsPrimary() != e.Primary || (he.KeyStatus() == keyset.Enabled) != (e.Status == ref.SelEnabled) {
			rep("manager-op", "%s: Handle() entry %d is (id=%#x primary=%v %v), the history implies %s", c.name, i, he.KeyID(), he.IsPrimary(), he.KeyStatus(), keysetDesc(es))
			return state, true, false
		}
	}
	var hpub *keyset.Handle
	if c.asym {
		if hpub, err = hp.Public(); err != nil {
			// keys served by custom key managers have no PublicKey(): mirror the keyset with the public halves
			if _, hpub, err = c.handles(es, nil); err != nil {
				rep("harness", "%s: public keyset of %s: %v", c.name, keysetDesc(es), err)
				return state, true, false
			}
		}
	}
	prim, _ := ref.SelPrimary(es)
	uni := append(append([]ref.SelKey{}, ever...), shapeOf(prim.SelKey).key(prim.ID, rotForeignMat))
	st := c.check(es, dedupe(uni), nil, hp, hpub, nil, rep)
	h.AddMC(0, int64(st.probes), 0)
	return state, true, false
}

func rotationBody(c *class, section string, maxKeys int, fullAlphabet bool) func(x *h.X) {
	return func(x *h.X) {
		r := &rotation{c: c, section: section, maxKeys: maxKeys}
		for i, s := range c.shapes {
			if fullAlphabet && x.Thorough() {
				r.adds = append(r.adds, i)
				continue
			}
			for _, n := range c.rotQuick {
				if s.String() == n {
					r.adds = append(r.adds, i)
				}
			}
		}
		if x.Replaying() {
			r.run(x.ReplayVector(), true)
			return
		}
		cfg := space.Config{NumOps: func([]int) int { return r.numOps() }, Deadline: h.Deadline(), MaxStates: 3000000,
			Stop: func() bool { return h.ViolationCount() >= 25 },
			Progress: func(d, s, t, f int) {
				if os.Getenv("VERIF_PROGRESS") != "" {
					fmt.Fprintf(os.Stderr, "  %s depth=%d states=%d transitions=%d frontier=%d\n", c.name, d, s, t, f)
				}
			}}
		st := space.Explore(cfg, func(hist []int) (string, bool, bool) { return r.run(hist, false) })
		valid := st.Transitions - st.Pruned
		h.AddMC(st.States, 0, valid)
		x.Eval(int(valid))
		x.NonTrivial()
		x.Outcome(fmt.Sprintf("fixpoint=%v", st.Fixpoint))
		x.Count("states", int(st.States))
		x.Count("transitions", int(valid))
		x.Count("depth", st.Depth)
		x.Count("add_alphabet", len(r.adds))
		if !st.Fixpoint {
			h.NotExhaustive(section + " stopped before the fixpoint: " + st.Capped)
		}
		if n := len(st.Sample); n > 0 && section == "rotation/aead" {
			h.MCSample(map[string]any{"class": c.name, "history": r.names(st.Sample[n-1])})
		}
	}
}

func main() {
	setupParams()
	registerCustom()
	registerMonitoring()
	setupJWT()
	setupClasses()
	registerAnswerKMs()
	setupAnswerFactories()
	tape.InstallMux()
	var secs []h.Section
	for _, c := range classes {
		secs = append(secs, h.Section{Name: "keysets/" + c.name, Body: keysetsBody(c), Bound: -1})
	}
	for _, c := range classes {
		if !c.isPRF && (c.rule == ref.SelPrefixRule || c.rule == ref.SelPrefixLegacyRule) {
			secs = append(secs, h.Section{Name: "collision/" + c.name, Body: collisionBody(c), Bound: -1})
		}
	}
	for _, c := range classes {
		secs = append(secs, h.Section{Name: "rotation/" + c.name, Body: rotationBody(c, "rotation/"+c.name, 3, true), Bound: -1, Serial: true})
	}
	for _, c := range classes {
		// thorough only: histories with up to FOUR keys over the reduced Add alphabet
		n := "rotation4/" + c.name
		secs = append(secs, h.Section{Name: n, Body: rotationBody(c, n, 4, false), Bound: -1, Serial: true, Tiers: "thorough"})
	}
	secs = append(secs, h.Section{Name: "cryptofmt-output-prefix", Body: cryptofmtSection, Bound: -1})
	// monitoring client as a faulty collaborator (monfaults.go): Serial, it swaps the process-global client
	secs = append(secs, h.Section{Name: "monitoring-faults", Body: monitoringFaultsSection, Bound: 1, Serial: true})
	// key managers as collaborators with unusual answers (kmanswers.go)
	secs = append(secs, h.Section{Name: "keymanager-answers", Body: kmAnswersSection, Bound: 1})
	h.Main("C05", "model_checking",
		"per primitive class (AEAD, DAEAD, MAC, signature, hybrid, streaming AEAD, PRF set, JWT MAC, JWT signature; 2-3 key types each incl. legacy non-full primitives via KmsEnvelopeAeadKey / custom key managers): (a) all keysets of size 1-2 over {shapes} x {ENABLED,DISABLED,DESTROYED} x ids {0,1,0xFFFFFFFF} x material {0,1} x every primary x both orders, size 3 over a reduced alphabet; (b) BFS to fixpoint over keyset.Manager histories (<= 3 keys, thorough also <= 4 keys over a reduced Add alphabet; SetPrimary/Enable/Disable/Delete). A state is one keyset / manager state; a transition is one probe (an output of a single key of the universe, or the wrapped primitive's own output judged by a single-key primitive) whose verdict and monitoring events are compared with the selection model verif/ref/selection.go. (d) monitoring-faults: factories of the monitored classes x annotated keysets {[A*],[A*,B],[A,B*]} x the NewLogger call that fails {-1 (healthy),0,1,2,3}: error, or a primitive whose operations never panic and give the model's verdicts and events. (e) keymanager-answers: 9 factories (AEAD, DAEAD, MAC, signer, verifier, hybrid encrypt / decrypt, PRF set, streaming AEAD) x keysets {[C*],[R*,C],[C*,R],[R,C,R2*]} (C a key served by a custom key manager, R regular keys) x prefix type of C x Primitive() answer {correct, (nil,error), (nil,nil), primitive of another class, typed nil pointer} and, on handle.Public(), PublicKeyData() answer {correct, error, nil, other type URL}, at most one unusual answer: Public() / the factory report an error, or the primitive never panics, produces with the primary (an error if the primary is the unusable key) and accepts / rejects as C05 says on the usable keys. An execution is non-trivial when a wrapped primitive was built and probed (monitoring-faults: when the factory was called).",
		secs)
}
