package main

// (3) header / payload / token-structure / signature manipulation catalogue, and the fractional
// NumericDate probe. All tokens here are written by the harness (own JSON text, own base64url, signed
// with the real key through ref.JWTSign / the stdlib ML-DSA oracle), so that exactly the rule under
// test decides.

import (
	"crypto"
	"crypto/ecdsa"
	"crypto/rsa"
	_ "crypto/sha256"
	_ "crypto/sha512"
	"encoding/asn1"
	"fmt"
	"math/big"
	"strconv"
	"strings"
	"time"

	"github.com/tink-crypto/tink-go/v2/jwt"
	"verif/h"
	"verif/ref"
)

type entry struct {
	name   string
	token  string
	expect byte // by construction, under the lenient validator: 'A' accept, 'R' reject, 'D' don't care, 0 = not stated
}

type manip struct {
	b       *builtKey
	pair    bool   // keyset also holds a second key: same material, other kid / key id
	kid2    string // the second key's kid
	baseH   []kv
	baseP   []kv
	signErr error
}

func (m *manip) sig(alg, input string) []byte {
	s, err := m.b.sign(alg, []byte(input))
	if err != nil && m.signErr == nil {
		m.signErr = err
	}
	return s
}

// tok signs header.payload with the key's own algorithm.
func (m *manip) tok(header, payload []byte) string {
	in := signingInput(header, payload)
	return in + "." + ref.JWTB64Encode(m.sig(m.b.alg, in))
}

// resign signs an arbitrary literal signing input.
func (m *manip) resign(in string) string { return in + "." + ref.JWTB64Encode(m.sig(m.b.alg, in)) }

func (m *manip) kidExpect(kind string) byte {
	// kind: "wrong", "missing", "nonstring", "other" (the second key's kid)
	switch m.b.kidMode {
	case ref.JWTKidIgnored:
		return 'A'
	case ref.JWTKidCustom:
		if kind == "missing" || (kind == "other" && m.pair) {
			return 'A'
		}
		return 'R'
	}
	if kind == "other" && m.pair {
		return 'A'
	}
	return 'R'
}

func (m *manip) headerEntries() []entry {
	A, H, P := m.b.alg, m.baseH, render(m.baseP)
	var es []entry
	add := func(name string, header []byte, expect byte) {
		es = append(es, entry{"header " + name, m.tok(header, P), expect})
	}
	add("base", render(H), 'A')
	algs := append([]string{"none", "None", "NONE", "nOnE", "", strings.ToLower(A), strings.ToUpper(A) + " ", " " + A, A + "\x00", A[:len(A)-1], A + "6", "HS", "null"}, allAlgs...)
	for _, a := range algs {
		exp := byte('R')
		if a == A {
			exp = 'A'
		}
		add("alg="+strconv.Quote(a), render(with(H, "alg", jstr(a))), exp)
	}
	add("alg with \\u escape of its first letter", render(with(H, "alg", fmt.Sprintf(`"\u%04x%s"`, A[0], A[1:]))), 'A')
	for _, raw := range []string{`1`, `null`, `true`, `false`, `[` + jstr(A) + `]`, `{"alg":` + jstr(A) + `}`, `256`, `[]`, `{}`} {
		add("alg non-string "+raw, render(with(H, "alg", raw)), 'R')
	}
	add("alg missing", render(without(H, "alg")), 'R')
	add("alg member name in other case", render(append(without(H, "alg"), kv{"ALG", jstr(A)})), 'R')

	K := m.b.ref.Kid
	if m.b.kidMode == ref.JWTKidIgnored {
		K = "any"
	}
	add("kid correct", render(with(H, "kid", jstr(K))), 'A')
	for _, w := range []string{"AAAAAA", K + "A", "", strings.ToLower(K) + "x", " " + K, K + "\x00", ref.JWTTinkKid(0), ref.JWTTinkKid(m.b.id + 1), ref.JWTTinkKid(m.b.id ^ 0x80000000)} {
		if w == m.kid2 {
			continue
		}
		add("kid wrong "+strconv.Quote(w), render(with(H, "kid", jstr(w))), m.kidExpect("wrong"))
	}
	if sw := swapCase(K); sw != K && sw != m.kid2 {
		add("kid with letter case swapped "+strconv.Quote(sw), render(with(H, "kid", jstr(sw))), m.kidExpect("wrong"))
	}
	add("kid of the second key", render(with(H, "kid", jstr(m.kid2))), m.kidExpect("other"))
	add("kid missing", render(without(H, "kid")), m.kidExpect("missing"))
	for _, raw := range []string{`1`, `null`, `true`, `[` + jstr(K) + `]`, `{"kid":` + jstr(K) + `}`, `[]`, `16909060`} {
		add("kid non-string "+raw, render(with(H, "kid", raw)), m.kidExpect("nonstring"))
	}
	if m.b.kidMode == ref.JWTKidTink {
		// the kid as other encodings of the key id
		id := m.b.id
		for _, w := range []string{fmt.Sprint(id), fmt.Sprintf("%08x", id), ref.JWTB64Encode([]byte{byte(id), byte(id >> 8), byte(id >> 16), byte(id >> 24)}), ref.JWTB64Encode([]byte{1, byte(id >> 24), byte(id >> 16), byte(id >> 8), byte(id)}), K + "=="} {
			add("kid other encoding "+strconv.Quote(w), render(with(H, "kid", jstr(w))), 'R')
		}
	}
	for _, raw := range []string{`["exp"]`, `[]`, `null`, `"x"`, `1`, `true`, `false`, `{}`, `["kid"]`, `["alg","typ"]`} {
		add("crit "+raw, render(with(H, "crit", raw)), 'R')
	}
	add("crit member name in other case (unknown header)", render(with(H, "Crit", `["exp"]`)), 'A')
	for _, s := range []string{"JWT", "x", "", "jwt", "application/jwt", "é"} {
		add("typ "+strconv.Quote(s), render(with(H, "typ", jstr(s))), 0)
	}
	for _, raw := range []string{`1`, `null`, `true`, `["JWT"]`, `{}`, `[]`, `0`} {
		add("typ non-string "+raw, render(with(H, "typ", raw)), 'R')
	}
	base := string(render(H))
	for _, raw := range []string{`[]`, `[` + base + `]`, jstr(A), `null`, `123`, `true`, ``, `{}`, base + `x`, base + base, base[:len(base)-1] + `,}`, strings.ReplaceAll(base, `"`, `'`),
		strings.Replace(base, `"alg"`, `alg`, 1), base + `//c`, `/*c*/` + base, base[:len(base)-1], "\ufeff" + base, base + "\x00", strings.Replace(base, ":", "=", 1)} {
		add("not a JSON object "+strconv.Quote(raw), []byte(raw), 'R')
	}
	for _, raw := range []string{" " + base + " ", "\n\t" + base + "\r\n", strings.ReplaceAll(strings.ReplaceAll(base, ",", " ,\n "), ":", " : ")} {
		add("JSON whitespace "+strconv.Quote(raw), []byte(raw), 'A')
	}
	for _, f := range []kv{{"jku", `"https://attacker.example/keys"`}, {"jwk", `{"kty":"oct","k":"AAAA"}`}, {"x5c", `["AAAA"]`}, {"x5u", `"https://x"`}, {"foo", `null`}, {"cty", `"JWT"`}, {"n", `1e400`}, {"", `""`}, {"exp", `1`}, {"nested", `{"alg":"none","crit":["x"]}`}} {
		_, pre := map[string]bool{"n": true}[f.k]
		exp := byte('A')
		if pre {
			exp = 0 // a number beyond float64 in an ignored header: not judged by construction
		}
		add("extra header "+f.k, render(with(H, f.k, f.raw)), exp)
	}
	add("invalid UTF-8 in typ", render(with(H, "typ", "\"J\xffT\"")), 'R')
	add("invalid UTF-8 in unknown header value", render(with(H, "foo", "\"\xc0\xaf\"")), 'R')
	add("invalid UTF-8 in header member name", []byte(base[:len(base)-1]+",\"f\xed\xa0\x80\":1}"), 'R')
	add("invalid UTF-8 in alg", render(with(H, "alg", "\""+A+"\xff\"")), 'R')
	// duplicate member names: don't care
	add("duplicate alg (none first)", []byte(`{"alg":"none",`+base[1:]), 'D')
	add("duplicate alg (none last)", []byte(base[:len(base)-1]+`,"alg":"none"}`), 'D')
	add("duplicate kid", []byte(base[:len(base)-1]+`,"kid":"AAAAAA"}`), map[bool]byte{true: 'D', false: 'A'}[m.b.kidMode != ref.JWTKidIgnored])
	add("duplicate crit", []byte(base[:len(base)-1]+`,"crit":["a"],"crit":["a"]}`), 'D')
	add("duplicate unknown", []byte(base[:len(base)-1]+`,"u":1,"u":2}`), 'D')
	return es
}

func (m *manip) payloadEntries() []entry {
	Hd, P := render(m.baseH), m.baseP
	var es []entry
	add := func(name string, payload []byte, expect byte) {
		es = append(es, entry{"payload " + name, m.tok(Hd, payload), expect})
	}
	good := strconv.FormatInt(nowSec+100, 10)
	past := strconv.FormatInt(nowSec-100, 10)
	add("base", render(P), 'A')
	add("{}", []byte(`{}`), 'A')
	add("only exp", []byte(`{"exp":`+good+`}`), 'A')
	for _, c := range []string{"exp", "nbf", "iat"} {
		v := good
		if c != "exp" {
			v = past
		}
		for _, raw := range []string{`"` + v + `"`, `null`, `true`, `false`, `[]`, `{}`, `[` + v + `]`, `""`} {
			add(c+" type "+raw, render(with(P, c, raw)), 'R')
		}
		for _, raw := range []string{`-1`, `253402300800`, `1e30`, `-1e30`, `1e400`, `-1e400`, `9223372036854775807`, `9223372036854775808`, `18446744073709551616`, `-9223372036854775809`, `1e19`, `4294967296000000000`} {
			add(c+" out of range "+raw, render(with(P, c, raw)), 'R')
		}
		for _, raw := range []string{v + `.0`, v[:2] + "." + v[2:] + "e" + strconv.Itoa(len(v)-2), v + `00e-2`, v + `e0`, v + `E+0`} {
			add(c+" number format "+raw, render(with(P, c, raw)), 'A')
		}
	}
	add("exp = 253402300799 (max)", render(with(P, "exp", `253402300799`)), 'A')
	add("nbf = 253402300799 (max)", render(with(P, "nbf", `253402300799`)), 'R')
	add("exp = 0", render(with(P, "exp", `0`)), 'R')
	add("exp = -0", render(with(P, "exp", `-0`)), 'R')
	add("nbf = 0, iat = 0", render(with(with(P, "nbf", `0`), "iat", `0`)), 'A')
	add("exp = now (expired exactly)", render(with(P, "exp", strconv.FormatInt(nowSec, 10))), 'R')
	add("exp = now+1", render(with(P, "exp", strconv.FormatInt(nowSec+1, 10))), 'A')
	add("nbf = now", render(with(P, "nbf", strconv.FormatInt(nowSec, 10))), 'A')
	add("nbf = now+1", render(with(P, "nbf", strconv.FormatInt(nowSec+1, 10))), 'R')
	for _, c := range []string{"iss", "sub", "jti"} {
		for _, raw := range []string{`1`, `null`, `true`, `["x"]`, `{}`, `[]`, `0`} {
			add(c+" type "+raw, render(with(P, c, raw)), 'R')
		}
		add(c+" empty string", render(with(P, c, `""`)), 'A')
		add(c+" invalid UTF-8", render(with(P, c, "\"a\xffb\"")), 'R')
		add(c+" unicode + escapes", render(with(P, c, `"é😀\n\\\"\/ é😀"`)), 'A')
	}
	for _, raw := range []string{`[]`, `[1]`, `["x",1]`, `[1,"x"]`, `1`, `null`, `true`, `{}`, `{"x":"x"}`, `[["x"]]`, `[null]`, `["x",null]`, `[true]`, `[{}]`} {
		add("aud type "+raw, render(with(P, "aud", raw)), 'R')
	}
	for _, raw := range []string{`"x"`, `["x"]`, `["y","x"]`, `["x","x"]`, `""`, `[""]`, `["y","z"]`, `"y"`} {
		add("aud "+raw, render(with(P, "aud", raw)), 'A')
	}
	add("aud invalid UTF-8 string", render(with(P, "aud", "\"\xfe\"")), 'R')
	add("aud invalid UTF-8 in list", render(with(P, "aud", "[\"x\",\"\xfe\"]")), 'R')
	base := string(render(P))
	for _, raw := range []string{`[]`, `[` + base + `]`, `"x"`, `null`, `1`, `true`, ``, base + `x`, base + base, base[:len(base)-1] + `,}`, strings.ReplaceAll(base, `"`, `'`), base[:len(base)-1], "\ufeff" + base, base + "\x00", `{"exp":}`, `{"exp"}`, `{exp:1}`} {
		add("not a JSON object "+strconv.Quote(raw), []byte(raw), 'R')
	}
	for _, raw := range []string{" " + base + " ", "\n\t" + base + "\r\n", strings.ReplaceAll(strings.ReplaceAll(base, ",", " ,\n "), ":", " : ")} {
		add("JSON whitespace "+strconv.Quote(raw), []byte(raw), 'A')
	}
	custom := []kv{{"c-null", `null`}, {"c-true", `true`}, {"c-false", `false`}, {"c-int", `42`}, {"c-neg", `-7`}, {"c-frac", `12.5`}, {"c-exp", `1.5e3`}, {"c-Exp", `2E-3`}, {"c-zero", `0`}, {"c-negzero", `-0`},
		{"c-big", `9007199254740993`}, {"c-huge", `1e308`}, {"c-small", `5e-324`}, {"c-str", `"text"`}, {"c-empty", `""`}, {"c-esc", `"\u0000\u001f\"\\\/\b\f\n\r\té😀"`}, {"c-uni", `"é😀"`},
		{"c-arr", `[1,"two",null,true,[],{}]`}, {"c-earr", `[]`}, {"c-nested", `[[[[[[[[[[1]]]]]]]]]]`}, {"c-obj", `{"a":{"b":[1,2,{"c":null}]},"":0}`}, {"c-eobj", `{}`},
		{"", `"empty name"`}, {"Exp", `"x"`}, {"ISS", `1`}, {"aud ", `[]`}, {"typ", `"in payload"`}, {"alg", `"none"`}, {"crit", `["x"]`}, {"kid", `1`}}
	for _, f := range custom {
		add("custom claim "+f.k+"="+f.raw, render(append(append([]kv{}, P...), f)), 'A')
	}
	add("all custom claims", render(append(append([]kv{}, P...), custom...)), 'A')
	add("custom claim invalid UTF-8 value", render(append(append([]kv{}, P...), kv{"c", "\"\xff\""})), 'R')
	add("custom claim invalid UTF-8 name", []byte(base[:len(base)-1]+",\"c\xff\":1}"), 'R')
	add("custom claim number beyond float64", render(append(append([]kv{}, P...), kv{"c", `1e999`})), 0)
	add("duplicate exp (expired first)", []byte(`{"exp":1,`+base[1:]), 'D')
	add("duplicate exp (expired last)", []byte(base[:len(base)-1]+`,"exp":1}`), 'D')
	add("duplicate iss", []byte(base[:len(base)-1]+`,"iss":"y"}`), 'D')
	add("duplicate custom", []byte(base[:len(base)-1]+`,"c":1,"c":2}`), 'D')
	add("duplicate in nested object", []byte(base[:len(base)-1]+`,"c":{"a":1,"a":1}}`), 'D')
	return es
}

func pad4(s string) string { return s + strings.Repeat("=", (4-len(s)%4)%4) }

func stdAlphabet(s string) string {
	return strings.ReplaceAll(strings.ReplaceAll(s, "-", "+"), "_", "/")
}

func hashName(alg string) string { return "SHA" + alg[len(alg)-3:] }

func (m *manip) structureEntries() []entry {
	A := m.b.alg
	hB := render(with(m.baseH, "pad", `"~~~???"`))
	var T, hs, ps, ss string
	for nonce := 0; ; nonce++ {
		pB := render(with(with(m.baseP, "pad", `"~~~???"`), "nonce", strconv.Itoa(nonce)))
		T = m.tok(hB, pB)
		hs, ps, ss, _ = ref.JWTSplit(T)
		if (strings.Contains(ss, "-") && strings.Contains(ss, "_")) || nonce > 400 {
			break
		}
	}
	in := hs + "." + ps
	var es []entry
	add := func(name, token string, expect byte) { es = append(es, entry{"structure " + name, token, expect}) }
	add("base", T, 'A')
	for _, v := range []struct{ n, t string }{
		{"2 parts (no signature)", in}, {"trailing dot (4 parts, last empty)", T + "."}, {"4 parts", T + ".AA"}, {"4 parts, signature repeated", T + "." + ss},
		{"leading dot", "." + T}, {"1 part", hs}, {"empty token", ""}, {"one dot", "."}, {"two dots", ".."}, {"three dots", "..."}, {"empty payload part", hs + ".." + ss},
		{"empty header part", "." + ps + "." + ss}, {"empty signature part", in + "."}, {"header.signature", hs + "." + ss}, {"payload and header swapped", ps + "." + hs + "." + ss},
		{"double dot before signature", in + ".." + ss}, {"dot replaced by comma", hs + "," + ps + "." + ss}, {"dot replaced by space", hs + " " + ps + "." + ss},
		{"token twice", T + T}, {"token.token", T + "." + T},
	} {
		add(v.n, v.t, 'R')
	}
	add("4 parts, signature over the first three", m.resign(in+"."+ps), 'R')
	add("2 parts, signature over the header only", m.resign(hs), 'R')
	add("empty payload part, signed", m.resign(hs+"."), 'R')
	add("empty header part, signed", m.resign("."+ps), 'R')
	add("empty header and payload parts, signed", m.resign("."), 'R')
	// '=' padding
	for _, p := range []string{"=", "==", "==="} {
		add("signature + "+p, in+"."+ss+p, 'R')
		add("header + "+p, hs+p+"."+ps+"."+ss, 'R')
		add("header + "+p+" (signed)", m.resign(hs+p+"."+ps), 'R')
		add("payload + "+p, hs+"."+ps+p+"."+ss, 'R')
		add("payload + "+p+" (signed)", m.resign(hs+"."+ps+p), 'R')
	}
	if pad4(ss) != ss {
		add("signature properly padded", in+"."+pad4(ss), 'R')
	}
	if pad4(hs) != hs {
		add("header properly padded (signed)", m.resign(pad4(hs)+"."+ps), 'R')
	}
	if pad4(ps) != ps {
		add("payload properly padded (signed)", m.resign(hs+"."+pad4(ps)), 'R')
	}
	// '+' '/' alphabet
	if stdAlphabet(ss) != ss {
		add("signature in standard alphabet", in+"."+stdAlphabet(ss), 'R')
		add("signature '-' -> '+' only", in+"."+strings.ReplaceAll(ss, "-", "+"), 'R')
		add("signature '_' -> '/' only", in+"."+strings.ReplaceAll(ss, "_", "/"), 'R')
	}
	if stdAlphabet(hs) != hs && stdAlphabet(ps) != ps {
		add("header in standard alphabet", stdAlphabet(hs)+"."+ps+"."+ss, 'R')
		add("header in standard alphabet (signed)", m.resign(stdAlphabet(hs)+"."+ps), 'R')
		add("payload in standard alphabet", hs+"."+stdAlphabet(ps)+"."+ss, 'R')
		add("payload in standard alphabet (signed)", m.resign(hs+"."+stdAlphabet(ps)), 'R')
		add("whole token in standard alphabet (signed)", stdAlphabet(m.resign(stdAlphabet(in))), 'R')
	} else {
		add("HARNESS: header/payload without '-' '_'", "", 'A') // forces a self-check failure if the construction breaks
	}
	// whitespace and foreign characters
	mid := func(s, ins string) string { return s[:len(s)/2] + ins + s[len(s)/2:] }
	for _, w := range []string{" ", "\n", "\r\n", "\t", "\r", "\x00", "\x0b", "\u00a0", "\u2028", "!", "*", "~", "é", ",", ";", "%3D", "\\n"} {
		q := strconv.Quote(w)
		add("prefix "+q, w+T, 'R')
		add("suffix "+q, T+w, 'R')
		add(q+" before first dot", hs+w+"."+ps+"."+ss, 'R')
		add(q+" after first dot", hs+"."+w+ps+"."+ss, 'R')
		add(q+" before second dot", hs+"."+ps+w+"."+ss, 'R')
		add(q+" after second dot", hs+"."+ps+"."+w+ss, 'R')
		add(q+" inside signature", in+"."+mid(ss, w), 'R')
		add(q+" inside header", mid(hs, w)+"."+ps+"."+ss, 'R')
		add(q+" inside header (signed over the literal text)", m.resign(mid(hs, w)+"."+ps), 'R')
		add(q+" inside payload (signed over the literal text)", m.resign(hs+"."+mid(ps, w)), 'R')
		add(q+" at header end (signed over the literal text)", m.resign(hs+w+"."+ps), 'R')
		add(q+" at payload end (signed over the literal text)", m.resign(hs+"."+ps+w), 'R')
	}
	// every truncation
	for i := 0; i < len(T); i++ {
		add(fmt.Sprintf("truncated to %d of %d characters", i, len(T)), T[:i], 'R')
	}
	for i := 1; i < len(T); i++ {
		add(fmt.Sprintf("first %d characters removed", i), T[i:], 'R')
	}
	// alg none / algorithm confusion with HMAC keyed by public material
	noneH := ref.JWTB64Encode(render(with(m.baseH, "alg", `"none"`)))
	add("alg none, empty signature", noneH+"."+ps+".", 'R')
	add("alg none, 2 parts", noneH+"."+ps, 'R')
	add("alg none, original signature", noneH+"."+ps+"."+ss, 'R')
	for bi, blob := range m.b.publicKeyBlobs() {
		for _, hsAlg := range []string{"HS256", "HS384", "HS512"} {
			if m.b.ref.HMACKey != nil && hsAlg != A {
				continue
			}
			for _, headerAlg := range []string{hsAlg, A} {
				if m.b.ref.HMACKey != nil && headerAlg != A {
					continue
				}
				cin := ref.JWTB64Encode(render(with(m.baseH, "alg", jstr(headerAlg)))) + "." + ps
				add(fmt.Sprintf("header alg %s, %s tag keyed with public blob #%d", headerAlg, hsAlg, bi), cin+"."+ref.JWTB64Encode(ref.HMAC(hashName(hsAlg), blob, []byte(cin))), 'R')
			}
		}
	}
	sigBytes, _, _ := ref.JWTB64Decode(ss)
	if m.signErr != nil || len(sigBytes) == 0 {
		return nil
	}
	switch k := m.b.signer.(type) {
	case []byte:
		for _, oh := range []string{"SHA256", "SHA384", "SHA512", "SHA1"} {
			if oh == hashName(A) {
				continue
			}
			tag := ref.HMAC(oh, k, []byte(in))
			for len(tag) < len(sigBytes) {
				tag = append(tag, tag...)
			}
			add("HMAC with "+oh+" cut to the tag length", in+"."+ref.JWTB64Encode(tag[:len(sigBytes)]), 'R')
			add("HMAC with "+oh+" full length", in+"."+ref.JWTB64Encode(ref.HMAC(oh, k, []byte(in))), 'R')
		}
		add("HMAC over the decoded header||'.'||payload", in+"."+ref.JWTB64Encode(ref.HMAC(hashName(A), k, append(append(append([]byte{}, hB...), '.'), []byte(ps)...))), 'R')
	case *ecdsa.PrivateKey:
		n := len(sigBytes) / 2
		r, s := new(big.Int).SetBytes(sigBytes[:n]), new(big.Int).SetBytes(sigBytes[n:])
		N := k.Curve.Params().N
		fixed := func(r, s *big.Int, w int) []byte {
			out := make([]byte, 2*w)
			r.FillBytes(out[:w])
			s.FillBytes(out[w:])
			return out
		}
		add("ECDSA (r, N-s)", in+"."+ref.JWTB64Encode(fixed(r, new(big.Int).Sub(N, s), n)), 0)
		add("ECDSA (r+N, s) in wider fields", in+"."+ref.JWTB64Encode(fixed(new(big.Int).Add(r, N), s, n+1)), 'R')
		add("ECDSA r,s with one leading zero byte each", in+"."+ref.JWTB64Encode(fixed(r, s, n+1)), 'R')
		add("ECDSA (0, s)", in+"."+ref.JWTB64Encode(fixed(big.NewInt(0), s, n)), 'R')
		add("ECDSA (r, 0)", in+"."+ref.JWTB64Encode(fixed(r, big.NewInt(0), n)), 'R')
		add("ECDSA (0, 0)", in+"."+ref.JWTB64Encode(make([]byte, 2*n)), 'R')
		add("ECDSA (N, s)", in+"."+ref.JWTB64Encode(fixed(N, s, n)), 'R')
		add("ECDSA (r, N)", in+"."+ref.JWTB64Encode(fixed(r, N, n)), 'R')
		add("ECDSA (s, r)", in+"."+ref.JWTB64Encode(fixed(s, r, n)), 'R')
		if h, err := hashOf(A); err == nil {
			hh := h.New()
			hh.Write([]byte(in))
			if der, err := k.Sign(nil, hh.Sum(nil), h); err == nil {
				add("ECDSA signature in ASN.1 DER", in+"."+ref.JWTB64Encode(der), 'R')
			}
		}
		for _, oa := range []string{"ES256", "ES384", "ES512"} {
			if oa != A {
				// same key, digest of another algorithm, signature in this curve's width
				if sg, err := signECWithHashOf(k, oa, in, n); err == nil {
					add("ECDSA over the "+oa+" digest", in+"."+ref.JWTB64Encode(sg), 'R')
				}
			}
		}
	case *rsa.PrivateKey:
		fam, bits := A[:2], A[2:]
		otherFam := map[string]string{"RS": "PS", "PS": "RS"}[fam]
		add("RSA signature of the other scheme ("+otherFam+bits+") under header "+A, in+"."+ref.JWTB64Encode(m.sig(otherFam+bits, in)), 'R')
		for _, ob := range []string{"256", "384", "512"} {
			if ob != bits {
				add("RSA signature with the "+fam+ob+" hash under header "+A, in+"."+ref.JWTB64Encode(m.sig(fam+ob, in)), 'R')
			}
		}
		add("RSA signature with a leading zero byte", in+"."+ref.JWTB64Encode(append([]byte{0}, sigBytes...)), 'R')
		add("RSA signature without its first byte", in+"."+ref.JWTB64Encode(sigBytes[1:]), 'R')
		sPlusN := new(big.Int).Add(new(big.Int).SetBytes(sigBytes), k.N)
		if sPlusN.BitLen() <= 8*len(sigBytes) {
			add("RSA signature s+N (same length)", in+"."+ref.JWTB64Encode(sPlusN.FillBytes(make([]byte, len(sigBytes)))), 'R')
		}
		add("RSA signature s+N (one byte longer)", in+"."+ref.JWTB64Encode(sPlusN.FillBytes(make([]byte, len(sigBytes)+1))), 'R')
		add("RSA signature all zero", in+"."+ref.JWTB64Encode(make([]byte, len(sigBytes))), 'R')
		add("RSA signature = 1", in+"."+ref.JWTB64Encode(big.NewInt(1).FillBytes(make([]byte, len(sigBytes)))), 'R')
		if fam == "PS" {
			hl := map[string]int{"256": 32, "384": 48, "512": 64}[bits]
			for _, sl := range []int{0, 1, 20, hl - 1, hl + 1, len(sigBytes) - hl - 2} {
				if sl == hl {
					continue
				}
				sg, err := ref.JWTSignPSSSalt(A, k, []byte(in), sl)
				if err != nil {
					continue
				}
				add(fmt.Sprintf("PSS with salt length %d instead of %d", sl, hl), in+"."+ref.JWTB64Encode(sg), 'R')
			}
		}
	}
	return es
}

func (m *manip) sigbitEntries() []entry {
	hB, pB := render(m.baseH), render(m.baseP)
	T := m.tok(hB, pB)
	hs, ps, ss, _ := ref.JWTSplit(T)
	in := hs + "." + ps
	sig, _, _ := ref.JWTB64Decode(ss)
	var es []entry
	add := func(name, token string, expect byte) { es = append(es, entry{"signature " + name, token, expect}) }
	add("base", T, 'A')
	for bit := 0; bit < 8*len(sig); bit++ {
		s := append([]byte{}, sig...)
		s[bit/8] ^= 0x80 >> (bit % 8)
		add(fmt.Sprintf("bit %d of %d flipped", bit, 8*len(sig)), in+"."+ref.JWTB64Encode(s), 'R')
	}
	for n := 0; n < len(sig); n++ {
		add(fmt.Sprintf("cut to %d of %d bytes", n, len(sig)), in+"."+ref.JWTB64Encode(sig[:n]), 'R')
	}
	for n := 1; n <= 3; n++ {
		for _, b := range []byte{0, 0xff} {
			add(fmt.Sprintf("extended by %d bytes %02x", n, b), in+"."+ref.JWTB64Encode(append(append([]byte{}, sig...), make([]byte, n)...)), 'R')
			_ = b
		}
		ext := append([]byte{}, sig...)
		for i := 0; i < n; i++ {
			ext = append(ext, 0xff)
		}
		add(fmt.Sprintf("extended by %d bytes ff", n), in+"."+ref.JWTB64Encode(ext), 'R')
		add(fmt.Sprintf("prefixed by %d zero bytes", n), in+"."+ref.JWTB64Encode(append(make([]byte, n), sig...)), 'R')
	}
	add("signature twice", in+"."+ref.JWTB64Encode(append(append([]byte{}, sig...), sig...)), 'R')
	const alphabet = "ABCDEFGHIJKLMNOPQRSTUVWXYZabcdefghijklmnopqrstuvwxyz0123456789-_"
	// every value of the last signature character: equal bytes => don't care (or the base token), else reject
	for i := 0; i < 64; i++ {
		add(fmt.Sprintf("last character replaced by %q", alphabet[i]), in+"."+ss[:len(ss)-1]+alphabet[i:i+1], 0)
	}
	// every character of the signed text replaced (signature kept)
	for i := 0; i < len(in); i++ {
		c := in[i]
		r := byte('A')
		if c == 'A' {
			r = 'B'
		}
		add(fmt.Sprintf("signed text character %d replaced", i), in[:i]+string(r)+in[i+1:]+"."+ss, 'R')
	}
	// non-canonical trailing bits of the header / payload part, signed over the literal text: don't care
	for padLen := 0; padLen < 3; padLen++ {
		hB2 := render(with(m.baseH, "p", jstr(strings.Repeat("a", padLen))))
		pB2 := render(with(m.baseP, "p", jstr(strings.Repeat("a", padLen))))
		for which, part := range []string{ref.JWTB64Encode(hB2), ref.JWTB64Encode(pB2)} {
			if len(part)%4 == 0 {
				continue
			}
			want, _, _ := ref.JWTB64Decode(part)
			for i := 0; i < 64; i++ {
				v := part[:len(part)-1] + alphabet[i:i+1]
				got, canon, ok := ref.JWTB64Decode(v)
				if !ok || canon || string(got) != string(want) {
					continue
				}
				if which == 0 {
					add(fmt.Sprintf("header part with non-zero trailing bits %q (signed)", v[len(v)-2:]), m.resign(v+"."+ps), 'D')
				} else {
					add(fmt.Sprintf("payload part with non-zero trailing bits %q (signed)", v[len(v)-2:]), m.resign(hs+"."+v), 'D')
				}
			}
		}
	}
	return es
}

func manipulationSection(x *h.X) {
	alg := h.Pick(x, "alg", algsFor(x, []string{"HS256", "ES256", "RS256", "PS256"}))
	mode := h.Pick(x, "kid", kidModes)
	pair := h.Pick(x, "keyset", []string{"single", "pair(same material, other kid)"}) != "single"
	strict := h.Pick(x, "validator", []string{"lenient", "strict"}) == "strict"
	group := h.Pick(x, "group", []string{"header", "payload", "structure", "signature"})
	cfg := fmt.Sprintf("%s %v pair=%v strict=%v", alg, mode, pair, strict)
	if strings.HasPrefix(alg, "ML-DSA") && group == "signature" && (strict || pair) {
		return // the ML-DSA bit-flip sweep (26k-37k verifications) is done once per kid strategy
	}
	A, err := buildKey(alg, 0, mode, 0x01020304, "kid-A")
	if err != nil {
		x.Fail("construct", "%s: %v", cfg, err)
		return
	}
	A2, err := buildKey(alg, 0, mode, 0x01020305, "kid-A2")
	if err != nil {
		x.Fail("construct", "%s: %v", cfg, err)
		return
	}
	es := []ksEntry{{b: A, primary: true}}
	if pair {
		es = append(es, ksEntry{b: A2})
	}
	ks, err := buildKeyset(es, false)
	if err != nil {
		x.Fail("construct", "%s: %v", cfg, err)
		return
	}
	now := time.Unix(nowSec, 0)
	vo := &jwt.ValidatorOpts{FixedNow: now, IgnoreTypeHeader: true, IgnoreIssuer: true, IgnoreAudiences: true, AllowMissingExpiration: true}
	rv := ref.JWTValidator{IgnoreTyp: true, IgnoreIss: true, IgnoreAud: true, AllowMissingExp: true}
	m := &manip{b: A, pair: pair, kid2: A2.ref.Kid}
	m.baseH = []kv{{"alg", jstr(alg)}}
	if mode != ref.JWTKidIgnored {
		m.baseH = append(m.baseH, kv{"kid", jstr(A.ref.Kid)})
	}
	m.baseP = []kv{{"iss", `"x"`}, {"aud", `"x"`}, {"exp", strconv.FormatInt(nowSec+100, 10)}, {"iat", strconv.FormatInt(nowSec-100, 10)}, {"jti", `"id-1"`}}
	if strict {
		vo = &jwt.ValidatorOpts{FixedNow: now, ExpectedTypeHeader: sp("JWT"), ExpectedIssuer: sp("x"), ExpectedAudience: sp("x"), ExpectIssuedInThePast: true}
		rv = ref.JWTValidator{ExpectedTyp: sp("JWT"), ExpectedIss: sp("x"), ExpectedAud: sp("x"), ExpectIatInPast: true}
		m.baseH = append(m.baseH, kv{"typ", `"JWT"`})
	}
	val, err := jwt.NewValidator(vo)
	if err != nil {
		x.Fail("validator-refused", "%s: %v", cfg, err)
		return
	}
	var entries []entry
	switch group {
	case "header":
		entries = m.headerEntries()
	case "payload":
		entries = m.payloadEntries()
	case "structure":
		entries = m.structureEntries()
	default:
		entries = m.sigbitEntries()
	}
	if m.signErr != nil {
		x.Fail("construct", "%s: reference signing failed: %v", cfg, m.signErr)
		return
	}
	x.NonTrivial()
	t := tally{}
	defer t.flush(x)
	for _, e := range entries {
		want := judge(x, t, cfg+" ["+e.name+"]", e.token, ks.verify, val, ks.refKeys, rv, now)
		if !strict && e.expect != 0 {
			got := byte('R')
			if want.Accept {
				got = 'A'
			} else if want.DontCare {
				got = 'D'
			}
			if got != e.expect {
				x.Fail("harness-self-check", "%s [%s]: the reference decides %c (%s) but the entry is %c by construction; token %q", cfg, e.name, got, want.Why, e.expect, short(e.token))
			}
		}
	}
}

// fractionalSection: NumericDate values with a fractional part (RFC 7519 section 2 allows non-integer
// values) around the exp / nbf / iat boundaries. Integral values are judged; fractional values whose
// verdict differs from exact arithmetic only by the truncation to whole seconds are a don't-care.
func fractionalSection(x *h.X) {
	claim := h.Pick(x, "claim", []string{"exp", "nbf", "iat"})
	skew := h.Pick(x, "skew", []time.Duration{0, time.Second, 1500 * time.Millisecond})
	nowNs := h.Pick(x, "now.nsec", []int{0, 250_000_000, 500_000_000})
	p, err := hs256()
	if err != nil {
		x.Fail("construct", "%v", err)
		return
	}
	b, _ := buildKey("HS256", 0, ref.JWTKidIgnored, 0x01020304, "")
	now := time.Unix(nowSec, int64(nowNs))
	vo := &jwt.ValidatorOpts{FixedNow: now, ClockSkew: skew, AllowMissingExpiration: true, ExpectIssuedInThePast: claim == "iat"}
	rv := ref.JWTValidator{Skew: skew, AllowMissingExp: true, ExpectIatInPast: claim == "iat"}
	val, err := jwt.NewValidator(vo)
	if err != nil {
		x.Fail("validator-refused", "%v", err)
		return
	}
	x.NonTrivial()
	t := tally{}
	defer t.flush(x)
	// boundary in quarter seconds (exact in binary floating point and in decimal)
	q := nowSec*4 + int64(nowNs/250_000_000)
	sq := int64(skew / (250 * time.Millisecond))
	if claim == "exp" {
		q -= sq
	} else {
		q += sq
	}
	hB := []byte(`{"alg":"HS256"}`)
	for d := int64(-6); d <= 6; d++ {
		v := q + d
		txt := strconv.FormatInt(v/4, 10) + [...]string{"", ".25", ".5", ".75"}[v%4]
		forms := []string{txt}
		if v%4 != 0 {
			forms = append(forms, strconv.FormatInt(v*25, 10)+"e-2")
		}
		for _, f := range forms {
			in := signingInput(hB, []byte(`{"`+claim+`":`+f+`}`))
			sg, _ := b.sign("HS256", []byte(in))
			token := in + "." + ref.JWTB64Encode(sg)
			want := ref.JWTAccept(token, p.keys, rv, now)
			_, err := p.mac.VerifyMACAndDecode(token, val)
			x.Eval(1)
			got := err == nil
			frac := v%4 != 0
			switch {
			case got == want.Accept:
				t.add(map[bool]string{true: "accept", false: "reject"}[got] + map[bool]string{true: " (fractional)", false: " (integral)"}[frac])
			case !frac:
				x.Fail(map[bool]string{true: "accepts-invalid", false: "rejects-valid"}[got], "%s=%s now=%d.%09d skew=%v: tink accept=%v, reference accept=%v (%s)", claim, f, nowSec, nowNs, skew, got, want.Accept, want.Why)
			default:
				// DON'T CARE: tink documents JWT timestamps at one-second granularity and truncates the
				// fractional part of a NumericDate; the property statement does not define sub-second
				// semantics, so a verdict that differs only because of the dropped fraction is tallied, not judged.
				t.add("dont-care: fractional NumericDate decided after truncation to seconds")
			}
		}
	}
}

func hashOf(alg string) (crypto.Hash, error) {
	switch alg[len(alg)-3:] {
	case "256":
		return crypto.SHA256, nil
	case "384":
		return crypto.SHA384, nil
	case "512":
		return crypto.SHA512, nil
	}
	return 0, fmt.Errorf("no hash for %s", alg)
}

// signECWithHashOf signs the digest prescribed by another ES algorithm with this key; R||S in width n.
func signECWithHashOf(k *ecdsa.PrivateKey, otherAlg, in string, n int) ([]byte, error) {
	h, err := hashOf(otherAlg)
	if err != nil {
		return nil, err
	}
	hh := h.New()
	hh.Write([]byte(in))
	der, err := k.Sign(nil, hh.Sum(nil), h)
	if err != nil {
		return nil, err
	}
	var rs struct{ R, S *big.Int }
	if _, err := asn1.Unmarshal(der, &rs); err != nil {
		return nil, err
	}
	out := make([]byte, 2*n)
	rs.R.FillBytes(out[:n])
	rs.S.FillBytes(out[n:])
	return out, nil
}

func swapCase(s string) string {
	b := []byte(s)
	for i, c := range b {
		switch {
		case c >= 'a' && c <= 'z':
			b[i] = c - 32
		case c >= 'A' && c <= 'Z':
			b[i] = c + 32
		}
	}
	return string(b)
}
