package main

// Section validator-real-clock: a validator WITHOUT FixedNow judges exp / nbf against the time of the VALIDATION, not
// against the time it was constructed or first used. The real clock is the one environment answer the other sections
// fix (FixedNow); here it runs, and the oracle is interval-based so that no reading of the clock can make it wrong:
// the clock is read before (b) and after (a) every call; exp <= b means "expired at the time of the call" (must be
// rejected), a < exp means "not yet expired" (must be accepted), anything else is not judged. The same validator
// object is used before and after the boundary passes (about 3 s of waiting, once per run).

import (
	"time"

	"github.com/tink-crypto/tink-go/v2/jwt"
	"verif/h"
)

func realClockSection(x *h.X) {
	p, err := hs256()
	if err != nil {
		x.Fail("construct", "%v", err)
		return
	}
	val, err := jwt.NewValidator(&jwt.ValidatorOpts{})
	if err != nil {
		x.Fail("validator-refused", "NewValidator(default options): %v", err)
		return
	}
	x.NonTrivial()
	t0 := time.Now()
	boundary := t0.Truncate(time.Second).Add(3 * time.Second) // a whole second, 2..3 s ahead
	far := t0.Add(time.Hour)
	mkTok := func(exp time.Time, nbf *time.Time) string {
		raw, err := jwt.NewRawJWT(&jwt.RawJWTOptions{ExpiresAt: &exp, NotBefore: nbf})
		if err != nil {
			x.Fail("harness", "NewRawJWT: %v", err)
			return ""
		}
		tok, err := p.mac.ComputeMACAndEncode(raw)
		if err != nil {
			x.Fail("compute-error", "ComputeMACAndEncode: %v", err)
			return ""
		}
		return tok
	}
	expiring := mkTok(boundary, nil)  // valid while now < boundary
	starting := mkTok(far, &boundary) // valid once now >= boundary
	always := mkTok(far, nil)         // valid throughout
	past := t0.Add(-time.Hour)
	never := mkTok(past, nil) // expired throughout
	if expiring == "" || starting == "" || always == "" || never == "" {
		return
	}
	judge := func(phase, name, tok string, validFrom, validUntil time.Time) {
		b := time.Now()
		_, err := p.mac.VerifyMACAndDecode(tok, val)
		a := time.Now()
		x.Eval(1)
		// valid at every instant of [b, a]  <=>  validFrom <= b && a < validUntil
		// invalid at every instant of [b, a] <=>  a < validFrom || validUntil <= b
		switch {
		case !b.Before(validFrom) && a.Before(validUntil):
			x.Outcome("real-clock/" + phase + "/accept")
			if err != nil {
				x.Fail("rejects-valid", "validator without FixedNow, %s: token %s (valid from %v until %v) rejected at a time within [%v, %v]: %v", phase, name, validFrom.Unix(), validUntil.Unix(), b, a, err)
			}
		case a.Before(validFrom) || !b.Before(validUntil):
			x.Outcome("real-clock/" + phase + "/reject")
			if err == nil {
				x.Fail("accepts-invalid", "validator without FixedNow, %s: token %s (valid from %v until %v) accepted at a time within [%v, %v]", phase, name, validFrom.Unix(), validUntil.Unix(), b, a)
			}
		default:
			x.Outcome("real-clock/" + phase + "/boundary-inside-the-call (not judged)")
		}
	}
	epoch := time.Unix(0, 0)
	for _, phase := range []string{"before the boundary", "after the boundary"} {
		if phase == "after the boundary" {
			for time.Now().Before(boundary.Add(200 * time.Millisecond)) {
				time.Sleep(50 * time.Millisecond)
			}
		}
		judge(phase, "exp=boundary", expiring, epoch, boundary)
		judge(phase, "nbf=boundary", starting, boundary, far)
		judge(phase, "exp=+1h", always, epoch, far)
		judge(phase, "exp=-1h", never, epoch, past)
	}
}
