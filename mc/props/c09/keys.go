package main

// Fixed key material of the C09 harness: two embedded RSA-2048 keys (generated once, offline),
// deterministic EC scalars / HMAC keys / ML-DSA seeds derived with ref.KeyBytes.

import (
	"crypto/c09mldsa"
	"crypto/ecdsa"
	"crypto/elliptic"
	"crypto/rsa"
	"crypto/x509"
	"encoding/base64"
	"fmt"
	"math/big"
	"strings"
	"sync"

	"github.com/tink-crypto/tink-go/v2/insecuresecretdataaccess"
	"github.com/tink-crypto/tink-go/v2/jwt/jwtecdsa"
	"github.com/tink-crypto/tink-go/v2/jwt/jwthmac"
	"github.com/tink-crypto/tink-go/v2/jwt/jwtmldsa"
	"github.com/tink-crypto/tink-go/v2/jwt/jwtrsassapkcs1"
	"github.com/tink-crypto/tink-go/v2/jwt/jwtrsassapss"
	"github.com/tink-crypto/tink-go/v2/key"
	"github.com/tink-crypto/tink-go/v2/secretdata"
	"verif/ref"
)

const rsaKey0B64 = "" +
	"MIIEowIBAAKCAQEAwxzKaubDIWOWfaYRucD6djkXmcCc2tVbmLTGO8i858t9AElcadCGMwh+dGxebpur7UaPBTfK2mIEVIb2gM0x" +
	"T+kbVT+cGadnjN2g0A8DN8sYSkixkAumUI0HHxuqf/VcX6DJ2dFPzN80G5NOHckfPU96udSqtBgimSqiG8+z9cKV6XsHU5Afpxtu" +
	"WZiCGJmI5m5kYf/HlwJNkDoK2E3I6ZQwqkul0eY5UI7nMcaAIAcARppzX47RrcRq6ThhfFBLrYNtHRTyIaaf3+K52jUCLxE6Elts" +
	"6lL3w3YMBxP0RjGlNpsKIeEiP8JSMxZzkLeCP6vD8W0kNcuO0pmuXJButwIDAQABAoIBAEx6ZgtWDalySERTCoKllmctxMbzHWiX" +
	"lfI69bLsYcN32zT4DH27i0bIrwyCh9dSNKdqb1gLwPstzWW2izv8cjZQ+HJHXzAdErVAEC9NmyTM+mXvrY35SwUq6l4ysXe7nKwt" +
	"McGrzlxPJzUh3c5GDfUxyLi7l/fEuBcSg31kQjVzk0GYc4xHxU2j4Xvwj5/c6Y5JPCqZP6n8zV0vK3kJVeyVrBHJ3PEEyN06/Xef" +
	"Gmhs3+cDSPxTPxPgLNwQNaDgVaQ/kgvbeqvY2egf5HYEY/lp8JdSO2tEUfWL+XpW9M1RCA0LeSvCQrErlH3I4PwJNd4SAR4ZbWka" +
	"8m0dzzDs7f0CgYEA72KpT0xNxFsJrfFoaR1uvYrRXRmuvn8Dj+tPFhJOlzTL4AMqy0HhdiT8UHWZ1vJFoH308Qw4dUHpdCEhhZ41" +
	"x8eRP55TSJrdUHaOeHkVo1pUv0KwzO6DPuT8/xpLFA2UI4trLPn5Zf9r2yPXzRasoZlw89pzyG3GDLD1N+panYMCgYEA0Kd/ySHE" +
	"9ZRlv/1/C0Tv0GdHuAXtSah9qyIic+WawHVe6GxukqHmR2hsd/cetroDPkA2GCGtPJXMPM/mztyYGxrL0oZ9UC6e9YW+Lu8ePpHJ" +
	"3k9DHYjchUigZOwusovb8ScMbJuOXB1Gt8g7RPCUrBF8OEiTvqTsnTPDLvNxN70CgYB1XiYs3vhyAUCpq+bJQsj83Ybw4pqug4+3" +
	"jGNmKuulbxlWZ7cfmNl2F4Qt3rrijD5fBeKGHLvBoeNYMLZC0OMFZG9uha3Ht0YzIS2RG6zkPnG2pHgSwg5PU+5HFRkiZ9Xt53lQ" +
	"v+7rd2PmOZig0TEquhSLOtvxtQCZUFmqZJixCQKBgQCvBJDPaSAIzl062auDDGQL71XdKjuLmWUv8wXrKSDRZqIhWzK0lFDQfOrf" +
	"Bc4hf43Q3ZOCUl05gH08VTdJNQfxVFy7Tkw2waRcVb7dJ327BhbJ/rpRP8eZlP3VKbdR1La8ZQCq6SBUa8oxxibRAOv0GQaVP2uO" +
	"clB23EBQVasWEQKBgFUPdNlxbaY5fYFOTDIoocWxPvwZLs70GmbuIvvRD2sXp5piVbWQ+L84sJlQdpdJ+Sup96FFzHsU9S1Re1bM" +
	"bJL38v/th5GIedlx6lJhf+1OOlY/5plXeuFd7xo5ovbYLA0Fbw/bT+MpTJciXTMldFhMkxI+F5HmOCVYsdgDFPWO"

const rsaKey1B64 = "" +
	"MIIEowIBAAKCAQEA8YxIp+gUW/U8JxTEoSYzjLs5YixbUMFyJIL8dvWT7GnvbYsqMjryW1dXDMR3YgzVmMwxFHNnRsMVI6OBwIhZ" +
	"cV6kvhA9LkBsV/xCkT2oeCaa9y5C3/WYHnxTuu64RFX0Q0k8eOTS0O2IOe7ueDoUtQwk/ysGHufOZULIAG6cypKCH3Mxqgu4pCZD" +
	"4WyEkYVvK16obyT9ja6WzvGQ1I9yh/p6bbcKhRf4jgaNtzD4zmi8OIEmV2oBVCqedjQ8Npq85BtFzVl8V42qLFlxNwJEn9950/2x" +
	"h8ud5i2EhiidWsXYkP8jZd3dUXqwhVaGZIxV2tMvGCxcX0qciqyEN061EwIDAQABAoIBAA+J7sKec3DW/d+lvmB/jKFpCe/+2oD/" +
	"cNBYfNVKRxHWXsi1QymoER8/JyJzIRr1qGgD+sROCD7NHfcE9bvlCZv5cq+na8gl7NJcMAwX41aXZTCxkSvHKNoNNXW5FbGPtf7+" +
	"Hx3H2qgGH9VaQY0Kb3qWJWsk4WfrkaOCAEvG0d9WHXcDFmrHY3WWRcgCvgpLpCHeGxtZsc/7OEaYFaTDZhcTYQU13IIZ7JZdRxZQ" +
	"lmDhJ6sCBHWDKLxRNYKqu25zrDAR05QXDHMBr4n3cQdCuAJKXZTWyrV2bHR32+y8vZ4OOCotFJUUPaakjpqNOQfBWfmWLw0Qfm/E" +
	"aWPXQVfOO4ECgYEA8bZOyOAaF3QwAu2LTWJYEKDitLywIrWTOwTKUVjy8r77kryhO1kU13Up5AZzgD6mT1BhFF6zVs49sDPHfV6C" +
	"FbwcLbTo84TXSKHsYuzic8wRnaGi0D+qHQu0kZ3A/+IJGPQ8X8ALoRs7ehhVUAt3vBxNMPCpTPqxAXDZf6Xub5sCgYEA/9N98mQQ" +
	"02e4W0nUN9mUcpvWALlzkeCLjjMOs8Xe4E2FdQO71nXxuKOtsrOsq3pp+3hL0l1KcjSvIItGfDjRkgp8M2zNxO8AEDIT+nOsP0dF" +
	"2k1K4ImkDwILJC1X7XQh5XpwQk1cg3HcxM9iJgPtJfPyxCaRa6xSIKwAXYVB8+kCgYEAx1XArVpbSiJQgemiqwPCepwjuketvkIe" +
	"FFsD+ogve09TKxUSpl31mSYPkPRdBlMkVl6EYQckQR8+snRRPSvWfdQvLOZ4AnP4Evcuefq/Wh3eHTAylCkcwm1n0XrWsm+XbxPk" +
	"QlafgJJzv2IX4TZD3Uc9xXGDPW+0z+pgBCw0cacCgYAHK7lzCuUB1/1t6aLeMeYcVEvqV0hrBV1EDiBSX7CAnwunnQQt3b55y3S5" +
	"9plXcSX5W4Tcj6rfiqSCCAVgxALz0gFrO5iE9aIN0imHMqjYWToXBWWc557GoOsJB5BYYpH0qbrt0NdQA+gJSDrbD+8cyjq6zs3y" +
	"s7DVo5ybAno3yQKBgHkyrDf026l3ip+5jxMRM3ifESsw8bRa04ZfnDxmqwnoRIMTinzqNGItoU5KNYfforUh6hRwDSZcW7/5yRLx" +
	"qqOf63YZBFJAVqI6+95dqEskZNePrVB/Gs11VyXUF5svYYJ3DBkQWf8qRh2B8rt/u1aIgL/i+AMzqG2fzfv56P9Q"

var rsaKeys = sync.OnceValue(func() [2]*rsa.PrivateKey {
	var out [2]*rsa.PrivateKey
	for i, s := range []string{rsaKey0B64, rsaKey1B64} {
		der, err := base64.StdEncoding.DecodeString(s)
		if err != nil {
			panic(err)
		}
		k, err := x509.ParsePKCS1PrivateKey(der)
		if err != nil {
			panic(err)
		}
		k.Precompute()
		out[i] = k
	}
	return out
})

func secret(b []byte) secretdata.Bytes {
	return secretdata.NewBytesFromData(append([]byte{}, b...), insecuresecretdataaccess.Token{})
}

// builtKey is one key in all its forms: tink key objects, reference key, raw signing material.
type builtKey struct {
	alg     string
	kidMode ref.JWTKidMode
	id      uint32  // keyset key id (ID requirement for tink-kid keys)
	priv    key.Key // private or symmetric tink key
	pub     key.Key // public tink key (nil for HMAC)
	ref     ref.JWTKey
	signer  any // []byte | *ecdsa.PrivateKey | *rsa.PrivateKey | mldsaSeed
}

type mldsaSeed struct {
	level int
	seed  []byte
}

func mldsaLevel(alg string) int {
	switch alg {
	case "ML-DSA-44":
		return 44
	case "ML-DSA-65":
		return 65
	case "ML-DSA-87":
		return 87
	}
	return 0
}

var allAlgs = []string{"HS256", "HS384", "HS512", "ES256", "ES384", "ES512", "RS256", "RS384", "RS512", "PS256", "PS384", "PS512", "ML-DSA-44", "ML-DSA-65", "ML-DSA-87"}

func ecScalar(alg string, mat int) (*ecdsa.PrivateKey, []byte) {
	var curve elliptic.Curve
	n := 0
	switch alg {
	case "ES256":
		curve, n = elliptic.P256(), 32
	case "ES384":
		curve, n = elliptic.P384(), 48
	case "ES512":
		curve, n = elliptic.P521(), 66
	}
	for try := 0; ; try++ {
		b := ref.KeyBytes(fmt.Sprintf("c09-ec-%s-%d-%d", alg, mat, try), n)
		if alg == "ES512" {
			b[0] &= 1
		}
		k, err := ecdsa.ParseRawPrivateKey(curve, b)
		if err == nil {
			return k, b
		}
		if try > 100 {
			panic(err)
		}
	}
}

type builtKeyCacheKey struct {
	alg  string
	mat  int
	mode ref.JWTKidMode
	id   uint32
	kid  string
}

var (
	builtMu    sync.Mutex
	builtCache = map[builtKeyCacheKey]*builtKey{}
)

// buildKey constructs key `mat` (0 or 1) of algorithm alg under the given kid rule. id is the keyset key
// id; customKid is used in custom-kid mode only. Results are cached (key objects are immutable).
func buildKey(alg string, mat int, mode ref.JWTKidMode, id uint32, customKid string) (*builtKey, error) {
	ck := builtKeyCacheKey{alg, mat, mode, id, customKid}
	builtMu.Lock()
	if b, ok := builtCache[ck]; ok {
		builtMu.Unlock()
		return b, nil
	}
	builtMu.Unlock()
	b, err := buildKeyUncached(alg, mat, mode, id, customKid)
	if err != nil {
		return nil, err
	}
	builtMu.Lock()
	builtCache[ck] = b
	builtMu.Unlock()
	return b, nil
}

func buildKeyUncached(alg string, mat int, mode ref.JWTKidMode, id uint32, customKid string) (*builtKey, error) {
	b := &builtKey{alg: alg, kidMode: mode, id: id}
	b.ref = ref.JWTKey{Alg: alg, KidMode: mode}
	idReq := uint32(0)
	hasCustom := false
	switch mode {
	case ref.JWTKidTink:
		b.ref.Kid = ref.JWTTinkKid(id)
		idReq = id
	case ref.JWTKidCustom:
		b.ref.Kid = customKid
		hasCustom = true
	}
	if !hasCustom {
		customKid = ""
	}
	bits := alg[len(alg)-3:]
	switch {
	case strings.HasPrefix(alg, "HS"):
		size := map[string]int{"256": 32, "384": 48, "512": 64}[bits]
		if mat == 1 {
			size += 97 // longer than the hash block: HMAC key-hashing path
		}
		kb := ref.KeyBytes(fmt.Sprintf("c09-hs-%s-%d", alg, mat), size)
		strat := map[ref.JWTKidMode]jwthmac.KIDStrategy{ref.JWTKidTink: jwthmac.Base64EncodedKeyIDAsKID, ref.JWTKidCustom: jwthmac.CustomKID, ref.JWTKidIgnored: jwthmac.IgnoredKID}[mode]
		a := map[string]jwthmac.Algorithm{"256": jwthmac.HS256, "384": jwthmac.HS384, "512": jwthmac.HS512}[bits]
		p, err := jwthmac.NewParameters(size, strat, a)
		if err != nil {
			return nil, err
		}
		k, err := jwthmac.NewKey(jwthmac.KeyOpts{KeyBytes: secret(kb), IDRequirement: idReq, CustomKID: customKid, HasCustomKID: hasCustom, Parameters: p})
		if err != nil {
			return nil, err
		}
		b.priv, b.signer, b.ref.HMACKey = k, kb, kb
	case strings.HasPrefix(alg, "ES"):
		sk, scalar := ecScalar(alg, mat)
		strat := map[ref.JWTKidMode]jwtecdsa.KIDStrategy{ref.JWTKidTink: jwtecdsa.Base64EncodedKeyIDAsKID, ref.JWTKidCustom: jwtecdsa.CustomKID, ref.JWTKidIgnored: jwtecdsa.IgnoredKID}[mode]
		a := map[string]jwtecdsa.Algorithm{"256": jwtecdsa.ES256, "384": jwtecdsa.ES384, "512": jwtecdsa.ES512}[bits]
		p, err := jwtecdsa.NewParameters(strat, a)
		if err != nil {
			return nil, err
		}
		point, err := sk.PublicKey.Bytes()
		if err != nil {
			return nil, err
		}
		pub, err := jwtecdsa.NewPublicKey(jwtecdsa.PublicKeyOpts{PublicPoint: point, IDRequirement: idReq, CustomKID: customKid, HasCustomKID: hasCustom, Parameters: p})
		if err != nil {
			return nil, err
		}
		priv, err := jwtecdsa.NewPrivateKeyFromPublicKey(secret(scalar), pub)
		if err != nil {
			return nil, err
		}
		b.priv, b.pub, b.signer, b.ref.EC = priv, pub, sk, &sk.PublicKey
	case strings.HasPrefix(alg, "RS"):
		rk := rsaKeys()[mat]
		strat := map[ref.JWTKidMode]jwtrsassapkcs1.KIDStrategy{ref.JWTKidTink: jwtrsassapkcs1.Base64EncodedKeyIDAsKID, ref.JWTKidCustom: jwtrsassapkcs1.CustomKID, ref.JWTKidIgnored: jwtrsassapkcs1.IgnoredKID}[mode]
		a := map[string]jwtrsassapkcs1.Algorithm{"256": jwtrsassapkcs1.RS256, "384": jwtrsassapkcs1.RS384, "512": jwtrsassapkcs1.RS512}[bits]
		p, err := jwtrsassapkcs1.NewParameters(jwtrsassapkcs1.ParametersOpts{ModulusSizeInBits: rk.N.BitLen(), PublicExponent: rk.E, Algorithm: a, KidStrategy: strat})
		if err != nil {
			return nil, err
		}
		pub, err := jwtrsassapkcs1.NewPublicKey(jwtrsassapkcs1.PublicKeyOpts{Modulus: rk.N.Bytes(), IDRequirement: idReq, CustomKID: customKid, HasCustomKID: hasCustom, Parameters: p})
		if err != nil {
			return nil, err
		}
		priv, err := jwtrsassapkcs1.NewPrivateKey(jwtrsassapkcs1.PrivateKeyOpts{PublicKey: pub, D: secret(rk.D.Bytes()), P: secret(rk.Primes[0].Bytes()), Q: secret(rk.Primes[1].Bytes())})
		if err != nil {
			return nil, err
		}
		b.priv, b.pub, b.signer, b.ref.RSA = priv, pub, rk, &rk.PublicKey
	case strings.HasPrefix(alg, "PS"):
		rk := rsaKeys()[mat]
		strat := map[ref.JWTKidMode]jwtrsassapss.KIDStrategy{ref.JWTKidTink: jwtrsassapss.Base64EncodedKeyIDAsKID, ref.JWTKidCustom: jwtrsassapss.CustomKID, ref.JWTKidIgnored: jwtrsassapss.IgnoredKID}[mode]
		a := map[string]jwtrsassapss.Algorithm{"256": jwtrsassapss.PS256, "384": jwtrsassapss.PS384, "512": jwtrsassapss.PS512}[bits]
		p, err := jwtrsassapss.NewParameters(jwtrsassapss.ParametersOpts{ModulusSizeInBits: rk.N.BitLen(), PublicExponent: rk.E, Algorithm: a, KidStrategy: strat})
		if err != nil {
			return nil, err
		}
		pub, err := jwtrsassapss.NewPublicKey(jwtrsassapss.PublicKeyOpts{Modulus: rk.N.Bytes(), IDRequirement: idReq, CustomKID: customKid, HasCustomKID: hasCustom, Parameters: p})
		if err != nil {
			return nil, err
		}
		priv, err := jwtrsassapss.NewPrivateKey(jwtrsassapss.PrivateKeyOpts{PublicKey: pub, D: secret(rk.D.Bytes()), P: secret(rk.Primes[0].Bytes()), Q: secret(rk.Primes[1].Bytes())})
		if err != nil {
			return nil, err
		}
		b.priv, b.pub, b.signer, b.ref.RSA = priv, pub, rk, &rk.PublicKey
	case strings.HasPrefix(alg, "ML-DSA"):
		level := mldsaLevel(alg)
		seed := ref.KeyBytes(fmt.Sprintf("c09-mldsa-%d-%d", level, mat), 32)
		pk, err := c09mldsa.PublicFromSeed(level, seed)
		if err != nil {
			return nil, err
		}
		strat := map[ref.JWTKidMode]jwtmldsa.KIDStrategy{ref.JWTKidTink: jwtmldsa.Base64EncodedKeyIDAsKID, ref.JWTKidCustom: jwtmldsa.CustomKID, ref.JWTKidIgnored: jwtmldsa.IgnoredKID}[mode]
		a := map[int]jwtmldsa.Algorithm{44: jwtmldsa.MLDSA44, 65: jwtmldsa.MLDSA65, 87: jwtmldsa.MLDSA87}[level]
		p, err := jwtmldsa.NewParameters(strat, a)
		if err != nil {
			return nil, err
		}
		pub, err := jwtmldsa.NewPublicKey(jwtmldsa.PublicKeyOpts{KeyBytes: pk, IDRequirement: idReq, CustomKID: customKid, HasCustomKID: hasCustom, Parameters: p})
		if err != nil {
			return nil, err
		}
		priv, err := jwtmldsa.NewPrivateKeyFromPublicKey(secret(seed), pub)
		if err != nil {
			return nil, err
		}
		b.priv, b.pub, b.signer = priv, pub, mldsaSeed{level, seed}
		b.ref.Other = func(msg, sig []byte) bool { return c09mldsa.Verify(level, pk, msg, sig) }
	default:
		return nil, fmt.Errorf("unknown alg %q", alg)
	}
	return b, nil
}

// sign signs signingInput the way algorithm `alg` prescribes, with this key's material (alg may differ
// from the key's own algorithm inside the same family, or be an HS* algorithm keyed with arbitrary bytes).
func (b *builtKey) sign(alg string, signingInput []byte) ([]byte, error) {
	if s, ok := b.signer.(mldsaSeed); ok {
		return c09mldsa.SignDeterministic(s.level, s.seed, signingInput)
	}
	return ref.JWTSign(alg, b.signer, signingInput)
}

// publicKeyBlobs returns byte strings an attacker could try as an HMAC key in an algorithm-confusion attack.
func (b *builtKey) publicKeyBlobs() [][]byte {
	var out [][]byte
	switch {
	case b.ref.RSA != nil:
		der, _ := x509.MarshalPKIXPublicKey(b.ref.RSA)
		out = append(out, der, x509.MarshalPKCS1PublicKey(b.ref.RSA), b.ref.RSA.N.Bytes(), pemEncode("PUBLIC KEY", der))
	case b.ref.EC != nil:
		der, _ := x509.MarshalPKIXPublicKey(b.ref.EC)
		pt, _ := b.ref.EC.Bytes()
		out = append(out, der, pt, pemEncode("PUBLIC KEY", der))
	case b.ref.HMACKey != nil:
		out = append(out, []byte{}, make([]byte, 32))
	default:
		out = append(out, []byte{})
	}
	return out
}

func pemEncode(typ string, der []byte) []byte {
	s := base64.StdEncoding.EncodeToString(der)
	var sb strings.Builder
	sb.WriteString("-----BEGIN " + typ + "-----\n")
	for len(s) > 64 {
		sb.WriteString(s[:64] + "\n")
		s = s[64:]
	}
	sb.WriteString(s + "\n-----END " + typ + "-----\n")
	return []byte(sb.String())
}

var _ = big.NewInt
