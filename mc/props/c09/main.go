// C09: JWT verification accepts exactly validly signed, rule-conforming tokens; claims/headers round
// trip; JWK set export/import; JWK export refuses private keys.
//
// Engine E1 (exhaustive choice-tree enumeration). Every token of every enumerated cell is decided by
// the REAL tink code (jwt.NewMAC / NewSigner / NewVerifier over keyset handles) and by the independent
// reference decision procedure ref.JWTAccept (mc/ref/jwt.go: own splitter, own strict base64url decoder,
// encoding/json, ref.HMAC, stdlib ecdsa/rsa verification, stdlib-internal ML-DSA as oracle); verdicts and
// returned claims must agree.
//
// Don't-care cells (enumerated, executed for panics, verdict not compared):
//   - base64url parts whose last character carries non-zero unused trailing bits (RFC 4648 3.5 lets a
//     decoder accept or reject them) on an otherwise acceptable token - signature part and, by the
//     same RFC argument, header / payload parts;
//   - JSON objects with duplicate member names (RFC 7519 section 4 lets an implementation reject them or
//     use the last one) on an otherwise correctly signed token.
//
// Not judged at all: error values / messages, tink's choice which error it reports, time.Now() based
// validation (FixedNow is always set: no wall-clock oracle), negative clock skew, URI syntax of
// StringOrURI values, lone-surrogate escapes, JSON nesting limits.
package main

import (
	"encoding/json"
	"fmt"
	"sort"
	"strings"
	"sync"
	"time"

	"github.com/tink-crypto/tink-go/v2/jwt"
	"github.com/tink-crypto/tink-go/v2/keyset"
	tinkpb "github.com/tink-crypto/tink-go/v2/proto/tink_go_proto"
	"verif/h"
	"verif/ref"
	"verif/tk"
)

const nowSec = int64(1_700_000_000)

type verifyFn func(token string, v *jwt.Validator) (*jwt.VerifiedJWT, error)

// tally collects outcome classes locally and flushes them once per execution.
type tally map[string]int

func (t tally) add(s string) { t[s]++ }
func (t tally) flush(x *h.X) {
	ks := make([]string, 0, len(t))
	for k := range t {
		ks = append(ks, k)
	}
	sort.Strings(ks)
	for _, k := range ks {
		x.OutcomeN(k, t[k])
	}
}

func short(s string) string {
	if len(s) > 700 {
		return s[:340] + "…" + s[len(s)-340:]
	}
	return s
}

// judge decides one token with tink and with the reference and compares verdict and claims.
func judge(x *h.X, t tally, ctx, token string, verify verifyFn, val *jwt.Validator, keys []ref.JWTKey, rv ref.JWTValidator, now time.Time) ref.JWTVerdict {
	want := ref.JWTAccept(token, keys, rv, now)
	var vj *jwt.VerifiedJWT
	var err error
	if p, msg := h.Try(func() { vj, err = verify(token, val) }); p {
		x.Fail("panic", "%s: verification of %q panicked: %s", ctx, short(token), msg)
		return want
	}
	x.Eval(1)
	got := err == nil
	switch {
	case want.DontCare:
		t.add("dont-care: " + want.Why)
	case got && !want.Accept:
		x.Fail("accepts-invalid", "%s: tink ACCEPTS token %q; the reference rejects it: %s", ctx, short(token), want.Why)
	case !got && want.Accept:
		x.Fail("rejects-valid", "%s: tink REJECTS token %q (%v); the reference accepts it", ctx, short(token), err)
	case got:
		t.add("accept")
		if vj == nil {
			x.Fail("claims-mismatch", "%s: nil VerifiedJWT with nil error", ctx)
		} else {
			compareVerified(x, ctx+" token "+short(token), vj, want)
		}
	default:
		t.add("reject: " + want.Why)
	}
	return want
}

var registered = map[string]bool{"iss": true, "sub": true, "aud": true, "exp": true, "nbf": true, "iat": true, "jti": true}

// compareVerified checks that the VerifiedJWT exposes exactly the signed payload (and typ header).
func compareVerified(x *h.X, ctx string, vj *jwt.VerifiedJWT, want ref.JWTVerdict) {
	bad := func(format string, a ...any) {
		x.Fail("claims-mismatch", "%s: %s", ctx, fmt.Sprintf(format, a...))
	}
	raw, err := vj.JSONPayload()
	if err != nil {
		bad("JSONPayload: %v", err)
		return
	}
	got, err := ref.JWTParseObject(raw)
	if err != nil {
		bad("JSONPayload %q is not a JSON object: %v", raw, err)
		return
	}
	if !ref.JWTEqualJSON(want.Payload, got) {
		bad("returned payload %s differs from the signed payload %v", raw, want.Payload)
	}
	if vj.HasTypeHeader() != (want.Typ != nil) {
		bad("HasTypeHeader=%v", vj.HasTypeHeader())
	} else if want.Typ != nil {
		if s, err := vj.TypeHeader(); err != nil || s != *want.Typ {
			bad("TypeHeader=%q,%v want %q", s, err, *want.Typ)
		}
	}
	p := want.Payload
	strClaim := func(name string, has func() bool, get func() (string, error)) {
		w, present := p[name]
		if has() != present {
			bad("Has(%s)=%v want %v", name, has(), present)
			return
		}
		s, err := get()
		if present && (err != nil || s != w.(string)) {
			bad("%s=%q,%v want %q", name, s, err, w)
		}
		if !present && err == nil {
			bad("%s absent but getter succeeded with %q", name, s)
		}
	}
	strClaim("iss", vj.HasIssuer, vj.Issuer)
	strClaim("sub", vj.HasSubject, vj.Subject)
	strClaim("jti", vj.HasJWTID, vj.JWTID)
	timeClaim := func(name string, has func() bool, get func() (time.Time, error)) {
		w, present := p[name]
		if has() != present {
			bad("Has(%s)=%v want %v", name, has(), present)
			return
		}
		tm, err := get()
		if !present {
			if err == nil {
				bad("%s absent but getter succeeded", name)
			}
			return
		}
		if err != nil {
			bad("%s getter: %v", name, err)
			return
		}
		f := ref.JWTNumberFloat(w.(json.Number))
		if f == float64(int64(f)) && (tm.Unix() != int64(f) || tm.Nanosecond() != 0) {
			bad("%s=%v want unix %v", name, tm, f)
		}
	}
	timeClaim("exp", vj.HasExpiration, vj.ExpiresAt)
	timeClaim("nbf", vj.HasNotBefore, vj.NotBefore)
	timeClaim("iat", vj.HasIssuedAt, vj.IssuedAt)
	_, hasAud := p["aud"]
	if vj.HasAudiences() != hasAud {
		bad("HasAudiences=%v want %v", vj.HasAudiences(), hasAud)
	} else if hasAud {
		a, err := vj.Audiences()
		w := ref.JWTAudiences(p)
		if err != nil || strings.Join(a, "\x00") != strings.Join(w, "\x00") || len(a) != len(w) {
			bad("Audiences=%q,%v want %q", a, err, w)
		}
	}
	var wantNames []string
	for _, k := range ref.JWTSortedKeys(p) {
		if !registered[k] {
			wantNames = append(wantNames, k)
		}
	}
	names := vj.CustomClaimNames()
	sort.Strings(names)
	if strings.Join(names, "\x00") != strings.Join(wantNames, "\x00") || len(names) != len(wantNames) {
		bad("CustomClaimNames=%q want %q", names, wantNames)
	}
	for _, k := range wantNames {
		kinds := [6]bool{vj.HasNullClaim(k), vj.HasBooleanClaim(k), vj.HasNumberClaim(k), vj.HasStringClaim(k), vj.HasArrayClaim(k), vj.HasObjectClaim(k)}
		var wk [6]bool
		switch w := p[k].(type) {
		case nil:
			wk[0] = true
		case bool:
			wk[1] = true
			if b, err := vj.BooleanClaim(k); err != nil || b != w {
				bad("BooleanClaim(%q)=%v,%v want %v", k, b, err, w)
			}
		case json.Number:
			wk[2] = true
			if f, err := vj.NumberClaim(k); err != nil || f != ref.JWTNumberFloat(w) {
				bad("NumberClaim(%q)=%v,%v want %v", k, f, err, w)
			}
		case string:
			wk[3] = true
			if s, err := vj.StringClaim(k); err != nil || s != w {
				bad("StringClaim(%q)=%q,%v want %q", k, s, err, w)
			}
		case []any:
			wk[4] = true
			if a, err := vj.ArrayClaim(k); err != nil || !ref.JWTEqualJSON(w, anySlice(a)) {
				bad("ArrayClaim(%q)=%v,%v want %v", k, a, err, w)
			}
		case map[string]any:
			wk[5] = true
			if o, err := vj.ObjectClaim(k); err != nil || !ref.JWTEqualJSON(w, anyMap(o)) {
				bad("ObjectClaim(%q)=%v,%v want %v", k, o, err, w)
			}
		}
		if kinds != wk {
			bad("claim %q kind predicates (null,bool,number,string,array,object)=%v want %v", k, kinds, wk)
		}
	}
}

func anySlice(a []any) any {
	if a == nil {
		return []any{}
	}
	return a
}
func anyMap(m map[string]any) any {
	if m == nil {
		return map[string]any{}
	}
	return m
}

func sp(s string) *string { return &s }

// ---------------------------------------------------------------------------------------------------
// (1) validator product through ComputeMACAndEncode -> VerifyMACAndDecode with an HS256 key

type vcfg struct {
	typTok, issTok, audTok int
	typV, issV, audV       int
	exp, nbf, iat          int
	allow, expectIat       bool
	skew                   time.Duration
	nowNs                  int
}

var (
	tokStr   = []string{"", "x", "y", ""} // index 0 = absent; index 3 = PRESENT and empty (an empty string is a value, not an absence)
	audLists = [][]string{nil, nil, nil, {"x"}, {"y", "x"}, {"y", "z"}, nil, {"", "x"}} // 6: single audience "", 7: a list holding ""
	skews    = []time.Duration{0, time.Second, 10 * time.Minute, 1500 * time.Millisecond, 10*time.Minute + 1}
	nowFracs = []int{0, 500_000_000, 999_999_999}
)

const (
	nTok, nAudTok = 4, 8
	nFieldV       = 5 // expect none, ignore, expect "x", INVALID ignore+expect, expect ""
	nAudV         = 7 // ... , expect "x" via deprecated ExpectedAudiences, INVALID ignore+expect, INVALID both expectation fields, expect ""
	nExp          = 9
	nNbf          = 6
	nIat          = 5
)

func expValue(i int, skewSec int64) (int64, bool) {
	switch i {
	case 0:
		return nowSec - skewSec + 1, true
	case 1:
		return 0, false
	case 2:
		return nowSec - skewSec - 1, true
	case 3:
		return nowSec - skewSec, true
	case 4:
		return nowSec, true
	case 5:
		return nowSec + 1, true
	case 6:
		return nowSec - skewSec + 2, true
	case 7:
		return 253402300799, true
	}
	return 0, true
}

func laterValue(i int, skewSec int64) (int64, bool) { // nbf / iat
	switch i {
	case 0:
		return 0, false
	case 1:
		return nowSec + skewSec - 1, true
	case 2:
		return nowSec + skewSec, true
	case 3:
		return nowSec + skewSec + 1, true
	case 4:
		return nowSec + skewSec + 2, true
	}
	return 0, true // epoch
}

type hsPrims struct {
	mac  jwt.MAC
	keys []ref.JWTKey
}

var hs256 = sync.OnceValues(func() (*hsPrims, error) {
	b, err := buildKey("HS256", 0, ref.JWTKidIgnored, 0x01020304, "")
	if err != nil {
		return nil, err
	}
	hd, err := tk.Handle([]tk.Entry{{Key: b.priv, ID: b.id, Primary: true}})
	if err != nil {
		return nil, err
	}
	m, err := jwt.NewMAC(hd)
	if err != nil {
		return nil, err
	}
	return &hsPrims{mac: m, keys: []ref.JWTKey{b.ref}}, nil
})

// validators builds the tink validator and the reference validator of a configuration.
func validators(x *h.X, c vcfg, now time.Time) (*jwt.Validator, ref.JWTValidator, bool) {
	o := &jwt.ValidatorOpts{FixedNow: now, ClockSkew: c.skew, AllowMissingExpiration: c.allow, ExpectIssuedInThePast: c.expectIat}
	rv := ref.JWTValidator{AllowMissingExp: c.allow, ExpectIatInPast: c.expectIat, Skew: c.skew}
	switch c.typV {
	case 1:
		o.IgnoreTypeHeader, rv.IgnoreTyp = true, true
	case 2:
		o.ExpectedTypeHeader, rv.ExpectedTyp = sp("x"), sp("x")
	case 3:
		o.IgnoreTypeHeader, rv.IgnoreTyp = true, true
		o.ExpectedTypeHeader, rv.ExpectedTyp = sp("x"), sp("x")
	case 4:
		o.ExpectedTypeHeader, rv.ExpectedTyp = sp(""), sp("")
	}
	switch c.issV {
	case 1:
		o.IgnoreIssuer, rv.IgnoreIss = true, true
	case 2:
		o.ExpectedIssuer, rv.ExpectedIss = sp("x"), sp("x")
	case 3:
		o.IgnoreIssuer, rv.IgnoreIss = true, true
		o.ExpectedIssuer, rv.ExpectedIss = sp("x"), sp("x")
	case 4:
		o.ExpectedIssuer, rv.ExpectedIss = sp(""), sp("")
	}
	bothAud := false
	switch c.audV {
	case 1:
		o.IgnoreAudiences, rv.IgnoreAud = true, true
	case 2:
		o.ExpectedAudience, rv.ExpectedAud = sp("x"), sp("x")
	case 3:
		o.ExpectedAudiences, rv.ExpectedAud = sp("x"), sp("x")
	case 4:
		o.IgnoreAudiences, rv.IgnoreAud = true, true
		o.ExpectedAudience, rv.ExpectedAud = sp("x"), sp("x")
	case 5:
		o.ExpectedAudience, o.ExpectedAudiences = sp("x"), sp("x")
		bothAud = true
	case 6:
		o.ExpectedAudience, rv.ExpectedAud = sp(""), sp("")
	}
	v, err := jwt.NewValidator(o)
	// the caller REUSES its options struct right after the constructor returned (e.g. to build the next validator):
	// the validator must have its own copy of the rules
	o.ExpectedTypeHeader, o.ExpectedIssuer, o.ExpectedAudience = sp("reused-typ"), sp("reused-iss"), sp("reused-aud")
	o.IgnoreTypeHeader, o.IgnoreIssuer, o.IgnoreAudiences = !o.IgnoreTypeHeader, !o.IgnoreIssuer, !o.IgnoreAudiences
	o.AllowMissingExpiration, o.ExpectIssuedInThePast = !o.AllowMissingExpiration, !o.ExpectIssuedInThePast
	o.ClockSkew, o.FixedNow = 9*time.Minute, o.FixedNow.Add(72*time.Hour)
	x.Eval(1)
	constructible := rv.Constructible() && !bothAud
	if constructible && err != nil {
		if c.typV == 4 || c.issV == 4 || c.audV == 6 {
			// expecting the empty string: a validator constructor that refuses it contradicts nothing in the statement
			x.Outcome("empty-string expectation refused by NewValidator (not judged)")
			return nil, rv, false
		}
		x.Fail("validator-refused", "NewValidator refuses admissible options %+v: %v", c, err)
		return nil, rv, false
	}
	if !constructible && err == nil {
		x.Fail("validator-constructed", "NewValidator accepts inadmissible options (ignore+expect conflict, both audience fields, or clock skew %v > 10 min): %+v", c.skew, c)
		return nil, rv, false
	}
	return v, rv, constructible
}

func rawJWT(c vcfg) (*jwt.RawJWTOptions, string) {
	skewSec := int64(c.skew / time.Second)
	o := &jwt.RawJWTOptions{}
	if c.typTok > 0 {
		o.TypeHeader = sp(tokStr[c.typTok])
	}
	if c.issTok > 0 {
		o.Issuer = sp(tokStr[c.issTok])
	}
	switch {
	case c.audTok == 0:
	case c.audTok < 3:
		o.Audience = sp(tokStr[c.audTok])
	case c.audTok == 6:
		o.Audience = sp("")
	default:
		o.Audiences = audLists[c.audTok]
	}
	tm := func(v int64) *time.Time { t := time.Unix(v, 0); return &t }
	if v, ok := expValue(c.exp, skewSec); ok {
		o.ExpiresAt = tm(v)
	} else {
		o.WithoutExpiration = true
	}
	if v, ok := laterValue(c.nbf, skewSec); ok {
		o.NotBefore = tm(v)
	}
	if v, ok := laterValue(c.iat, skewSec); ok {
		o.IssuedAt = tm(v)
	}
	return o, fmt.Sprintf("%+v", c)
}

func checkValidatorCell(x *h.X, t tally, p *hsPrims, c vcfg, v *jwt.Validator, rv ref.JWTValidator, now time.Time, tokens map[[3]int]string) {
	tkKey := [3]int{c.exp, c.nbf, c.iat}
	token, ok := tokens[tkKey]
	ctx := ""
	if !ok {
		o, d := rawJWT(c)
		ctx = d
		raw, err := jwt.NewRawJWT(o)
		if err != nil {
			if c.typTok == 3 || c.issTok == 3 || c.audTok >= 6 {
				// an empty-but-present typ / iss / aud: a producer that refuses to WRITE it contradicts nothing in
				// the statement (which speaks about what is accepted); recorded, not judged
				x.Outcome("empty-string claim refused by NewRawJWT (not judged)")
				return
			}
			x.Fail("rawjwt-refused", "NewRawJWT refuses valid options %s: %v", ctx, err)
			return
		}
		token, err = p.mac.ComputeMACAndEncode(raw)
		if err != nil {
			x.Fail("compute-error", "ComputeMACAndEncode %s: %v", ctx, err)
			return
		}
		tokens[tkKey] = token
	}
	want := judge(x, t, "validator", token, p.mac.VerifyMACAndDecode, v, p.keys, rv, now)
	if x.Replaying() {
		x.Logf("cfg=%+v token=%s reference accept=%v why=%s", c, token, want.Accept, want.Why)
	}
}

// validatorProduct: outer choice points = field matrix / skew / now, inner loops = time claims x flags.
func validatorProduct(fieldsFull, timeFull bool) func(x *h.X) {
	return func(x *h.X) {
		var c vcfg
		if fieldsFull {
			c.typTok, c.typV = x.Choose("typ(token)", nTok), x.Choose("typ(validator)", nFieldV)
			c.issTok, c.issV = x.Choose("iss(token)", nTok), x.Choose("iss(validator)", nFieldV)
			c.audTok, c.audV = x.Choose("aud(token)", nAudTok), x.Choose("aud(validator)", nAudV)
		}
		if timeFull {
			c.skew = h.Pick(x, "skew", skews)
			fr := nowFracs
			if fieldsFull {
				fr = nowFracs[:2]
			}
			c.nowNs = h.Pick(x, "now.nsec", fr)
		}
		p, err := hs256()
		if err != nil {
			x.Fail("construct", "HS256 primitive: %v", err)
			return
		}
		now := time.Unix(nowSec, int64(c.nowNs))
		t := tally{}
		defer t.flush(x)
		tokens := map[[3]int]string{}
		nE, nN, nI, nB := 1, 1, 1, 1
		if timeFull {
			nE, nN, nI, nB = nExp, nNbf, nIat, 2
		}
		if timeFull && fieldsFull {
			// the full product leaves the far values (epoch, year 9999, +2 s) to the validator-time section
			nE, nN, nI = 7, 5, 4
		}
		for a := 0; a < nB; a++ {
			for e := 0; e < nB; e++ {
				c.allow, c.expectIat = a == 1, e == 1
				v, rv, ok := validators(x, c, now)
				if !ok {
					t.add("validator not constructible")
					x.NonTrivial()
					return
				}
				for c.exp = 0; c.exp < nE; c.exp++ {
					for c.nbf = 0; c.nbf < nN; c.nbf++ {
						for c.iat = 0; c.iat < nI; c.iat++ {
							checkValidatorCell(x, t, p, c, v, rv, now, tokens)
						}
					}
				}
			}
		}
		x.NonTrivial()
	}
}

// validatorPairs: every dimension is a deviation point (default = an accepting cell); with Section.Bound = k
// all combinations of up to k non-default dimensions are explored.
func validatorPairs(x *h.X) {
	var c vcfg
	c.typTok, c.typV = x.Deviate("typ(token)", nTok), x.Deviate("typ(validator)", nFieldV)
	c.issTok, c.issV = x.Deviate("iss(token)", nTok), x.Deviate("iss(validator)", nFieldV)
	c.audTok, c.audV = x.Deviate("aud(token)", nAudTok), x.Deviate("aud(validator)", nAudV)
	c.exp, c.allow = x.Deviate("exp", nExp), x.Deviate("AllowMissingExpiration", 2) == 1
	c.nbf = x.Deviate("nbf", nNbf)
	c.iat, c.expectIat = x.Deviate("iat", nIat), x.Deviate("ExpectIssuedInThePast", 2) == 1
	c.skew = h.PickDev(x, "skew", skews)
	c.nowNs = h.PickDev(x, "now.nsec", nowFracs)
	p, err := hs256()
	if err != nil {
		x.Fail("construct", "HS256 primitive: %v", err)
		return
	}
	now := time.Unix(nowSec, int64(c.nowNs))
	t := tally{}
	defer t.flush(x)
	x.NonTrivial()
	v, rv, ok := validators(x, c, now)
	if !ok {
		t.add("validator not constructible")
		return
	}
	checkValidatorCell(x, t, p, c, v, rv, now, map[[3]int]string{})
}

// ---------------------------------------------------------------------------------------------------
// hand-made tokens

type kv struct {
	k   string
	raw string // JSON text of the value
}

func render(fs []kv) []byte {
	var sb strings.Builder
	sb.WriteByte('{')
	for i, f := range fs {
		if i > 0 {
			sb.WriteByte(',')
		}
		sb.WriteString(jstr(f.k) + ":" + f.raw)
	}
	sb.WriteByte('}')
	return []byte(sb.String())
}

func jstr(s string) string { b, _ := json.Marshal(s); return string(b) }

func with(fs []kv, k, raw string) []kv {
	out := append([]kv{}, fs...)
	for i := range out {
		if out[i].k == k {
			out[i].raw = raw
			return out
		}
	}
	return append(out, kv{k, raw})
}

func without(fs []kv, k string) []kv {
	var out []kv
	for _, f := range fs {
		if f.k != k {
			out = append(out, f)
		}
	}
	return out
}

func signingInput(header, payload []byte) string {
	return ref.JWTB64Encode(header) + "." + ref.JWTB64Encode(payload)
}

// ---------------------------------------------------------------------------------------------------
// keysets

type keysetPrims struct {
	sign    func(*jwt.RawJWT) (string, error)
	verify  verifyFn
	refKeys []ref.JWTKey // enabled keys, keyset order
	priv    *keyset.Handle
	pub     *keyset.Handle // nil for MAC keysets
}

type ksEntry struct {
	b         *builtKey
	primary   bool
	disabled  bool
	destroyed bool // status DESTROYED (the key data is still there): as unusable as a disabled key
}

// buildKeyset builds private/public handles (proto path, exact ids) and the primitives.
func buildKeyset(es []ksEntry, viaManager bool) (*keysetPrims, error) {
	out := &keysetPrims{}
	var privE, pubE []tk.Entry
	isMAC := false
	for _, e := range es {
		st := tinkpb.KeyStatusType_ENABLED
		if e.disabled {
			st = tinkpb.KeyStatusType_DISABLED
		} else if e.destroyed {
			st = tinkpb.KeyStatusType_DESTROYED
		} else {
			out.refKeys = append(out.refKeys, e.b.ref)
		}
		privE = append(privE, tk.Entry{Key: e.b.priv, ID: e.b.id, Status: st, Primary: e.primary})
		if e.b.pub == nil {
			isMAC = true
		} else {
			pubE = append(pubE, tk.Entry{Key: e.b.pub, ID: e.b.id, Status: st, Primary: e.primary})
		}
	}
	var err error
	if viaManager && len(es) == 1 {
		out.priv, err = tk.Single(es[0].b.priv)
	} else {
		out.priv, err = tk.Handle(privE)
	}
	if err != nil {
		return nil, fmt.Errorf("private handle: %v", err)
	}
	if isMAC {
		m, err := jwt.NewMAC(out.priv)
		if err != nil {
			return nil, fmt.Errorf("NewMAC: %v", err)
		}
		out.sign, out.verify = m.ComputeMACAndEncode, m.VerifyMACAndDecode
		return out, nil
	}
	if viaManager && len(es) == 1 {
		out.pub, err = out.priv.Public()
	} else {
		out.pub, err = tk.Handle(pubE)
	}
	if err != nil {
		return nil, fmt.Errorf("public handle: %v", err)
	}
	s, err := jwt.NewSigner(out.priv)
	if err != nil {
		return nil, fmt.Errorf("NewSigner: %v", err)
	}
	v, err := jwt.NewVerifier(out.pub)
	if err != nil {
		return nil, fmt.Errorf("NewVerifier: %v", err)
	}
	out.sign, out.verify = s.SignAndEncode, v.VerifyAndDecode
	return out, nil
}

var kidModes = []ref.JWTKidMode{ref.JWTKidTink, ref.JWTKidCustom, ref.JWTKidIgnored}

func algsFor(x *h.X, quick []string) []string {
	if x.Thorough() {
		return allAlgs
	}
	return quick
}

// ---------------------------------------------------------------------------------------------------
// (2) + (4) round trip of claims / headers over key types x kid strategies x keysets, JWK export/import

var claimBits = []string{"iss", "sub", "aud", "exp", "nbf", "iat", "jti"}

func customClaims(variant int) map[string]any {
	switch variant {
	case 1:
		return map[string]any{
			"c-null": nil, "c-true": true, "c-false": false, "c-int": 42.0, "c-frac": 12.5, "c-neg": -3.0, "c-big": 1e21, "c-tiny": 1e-7,
			"c-str": "héllo \u2028 \"q\" \\ / <>&", "c-empty": "", "c-arr": []any{1.0, "two", nil, true, []any{}, map[string]any{"k": "v"}},
			"c-earr": []any{}, "c-eobj": map[string]any{}, "c-obj": map[string]any{"a": map[string]any{"b": []any{1.0, 2.0}}, "n": nil},
		}
	case 2:
		return map[string]any{"": "empty name", "Exp": "not registered", "ISS": 1.0, "é\U0001F600": "\U0001F600\u0000\u001f", "2^53+1": 9007199254740993.0,
			"max": 1.7976931348623157e308, "deep": []any{[]any{[]any{[]any{map[string]any{"x": []any{nil}}}}}}}
	}
	return nil
}

type rtCase struct {
	opts    *jwt.RawJWTOptions
	want    map[string]any // expected payload (float64 numbers)
	typ     *string
	val     *jwt.ValidatorOpts
	rv      ref.JWTValidator
	subset  int
	variant int
}

func roundTripCase(subset, variant int) rtCase {
	now := time.Unix(nowSec, 0)
	c := rtCase{opts: &jwt.RawJWTOptions{}, want: map[string]any{}, subset: subset, variant: variant}
	c.val = &jwt.ValidatorOpts{FixedNow: now}
	has := func(i int) bool { return subset>>i&1 == 1 }
	tm := func(v int64) *time.Time { t := time.Unix(v, 0); return &t }
	if has(0) {
		c.opts.Issuer, c.want["iss"] = sp("https://issuer.example/a?b=c"), "https://issuer.example/a?b=c"
		c.val.ExpectedIssuer, c.rv.ExpectedIss = sp("https://issuer.example/a?b=c"), sp("https://issuer.example/a?b=c")
	}
	if has(1) {
		c.opts.Subject, c.want["sub"] = sp("subject ü"), "subject ü"
	}
	if has(2) {
		switch variant {
		case 0:
			c.opts.Audience, c.want["aud"] = sp("aud-1"), "aud-1"
		case 1:
			c.opts.Audiences, c.want["aud"] = []string{"aud-0", "aud-1"}, []any{"aud-0", "aud-1"}
		default:
			c.opts.Audiences, c.want["aud"] = []string{"aud-1"}, []any{"aud-1"}
		}
		c.val.ExpectedAudience, c.rv.ExpectedAud = sp("aud-1"), sp("aud-1")
	}
	if has(3) {
		c.opts.ExpiresAt, c.want["exp"] = tm(nowSec+100), float64(nowSec+100)
	} else {
		c.opts.WithoutExpiration = true
		c.val.AllowMissingExpiration, c.rv.AllowMissingExp = true, true
	}
	if has(4) {
		c.opts.NotBefore, c.want["nbf"] = tm(nowSec-100), float64(nowSec-100)
	}
	if has(5) {
		c.opts.IssuedAt, c.want["iat"] = tm(nowSec-50), float64(nowSec-50)
		c.val.ExpectIssuedInThePast, c.rv.ExpectIatInPast = true, true
	}
	if has(6) {
		c.opts.JWTID, c.want["jti"] = sp("jti-0001"), "jti-0001"
	}
	switch variant {
	case 1:
		c.typ = sp("JWT")
	case 2:
		c.typ = sp("at+jwt")
	}
	if c.typ != nil {
		c.opts.TypeHeader = c.typ
		c.val.ExpectedTypeHeader, c.rv.ExpectedTyp = c.typ, c.typ
	}
	if cc := customClaims(variant); cc != nil {
		c.opts.CustomClaims = cc
		for k, v := range cc {
			c.want[k] = v
		}
	}
	return c
}

// jwkFor renders a JWK set for reference keys with the harness' own encoder (RFC 7517 / 7518 section 6).
func jwkFor(keys []ref.JWTKey) []byte {
	var ks []string
	for _, k := range keys {
		var fs []kv
		switch {
		case k.EC != nil:
			n := (k.EC.Curve.Params().BitSize + 7) / 8
			pt, _ := k.EC.Bytes()
			crv := map[string]string{"ES256": "P-256", "ES384": "P-384", "ES512": "P-521"}[k.Alg]
			fs = []kv{{"kty", `"EC"`}, {"crv", jstr(crv)}, {"x", jstr(ref.JWTB64Encode(pt[1 : 1+n]))}, {"y", jstr(ref.JWTB64Encode(pt[1+n:]))}}
		case k.RSA != nil:
			e := []byte{byte(k.RSA.E >> 16), byte(k.RSA.E >> 8), byte(k.RSA.E)}
			for len(e) > 1 && e[0] == 0 {
				e = e[1:]
			}
			fs = []kv{{"kty", `"RSA"`}, {"n", jstr(ref.JWTB64Encode(k.RSA.N.Bytes()))}, {"e", jstr(ref.JWTB64Encode(e))}}
		}
		fs = append(fs, kv{"alg", jstr(k.Alg)}, kv{"use", `"sig"`})
		if k.KidMode != ref.JWTKidIgnored {
			fs = append(fs, kv{"kid", jstr(k.Kid)})
		}
		ks = append(ks, string(render(fs)))
	}
	return []byte(`{"keys":[` + strings.Join(ks, ",") + `]}`)
}

func jwkEquivalent(a, b ref.JWTKey) bool {
	am, bm := a.KidMode, b.KidMode
	if am == ref.JWTKidTink {
		am = ref.JWTKidCustom // a key-id kid is exported as a fixed kid
	}
	if bm == ref.JWTKidTink {
		bm = ref.JWTKidCustom
	}
	if a.Alg != b.Alg || am != bm || (am == ref.JWTKidCustom && a.Kid != b.Kid) {
		return false
	}
	switch {
	case a.EC != nil:
		return b.EC != nil && a.EC.Equal(b.EC)
	case a.RSA != nil:
		return b.RSA != nil && a.RSA.Equal(b.RSA)
	}
	return false
}

func roundTripSection(x *h.X) {
	alg := h.Pick(x, "alg", algsFor(x, []string{"HS256", "HS512", "ES256", "ES384", "RS256", "RS512", "PS256", "PS384", "ML-DSA-65"}))
	mode := h.Pick(x, "kid", kidModes)
	// "same custom kid": two enabled keys of one algorithm with DIFFERENT material sharing one custom kid (a kid names
	// a key for the issuer, nothing makes it unique in a keyset or a JWK set)
	shapes := []string{"single(manager)", "B,A*", "A*,B(disabled)", "B(destroyed),A*", "B(same custom kid),A*"}
	if x.Thorough() {
		shapes = []string{"single(manager)", "single(proto)", "A*,B", "B,A*", "A*,B(disabled)", "B(destroyed),A*", "A*,C(other algorithm)", "B(same custom kid),A*", "A*,B(same custom kid)"}
	}
	shape := h.Pick(x, "keyset", shapes)
	isMAC := strings.HasPrefix(alg, "HS")
	cfg := fmt.Sprintf("%s %v keyset %s", alg, mode, shape)
	t := tally{}
	defer t.flush(x)

	// key ids with leading zero bytes: the key-id-derived kid is the FIXED 4-byte big-endian id, also through JWK
	// export / import (a minimal-length integer encoding would strip them)
	idsA := []uint32{0x01020304, 0x0000beef, 0} // 0 is a key id like any other ("no id requirement" is a property of the kid strategy, not of the number)
	if x.Thorough() {
		idsA = []uint32{0x01020304, 0x0000beef, 0, 0x00ffffff, 0xffffffff}
	}
	idA := h.Pick(x, "key-id", idsA)
	cfg += fmt.Sprintf(" idA=%#x", idA)
	// custom kids: the empty string is a kid like any other ("kid":"" is written, a token with another kid is
	// refused) - also after the keyset went through its serialised form, where "" and "no kid" are easily confused
	kidA := "kid-A"
	if mode == ref.JWTKidCustom {
		kidA = h.Pick(x, "custom-kid", []string{"kid-A", ""})
		cfg += fmt.Sprintf(" kidA=%q", kidA)
	}
	A, err := buildKey(alg, 0, mode, idA, kidA)
	if err != nil && mode == ref.JWTKidCustom && kidA == "" {
		x.Outcome("key with the empty custom kid refused at construction (not judged)")
		return
	}
	if err != nil {
		x.Fail("construct", "%s: key A: %v", cfg, err)
		return
	}
	kidB := "kid-B"
	if strings.Contains(shape, "same custom kid") {
		if mode != ref.JWTKidCustom {
			return // the shape only exists with custom kids
		}
		kidB = kidA
	}
	B, err := buildKey(alg, 1, mode, 0x8899aabb, kidB)
	if err != nil {
		x.Fail("construct", "%s: key B: %v", cfg, err)
		return
	}
	other := B
	var es []ksEntry
	switch shape {
	case "single(manager)", "single(proto)":
		es = []ksEntry{{b: A, primary: true}}
	case "A*,B":
		es = []ksEntry{{b: A, primary: true}, {b: B}}
	case "B,A*", "B(same custom kid),A*":
		es = []ksEntry{{b: B}, {b: A, primary: true}}
	case "A*,B(same custom kid)":
		es = []ksEntry{{b: A, primary: true}, {b: B}}
	case "A*,B(disabled)":
		es = []ksEntry{{b: A, primary: true}, {b: B, disabled: true}}
	case "B(destroyed),A*":
		es = []ksEntry{{b: B, destroyed: true}, {b: A, primary: true}}
	default:
		calg := map[bool]string{true: "HS" + alg[len(alg)-3:], false: "ES256"}[isMAC]
		if calg == alg {
			calg = map[bool]string{true: "HS384", false: "RS256"}[isMAC]
		}
		if isMAC && alg == "HS384" {
			calg = "HS512"
		}
		C, err := buildKey(calg, 1, mode, 0x8899aabb, "kid-B")
		if err != nil {
			x.Fail("construct", "%s: key C: %v", cfg, err)
			return
		}
		other = C
		es = []ksEntry{{b: A, primary: true}, {b: C}}
	}
	ks, err := buildKeyset(es, shape == "single(manager)")
	if err != nil {
		x.Fail("construct", "%s: %v", cfg, err)
		return
	}
	otherKS, err := buildKeyset([]ksEntry{{b: other, primary: true}}, false)
	if err != nil {
		x.Fail("construct", "%s: other keyset: %v", cfg, err)
		return
	}
	x.NonTrivial()

	// (4) JWK export / import
	type extra struct {
		name   string
		verify verifyFn
		keys   []ref.JWTKey
	}
	var extras []extra
	if _, err := jwt.JWKSetFromPublicKeysetHandle(ks.priv); err == nil {
		x.Fail("jwk-export-private", "%s: JWKSetFromPublicKeysetHandle exports a %s keyset", cfg, map[bool]string{true: "symmetric", false: "private"}[isMAC])
	} else {
		t.add("jwk export of private/symmetric keyset refused")
	}
	x.Eval(1)
	if !isMAC {
		js, err := jwt.JWKSetFromPublicKeysetHandle(ks.pub)
		if err != nil {
			if strings.HasPrefix(alg, "ML-DSA") || (other != B && shape == "A*,C(other algorithm)" && strings.HasPrefix(other.alg, "ML-DSA")) {
				t.add("jwk export unsupported for ML-DSA (not judged)")
			} else {
				x.Fail("jwk-export", "%s: JWKSetFromPublicKeysetHandle fails on a public keyset: %v", cfg, err)
			}
		} else {
			rk, perr := ref.JWKParseSet(js)
			if perr != nil {
				x.Fail("jwk-export", "%s: exported JWK set %s is not a public JWK set by the reference reader: %v", cfg, js, perr)
			} else {
				okEq := len(rk) == len(ks.refKeys)
				for i := 0; okEq && i < len(rk); i++ {
					okEq = jwkEquivalent(ks.refKeys[i], rk[i])
				}
				if !okEq {
					x.Fail("jwk-export", "%s: exported JWK set %s does not describe the keyset's enabled public keys (alg / kid / key material)", cfg, js)
				}
				extras = append(extras, extra{"reference reading of the exported JWK set", nil, rk})
			}
			imp, err := jwt.JWKSetToPublicKeysetHandle(js)
			if err != nil {
				x.Fail("jwk-roundtrip", "%s: JWKSetToPublicKeysetHandle refuses tink's own export %s: %v", cfg, js, err)
			} else if v, err := jwt.NewVerifier(imp); err != nil {
				x.Fail("jwk-roundtrip", "%s: NewVerifier on re-imported JWK set: %v", cfg, err)
			} else {
				extras = append(extras, extra{"verifier from exported+re-imported JWK set", v.VerifyAndDecode, jwkKeys(ks.refKeys)})
			}
			t.add("jwk export/import")
		}
		if !strings.HasPrefix(alg, "ML-DSA") && !strings.HasPrefix(other.alg, "ML-DSA") {
			own := jwkFor(ks.refKeys)
			imp, err := jwt.JWKSetToPublicKeysetHandle(own)
			if err != nil {
				x.Fail("jwk-import", "%s: JWKSetToPublicKeysetHandle refuses RFC 7517 JWK set %s: %v", cfg, own, err)
			} else if v, err := jwt.NewVerifier(imp); err != nil {
				x.Fail("jwk-import", "%s: NewVerifier on imported JWK set: %v", cfg, err)
			} else {
				extras = append(extras, extra{"verifier from harness-written JWK set", v.VerifyAndDecode, jwkKeys(ks.refKeys)})
			}
		}
	}

	variants := 2
	if x.Thorough() {
		variants = 3
	}
	now := time.Unix(nowSec, 0)
	for subset := 0; subset < 1<<len(claimBits); subset++ {
		for variant := 0; variant < variants; variant++ {
			if !x.Thorough() && !isMAC && variant == 1 && subset%4 != 3 {
				continue // quick: signature keys carry the custom-claim variant on 32 of the 128 subsets
			}
			c := roundTripCase(subset, variant)
			ctx := fmt.Sprintf("%s claims=%07b variant=%d", cfg, subset, variant)
			raw, err := jwt.NewRawJWT(c.opts)
			if err != nil {
				x.Fail("rawjwt-refused", "%s: NewRawJWT: %v", ctx, err)
				return
			}
			val, err := jwt.NewValidator(c.val)
			if err != nil {
				x.Fail("validator-refused", "%s: NewValidator: %v", ctx, err)
				return
			}
			token, err := ks.sign(raw)
			if err != nil {
				x.Fail("sign-error", "%s: signing: %v", ctx, err)
				return
			}
			want := judge(x, t, ctx, token, ks.verify, val, ks.refKeys, c.rv, now)
			if !want.Accept {
				if !want.DontCare {
					x.Fail("roundtrip-token", "%s: token %q made by tink is not acceptable by the reference: %s", ctx, short(token), want.Why)
				}
				continue
			}
			// headers: exactly alg, kid by strategy, typ
			wh := map[string]any{"alg": alg}
			if mode != ref.JWTKidIgnored {
				wh["kid"] = A.ref.Kid
			}
			if c.typ != nil {
				wh["typ"] = *c.typ
			}
			if !ref.JWTEqualJSON(want.Header, wh) {
				x.Fail("roundtrip-header", "%s: token header %v, want exactly %v", ctx, want.Header, wh)
			}
			if !ref.JWTEqualJSON(want.Payload, c.want) {
				x.Fail("roundtrip-claims", "%s: signed payload %v differs from the claims given to NewRawJWT %v", ctx, want.Payload, c.want)
			}
			for _, e := range extras {
				if e.verify == nil {
					if rv := ref.JWTAccept(token, e.keys, c.rv, now); !rv.Accept {
						x.Fail("jwk-export", "%s: %s does not verify the keyset's own token: %s", ctx, e.name, rv.Why)
					}
					x.Eval(1)
					continue
				}
				judge(x, t, ctx+" / "+e.name, token, e.verify, val, e.keys, c.rv, now)
			}
			// a keyset that does not contain the signing key as an enabled key must reject; tokens of the
			// second key are accepted exactly when it is enabled in the keyset
			if subset%16 == 5 || x.Thorough() && subset%4 == 1 {
				judge(x, t, ctx+" / verified by the other key only", token, otherKS.verify, val, otherKS.refKeys, c.rv, now)
				t2, err := otherKS.sign(raw)
				if err != nil {
					x.Fail("sign-error", "%s: signing with other key: %v", ctx, err)
					return
				}
				judge(x, t, ctx+" / token of the second key", t2, ks.verify, val, ks.refKeys, c.rv, now)
			}
		}
	}
}

// jwkKeys maps keys to what a JWK set can express (key-id kid becomes a fixed kid).
func jwkKeys(keys []ref.JWTKey) []ref.JWTKey {
	out := append([]ref.JWTKey{}, keys...)
	for i := range out {
		if out[i].KidMode == ref.JWTKidTink {
			out[i].KidMode = ref.JWTKidCustom
		}
	}
	return out
}

func main() {
	h.Main("C09", "exploration",
		"(1) HS256 validator space through ComputeMACAndEncode -> VerifyMACAndDecode: token (typ,iss in {absent,x,y}; aud in {absent,x,y,[x],[y,x],[y,z]}) x validator per field {expect none, ignore, expect x, (aud: deprecated field), inadmissible combinations} x exp/nbf/iat at now-/+skew -1,0,+1,+2 s, epoch, year 9999, absent x AllowMissingExpiration x ExpectIssuedInThePast x skew {0,1s,1.5s,10min,10min+1ns} x FixedNow fraction {0,.5,.999999999}: sections validator-fields and validator-time are full products of their half with the other half at defaults, validator-pairs explores all combinations of <=3 non-default dimensions, validator-product (thorough) is the full product of fields x skew x fraction {0,.5} x near-boundary times x flags; (2) key types x kid strategy x keyset shape x every subset of the 7 registered claims x custom-claim variants; (3) header / payload / structure / signature manipulation catalogue (re-signed with the real key inside the signed part; every signature bit flip, every truncation) per key type x kid strategy x keyset {single, pair} x validator {lenient, strict}; (4) JWK export -> reference reader and -> import, harness-written JWK -> import, private/symmetric export refused; (5) tink-generated keys: every algorithm x kid strategy x size through Manager.AddNewKeyFromParameters and every template of jwt_key_templates.go through keyset.NewHandle and Manager.Add (RSA > 2048 bits thorough only; entropy from a tape seeded by the choice vector): tokens of the generated key vs its Public() verifier and vs the reference holding the requested alg / kid rule and the generated public material, signature bit flips, JWK export/import; plus fractional NumericDate probe. Every token is decided by tink and by the reference decision procedure ref.JWTAccept; verdict and returned claims must agree. Non-trivial = an execution that decided at least one token or validator; distinct = distinct choice vectors.",
		[]h.Section{
			{Name: "validator-fields", Body: validatorProduct(true, false), Bound: -1},
			{Name: "validator-time", Body: validatorProduct(false, true), Bound: -1},
			{Name: "validator-pairs", Body: validatorPairs, Bound: 3},
			{Name: "validator-product", Body: validatorProduct(true, true), Bound: -1, Tiers: "thorough"},
			{Name: "roundtrip-jwk", Body: roundTripSection, Bound: -1},
			{Name: "manipulation", Body: manipulationSection, Bound: -1},
			{Name: "fractional-time", Body: fractionalSection, Bound: -1},
			{Name: "validator-real-clock", Body: realClockSection, Bound: -1, Serial: true},
			// last: binds a per-thread entropy tape (the dispatcher stays installed under crypto/rand afterwards)
			{Name: "tink-generated-keys", Body: generatedKeysSection, Bound: -1},
		})
}
