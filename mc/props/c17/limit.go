package main

// Section hkdf-output-limit: derived keys around the MAXIMUM HKDF can output (255 * hash length bytes, RFC 5869):
// an HMAC derived key of exactly 255*hLen bytes is the leading (= all) bytes of the HKDF stream; one byte more
// cannot be derived - DeriveKeyset (or an earlier stage) must FAIL, it must never hand out a key (zeros, a short or
// repeated stream) that is not the RFC value.

import (
	"bytes"
	"fmt"

	"github.com/tink-crypto/tink-go/v2/keyderivation"
	cmacprfpb "github.com/tink-crypto/tink-go/v2/proto/aes_cmac_prf_go_proto"
	commonpb "github.com/tink-crypto/tink-go/v2/proto/common_go_proto"
	hmacprfpb "github.com/tink-crypto/tink-go/v2/proto/hmac_prf_go_proto"
	tinkpb "github.com/tink-crypto/tink-go/v2/proto/tink_go_proto"
	"verif/h"
	"verif/ref"
)

func hkdfLimitSection(x *h.X) {
	hash := h.Pick(x, "prf-hash", []string{"SHA256", "SHA512"})
	hl := map[string]int{"SHA256": 32, "SHA512": 64}[hash]
	limit := 255 * hl
	size := limit + h.Pick(x, "size-limit", []int{-1, 0, 1, 2, 97, limit})
	v := h.Pick(x, "variant", []ref.Variant{ref.Tink, ref.Raw})
	path := h.Pick(x, "path", []string{"proto", "manager"})
	cfg := prfCfg{32, hash, nil}
	dt := mkHMAC("SHA256", size, 16, v)
	es := []dentry{{dt: dt, cfg: cfg, prfKey: ref.KeyBytes("c17-limit-prfkey", cfg.size), id: 0x01020304, status: tinkpb.KeyStatusType_ENABLED, primary: true}}
	desc := fmt.Sprintf("deriver keyset [HMAC key of %d bytes (HKDF-%s can output %d)] %v via %s", size, hash, limit, v, path)
	hd, err := buildHandle(es, path)
	if err != nil {
		if size > limit {
			refused(x, "keyset")
			return
		}
		x.Fail("setup", "%s: %v", desc, err)
		return
	}
	d, err := keyderivation.New(hd)
	if err != nil {
		if size > limit {
			refused(x, "New")
			return
		}
		x.Fail("new-error", "%s: keyderivation.New: %v", desc, err)
		return
	}
	x.NonTrivial()
	for _, salt := range [][]byte{nil, []byte("salt-1"), []byte("salt-2")} {
		out, err := d.DeriveKeyset(salt)
		x.Eval(1)
		if size > limit {
			if err == nil {
				mat := []byte(nil)
				if e, e2 := out.Entry(0); e2 == nil {
					mat, _, _ = materialOf(e.Key())
				}
				x.Fail("derived-beyond-hkdf-limit", "%s salt=%q: DeriveKeyset returns a keyset although HKDF cannot output %d bytes (derived material %d bytes, all zero: %v)", desc, salt, size, len(mat), len(mat) > 0 && len(bytes.Trim(mat, "\\x00")) == 0)
				return
			}
			x.Outcome("limit/refused")
			continue
		}
		if err != nil {
			x.Fail("derive-error", "%s salt=%q: DeriveKeyset: %v", desc, salt, err)
			return
		}
		e, err := out.Entry(0)
		if err != nil {
			x.Fail("structure", "%s: %v", desc, err)
			return
		}
		mat, _, ok := materialOf(e.Key())
		want := ref.KeyDerivMaterial(dt.kind, dt.keySize, cfg.hash, es[0].prfKey, cfg.salt, salt)
		if !ok || !bytes.Equal(mat, want) {
			x.Fail("material", "%s salt=%q: derived key material (%d bytes) is not the leading %d bytes of the RFC 5869 stream", desc, salt, len(mat), size)
			return
		}
		x.Outcome("limit/derived")
	}
}

// Section unusable-non-enabled-entries: next to a good ENABLED primary the deriver keyset holds a DISABLED or DESTROYED
// deriver key from which no key deriver can be built (a PRF the factory does not support). The derived keyset holds
// one key per ENABLED key: what a non-enabled entry holds must not matter. (If the keyset is already refused when it
// is read, nothing is judged here.)
func unusableEntriesSection(x *h.X) {
	which := h.Pick(x, "unusable-prf", []string{"HmacPrfKey", "AesCmacPrfKey"})
	st := h.Pick(x, "status", []tinkpb.KeyStatusType{tinkpb.KeyStatusType_DISABLED, tinkpb.KeyStatusType_DESTROYED})
	first := x.Choose("unusable-first", 2) == 1
	route := h.Pick(x, "route", parseRoutes[:2])
	dt := mkAESGCM(16, ref.Tink)
	cfg := prfCfgs[0]
	good := dentry{dt: dt, cfg: cfg, prfKey: ref.KeyBytes("c17-unusable-good", cfg.size), id: 0x01020304, status: tinkpb.KeyStatusType_ENABLED, primary: true}
	var prfKD *tinkpb.KeyData
	if which == "HmacPrfKey" {
		prfKD = &tinkpb.KeyData{TypeUrl: urlPfx + "HmacPrfKey", KeyMaterialType: tinkpb.KeyData_SYMMETRIC,
			Value: mustMarshal(&hmacprfpb.HmacPrfKey{Params: &hmacprfpb.HmacPrfParams{Hash: commonpb.HashType_SHA256}, KeyValue: ref.KeyBytes("c17-hmacprf", 32)})}
	} else {
		prfKD = &tinkpb.KeyData{TypeUrl: urlPfx + "AesCmacPrfKey", KeyMaterialType: tinkpb.KeyData_SYMMETRIC,
			Value: mustMarshal(&cmacprfpb.AesCmacPrfKey{KeyValue: ref.KeyBytes("c17-cmacprf", 32)})}
	}
	ks := handKeyset([]dentry{good})
	bad := &tinkpb.Keyset_Key{KeyData: deriverKeyData(deriverURL, prfKD, tmplOf(dt)), Status: st, KeyId: 0x00010203, OutputPrefixType: tinkpb.OutputPrefixType_TINK}
	if first {
		ks.Key = append([]*tinkpb.Keyset_Key{bad}, ks.Key...)
	} else {
		ks.Key = append(ks.Key, bad)
	}
	desc := fmt.Sprintf("deriver keyset [good ENABLED primary + %v deriver key over %s] (unusable first: %v) read by %s", st, which, first, route)
	hd, err := parseKeyset(ks, route)
	if err != nil {
		refused(x, "keyset")
		return
	}
	x.NonTrivial()
	d, err := keyderivation.New(hd)
	if err != nil {
		x.Fail("new-error", "%s: keyderivation.New fails although every ENABLED key is derivable: %v", desc, err)
		return
	}
	deriveAll(x, hd, []dentry{good}, desc, false)
	_ = d
}
