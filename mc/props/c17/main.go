// C17: keyset derivation is a deterministic standard function of (keyset, salt).
//
// Engine E1 (bounded-exhaustive enumeration). Every deriver keyset of the enumerated space is built for
// real (prfbasedkeyderivation.Key inside a keyset.Handle, proto path and Manager path), handed to
// keyderivation.New and DeriveKeyset is called for every caller salt of the catalogue. The derived handle is
// compared with the reference model verif/ref/keyderiv.go (RFC 5869 HKDF on bare hash functions; per-type
// "leading bytes" rule):
//
//	O1 determinism      two derivations (same deriver object, and a second deriver object built from the same
//	                    handle) give Equal keysets key by key; nil salt == empty salt
//	O2 structure        one ENABLED derived key per ENABLED deriver key: same order, key id, output prefix type,
//	                    id requirement, primary flag; DISABLED / DESTROYED deriver keys are absent
//	O3 material         derived key material == leading bytes of ref HKDF(hash, PRF key, PRF salt, info = caller
//	                    salt) (Ed25519: 32-byte seed, public key = stdlib scalar multiplication); derived key
//	                    Equal a key of the type built directly from the reference bytes; parameters unchanged
//	O4 separation       different caller salts / PRF keys (every single-bit-flipped neighbour in the corner set) /
//	                    PRF salts => different material
//	O5 usability        the derived key builds a working primitive that interoperates with a primitive built from
//	                    the directly constructed key and with an independent computation (ref AES-GCM / XChaCha /
//	                    AES-SIV / HMAC / HKDF / stdlib Ed25519)
//
// Don't care (never judged): key types for which keyderivers.go has no deriver (creation of the deriver
// primitive must fail, only that is checked); parameter sets for which tink builds no primitive for EITHER
// the derived or the directly built key (e.g. AES-SIV 32/48-byte keys, AES-GCM 24-byte keys): O1-O4 are
// still judged, O5 is recorded as outcome "no-primitive"; duplicate key ids inside a deriver keyset.
package main

import (
	"bytes"
	"crypto/ed25519"
	"fmt"
	"io"
	"strings"

	"github.com/tink-crypto/tink-go/v2/aead"
	"github.com/tink-crypto/tink-go/v2/aead/aesgcm"
	"github.com/tink-crypto/tink-go/v2/aead/aesgcmsiv"
	"github.com/tink-crypto/tink-go/v2/aead/xchacha20poly1305"
	"github.com/tink-crypto/tink-go/v2/daead"
	"github.com/tink-crypto/tink-go/v2/daead/aessiv"
	"github.com/tink-crypto/tink-go/v2/insecuresecretdataaccess"
	"github.com/tink-crypto/tink-go/v2/key"
	"github.com/tink-crypto/tink-go/v2/keyderivation"
	"github.com/tink-crypto/tink-go/v2/keyderivation/prfbasedkeyderivation"
	"github.com/tink-crypto/tink-go/v2/keyset"
	"github.com/tink-crypto/tink-go/v2/mac"
	"github.com/tink-crypto/tink-go/v2/mac/hmac"
	"github.com/tink-crypto/tink-go/v2/prf"
	"github.com/tink-crypto/tink-go/v2/prf/hkdfprf"
	"github.com/tink-crypto/tink-go/v2/prf/hmacprf"
	tinkpb "github.com/tink-crypto/tink-go/v2/proto/tink_go_proto"
	"github.com/tink-crypto/tink-go/v2/secretdata"
	"github.com/tink-crypto/tink-go/v2/signature"
	tinked25519 "github.com/tink-crypto/tink-go/v2/signature/ed25519"
	"github.com/tink-crypto/tink-go/v2/streamingaead"
	"github.com/tink-crypto/tink-go/v2/streamingaead/aesgcmhkdf"
	"github.com/tink-crypto/tink-go/v2/verifbridge/vb"
	"verif/h"
	"verif/ref"
	"verif/tk"
)

var tok = insecuresecretdataaccess.Token{}

func sd(b []byte) secretdata.Bytes { return secretdata.NewBytesFromData(bytes.Clone(b), tok) }

// ---------------------------------------------------------------------------------------------------
// catalogue of derivable key types

type dtype struct {
	kind    string // name in ref.KeyDerivKinds
	class   string // aead daead mac prf sig saead
	label   string
	variant ref.Variant
	keySize int
	hash    string // HMAC / PRF / streaming HKDF hash
	tagSize int
	salt    []byte // HKDF-PRF salt of the DERIVED key
	seg     int32
	dks     int // streaming derived key size
	params  key.Parameters
}

func (d *dtype) String() string { return d.label }

var pbPrefix = map[ref.Variant]tinkpb.OutputPrefixType{ref.Tink: tinkpb.OutputPrefixType_TINK, ref.Crunchy: tinkpb.OutputPrefixType_CRUNCHY,
	ref.Legacy: tinkpb.OutputPrefixType_LEGACY, ref.Raw: tinkpb.OutputPrefixType_RAW}

func must[T any](v T, err error) T {
	if err != nil {
		panic(fmt.Sprintf("c17 catalogue: %v", err))
	}
	return v
}

func mkAESGCM(size int, v ref.Variant) *dtype {
	vv := map[ref.Variant]aesgcm.Variant{ref.Tink: aesgcm.VariantTink, ref.Crunchy: aesgcm.VariantCrunchy, ref.Raw: aesgcm.VariantNoPrefix}[v]
	p := must(aesgcm.NewParameters(aesgcm.ParametersOpts{KeySizeInBytes: size, IVSizeInBytes: 12, TagSizeInBytes: 16, Variant: vv}))
	return &dtype{kind: "AES-GCM", class: "aead", label: fmt.Sprintf("AES%dGCM/%v", 8*size, v), variant: v, keySize: size, params: p}
}
func mkXChaCha(v ref.Variant) *dtype {
	vv := map[ref.Variant]xchacha20poly1305.Variant{ref.Tink: xchacha20poly1305.VariantTink, ref.Crunchy: xchacha20poly1305.VariantCrunchy, ref.Raw: xchacha20poly1305.VariantNoPrefix}[v]
	return &dtype{kind: "XCHACHA20-POLY1305", class: "aead", label: fmt.Sprintf("XCHACHA/%v", v), variant: v, keySize: 32, params: must(xchacha20poly1305.NewParameters(vv))}
}
func mkAESSIV(size int, v ref.Variant) *dtype {
	vv := map[ref.Variant]aessiv.Variant{ref.Tink: aessiv.VariantTink, ref.Crunchy: aessiv.VariantCrunchy, ref.Raw: aessiv.VariantNoPrefix}[v]
	return &dtype{kind: "AES-SIV", class: "daead", label: fmt.Sprintf("AESSIV%d/%v", size, v), variant: v, keySize: size, params: must(aessiv.NewParameters(size, vv))}
}
func mkHMAC(hash string, size, tag int, v ref.Variant) *dtype {
	vv := map[ref.Variant]hmac.Variant{ref.Tink: hmac.VariantTink, ref.Crunchy: hmac.VariantCrunchy, ref.Legacy: hmac.VariantLegacy, ref.Raw: hmac.VariantNoPrefix}[v]
	ht := map[string]hmac.HashType{"SHA1": hmac.SHA1, "SHA224": hmac.SHA224, "SHA256": hmac.SHA256, "SHA384": hmac.SHA384, "SHA512": hmac.SHA512}[hash]
	p := must(hmac.NewParameters(hmac.ParametersOpts{KeySizeInBytes: size, TagSizeInBytes: tag, HashType: ht, Variant: vv}))
	return &dtype{kind: "HMAC", class: "mac", label: fmt.Sprintf("HMAC-%s-k%d-t%d/%v", hash, size, tag, v), variant: v, keySize: size, hash: hash, tagSize: tag, params: p}
}
func mkHKDFPRF(hash string, size int, salt []byte) *dtype {
	ht := map[string]hkdfprf.HashType{"SHA1": hkdfprf.SHA1, "SHA256": hkdfprf.SHA256, "SHA384": hkdfprf.SHA384, "SHA512": hkdfprf.SHA512}[hash]
	return &dtype{kind: "HKDF-PRF", class: "prf", label: fmt.Sprintf("HKDFPRF-%s-k%d-s%d/RAW", hash, size, len(salt)), variant: ref.Raw, keySize: size, hash: hash, salt: salt,
		params: must(hkdfprf.NewParameters(size, ht, salt))}
}
func mkHMACPRF(hash string, size int) *dtype {
	ht := map[string]hmacprf.HashType{"SHA1": hmacprf.SHA1, "SHA256": hmacprf.SHA256, "SHA384": hmacprf.SHA384, "SHA512": hmacprf.SHA512}[hash]
	return &dtype{kind: "HMAC-PRF", class: "prf", label: fmt.Sprintf("HMACPRF-%s-k%d/RAW", hash, size), variant: ref.Raw, keySize: size, hash: hash, params: must(hmacprf.NewParameters(size, ht))}
}
func mkEd25519(v ref.Variant) *dtype {
	vv := map[ref.Variant]tinked25519.Variant{ref.Tink: tinked25519.VariantTink, ref.Crunchy: tinked25519.VariantCrunchy, ref.Legacy: tinked25519.VariantLegacy, ref.Raw: tinked25519.VariantNoPrefix}[v]
	p := must(tinked25519.NewParameters(vv))
	return &dtype{kind: "ED25519", class: "sig", label: fmt.Sprintf("ED25519/%v", v), variant: v, keySize: 32, params: &p}
}
func mkStreaming(size, dks int, hash string, seg int32) *dtype {
	ht := map[string]aesgcmhkdf.HashType{"SHA1": aesgcmhkdf.SHA1, "SHA256": aesgcmhkdf.SHA256, "SHA512": aesgcmhkdf.SHA512}[hash]
	p := must(aesgcmhkdf.NewParameters(aesgcmhkdf.ParametersOpts{KeySizeInBytes: size, DerivedKeySizeInBytes: dks, HKDFHashType: ht, SegmentSizeInBytes: seg}))
	return &dtype{kind: "AES-GCM-HKDF-STREAMING", class: "saead", label: fmt.Sprintf("AESGCMHKDF-k%d-d%d-%s-seg%d/RAW", size, dks, hash, seg), variant: ref.Raw, keySize: size, hash: hash, seg: seg, dks: dks, params: p}
}

var v3 = []ref.Variant{ref.Tink, ref.Crunchy, ref.Raw}
var v4 = []ref.Variant{ref.Tink, ref.Crunchy, ref.Legacy, ref.Raw}

// fullCatalogue: every registered deriver x every variant x parameter corner set.
func fullCatalogue(thorough bool) []*dtype {
	var out []*dtype
	gcm := []int{16, 32}
	siv := []int{64}
	if thorough {
		gcm = []int{16, 24, 32}
		siv = []int{32, 48, 64}
	}
	for _, s := range gcm {
		for _, v := range v3 {
			out = append(out, mkAESGCM(s, v))
		}
	}
	for _, v := range v3 {
		out = append(out, mkXChaCha(v))
	}
	for _, s := range siv {
		for _, v := range v3 {
			out = append(out, mkAESSIV(s, v))
		}
	}
	type hc struct {
		hash      string
		size, tag int
	}
	hcs := []hc{{"SHA256", 16, 16}, {"SHA256", 32, 32}, {"SHA512", 64, 64}, {"SHA512", 129, 10}}
	if thorough {
		hcs = append(hcs, hc{"SHA1", 20, 10}, hc{"SHA224", 28, 28}, hc{"SHA384", 48, 48}, hc{"SHA256", 33, 16}, hc{"SHA256", 65, 16}, hc{"SHA512", 200, 64})
	}
	for _, c := range hcs {
		for _, v := range v4 {
			out = append(out, mkHMAC(c.hash, c.size, c.tag, v))
		}
	}
	out = append(out, mkHKDFPRF("SHA256", 32, nil), mkHKDFPRF("SHA512", 64, ref.KeyBytes("c17-derived-prf-salt", 16)), mkHKDFPRF("SHA256", 33, []byte{7}), mkHKDFPRF("SHA256", 32, make([]byte, 65)))
	out = append(out, mkHMACPRF("SHA256", 16), mkHMACPRF("SHA256", 32), mkHMACPRF("SHA512", 64))
	if thorough {
		out = append(out, mkHKDFPRF("SHA1", 32, nil), mkHKDFPRF("SHA384", 48, nil), mkHKDFPRF("SHA256", 16, nil), mkHKDFPRF("SHA512", 100, nil))
		out = append(out, mkHMACPRF("SHA1", 20), mkHMACPRF("SHA384", 48), mkHMACPRF("SHA512", 65), mkHMACPRF("SHA256", 97))
	}
	for _, v := range v4 {
		out = append(out, mkEd25519(v))
	}
	out = append(out, mkStreaming(16, 16, "SHA256", 64), mkStreaming(32, 32, "SHA256", 4096), mkStreaming(32, 16, "SHA512", 100))
	if thorough {
		out = append(out, mkStreaming(64, 32, "SHA1", 1<<20), mkStreaming(33, 32, "SHA256", 57), mkStreaming(17, 16, "SHA512", 41))
	}
	return out
}

// families used in multi-key keysets: one parameter set per registered deriver (AES-GCM twice), the variant
// of each position is selected by the "variant rotation" choice.
type family struct {
	name string
	mk   func(v ref.Variant) *dtype
	vs   []ref.Variant
}

var families = []family{
	{"AES128GCM", func(v ref.Variant) *dtype { return mkAESGCM(16, v) }, v3},
	{"AESSIV", func(v ref.Variant) *dtype { return mkAESSIV(64, v) }, v3},
	{"HMAC", func(v ref.Variant) *dtype { return mkHMAC("SHA256", 32, 16, v) }, v4},
	{"ED25519", mkEd25519, v4},
	{"HKDFPRF", func(ref.Variant) *dtype { return mkHKDFPRF("SHA256", 32, nil) }, []ref.Variant{ref.Raw}},
	{"AES256GCM", func(v ref.Variant) *dtype { return mkAESGCM(32, v) }, v3},
	{"XCHACHA", mkXChaCha, v3},
	{"HMACPRF", func(ref.Variant) *dtype { return mkHMACPRF("SHA512", 64) }, []ref.Variant{ref.Raw}},
	{"AESGCMHKDF", func(ref.Variant) *dtype { return mkStreaming(32, 16, "SHA256", 64) }, []ref.Variant{ref.Raw}},
}

// ---------------------------------------------------------------------------------------------------
// PRF (deriver) configurations

type prfCfg struct {
	size int
	hash string
	salt []byte
}

func (p prfCfg) String() string {
	return fmt.Sprintf("HKDF-%s/key%d/salt%d", p.hash, p.size, len(p.salt))
}

var prfCfgs = func() []prfCfg {
	var out []prfCfg
	for _, size := range []int{32, 64} {
		for _, hash := range []string{"SHA256", "SHA512"} {
			for _, salt := range [][]byte{nil, {0x5a}, ref.KeyBytes("c17-prf-salt", 32), make([]byte, 64), make([]byte, 129)} { // the all-zero salts: = default up to the HMAC block, not beyond
				out = append(out, prfCfg{size, hash, salt})
			}
		}
	}
	return out
}()

// sameHMACKey: two salts no longer than the hash's block size that differ only in trailing zero bytes are the
// same HMAC key (RFC 2104 pads with zeros), hence the same HKDF salt; the empty salt is hLen zeros (RFC 5869).
func sameHMACKey(hash string, a, b []byte) bool {
	block := 64
	if hash == "SHA384" || hash == "SHA512" {
		block = 128
	}
	if len(a) > block || len(b) > block {
		return false
	}
	return bytes.Equal(bytes.TrimRight(a, "\x00"), bytes.TrimRight(b, "\x00"))
}

func prfHash(hash string) hkdfprf.HashType {
	if hash == "SHA512" {
		return hkdfprf.SHA512
	}
	return hkdfprf.SHA256
}

// deriverKey builds the prfbasedkeyderivation key (PRF key bytes kb under cfg, derived type dt, id requirement).
func deriverKey(cfg prfCfg, kb []byte, dt *dtype, id uint32) (*prfbasedkeyderivation.Key, error) {
	pp, err := hkdfprf.NewParameters(cfg.size, prfHash(cfg.hash), bytes.Clone(cfg.salt))
	if err != nil {
		return nil, err
	}
	pk, err := hkdfprf.NewKey(sd(kb), pp)
	if err != nil {
		return nil, err
	}
	params, err := prfbasedkeyderivation.NewParameters(pp, dt.params)
	if err != nil {
		return nil, err
	}
	if dt.variant == ref.Raw {
		id = 0
	}
	return prfbasedkeyderivation.NewKey(params, pk, id)
}

// ---------------------------------------------------------------------------------------------------
// per-type rules on the tink side: extract material, build a key directly

// materialOf returns the secret material of a derived key (and the public key bytes for Ed25519).
func materialOf(k key.Key) (mat, pub []byte, ok bool) {
	switch kk := k.(type) {
	case *aesgcm.Key:
		return kk.KeyBytes().Data(tok), nil, true
	case *xchacha20poly1305.Key:
		return kk.KeyBytes().Data(tok), nil, true
	case *aessiv.Key:
		return kk.KeyBytes().Data(tok), nil, true
	case *hmac.Key:
		return kk.KeyBytes().Data(tok), nil, true
	case *hkdfprf.Key:
		return kk.KeyBytes().Data(tok), nil, true
	case *hmacprf.Key:
		return kk.KeyBytes().Data(tok), nil, true
	case *tinked25519.PrivateKey:
		pk, err := kk.PublicKey()
		if err != nil {
			return nil, nil, false
		}
		return kk.PrivateKeyBytes().Data(tok), pk.(*tinked25519.PublicKey).KeyBytes(), true
	case *aesgcmhkdf.Key:
		return kk.KeyBytes().Data(tok), nil, true
	}
	return nil, nil, false
}

// directKey builds a key of type dt directly from the reference bytes.
func directKey(dt *dtype, mat []byte, id uint32) (key.Key, error) {
	if dt.variant == ref.Raw {
		id = 0
	}
	switch dt.kind {
	case "AES-GCM":
		return aesgcm.NewKey(sd(mat), id, dt.params.(*aesgcm.Parameters))
	case "XCHACHA20-POLY1305":
		return xchacha20poly1305.NewKey(sd(mat), id, dt.params.(*xchacha20poly1305.Parameters))
	case "AES-SIV":
		return aessiv.NewKey(sd(mat), id, dt.params.(*aessiv.Parameters))
	case "HMAC":
		return hmac.NewKey(sd(mat), dt.params.(*hmac.Parameters), id)
	case "HKDF-PRF":
		return hkdfprf.NewKey(sd(mat), dt.params.(*hkdfprf.Parameters))
	case "HMAC-PRF":
		return hmacprf.NewKey(sd(mat), dt.params.(*hmacprf.Parameters))
	case "ED25519":
		return tinked25519.NewPrivateKey(sd(mat), id, *dt.params.(*tinked25519.Parameters))
	case "AES-GCM-HKDF-STREAMING":
		return aesgcmhkdf.NewKey(dt.params.(*aesgcmhkdf.Parameters), sd(mat))
	}
	return nil, fmt.Errorf("unknown kind %s", dt.kind)
}

// ---------------------------------------------------------------------------------------------------
// O5: primitives

var (
	msgPT = []byte("c17 plaintext: derived keys are ordinary keys")
	msgAD = []byte("c17 associated data")
)

func single(k key.Key, id uint32) (*keyset.Handle, error) {
	return tk.Handle([]tk.Entry{{Key: k, ID: id, Primary: true}})
}

// bothOrNeither handles the don't-care cell "tink builds no primitive for this parameter set".
func bothOrNeither(x *h.X, e1, e2 error, cfg string) bool {
	if e1 == nil && e2 == nil {
		return true
	}
	if (e1 == nil) != (e2 == nil) {
		x.Fail("primitive-asymmetry", "%s: primitive from derived key: %v; primitive from directly built key: %v", cfg, e1, e2)
		return false
	}
	x.Outcome("no-primitive")
	return false
}

func interop(x *h.X, dt *dtype, dk, rk key.Key, id uint32, mat []byte, cfg string) {
	hd, err := single(dk, id)
	if err != nil {
		x.Fail("derived-key-unusable", "%s: derived key cannot be put into a keyset: %v", cfg, err)
		return
	}
	hr, err := single(rk, id)
	if err != nil {
		x.Fail("setup", "%s: direct key handle: %v", cfg, err)
		return
	}
	pre := ref.Prefix(dt.variant, id)
	x.Eval(1)
	switch dt.class {
	case "aead":
		a, e1 := aead.New(hd)
		b, e2 := aead.New(hr)
		if !bothOrNeither(x, e1, e2, cfg) {
			return
		}
		ct, err := a.Encrypt(msgPT, msgAD)
		if err != nil {
			x.Fail("derived-key-unusable", "%s: Encrypt: %v", cfg, err)
			return
		}
		if pt, err := b.Decrypt(ct, msgAD); err != nil || !bytes.Equal(pt, msgPT) {
			x.Fail("interop", "%s: ciphertext of derived key not decrypted by key built from reference bytes: %v", cfg, err)
		}
		ct2, _ := b.Encrypt(msgPT, msgAD)
		if pt, err := a.Decrypt(ct2, msgAD); err != nil || !bytes.Equal(pt, msgPT) {
			x.Fail("interop", "%s: ciphertext of reference key not decrypted by derived key: %v", cfg, err)
		}
		if !bytes.HasPrefix(ct, pre) {
			x.Fail("interop-prefix", "%s: ciphertext %s lacks output prefix %x", cfg, tk.Hex(ct), pre)
			return
		}
		body := ct[len(pre):]
		var pt []byte
		var ok bool
		if dt.kind == "AES-GCM" && len(body) >= 12 {
			pt, ok = ref.AeadGCMOpen(mat, body[:12], body[12:], msgAD)
		} else if dt.kind == "XCHACHA20-POLY1305" && len(body) >= 24 {
			pt, ok = ref.AeadChaChaOpen(mat, body[:24], body[24:], msgAD)
		}
		if !ok || !bytes.Equal(pt, msgPT) {
			x.Fail("interop-ref", "%s: independent %s decryption with the reference key bytes fails", cfg, dt.kind)
		}
	case "daead":
		a, e1 := daead.New(hd)
		b, e2 := daead.New(hr)
		if !bothOrNeither(x, e1, e2, cfg) {
			return
		}
		ct, err := a.EncryptDeterministically(msgPT, msgAD)
		if err != nil {
			x.Fail("derived-key-unusable", "%s: EncryptDeterministically: %v", cfg, err)
			return
		}
		ct2, _ := b.EncryptDeterministically(msgPT, msgAD)
		want := append(bytes.Clone(pre), ref.SIVEncrypt(mat, msgPT, msgAD)...)
		if !bytes.Equal(ct, ct2) || !bytes.Equal(ct, want) {
			x.Fail("interop", "%s: AES-SIV ciphertext derived=%s direct=%s reference=%s", cfg, tk.Hex(ct), tk.Hex(ct2), tk.Hex(want))
		}
		if pt, err := b.DecryptDeterministically(ct, msgAD); err != nil || !bytes.Equal(pt, msgPT) {
			x.Fail("interop", "%s: DecryptDeterministically by the direct key: %v", cfg, err)
		}
	case "mac":
		a, e1 := mac.New(hd)
		b, e2 := mac.New(hr)
		if !bothOrNeither(x, e1, e2, cfg) {
			return
		}
		tag, err := a.ComputeMAC(msgPT)
		if err != nil {
			x.Fail("derived-key-unusable", "%s: ComputeMAC: %v", cfg, err)
			return
		}
		data := msgPT
		if dt.variant == ref.Legacy {
			data = append(bytes.Clone(msgPT), 0)
		}
		want := append(bytes.Clone(pre), ref.HMAC(dt.hash, mat, data)[:dt.tagSize]...)
		if !bytes.Equal(tag, want) {
			x.Fail("interop-ref", "%s: tag %x, reference HMAC under the reference key bytes %x", cfg, tag, want)
		}
		if err := b.VerifyMAC(tag, msgPT); err != nil {
			x.Fail("interop", "%s: tag of derived key rejected by direct key: %v", cfg, err)
		}
	case "prf":
		a, e1 := prf.NewPRFSet(hd)
		b, e2 := prf.NewPRFSet(hr)
		if !bothOrNeither(x, e1, e2, cfg) {
			return
		}
		n := uint32(40)
		if dt.kind == "HMAC-PRF" {
			n = 20 // HMAC-PRF output is limited to the digest size
		}
		o1, err := a.ComputePrimaryPRF(msgPT, n)
		if err != nil {
			x.Fail("derived-key-unusable", "%s: ComputePrimaryPRF: %v", cfg, err)
			return
		}
		o2, _ := b.ComputePrimaryPRF(msgPT, n)
		var want []byte
		if dt.kind == "HKDF-PRF" {
			want = ref.HKDF(dt.hash, mat, dt.salt, msgPT, int(n))
		} else {
			want = ref.HMAC(dt.hash, mat, msgPT)[:n]
		}
		if !bytes.Equal(o1, o2) || !bytes.Equal(o1, want) {
			x.Fail("interop-ref", "%s: PRF output derived=%x direct=%x reference=%x", cfg, o1, o2, want)
		}
	case "sig":
		s, e1 := signature.NewSigner(hd)
		s2, e2 := signature.NewSigner(hr)
		if !bothOrNeither(x, e1, e2, cfg) {
			return
		}
		sig, err := s.Sign(msgPT)
		if err != nil {
			x.Fail("derived-key-unusable", "%s: Sign: %v", cfg, err)
			return
		}
		sig2, _ := s2.Sign(msgPT)
		data := msgPT
		if dt.variant == ref.Legacy {
			data = append(bytes.Clone(msgPT), 0)
		}
		std := ed25519.NewKeyFromSeed(mat)
		want := append(bytes.Clone(pre), ed25519.Sign(std, data)...)
		if !bytes.Equal(sig, want) || !bytes.Equal(sig, sig2) {
			x.Fail("interop-ref", "%s: signature derived=%x direct=%x stdlib(reference seed)=%x", cfg, sig, sig2, want)
		}
		pub, err := hd.Public()
		if err != nil {
			x.Fail("derived-key-unusable", "%s: Public(): %v", cfg, err)
			return
		}
		v, err := signature.NewVerifier(pub)
		if err != nil {
			x.Fail("derived-key-unusable", "%s: NewVerifier: %v", cfg, err)
			return
		}
		if err := v.Verify(want, msgPT); err != nil {
			x.Fail("interop", "%s: stdlib signature under the reference seed rejected by the derived public key: %v", cfg, err)
		}
	case "saead":
		a, e1 := streamingaead.New(hd)
		b, e2 := streamingaead.New(hr)
		if !bothOrNeither(x, e1, e2, cfg) {
			return
		}
		long := bytes.Repeat(msgPT, 5) // several segments for small segment sizes
		for dir, pair := range [][2]interface {
			NewEncryptingWriter(io.Writer, []byte) (io.WriteCloser, error)
			NewDecryptingReader(io.Reader, []byte) (io.Reader, error)
		}{{a, b}, {b, a}} {
			var buf bytes.Buffer
			w, err := pair[0].NewEncryptingWriter(&buf, msgAD)
			if err != nil {
				x.Fail("derived-key-unusable", "%s: NewEncryptingWriter: %v", cfg, err)
				return
			}
			w.Write(long)
			if err := w.Close(); err != nil {
				x.Fail("derived-key-unusable", "%s: Close: %v", cfg, err)
				return
			}
			r, err := pair[1].NewDecryptingReader(bytes.NewReader(buf.Bytes()), msgAD)
			if err != nil {
				x.Fail("interop", "%s: NewDecryptingReader (direction %d): %v", cfg, dir, err)
				return
			}
			got, err := io.ReadAll(r)
			if err != nil || !bytes.Equal(got, long) {
				x.Fail("interop", "%s: streaming ciphertext not decrypted by the other key (direction %d): %v", cfg, dir, err)
			}
		}
	}
	x.Outcome("primitive/" + dt.kind)
}

// ---------------------------------------------------------------------------------------------------
// the oracle for one deriver keyset

type dentry struct {
	dt      *dtype
	cfg     prfCfg
	prfKey  []byte
	id      uint32
	status  tinkpb.KeyStatusType
	primary bool
	legacy  bool // routes.go: stored under the legacy type URL (raw key deriver from a registry.KeyManager)
	// legacyMode: which answer the key manager's deriver gives (routes.go legacyURLs)
	legacyMode int
}

func (e dentry) String() string {
	return fmt.Sprintf("{%v %v id=%#x %v primary=%v}", e.dt, e.cfg, e.id, e.status, e.primary)
}

func callerSalts(thorough bool) [][]byte {
	s200 := ref.KeyBytes("c17-salt-200", 200)
	out := [][]byte{nil, {}, {0x00}, s200[:16], s200}
	if thorough {
		out = append(out, []byte{0x01}, s200[:15], s200[:17], s200[:199], append(bytes.Clone(s200), 0), bytes.Repeat([]byte{0xff}, 64), ref.KeyBytes("c17-salt-1000", 1000))
	}
	return out
}

func buildHandle(es []dentry, path string) (*keyset.Handle, error) {
	var tes []tk.Entry
	for _, e := range es {
		k, err := deriverKey(e.cfg, e.prfKey, e.dt, e.id)
		if err != nil {
			return nil, fmt.Errorf("deriver key %v: %v", e, err)
		}
		tes = append(tes, tk.Entry{Key: k, ID: e.id, Status: e.status, Primary: e.primary})
	}
	if path == "manager" {
		m := keyset.NewManager()
		for i, te := range tes {
			st := keyset.Enabled
			switch es[i].status {
			case tinkpb.KeyStatusType_DISABLED:
				st = keyset.Disabled
			case tinkpb.KeyStatusType_DESTROYED:
				st = keyset.Destroyed
			}
			opts := []keyset.KeyOpts{keyset.WithFixedID(te.ID), keyset.WithStatus(st)}
			if te.Primary {
				opts = append(opts, keyset.AsPrimary())
			}
			if _, err := m.AddKeyWithOpts(te.Key, vb.Tok(), opts...); err != nil {
				return nil, err
			}
		}
		return m.Handle()
	}
	return tk.Handle(tes)
}

type derivedInfo struct {
	mats [][]byte // per enabled entry
}

// judge derives with one salt and evaluates O1-O3 (+O5 when full). Returns the material per enabled entry.
func judge(x *h.X, d, d2 keyderivation.KeysetDeriver, es []dentry, salt []byte, full bool, desc string) ([][]byte, bool) {
	cfg := fmt.Sprintf("%s salt=%s", desc, tk.Hex(salt))
	var h1, h2, h3 *keyset.Handle
	var e1, e2, e3 error
	if p, msg := h.Try(func() {
		// the first derivation gets the salt in a buffer the caller has just used for ANOTHER salt of the same length on
		// the same deriver and rewritten in place (a deriver remembering the salt by reference answers with the old one)
		in := salt
		if len(salt) > 0 {
			buf := bytes.Clone(salt)
			for i := range buf {
				buf[i] ^= 0x5c
			}
			d.DeriveKeyset(buf)
			copy(buf, salt)
			in = buf
		}
		h1, e1 = d.DeriveKeyset(in)
		h2, e2 = d.DeriveKeyset(bytes.Clone(salt))
		h3, e3 = d2.DeriveKeyset(salt)
	}); p {
		x.Fail("panic", "%s: DeriveKeyset panicked: %s", cfg, msg)
		return nil, false
	}
	x.Eval(1)
	if e1 != nil || e2 != nil || e3 != nil {
		x.Fail("derive-error", "%s: DeriveKeyset: %v / %v / %v", cfg, e1, e2, e3)
		return nil, false
	}
	var en []dentry
	for _, e := range es {
		if e.status == tinkpb.KeyStatusType_ENABLED {
			en = append(en, e)
		}
	}
	for _, hh := range []*keyset.Handle{h1, h2, h3} {
		if hh.Len() != len(en) {
			x.Fail("structure-count", "%s: derived keyset has %d keys, deriver keyset has %d ENABLED keys (%v)", cfg, hh.Len(), len(en), es)
			return nil, false
		}
	}
	var mats [][]byte
	nprim := 0
	for i, e := range en {
		a, err := h1.Entry(i)
		b, err2 := h2.Entry(i)
		c, err3 := h3.Entry(i)
		if err != nil || err2 != nil || err3 != nil {
			x.Fail("structure", "%s: Entry(%d): %v %v %v", cfg, i, err, err2, err3)
			return nil, false
		}
		// O1
		for _, o := range []*keyset.Entry{b, c} {
			if !a.Key().Equal(o.Key()) || a.KeyID() != o.KeyID() || a.IsPrimary() != o.IsPrimary() || a.KeyStatus() != o.KeyStatus() {
				x.Fail("nondeterministic", "%s: entry %d differs between two derivations with the same salt", cfg, i)
			}
		}
		// O2
		if a.KeyID() != e.id {
			x.Fail("structure-id", "%s: derived entry %d has id %#x, deriver key has %#x", cfg, i, a.KeyID(), e.id)
		}
		if a.KeyStatus() != keyset.Enabled {
			x.Fail("structure-status", "%s: derived entry %d has status %v", cfg, i, a.KeyStatus())
		}
		if a.IsPrimary() != e.primary {
			x.Fail("structure-primary", "%s: derived entry %d (id %#x) primary=%v, deriver key primary=%v", cfg, i, a.KeyID(), a.IsPrimary(), e.primary)
		}
		if a.IsPrimary() {
			nprim++
		}
		wantReq := e.dt.variant != ref.Raw
		if idr, req := a.Key().IDRequirement(); req != wantReq || (req && idr != e.id) {
			x.Fail("structure-idreq", "%s: derived entry %d id requirement (%#x,%v), want (%#x,%v)", cfg, i, idr, req, e.id, wantReq)
		}
		if _, pt, _, _, err := vb.SerializeKey(a.Key()); err != nil || pt != pbPrefix[e.dt.variant] {
			x.Fail("structure-prefix", "%s: derived entry %d output prefix type %v (err %v), want %v", cfg, i, pt, err, pbPrefix[e.dt.variant])
		}
		if !a.Key().Parameters().Equal(e.dt.params) {
			x.Fail("structure-params", "%s: derived entry %d parameters %v differ from the deriver's derived-key parameters", cfg, i, a.Key().Parameters())
		}
		// O3
		want := ref.KeyDerivMaterial(e.dt.kind, e.dt.keySize, e.cfg.hash, e.prfKey, e.cfg.salt, salt)
		mat, pub, ok := materialOf(a.Key())
		if !ok {
			x.Fail("material-type", "%s: derived entry %d has unexpected key type %T", cfg, i, a.Key())
			return nil, false
		}
		if !bytes.Equal(mat, want) {
			x.Fail("material", "%s: derived entry %d (%v) material %s, reference HKDF leading bytes %s", cfg, i, e.dt, tk.Hex(mat), tk.Hex(want))
		}
		if e.dt.kind == "ED25519" {
			std := ed25519.NewKeyFromSeed(want).Public().(ed25519.PublicKey)
			// (the big-integer RFC 8032 reference is slow: it is consulted on the salts with the full oracle set only)
			if !bytes.Equal(pub, std) || (full && !bytes.Equal(pub, ref.Ed25519Public(want))) {
				x.Fail("material-public", "%s: derived Ed25519 public key %x, stdlib from reference seed %x", cfg, pub, []byte(std))
			}
		}
		rk, err := directKey(e.dt, want, e.id)
		if err != nil {
			x.Fail("setup", "%s: direct key: %v", cfg, err)
			return nil, false
		}
		if !a.Key().Equal(rk) || !rk.Equal(a.Key()) {
			x.Fail("material-equal", "%s: derived entry %d is not Equal to a %v key built directly from the reference bytes", cfg, i, e.dt)
		}
		x.Eval(3)
		mats = append(mats, mat)
		if full {
			interop(x, e.dt, a.Key(), rk, e.id, want, cfg+" key "+e.String())
		}
	}
	if nprim != 1 {
		x.Fail("structure-primary", "%s: derived keyset has %d primary keys", cfg, nprim)
	}
	if p, err := h1.Primary(); err != nil {
		x.Fail("structure-primary", "%s: derived handle has no primary: %v", cfg, err)
	} else {
		for _, e := range en {
			if e.primary && p.KeyID() != e.id {
				x.Fail("structure-primary", "%s: derived primary id %#x, deriver primary id %#x", cfg, p.KeyID(), e.id)
			}
		}
	}
	return mats, true
}

// wholeHandle: when all ENABLED keys are of one primitive class the derived handle itself must work as a keyset
// primitive: the primary encrypts / signs / tags, every key's output made from the reference bytes is accepted.
func wholeHandle(x *h.X, d keyderivation.KeysetDeriver, es []dentry, salt []byte, desc string) {
	var en []dentry
	for _, e := range es {
		if e.status == tinkpb.KeyStatusType_ENABLED {
			en = append(en, e)
		}
	}
	class := en[0].dt.class
	for _, e := range en {
		if e.dt.class != class {
			return
		}
	}
	hd, err := d.DeriveKeyset(salt)
	if err != nil {
		return // judged elsewhere
	}
	var res []tk.Entry
	var prim dentry
	for _, e := range en {
		want := ref.KeyDerivMaterial(e.dt.kind, e.dt.keySize, e.cfg.hash, e.prfKey, e.cfg.salt, salt)
		rk, err := directKey(e.dt, want, e.id)
		if err != nil {
			return
		}
		res = append(res, tk.Entry{Key: rk, ID: e.id, Primary: e.primary})
		if e.primary {
			prim = e
		}
	}
	hr, err := tk.Handle(res)
	if err != nil {
		x.Fail("setup", "%s: reference keyset: %v", desc, err)
		return
	}
	x.Eval(1)
	pre := ref.Prefix(prim.dt.variant, prim.id)
	switch class {
	case "aead":
		a, e1 := aead.New(hd)
		b, e2 := aead.New(hr)
		if !bothOrNeither(x, e1, e2, desc) {
			return
		}
		ct, err := a.Encrypt(msgPT, msgAD)
		if err != nil || !bytes.HasPrefix(ct, pre) {
			x.Fail("keyset-primitive", "%s: derived keyset AEAD: Encrypt err=%v ct=%s want prefix %x of the primary", desc, err, tk.Hex(ct), pre)
			return
		}
		if pt, err := b.Decrypt(ct, msgAD); err != nil || !bytes.Equal(pt, msgPT) {
			x.Fail("keyset-primitive", "%s: reference keyset does not decrypt the derived keyset's ciphertext: %v", desc, err)
		}
		// every single reference key's ciphertext is decrypted by the derived keyset
		for _, re := range res {
			one, _ := single(re.Key, re.ID)
			p, err := aead.New(one)
			if err != nil {
				continue
			}
			c, _ := p.Encrypt(msgPT, msgAD)
			if pt, err := a.Decrypt(c, msgAD); err != nil || !bytes.Equal(pt, msgPT) {
				x.Fail("keyset-primitive", "%s: derived keyset does not decrypt a ciphertext of reference key id %#x: %v", desc, re.ID, err)
			}
		}
	case "mac":
		a, e1 := mac.New(hd)
		b, e2 := mac.New(hr)
		if !bothOrNeither(x, e1, e2, desc) {
			return
		}
		t, err := a.ComputeMAC(msgPT)
		if err != nil || !bytes.HasPrefix(t, pre) {
			x.Fail("keyset-primitive", "%s: derived keyset MAC: err=%v tag=%x want prefix %x", desc, err, t, pre)
			return
		}
		if err := b.VerifyMAC(t, msgPT); err != nil {
			x.Fail("keyset-primitive", "%s: reference keyset rejects tag of derived keyset: %v", desc, err)
		}
		for _, re := range res {
			one, _ := single(re.Key, re.ID)
			p, err := mac.New(one)
			if err != nil {
				continue
			}
			tt, _ := p.ComputeMAC(msgPT)
			if err := a.VerifyMAC(tt, msgPT); err != nil {
				x.Fail("keyset-primitive", "%s: derived keyset rejects tag of reference key id %#x: %v", desc, re.ID, err)
			}
		}
	case "sig":
		s, e1 := signature.NewSigner(hd)
		pubd, _ := hd.Public()
		pubr, _ := hr.Public()
		v, e2 := signature.NewVerifier(pubr)
		vd, e3 := signature.NewVerifier(pubd)
		if e1 != nil || e2 != nil || e3 != nil {
			x.Fail("keyset-primitive", "%s: signer/verifier from derived keyset: %v %v %v", desc, e1, e2, e3)
			return
		}
		sig, err := s.Sign(msgPT)
		if err != nil || v.Verify(sig, msgPT) != nil {
			x.Fail("keyset-primitive", "%s: signature of the derived keyset not verified by the reference keyset (%v)", desc, err)
		}
		for _, re := range res {
			one, _ := single(re.Key, re.ID)
			p, err := signature.NewSigner(one)
			if err != nil {
				continue
			}
			sg, _ := p.Sign(msgPT)
			if err := vd.Verify(sg, msgPT); err != nil {
				x.Fail("keyset-primitive", "%s: derived public keyset rejects signature of reference key id %#x: %v", desc, re.ID, err)
			}
		}
	case "daead":
		a, e1 := daead.New(hd)
		b, e2 := daead.New(hr)
		if !bothOrNeither(x, e1, e2, desc) {
			return
		}
		c1, err := a.EncryptDeterministically(msgPT, msgAD)
		c2, _ := b.EncryptDeterministically(msgPT, msgAD)
		if err != nil || !bytes.Equal(c1, c2) {
			x.Fail("keyset-primitive", "%s: derived keyset DAEAD ciphertext %s, reference keyset %s (%v)", desc, tk.Hex(c1), tk.Hex(c2), err)
		}
	case "prf":
		a, e1 := prf.NewPRFSet(hd)
		b, e2 := prf.NewPRFSet(hr)
		if !bothOrNeither(x, e1, e2, desc) {
			return
		}
		if a.PrimaryID != b.PrimaryID || len(a.PRFs) != len(b.PRFs) {
			x.Fail("keyset-primitive", "%s: PRF set primary %#x/%d PRFs, reference %#x/%d", desc, a.PrimaryID, len(a.PRFs), b.PrimaryID, len(b.PRFs))
			return
		}
		for id, p := range a.PRFs {
			q, ok := b.PRFs[id]
			if !ok {
				x.Fail("keyset-primitive", "%s: PRF id %#x missing in reference set", desc, id)
				continue
			}
			o1, err1 := p.ComputePRF(msgPT, 16)
			o2, err2 := q.ComputePRF(msgPT, 16)
			if err1 != nil || err2 != nil || !bytes.Equal(o1, o2) {
				x.Fail("keyset-primitive", "%s: PRF id %#x derived %x reference %x (%v %v)", desc, id, o1, o2, err1, err2)
			}
		}
	default:
		return
	}
	x.Outcome("keyset-primitive/" + class)
}

func describe(es []dentry, path string) string {
	var parts []string
	for _, e := range es {
		parts = append(parts, e.String())
	}
	return "deriver keyset [" + strings.Join(parts, " ") + "] via " + path
}

// ---------------------------------------------------------------------------------------------------
// sections

func idsOf(x *h.X) []uint32 {
	if x.Thorough() {
		return tk.IDs
	}
	return []uint32{0x01020304, 0xFFFFFFFF, 0}
}

var catQuick, catThorough = fullCatalogue(false), fullCatalogue(true)

func catalogue(x *h.X) []*dtype {
	if x.Thorough() {
		return catThorough
	}
	return catQuick
}

// singleSection: one-key deriver keysets, the complete type x variant x PRF configuration product.
func singleSection(x *h.X) {
	dt := h.Pick(x, "derived-type", catalogue(x))
	cfg := h.Pick(x, "prf", prfCfgs)
	ids := idsOf(x)
	if dt.variant == ref.Raw && !x.Thorough() {
		ids = ids[:2]
	}
	id := h.Pick(x, "id", ids)
	path := h.Pick(x, "path", []string{"proto", "manager"})
	kb := ref.KeyBytes("c17-prfkey-"+cfg.String(), cfg.size)
	es := []dentry{{dt: dt, cfg: cfg, prfKey: kb, id: id, status: tinkpb.KeyStatusType_ENABLED, primary: true}}
	desc := describe(es, path)
	hd, err := buildHandle(es, path)
	if err != nil {
		x.Fail("setup", "%s: %v", desc, err)
		return
	}
	d, err := keyderivation.New(hd)
	d2, err2 := keyderivation.New(hd)
	if err != nil || err2 != nil {
		x.Fail("new-error", "%s: keyderivation.New: %v %v", desc, err, err2)
		return
	}
	x.NonTrivial()
	x.Outcome("derived/" + dt.kind + "/" + dt.variant.String())
	salts := callerSalts(x.Thorough())
	var all [][]byte
	for si, s := range salts {
		mats, ok := judge(x, d, d2, es, s, si <= 3, desc)
		if !ok {
			return
		}
		all = append(all, mats[0])
	}
	// O1: nil salt == empty salt; O4: all other salts give pairwise different material
	if !bytes.Equal(all[0], all[1]) {
		x.Fail("nil-vs-empty", "%s: nil salt and empty salt derive different material", desc)
	}
	for i := 1; i < len(all); i++ {
		for j := i + 1; j < len(all); j++ {
			x.Eval(1)
			if bytes.Equal(all[i], all[j]) {
				x.Fail("salt-collision", "%s: salts %s and %s derive the same key material %s", desc, tk.Hex(salts[i]), tk.Hex(salts[j]), tk.Hex(all[i]))
			}
		}
	}
	// O4: neighbouring PRF keys (single bit flips at the corners and in the middle, and beyond 32 bytes) and
	// neighbouring PRF salts derive different material, each still equal to its own reference.
	salt := salts[3]
	base := all[3]
	flips := []int{0, 7, 8*cfg.size/2 + 3, 8*cfg.size - 1}
	if x.Thorough() {
		flips = nil
		for b := 0; b < 8*cfg.size; b++ {
			flips = append(flips, b)
		}
	}
	for _, bit := range flips {
		kb2 := bytes.Clone(kb)
		kb2[bit/8] ^= 1 << (bit % 8)
		es2 := []dentry{{dt: dt, cfg: cfg, prfKey: kb2, id: id, status: tinkpb.KeyStatusType_ENABLED, primary: true}}
		if m, ok := deriveOne(x, es2, salt, desc+fmt.Sprintf(" with PRF key bit %d flipped", bit)); ok && bytes.Equal(m, base) {
			x.Fail("prfkey-collision", "%s: PRF key with bit %d flipped derives the same material", desc, bit)
		}
	}
	for _, s2 := range [][]byte{nil, {0x5a}, {0x5b}, ref.KeyBytes("c17-prf-salt", 32), ref.KeyBytes("c17-prf-salt", 31)} {
		if bytes.Equal(s2, cfg.salt) || sameHMACKey(cfg.hash, s2, cfg.salt) {
			continue // the same salt, or two salts that are one HMAC key by RFC 2104 zero padding (nil and 64 zero bytes)
		}
		cfg2 := prfCfg{cfg.size, cfg.hash, s2}
		es2 := []dentry{{dt: dt, cfg: cfg2, prfKey: kb, id: id, status: tinkpb.KeyStatusType_ENABLED, primary: true}}
		if m, ok := deriveOne(x, es2, salt, desc+fmt.Sprintf(" with PRF salt %x", s2)); ok && bytes.Equal(m, base) {
			// (all-zero salts up to the hash block size equal the nil salt by RFC 5869 / RFC 2104 key padding; none of the probes is all-zero)
			x.Fail("prfsalt-collision", "%s: PRF salt %x derives the same material as PRF salt %x", desc, s2, cfg.salt)
		}
	}
	other := "SHA512"
	if cfg.hash == "SHA512" {
		other = "SHA256"
	}
	es2 := []dentry{{dt: dt, cfg: prfCfg{cfg.size, other, cfg.salt}, prfKey: kb, id: id, status: tinkpb.KeyStatusType_ENABLED, primary: true}}
	if m, ok := deriveOne(x, es2, salt, desc+" with the other PRF hash"); ok && bytes.Equal(m, base) {
		x.Fail("prfhash-collision", "%s: PRF hash %s derives the same material", desc, other)
	}
}

// deriveOne derives a one-key keyset (proto path) and judges O1-O3 for it; returns the material.
func deriveOne(x *h.X, es []dentry, salt []byte, desc string) ([]byte, bool) {
	hd, err := buildHandle(es, "proto")
	if err != nil {
		x.Fail("setup", "%s: %v", desc, err)
		return nil, false
	}
	d, err := keyderivation.New(hd)
	if err != nil {
		x.Fail("new-error", "%s: keyderivation.New: %v", desc, err)
		return nil, false
	}
	mats, ok := judge(x, d, d, es, salt, false, desc)
	if !ok {
		return nil, false
	}
	return mats[0], true
}

var idSets = [][]uint32{
	{0x01020304, 0, 0xFFFFFFFF},
	{0x80000000, 0x7FFFFFFF, 1},
	{0xFFFFFFFF, 0x01020304, 0},
	{2, 1, 0},
}

// multiSection: deriver keysets of 2 and 3 keys: every family per position x statuses x each primary x variant
// rotation x id set x PRF configuration rotation (x shared / distinct PRF keys).
func multiSection(n int) func(x *h.X) {
	return func(x *h.X) {
		fams := families
		if n == 3 && !x.Thorough() {
			fams = families[:5]
		}
		var fi []int
		for p := 0; p < n; p++ {
			fi = append(fi, x.Choose(fmt.Sprintf("family%d", p), len(fams)))
			x.Label(fams[fi[p]].name)
		}
		prim := x.Choose("primary", n)
		statuses := []tinkpb.KeyStatusType{tinkpb.KeyStatusType_ENABLED, tinkpb.KeyStatusType_DISABLED}
		if x.Thorough() {
			statuses = append(statuses, tinkpb.KeyStatusType_DESTROYED)
		}
		st := make([]tinkpb.KeyStatusType, n)
		for p := 0; p < n; p++ {
			if p == prim {
				st[p] = tinkpb.KeyStatusType_ENABLED
				continue
			}
			st[p] = h.Pick(x, fmt.Sprintf("status%d", p), statuses)
		}
		vrot := x.Choose("variant-rotation", 4)
		nid, nprf := 2, 3
		if x.Thorough() && n == 2 {
			nid, nprf = len(idSets), 6
		}
		if !x.Thorough() && n == 3 {
			nprf = 2
		}
		ids := idSets[x.Choose("id-set", nid)]
		prot := x.Choose("prf-rotation", nprf)
		sharedPRF := false
		if x.Thorough() && (n == 2 || prot == 0) {
			sharedPRF = x.Choose("shared-prf-key", 2) == 1
		}
		path := "proto"
		if (n == 2 || x.Thorough()) && x.Choose("path", 2) == 1 {
			path = "manager"
		}
		var es []dentry
		for p := 0; p < n; p++ {
			f := fams[fi[p]]
			v := f.vs[(vrot+p)%len(f.vs)]
			cfg := prfCfgs[(2*prot+5*p)%len(prfCfgs)]
			if sharedPRF {
				cfg = prfCfgs[(2*prot)%len(prfCfgs)]
			}
			label := fmt.Sprintf("c17-multi-prfkey-%d", p)
			if sharedPRF {
				label = "c17-multi-prfkey-shared"
			}
			es = append(es, dentry{dt: f.mk(v), cfg: cfg, prfKey: ref.KeyBytes(label, cfg.size), id: ids[p], status: st[p], primary: p == prim})
		}
		desc := describe(es, path)
		hd, err := buildHandle(es, path)
		if err != nil {
			x.Fail("setup", "%s: %v", desc, err)
			return
		}
		d, err := keyderivation.New(hd)
		d2, err2 := keyderivation.New(hd)
		if err != nil || err2 != nil {
			x.Fail("new-error", "%s: keyderivation.New: %v %v", desc, err, err2)
			return
		}
		x.NonTrivial()
		nen := 0
		for _, s := range st {
			if s == tinkpb.KeyStatusType_ENABLED {
				nen++
			}
		}
		x.Outcome(fmt.Sprintf("keys=%d enabled=%d primary=%d", n, nen, prim))
		salts := callerSalts(false)
		var all [][][]byte
		for si, s := range salts {
			mats, ok := judge(x, d, d2, es, s, si == 3, desc)
			if !ok {
				return
			}
			all = append(all, mats)
		}
		for k := range all[0] {
			if !bytes.Equal(all[0][k], all[1][k]) {
				x.Fail("nil-vs-empty", "%s: nil salt and empty salt derive different material", desc)
			}
			for i := 1; i < len(all); i++ {
				for j := i + 1; j < len(all); j++ {
					if bytes.Equal(all[i][k], all[j][k]) {
						x.Fail("salt-collision", "%s: salts %s and %s derive the same material for enabled key %d", desc, tk.Hex(salts[i]), tk.Hex(salts[j]), k)
					}
				}
			}
		}
		// O4 across keys: distinct PRF keys => material of no key is a prefix of another's
		if !sharedPRF {
			m := all[3]
			for i := range m {
				for j := i + 1; j < len(m); j++ {
					l := min(len(m[i]), len(m[j]))
					if bytes.Equal(m[i][:l], m[j][:l]) {
						x.Fail("prfkey-collision", "%s: enabled keys %d and %d (different PRF keys) derive the same material", desc, i, j)
					}
				}
			}
		}
		wholeHandle(x, d, es, salts[3], desc)
	}
}

// unsupportedSection: a key type without a registered deriver must be refused, not derived by some other rule.
func unsupportedSection(x *h.X) {
	cfg := h.Pick(x, "prf", prfCfgs)
	sp, err := aesgcmsiv.NewParameters(32, aesgcmsiv.VariantTink)
	if err != nil {
		x.Fail("setup", "%v", err)
		return
	}
	dt := &dtype{kind: "AES-GCM-SIV", class: "aead", label: "AESGCMSIV/TINK", variant: ref.Tink, keySize: 32, params: sp}
	es := []dentry{{dt: dt, cfg: cfg, prfKey: ref.KeyBytes("c17-unsupported", cfg.size), id: 0x01020304, status: tinkpb.KeyStatusType_ENABLED, primary: true}}
	hd, err := buildHandle(es, "proto")
	if err != nil {
		x.Outcome("refused-at-keyset")
		x.NonTrivial()
		return
	}
	d, err := keyderivation.New(hd)
	if err != nil {
		x.Outcome("refused-at-New")
		x.NonTrivial()
		return
	}
	hh, err := d.DeriveKeyset([]byte("salt"))
	x.NonTrivial()
	if err == nil {
		x.Fail("unsupported-derived", "AES-GCM-SIV has no key deriver but DeriveKeyset returned a keyset of %d keys", hh.Len())
		return
	}
	x.Outcome("refused-at-DeriveKeyset")
}

func main() {
	h.Main("C17", "exploration",
		"deriver keysets of 1 key (complete product: every registered derivable key type x variant x parameter corner set x PRF key size {32,64} x PRF hash {SHA256,SHA512} x PRF salt {nil,1,32 bytes} x key id x construction path) and of 2 and 3 keys (family per position x status of every non-primary key x each primary x variant rotation x id set x PRF configuration rotation x path), each derived through keyderivation.New(handle).DeriveKeyset for the caller salts {nil, empty, 1, 16, 200 bytes (+7 more in thorough)}; the derived handle is compared key by key with the RFC 5869 reference (verif/ref/keyderiv.go): determinism, structure (ids, prefix type, id requirement, primary, order, status, disabled keys absent), material (leading HKDF bytes, Ed25519 public key by stdlib), separation (salts, PRF key bit flips, PRF salts, PRF hash), usability (interop with a key built directly from the reference bytes and with independent AES-GCM/XChaCha/AES-SIV/HMAC/HKDF/Ed25519 computations; whole derived keyset as a primitive). Construction routes (routes.go): the same oracle for deriver keysets obtained from key templates (7 sources incl. the key manager via registry.NewKeyData/NewKey; every public template and catalogue type x PRF template; the generated PRF key is read back), from hand-written proto keysets of 1 and 3 keys read by 3 readers (leading-zero / zero / unsorted ids, disabled keys, re-parsed copy as second deriver) and through the factory's legacy full-primitive wrapper (registry.KeyManager handing out a raw key deriver); refusal laws for underivable types and prefix conflicts. Non-trivial = a deriver was built and at least one keyset derived; distinct = distinct choice vectors.",
		[]h.Section{
			{Name: "single-key", Body: singleSection, Bound: -1},
			{Name: "two-keys", Body: multiSection(2), Bound: -1},
			{Name: "three-keys", Body: multiSection(3), Bound: -1},
			{Name: "unsupported-type", Body: unsupportedSection, Bound: -1},
			// construction routes (routes.go)
			{Name: "template-route", Body: templateSection, Bound: -1},
			{Name: "proto-1key", Body: protoOneKeySection, Bound: -1},
			{Name: "proto-3keys", Body: protoThreeKeySection, Bound: -1},
			{Name: "legacy-wrapper", Body: legacySection, Bound: -1},
			{Name: "hkdf-output-limit", Body: hkdfLimitSection, Bound: -1},
			{Name: "unusable-non-enabled-entries", Body: unusableEntriesSection, Bound: -1},
			{Name: "underivable-routes", Body: underivableSection, Bound: -1},
			{Name: "prefix-conflict", Body: prefixConflictSection, Bound: -1},
			{Name: "other-prf", Body: otherPRFSection, Bound: -1},
		})
}
