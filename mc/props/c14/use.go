package main

// Primitive creation + ONE use + self-consistency, per primitive class (chosen from the type URL).

import (
	"bytes"
	"fmt"
	"io"
	"strings"

	"google.golang.org/protobuf/proto"

	"github.com/tink-crypto/tink-go/v2/aead"
	"github.com/tink-crypto/tink-go/v2/daead"
	"github.com/tink-crypto/tink-go/v2/hybrid"
	"github.com/tink-crypto/tink-go/v2/insecurecleartextkeyset"
	"github.com/tink-crypto/tink-go/v2/jwt"
	"github.com/tink-crypto/tink-go/v2/keyderivation"
	"github.com/tink-crypto/tink-go/v2/keyset"
	"github.com/tink-crypto/tink-go/v2/mac"
	"github.com/tink-crypto/tink-go/v2/prf"
	"github.com/tink-crypto/tink-go/v2/signature"
	"github.com/tink-crypto/tink-go/v2/streamingaead"
	"verif/h"
)

var allClasses = []string{"aead", "daead", "mac", "prf", "saead", "hybrid-priv", "hybrid-pub", "sig-priv", "sig-pub", "jwt-mac", "jwt-priv", "jwt-pub", "deriver"}

var classOfType = map[string]string{
	"AesGcmKey": "aead", "AesGcmSivKey": "aead", "AesCtrHmacAeadKey": "aead", "ChaCha20Poly1305Key": "aead", "XChaCha20Poly1305Key": "aead",
	"XAesGcmKey": "aead", "KmsEnvelopeAeadKey": "aead", "KmsAeadKey": "aead", "AesEaxKey": "aead",
	"AesSivKey": "daead", "HmacKey": "mac", "AesCmacKey": "mac",
	"HmacPrfKey": "prf", "HkdfPrfKey": "prf", "AesCmacPrfKey": "prf",
	"AesGcmHkdfStreamingKey": "saead", "AesCtrHmacStreamingKey": "saead",
	"HpkePrivateKey": "hybrid-priv", "EciesAeadHkdfPrivateKey": "hybrid-priv", "HpkePublicKey": "hybrid-pub", "EciesAeadHkdfPublicKey": "hybrid-pub",
	"Ed25519PrivateKey": "sig-priv", "EcdsaPrivateKey": "sig-priv", "RsaSsaPkcs1PrivateKey": "sig-priv", "RsaSsaPssPrivateKey": "sig-priv",
	"MlDsaPrivateKey": "sig-priv", "SlhDsaPrivateKey": "sig-priv", "CompositeMlDsaPrivateKey": "sig-priv",
	"Ed25519PublicKey": "sig-pub", "EcdsaPublicKey": "sig-pub", "RsaSsaPkcs1PublicKey": "sig-pub", "RsaSsaPssPublicKey": "sig-pub",
	"MlDsaPublicKey": "sig-pub", "SlhDsaPublicKey": "sig-pub", "CompositeMlDsaPublicKey": "sig-pub",
	"JwtHmacKey": "jwt-mac", "JwtEcdsaPrivateKey": "jwt-priv", "JwtRsaSsaPkcs1PrivateKey": "jwt-priv", "JwtRsaSsaPssPrivateKey": "jwt-priv", "JwtMlDsaPrivateKey": "jwt-priv",
	"JwtEcdsaPublicKey": "jwt-pub", "JwtRsaSsaPkcs1PublicKey": "jwt-pub", "JwtRsaSsaPssPublicKey": "jwt-pub", "JwtMlDsaPublicKey": "jwt-pub",
	"PrfBasedDeriverKey": "deriver",
}

func shortType(u string) string {
	if strings.HasPrefix(u, tp) {
		return u[len(tp):]
	}
	if u == "" {
		return "(empty-url)"
	}
	return "(foreign-url)"
}

// useResult of one primitive class on one handle.
type useResult struct {
	created    bool   // the primitive constructor succeeded
	used       bool   // the one operation succeeded (output produced)
	consistent bool   // round trip / own output verified (meaningful when used)
	noPublic   bool   // handle.Public() failed: the public half is not obtainable, self-consistency not judged
	detail     string // error text of the first failing step
}

var (
	pt   = []byte("C14 plaintext: the quick brown fox jumps over the lazy dog 0123456789")
	ad   = []byte("c14-aad")
	junk = bytes.Repeat([]byte{0x5a}, 64)
)

func use(class string, hd *keyset.Handle) (r useResult) {
	fail := func(step string, err error) useResult { r.detail = fmt.Sprintf("%s: %v", step, err); return r }
	switch class {
	case "aead":
		p, err := aead.New(hd)
		if err != nil {
			return fail("aead.New", err)
		}
		r.created = true
		ct, err := p.Encrypt(pt, ad)
		if err != nil {
			return fail("Encrypt", err)
		}
		r.used = true
		got, err := p.Decrypt(ct, ad)
		r.consistent = err == nil && bytes.Equal(got, pt)
		if !r.consistent {
			return fail("Decrypt(own ciphertext)", err)
		}
	case "daead":
		p, err := daead.New(hd)
		if err != nil {
			return fail("daead.New", err)
		}
		r.created = true
		c1, err := p.EncryptDeterministically(pt, ad)
		if err != nil {
			return fail("EncryptDeterministically", err)
		}
		r.used = true
		c2, err2 := p.EncryptDeterministically(pt, ad)
		got, err := p.DecryptDeterministically(c1, ad)
		r.consistent = err == nil && err2 == nil && bytes.Equal(c1, c2) && bytes.Equal(got, pt)
		if !r.consistent {
			return fail("DecryptDeterministically(own ciphertext) / determinism", err)
		}
	case "mac":
		p, err := mac.New(hd)
		if err != nil {
			return fail("mac.New", err)
		}
		r.created = true
		tag, err := p.ComputeMAC(pt)
		if err != nil {
			return fail("ComputeMAC", err)
		}
		r.used = true
		err = p.VerifyMAC(tag, pt)
		r.consistent = err == nil
		if err != nil {
			return fail("VerifyMAC(own tag)", err)
		}
	case "prf":
		s, err := prf.NewPRFSet(hd)
		if err != nil {
			return fail("prf.NewPRFSet", err)
		}
		r.created = true
		o1, err := s.ComputePrimaryPRF(pt, 16)
		if err != nil {
			return fail("ComputePrimaryPRF", err)
		}
		r.used = true
		o2, err := s.ComputePrimaryPRF(pt, 16)
		r.consistent = err == nil && bytes.Equal(o1, o2) && len(o1) == 16
		if !r.consistent {
			return fail("ComputePrimaryPRF twice", err)
		}
	case "saead":
		p, err := streamingaead.New(hd)
		if err != nil {
			return fail("streamingaead.New", err)
		}
		r.created = true
		msg := bytes.Repeat(pt, 70) // > one 4 KiB segment, many small segments
		var buf bytes.Buffer
		w, err := p.NewEncryptingWriter(&buf, ad)
		if err != nil {
			return fail("NewEncryptingWriter", err)
		}
		if _, err := w.Write(msg); err != nil {
			return fail("Write", err)
		}
		if err := w.Close(); err != nil {
			return fail("Close", err)
		}
		r.used = true
		rd, err := p.NewDecryptingReader(bytes.NewReader(buf.Bytes()), ad)
		if err != nil {
			return fail("NewDecryptingReader", err)
		}
		got, err := io.ReadAll(rd)
		r.consistent = err == nil && bytes.Equal(got, msg)
		if !r.consistent {
			return fail("decrypt own stream", err)
		}
	case "hybrid-priv":
		d, err := hybrid.NewHybridDecrypt(hd)
		if err != nil {
			return fail("hybrid.NewHybridDecrypt", err)
		}
		r.created = true
		pub, err := hd.Public()
		if err != nil {
			return fail("handle.Public()", err)
		}
		e, err := hybrid.NewHybridEncrypt(pub)
		if err != nil {
			return fail("hybrid.NewHybridEncrypt(Public())", err)
		}
		ct, err := e.Encrypt(pt, ad)
		if err != nil {
			return fail("Encrypt under Public()", err)
		}
		r.used = true
		got, err := d.Decrypt(ct, ad)
		r.consistent = err == nil && bytes.Equal(got, pt)
		if !r.consistent {
			return fail("Decrypt(ciphertext made under Public())", err)
		}
	case "hybrid-pub":
		e, err := hybrid.NewHybridEncrypt(hd)
		if err != nil {
			return fail("hybrid.NewHybridEncrypt", err)
		}
		r.created = true
		if _, err := e.Encrypt(pt, ad); err != nil {
			return fail("Encrypt", err)
		}
		r.used, r.consistent = true, true
	case "sig-priv":
		s, err := signature.NewSigner(hd)
		if err != nil {
			return fail("signature.NewSigner", err)
		}
		r.created = true
		sig, err := s.Sign(pt)
		if err != nil {
			return fail("Sign", err)
		}
		r.used = true
		pub, err := hd.Public()
		if err != nil {
			r.noPublic = true // e.g. an unknown-type entry elsewhere in the keyset: not a property of the primitive
			return fail("handle.Public()", err)
		}
		v, err := signature.NewVerifier(pub)
		if err != nil {
			return fail("signature.NewVerifier(Public())", err)
		}
		err = v.Verify(sig, pt)
		r.consistent = err == nil
		if err != nil {
			return fail("Verify(own signature) under Public()", err)
		}
	case "sig-pub":
		v, err := signature.NewVerifier(hd)
		if err != nil {
			return fail("signature.NewVerifier", err)
		}
		r.created = true
		_ = v.Verify(junk, pt)
		_ = v.Verify(nil, pt)
		r.used, r.consistent = true, true
	case "jwt-mac":
		m, err := jwt.NewMAC(hd)
		if err != nil {
			return fail("jwt.NewMAC", err)
		}
		r.created = true
		tok, err := m.ComputeMACAndEncode(rawJWT)
		if err != nil {
			return fail("ComputeMACAndEncode", err)
		}
		r.used = true
		_, err = m.VerifyMACAndDecode(tok, jwtValidator)
		r.consistent = err == nil
		if err != nil {
			return fail("VerifyMACAndDecode(own token)", err)
		}
	case "jwt-priv":
		s, err := jwt.NewSigner(hd)
		if err != nil {
			return fail("jwt.NewSigner", err)
		}
		r.created = true
		tok, err := s.SignAndEncode(rawJWT)
		if err != nil {
			return fail("SignAndEncode", err)
		}
		r.used = true
		pub, err := hd.Public()
		if err != nil {
			r.noPublic = true
			return fail("handle.Public()", err)
		}
		v, err := jwt.NewVerifier(pub)
		if err != nil {
			return fail("jwt.NewVerifier(Public())", err)
		}
		_, err = v.VerifyAndDecode(tok, jwtValidator)
		r.consistent = err == nil
		if err != nil {
			return fail("VerifyAndDecode(own token) under Public()", err)
		}
	case "jwt-pub":
		v, err := jwt.NewVerifier(hd)
		if err != nil {
			return fail("jwt.NewVerifier", err)
		}
		r.created = true
		_, _ = v.VerifyAndDecode("eyJhbGciOiJFUzI1NiJ9.e30.AAAA", jwtValidator)
		_, _ = v.VerifyAndDecode("a.b.c", jwtValidator)
		r.used, r.consistent = true, true
	case "deriver":
		d, err := keyderivation.New(hd)
		if err != nil {
			return fail("keyderivation.New", err)
		}
		r.created = true
		h1, err := d.DeriveKeyset([]byte("salt-1"))
		if err != nil {
			return fail("DeriveKeyset", err)
		}
		r.used = true
		h2, err := d.DeriveKeyset([]byte("salt-1"))
		if err != nil {
			return fail("DeriveKeyset (second)", err)
		}
		r.consistent = proto.Equal(insecurecleartextkeyset.KeysetMaterial(h1), insecurecleartextkeyset.KeysetMaterial(h2))
		if !r.consistent {
			return fail("DeriveKeyset twice", fmt.Errorf("derived keysets differ"))
		}
	default:
		panic("unknown class " + class)
	}
	return r
}

var (
	rawJWT       *jwt.RawJWT
	jwtValidator *jwt.Validator
)

func init() {
	iss := "c14"
	var err error
	rawJWT, err = jwt.NewRawJWT(&jwt.RawJWTOptions{Issuer: &iss, WithoutExpiration: true})
	if err != nil {
		panic(err)
	}
	jwtValidator, err = jwt.NewValidator(&jwt.ValidatorOpts{ExpectedIssuer: &iss, AllowMissingExpiration: true})
	if err != nil {
		panic(err)
	}
}

// tryUse runs use() under h.Try.
func tryUse(class string, hd *keyset.Handle) (r useResult, panicked bool, msg string) {
	panicked, msg = h.Try(func() { r = use(class, hd) })
	return
}
