package main

// Seed corpus of C14: one valid single-key proto keyset per key type URL and parameter variant, plus three
// multi-key keysets. All key material is deterministic (ref.KeyBytes labels, fixed RSA keys, ML-DSA / SLH-DSA
// keys from fixed seeds). Public halves are computed with the Go standard library (crypto/ecdh, crypto/ed25519,
// crypto/mlkem, crypto/hpke, math/big); ML-DSA public keys come from tink's seed constructor and SLH-DSA keys
// from FIPS 205 slh_keygen_internal through the c14 bridge. Every seed is checked at bound 0 (accepted,
// primitive self-consistent), so a wrongly built seed shows up as a violation and not as silence.

import (
	"crypto/ecdh"
	"crypto/ed25519"
	"crypto/hpke"
	"crypto/mlkem"
	"fmt"
	"math/big"
	"strings"

	"google.golang.org/protobuf/proto"

	"github.com/tink-crypto/tink-go/v2/aead"
	"github.com/tink-crypto/tink-go/v2/daead"
	"github.com/tink-crypto/tink-go/v2/insecuresecretdataaccess"
	"github.com/tink-crypto/tink-go/v2/mac"
	cmacpb "github.com/tink-crypto/tink-go/v2/proto/aes_cmac_go_proto"
	cmacprfpb "github.com/tink-crypto/tink-go/v2/proto/aes_cmac_prf_go_proto"
	ctrpb "github.com/tink-crypto/tink-go/v2/proto/aes_ctr_go_proto"
	ctrhmacpb "github.com/tink-crypto/tink-go/v2/proto/aes_ctr_hmac_aead_go_proto"
	ctrhmacstreampb "github.com/tink-crypto/tink-go/v2/proto/aes_ctr_hmac_streaming_go_proto"
	gcmpb "github.com/tink-crypto/tink-go/v2/proto/aes_gcm_go_proto"
	gcmhkdfpb "github.com/tink-crypto/tink-go/v2/proto/aes_gcm_hkdf_streaming_go_proto"
	gcmsivpb "github.com/tink-crypto/tink-go/v2/proto/aes_gcm_siv_go_proto"
	sivpb "github.com/tink-crypto/tink-go/v2/proto/aes_siv_go_proto"
	chachapb "github.com/tink-crypto/tink-go/v2/proto/chacha20_poly1305_go_proto"
	commonpb "github.com/tink-crypto/tink-go/v2/proto/common_go_proto"
	comppb "github.com/tink-crypto/tink-go/v2/proto/composite_ml_dsa_go_proto"
	ecdsapb "github.com/tink-crypto/tink-go/v2/proto/ecdsa_go_proto"
	eciespb "github.com/tink-crypto/tink-go/v2/proto/ecies_aead_hkdf_go_proto"
	ed25519pb "github.com/tink-crypto/tink-go/v2/proto/ed25519_go_proto"
	hkdfprfpb "github.com/tink-crypto/tink-go/v2/proto/hkdf_prf_go_proto"
	hmacpb "github.com/tink-crypto/tink-go/v2/proto/hmac_go_proto"
	hmacprfpb "github.com/tink-crypto/tink-go/v2/proto/hmac_prf_go_proto"
	hpkepb "github.com/tink-crypto/tink-go/v2/proto/hpke_go_proto"
	jwtecdsapb "github.com/tink-crypto/tink-go/v2/proto/jwt_ecdsa_go_proto"
	jwthmacpb "github.com/tink-crypto/tink-go/v2/proto/jwt_hmac_go_proto"
	jwtmldsapb "github.com/tink-crypto/tink-go/v2/proto/jwt_ml_dsa_go_proto"
	jwtpkcs1pb "github.com/tink-crypto/tink-go/v2/proto/jwt_rsa_ssa_pkcs1_go_proto"
	jwtpsspb "github.com/tink-crypto/tink-go/v2/proto/jwt_rsa_ssa_pss_go_proto"
	mldsapb "github.com/tink-crypto/tink-go/v2/proto/ml_dsa_go_proto"
	derpb "github.com/tink-crypto/tink-go/v2/proto/prf_based_deriver_go_proto"
	pkcs1pb "github.com/tink-crypto/tink-go/v2/proto/rsa_ssa_pkcs1_go_proto"
	psspb "github.com/tink-crypto/tink-go/v2/proto/rsa_ssa_pss_go_proto"
	slhdsapb "github.com/tink-crypto/tink-go/v2/proto/slh_dsa_go_proto"
	tinkpb "github.com/tink-crypto/tink-go/v2/proto/tink_go_proto"
	xaesgcmpb "github.com/tink-crypto/tink-go/v2/proto/x_aes_gcm_go_proto"
	xchachapb "github.com/tink-crypto/tink-go/v2/proto/xchacha20_poly1305_go_proto"
	"github.com/tink-crypto/tink-go/v2/secretdata"
	"github.com/tink-crypto/tink-go/v2/signature/mldsa"
	"github.com/tink-crypto/tink-go/v2/testkeyset"
	"github.com/tink-crypto/tink-go/v2/verifbridge/c14b"
	"verif/h"
	"verif/ref"
)

const tp = "type.googleapis.com/google.crypto.tink."

const (
	pTINK    = tinkpb.OutputPrefixType_TINK
	pLEGACY  = tinkpb.OutputPrefixType_LEGACY
	pRAW     = tinkpb.OutputPrefixType_RAW
	pCRUNCHY = tinkpb.OutputPrefixType_CRUNCHY
	mSYM     = tinkpb.KeyData_SYMMETRIC
	mPRIV    = tinkpb.KeyData_ASYMMETRIC_PRIVATE
	mPUB     = tinkpb.KeyData_ASYMMETRIC_PUBLIC
)

// seed is one element of the corpus.
type seed struct {
	name  string
	ks    *tinkpb.Keyset
	alt   []*tinkpb.KeyData // per key: same type and parameters, other key material (nil if none)
	quick bool              // part of the quick tier
	multi bool
}

func kd(name string, mat tinkpb.KeyData_KeyMaterialType, m proto.Message) *tinkpb.KeyData {
	b, err := proto.MarshalOptions{Deterministic: true}.Marshal(m)
	if err != nil {
		panic(err)
	}
	return &tinkpb.KeyData{TypeUrl: tp + name, Value: b, KeyMaterialType: mat}
}

func kb(label string, n int) []byte { return ref.KeyBytes("c14/"+label, n) }

// ---- elliptic curves ------------------------------------------------------------------------------------

type curveInfo struct {
	c    ecdh.Curve
	size int
	pb   commonpb.EllipticCurveType
}

var curves = map[string]curveInfo{
	"P256": {ecdh.P256(), 32, commonpb.EllipticCurveType_NIST_P256},
	"P384": {ecdh.P384(), 48, commonpb.EllipticCurveType_NIST_P384},
	"P521": {ecdh.P521(), 66, commonpb.EllipticCurveType_NIST_P521},
}

// ecKey returns (scalar, x, y) of fixed size for a deterministic key on the curve.
func ecKey(curve, label string) (d, x, y []byte) {
	ci := curves[curve]
	for i := 0; ; i++ {
		s := kb(fmt.Sprintf("ec/%s/%s/%d", curve, label, i), ci.size)
		if curve == "P521" {
			s[0] &= 0x01
		}
		k, err := ci.c.NewPrivateKey(s)
		if err != nil {
			continue
		}
		pub := k.PublicKey().Bytes()
		return s, pub[1 : 1+ci.size], pub[1+ci.size:]
	}
}

func z(b []byte) []byte { return append([]byte{0}, b...) } // tink's writers emit one leading zero byte

// ---- RSA ------------------------------------------------------------------------------------------------

type rsaKey struct{ n, e, d, p, q, dp, dq, crt []byte }

func bigHex(s string) *big.Int { v, _ := new(big.Int).SetString(s, 16); return v }

func rsaFrom(nH, dH, pH, qH string, e int64) rsaKey {
	n, p, q := bigHex(nH), bigHex(pH), bigHex(qH)
	one := big.NewInt(1)
	pm, qm := new(big.Int).Sub(p, one), new(big.Int).Sub(q, one)
	var d *big.Int
	if e == 65537 && dH != "" {
		d = bigHex(dH)
	} else {
		// d = e^-1 mod lcm(p-1, q-1)
		g := new(big.Int).GCD(nil, nil, pm, qm)
		l := new(big.Int).Div(new(big.Int).Mul(pm, qm), g)
		d = new(big.Int).ModInverse(big.NewInt(e), l)
		if d == nil {
			panic("rsa: e not invertible")
		}
	}
	return rsaKey{n: n.Bytes(), e: big.NewInt(e).Bytes(), d: d.Bytes(), p: p.Bytes(), q: q.Bytes(),
		dp: new(big.Int).Mod(d, pm).Bytes(), dq: new(big.Int).Mod(d, qm).Bytes(), crt: new(big.Int).ModInverse(q, p).Bytes()}
}

func rsaFixed(bits, idx int) rsaKey {
	k := ref.RSATestKeyHex[bits][idx]
	return rsaFrom(k[0], k[1], k[2], k[3], 65537)
}

// ---- per-type builders ----------------------------------------------------------------------------------

func hmacKD(hash commonpb.HashType, keySize, tag int, label string) *tinkpb.KeyData {
	return kd("HmacKey", mSYM, &hmacpb.HmacKey{Params: &hmacpb.HmacParams{Hash: hash, TagSize: uint32(tag)}, KeyValue: kb("hmac/"+label, keySize)})
}

func ctrHmacKD(aes, iv, hk int, hash commonpb.HashType, tag int, label string) *tinkpb.KeyData {
	return kd("AesCtrHmacAeadKey", mSYM, &ctrhmacpb.AesCtrHmacAeadKey{
		AesCtrKey: &ctrpb.AesCtrKey{Params: &ctrpb.AesCtrParams{IvSize: uint32(iv)}, KeyValue: kb("ctr/"+label, aes)},
		HmacKey:   &hmacpb.HmacKey{Params: &hmacpb.HmacParams{Hash: hash, TagSize: uint32(tag)}, KeyValue: kb("ctrhmac/"+label, hk)},
	})
}

func ecdsaPriv(curve string, hash commonpb.HashType, enc ecdsapb.EcdsaSignatureEncoding, label string) *tinkpb.KeyData {
	d, x, y := ecKey(curve, "ecdsa/"+label)
	return kd("EcdsaPrivateKey", mPRIV, &ecdsapb.EcdsaPrivateKey{KeyValue: z(d),
		PublicKey: &ecdsapb.EcdsaPublicKey{Params: &ecdsapb.EcdsaParams{HashType: hash, Curve: curves[curve].pb, Encoding: enc}, X: z(x), Y: z(y)}})
}

func ed25519Priv(label string) *tinkpb.KeyData {
	s := kb("ed25519/"+label, 32)
	pub := ed25519.NewKeyFromSeed(s).Public().(ed25519.PublicKey)
	return kd("Ed25519PrivateKey", mPRIV, &ed25519pb.Ed25519PrivateKey{KeyValue: s, PublicKey: &ed25519pb.Ed25519PublicKey{KeyValue: pub}})
}

func pkcs1Priv(k rsaKey, hash commonpb.HashType) *tinkpb.KeyData {
	return kd("RsaSsaPkcs1PrivateKey", mPRIV, &pkcs1pb.RsaSsaPkcs1PrivateKey{D: k.d, P: k.p, Q: k.q, Dp: k.dp, Dq: k.dq, Crt: k.crt,
		PublicKey: &pkcs1pb.RsaSsaPkcs1PublicKey{Params: &pkcs1pb.RsaSsaPkcs1Params{HashType: hash}, N: k.n, E: k.e}})
}

func pssPriv(k rsaKey, hash commonpb.HashType, salt int) *tinkpb.KeyData {
	return kd("RsaSsaPssPrivateKey", mPRIV, &psspb.RsaSsaPssPrivateKey{D: k.d, P: k.p, Q: k.q, Dp: k.dp, Dq: k.dq, Crt: k.crt,
		PublicKey: &psspb.RsaSsaPssPublicKey{Params: &psspb.RsaSsaPssParams{SigHash: hash, Mgf1Hash: hash, SaltLength: int32(salt)}, N: k.n, E: k.e}})
}

var mldsaInst = map[string]struct {
	inst mldsa.Instance
	pb   mldsapb.MlDsaInstance
	jwt  jwtmldsapb.JwtMlDsaAlgorithm
}{
	"44": {mldsa.MLDSA44, mldsapb.MlDsaInstance_ML_DSA_44, jwtmldsapb.JwtMlDsaAlgorithm_ML_DSA44},
	"65": {mldsa.MLDSA65, mldsapb.MlDsaInstance_ML_DSA_65, jwtmldsapb.JwtMlDsaAlgorithm_ML_DSA65},
	"87": {mldsa.MLDSA87, mldsapb.MlDsaInstance_ML_DSA_87, jwtmldsapb.JwtMlDsaAlgorithm_ML_DSA87},
}

func mldsaKeyBytes(inst, label string) (seed, pub []byte) {
	seed = kb("mldsa/"+inst+"/"+label, 32)
	params, err := mldsa.NewParameters(mldsaInst[inst].inst, mldsa.VariantNoPrefix)
	if err != nil {
		panic(err)
	}
	k, err := mldsa.NewPrivateKey(secretdata.NewBytesFromData(seed, insecuresecretdataaccess.Token{}), 0, params)
	if err != nil {
		panic(err)
	}
	pk, _ := k.PublicKey()
	return seed, pk.(*mldsa.PublicKey).KeyBytes()
}

func mldsaPriv(inst, label string) *tinkpb.KeyData {
	s, pub := mldsaKeyBytes(inst, label)
	return kd("MlDsaPrivateKey", mPRIV, &mldsapb.MlDsaPrivateKey{KeyValue: s,
		PublicKey: &mldsapb.MlDsaPublicKey{KeyValue: pub, Params: &mldsapb.MlDsaParams{MlDsaInstance: mldsaInst[inst].pb}}})
}

func slhdsaPriv(set string, label string) *tinkpb.KeyData {
	// set: "SHA2-128f" ...
	n := map[string]int{"128f": 16, "192f": 24, "256f": 32}[set[strings.Index(set, "-")+1:]]
	skSeed, skPrf, pkSeed := kb("slh/skseed/"+set+label, n), kb("slh/skprf/"+set+label, n), kb("slh/pkseed/"+set+label, n)
	var sk []byte
	if h.Seams() {
		sk = c14b.SLHKeygen(set, skSeed, skPrf, pkSeed)
	} else if p := ref.SLHByName("SLH-DSA-" + set); p != nil {
		// export shim unavailable (tink internals refactored, see check.sh): the same key from the FIPS 205 reference
		// model (slh_keygen_internal is a deterministic function of the three seeds), so every seed of the corpus exists
		sk, _ = p.KeygenInternal(skSeed, skPrf, pkSeed)
	}
	if sk == nil {
		panic("slhdsa keygen " + set)
	}
	ht := slhdsapb.SlhDsaHashType_SHA2
	if strings.HasPrefix(set, "SHAKE") {
		ht = slhdsapb.SlhDsaHashType_SHAKE
	}
	params := &slhdsapb.SlhDsaParams{KeySize: int32(4 * n), HashType: ht, SigType: slhdsapb.SlhDsaSignatureType_FAST_SIGNING}
	return kd("SlhDsaPrivateKey", mPRIV, &slhdsapb.SlhDsaPrivateKey{KeyValue: sk,
		PublicKey: &slhdsapb.SlhDsaPublicKey{KeyValue: sk[2*n:], Params: params}})
}

func hpkePriv(kem hpkepb.HpkeKem, kdf hpkepb.HpkeKdf, ad hpkepb.HpkeAead, label string) *tinkpb.KeyData {
	var priv, pub []byte
	switch kem {
	case hpkepb.HpkeKem_DHKEM_X25519_HKDF_SHA256:
		priv = kb("hpke/x25519/"+label, 32)
		k, err := ecdh.X25519().NewPrivateKey(priv)
		if err != nil {
			panic(err)
		}
		pub = k.PublicKey().Bytes()
	case hpkepb.HpkeKem_DHKEM_P256_HKDF_SHA256, hpkepb.HpkeKem_DHKEM_P384_HKDF_SHA384, hpkepb.HpkeKem_DHKEM_P521_HKDF_SHA512:
		c := map[hpkepb.HpkeKem]string{hpkepb.HpkeKem_DHKEM_P256_HKDF_SHA256: "P256", hpkepb.HpkeKem_DHKEM_P384_HKDF_SHA384: "P384", hpkepb.HpkeKem_DHKEM_P521_HKDF_SHA512: "P521"}[kem]
		d, x, y := ecKey(c, "hpke/"+label)
		priv = d
		pub = append(append([]byte{4}, x...), y...)
	case hpkepb.HpkeKem_ML_KEM768:
		priv = kb("hpke/mlkem768/"+label, 64)
		dk, err := mlkem.NewDecapsulationKey768(priv)
		if err != nil {
			panic(err)
		}
		pub = dk.EncapsulationKey().Bytes()
	case hpkepb.HpkeKem_ML_KEM1024:
		priv = kb("hpke/mlkem1024/"+label, 64)
		dk, err := mlkem.NewDecapsulationKey1024(priv)
		if err != nil {
			panic(err)
		}
		pub = dk.EncapsulationKey().Bytes()
	case hpkepb.HpkeKem_X_WING:
		priv = kb("hpke/xwing/"+label, 32)
		k, err := hpke.MLKEM768X25519().NewPrivateKey(priv)
		if err != nil {
			panic(err)
		}
		pub = k.PublicKey().Bytes()
	}
	return kd("HpkePrivateKey", mPRIV, &hpkepb.HpkePrivateKey{PrivateKey: priv,
		PublicKey: &hpkepb.HpkePublicKey{Params: &hpkepb.HpkeParams{Kem: kem, Kdf: kdf, Aead: ad}, PublicKey: pub}})
}

func eciesPriv(curve string, hash commonpb.HashType, pf commonpb.EcPointFormat, dem *tinkpb.KeyTemplate, salt []byte, label string) *tinkpb.KeyData {
	params := &eciespb.EciesAeadHkdfParams{
		KemParams:     &eciespb.EciesHkdfKemParams{HkdfHashType: hash, HkdfSalt: salt},
		DemParams:     &eciespb.EciesAeadDemParams{AeadDem: dem},
		EcPointFormat: pf,
	}
	if curve == "X25519" {
		priv := kb("ecies/x25519/"+label, 32)
		k, err := ecdh.X25519().NewPrivateKey(priv)
		if err != nil {
			panic(err)
		}
		params.KemParams.CurveType = commonpb.EllipticCurveType_CURVE25519
		return kd("EciesAeadHkdfPrivateKey", mPRIV, &eciespb.EciesAeadHkdfPrivateKey{KeyValue: priv,
			PublicKey: &eciespb.EciesAeadHkdfPublicKey{Params: params, X: k.PublicKey().Bytes()}})
	}
	d, x, y := ecKey(curve, "ecies/"+label)
	params.KemParams.CurveType = curves[curve].pb
	return kd("EciesAeadHkdfPrivateKey", mPRIV, &eciespb.EciesAeadHkdfPrivateKey{KeyValue: z(d),
		PublicKey: &eciespb.EciesAeadHkdfPublicKey{Params: params, X: z(x), Y: z(y)}})
}

func compositeKDs(inst string, alg comppb.CompositeMlDsaClassicalAlgorithm, label string) (priv, pub *tinkpb.KeyData) {
	ml := mldsaPriv(inst, "comp/"+label)
	var cl *tinkpb.KeyData
	idx := 0
	if label != "" {
		idx = 1
	}
	switch alg {
	case comppb.CompositeMlDsaClassicalAlgorithm_CLASSICAL_ALGORITHM_ED25519:
		cl = ed25519Priv("comp/" + label)
	case comppb.CompositeMlDsaClassicalAlgorithm_CLASSICAL_ALGORITHM_ECDSA_P256:
		cl = ecdsaPriv("P256", commonpb.HashType_SHA256, ecdsapb.EcdsaSignatureEncoding_DER, "comp/"+label)
	case comppb.CompositeMlDsaClassicalAlgorithm_CLASSICAL_ALGORITHM_ECDSA_P384:
		cl = ecdsaPriv("P384", commonpb.HashType_SHA384, ecdsapb.EcdsaSignatureEncoding_DER, "comp/"+label)
	case comppb.CompositeMlDsaClassicalAlgorithm_CLASSICAL_ALGORITHM_ECDSA_P521:
		cl = ecdsaPriv("P521", commonpb.HashType_SHA512, ecdsapb.EcdsaSignatureEncoding_DER, "comp/"+label)
	case comppb.CompositeMlDsaClassicalAlgorithm_CLASSICAL_ALGORITHM_RSA3072_PSS:
		cl = pssPriv(rsaFixed(3072, idx), commonpb.HashType_SHA256, 32)
	case comppb.CompositeMlDsaClassicalAlgorithm_CLASSICAL_ALGORITHM_RSA4096_PSS:
		cl = pssPriv(rsaFixed(4096, idx), commonpb.HashType_SHA384, 48)
	case comppb.CompositeMlDsaClassicalAlgorithm_CLASSICAL_ALGORITHM_RSA3072_PKCS1:
		cl = pkcs1Priv(rsaFixed(3072, idx), commonpb.HashType_SHA256)
	case comppb.CompositeMlDsaClassicalAlgorithm_CLASSICAL_ALGORITHM_RSA4096_PKCS1:
		cl = pkcs1Priv(rsaFixed(4096, idx), commonpb.HashType_SHA384)
	}
	params := &comppb.CompositeMlDsaParams{MlDsaInstance: mldsaInst[inst].pb, ClassicalAlgorithm: alg}
	priv = kd("CompositeMlDsaPrivateKey", mPRIV, &comppb.CompositeMlDsaPrivateKey{MlDsaPrivateKey: ml, ClassicalPrivateKey: cl, Params: params})
	pub = kd("CompositeMlDsaPublicKey", mPUB, &comppb.CompositeMlDsaPublicKey{MlDsaPublicKey: publicOf(ml), ClassicalPublicKey: publicOf(cl), Params: params})
	return
}

// publicOf extracts the public KeyData of a private KeyData whose proto has a `public_key` field.
func publicOf(priv *tinkpb.KeyData) *tinkpb.KeyData {
	m := newMsg(priv.TypeUrl)
	if m == nil {
		panic("publicOf: unknown type " + priv.TypeUrl)
	}
	if err := proto.Unmarshal(priv.Value, m.Interface()); err != nil {
		panic(err)
	}
	fd := m.Descriptor().Fields().ByName("public_key")
	if fd == nil {
		panic("publicOf: no public_key in " + priv.TypeUrl)
	}
	b, err := proto.MarshalOptions{Deterministic: true}.Marshal(m.Get(fd).Message().Interface())
	if err != nil {
		panic(err)
	}
	return &tinkpb.KeyData{TypeUrl: strings.Replace(priv.TypeUrl, "PrivateKey", "PublicKey", 1), Value: b, KeyMaterialType: mPUB}
}

func jwtEcdsaPriv(alg jwtecdsapb.JwtEcdsaAlgorithm, kid string, label string) *tinkpb.KeyData {
	curve := map[jwtecdsapb.JwtEcdsaAlgorithm]string{jwtecdsapb.JwtEcdsaAlgorithm_ES256: "P256", jwtecdsapb.JwtEcdsaAlgorithm_ES384: "P384", jwtecdsapb.JwtEcdsaAlgorithm_ES512: "P521"}[alg]
	d, x, y := ecKey(curve, "jwt/"+label)
	pub := &jwtecdsapb.JwtEcdsaPublicKey{Algorithm: alg, X: x, Y: y}
	if kid != "" {
		pub.CustomKid = &jwtecdsapb.JwtEcdsaPublicKey_CustomKid{Value: kid}
	}
	return kd("JwtEcdsaPrivateKey", mPRIV, &jwtecdsapb.JwtEcdsaPrivateKey{PublicKey: pub, KeyValue: d})
}

func jwtPkcs1Priv(k rsaKey, alg jwtpkcs1pb.JwtRsaSsaPkcs1Algorithm, kid string) *tinkpb.KeyData {
	pub := &jwtpkcs1pb.JwtRsaSsaPkcs1PublicKey{Algorithm: alg, N: k.n, E: k.e}
	if kid != "" {
		pub.CustomKid = &jwtpkcs1pb.JwtRsaSsaPkcs1PublicKey_CustomKid{Value: kid}
	}
	return kd("JwtRsaSsaPkcs1PrivateKey", mPRIV, &jwtpkcs1pb.JwtRsaSsaPkcs1PrivateKey{PublicKey: pub, D: k.d, P: k.p, Q: k.q, Dp: k.dp, Dq: k.dq, Crt: k.crt})
}

func jwtPssPriv(k rsaKey, alg jwtpsspb.JwtRsaSsaPssAlgorithm, kid string) *tinkpb.KeyData {
	pub := &jwtpsspb.JwtRsaSsaPssPublicKey{Algorithm: alg, N: k.n, E: k.e}
	if kid != "" {
		pub.CustomKid = &jwtpsspb.JwtRsaSsaPssPublicKey_CustomKid{Value: kid}
	}
	return kd("JwtRsaSsaPssPrivateKey", mPRIV, &jwtpsspb.JwtRsaSsaPssPrivateKey{PublicKey: pub, D: k.d, P: k.p, Q: k.q, Dp: k.dp, Dq: k.dq, Crt: k.crt})
}

func jwtMldsaPriv(inst, kid, label string) *tinkpb.KeyData {
	s, pubBytes := mldsaKeyBytes(inst, "jwt/"+label)
	pub := &jwtmldsapb.JwtMlDsaPublicKey{Algorithm: mldsaInst[inst].jwt, KeyValue: pubBytes}
	if kid != "" {
		pub.CustomKid = &jwtmldsapb.JwtMlDsaPublicKey_CustomKid{Value: kid}
	}
	return kd("JwtMlDsaPrivateKey", mPRIV, &jwtmldsapb.JwtMlDsaPrivateKey{KeyValue: s, PublicKey: pub})
}

func jwtHmacKD(alg jwthmacpb.JwtHmacAlgorithm, size int, kid, label string) *tinkpb.KeyData {
	k := &jwthmacpb.JwtHmacKey{Algorithm: alg, KeyValue: kb("jwthmac/"+label, size)}
	if kid != "" {
		k.CustomKid = &jwthmacpb.JwtHmacKey_CustomKid{Value: kid}
	}
	return kd("JwtHmacKey", mSYM, k)
}

func hkdfPrfKD(hash commonpb.HashType, size int, salt []byte, label string) *tinkpb.KeyData {
	return kd("HkdfPrfKey", mSYM, &hkdfprfpb.HkdfPrfKey{Params: &hkdfprfpb.HkdfPrfParams{Hash: hash, Salt: salt}, KeyValue: kb("hkdfprf/"+label, size)})
}

func deriverKD(prf *tinkpb.KeyData, tmpl *tinkpb.KeyTemplate) *tinkpb.KeyData {
	return kd("PrfBasedDeriverKey", mSYM, &derpb.PrfBasedDeriverKey{PrfKey: prf, Params: &derpb.PrfBasedDeriverParams{DerivedKeyTemplate: tmpl}})
}

// ---- corpus ---------------------------------------------------------------------------------------------

type gen func(label string) *tinkpb.KeyData

func buildSeeds() []*seed {
	var out []*seed
	id := uint32(0x01020304)
	add := func(name string, quick bool, prefix tinkpb.OutputPrefixType, g gen, withAlt bool) {
		k := g("")
		s := &seed{name: name + "/" + prefix.String(), quick: quick,
			ks: &tinkpb.Keyset{PrimaryKeyId: id, Key: []*tinkpb.Keyset_Key{{KeyData: k, Status: tinkpb.KeyStatusType_ENABLED, KeyId: id, OutputPrefixType: prefix}}}}
		if withAlt {
			s.alt = []*tinkpb.KeyData{g("alt")}
		} else {
			s.alt = []*tinkpb.KeyData{nil}
		}
		out = append(out, s)
		id = id*2654435761 + 12345
		if id == 0 {
			id = 7
		}
	}
	// private key + its public key as two seeds
	pair := func(name string, quick bool, prefix tinkpb.OutputPrefixType, g gen) {
		add(name, quick, prefix, g, true)
		pubName := strings.Replace(name, "PrivateKey", "PublicKey", 1)
		add(pubName, quick, prefix, func(l string) *tinkpb.KeyData { return publicOf(g(l)) }, true)
	}
	sym := func(name string, quick bool, prefix tinkpb.OutputPrefixType, g gen) {
		add(name, quick, prefix, g, false)
	}

	H := commonpb.HashType_SHA256
	// AEAD
	sym("AesGcmKey/16", true, pTINK, func(l string) *tinkpb.KeyData {
		return kd("AesGcmKey", mSYM, &gcmpb.AesGcmKey{KeyValue: kb("gcm16"+l, 16)})
	})
	sym("AesGcmKey/32", true, pRAW, func(l string) *tinkpb.KeyData {
		return kd("AesGcmKey", mSYM, &gcmpb.AesGcmKey{KeyValue: kb("gcm32"+l, 32)})
	})
	sym("AesGcmSivKey/32", true, pTINK, func(l string) *tinkpb.KeyData {
		return kd("AesGcmSivKey", mSYM, &gcmsivpb.AesGcmSivKey{KeyValue: kb("gcmsiv32"+l, 32)})
	})
	sym("AesGcmSivKey/16", true, pCRUNCHY, func(l string) *tinkpb.KeyData {
		return kd("AesGcmSivKey", mSYM, &gcmsivpb.AesGcmSivKey{KeyValue: kb("gcmsiv16"+l, 16)})
	})
	sym("AesCtrHmacAeadKey/16-16-32-SHA256-16", true, pTINK, func(l string) *tinkpb.KeyData { return ctrHmacKD(16, 16, 32, H, 16, l) })
	sym("AesCtrHmacAeadKey/32-12-64-SHA512-32", true, pRAW, func(l string) *tinkpb.KeyData { return ctrHmacKD(32, 12, 64, commonpb.HashType_SHA512, 32, l) })
	sym("ChaCha20Poly1305Key", true, pTINK, func(l string) *tinkpb.KeyData {
		return kd("ChaCha20Poly1305Key", mSYM, &chachapb.ChaCha20Poly1305Key{KeyValue: kb("chacha"+l, 32)})
	})
	sym("XChaCha20Poly1305Key", true, pRAW, func(l string) *tinkpb.KeyData {
		return kd("XChaCha20Poly1305Key", mSYM, &xchachapb.XChaCha20Poly1305Key{KeyValue: kb("xchacha"+l, 32)})
	})
	sym("XAesGcmKey/salt12", true, pTINK, func(l string) *tinkpb.KeyData {
		return kd("XAesGcmKey", mSYM, &xaesgcmpb.XAesGcmKey{Params: &xaesgcmpb.XAesGcmParams{SaltSize: 12}, KeyValue: kb("xaes"+l, 32)})
	})
	sym("XAesGcmKey/salt8", true, pRAW, func(l string) *tinkpb.KeyData {
		return kd("XAesGcmKey", mSYM, &xaesgcmpb.XAesGcmKey{Params: &xaesgcmpb.XAesGcmParams{SaltSize: 8}, KeyValue: kb("xaes8"+l, 32)})
	})
	// DAEAD
	sym("AesSivKey/64", true, pTINK, func(l string) *tinkpb.KeyData {
		return kd("AesSivKey", mSYM, &sivpb.AesSivKey{KeyValue: kb("siv"+l, 64)})
	})
	// MAC
	sym("HmacKey/SHA256-32-16", true, pTINK, func(l string) *tinkpb.KeyData { return hmacKD(H, 32, 16, "a"+l) })
	sym("HmacKey/SHA512-64-64", true, pLEGACY, func(l string) *tinkpb.KeyData { return hmacKD(commonpb.HashType_SHA512, 64, 64, "b"+l) })
	sym("HmacKey/SHA1-16-10", true, pRAW, func(l string) *tinkpb.KeyData { return hmacKD(commonpb.HashType_SHA1, 16, 10, "c"+l) })
	sym("AesCmacKey/32-16", true, pTINK, func(l string) *tinkpb.KeyData {
		return kd("AesCmacKey", mSYM, &cmacpb.AesCmacKey{KeyValue: kb("cmac"+l, 32), Params: &cmacpb.AesCmacParams{TagSize: 16}})
	})
	sym("AesCmacKey/32-10", true, pLEGACY, func(l string) *tinkpb.KeyData {
		return kd("AesCmacKey", mSYM, &cmacpb.AesCmacKey{KeyValue: kb("cmac10"+l, 32), Params: &cmacpb.AesCmacParams{TagSize: 10}})
	})
	// PRF
	sym("HmacPrfKey/SHA256-32", true, pRAW, func(l string) *tinkpb.KeyData {
		return kd("HmacPrfKey", mSYM, &hmacprfpb.HmacPrfKey{Params: &hmacprfpb.HmacPrfParams{Hash: H}, KeyValue: kb("hmacprf"+l, 32)})
	})
	sym("HmacPrfKey/SHA512-64", true, pRAW, func(l string) *tinkpb.KeyData {
		return kd("HmacPrfKey", mSYM, &hmacprfpb.HmacPrfKey{Params: &hmacprfpb.HmacPrfParams{Hash: commonpb.HashType_SHA512}, KeyValue: kb("hmacprf64"+l, 64)})
	})
	sym("HkdfPrfKey/SHA256-32", true, pRAW, func(l string) *tinkpb.KeyData { return hkdfPrfKD(H, 32, nil, "a"+l) })
	sym("HkdfPrfKey/SHA512-64-salt8", true, pRAW, func(l string) *tinkpb.KeyData { return hkdfPrfKD(commonpb.HashType_SHA512, 64, kb("salt", 8), "b"+l) })
	sym("AesCmacPrfKey/32", true, pRAW, func(l string) *tinkpb.KeyData {
		return kd("AesCmacPrfKey", mSYM, &cmacprfpb.AesCmacPrfKey{KeyValue: kb("cmacprf"+l, 32)})
	})
	// streaming AEAD
	sym("AesGcmHkdfStreamingKey/4096-16-SHA256", true, pRAW, func(l string) *tinkpb.KeyData {
		return kd("AesGcmHkdfStreamingKey", mSYM, &gcmhkdfpb.AesGcmHkdfStreamingKey{KeyValue: kb("gcmhkdf"+l, 16),
			Params: &gcmhkdfpb.AesGcmHkdfStreamingParams{CiphertextSegmentSize: 4096, DerivedKeySize: 16, HkdfHashType: H}})
	})
	sym("AesGcmHkdfStreamingKey/64-32-SHA512", true, pRAW, func(l string) *tinkpb.KeyData {
		return kd("AesGcmHkdfStreamingKey", mSYM, &gcmhkdfpb.AesGcmHkdfStreamingKey{KeyValue: kb("gcmhkdf32"+l, 32),
			Params: &gcmhkdfpb.AesGcmHkdfStreamingParams{CiphertextSegmentSize: 64, DerivedKeySize: 32, HkdfHashType: commonpb.HashType_SHA512}})
	})
	sym("AesCtrHmacStreamingKey/4096-16-SHA256-tag32", true, pRAW, func(l string) *tinkpb.KeyData {
		return kd("AesCtrHmacStreamingKey", mSYM, &ctrhmacstreampb.AesCtrHmacStreamingKey{KeyValue: kb("ctrhmacstream"+l, 16),
			Params: &ctrhmacstreampb.AesCtrHmacStreamingParams{CiphertextSegmentSize: 4096, DerivedKeySize: 16, HkdfHashType: H,
				HmacParams: &hmacpb.HmacParams{Hash: H, TagSize: 32}}})
	})
	sym("AesCtrHmacStreamingKey/128-32-SHA512-tag16", true, pRAW, func(l string) *tinkpb.KeyData {
		return kd("AesCtrHmacStreamingKey", mSYM, &ctrhmacstreampb.AesCtrHmacStreamingKey{KeyValue: kb("ctrhmacstream32"+l, 32),
			Params: &ctrhmacstreampb.AesCtrHmacStreamingParams{CiphertextSegmentSize: 128, DerivedKeySize: 32, HkdfHashType: commonpb.HashType_SHA512,
				HmacParams: &hmacpb.HmacParams{Hash: commonpb.HashType_SHA512, TagSize: 16}}})
	})
	// signatures
	pair("Ed25519PrivateKey", true, pTINK, ed25519Priv)
	pair("Ed25519PrivateKey/legacy", true, pLEGACY, ed25519Priv)
	pair("EcdsaPrivateKey/P256-SHA256-DER", true, pTINK, func(l string) *tinkpb.KeyData { return ecdsaPriv("P256", H, ecdsapb.EcdsaSignatureEncoding_DER, l) })
	pair("EcdsaPrivateKey/P384-SHA512-IEEE", true, pRAW, func(l string) *tinkpb.KeyData {
		return ecdsaPriv("P384", commonpb.HashType_SHA512, ecdsapb.EcdsaSignatureEncoding_IEEE_P1363, l)
	})
	pair("EcdsaPrivateKey/P521-SHA512-DER", true, pCRUNCHY, func(l string) *tinkpb.KeyData {
		return ecdsaPriv("P521", commonpb.HashType_SHA512, ecdsapb.EcdsaSignatureEncoding_DER, l)
	})
	rsaG := func(bits int, f func(k rsaKey) *tinkpb.KeyData) gen {
		return func(l string) *tinkpb.KeyData {
			if l == "" {
				return f(rsaFixed(bits, 0))
			}
			return f(rsaFixed(bits, 1))
		}
	}
	pair("RsaSsaPkcs1PrivateKey/2048-SHA256", true, pTINK, rsaG(2048, func(k rsaKey) *tinkpb.KeyData { return pkcs1Priv(k, H) }))
	// primes of different byte lengths (1088 / 960 bits): encoders that size one CRT value by the other prime's
	// length only show here. Kept only if the library accepts such a key at all.
	unbalanced := func(l string) *tinkpb.KeyData {
		k := ref.KSRSAUnbalanced(2048, l == "")
		return pkcs1Priv(rsaKey{n: k.N, e: big.NewInt(65537).Bytes(), d: k.D, p: k.P, q: k.Q, dp: k.DP, dq: k.DQ, crt: k.QInv}, H)
	}
	if _, err := testkeyset.NewHandle(&tinkpb.Keyset{PrimaryKeyId: id, Key: []*tinkpb.Keyset_Key{{KeyData: unbalanced(""), Status: tinkpb.KeyStatusType_ENABLED, KeyId: id, OutputPrefixType: pRAW}}}); err == nil {
		if _, err := testkeyset.NewHandle(&tinkpb.Keyset{PrimaryKeyId: id, Key: []*tinkpb.Keyset_Key{{KeyData: unbalanced("alt"), Status: tinkpb.KeyStatusType_ENABLED, KeyId: id, OutputPrefixType: pRAW}}}); err == nil {
			add("RsaSsaPkcs1PrivateKey/2048-SHA256-unbalanced-primes", true, pRAW, unbalanced, true)
		}
	}
	pair("RsaSsaPkcs1PrivateKey/3072-SHA512", false, pRAW, rsaG(3072, func(k rsaKey) *tinkpb.KeyData { return pkcs1Priv(k, commonpb.HashType_SHA512) }))
	pair("RsaSsaPssPrivateKey/2048-SHA256-32", true, pTINK, rsaG(2048, func(k rsaKey) *tinkpb.KeyData { return pssPriv(k, H, 32) }))
	pair("RsaSsaPssPrivateKey/4096-SHA384-48", false, pCRUNCHY, rsaG(4096, func(k rsaKey) *tinkpb.KeyData { return pssPriv(k, commonpb.HashType_SHA384, 48) }))
	pair("MlDsaPrivateKey/65", true, pTINK, func(l string) *tinkpb.KeyData { return mldsaPriv("65", l) })
	pair("MlDsaPrivateKey/87", false, pRAW, func(l string) *tinkpb.KeyData { return mldsaPriv("87", l) })
	pair("MlDsaPrivateKey/44", false, pTINK, func(l string) *tinkpb.KeyData { return mldsaPriv("44", l) })
	pair("SlhDsaPrivateKey/SHA2-128f", true, pTINK, func(l string) *tinkpb.KeyData { return slhdsaPriv("SHA2-128f", l) })
	pair("SlhDsaPrivateKey/SHAKE-128f", true, pRAW, func(l string) *tinkpb.KeyData { return slhdsaPriv("SHAKE-128f", l) })
	pair("SlhDsaPrivateKey/SHA2-192f", false, pTINK, func(l string) *tinkpb.KeyData { return slhdsaPriv("SHA2-192f", l) })
	pair("SlhDsaPrivateKey/SHAKE-256f", false, pRAW, func(l string) *tinkpb.KeyData { return slhdsaPriv("SHAKE-256f", l) })
	comp := func(name string, quick bool, prefix tinkpb.OutputPrefixType, inst string, alg comppb.CompositeMlDsaClassicalAlgorithm) {
		add("CompositeMlDsaPrivateKey/"+name, quick, prefix, func(l string) *tinkpb.KeyData { p, _ := compositeKDs(inst, alg, l); return p }, true)
		add("CompositeMlDsaPublicKey/"+name, quick, prefix, func(l string) *tinkpb.KeyData { _, p := compositeKDs(inst, alg, l); return p }, true)
	}
	comp("65-Ed25519", true, pTINK, "65", comppb.CompositeMlDsaClassicalAlgorithm_CLASSICAL_ALGORITHM_ED25519)
	comp("65-P256", true, pRAW, "65", comppb.CompositeMlDsaClassicalAlgorithm_CLASSICAL_ALGORITHM_ECDSA_P256)
	comp("87-P384", false, pTINK, "87", comppb.CompositeMlDsaClassicalAlgorithm_CLASSICAL_ALGORITHM_ECDSA_P384)
	comp("87-P521", false, pRAW, "87", comppb.CompositeMlDsaClassicalAlgorithm_CLASSICAL_ALGORITHM_ECDSA_P521)
	comp("65-RSA3072PSS", false, pTINK, "65", comppb.CompositeMlDsaClassicalAlgorithm_CLASSICAL_ALGORITHM_RSA3072_PSS)
	comp("87-RSA4096PSS", false, pRAW, "87", comppb.CompositeMlDsaClassicalAlgorithm_CLASSICAL_ALGORITHM_RSA4096_PSS)
	comp("65-RSA3072PKCS1", false, pRAW, "65", comppb.CompositeMlDsaClassicalAlgorithm_CLASSICAL_ALGORITHM_RSA3072_PKCS1)
	comp("65-RSA4096PKCS1", false, pTINK, "65", comppb.CompositeMlDsaClassicalAlgorithm_CLASSICAL_ALGORITHM_RSA4096_PKCS1)
	// hybrid
	pair("HpkePrivateKey/X25519-SHA256-AES128GCM", true, pTINK, func(l string) *tinkpb.KeyData {
		return hpkePriv(hpkepb.HpkeKem_DHKEM_X25519_HKDF_SHA256, hpkepb.HpkeKdf_HKDF_SHA256, hpkepb.HpkeAead_AES_128_GCM, l)
	})
	pair("HpkePrivateKey/P256-SHA256-AES256GCM", true, pRAW, func(l string) *tinkpb.KeyData {
		return hpkePriv(hpkepb.HpkeKem_DHKEM_P256_HKDF_SHA256, hpkepb.HpkeKdf_HKDF_SHA256, hpkepb.HpkeAead_AES_256_GCM, l)
	})
	pair("HpkePrivateKey/P384-SHA384-CHACHA", true, pCRUNCHY, func(l string) *tinkpb.KeyData {
		return hpkePriv(hpkepb.HpkeKem_DHKEM_P384_HKDF_SHA384, hpkepb.HpkeKdf_HKDF_SHA384, hpkepb.HpkeAead_CHACHA20_POLY1305, l)
	})
	pair("HpkePrivateKey/P521-SHA512-AES256GCM", true, pTINK, func(l string) *tinkpb.KeyData {
		return hpkePriv(hpkepb.HpkeKem_DHKEM_P521_HKDF_SHA512, hpkepb.HpkeKdf_HKDF_SHA512, hpkepb.HpkeAead_AES_256_GCM, l)
	})
	pair("HpkePrivateKey/XWING-SHA256-AES256GCM", true, pTINK, func(l string) *tinkpb.KeyData {
		return hpkePriv(hpkepb.HpkeKem_X_WING, hpkepb.HpkeKdf_HKDF_SHA256, hpkepb.HpkeAead_AES_256_GCM, l)
	})
	pair("HpkePrivateKey/MLKEM768-SHA256-AES128GCM", true, pRAW, func(l string) *tinkpb.KeyData {
		return hpkePriv(hpkepb.HpkeKem_ML_KEM768, hpkepb.HpkeKdf_HKDF_SHA256, hpkepb.HpkeAead_AES_128_GCM, l)
	})
	pair("HpkePrivateKey/MLKEM1024-SHA384-AES256GCM", false, pTINK, func(l string) *tinkpb.KeyData {
		return hpkePriv(hpkepb.HpkeKem_ML_KEM1024, hpkepb.HpkeKdf_HKDF_SHA384, hpkepb.HpkeAead_AES_256_GCM, l)
	})
	pair("EciesAeadHkdfPrivateKey/P256-SHA256-UNCOMPRESSED-AES128GCM", true, pTINK, func(l string) *tinkpb.KeyData {
		return eciesPriv("P256", H, commonpb.EcPointFormat_UNCOMPRESSED, aead.AES128GCMKeyTemplate(), nil, l)
	})
	pair("EciesAeadHkdfPrivateKey/P384-SHA384-COMPRESSED-AES128CTRHMAC", true, pRAW, func(l string) *tinkpb.KeyData {
		return eciesPriv("P384", commonpb.HashType_SHA384, commonpb.EcPointFormat_COMPRESSED, aead.AES128CTRHMACSHA256KeyTemplate(), kb("eciessalt", 8), l)
	})
	pair("EciesAeadHkdfPrivateKey/P521-SHA512-LEGACYUNCOMPRESSED-AES256GCM", true, pCRUNCHY, func(l string) *tinkpb.KeyData {
		return eciesPriv("P521", commonpb.HashType_SHA512, commonpb.EcPointFormat_DO_NOT_USE_CRUNCHY_UNCOMPRESSED, aead.AES256GCMKeyTemplate(), nil, l)
	})
	// (tink parses ECIES keys on CURVE25519 but has no primitive for them: not a seed)
	pair("EciesAeadHkdfPrivateKey/P256-SHA256-COMPRESSED-AESSIV", true, pTINK, func(l string) *tinkpb.KeyData {
		return eciesPriv("P256", H, commonpb.EcPointFormat_COMPRESSED, daead.AESSIVKeyTemplate(), nil, l)
	})
	// JWT
	sym("JwtHmacKey/HS256-32", true, pRAW, func(l string) *tinkpb.KeyData { return jwtHmacKD(jwthmacpb.JwtHmacAlgorithm_HS256, 32, "", "a"+l) })
	sym("JwtHmacKey/HS384-48", true, pTINK, func(l string) *tinkpb.KeyData { return jwtHmacKD(jwthmacpb.JwtHmacAlgorithm_HS384, 48, "", "b"+l) })
	sym("JwtHmacKey/HS512-64-kid", true, pRAW, func(l string) *tinkpb.KeyData {
		return jwtHmacKD(jwthmacpb.JwtHmacAlgorithm_HS512, 64, "my-kid", "c"+l)
	})
	pair("JwtEcdsaPrivateKey/ES256", true, pTINK, func(l string) *tinkpb.KeyData { return jwtEcdsaPriv(jwtecdsapb.JwtEcdsaAlgorithm_ES256, "", l) })
	pair("JwtEcdsaPrivateKey/ES384-kid", true, pRAW, func(l string) *tinkpb.KeyData { return jwtEcdsaPriv(jwtecdsapb.JwtEcdsaAlgorithm_ES384, "kid-384", l) })
	pair("JwtEcdsaPrivateKey/ES512", true, pRAW, func(l string) *tinkpb.KeyData { return jwtEcdsaPriv(jwtecdsapb.JwtEcdsaAlgorithm_ES512, "", l) })
	pair("JwtRsaSsaPkcs1PrivateKey/RS256-2048", true, pTINK, rsaG(2048, func(k rsaKey) *tinkpb.KeyData { return jwtPkcs1Priv(k, jwtpkcs1pb.JwtRsaSsaPkcs1Algorithm_RS256, "") }))
	pair("JwtRsaSsaPkcs1PrivateKey/RS512-3072-kid", false, pRAW, rsaG(3072, func(k rsaKey) *tinkpb.KeyData {
		return jwtPkcs1Priv(k, jwtpkcs1pb.JwtRsaSsaPkcs1Algorithm_RS512, "rs-kid")
	}))
	pair("JwtRsaSsaPssPrivateKey/PS256-2048", true, pRAW, rsaG(2048, func(k rsaKey) *tinkpb.KeyData { return jwtPssPriv(k, jwtpsspb.JwtRsaSsaPssAlgorithm_PS256, "") }))
	pair("JwtRsaSsaPssPrivateKey/PS384-3072", false, pTINK, rsaG(3072, func(k rsaKey) *tinkpb.KeyData { return jwtPssPriv(k, jwtpsspb.JwtRsaSsaPssAlgorithm_PS384, "") }))
	pair("JwtMlDsaPrivateKey/65", true, pTINK, func(l string) *tinkpb.KeyData { return jwtMldsaPriv("65", "", l) })
	pair("JwtMlDsaPrivateKey/44-kid", false, pRAW, func(l string) *tinkpb.KeyData { return jwtMldsaPriv("44", "ml-kid", l) })
	pair("JwtMlDsaPrivateKey/87", false, pRAW, func(l string) *tinkpb.KeyData { return jwtMldsaPriv("87", "", l) })
	// key derivation
	sym("PrfBasedDeriverKey/HKDFSHA256-AES128GCM", true, pTINK, func(l string) *tinkpb.KeyData {
		return deriverKD(hkdfPrfKD(H, 32, nil, "der"+l), aead.AES128GCMKeyTemplate())
	})
	sym("PrfBasedDeriverKey/HKDFSHA512-HMACSHA256", true, pTINK, func(l string) *tinkpb.KeyData {
		return deriverKD(hkdfPrfKD(commonpb.HashType_SHA512, 64, kb("dsalt", 4), "der2"+l), mac.HMACSHA256Tag128KeyTemplate())
	})
	sym("PrfBasedDeriverKey/HKDFSHA256-AES256GCMRAW", true, pRAW, func(l string) *tinkpb.KeyData {
		return deriverKD(hkdfPrfKD(H, 32, nil, "der3"+l), aead.AES256GCMNoPrefixKeyTemplate())
	})

	// ---- multi-key keysets
	K := func(k *tinkpb.KeyData, st tinkpb.KeyStatusType, id uint32, p tinkpb.OutputPrefixType) *tinkpb.Keyset_Key {
		return &tinkpb.Keyset_Key{KeyData: k, Status: st, KeyId: id, OutputPrefixType: p}
	}
	EN, DIS, DES := tinkpb.KeyStatusType_ENABLED, tinkpb.KeyStatusType_DISABLED, tinkpb.KeyStatusType_DESTROYED
	m1 := &seed{name: "multi/aead", quick: true, multi: true, ks: &tinkpb.Keyset{PrimaryKeyId: 1, Key: []*tinkpb.Keyset_Key{
		K(kd("AesGcmKey", mSYM, &gcmpb.AesGcmKey{KeyValue: kb("m1/gcm", 16)}), EN, 1, pTINK),
		K(kd("XChaCha20Poly1305Key", mSYM, &xchachapb.XChaCha20Poly1305Key{KeyValue: kb("m1/xchacha", 32)}), EN, 2, pRAW),
		K(ctrHmacKD(16, 16, 32, H, 16, "m1"), DIS, 3, pCRUNCHY),
		K(kd("AesGcmSivKey", mSYM, &gcmsivpb.AesGcmSivKey{KeyValue: kb("m1/gcmsiv", 32)}), DES, 4, pTINK),
	}}, alt: []*tinkpb.KeyData{nil, nil, nil, nil}}
	m2 := &seed{name: "multi/signature", quick: true, multi: true, ks: &tinkpb.Keyset{PrimaryKeyId: 0x7fffffff, Key: []*tinkpb.Keyset_Key{
		K(ed25519Priv("m2"), EN, 5, pTINK),
		K(ecdsaPriv("P256", H, ecdsapb.EcdsaSignatureEncoding_DER, "m2"), EN, 0x7fffffff, pRAW),
		K(pssPriv(rsaFixed(2048, 1), H, 32), DIS, 0x80000000, pCRUNCHY),
	}}, alt: []*tinkpb.KeyData{ed25519Priv("m2alt"), ecdsaPriv("P256", H, ecdsapb.EcdsaSignatureEncoding_DER, "m2alt"), pssPriv(rsaFixed(2048, 0), H, 32)}}
	m3 := &seed{name: "multi/mac", quick: true, multi: true, ks: &tinkpb.Keyset{PrimaryKeyId: 0, Key: []*tinkpb.Keyset_Key{
		K(hmacKD(commonpb.HashType_SHA512, 64, 32, "m3a"), DIS, 0xffffffff, pLEGACY),
		K(hmacKD(H, 32, 16, "m3b"), EN, 0, pTINK),
		K(kd("AesCmacKey", mSYM, &cmacpb.AesCmacKey{KeyValue: kb("m3/cmac", 32), Params: &cmacpb.AesCmacParams{TagSize: 16}}), EN, 0x80000000, pRAW),
	}}, alt: []*tinkpb.KeyData{nil, nil, nil}}
	out = append(out, m1, m2, m3)
	return out
}
