// C14: untrusted keyset input is rejected or yields a well-formed handle, never a panic; created primitives are
// self-consistent; keys below the minimum strengths never yield a usable primitive.
//
// Engine E1, deviation-bounded: seed corpus (one valid keyset per key type URL / parameter variant + three
// multi-key keysets) x structural mutation catalogue (bound 1 exhaustively, bound 2 over the reduced catalogue
// in the thorough tier), plus exhaustive arbitrary input (all short byte strings, all short JSON texts over a
// 9-letter alphabet, every one-byte edit of minimal keysets, grammar-shaped JSON edits, EncryptedKeyset
// garbage under a real KEK).
//
// Reference (verif/ref/keysetwf.go, wire-level, no tink code): KeysetWellFormed (the structural rule of the
// statement), ParseKeysetWire (independent Keyset decoder), WeakKeyReason (the minimum-strength list).
//
// Observations on the unchanged tree that are NOT judged (no panic, handle well-formed), see the report:
//   - RsaSsaPss salt_length up to 2^31-1 is accepted by the parser, whose self-check then signs with a 2 GiB
//     salt (allocation + getrandom) - seconds of CPU per parse;
//   - a PrfBasedDeriverKey whose derived HMAC / PRF template says key_size = 2^32-1 is accepted and
//     DeriveKeyset allocates 4 GiB before failing ("insufficient pseudorandomness"); mutants that set a size
//     field >= 2^28 therefore run one at a time (hugeMu) to keep the harness inside its memory;
//   - ECIES keys on CURVE25519 parse but no primitive exists for them.
//
// Don't-care cells (not judged, only counted in the outcome classes):
//   - whether a structurally WELL-formed keyset with a strange key is accepted or rejected (wrong material
//     type, unknown type URL -> fallback key, odd but harmless encodings): the statement allows both;
//   - KeyData.key_material_type values (subject of C13);
//   - agreement of accept/reject between the entry paths (binary / JSON / encrypted / in-memory);
//   - the error texts; SLH-DSA private keys failing self-verification (exempt in the statement);
//   - what a public-key primitive answers for junk signatures / tokens (only "no panic" is required).
package main

import (
	"bytes"
	"crypto/aes"
	"crypto/cipher"
	"encoding/binary"
	"fmt"
	"os"
	"runtime/debug"
	"strings"
	"sync"

	"google.golang.org/protobuf/encoding/protojson"
	"google.golang.org/protobuf/proto"

	aeadsubtle "github.com/tink-crypto/tink-go/v2/aead/subtle"
	"github.com/tink-crypto/tink-go/v2/insecurecleartextkeyset"
	"github.com/tink-crypto/tink-go/v2/keyset"
	slhdsapb "github.com/tink-crypto/tink-go/v2/proto/slh_dsa_go_proto"
	tinkpb "github.com/tink-crypto/tink-go/v2/proto/tink_go_proto"
	_ "github.com/tink-crypto/tink-go/v2/signature/compositemldsa" // not linked in by package signature
	"github.com/tink-crypto/tink-go/v2/tink"
	"verif/h"
	"verif/ref"
)

// ---- key-encryption key (real AES-256-GCM KEK; the harness encrypts with the stdlib and a counter nonce) ---

var (
	kekKey  = ref.KeyBytes("c14/kek", 32)
	kek     tink.AEAD
	kekGCM  cipher.AEAD
	kekCtr  uint64
	kekCtrM sync.Mutex
)

func init() {
	k, err := aeadsubtle.NewAESGCM(kekKey)
	if err != nil {
		panic(err)
	}
	kek = k
	blk, _ := aes.NewCipher(kekKey)
	kekGCM, _ = cipher.NewGCM(blk)
}

// kekSeal = nonce(12) || AES-GCM(plaintext, aad) as tink's RAW AES-GCM expects.
func kekSeal(plain, aad []byte) []byte {
	kekCtrM.Lock()
	kekCtr++
	c := kekCtr
	kekCtrM.Unlock()
	nonce := make([]byte, 12)
	binary.BigEndian.PutUint64(nonce[4:], c)
	return kekGCM.Seal(nonce, nonce, plain, aad)
}

// ---- reference view of a proto keyset -----------------------------------------------------------------------

func viewOf(ks *tinkpb.Keyset) *ref.KSView {
	v := &ref.KSView{Primary: ks.GetPrimaryKeyId()}
	for _, k := range ks.GetKey() {
		e := ref.KSKey{ID: k.GetKeyId(), Status: int32(k.GetStatus()), Prefix: int32(k.GetOutputPrefixType())}
		if k.GetKeyData() != nil {
			e.HasKeyData = true
			e.TypeURL = k.GetKeyData().GetTypeUrl()
			e.Value = k.GetKeyData().GetValue()
			e.Material = int32(k.GetKeyData().GetKeyMaterialType())
		}
		v.Keys = append(v.Keys, e)
	}
	return v
}

func viewsEqual(a, b *ref.KSView) bool {
	if a.Primary != b.Primary || len(a.Keys) != len(b.Keys) {
		return false
	}
	for i := range a.Keys {
		x, y := a.Keys[i], b.Keys[i]
		if x.ID != y.ID || x.Status != y.Status || x.Prefix != y.Prefix || x.HasKeyData != y.HasKeyData || x.TypeURL != y.TypeURL ||
			!bytes.Equal(x.Value, y.Value) || x.Material != y.Material {
			return false
		}
	}
	return true
}

// weakOf: reason of the first ENABLED key that is below the statement's minimum strengths.
func weakOf(v *ref.KSView) (string, string) {
	for _, k := range v.Keys {
		if k.Status == 1 && k.HasKeyData {
			if r := ref.WeakKeyReason(k.TypeURL, k.Value); r != "" {
				return r, shortType(k.TypeURL)
			}
		}
	}
	return "", ""
}

func weakCategory(reason string) string {
	for _, c := range []string{"aes-siv-key", "aes-key", "hmac-key", "hmac-tag", "hkdf-prf-key", "rsa-modulus", "rsa-exponent", "ecdsa"} {
		if strings.HasPrefix(reason, c) {
			return c
		}
	}
	return reason
}

// ---- handle invariants -----------------------------------------------------------------------------------------

func checkHandle(x *h.X, hd *keyset.Handle, path, what string) {
	if hd == nil {
		x.Fail("nil-handle", "%s via %s: nil handle returned without an error", what, path)
		return
	}
	var info *tinkpb.KeysetInfo
	if p, msg := h.Try(func() { info = hd.KeysetInfo() }); p {
		x.Fail("panic-keysetinfo", "%s via %s: handle.KeysetInfo() panicked: %s", what, path, msg)
		return
	}
	n := hd.Len()
	if n < 1 || len(info.GetKeyInfo()) != n {
		x.Fail("handle-empty", "%s via %s: handle has %d keys (info %d)", what, path, n, len(info.GetKeyInfo()))
		return
	}
	seen := map[uint32]bool{}
	primaries, infoPrimaries := 0, 0
	for i := 0; i < n; i++ {
		e, err := hd.Entry(i)
		if err != nil {
			x.Fail("handle-entry", "%s via %s: Entry(%d): %v", what, path, i, err)
			return
		}
		ki := info.GetKeyInfo()[i]
		if seen[e.KeyID()] {
			x.Fail("handle-duplicate-id", "%s via %s: handle has key id %d twice", what, path, e.KeyID())
		}
		seen[e.KeyID()] = true
		if ki.GetKeyId() != e.KeyID() {
			x.Fail("handle-info-mismatch", "%s via %s: entry %d id %d but KeysetInfo id %d", what, path, i, e.KeyID(), ki.GetKeyId())
		}
		if st := e.KeyStatus(); st != keyset.Enabled && st != keyset.Disabled && st != keyset.Destroyed {
			x.Fail("handle-unknown-status", "%s via %s: entry %d has status %v", what, path, i, st)
		}
		if !ref.KnownStatus(int32(ki.GetStatus())) {
			x.Fail("handle-unknown-status", "%s via %s: KeysetInfo entry %d has status %v", what, path, i, ki.GetStatus())
		}
		if !ref.KnownPrefix(int32(ki.GetOutputPrefixType())) {
			x.Fail("handle-unknown-prefix", "%s via %s: KeysetInfo entry %d has prefix type %v", what, path, i, ki.GetOutputPrefixType())
		}
		if e.IsPrimary() {
			primaries++
			if e.KeyStatus() != keyset.Enabled {
				x.Fail("handle-primary-not-enabled", "%s via %s: primary entry %d (id %d) has status %v", what, path, i, e.KeyID(), e.KeyStatus())
			}
			if info.GetPrimaryKeyId() != e.KeyID() {
				x.Fail("handle-info-mismatch", "%s via %s: primary entry id %d but KeysetInfo primary %d", what, path, e.KeyID(), info.GetPrimaryKeyId())
			}
		}
		if ki.GetKeyId() == info.GetPrimaryKeyId() {
			infoPrimaries++
			if ki.GetStatus() != tinkpb.KeyStatusType_ENABLED {
				x.Fail("handle-primary-not-enabled", "%s via %s: KeysetInfo primary %d has status %v", what, path, ki.GetKeyId(), ki.GetStatus())
			}
		}
	}
	if primaries != 1 || infoPrimaries != 1 {
		x.Fail("handle-primary-count", "%s via %s: %d primary entries, %d KeysetInfo entries with the primary id", what, path, primaries, infoPrimaries)
	}
	if p, err := hd.Primary(); err != nil || p == nil || !p.IsPrimary() {
		x.Fail("handle-primary-count", "%s via %s: handle.Primary(): %v", what, path, err)
	}
}

// ---- entry paths -----------------------------------------------------------------------------------------------

type entryPath struct {
	name string
	open func(ks *tinkpb.Keyset, bin []byte) (*keyset.Handle, error, bool) // bool: path applicable
}

var entryPaths = []entryPath{
	{"binary/insecurecleartextkeyset.Read", func(ks *tinkpb.Keyset, bin []byte) (*keyset.Handle, error, bool) {
		hd, err := insecurecleartextkeyset.Read(keyset.NewBinaryReader(bytes.NewReader(bin)))
		return hd, err, true
	}},
	{"binary/keyset.ReadWithNoSecrets", func(ks *tinkpb.Keyset, bin []byte) (*keyset.Handle, error, bool) {
		hd, err := keyset.ReadWithNoSecrets(keyset.NewBinaryReader(bytes.NewReader(bin)))
		return hd, err, true
	}},
	{"json/insecurecleartextkeyset.Read", func(ks *tinkpb.Keyset, bin []byte) (*keyset.Handle, error, bool) {
		js, err := protojson.Marshal(ks)
		if err != nil {
			return nil, nil, false
		}
		hd, err := insecurecleartextkeyset.Read(keyset.NewJSONReader(bytes.NewReader(js)))
		return hd, err, true
	}},
	{"encrypted-binary/keyset.Read", func(ks *tinkpb.Keyset, bin []byte) (*keyset.Handle, error, bool) {
		enc, err := proto.Marshal(&tinkpb.EncryptedKeyset{EncryptedKeyset: kekSeal(bin, nil)})
		if err != nil {
			return nil, nil, false
		}
		hd, err := keyset.Read(keyset.NewBinaryReader(bytes.NewReader(enc)), kek)
		return hd, err, true
	}},
	{"message/insecurecleartextkeyset.Read(MemReaderWriter)", func(ks *tinkpb.Keyset, bin []byte) (*keyset.Handle, error, bool) {
		hd, err := insecurecleartextkeyset.Read(&keyset.MemReaderWriter{Keyset: cloneKeepNil(ks)})
		return hd, err, true
	}},
	{"message/keyset.NewHandleWithNoSecrets", func(ks *tinkpb.Keyset, bin []byte) (*keyset.Handle, error, bool) {
		hd, err := keyset.NewHandleWithNoSecrets(cloneKeepNil(ks))
		return hd, err, true
	}},
}

// judge runs one (possibly mutated) proto keyset through every entry path and the primitive layer.
// seedType is used for the outcome classes; pristine: the unmutated seed (must be accepted and work).
// allPaths: submit through all six entry paths (keyset-level mutants, the pristine seed and every 8th key-level
// mutant); otherwise only the two binary paths: a key-level mutation does not interact with the container format.
// rereadPaths: HISTORY on the message routes. The caller's *tinkpb.Keyset object is first read while it holds the
// valid seed (accepted), is then edited IN PLACE into the mutant, and is read again: the second verdict must be the
// verdict of reading the mutant afresh (whatever a reader remembers about a message object must not outlive an edit).
var rereadPaths = []struct {
	name, fresh string
	open        func(seed, ks *tinkpb.Keyset) (*keyset.Handle, error, bool)
}{
	{"message-reread/insecurecleartextkeyset.Read(same message: seed, then edited in place)", "message/insecurecleartextkeyset.Read(MemReaderWriter)", func(seed, ks *tinkpb.Keyset) (*keyset.Handle, error, bool) {
		m := proto.Clone(seed).(*tinkpb.Keyset)
		rw := &keyset.MemReaderWriter{Keyset: m}
		if _, err := insecurecleartextkeyset.Read(rw); err != nil {
			return nil, nil, false
		}
		proto.Reset(m)
		proto.Merge(m, ks)
		keepNil(m, ks)
		hd, err := insecurecleartextkeyset.Read(rw)
		return hd, err, true
	}},
	{"message-reread/keyset.NewHandleWithNoSecrets(same message: seed, then edited in place)", "message/keyset.NewHandleWithNoSecrets", func(seed, ks *tinkpb.Keyset) (*keyset.Handle, error, bool) {
		m := proto.Clone(seed).(*tinkpb.Keyset)
		if _, err := keyset.NewHandleWithNoSecrets(m); err != nil {
			return nil, nil, false
		}
		proto.Reset(m)
		proto.Merge(m, ks)
		keepNil(m, ks)
		hd, err := keyset.NewHandleWithNoSecrets(m)
		return hd, err, true
	}},
}

// cloneKeepNil copies a keyset message for one submission. proto.Clone / proto.Merge turn a nil element of the
// repeated key field into an empty message, so that a nil entry - which a hand-built message or a custom
// keyset.Reader can perfectly well hold - would never reach the code under test; the nils are put back.
func cloneKeepNil(ks *tinkpb.Keyset) *tinkpb.Keyset {
	c := proto.Clone(ks).(*tinkpb.Keyset)
	keepNil(c, ks)
	return c
}

func keepNil(dst, src *tinkpb.Keyset) {
	for i, k := range src.GetKey() {
		if k == nil && i < len(dst.Key) {
			dst.Key[i] = nil
		}
	}
}

// slhPublicCopiesAgree: the primary SLH-DSA private key carries its public key twice (the tail of the secret key
// bytes and the embedded public key message); true if both copies are equal.
func slhPublicCopiesAgree(ks *tinkpb.Keyset) bool {
	for _, k := range ks.Key {
		if k == nil || k.KeyId != ks.PrimaryKeyId || k.KeyData == nil {
			continue
		}
		var pk slhdsapb.SlhDsaPrivateKey
		if err := proto.Unmarshal(k.KeyData.Value, &pk); err != nil {
			return true
		}
		sk, pub := pk.GetKeyValue(), pk.GetPublicKey().GetKeyValue()
		return len(sk) == 2*len(pub) && bytes.Equal(sk[len(pub):], pub)
	}
	return true
}

func judge(x *h.X, ks *tinkpb.Keyset, seedType, what string, pristine bool, allPaths bool, seed ...*tinkpb.Keyset) {
	view := viewOf(ks)
	wf := ref.KeysetWellFormed(view)
	weak, weakType := weakOf(view)
	bin, err := proto.Marshal(ks)
	if err != nil {
		x.Outcome(seedType + "|unmarshalable-mutant")
		return
	}
	hasNil := false
	for _, k := range ks.Key {
		if k == nil {
			hasNil = true
		}
	}
	if !hasNil {
		// self-check of the reference wire decoder against the keyset that was serialized
		v2, malformed, und := ref.ParseKeysetWire(bin)
		if !und && (malformed || !viewsEqual(view, v2)) {
			x.Fail("harness-ref-selfcheck", "%s: reference wire decoder disagrees with the serialized keyset (malformed=%v)", what, malformed)
		}
	}
	x.NonTrivial()
	var first *keyset.Handle
	accepted := 0
	verdict := map[string]bool{}
	paths := entryPaths
	if !allPaths {
		paths = entryPaths[:2]
	}
	for _, ep := range paths {
		var hd *keyset.Handle
		var perr error
		applicable := true
		if p, msg := h.Try(func() { hd, perr, applicable = ep.open(ks, bin) }); p {
			x.Fail("panic-parse", "%s via %s: PANIC while reading the keyset: %s", what, ep.name, msg)
			continue
		}
		x.Eval(1)
		if !applicable || perr != nil {
			x.Logf("%s: %v", ep.name, perr)
			continue
		}
		accepted++
		verdict[ep.name] = true
		if wf != "" {
			x.Fail("illformed-accepted/"+wf, "%s via %s: keyset breaking rule %q was accepted", what, ep.name, wf)
		}
		checkHandle(x, hd, ep.name, what)
		if first == nil {
			first = hd
		}
	}
	if allPaths && !pristine && !hasNil && len(seed) > 0 && seed[0] != nil {
		for _, rp := range rereadPaths {
			var hd *keyset.Handle
			var perr error
			applicable := true
			if p, msg := h.Try(func() { hd, perr, applicable = rp.open(seed[0], ks) }); p {
				x.Fail("panic-parse", "%s via %s: PANIC while reading the keyset: %s", what, rp.name, msg)
				continue
			}
			x.Eval(1)
			if !applicable {
				continue
			}
			if (perr == nil) != verdict[rp.fresh] {
				x.Fail("reread-verdict-differs", "%s via %s: accepted=%v, but the same keyset read from a fresh message object: accepted=%v", what, rp.name, perr == nil, verdict[rp.fresh])
			}
			if perr == nil {
				if wf != "" {
					x.Fail("illformed-accepted/"+wf, "%s via %s: keyset breaking rule %q was accepted", what, rp.name, wf)
				}
				checkHandle(x, hd, rp.name, what)
			}
			x.Outcome("reread/" + map[bool]string{true: "accepted", false: "rejected"}[perr == nil])
		}
	}
	if weak != "" {
		x.Outcome(seedType + "|weak-parameter-mutants(" + weakCategory(weak) + ")")
	}
	if first == nil {
		if pristine {
			x.Fail("seed-rejected", "%s: the unmutated seed keyset is rejected by every entry path", what)
		}
		x.Outcome(seedType + "|rejected")
		return
	}
	// primitive layer: class of the primary key's type URL
	ptype := ""
	for _, k := range view.Keys {
		if k.ID == view.Primary && k.Status == 1 {
			ptype = shortType(k.TypeURL)
		}
	}
	classes := allClasses
	if c, ok := classOfType[ptype]; ok {
		classes = []string{c}
	}
	anyCreated, anyUsed := false, false
	for _, c := range classes {
		r, panicked, msg := tryUse(c, first)
		x.Eval(1)
		if panicked {
			x.Fail("panic-primitive/"+c, "%s: PANIC while creating/using the %s primitive of an accepted handle: %s", what, c, msg)
			continue
		}
		anyCreated = anyCreated || r.created
		anyUsed = anyUsed || r.used
		if r.created && r.used && !r.consistent {
			if r.noPublic {
				x.Outcome(seedType + "|accepted,public-half-unavailable(not-judged)")
			} else if ptype == "SlhDsaPrivateKey" && slhPublicCopiesAgree(ks) {
				// SK.seed / SK.prf / PK.seed changed consistently in both copies: PK.root can only be checked by
				// rebuilding the whole tree, which the parser does not do (exempt). If the two copies of the
				// public key inside the private key DIFFER, the key contradicts itself and must have been refused.
				x.Outcome(seedType + "|accepted,slh-dsa-private-not-self-consistent(exempt)")
			} else {
				x.Fail("inconsistent/"+ptype, "%s: accepted %s handle yields a %s primitive that is not self-consistent: %s", what, ptype, c, r.detail)
			}
		}
		if weak != "" && r.created && r.used {
			x.Fail("weak-usable/"+weakType+"/"+weakCategory(weak), "%s: key below the minimum strength (%s) yields a usable %s primitive", what, weak, c)
		}
		if pristine && !(r.created && r.used && r.consistent) {
			x.Fail("seed-unusable", "%s: the unmutated seed does not give a working %s primitive: %s", what, c, r.detail)
		}
	}
	switch {
	case anyUsed:
		x.Outcome(seedType + "|accepted,primitive-usable")
	case anyCreated:
		x.Outcome(seedType + "|accepted,primitive-created-but-use-fails")
	default:
		x.Outcome(seedType + "|accepted,no-primitive")
	}
	if weak != "" && !anyUsed {
		x.Outcome(seedType + "|weak-parameter-mutants-accepted-by-parser-but-no-usable-primitive")
	}
}

// ---- deviation-bounded mutation sections -------------------------------------------------------------------------

var hugeMu sync.Mutex // leaves whose mutant makes tink allocate gigabytes run one at a time

var (
	allSeeds []*seed
	catMu    sync.Mutex
	catCache = map[[2]int]*catalogue{}
)

type catalogue struct {
	ks  []ksMut
	key []keyMut
}

func seedsFor(x *h.X) []*seed {
	if x.Thorough() {
		return allSeeds
	}
	var out []*seed
	for _, s := range allSeeds {
		if s.quick {
			out = append(out, s)
		}
	}
	return out
}

func catalogueOf(s *seed, si, t int) *catalogue {
	catMu.Lock()
	defer catMu.Unlock()
	if c, ok := catCache[[2]int{si, t}]; ok {
		return c
	}
	c := &catalogue{ks: ksCatalogue(s.ks), key: keyCatalogue(s.ks.Key[t].KeyData, s.alt[t])}
	catCache[[2]int{si, t}] = c
	return c
}

func applyKeyMut(m keyMut, value, alt []byte) (nv []byte, ok bool) {
	defer func() {
		if recover() != nil {
			nv, ok = nil, false
		}
	}()
	return m.f(value, alt), true
}

// quick tier of bound 2: one seed per primitive family
var bound2QuickSeeds = []string{"AesGcmKey/16", "AesCtrHmacAeadKey/16", "HmacKey/SHA256", "HkdfPrfKey/SHA256", "AesGcmHkdfStreamingKey/4096", "EcdsaPrivateKey/P256",
	"Ed25519PublicKey/TINK", "HpkePrivateKey/X25519", "JwtHmacKey/HS256", "PrfBasedDeriverKey/HKDFSHA256-AES128GCM", "multi/aead", "multi/signature"}

func mutSection(reduced bool) func(x *h.X) {
	return func(x *h.X) {
		seeds := seedsFor(x)
		if reduced && !x.Thorough() {
			seeds = nil
			for _, n := range bound2QuickSeeds {
				seeds = append(seeds, seedByName(n))
			}
		}
		si := x.Choose("seed", len(seeds))
		s := seeds[si]
		x.Label(s.name)
		gi := 0 // global index for the cache
		for i, a := range allSeeds {
			if a == s {
				gi = i
			}
		}
		t := primaryIndex(s.ks)
		if s.multi {
			t = x.Choose("target-key", len(s.ks.Key))
		}
		cat := catalogueOf(s, gi, t)
		ksm, keym := cat.ks, cat.key
		if reduced {
			ksm, keym = nil, nil
			for _, m := range cat.ks {
				if m.reduced {
					ksm = append(ksm, m)
				}
			}
			for _, m := range cat.key {
				if m.reduced {
					keym = append(keym, m)
				}
			}
		}
		a := x.Deviate("keyset-mutation", 1+len(ksm))
		if a > 0 {
			x.Label(ksm[a-1].name)
		}
		b := x.Deviate("key-mutation", 1+len(keym))
		if b > 0 {
			x.Label(keym[b-1].name)
		}
		c := 0
		if reduced && b > 0 && b < len(keym) {
			if d := x.Deviate("second-key-mutation", 1+len(keym)-b); d > 0 {
				c = b + d
				x.Label(keym[c-1].name)
			}
		}
		ks := proto.Clone(s.ks).(*tinkpb.Keyset)
		seedType := shortType(s.ks.Key[t].KeyData.TypeUrl)
		what := "seed " + s.name
		var altVal []byte
		if s.alt[t] != nil {
			altVal = s.alt[t].Value
		}
		huge := false
		for _, i := range []int{b, c} {
			if i == 0 {
				continue
			}
			huge = huge || keym[i-1].huge
			nv, ok := applyKeyMut(keym[i-1], ks.Key[t].KeyData.Value, altVal)
			if !ok {
				x.Outcome(seedType + "|second-mutation-inapplicable")
				return
			}
			ks.Key[t].KeyData.Value = nv
			what += fmt.Sprintf(" + key[%d] %s", t, keym[i-1].name)
		}
		if a > 0 {
			ok := true
			func() {
				defer func() {
					if recover() != nil {
						ok = false
					}
				}()
				ksm[a-1].f(ks, t)
			}()
			if !ok {
				x.Outcome(seedType + "|keyset-mutation-inapplicable")
				return
			}
			what += " + keyset " + ksm[a-1].name
		}
		if huge {
			hugeMu.Lock()
			defer hugeMu.Unlock()
			defer debug.FreeOSMemory()
		}
		judge(x, ks, seedType, what, a == 0 && b == 0 && c == 0, a != 0 || b%8 == 0, s.ks)
	}
}

func main() {
	allSeeds = buildSeeds()
	for _, a := range os.Args {
		if a == "thorough" {
			hugeInts = true
		}
	}
	h.Main("C14", "exploration",
		"deviation-bounded enumeration: seed corpus (one valid keyset per key type URL and parameter variant + 3 multi-key keysets) x structural mutation catalogue (keyset level: empty / primary / duplicate ids / every enum value and {-1,99} / nil and empty key data / type URLs; key level: every truncation, appended bytes, every scalar / enum / bytes / string / sub-message field of the key proto incl. nested KeyData and KeyTemplate values over a boundary set, EC point and RSA number edits, public/private halves swapped, the weak-parameter list of the statement); bound 1 over the full catalogue, bound 2 over the reduced catalogue (quick: 12 seeds, thorough: all). Keyset-level mutants, the pristine seeds and every 8th key-level mutant go through 6 entry paths (binary, JSON, encrypted under a real KEK, in-memory message; cleartext and no-secrets), the other key-level mutants through the two binary paths. Arbitrary input: all byte strings up to length 2/3, all JSON texts up to length 5/6 over {}[]\":,0a, every one-byte edit of minimal keysets (judged by an independent wire decoder), grammar-shaped JSON edits, EncryptedKeyset garbage. Section keymanager-answers: keysets naming key types served by registered custom key managers (AEAD, DAEAD, MAC, PRF, streaming AEAD, signature and hybrid private / public) x {[C*],[R*,C],[C*,R],[R,C,R2*]} x prefix type of C x the key manager's Primitive() answer {correct, (nil,error), (nil,nil), primitive of another class, typed nil pointer} and PublicKeyData() answer {correct, error, nil, other type URL} (at most one unusual answer), read through the six entry paths: reading, Public(), primitive creation and one use fail with an error or succeed, never panic; accepted and Public() handles are well-formed. Oracles: no panic (parse, primitive creation, one use); accepted handle is well-formed; ill-formed keysets (reference rule) always rejected; created primitive self-consistent; weak keys (reference predicate) never usable. A case is non-trivial when a mutant / input was actually built and submitted; distinct = distinct choice vectors.",
		[]h.Section{
			{Name: "mutate-bound1", Body: mutSection(false), Bound: 1},
			{Name: "mutate-bound2-reduced", Body: mutSection(true), Bound: 2}, // quick: 12 seeds, thorough: all
			{Name: "bytes-exhaustive", Body: bytesSection, Bound: -1},
			{Name: "json-exhaustive", Body: jsonSection, Bound: -1},
			{Name: "near-minimal-keysets", Body: nearMinimalSection, Bound: -1},
			{Name: "json-grammar", Body: jsonGrammarSection, Bound: -1},
			{Name: "encrypted-keyset", Body: encryptedSection, Bound: -1},
			// custom key managers as collaborators with unusual answers (kmanswers.go)
			{Name: "keymanager-answers", Body: kmAnswersSection, Bound: 1},
		})
}
