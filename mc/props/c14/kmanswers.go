package main

// Section keymanager-answers: untrusted keyset bytes that name a key type served by a registered CUSTOM KEY MANAGER
// (no key parser, no primitive constructor: fallback key + legacy primitive route), the key manager being a
// collaborator whose answers are enumerated (deviation-bounded: well-behaved by default, one unusual answer per
// execution). The answer of Primitive(serializedKey) / PublicKeyData(serializedKey) is selected by a byte of the
// key VALUE - i.e. by the untrusted input itself - so nothing process-global changes between executions.
//
//	Primitive():     a correct RAW primitive of the class (verif/ref/kmprims.go, Go stdlib) | (nil, error) |
//	                 (nil, nil) | a primitive of ANOTHER class | a typed nil pointer of the right type (its methods
//	                 return an error on a nil receiver)
//	PublicKeyData(): correct | (nil, error) | (nil, nil) | key data of the OTHER asymmetric class's public type URL
//
// Domain: classes {AEAD, DAEAD, MAC, PRF, streaming AEAD, signature, hybrid} (signature / hybrid: the private keyset
// and the public keyset) x keysets {[C*], [R*,C], [C*,R], [R,C,R2*]} (C the custom key id 0x22, R / R2 regular keys
// of the seed corpus, ids 0x11 / 0x33, all ENABLED) x output prefix type of C {TINK, CRUNCHY, LEGACY, RAW} x
// Primitive() answer (5) and, for private keysets, x PublicKeyData() answer (4). Every keyset is serialized and
// read back through the six entry paths of the check (binary / JSON / encrypted under the real KEK / in-memory
// message; cleartext and no-secrets).
//
// Oracle (C14 only): reading, handle.Public() (private keysets), creating the primitive of the class - and, for
// [C*], of every other class - and one use of it either fail with an error or succeed: never a panic. Every
// accepted handle and every handle returned by Public() is well-formed. With only correct answers some entry
// path must accept the keyset (vacuity guard) and the primitive must be created, usable and self-consistent.
//
// Don't-care cells: whether a keyset with an unusable key is refused by a factory or tolerated; whether Public()
// refuses an odd PublicKeyData() answer; self-consistency when the key manager answered unusually; error texts.

import (
	"bytes"
	"errors"
	"fmt"

	"google.golang.org/protobuf/proto"

	"github.com/tink-crypto/tink-go/v2/core/registry"
	"github.com/tink-crypto/tink-go/v2/keyset"
	tinkpb "github.com/tink-crypto/tink-go/v2/proto/tink_go_proto"
	"verif/h"
	"verif/ref"
)

const kaURLPrefix = "type.googleapis.com/verif.c14.answers."

const (
	kaCorrect = iota
	kaError
	kaNilNil
	kaOtherClass
	kaTypedNil
)

const (
	kaPubCorrect = iota
	kaPubError
	kaPubNil
	kaPubOtherURL
)

var (
	kaAnswerNames    = []string{"correct raw primitive", "(nil, error)", "(nil, nil)", "primitive of another class", "typed nil pointer of the right type"}
	kaPubAnswerNames = []string{"correct", "(nil, error)", "(nil, nil)", "key data of another type URL"}
	kaRoles          = []string{"Aead", "Daead", "Mac", "SigPrivate", "SigPublic", "HybridPrivate", "HybridPublic", "Prf", "StreamingAead"}
)

func kaURL(role string) string { return kaURLPrefix + role + "Key" }

func kaMaterial(role string) []byte {
	switch role {
	case "SigPrivate", "SigPublic":
		role = "Sig"
	case "HybridPrivate", "HybridPublic":
		role = "Hybrid"
	}
	return kb("answers/"+role, 32)
}

// key value: 0xA5, Primitive() answer, PublicKeyData() answer
func kaValue(ans, pubAns int) []byte { return []byte{0xA5, byte(ans), byte(pubAns)} }

type kaKM struct{ role string }

func (m *kaKM) Primitive(serializedKey []byte) (any, error) {
	if len(serializedKey) != 3 || serializedKey[0] != 0xA5 {
		return nil, errors.New("c14 answers key manager: invalid key")
	}
	k := kaMaterial(m.role)
	switch serializedKey[1] {
	case kaError:
		return nil, errors.New("c14 answers key manager: Primitive() answers with an error")
	case kaNilNil:
		return nil, nil
	case kaOtherClass:
		if m.role == "Mac" {
			return &ref.KMAead{K: k}, nil
		}
		return &ref.KMMac{K: k}, nil
	case kaTypedNil:
		switch m.role {
		case "Aead":
			return (*ref.KMAead)(nil), nil
		case "Daead":
			return (*ref.KMDaead)(nil), nil
		case "Mac":
			return (*ref.KMMac)(nil), nil
		case "SigPrivate":
			return (*ref.KMSigner)(nil), nil
		case "SigPublic":
			return (*ref.KMVerifier)(nil), nil
		case "HybridPrivate":
			return (*ref.KMHybridDecrypt)(nil), nil
		case "HybridPublic":
			return (*ref.KMHybridEncrypt)(nil), nil
		case "Prf":
			return (*ref.KMPrf)(nil), nil
		}
		return (*ref.KMStream)(nil), nil
	}
	switch m.role {
	case "Aead":
		return &ref.KMAead{K: k}, nil
	case "Daead":
		return &ref.KMDaead{K: k}, nil
	case "Mac":
		return &ref.KMMac{K: k}, nil
	case "SigPrivate":
		return &ref.KMSigner{K: k}, nil
	case "SigPublic":
		return &ref.KMVerifier{K: k}, nil
	case "HybridPrivate":
		return &ref.KMHybridDecrypt{K: k}, nil
	case "HybridPublic":
		return &ref.KMHybridEncrypt{K: k}, nil
	case "Prf":
		return &ref.KMPrf{K: k}, nil
	}
	return &ref.KMStream{K: k}, nil
}
func (m *kaKM) NewKey([]byte) (proto.Message, error) { return nil, errors.New("not supported") }
func (m *kaKM) DoesSupport(u string) bool            { return u == kaURL(m.role) }
func (m *kaKM) TypeURL() string                      { return kaURL(m.role) }
func (m *kaKM) NewKeyData([]byte) (*tinkpb.KeyData, error) {
	return nil, errors.New("not supported")
}

// kaPrivKM is a registry.PrivateKeyManager.
type kaPrivKM struct {
	kaKM
	pubRole, otherPubRole string
}

func (m *kaPrivKM) PublicKeyData(serializedKey []byte) (*tinkpb.KeyData, error) {
	if len(serializedKey) != 3 || serializedKey[0] != 0xA5 {
		return nil, errors.New("c14 answers key manager: invalid key")
	}
	switch serializedKey[2] {
	case kaPubError:
		return nil, errors.New("c14 answers key manager: PublicKeyData() answers with an error")
	case kaPubNil:
		return nil, nil
	case kaPubOtherURL:
		return &tinkpb.KeyData{TypeUrl: kaURL(m.otherPubRole), Value: bytes.Clone(serializedKey), KeyMaterialType: mPUB}, nil
	}
	return &tinkpb.KeyData{TypeUrl: kaURL(m.pubRole), Value: bytes.Clone(serializedKey), KeyMaterialType: mPUB}, nil
}

func init() {
	for _, r := range kaRoles {
		var km registry.KeyManager = &kaKM{role: r}
		switch r {
		case "SigPrivate":
			km = &kaPrivKM{kaKM: kaKM{role: r}, pubRole: "SigPublic", otherPubRole: "HybridPublic"}
		case "HybridPrivate":
			km = &kaPrivKM{kaKM: kaKM{role: r}, pubRole: "HybridPublic", otherPubRole: "SigPublic"}
		}
		if err := registry.RegisterKeyManager(km); err != nil {
			panic(err)
		}
	}
}

// kaClass: one keyset flavour of the section.
type kaClass struct {
	name    string // label
	role    string // role (type URL) of the custom key in this keyset
	use     string // class of use() for this keyset
	pubUse  string // class of use() for handle.Public() ("" = not a private keyset)
	mat     tinkpb.KeyData_KeyMaterialType
	r, r2   string // seed names of the regular keys
	pubHalf bool   // the regular keys are the PUBLIC halves of the seeds
}

func (c kaClass) String() string { return c.name }

var kaClasses = []kaClass{
	{name: "aead", role: "Aead", use: "aead", mat: mSYM, r: "AesGcmKey/16", r2: "AesGcmKey/32"},
	{name: "daead", role: "Daead", use: "daead", mat: mSYM, r: "AesSivKey/64", r2: "AesSivKey/64"},
	{name: "mac", role: "Mac", use: "mac", mat: mSYM, r: "HmacKey/SHA256-32-16", r2: "HmacKey/SHA1-16-10"},
	{name: "prf", role: "Prf", use: "prf", mat: mSYM, r: "HmacPrfKey/SHA256-32", r2: "HkdfPrfKey/SHA256-32"},
	{name: "streaming-aead", role: "StreamingAead", use: "saead", mat: mSYM, r: "AesGcmHkdfStreamingKey/4096-16-SHA256", r2: "AesCtrHmacStreamingKey/4096-16-SHA256-tag32"},
	{name: "signature-private", role: "SigPrivate", use: "sig-priv", pubUse: "sig-pub", mat: mPRIV, r: "Ed25519PrivateKey", r2: "Ed25519PrivateKey/legacy"},
	{name: "signature-public", role: "SigPublic", use: "sig-pub", mat: mPUB, r: "Ed25519PrivateKey", r2: "Ed25519PrivateKey/legacy", pubHalf: true},
	{name: "hybrid-private", role: "HybridPrivate", use: "hybrid-priv", pubUse: "hybrid-pub", mat: mPRIV, r: "HpkePrivateKey/X25519-SHA256-AES128GCM", r2: "HpkePrivateKey/P256-SHA256-AES256GCM"},
	{name: "hybrid-public", role: "HybridPublic", use: "hybrid-pub", mat: mPUB, r: "HpkePrivateKey/X25519-SHA256-AES128GCM", r2: "HpkePrivateKey/P256-SHA256-AES256GCM", pubHalf: true},
}

func (c kaClass) regular(name string) (*tinkpb.KeyData, tinkpb.OutputPrefixType) {
	k := seedByName(name).ks.Key[0]
	data := proto.Clone(k.KeyData).(*tinkpb.KeyData)
	if c.pubHalf {
		data = publicOf(data)
	}
	return data, k.OutputPrefixType
}

func kmAnswersSection(x *h.X) {
	c := h.Pick(x, "class", kaClasses)
	layout := h.Pick(x, "keyset", []string{"[C*]", "[R*,C]", "[C*,R]", "[R,C,R2*]"})
	prefix := h.Pick(x, "custom-key-prefix", []tinkpb.OutputPrefixType{pTINK, pCRUNCHY, pLEGACY, pRAW})
	ans := x.Deviate("Primitive()-answer", len(kaAnswerNames))
	x.Label(kaAnswerNames[ans])
	pubAns := kaPubCorrect
	if c.pubUse != "" {
		pubAns = x.Deviate("PublicKeyData()-answer", len(kaPubAnswerNames))
		x.Label(kaPubAnswerNames[pubAns])
	}
	usable := ans == kaCorrect && pubAns == kaPubCorrect
	const idC, idR, idR2 = 0x22, 0x11, 0x33
	en := tinkpb.KeyStatusType_ENABLED
	C := &tinkpb.Keyset_Key{KeyData: &tinkpb.KeyData{TypeUrl: kaURL(c.role), Value: kaValue(ans, pubAns), KeyMaterialType: c.mat}, Status: en, KeyId: idC, OutputPrefixType: prefix}
	rd, rp := c.regular(c.r)
	R := &tinkpb.Keyset_Key{KeyData: rd, Status: en, KeyId: idR, OutputPrefixType: rp}
	rd2, _ := c.regular(c.r2)
	R2 := &tinkpb.Keyset_Key{KeyData: rd2, Status: en, KeyId: idR2, OutputPrefixType: pRAW}
	ks := &tinkpb.Keyset{}
	switch layout {
	case "[C*]":
		ks.Key, ks.PrimaryKeyId = []*tinkpb.Keyset_Key{C}, idC
	case "[R*,C]":
		ks.Key, ks.PrimaryKeyId = []*tinkpb.Keyset_Key{R, C}, idR
	case "[C*,R]":
		ks.Key, ks.PrimaryKeyId = []*tinkpb.Keyset_Key{C, R}, idC
	default:
		ks.Key, ks.PrimaryKeyId = []*tinkpb.Keyset_Key{R, C, R2}, idR2
	}
	what := fmt.Sprintf("%s keyset %s (C = key of the custom type %s, prefix %v; its key manager answers Primitive(): %s", c.name, layout, kaURL(c.role), prefix, kaAnswerNames[ans])
	if c.pubUse != "" {
		what += "; PublicKeyData(): " + kaPubAnswerNames[pubAns]
	}
	what += ")"
	if wf := ref.KeysetWellFormed(viewOf(ks)); wf != "" {
		x.Fail("harness", "keymanager-answers: %s is not well-formed: %s", what, wf)
		return
	}
	bin, err := proto.Marshal(ks)
	if err != nil {
		x.Fail("harness", "keymanager-answers: %s: %v", what, err)
		return
	}
	x.NonTrivial()
	tag := fmt.Sprintf("[Primitive(): %s | PublicKeyData(): %s]", kaAnswerNames[ans], kaPubAnswerNames[pubAns])

	// ---- reading
	var first *keyset.Handle
	for _, ep := range entryPaths {
		var hd *keyset.Handle
		var perr error
		applicable := true
		if p, msg := h.Try(func() { hd, perr, applicable = ep.open(ks, bin) }); p {
			x.Fail("panic-parse", "%s via %s: PANIC while reading the keyset: %s", what, ep.name, msg)
			continue
		}
		x.Eval(1)
		if !applicable {
			continue
		}
		if perr != nil {
			x.Logf("%s: %v", ep.name, perr)
			continue
		}
		checkHandle(x, hd, ep.name, what)
		if first == nil {
			first = hd
		}
	}
	if first == nil {
		if usable {
			// vacuity guard (as seed-rejected of the mutation sections): the section is about what happens AFTER parsing
			x.Fail("kmanswers-correct-unusable", "%s: every answer of the key manager is correct but the keyset is rejected by every entry path", what)
		}
		x.Outcome("rejected by every entry path " + tag)
		return
	}

	// ---- primitives of the accepted handle
	judgeUse := func(class string, hd *keyset.Handle, intended bool, via string) {
		r, panicked, msg := tryUse(class, hd)
		x.Eval(1)
		if panicked {
			x.Fail("panic-primitive/"+class, "%s%s: PANIC while creating / using the %s primitive of the accepted handle: %s", what, via, class, msg)
			return
		}
		if !intended {
			if r.created {
				x.Outcome("primitive of another class created from the custom key (not judged)")
			}
			return
		}
		switch {
		case usable && !(r.created && r.used && r.consistent):
			x.Fail("kmanswers-correct-unusable", "%s%s: every answer of the key manager is correct but the %s primitive is not created / usable / self-consistent: %s", what, via, class, r.detail)
		case r.created && r.used:
			x.Outcome("primitive created and used " + tag)
		case r.created:
			x.Outcome("primitive created, use returns an error " + tag)
		default:
			x.Outcome("factory refuses " + tag)
		}
	}
	judgeUse(c.use, first, true, "")
	if layout == "[C*]" {
		for _, other := range allClasses {
			if other != c.use {
				judgeUse(other, first, false, "")
			}
		}
	}
	if c.pubUse == "" {
		return
	}
	// ---- the public keyset of a private keyset
	var pub *keyset.Handle
	var perr error
	if p, msg := h.Try(func() { pub, perr = first.Public() }); p {
		x.Fail("panic-public", "%s: handle.Public() PANICS: %s", what, msg)
		return
	}
	x.Eval(1)
	if perr != nil {
		if usable {
			x.Fail("kmanswers-correct-unusable", "%s: every answer of the key manager is correct but handle.Public() fails: %v", what, perr)
		}
		x.Outcome("Public() refuses " + tag)
		return
	}
	x.Outcome("Public() succeeds " + tag)
	checkHandle(x, pub, "handle.Public()", what)
	judgeUse(c.pubUse, pub, true, " -> handle.Public()")
}
