package main

// Arbitrary-input sections of C14: exhaustive short byte strings and JSON texts, one-byte edits of minimal
// keysets, grammar-shaped JSON edits and EncryptedKeyset garbage under a real KEK.

import (
	"bytes"
	"encoding/base64"
	"fmt"
	"strconv"
	"strings"

	"google.golang.org/protobuf/proto"

	"github.com/tink-crypto/tink-go/v2/insecurecleartextkeyset"
	"github.com/tink-crypto/tink-go/v2/keyset"
	tinkpb "github.com/tink-crypto/tink-go/v2/proto/tink_go_proto"
	"verif/h"
	"verif/ref"
)

type rawPath struct {
	name string
	open func(data []byte) (*keyset.Handle, error)
}

var binaryRawPaths = []rawPath{
	{"binary/insecurecleartextkeyset.Read", func(d []byte) (*keyset.Handle, error) {
		return insecurecleartextkeyset.Read(keyset.NewBinaryReader(bytes.NewReader(d)))
	}},
	{"binary/keyset.ReadWithNoSecrets", func(d []byte) (*keyset.Handle, error) {
		return keyset.ReadWithNoSecrets(keyset.NewBinaryReader(bytes.NewReader(d)))
	}},
	{"binary-as-EncryptedKeyset/keyset.Read", func(d []byte) (*keyset.Handle, error) {
		return keyset.Read(keyset.NewBinaryReader(bytes.NewReader(d)), kek)
	}},
}

var jsonRawPaths = []rawPath{
	{"json/insecurecleartextkeyset.Read", func(d []byte) (*keyset.Handle, error) {
		return insecurecleartextkeyset.Read(keyset.NewJSONReader(bytes.NewReader(d)))
	}},
	{"json/keyset.ReadWithNoSecrets", func(d []byte) (*keyset.Handle, error) {
		return keyset.ReadWithNoSecrets(keyset.NewJSONReader(bytes.NewReader(d)))
	}},
	{"json-as-EncryptedKeyset/keyset.Read", func(d []byte) (*keyset.Handle, error) {
		return keyset.Read(keyset.NewJSONReader(bytes.NewReader(d)), kek)
	}},
}

// submit runs data through the paths. mustReject != "": any acceptance is a violation with that key.
// Returns the number of paths that accepted.
func submit(x *h.X, paths []rawPath, data []byte, what func() string, mustReject string) int {
	acc := 0
	for _, p := range paths {
		var hd *keyset.Handle
		var err error
		if pn, msg := h.Try(func() { hd, err = p.open(data) }); pn {
			x.Fail("panic-parse", "%s via %s: PANIC while reading: %s", what(), p.name, msg)
			continue
		}
		if err != nil {
			continue
		}
		acc++
		if mustReject != "" {
			x.Fail(mustReject, "%s via %s: input was accepted", what(), p.name)
		}
		checkHandle(x, hd, p.name, what())
	}
	x.Eval(len(paths))
	return acc
}

func tally(x *h.X, prefix string, acc, rej int) {
	if acc > 0 {
		x.OutcomeN(prefix+"|accepted", acc)
	}
	if rej > 0 {
		x.OutcomeN(prefix+"|rejected", rej)
	}
}

// all byte strings of length 0..2 (quick) / 0..3 (thorough)
func bytesSection(x *h.X) {
	maxLen := 2
	if x.Thorough() {
		maxLen = 3
	}
	L := x.Choose("length", maxLen+1)
	buf := make([]byte, L)
	if L > 0 {
		buf[0] = byte(x.Choose("byte0", 256))
	}
	x.NonTrivial()
	acc, rej := 0, 0
	var rec func(i int)
	rec = func(i int) {
		if i == L {
			a := submit(x, binaryRawPaths, buf, func() string { return fmt.Sprintf("byte string %x", buf) }, "short-input-accepted")
			if a > 0 {
				acc++
			} else {
				rej++
			}
			return
		}
		for v := 0; v < 256; v++ {
			buf[i] = byte(v)
			rec(i + 1)
		}
	}
	if L > ref.MinKeysetWireLen-1 {
		panic("bytesSection: bound exceeds the reference lemma")
	}
	if L == 0 {
		rec(0)
	} else {
		rec(1)
	}
	tally(x, fmt.Sprintf("bytes-len%d", L), acc, rej)
}

const jsonAlphabet = "{}[]\":,0a"

// all JSON texts of length <= 5 (quick) / 6 (thorough) over the alphabet { } [ ] " : , 0 a.
// No such text can describe a keyset with a key entry (`{"key":[{}]}` alone is 12 characters).
func jsonSection(x *h.X) {
	maxLen := 5
	if x.Thorough() {
		maxLen = 6
	}
	L := x.Choose("length", maxLen+1)
	buf := make([]byte, L)
	if L > 0 {
		buf[0] = jsonAlphabet[x.Choose("char0", len(jsonAlphabet))]
	}
	x.NonTrivial()
	acc, rej := 0, 0
	var rec func(i int)
	rec = func(i int) {
		if i == L {
			a := submit(x, jsonRawPaths, buf, func() string { return fmt.Sprintf("JSON text %q", buf) }, "short-input-accepted")
			if a > 0 {
				acc++
			} else {
				rej++
			}
			return
		}
		for v := 0; v < len(jsonAlphabet); v++ {
			buf[i] = jsonAlphabet[v]
			rec(i + 1)
		}
	}
	if L == 0 {
		rec(0)
	} else {
		rec(1)
	}
	tally(x, fmt.Sprintf("json-len%d", L), acc, rej)
}

func seedByName(prefix string) *seed {
	for _, s := range allSeeds {
		if strings.HasPrefix(s.name, prefix) {
			return s
		}
	}
	panic("no seed " + prefix)
}

// every one-byte substitution / insertion / deletion / truncation of small valid keysets, judged by the
// independent wire decoder of the reference.
func nearMinimalSection(x *h.X) {
	type base struct {
		name string
		b    []byte
	}
	ser := func(s *seed) []byte { b, _ := proto.Marshal(s.ks); return b }
	bases := []base{
		{"minimal-8-bytes", []byte{0x12, 0x06, 0x0a, 0x00, 0x10, 0x01, 0x20, 0x01}},
		{"minimal-with-ids", []byte{0x08, 0x05, 0x12, 0x08, 0x0a, 0x00, 0x10, 0x01, 0x18, 0x05, 0x20, 0x01}},
		{"two-keys", []byte{0x08, 0x05, 0x12, 0x08, 0x0a, 0x00, 0x10, 0x02, 0x18, 0x04, 0x20, 0x03, 0x12, 0x08, 0x0a, 0x00, 0x10, 0x01, 0x18, 0x05, 0x20, 0x04}},
		{"AesGcmKey", ser(seedByName("AesGcmKey/16"))},
		{"Ed25519PublicKey", ser(seedByName("Ed25519PublicKey/TINK"))},
	}
	bs := bases[x.Choose("base", len(bases))]
	x.Label(bs.name)
	kinds := []string{"substitute", "insert", "delete", "truncate"}
	kind := h.Pick(x, "edit", kinds)
	npos := len(bs.b)
	if kind == "insert" {
		npos++
	}
	pos := x.Choose("position", npos)
	x.NonTrivial()
	acc, rej, und := 0, 0, 0
	one := func(d []byte, desc func() string) {
		view, malformed, undecided := ref.ParseKeysetWire(d)
		must := ""
		switch {
		case undecided:
			und++
		case malformed:
			must = "malformed-accepted"
		default:
			if wf := ref.KeysetWellFormed(view); wf != "" {
				must = "illformed-accepted/" + wf
			}
		}
		what := func() string { return fmt.Sprintf("%s: %s -> %x", bs.name, desc(), d) }
		a := submit(x, binaryRawPaths[:2], d, what, must)
		// the same bytes as the plaintext of an authentic EncryptedKeyset
		enc, _ := proto.Marshal(&tinkpb.EncryptedKeyset{EncryptedKeyset: kekSeal(d, nil)})
		a += submit(x, binaryRawPaths[2:], enc, what, must)
		if a > 0 {
			acc++
		} else {
			rej++
		}
	}
	switch kind {
	case "substitute":
		for v := 0; v < 256; v++ {
			if byte(v) == bs.b[pos] {
				continue
			}
			d := bytes.Clone(bs.b)
			d[pos] = byte(v)
			one(d, func() string { return fmt.Sprintf("byte %d := %02x", pos, v) })
		}
	case "insert":
		for v := 0; v < 256; v++ {
			d := append(append(bytes.Clone(bs.b[:pos]), byte(v)), bs.b[pos:]...)
			one(d, func() string { return fmt.Sprintf("%02x inserted at %d", v, pos) })
		}
	case "delete":
		d := append(bytes.Clone(bs.b[:pos]), bs.b[pos+1:]...)
		one(d, func() string { return fmt.Sprintf("byte %d deleted", pos) })
	case "truncate":
		one(bytes.Clone(bs.b[:pos]), func() string { return fmt.Sprintf("truncated to %d bytes", pos) })
	}
	tally(x, "near-minimal/"+bs.name+"/"+kind, acc, rej)
	if und > 0 {
		x.OutcomeN("near-minimal|reference-undecided(groups)", und)
	}
}

// ---- grammar-shaped JSON ----------------------------------------------------------------------------------------

type jnode struct {
	kind   byte // 'o' object, 'a' array, 'v' raw value
	fields []*jfield
	elems  []*jnode
	raw    string
}
type jfield struct {
	name string
	val  *jnode
}

func (n *jnode) render(sb *strings.Builder) {
	switch n.kind {
	case 'v':
		sb.WriteString(n.raw)
	case 'a':
		sb.WriteByte('[')
		for i, e := range n.elems {
			if i > 0 {
				sb.WriteByte(',')
			}
			e.render(sb)
		}
		sb.WriteByte(']')
	case 'o':
		sb.WriteByte('{')
		for i, f := range n.fields {
			if i > 0 {
				sb.WriteByte(',')
			}
			sb.WriteString(strconv.Quote(f.name))
			sb.WriteByte(':')
			f.val.render(sb)
		}
		sb.WriteByte('}')
	}
}

func jv(raw string) *jnode { return &jnode{kind: 'v', raw: raw} }

// jsonDoc builds the proto3-JSON text of a one-key keyset by hand (not with tink's writer) and returns the
// addressable fields: name -> (parent object, index).
func jsonDoc(ks *tinkpb.Keyset) (*jnode, map[string][2]any) {
	k := ks.Key[0]
	keyData := &jnode{kind: 'o', fields: []*jfield{
		{"typeUrl", jv(strconv.Quote(k.KeyData.TypeUrl))},
		{"value", jv(strconv.Quote(base64.StdEncoding.EncodeToString(k.KeyData.Value)))},
		{"keyMaterialType", jv(strconv.Quote(k.KeyData.KeyMaterialType.String()))},
	}}
	key0 := &jnode{kind: 'o', fields: []*jfield{
		{"keyData", keyData},
		{"status", jv(strconv.Quote(k.Status.String()))},
		{"keyId", jv(fmt.Sprint(k.KeyId))},
		{"outputPrefixType", jv(strconv.Quote(k.OutputPrefixType.String()))},
	}}
	keys := &jnode{kind: 'a', elems: []*jnode{key0}}
	root := &jnode{kind: 'o', fields: []*jfield{{"primaryKeyId", jv(fmt.Sprint(ks.PrimaryKeyId))}, {"key", keys}}}
	return root, map[string][2]any{
		"primaryKeyId": {root, 0}, "key": {root, 1},
		"keyData": {key0, 0}, "status": {key0, 1}, "keyId": {key0, 2}, "outputPrefixType": {key0, 3},
		"typeUrl": {keyData, 0}, "value": {keyData, 1}, "keyMaterialType": {keyData, 2},
	}
}

var jsonFieldNames = []string{"primaryKeyId", "key", "key[0]", "keyData", "status", "keyId", "outputPrefixType", "typeUrl", "value", "keyMaterialType"}

var jsonReplacements = []string{"null", "true", "false", "0", "1", "2", "3", "4", "5", "-1", "99", "4294967295", "4294967296", "1.5", "1e0", "1.0", `""`, `"x"`, `"0"`, `"1"`, `"99"`,
	`"ENABLED"`, `"DISABLED"`, `"DESTROYED"`, `"UNKNOWN_STATUS"`, `"TINK"`, `"RAW"`, `"UNKNOWN_PREFIX"`, `"WITH_ID_REQUIREMENT"`, `"enabled"`, `"Tink"`, `"SYMMETRIC"`, `"REMOTE"`,
	"[]", "{}", "[ORIG]", `{"a":ORIG}`, "ORIG_AS_STRING"}

var statusNames = map[string]int32{"UNKNOWN_STATUS": 0, "ENABLED": 1, "DISABLED": 2, "DESTROYED": 3}
var prefixNames = map[string]int32{"UNKNOWN_PREFIX": 0, "TINK": 1, "LEGACY": 2, "RAW": 3, "CRUNCHY": 4, "WITH_ID_REQUIREMENT": 5}

// candidate interpretations of a replacement text for an integer / enum field (besides "error" and "default")
func candidateInts(raw string, names map[string]int32) []int64 {
	s := strings.Trim(raw, `"`)
	var out []int64
	if f, err := strconv.ParseFloat(s, 64); err == nil && f == float64(int64(f)) {
		out = append(out, int64(f), int64(uint32(int64(f))), int64(int32(int64(f))))
	}
	for n, v := range names {
		if strings.EqualFold(n, s) {
			out = append(out, int64(v))
		}
	}
	if s == "true" {
		out = append(out, 1)
	}
	return out
}

func jsonGrammarSection(x *h.X) {
	seeds := []*seed{seedByName("AesGcmKey/16"), seedByName("Ed25519PublicKey/TINK")}
	s := seeds[x.Choose("seed", len(seeds))]
	x.Label(s.name)
	baseView := viewOf(s.ks)
	render := func(n *jnode) string { var sb strings.Builder; n.render(&sb); return sb.String() }
	x.NonTrivial()
	acc, rej := 0, 0
	run := func(text string, must string, desc string) {
		a := submit(x, jsonRawPaths[:2], []byte(text), func() string { return fmt.Sprintf("%s: %s -> %s", s.name, desc, trunc(text, 400)) }, must)
		if a > 0 {
			acc++
		} else {
			rej++
		}
	}
	// mustReject iff EVERY candidate interpretation (field absent/default, or a plausible coercion) is ill-formed
	decide := func(cands []*ref.KSView) string {
		rule := ""
		for _, v := range cands {
			r := ref.KeysetWellFormed(v)
			if r == "" {
				return ""
			}
			rule = r
		}
		return "illformed-accepted/" + rule
	}
	withField := func(field string, val *int64) *ref.KSView {
		v := &ref.KSView{Primary: baseView.Primary, Keys: []ref.KSKey{baseView.Keys[0]}}
		set := func(p *int64) int64 {
			if p == nil {
				return 0
			}
			return *p
		}
		switch field {
		case "primaryKeyId":
			v.Primary = uint32(set(val))
		case "key", "key[0]":
			if field == "key" {
				v.Keys = nil
			} else {
				v.Keys = []ref.KSKey{{}}
			}
		case "status":
			v.Keys[0].Status = int32(set(val))
		case "keyId":
			v.Keys[0].ID = uint32(set(val))
		case "outputPrefixType":
			v.Keys[0].Prefix = int32(set(val))
		}
		return v
	}
	mode := h.Pick(x, "mode", []string{"control", "drop", "duplicate", "retype", "rename", "document"})
	switch mode {
	case "control":
		root, _ := jsonDoc(s.ks)
		text := render(root)
		a := submit(x, jsonRawPaths[:1], []byte(text), func() string { return "hand-written JSON of seed " + s.name }, "")
		if a != 1 {
			x.Fail("seed-rejected", "hand-written proto3-JSON text of seed %s is rejected: %s", s.name, text)
		}
		acc++
	case "drop", "duplicate", "retype", "rename":
		fi := x.Choose("field", len(jsonFieldNames))
		fname := jsonFieldNames[fi]
		x.Label(fname)
		root, addr := jsonDoc(s.ks)
		structural := map[string]bool{"primaryKeyId": true, "key": true, "key[0]": true, "status": true, "keyId": true, "outputPrefixType": true}[fname]
		var parent *jnode
		idx := 0
		if fname != "key[0]" {
			parent, idx = addr[fname][0].(*jnode), addr[fname][1].(int)
		}
		keysArr := addr["key"][0].(*jnode).fields[1].val
		switch mode {
		case "drop":
			must := ""
			if structural {
				must = decide([]*ref.KSView{withField(fname, nil)})
			}
			if fname == "key[0]" {
				keysArr.elems = nil
				must = "illformed-accepted/empty"
			} else {
				parent.fields = append(parent.fields[:idx:idx], parent.fields[idx+1:]...)
			}
			run(render(root), must, "field "+fname+" dropped")
		case "duplicate":
			if fname == "key[0]" {
				keysArr.elems = append(keysArr.elems, keysArr.elems[0])
				run(render(root), "illformed-accepted/duplicate-id", "key entry listed twice")
				break
			}
			f := parent.fields[idx]
			for _, where := range []string{"adjacent", "at-end", "at-start"} {
				r2, a2 := jsonDoc(s.ks)
				p2 := a2[fname][0].(*jnode)
				switch where {
				case "adjacent":
					p2.fields = append(p2.fields[:idx+1:idx+1], append([]*jfield{f}, p2.fields[idx+1:]...)...)
				case "at-end":
					p2.fields = append(p2.fields, f)
				case "at-start":
					p2.fields = append([]*jfield{f}, p2.fields...)
				}
				run(render(r2), "", "field "+fname+" duplicated "+where)
			}
			// duplicate with a conflicting value
			r3, a3 := jsonDoc(s.ks)
			p3 := a3[fname][0].(*jnode)
			p3.fields = append(p3.fields, &jfield{f.name, jv("0")})
			run(render(r3), "", "field "+fname+" repeated with value 0")
		case "retype":
			for _, rep := range jsonReplacements {
				r2, a2 := jsonDoc(s.ks)
				var target **jnode
				if fname == "key[0]" {
					target = &a2["key"][0].(*jnode).fields[1].val.elems[0]
				} else {
					target = &a2[fname][0].(*jnode).fields[a2[fname][1].(int)].val
				}
				var sb strings.Builder
				(*target).render(&sb)
				orig := sb.String()
				raw := strings.ReplaceAll(rep, "ORIG", orig)
				if rep == "ORIG_AS_STRING" {
					raw = strconv.Quote(strings.Trim(orig, `"`))
				}
				if raw == orig {
					continue
				}
				*target = jv(raw)
				must := ""
				if structural {
					cands := []*ref.KSView{withField(fname, nil)}
					if fname != "key" && fname != "key[0]" {
						names := map[string]map[string]int32{"status": statusNames, "outputPrefixType": prefixNames}[fname]
						for _, c := range candidateInts(raw, names) {
							c := c
							cands = append(cands, withField(fname, &c))
						}
					} else if rep == "[ORIG]" || rep == "ORIG_AS_STRING" || rep == `{"a":ORIG}` {
						cands = append(cands, baseView) // a lenient reader might unwrap
					}
					must = decide(cands)
				}
				run(render(r2), must, fmt.Sprintf("field %s := %s", fname, trunc(raw, 60)))
			}
		case "rename":
			if fname == "key[0]" {
				break
			}
			f := parent.fields[idx]
			snake := map[string]string{"primaryKeyId": "primary_key_id", "keyData": "key_data", "keyId": "key_id", "outputPrefixType": "output_prefix_type",
				"typeUrl": "type_url", "keyMaterialType": "key_material_type", "key": "key", "status": "status", "value": "value"}[fname]
			for _, nn := range []string{snake, strings.ToUpper(fname[:1]) + fname[1:], fname + " ", strings.ToUpper(fname), "x" + fname} {
				if nn == fname {
					continue
				}
				old := f.name
				f.name = nn
				must := ""
				if structural && nn != snake {
					// an unknown name: error, or field ignored (= dropped), or matched case-insensitively (= unchanged)
					must = decide([]*ref.KSView{withField(fname, nil), baseView})
				}
				run(render(root), must, fmt.Sprintf("field %s renamed %q", fname, nn))
				f.name = old
			}
		}
	case "document":
		root, _ := jsonDoc(s.ks)
		t := render(root)
		for _, d := range []struct{ desc, text string }{
			{"leading/trailing whitespace", " \n\t" + t + "\r\n "},
			{"trailing brace", t + "}"}, {"document twice", t + t}, {"document twice with comma", t + "," + t}, {"wrapped in array", "[" + t + "]"},
			{"BOM prefix", "\xef\xbb\xbf" + t}, {"NUL suffix", t + "\x00"}, {"trailing comma in object", strings.TrimSuffix(t, "}") + ",}"},
			{"comment", "/*c*/" + t}, {"single quotes", strings.ReplaceAll(t, `"`, `'`)}, {"unknown extra field", strings.TrimSuffix(t, "}") + `,"extra":1}`},
			{"unknown extra field in key", strings.Replace(t, `"status"`, `"extra":{},"status"`, 1)},
			{"last brace missing", strings.TrimSuffix(t, "}")}, {"first brace missing", strings.TrimPrefix(t, "{")},
			{"deep nesting", strings.Repeat("[", 20000)}, {"deep object nesting", strings.Repeat(`{"key":[`, 5000)},
			{"huge number", strings.Replace(t, `"primaryKeyId":`, `"primaryKeyId":1`+strings.Repeat("0", 400)+`,"x":`, 1)},
			{"escaped field names", strings.Replace(t, `"key"`, `"key"`, 1)},
			{"value in URL-safe base64 without padding", strings.NewReplacer("+", "-", "/", "_", "=", "").Replace(t)},
			{"value with invalid base64", strings.Replace(t, `"value":"`, `"value":"*`, 1)},
			{"invalid UTF-8 in type url", strings.Replace(t, `"typeUrl":"`, "\"typeUrl\":\"\xff", 1)},
			// documents made of WHITESPACE only, and the valid document inside whitespace (rejected with an error or
			// read as the keyset: never a panic)
			{"one space", " "}, {"newline", "\n"}, {"CRLF", "\r\n"}, {"tab", "\t"}, {"spaces and newlines", " \n \n"}, {"NUL byte", "\x00"}, {"BOM only", "\xef\xbb\xbf"},
			{"leading whitespace", " \n\t" + t}, {"trailing whitespace", t + " \r\n"}, {"BOM + document", "\xef\xbb\xbf" + t}, {"document twice", t + t}, {"document + garbage", t + "x"},
		} {
			run(d.text, "", d.desc)
		}
		for cut := 0; cut < len(t); cut++ {
			run(t[:cut], "json-truncated-accepted", fmt.Sprintf("JSON text truncated to %d characters", cut))
		}
	}
	tally(x, "json-grammar/"+mode, acc, rej)
}

// ---- EncryptedKeyset ----------------------------------------------------------------------------------------------

func encryptedSection(x *h.X) {
	seeds := []*seed{seedByName("AesGcmKey/16"), seedByName("multi/mac")}
	s := seeds[x.Choose("seed", len(seeds))]
	x.Label(s.name)
	plain, _ := proto.Marshal(s.ks)
	x.NonTrivial()
	acc, rej := 0, 0
	encMsg := func(ct []byte, info *tinkpb.KeysetInfo) *tinkpb.EncryptedKeyset {
		return &tinkpb.EncryptedKeyset{EncryptedKeyset: ct, KeysetInfo: info}
	}
	// through the binary reader, the JSON reader and the in-memory reader
	readAll := func(e *tinkpb.EncryptedKeyset, aad []byte, must string, desc func() string) {
		bin, _ := proto.Marshal(e)
		js := []byte(fmt.Sprintf(`{"encryptedKeyset":%q}`, base64.StdEncoding.EncodeToString(e.GetEncryptedKeyset())))
		paths := []rawPath{
			{"binary/keyset.ReadWithAssociatedData", func([]byte) (*keyset.Handle, error) {
				return keyset.ReadWithAssociatedData(keyset.NewBinaryReader(bytes.NewReader(bin)), kek, aad)
			}},
			{"json/keyset.ReadWithAssociatedData", func([]byte) (*keyset.Handle, error) {
				return keyset.ReadWithAssociatedData(keyset.NewJSONReader(bytes.NewReader(js)), kek, aad)
			}},
			{"message/keyset.ReadWithAssociatedData(MemReaderWriter)", func([]byte) (*keyset.Handle, error) {
				return keyset.ReadWithAssociatedData(&keyset.MemReaderWriter{EncryptedKeyset: e}, kek, aad)
			}},
		}
		if len(aad) == 0 {
			paths = append(paths, rawPath{"binary/keyset.Read", func([]byte) (*keyset.Handle, error) {
				return keyset.Read(keyset.NewBinaryReader(bytes.NewReader(bin)), kek)
			}})
		}
		a := submit(x, paths, nil, desc, must)
		if a > 0 {
			acc++
		} else {
			rej++
		}
	}
	judgePlain := func(p []byte) string {
		view, malformed, undecided := ref.ParseKeysetWire(p)
		switch {
		case undecided:
			return ""
		case malformed:
			return "malformed-accepted"
		}
		if wf := ref.KeysetWellFormed(view); wf != "" {
			return "illformed-accepted/" + wf
		}
		return ""
	}
	kind := h.Pick(x, "kind", []string{"control", "garbage-ciphertext", "truncated-ciphertext", "bitflip-ciphertext", "authentic-truncated-plaintext",
		"authentic-short-garbage-plaintext", "associated-data", "outer-message-edits", "nil-and-empty"})
	switch kind {
	case "control":
		before := acc
		readAll(encMsg(kekSeal(plain, nil), nil), nil, "", func() string { return "authentic EncryptedKeyset of " + s.name })
		readAll(encMsg(kekSeal(plain, []byte("ad")), &tinkpb.KeysetInfo{PrimaryKeyId: 999}), []byte("ad"), "", func() string { return "authentic EncryptedKeyset with AD and lying keyset_info" })
		if acc-before != 2 {
			x.Fail("seed-rejected", "authentic EncryptedKeyset of seed %s is rejected", s.name)
		}
	case "garbage-ciphertext":
		for pat := 0; pat < 3; pat++ {
			for n := 0; n <= 64; n++ {
				ct := make([]byte, n)
				for i := range ct {
					ct[i] = []byte{0, 0xff, byte(i*37 + 1)}[pat]
				}
				readAll(encMsg(ct, nil), nil, "garbage-ciphertext-accepted", func() string { return fmt.Sprintf("garbage ciphertext %x", ct) })
			}
		}
		// the CLEARTEXT keyset in place of the ciphertext
		readAll(encMsg(plain, nil), nil, "garbage-ciphertext-accepted", func() string { return "cleartext keyset in the encrypted_keyset field" })
	case "truncated-ciphertext":
		ct := kekSeal(plain, nil)
		for cut := 0; cut < len(ct); cut++ {
			readAll(encMsg(ct[:cut], nil), nil, "garbage-ciphertext-accepted", func() string { return fmt.Sprintf("ciphertext truncated to %d of %d bytes", cut, len(ct)) })
		}
		for ext := 1; ext <= 3; ext++ {
			readAll(encMsg(append(bytes.Clone(ct), make([]byte, ext)...), nil), nil, "garbage-ciphertext-accepted", func() string { return fmt.Sprintf("ciphertext extended by %d bytes", ext) })
		}
	case "bitflip-ciphertext":
		ct := kekSeal(plain, nil)
		for i := range ct {
			for _, m := range []byte{0x01, 0x80} {
				c := bytes.Clone(ct)
				c[i] ^= m
				readAll(encMsg(c, nil), nil, "garbage-ciphertext-accepted", func() string { return fmt.Sprintf("ciphertext byte %d ^ %02x", i, m) })
			}
		}
	case "authentic-truncated-plaintext":
		for cut := 0; cut < len(plain); cut++ {
			readAll(encMsg(kekSeal(plain[:cut], nil), nil), nil, judgePlain(plain[:cut]), func() string { return fmt.Sprintf("authentic ciphertext of the keyset truncated to %d bytes", cut) })
		}
		for ext := 1; ext <= 3; ext++ {
			p := append(bytes.Clone(plain), make([]byte, ext)...)
			readAll(encMsg(kekSeal(p, nil), nil), nil, judgePlain(p), func() string { return fmt.Sprintf("authentic ciphertext of the keyset + %d zero bytes", ext) })
		}
	case "authentic-short-garbage-plaintext":
		b0 := x.Choose("byte0", 256)
		readAll(encMsg(kekSeal(nil, nil), nil), nil, "short-input-accepted", func() string { return "authentic ciphertext of the empty string" })
		readAll(encMsg(kekSeal([]byte{byte(b0)}, nil), nil), nil, "short-input-accepted", func() string { return fmt.Sprintf("authentic ciphertext of %02x", b0) })
		for b1 := 0; b1 < 256; b1++ {
			p := []byte{byte(b0), byte(b1)}
			readAll(encMsg(kekSeal(p, nil), nil), nil, "short-input-accepted", func() string { return fmt.Sprintf("authentic ciphertext of %x", p) })
		}
	case "associated-data":
		ads := [][]byte{nil, {}, []byte("a"), []byte("b"), []byte("aa"), bytes.Repeat([]byte{0}, 16)}
		for i, w := range ads {
			for j, r := range ads {
				must := "wrong-associated-data-accepted"
				if bytes.Equal(w, r) {
					must = ""
				}
				before := acc
				readAll(encMsg(kekSeal(plain, w), nil), r, must, func() string { return fmt.Sprintf("sealed with AD #%d %q, read with AD #%d %q", i, w, j, r) })
				if must == "" && acc == before {
					x.Fail("seed-rejected", "EncryptedKeyset sealed and read with the same AD %q is rejected", w)
				}
			}
		}
	case "outer-message-edits":
		ct := kekSeal(plain, nil)
		outer, _ := proto.Marshal(encMsg(ct, &tinkpb.KeysetInfo{PrimaryKeyId: 5, KeyInfo: []*tinkpb.KeysetInfo_KeyInfo{{TypeUrl: "t", Status: 1, KeyId: 5, OutputPrefixType: 1}}}))
		try := func(d []byte, desc func() string) {
			val, present, malformed, und := ref.WireLastBytesField(d, 2)
			must := ""
			switch {
			case und:
			case malformed:
				must = "malformed-accepted"
			case !present || !bytes.Equal(val, ct):
				must = "garbage-ciphertext-accepted"
			}
			a := submit(x, binaryRawPaths[2:], d, desc, must)
			if a > 0 {
				acc++
			} else {
				rej++
			}
		}
		for cut := 0; cut <= len(outer); cut++ {
			try(outer[:cut], func() string {
				return fmt.Sprintf("EncryptedKeyset message truncated to %d of %d bytes", cut, len(outer))
			})
		}
		// every byte value at the structural positions (first 4 bytes: tag + length, and the keyset_info part)
		hdr := len(outer) - len(ct)
		for pos := 0; pos < len(outer); pos++ {
			if pos >= 4 && pos < 4+len(ct)-4 && pos%16 != 0 {
				continue // inside the ciphertext: covered by bitflip-ciphertext; keep every 16th position
			}
			for v := 0; v < 256; v++ {
				if byte(v) == outer[pos] {
					continue
				}
				d := bytes.Clone(outer)
				d[pos] = byte(v)
				try(d, func() string { return fmt.Sprintf("EncryptedKeyset message byte %d := %02x", pos, v) })
			}
		}
		_ = hdr
	case "nil-and-empty":
		for i, rd := range []keyset.Reader{&keyset.MemReaderWriter{}, &keyset.MemReaderWriter{EncryptedKeyset: &tinkpb.EncryptedKeyset{}},
			&keyset.MemReaderWriter{EncryptedKeyset: &tinkpb.EncryptedKeyset{KeysetInfo: &tinkpb.KeysetInfo{}}}} {
			rd := rd
			a := submit(x, []rawPath{
				{"keyset.Read(MemReaderWriter)", func([]byte) (*keyset.Handle, error) { return keyset.Read(rd, kek) }},
				{"keyset.Read(MemReaderWriter, nil KEK)", func([]byte) (*keyset.Handle, error) { return keyset.Read(rd, nil) }},
				{"insecurecleartextkeyset.Read(MemReaderWriter)", func([]byte) (*keyset.Handle, error) { return insecurecleartextkeyset.Read(rd) }},
				{"keyset.ReadWithNoSecrets(MemReaderWriter)", func([]byte) (*keyset.Handle, error) { return keyset.ReadWithNoSecrets(rd) }},
			}, nil, func() string { return fmt.Sprintf("empty in-memory reader #%d", i) }, "empty-accepted")
			if a > 0 {
				acc++
			} else {
				rej++
			}
		}
		a := submit(x, []rawPath{
			{"keyset.NewHandleWithNoSecrets(nil)", func([]byte) (*keyset.Handle, error) { return keyset.NewHandleWithNoSecrets(nil) }},
			{"keyset.NewHandleWithNoSecrets(empty)", func([]byte) (*keyset.Handle, error) { return keyset.NewHandleWithNoSecrets(&tinkpb.Keyset{}) }},
			{"keyset.Read(valid, nil KEK)", func([]byte) (*keyset.Handle, error) {
				return keyset.Read(&keyset.MemReaderWriter{EncryptedKeyset: encMsg(kekSeal(plain, nil), nil)}, nil)
			}},
		}, nil, func() string { return "nil / empty keyset message" }, "empty-accepted")
		if a > 0 {
			acc++
		} else {
			rej++
		}
	}
	tally(x, "encrypted/"+kind, acc, rej)
}
