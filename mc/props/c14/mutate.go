package main

// Mutation catalogue of C14. Keyset-level mutations edit the tinkpb.Keyset; key-level mutations rewrite the
// serialized key value. Field mutations are generated GENERICALLY with protoreflect: every scalar / enum /
// bytes / string / message field of the key's proto (recursively, also through nested KeyData and KeyTemplate
// values) gets the boundary treatment, so no key type is forgotten and no per-type code is needed. A few
// structure-aware extras (EC points, RSA numbers, public/private swap) are added where the field names match.

import (
	"bytes"
	"crypto/elliptic"
	"fmt"
	"math"
	"math/big"
	"strings"

	"google.golang.org/protobuf/proto"
	"google.golang.org/protobuf/reflect/protoreflect"
	"google.golang.org/protobuf/reflect/protoregistry"

	tinkpb "github.com/tink-crypto/tink-go/v2/proto/tink_go_proto"
)

func newMsgByName(full string) protoreflect.Message {
	mt, err := protoregistry.GlobalTypes.FindMessageByName(protoreflect.FullName(full))
	if err != nil {
		return nil
	}
	return mt.New()
}

// newMsg returns an empty message for a tink type URL (nil if the proto is not linked in).
func newMsg(typeURL string) protoreflect.Message {
	if !strings.HasPrefix(typeURL, tp) {
		return nil
	}
	return newMsgByName("google.crypto.tink." + typeURL[len(tp):])
}

func marshal(m protoreflect.Message) []byte {
	b, err := proto.MarshalOptions{Deterministic: true}.Marshal(m.Interface())
	if err != nil {
		panic(err)
	}
	return b
}

// ---- key-level mutations --------------------------------------------------------------------------------

type keyMut struct {
	name    string
	reduced bool                                       // member of the reduced catalogue (bound 2)
	huge    bool                                       // sets a size field >= 2^28: tink allocates that much; such leaves run one at a time
	f       func(value []byte, alt []byte) (nv []byte) // new serialized key value
}

type step struct {
	fd    protoreflect.FieldDescriptor
	enter string // full message name to parse the child's `value` bytes as ("" = plain sub-message)
}

func applyAt(full string, value []byte, p []step, fn func(protoreflect.Message)) []byte {
	m := newMsgByName(full)
	if m == nil {
		panic("applyAt: " + full)
	}
	if err := proto.Unmarshal(value, m.Interface()); err != nil {
		panic(fmt.Sprintf("applyAt %s: %v", full, err))
	}
	applyMsg(m, p, fn)
	return marshal(m)
}

func applyMsg(m protoreflect.Message, p []step, fn func(protoreflect.Message)) {
	if len(p) == 0 {
		fn(m)
		return
	}
	s := p[0]
	child := m.Mutable(s.fd).Message()
	if s.enter != "" {
		vfd := child.Descriptor().Fields().ByName("value")
		child.Set(vfd, protoreflect.ValueOfBytes(applyAt(s.enter, child.Get(vfd).Bytes(), p[1:], fn)))
		return
	}
	applyMsg(child, p[1:], fn)
}

// getAt returns the message at path p inside (full,value), or nil.
func getAt(full string, value []byte, p []step) protoreflect.Message {
	m := newMsgByName(full)
	if m == nil || proto.Unmarshal(value, m.Interface()) != nil {
		return nil
	}
	for _, s := range p {
		if !m.Has(s.fd) {
			return nil
		}
		m = m.Get(s.fd).Message()
		if s.enter != "" {
			vfd := m.Descriptor().Fields().ByName("value")
			n := newMsgByName(s.enter)
			if n == nil || proto.Unmarshal(m.Get(vfd).Bytes(), n.Interface()) != nil {
				return nil
			}
			m = n
		}
	}
	return m
}

var hugeInts = false // thorough tier: also 2^31-1 for signed fields (RSA-PSS salt_length: a 2 GiB salt per parse)

func intBoundary(cur int64, signed bool, name string) []int64 {
	if name == "version" {
		return []int64{1, 2, math.MaxUint32}
	}
	set := map[int64]bool{}
	var out []int64
	add := func(v int64) {
		if v == cur || set[v] {
			return
		}
		if !signed && (v < 0 || v > math.MaxUint32) {
			return
		}
		if signed && (v < math.MinInt32 || v > math.MaxInt32) {
			return
		}
		if signed && v > 1<<20 && !hugeInts {
			return
		}
		set[v] = true
		out = append(out, v)
	}
	for v := int64(0); v <= 40; v++ {
		add(v)
	}
	for _, v := range []int64{cur - 1, cur + 1, 47, 48, 49, 63, 64, 65, 66, 96, 127, 128, 129, 255, 256, 257, 4095, 4097, 65535, 65536,
		1 << 20, math.MaxInt32, 1 << 31, math.MaxUint32 - 1, math.MaxUint32, -1, -32, math.MinInt32} {
		add(v)
	}
	return out
}

// resize returns b cut or extended (with a counter pattern) to n bytes.
func resize(b []byte, n int) []byte {
	out := make([]byte, n)
	copy(out, b)
	for i := len(b); i < n; i++ {
		out[i] = byte(0x40 + i)
	}
	return out
}

func incr(b []byte) []byte { // big-endian +1 (same length, wraps)
	out := bytes.Clone(b)
	for i := len(out) - 1; i >= 0; i-- {
		out[i]++
		if out[i] != 0 {
			break
		}
	}
	return out
}

type bytesMut struct {
	name    string
	reduced bool
	f       func(b []byte) []byte
}

func bytesCatalogue(cur []byte) []bytesMut {
	ms := []bytesMut{
		{"emptied", true, func(b []byte) []byte { return nil }},
		{"short-1", true, func(b []byte) []byte { return b[:max(len(b)-1, 0)] }},
		{"short-front-1", false, func(b []byte) []byte { return b[min(1, len(b)):] }},
		{"long+1(00)", true, func(b []byte) []byte { return append(bytes.Clone(b), 0) }},
		{"long+1(ff)", false, func(b []byte) []byte { return append(bytes.Clone(b), 0xff) }},
		{"prepend-00", false, func(b []byte) []byte { return append([]byte{0}, b...) }},
		{"prepend-01", false, func(b []byte) []byte { return append([]byte{1}, b...) }},
		{"strip-leading-zeros", false, func(b []byte) []byte { return bytes.TrimLeft(b, "\x00") }},
		{"zeroed", true, func(b []byte) []byte { return make([]byte, len(b)) }},
		{"all-ff", true, func(b []byte) []byte { return bytes.Repeat([]byte{0xff}, len(b)) }},
		{"value+1", false, incr},
		{"first-bit-flipped", false, func(b []byte) []byte {
			o := bytes.Clone(b)
			if len(o) > 0 {
				o[0] ^= 0x80
			}
			return o
		}},
		{"doubled", false, func(b []byte) []byte { return append(bytes.Clone(b), b...) }},
	}
	for n := 0; n <= 40; n++ {
		n := n
		red := n == 15 || n == 24 || n == 31
		ms = append(ms, bytesMut{fmt.Sprintf("len=%d", n), red, func(b []byte) []byte { return resize(b, n) }})
	}
	for _, n := range []int{47, 48, 63, 64, 65, 66, 96, 128} {
		n := n
		ms = append(ms, bytesMut{fmt.Sprintf("len=%d", n), false, func(b []byte) []byte { return resize(b, n) }})
	}
	return ms
}

var otherTypeURLs = []string{"", "garbage", tp + "NoSuchKey", tp + "AesGcmKey", tp + "AesGcmSivKey", tp + "HmacKey", tp + "HkdfPrfKey",
	tp + "EcdsaPublicKey", tp + "Ed25519PrivateKey", tp + "RsaSsaPssPrivateKey", tp + "MlDsaPublicKey", tp + "KmsEnvelopeAeadKey"}

// walk appends the field mutations of message type `full` with current serialized value; p is the path
// from the top-level key message to this message.
func walk(full string, value []byte, altValue []byte, top string, p []step, pname string, out *[]keyMut) {
	m := newMsgByName(full)
	if m == nil || proto.Unmarshal(value, m.Interface()) != nil {
		return
	}
	var am protoreflect.Message
	if altValue != nil {
		if a := newMsgByName(full); proto.Unmarshal(altValue, a.Interface()) == nil {
			am = a
		}
	}
	path := func() []step { return append([]step{}, p...) }
	add := func(name string, reduced bool, fn func(protoreflect.Message)) {
		pp := path()
		*out = append(*out, keyMut{name: pname + name, reduced: reduced, f: func(v, _ []byte) []byte { return applyAt(top, v, pp, fn) }})
	}
	fds := m.Descriptor().Fields()
	for i := 0; i < fds.Len(); i++ {
		fd := fds.Get(i)
		fname := string(fd.Name())
		if fd.IsList() || fd.IsMap() {
			continue
		}
		switch fd.Kind() {
		case protoreflect.Uint32Kind, protoreflect.Uint64Kind, protoreflect.Fixed32Kind:
			for _, v := range intBoundary(int64(m.Get(fd).Uint()), false, fname) {
				v := v
				red := v == 0 || v == 1 || v == 9 || v == 15 || v == 24 || v == 1<<20
				add(fmt.Sprintf("%s=%d", fname, v), red, func(mm protoreflect.Message) {
					if fd.Kind() == protoreflect.Uint64Kind {
						mm.Set(fd, protoreflect.ValueOfUint64(uint64(v)))
					} else {
						mm.Set(fd, protoreflect.ValueOfUint32(uint32(v)))
					}
				})
				if v >= 1<<28 && fname != "version" {
					(*out)[len(*out)-1].huge = true
				}
			}
		case protoreflect.Int32Kind, protoreflect.Sint32Kind, protoreflect.Sfixed32Kind:
			for _, v := range intBoundary(m.Get(fd).Int(), true, fname) {
				v := v
				red := v == 0 || v == -1 || v == 1<<20
				add(fmt.Sprintf("%s=%d", fname, v), red, func(mm protoreflect.Message) { mm.Set(fd, protoreflect.ValueOfInt32(int32(v))) })
				if v >= 1<<28 {
					(*out)[len(*out)-1].huge = true
				}
			}
		case protoreflect.EnumKind:
			cur := m.Get(fd).Enum()
			vals := fd.Enum().Values()
			var nums []protoreflect.EnumNumber
			for j := 0; j < vals.Len(); j++ {
				nums = append(nums, vals.Get(j).Number())
			}
			nums = append(nums, -1, 99)
			for _, n := range nums {
				n := n
				if n == cur {
					continue
				}
				label := fmt.Sprint(n)
				if ev := vals.ByNumber(n); ev != nil {
					label = string(ev.Name())
				}
				add(fmt.Sprintf("%s=%s", fname, label), true, func(mm protoreflect.Message) { mm.Set(fd, protoreflect.ValueOfEnum(n)) })
			}
		case protoreflect.BoolKind:
			cur := m.Get(fd).Bool()
			add(fmt.Sprintf("%s=%v", fname, !cur), true, func(mm protoreflect.Message) { mm.Set(fd, protoreflect.ValueOfBool(!cur)) })
		case protoreflect.StringKind:
			for _, s := range []string{"", "x", strings.Repeat("k", 300), "\x00", "a\"b"} {
				s := s
				if s == m.Get(fd).String() {
					continue
				}
				add(fmt.Sprintf("%s=%q", fname, trunc(s, 8)), s == "", func(mm protoreflect.Message) { mm.Set(fd, protoreflect.ValueOfString(s)) })
			}
		case protoreflect.BytesKind:
			cur := m.Get(fd).Bytes()
			for _, bm := range bytesCatalogue(cur) {
				bm := bm
				if bytes.Equal(bm.f(cur), cur) {
					continue
				}
				add(fmt.Sprintf("%s:%s", fname, bm.name), bm.reduced, func(mm protoreflect.Message) {
					mm.Set(fd, protoreflect.ValueOfBytes(bm.f(mm.Get(fd).Bytes())))
				})
			}
			if am != nil && !bytes.Equal(am.Get(fd).Bytes(), cur) && fname != "public_key" {
				pp := path()
				*out = append(*out, keyMut{name: pname + fname + ":from-other-key", reduced: false, f: func(v, alt []byte) []byte {
					a := getAt(top, alt, pp)
					return applyAt(top, v, pp, func(mm protoreflect.Message) { mm.Set(fd, a.Get(fd)) })
				}})
			}
		case protoreflect.MessageKind:
			if !m.Has(fd) {
				add(fname+"=empty-message", false, func(mm protoreflect.Message) { mm.Mutable(fd) })
				continue
			}
			add(fname+"=cleared", true, func(mm protoreflect.Message) { mm.Clear(fd) })
			add(fname+"=emptied-message", false, func(mm protoreflect.Message) { mm.Set(fd, protoreflect.ValueOfMessage(mm.Get(fd).Message().New())) })
			child := m.Get(fd).Message()
			var achild protoreflect.Message
			if am != nil && am.Has(fd) {
				achild = am.Get(fd).Message()
				if (fname == "public_key" || strings.HasSuffix(fname, "_public_key")) && !proto.Equal(child.Interface(), achild.Interface()) {
					pp := path()
					*out = append(*out, keyMut{name: pname + fname + "=from-other-key(swap-halves)", reduced: true, f: func(v, alt []byte) []byte {
						a := getAt(top, alt, pp)
						return applyAt(top, v, pp, func(mm protoreflect.Message) { mm.Set(fd, a.Get(fd)) })
					}})
				}
			}
			cfull := string(child.Descriptor().FullName())
			np := append(path(), step{fd: fd})
			switch cfull {
			case "google.crypto.tink.KeyData", "google.crypto.tink.KeyTemplate":
				// the wrapper's own fields
				walkWrapper(child, top, np, pname+fname+".", out)
				turl := child.Get(child.Descriptor().Fields().ByName("type_url")).String()
				inner := ""
				if strings.HasPrefix(turl, tp) {
					inner = "google.crypto.tink." + turl[len(tp):]
					if cfull == "google.crypto.tink.KeyTemplate" {
						inner = strings.Replace(inner, "PrivateKey", "Key", 1) + "Format"
					}
				}
				if inner != "" && newMsgByName(inner) != nil {
					cv := child.Get(child.Descriptor().Fields().ByName("value")).Bytes()
					var av []byte
					if achild != nil {
						av = achild.Get(achild.Descriptor().Fields().ByName("value")).Bytes()
					}
					ep := append(path(), step{fd: fd, enter: inner})
					walk(inner, cv, av, top, ep, pname+fname+".value.", out)
					structureAware(inner, cv, av, top, ep, pname+fname+".value.", out)
				}
			default:
				var av []byte
				if achild != nil {
					av = marshal(achild)
				}
				walk(cfull, marshal(child), av, top, np, pname+fname+".", out)
			}
		}
	}
}

// walkWrapper: mutations of a nested KeyData / KeyTemplate wrapper (type URL, material type / prefix, value).
func walkWrapper(w protoreflect.Message, top string, p []step, pname string, out *[]keyMut) {
	add := func(name string, reduced bool, fn func(protoreflect.Message)) {
		pp := append([]step{}, p...)
		*out = append(*out, keyMut{name: pname + name, reduced: reduced, f: func(v, _ []byte) []byte { return applyAt(top, v, pp, fn) }})
	}
	fds := w.Descriptor().Fields()
	tfd, vfd := fds.ByName("type_url"), fds.ByName("value")
	cur := w.Get(tfd).String()
	urls := append([]string{}, otherTypeURLs...)
	if strings.Contains(cur, "PrivateKey") {
		urls = append(urls, strings.Replace(cur, "PrivateKey", "PublicKey", 1))
	}
	if strings.Contains(cur, "PublicKey") {
		urls = append(urls, strings.Replace(cur, "PublicKey", "PrivateKey", 1))
	}
	for _, u := range urls {
		u := u
		if u == cur {
			continue
		}
		add(fmt.Sprintf("type_url=%q", strings.TrimPrefix(u, tp)), u == "" || u == tp+"NoSuchKey", func(mm protoreflect.Message) { mm.Set(tfd, protoreflect.ValueOfString(u)) })
	}
	val := w.Get(vfd).Bytes()
	add("value=empty", true, func(mm protoreflect.Message) { mm.Set(vfd, protoreflect.ValueOfBytes(nil)) })
	for cut := 1; cut < len(val); cut++ {
		cut := cut
		add(fmt.Sprintf("value:trunc@%d", cut), false, func(mm protoreflect.Message) { mm.Set(vfd, protoreflect.ValueOfBytes(mm.Get(vfd).Bytes()[:cut])) })
	}
	add("value:+00", false, func(mm protoreflect.Message) {
		mm.Set(vfd, protoreflect.ValueOfBytes(append(bytes.Clone(mm.Get(vfd).Bytes()), 0)))
	})
	for _, name := range []string{"key_material_type", "output_prefix_type"} {
		efd := fds.ByName(protoreflect.Name(name))
		if efd == nil {
			continue
		}
		vals := efd.Enum().Values()
		var nums []protoreflect.EnumNumber
		for j := 0; j < vals.Len(); j++ {
			nums = append(nums, vals.Get(j).Number())
		}
		nums = append(nums, -1, 99)
		for _, n := range nums {
			n := n
			if n == w.Get(efd).Enum() {
				continue
			}
			add(fmt.Sprintf("%s=%d", name, n), true, func(mm protoreflect.Message) { mm.Set(efd, protoreflect.ValueOfEnum(n)) })
		}
	}
}

// ---- structure-aware extras -----------------------------------------------------------------------------

func curveByName(n string) elliptic.Curve {
	switch n {
	case "P256":
		return elliptic.P256()
	case "P384":
		return elliptic.P384()
	case "P521":
		return elliptic.P521()
	}
	return nil
}

// curveOf finds the NIST curve a message with x / y fields lives on ("" if none / unknown).
func curveOf(m protoreflect.Message) string {
	get := func(mm protoreflect.Message, names ...string) (protoreflect.Message, protoreflect.FieldDescriptor) {
		for i, n := range names {
			fd := mm.Descriptor().Fields().ByName(protoreflect.Name(n))
			if fd == nil {
				return nil, nil
			}
			if i == len(names)-1 {
				return mm, fd
			}
			mm = mm.Get(fd).Message()
		}
		return nil, nil
	}
	for _, pth := range [][]string{{"params", "curve"}, {"params", "kem_params", "curve_type"}} {
		if mm, fd := get(m, pth...); fd != nil && fd.Kind() == protoreflect.EnumKind {
			switch mm.Get(fd).Enum() {
			case 2:
				return "P256"
			case 3:
				return "P384"
			case 4:
				return "P521"
			}
			return ""
		}
	}
	if mm, fd := get(m, "algorithm"); fd != nil && string(fd.Enum().FullName()) == "google.crypto.tink.JwtEcdsaAlgorithm" {
		return map[protoreflect.EnumNumber]string{1: "P256", 2: "P384", 3: "P521"}[mm.Get(fd).Enum()]
	}
	if mm, fd := get(m, "params", "kem"); fd != nil {
		return map[protoreflect.EnumNumber]string{2: "P256", 3: "P384", 4: "P521"}[mm.Get(fd).Enum()]
	}
	return ""
}

func fixed(v *big.Int, n int) []byte {
	b := v.Bytes()
	if len(b) >= n {
		return b
	}
	return append(make([]byte, n-len(b)), b...)
}

// structureAware adds EC-point and RSA-number mutations to the message (full,value) at path p, and to its
// public_key sub-message.
func structureAware(full string, value, altValue []byte, top string, p []step, pname string, out *[]keyMut) {
	m := newMsgByName(full)
	if m == nil || proto.Unmarshal(value, m.Interface()) != nil {
		return
	}
	fds := m.Descriptor().Fields()
	if pk := fds.ByName("public_key"); pk != nil && pk.Kind() == protoreflect.MessageKind && m.Has(pk) {
		child := m.Get(pk).Message()
		structureAware(string(child.Descriptor().FullName()), marshal(child), nil, top, append(append([]step{}, p...), step{fd: pk}), pname+"public_key.", out)
	}
	add := func(name string, reduced bool, fn func(protoreflect.Message)) {
		pp := append([]step{}, p...)
		*out = append(*out, keyMut{name: pname + name, reduced: reduced, f: func(v, _ []byte) []byte { return applyAt(top, v, pp, fn) }})
	}
	setB := func(fd protoreflect.FieldDescriptor, b []byte) func(protoreflect.Message) {
		return func(mm protoreflect.Message) { mm.Set(fd, protoreflect.ValueOfBytes(b)) }
	}
	// sibling byte fields with coordinated lengths: k significant bytes move from one field to its neighbour (one
	// grows, the other shrinks, the sum stays), for every pair of consecutive byte fields of the message
	var bfs []protoreflect.FieldDescriptor
	for i := 0; i < fds.Len(); i++ {
		if fd := fds.Get(i); fd.Kind() == protoreflect.BytesKind && !fd.IsList() && len(m.Get(fd).Bytes()) >= 4 {
			bfs = append(bfs, fd)
		}
	}
	for i := 0; i+1 < len(bfs); i++ {
		for _, dir := range [][2]protoreflect.FieldDescriptor{{bfs[i], bfs[i+1]}, {bfs[i+1], bfs[i]}} {
			grow, shrink := dir[0], dir[1]
			for _, k := range []int{1, 2} {
				k := k
				add(fmt.Sprintf("pair:%s+%d-bytes,%s-%d-bytes", grow.Name(), k, shrink.Name(), k), false, func(mm protoreflect.Message) {
					g, sh := mm.Get(grow).Bytes(), mm.Get(shrink).Bytes()
					if len(sh) < k {
						return
					}
					mm.Set(grow, protoreflect.ValueOfBytes(append(bytes.Repeat([]byte{0x01}, k), g...)))
					mm.Set(shrink, protoreflect.ValueOfBytes(bytes.Clone(sh[k:])))
				})
			}
		}
	}
	// EC point in x / y
	xfd, yfd := fds.ByName("x"), fds.ByName("y")
	if xfd != nil && yfd != nil {
		if c := curveByName(curveOf(m)); c != nil {
			P := c.Params().P
			n := (c.Params().BitSize + 7) / 8
			x := new(big.Int).SetBytes(m.Get(xfd).Bytes())
			y := new(big.Int).SetBytes(m.Get(yfd).Bytes())
			add("EC:x=p", false, setB(xfd, fixed(P, n)))
			add("EC:x=x+p(x>=p,same-residue)", true, setB(xfd, new(big.Int).Add(x, P).Bytes()))
			add("EC:y=y+p(y>=p,same-residue)", false, setB(yfd, new(big.Int).Add(y, P).Bytes()))
			add("EC:y=p-y(negated-point)", true, setB(yfd, fixed(new(big.Int).Sub(P, y), n)))
			add("EC:y=y+1(off-curve)", true, setB(yfd, fixed(new(big.Int).Add(y, big.NewInt(1)), n)))
			add("EC:x=x+1(off-curve)", false, setB(xfd, fixed(new(big.Int).Add(x, big.NewInt(1)), n)))
			add("EC:(0,0)(infinity)", true, func(mm protoreflect.Message) {
				mm.Set(xfd, protoreflect.ValueOfBytes(make([]byte, n)))
				mm.Set(yfd, protoreflect.ValueOfBytes(make([]byte, n)))
			})
			add("EC:(empty,empty)", false, func(mm protoreflect.Message) {
				mm.Set(xfd, protoreflect.ValueOfBytes(nil))
				mm.Set(yfd, protoreflect.ValueOfBytes(nil))
			})
			// one coordinate oversized with SIGNIFICANT surplus bytes while the other is short or missing: parsers that
			// bound the sum of the lengths (or only one coordinate) meet an encoder that assumes each one fits
			xb, yb := fixed(x, n), fixed(y, n)
			for _, k := range []int{1, 2, 8} {
				k := k
				pad := bytes.Repeat([]byte{0x01}, k)
				add(fmt.Sprintf("EC:x+%d-significant-bytes,y-%d-bytes", k, k), k == 2, func(mm protoreflect.Message) {
					mm.Set(xfd, protoreflect.ValueOfBytes(append(bytes.Clone(pad), xb...)))
					mm.Set(yfd, protoreflect.ValueOfBytes(bytes.Clone(yb[k:])))
				})
				add(fmt.Sprintf("EC:y+%d-significant-bytes,x-%d-bytes", k, k), false, func(mm protoreflect.Message) {
					mm.Set(yfd, protoreflect.ValueOfBytes(append(bytes.Clone(pad), yb...)))
					mm.Set(xfd, protoreflect.ValueOfBytes(bytes.Clone(xb[k:])))
				})
				add(fmt.Sprintf("EC:x+%d-significant-bytes,y-empty", k), k == 2, func(mm protoreflect.Message) {
					mm.Set(xfd, protoreflect.ValueOfBytes(append(bytes.Clone(pad), xb...)))
					mm.Set(yfd, protoreflect.ValueOfBytes(nil))
				})
				add(fmt.Sprintf("EC:y+%d-significant-bytes,x-empty", k), false, func(mm protoreflect.Message) {
					mm.Set(yfd, protoreflect.ValueOfBytes(append(bytes.Clone(pad), yb...)))
					mm.Set(xfd, protoreflect.ValueOfBytes(nil))
				})
				add(fmt.Sprintf("EC:x+%d-significant-bytes,y-zero", k), false, func(mm protoreflect.Message) {
					mm.Set(xfd, protoreflect.ValueOfBytes(append(bytes.Clone(pad), xb...)))
					mm.Set(yfd, protoreflect.ValueOfBytes(make([]byte, n-k)))
				})
			}
			add("EC:x=2n-bytes,y-empty", false, func(mm protoreflect.Message) {
				mm.Set(xfd, protoreflect.ValueOfBytes(append(bytes.Clone(xb), yb...)))
				mm.Set(yfd, protoreflect.ValueOfBytes(nil))
			})
			add("EC:x<->y", false, func(mm protoreflect.Message) {
				a, b := mm.Get(xfd), mm.Get(yfd)
				mm.Set(xfd, b)
				mm.Set(yfd, a)
			})
			add("EC:minimal-encoding", false, func(mm protoreflect.Message) {
				mm.Set(xfd, protoreflect.ValueOfBytes(x.Bytes()))
				mm.Set(yfd, protoreflect.ValueOfBytes(y.Bytes()))
			})
			add("EC:8-leading-zeros", false, func(mm protoreflect.Message) {
				mm.Set(xfd, protoreflect.ValueOfBytes(append(make([]byte, 8), x.Bytes()...)))
				mm.Set(yfd, protoreflect.ValueOfBytes(append(make([]byte, 8), y.Bytes()...)))
			})
		}
	}
	// EC private scalar next to a public_key with a NIST curve: d = 0, d = n (group order), d = d + n
	if kv, pk := fds.ByName("key_value"), fds.ByName("public_key"); kv != nil && pk != nil && pk.Kind() == protoreflect.MessageKind && m.Has(pk) {
		if c := curveByName(curveOf(m.Get(pk).Message())); c != nil {
			N := c.Params().N
			n := (c.Params().BitSize + 7) / 8
			d := new(big.Int).SetBytes(m.Get(kv).Bytes())
			add("EC:d=0", true, setB(kv, make([]byte, n)))
			add("EC:d=order", false, setB(kv, fixed(N, n)))
			add("EC:d=d+order", true, setB(kv, fixed(new(big.Int).Add(d, N), n)))
			add("EC:d=order-d(negated)", false, setB(kv, fixed(new(big.Int).Sub(N, d), n)))
		}
	}
	// HPKE: encoded NIST point / scalar
	if pkb := fds.ByName("public_key"); pkb != nil && pkb.Kind() == protoreflect.BytesKind {
		if c := curveByName(curveOf(m)); c != nil {
			enc := m.Get(pkb).Bytes()
			n := (c.Params().BitSize + 7) / 8
			if len(enc) == 1+2*n {
				P := c.Params().P
				x, y := new(big.Int).SetBytes(enc[1:1+n]), new(big.Int).SetBytes(enc[1+n:])
				pt := func(t byte, a, b *big.Int) []byte { return append(append([]byte{t}, fixed(a, n)...), fixed(b, n)...) }
				add("ECpoint:y+1(off-curve)", true, setB(pkb, pt(4, x, new(big.Int).Add(y, big.NewInt(1)))))
				add("ECpoint:negated", true, setB(pkb, pt(4, x, new(big.Int).Sub(P, y))))
				add("ECpoint:x=p", false, setB(pkb, pt(4, P, y)))
				add("ECpoint:infinity(00)", true, setB(pkb, []byte{0}))
				add("ECpoint:all-zero", false, setB(pkb, pt(4, new(big.Int), new(big.Int))))
				add("ECpoint:compressed", false, setB(pkb, append([]byte{2 + byte(y.Bit(0))}, fixed(x, n)...)))
				add("ECpoint:tag=05", false, setB(pkb, pt(5, x, y)))
				add("ECpoint:hybrid-tag=06", false, setB(pkb, pt(6+byte(y.Bit(0)), x, y)))
			}
		}
	}
	if skb, pk := fds.ByName("private_key"), fds.ByName("public_key"); skb != nil && skb.Kind() == protoreflect.BytesKind && pk != nil && pk.Kind() == protoreflect.MessageKind && m.Has(pk) {
		if c := curveByName(curveOf(m.Get(pk).Message())); c != nil {
			N := c.Params().N
			n := (c.Params().BitSize + 7) / 8
			add("ECscalar:0", true, setB(skb, make([]byte, n)))
			add("ECscalar:order", false, setB(skb, fixed(N, n)))
			add("ECscalar:order-d", false, setB(skb, fixed(new(big.Int).Sub(N, new(big.Int).SetBytes(m.Get(skb).Bytes())), n)))
		}
	}
	// RSA public numbers
	nfd, efd := fds.ByName("n"), fds.ByName("e")
	if nfd != nil && efd != nil && nfd.Kind() == protoreflect.BytesKind {
		N := new(big.Int).SetBytes(m.Get(nfd).Bytes())
		w1024 := rsaFrom(weakRSAHex[1024][0], weakRSAHex[1024][1], weakRSAHex[1024][2], weakRSAHex[1024][3], 65537)
		w2047 := rsaFrom(weakRSAHex[2047][0], weakRSAHex[2047][1], weakRSAHex[2047][2], weakRSAHex[2047][3], 65537)
		add("RSA:n=1024-bit-modulus", true, setB(nfd, w1024.n))
		add("RSA:n=2047-bit-modulus", true, setB(nfd, w2047.n))
		add("RSA:n>>1(2047-bit)", false, setB(nfd, new(big.Int).Rsh(N, 1).Bytes()))
		add("RSA:n=n-1(even)", false, setB(nfd, new(big.Int).Sub(N, big.NewInt(1)).Bytes()))
		add("RSA:n-with-leading-zeros", false, setB(nfd, append(make([]byte, 3), N.Bytes()...)))
		for _, e := range []int64{0, 1, 2, 3, 17, 257, 65535, 65536, 65539, 1<<32 + 1, 1<<33 + 1} {
			add(fmt.Sprintf("RSA:e=%d", e), e == 3 || e == 65539, setB(efd, big.NewInt(e).Bytes()))
		}
		add("RSA:e=65537-with-leading-zeros", false, setB(efd, []byte{0, 0, 1, 0, 1}))
		add("RSA:e=2^256+1", false, setB(efd, new(big.Int).Add(new(big.Int).Lsh(big.NewInt(1), 256), big.NewInt(1)).Bytes()))
	}
	// RSA private numbers (public part in public_key)
	dfd, pfd, qfd := fds.ByName("d"), fds.ByName("p"), fds.ByName("q")
	dpfd, dqfd, crtfd, pk := fds.ByName("dp"), fds.ByName("dq"), fds.ByName("crt"), fds.ByName("public_key")
	if dfd != nil && pfd != nil && qfd != nil && dpfd != nil && dqfd != nil && crtfd != nil && pk != nil {
		setAll := func(k rsaKey) func(protoreflect.Message) {
			return func(mm protoreflect.Message) {
				pub := mm.Mutable(pk).Message()
				pub.Set(pub.Descriptor().Fields().ByName("n"), protoreflect.ValueOfBytes(k.n))
				pub.Set(pub.Descriptor().Fields().ByName("e"), protoreflect.ValueOfBytes(k.e))
				for fd, b := range map[protoreflect.FieldDescriptor][]byte{dfd: k.d, pfd: k.p, qfd: k.q, dpfd: k.dp, dqfd: k.dq, crtfd: k.crt} {
					mm.Set(fd, protoreflect.ValueOfBytes(b))
				}
			}
		}
		w := weakRSAHex[1024]
		add("RSA:consistent-1024-bit-key", true, setAll(rsaFrom(w[0], w[1], w[2], w[3], 65537)))
		w = weakRSAHex[2047]
		add("RSA:consistent-2047-bit-key", true, setAll(rsaFrom(w[0], w[1], w[2], w[3], 65537)))
		P := new(big.Int).SetBytes(m.Get(pfd).Bytes())
		Q := new(big.Int).SetBytes(m.Get(qfd).Bytes())
		Nn := new(big.Int).Mul(P, Q)
		for _, e := range []int64{3, 5, 17, 257, 65539, 65541, 65543, 1<<32 + 15} {
			one := big.NewInt(1)
			l := new(big.Int).Mul(new(big.Int).Sub(P, one), new(big.Int).Sub(Q, one))
			if new(big.Int).GCD(nil, nil, big.NewInt(e), l).Cmp(one) != 0 {
				continue
			}
			add(fmt.Sprintf("RSA:consistent-key-with-e=%d", e), e == 65539 || e == 17 || e == 3 || e == 5, setAll(rsaFrom(fmt.Sprintf("%x", Nn), "", fmt.Sprintf("%x", P), fmt.Sprintf("%x", Q), e)))
		}
		D := new(big.Int).SetBytes(m.Get(dfd).Bytes())
		add("RSA:d=d+1", true, setB(dfd, new(big.Int).Add(D, big.NewInt(1)).Bytes()))
		add("RSA:d=d+phi(equivalent-exponent)", false, func(mm protoreflect.Message) {
			one := big.NewInt(1)
			phi := new(big.Int).Mul(new(big.Int).Sub(P, one), new(big.Int).Sub(Q, one))
			mm.Set(dfd, protoreflect.ValueOfBytes(new(big.Int).Add(D, phi).Bytes()))
		})
		add("RSA:p<->q", true, func(mm protoreflect.Message) {
			a, b := mm.Get(pfd), mm.Get(qfd)
			mm.Set(pfd, b)
			mm.Set(qfd, a)
		})
		add("RSA:p<->q,dp<->dq,crt-recomputed", false, func(mm protoreflect.Message) {
			a, b := mm.Get(pfd), mm.Get(qfd)
			mm.Set(pfd, b)
			mm.Set(qfd, a)
			c, d := mm.Get(dpfd), mm.Get(dqfd)
			mm.Set(dpfd, d)
			mm.Set(dqfd, c)
			mm.Set(crtfd, protoreflect.ValueOfBytes(new(big.Int).ModInverse(P, Q).Bytes()))
		})
		for _, fd := range []protoreflect.FieldDescriptor{pfd, qfd, dpfd, dqfd, crtfd} {
			fd := fd
			V := new(big.Int).SetBytes(m.Get(fd).Bytes())
			add(fmt.Sprintf("RSA:%s=%s+1", fd.Name(), fd.Name()), fd == dpfd || fd == crtfd, setB(fd, new(big.Int).Add(V, big.NewInt(1)).Bytes()))
			add(fmt.Sprintf("RSA:%s=%s+2", fd.Name(), fd.Name()), false, setB(fd, new(big.Int).Add(V, big.NewInt(2)).Bytes()))
		}
		add("RSA:p=1,q=n", false, func(mm protoreflect.Message) {
			mm.Set(pfd, protoreflect.ValueOfBytes([]byte{1}))
			mm.Set(qfd, protoreflect.ValueOfBytes(Nn.Bytes()))
		})
		add("RSA:dp=dq=crt=0", false, func(mm protoreflect.Message) {
			for _, fd := range []protoreflect.FieldDescriptor{dpfd, dqfd, crtfd} {
				mm.Set(fd, protoreflect.ValueOfBytes(nil))
			}
		})
	}
}

// keyCatalogue returns every key-level mutation of one serialized key.
func keyCatalogue(k *tinkpb.KeyData, alt *tinkpb.KeyData) []keyMut {
	var out []keyMut
	val := k.GetValue()
	for cut := 0; cut < len(val); cut++ {
		cut := cut
		out = append(out, keyMut{name: fmt.Sprintf("value:trunc@%d", cut), reduced: cut == 0 || cut == 1 || cut == len(val)-1 || cut == len(val)/2,
			f: func(v, _ []byte) []byte { return v[:cut] }})
	}
	for ext := 1; ext <= 3; ext++ {
		for _, pat := range [][]byte{{0, 0, 0}, {0xff, 0xff, 0xff}, {0x08, 0x01, 0x00} /* = version:1 */, {0x0a, 0x01, 0x41}, {0x7a, 0x00, 0x00}} {
			ext, pat := ext, pat
			out = append(out, keyMut{name: fmt.Sprintf("value:append(%x)", pat[:ext]), reduced: ext == 1 && pat[0] == 0,
				f: func(v, _ []byte) []byte { return append(bytes.Clone(v), pat[:ext]...) }})
		}
	}
	out = append(out, keyMut{name: "value:unknown-field-appended", reduced: true, f: func(v, _ []byte) []byte {
		return append(bytes.Clone(v), 0xfa, 0x07, 0x03, 'a', 'b', 'c') // field 127, LEN 3
	}})
	out = append(out, keyMut{name: "value:duplicated(concatenated-twice)", reduced: false, f: func(v, _ []byte) []byte { return append(bytes.Clone(v), v...) }})
	m := newMsg(k.GetTypeUrl())
	if m == nil {
		return out
	}
	full := string(m.Descriptor().FullName())
	var av []byte
	if alt != nil {
		av = alt.GetValue()
	}
	walk(full, val, av, full, nil, "", &out)
	structureAware(full, val, av, full, nil, "", &out)
	if alt != nil {
		// everything but the public half from the other key (the reverse swap)
		if pk := m.Descriptor().Fields().ByName("public_key"); pk != nil && pk.Kind() == protoreflect.MessageKind {
			out = append(out, keyMut{name: "private-half-from-other-key(swap-halves)", reduced: true, f: func(v, a []byte) []byte {
				orig := getAt(full, v, nil)
				return applyAt(full, a, nil, func(mm protoreflect.Message) { mm.Set(pk, orig.Get(pk)) })
			}})
		}
		out = append(out, keyMut{name: "whole-value-from-other-key(control)", reduced: false, f: func(v, a []byte) []byte { return bytes.Clone(a) }})
	}
	return out
}

// ---- keyset-level mutations -----------------------------------------------------------------------------

type ksMut struct {
	name    string
	reduced bool
	f       func(ks *tinkpb.Keyset, t int) // edits a clone; t = target key index
}

func unusedID(ks *tinkpb.Keyset, start uint32) uint32 {
	for id := start; ; id++ {
		used := false
		for _, k := range ks.Key {
			if k != nil && k.KeyId == id {
				used = true
			}
		}
		if !used {
			return id
		}
	}
}

func primaryIndex(ks *tinkpb.Keyset) int {
	for i, k := range ks.Key {
		if k.KeyId == ks.PrimaryKeyId {
			return i
		}
	}
	return -1
}

func ksCatalogue(ks *tinkpb.Keyset) []ksMut {
	var out []ksMut
	add := func(name string, reduced bool, f func(ks *tinkpb.Keyset, t int)) {
		out = append(out, ksMut{name, reduced, f})
	}
	add("empty-keyset", true, func(ks *tinkpb.Keyset, t int) { ks.Key = nil })
	add("empty-keyset(primary=0)", false, func(ks *tinkpb.Keyset, t int) { ks.Key = nil; ks.PrimaryKeyId = 0 })
	add("primary=missing(0-or-unused)", true, func(ks *tinkpb.Keyset, t int) { ks.PrimaryKeyId = unusedID(ks, 0) })
	add("primary=absent-key(0xdeadbeef)", true, func(ks *tinkpb.Keyset, t int) { ks.PrimaryKeyId = unusedID(ks, 0xdeadbeef) })
	add("primary=id+1", false, func(ks *tinkpb.Keyset, t int) { ks.PrimaryKeyId = unusedID(ks, ks.PrimaryKeyId+1) })
	add("primary-key-DISABLED", true, func(ks *tinkpb.Keyset, t int) { ks.Key[primaryIndex(ks)].Status = tinkpb.KeyStatusType_DISABLED })
	add("primary-key-DESTROYED", true, func(ks *tinkpb.Keyset, t int) { ks.Key[primaryIndex(ks)].Status = tinkpb.KeyStatusType_DESTROYED })
	add("all-keys-DISABLED", false, func(ks *tinkpb.Keyset, t int) {
		for _, k := range ks.Key {
			k.Status = tinkpb.KeyStatusType_DISABLED
		}
	})
	for i, k := range ks.Key {
		i := i
		if k.Status != tinkpb.KeyStatusType_ENABLED {
			add(fmt.Sprintf("primary=id-of-%s-key[%d]", k.Status, i), true, func(ks *tinkpb.Keyset, t int) { ks.PrimaryKeyId = ks.Key[i].KeyId })
		}
	}
	// duplicate ids
	add("duplicate:target-appended-again", true, func(ks *tinkpb.Keyset, t int) { ks.Key = append(ks.Key, proto.Clone(ks.Key[t]).(*tinkpb.Keyset_Key)) })
	add("duplicate:target-appended-again-DISABLED", true, func(ks *tinkpb.Keyset, t int) {
		c := proto.Clone(ks.Key[t]).(*tinkpb.Keyset_Key)
		c.Status = tinkpb.KeyStatusType_DISABLED
		ks.Key = append(ks.Key, c)
	})
	add("duplicate:DISABLED-copy-first", false, func(ks *tinkpb.Keyset, t int) {
		c := proto.Clone(ks.Key[t]).(*tinkpb.Keyset_Key)
		c.Status = tinkpb.KeyStatusType_DISABLED
		ks.Key = append([]*tinkpb.Keyset_Key{c}, ks.Key...)
	})
	add("duplicate:two-DISABLED-copies-of-a-fresh-id", true, func(ks *tinkpb.Keyset, t int) {
		id := unusedID(ks, 1000)
		for j := 0; j < 2; j++ {
			c := proto.Clone(ks.Key[t]).(*tinkpb.Keyset_Key)
			c.Status = tinkpb.KeyStatusType_DISABLED
			c.KeyId = id
			ks.Key = append(ks.Key, c)
		}
	})
	add("duplicate:two-DESTROYED-copies-of-a-fresh-id", false, func(ks *tinkpb.Keyset, t int) {
		id := unusedID(ks, 1000)
		for j := 0; j < 2; j++ {
			c := proto.Clone(ks.Key[t]).(*tinkpb.Keyset_Key)
			c.Status = tinkpb.KeyStatusType_DESTROYED
			c.KeyId = id
			ks.Key = append(ks.Key, c)
		}
	})
	for i := range ks.Key {
		for j := range ks.Key {
			if i != j {
				i, j := i, j
				add(fmt.Sprintf("duplicate:key[%d].id=key[%d].id", j, i), false, func(ks *tinkpb.Keyset, t int) {
					if ks.Key[j].KeyId == ks.PrimaryKeyId {
						ks.PrimaryKeyId = ks.Key[i].KeyId
					}
					ks.Key[j].KeyId = ks.Key[i].KeyId
				})
			}
		}
	}
	// four entries whose ids are spread over the whole 32-bit range (differences beyond 2^31 in both directions), one id
	// listed twice, in every arrangement: duplicate detection must not depend on the ids being close or adjacent
	spread := []uint32{0x10000000, 0x70000000, 0xd0000000}
	for dup := range spread {
		var multiset []uint32
		for i, v := range spread {
			multiset = append(multiset, v)
			if i == dup {
				multiset = append(multiset, v)
			}
		}
		seen := map[[4]uint32]bool{}
		var perm func(cur []uint32, used int)
		perm = func(cur []uint32, used int) {
			if len(cur) == 4 {
				var a [4]uint32
				copy(a[:], cur)
				if seen[a] {
					return
				}
				seen[a] = true
				add(fmt.Sprintf("duplicate:spread-ids=%x", a), false, func(ks *tinkpb.Keyset, t int) {
					proto0 := ks.Key[t]
					ks.Key = nil
					for _, id := range a {
						c := proto.Clone(proto0).(*tinkpb.Keyset_Key)
						c.KeyId, c.Status = id, tinkpb.KeyStatusType_ENABLED
						ks.Key = append(ks.Key, c)
					}
					ks.PrimaryKeyId = spread[(dup+1)%3]
				})
				return
			}
			for i, v := range multiset {
				if used&(1<<i) == 0 {
					perm(append(append([]uint32{}, cur...), v), used|1<<i)
				}
			}
		}
		perm(nil, 0)
	}
	add("control:four-spread-ids", false, func(ks *tinkpb.Keyset, t int) {
		proto0 := ks.Key[t]
		ks.Key = nil
		for _, id := range []uint32{0x70000000, 0x10000000, 0xd0000000, 0x40000000} {
			c := proto.Clone(proto0).(*tinkpb.Keyset_Key)
			c.KeyId, c.Status = id, tinkpb.KeyStatusType_ENABLED
			ks.Key = append(ks.Key, c)
		}
		ks.PrimaryKeyId = 0xd0000000
	})
	// valid controls
	add("control:second-enabled-key-added", false, func(ks *tinkpb.Keyset, t int) {
		c := proto.Clone(ks.Key[t]).(*tinkpb.Keyset_Key)
		c.KeyId = unusedID(ks, 77)
		c.Status = tinkpb.KeyStatusType_ENABLED
		ks.Key = append(ks.Key, c)
	})
	add("control:disabled-and-destroyed-keys-added", false, func(ks *tinkpb.Keyset, t int) {
		for _, st := range []tinkpb.KeyStatusType{tinkpb.KeyStatusType_DISABLED, tinkpb.KeyStatusType_DESTROYED} {
			c := proto.Clone(ks.Key[t]).(*tinkpb.Keyset_Key)
			c.KeyId = unusedID(ks, 78)
			c.Status = st
			ks.Key = append([]*tinkpb.Keyset_Key{c}, ks.Key...)
		}
	})
	for _, id := range []uint32{0, 1, 0x7fffffff, 0x80000000, 0xffffffff} {
		id := id
		add(fmt.Sprintf("control:target-id=%#x", id), false, func(ks *tinkpb.Keyset, t int) {
			if unusedID(ks, id) != id {
				return
			}
			if ks.Key[t].KeyId == ks.PrimaryKeyId {
				ks.PrimaryKeyId = id
			}
			ks.Key[t].KeyId = id
		})
	}
	for _, v := range []int32{0, 1, 2, 3, 4, -1, 99} {
		v := v
		add(fmt.Sprintf("status=%d", v), true, func(ks *tinkpb.Keyset, t int) { ks.Key[t].Status = tinkpb.KeyStatusType(v) })
	}
	for _, v := range []int32{0, 1, 2, 3, 4, 5, 6, -1, 99} {
		v := v
		add(fmt.Sprintf("prefix=%d", v), true, func(ks *tinkpb.Keyset, t int) { ks.Key[t].OutputPrefixType = tinkpb.OutputPrefixType(v) })
	}
	for _, v := range []int32{0, 1, 2, 3, 4, 5, -1, 99} {
		v := v
		add(fmt.Sprintf("material=%d", v), true, func(ks *tinkpb.Keyset, t int) { ks.Key[t].KeyData.KeyMaterialType = tinkpb.KeyData_KeyMaterialType(v) })
	}
	add("keydata=nil", true, func(ks *tinkpb.Keyset, t int) { ks.Key[t].KeyData = nil })
	add("keydata=empty-message", false, func(ks *tinkpb.Keyset, t int) { ks.Key[t].KeyData = &tinkpb.KeyData{} })
	add("value=empty", true, func(ks *tinkpb.Keyset, t int) { ks.Key[t].KeyData.Value = nil })
	add("key-entry=empty-message", false, func(ks *tinkpb.Keyset, t int) { ks.Key[t] = &tinkpb.Keyset_Key{} })
	add("key-entry=nil", false, func(ks *tinkpb.Keyset, t int) { ks.Key[t] = nil })
	for _, u := range otherTypeURLs {
		u := u
		add(fmt.Sprintf("type_url=%q", strings.TrimPrefix(u, tp)), u == "" || u == tp+"NoSuchKey", func(ks *tinkpb.Keyset, t int) { ks.Key[t].KeyData.TypeUrl = u })
	}
	add("type_url=private<->public", false, func(ks *tinkpb.Keyset, t int) {
		u := ks.Key[t].KeyData.TypeUrl
		switch {
		case strings.Contains(u, "PrivateKey"):
			u = strings.Replace(u, "PrivateKey", "PublicKey", 1)
		case strings.Contains(u, "PublicKey"):
			u = strings.Replace(u, "PublicKey", "PrivateKey", 1)
		default:
			u += "x"
		}
		ks.Key[t].KeyData.TypeUrl = u
	})
	add("type_url=trailing-space", false, func(ks *tinkpb.Keyset, t int) { ks.Key[t].KeyData.TypeUrl += " " })
	add("type_url=no-prefix", false, func(ks *tinkpb.Keyset, t int) {
		ks.Key[t].KeyData.TypeUrl = strings.TrimPrefix(ks.Key[t].KeyData.TypeUrl, "type.googleapis.com/")
	})
	return out
}

func trunc(s string, n int) string {
	if len(s) > n {
		return s[:n] + "…"
	}
	return s
}
